#!/usr/bin/env python3
"""Refresh the generated parts of DESIGN.md: the findings table (section 9.2) from known_findings.json and the
as-built summary table (section 9.5) from MANIFEST.json."""
import json, os, re
V = os.path.dirname(os.path.dirname(os.path.abspath(__file__)))
kf = json.load(open(os.path.join(V, 'known_findings.json')))['findings']
man = json.load(open(os.path.join(V, 'MANIFEST.json')))
rows = ['| property | finding | status | what |', '|---|---|---|---|']
for e in kf:
    what = re.sub(r'^fixed: property=\S+ \S+ ', '', e['what'])
    st = ('fixed %s' % e.get('commit')) if e['status'] == 'fixed' else '**open**'
    rows.append('| %s | %s | %s | %s |' % (e['property'], e['id'], st, what.replace('|', '/')[:330]))
tbl = '\n'.join(rows)
rows2 = ['| id | level | technique | theorems audited | claimed assurance (first sentence) |', '|---|---|---|---|---|']
import importlib, sys
sys.path.insert(0, V)
for c in man['checks']:
    n = ''
    try:
        mod = importlib.import_module('harness.props.' + c['property_id'].lower())
        n = str(len(mod.CHECK.theorems))
    except Exception:
        pass
    rows2.append('| %s | %s | %s | %s | %s |' % (c['property_id'], c['level_claimed']['category'], c.get('technique', '').replace('|', '/'),
                                            n, c['level_claimed']['text'].split('. ')[0].replace('|', '/')[:260]))
tbl2 = '\n'.join(rows2)
p = os.path.join(V, 'DESIGN.md')
s = open(p).read()
for name, t in (('FINDINGS', tbl), ('ASBUILT', tbl2)):
    b, e = '<!-- %s-BEGIN -->' % name, '<!-- %s-END -->' % name
    if b in s:
        s = s[:s.index(b) + len(b)] + '\n' + t + '\n' + s[s.index(e):]
open(p, 'w').write(s)
print(len(kf), 'findings,', len(man['checks']), 'checks')
