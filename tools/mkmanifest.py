#!/usr/bin/env python3
"""Regenerate MANIFEST.json from the table below (kept here so the file stays valid and consistent)."""
import json, os
V = os.path.dirname(os.path.dirname(os.path.abspath(__file__)))
props = [json.loads(l) for l in open(os.path.join(V, 'properties.jsonl'))]

CLAIMED = {
 'C01': dict(level='proof', design='DESIGN.md 4/C01',
   text="Lean 4 theorems C01_step / C01_history: every trace of the flat engine model, for all configurations, histories and condition valuations, is accepted by the documented-order acceptor; the model is tied to /repo by trace equality on generated cases and the same compiled acceptor judges the implementation's traces.",
   note="Trusted: Lean kernel (+propext, Quot.sound), hand-written model Model/Core.lean, acceptor Model/Spec/C01.lean, harness recorders; theorem hypotheses NoRaise/NoCmds/WF (raising callbacks and re-entrancy are C04/C05).",
   technique="Lean 4 proof (induction over histories) + differential correspondence + verified trace monitor"),
 'C05': dict(level='proof', design='DESIGN.md 4/C05',
   text="Lean 4 theorem C05_queued_history: for every queued configuration, every script whose callbacks trigger events / remove models / raise arbitrarily, and every history, the engine model's trace follows the abstract FIFO queue (run-to-completion incl. finalize, arrival order, at most once, deferred calls return True, discard on escape, remove_model drops exactly that model's pending entries, drain returns only when empty). Proved by simulation; the same acceptor judges implementation traces; unqueued immediacy by model equality.",
   note="Trusted: Lean kernel, Model/Core.lean (_process, remove_model) tied by trace equality, acceptor Model/Spec/C05.lean, visibility marker (first finalize callback). Hierarchical machines share Machine._process; their queue behaviour is exercised by the nested correspondence.",
   technique="Lean 4 proof (simulation with an abstract queue) + differential correspondence + verified trace monitor"),
}

checks = []
for pid, c in CLAIMED.items():
    checks.append({
        "property_id": pid,
        "quick_cmd": "./vcheck run %s --tier quick" % pid,
        "thorough_cmd": "./vcheck run %s --tier thorough" % pid,
        "evidence_file": "evidence/%s.json" % pid,
        "replay_cmd_template": "./vcheck replay %s {path}" % pid,
        "engine": "lean-model+harness",
        "level_claimed": {"category": c['level'], "text": c['text'], "design_ref": c['design']},
        "level_note": c['note'],
        "technique": c['technique'],
    })
na = [{"property_id": p["id"], "reason": "check not built yet in this session (work in progress; see DESIGN.md section 8 build order)"}
      for p in props if p["id"] not in CLAIMED]
m = {"version": 1, "setup_cmd": "./vcheck setup",
     "hooks": {"guard": "TRANSITIONS_VERIF",
               "enable": "no source hooks: recorders enter through public callback arguments; the harness sets TRANSITIONS_VERIF=1 (unused by the source)",
               "baseline_off_cmd": "cd /repo && /venv/bin/python -m pytest -ra -q -p no:cacheprovider --timeout=900 --continue-on-collection-errors",
               "source_commits": [], "add_only": True},
     "engines": [{"name": "lean-model", "path": "lean/", "serves_properties": sorted(CLAIMED), "kind_free_text": "Lean 4 executable model + theorems + compiled line-protocol driver with verified monitors"},
                 {"name": "harness", "path": "harness/", "serves_properties": sorted(CLAIMED), "kind_free_text": "Python differential harness driving the real classes in /repo"}],
     "checks": checks, "not_applicable": na,
     "notes": "fix: commits in /repo are listed in known_findings.json (status fixed)"}
json.dump(m, open(os.path.join(V, 'MANIFEST.json'), 'w'), indent=1)
print('claimed', sorted(CLAIMED), 'not claimed', len(na))
