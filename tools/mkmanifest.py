#!/venv/bin/python
"""Regenerate MANIFEST.json from the `manifest` dict of every check module in harness/props/
(kept mechanical so the file stays valid and consistent).  A property without a module, or whose
module has no CHECK.manifest, is listed under not_applicable with the reason in NOT_CLAIMED below."""
import importlib, json, os, sys
V = os.path.dirname(os.path.dirname(os.path.abspath(__file__)))
sys.path.insert(0, V)
props = [json.loads(l) for l in open(os.path.join(V, 'properties.jsonl'))]

NOT_CLAIMED = {}     # property id -> reason (default below)
DEFAULT_REASON = "check not built yet (work in progress; see DESIGN.md section 8 build order)"

claimed = {}
for p in props:
    pid = p['id']
    path = os.path.join(V, 'harness', 'props', pid.lower() + '.py')
    if not os.path.exists(path):
        continue
    mod = importlib.import_module('harness.props.' + pid.lower())
    man = getattr(mod.CHECK, 'manifest', None)
    if man:
        claimed[pid] = (man, mod.CHECK)

checks = []
engines = {}
for pid, (c, chk) in sorted(claimed.items()):
    checks.append({
        "property_id": pid,
        "quick_cmd": "./vcheck run %s --tier quick" % pid,
        "thorough_cmd": "./vcheck run %s --tier thorough" % pid,
        "evidence_file": "evidence/%s.json" % pid,
        "replay_cmd_template": "./vcheck replay %s {path}" % pid,
        "engine": c.get('engine', "lean-model+harness"),
        "level_claimed": {"category": c['level'], "text": c['text'], "design_ref": c['design']},
        "level_note": c['note'],
        "technique": c['technique'],
    })
    for e in c.get('engines', ()):
        engines.setdefault(e, []).append(pid)
na = [{"property_id": p["id"], "reason": NOT_CLAIMED.get(p["id"], DEFAULT_REASON)}
      for p in props if p["id"] not in claimed]
ENGINE_TEXT = {
    'thread-controller': ('harness/threads.py', 'deterministic thread scheduler around the real LockedMachine classes'),
    'async-controller': ('harness/asyncctl.py', 'controlled release of suspended callbacks on the real async classes'),
    'virtual-clock': ('harness/vclock.py', 'virtual Timer / event-loop clock'),
    'table-translator': ('harness/extract_tables.py', 'regenerates lean/Generated/Tables.lean from the live classes on every run'),
}
eng = [{"name": "lean-model", "path": "lean/", "serves_properties": sorted(claimed), "kind_free_text": "Lean 4 executable model + theorems + compiled line-protocol driver with verified monitors"},
       {"name": "harness", "path": "harness/", "serves_properties": sorted(claimed), "kind_free_text": "Python differential harness driving the real classes in /repo"}]
for e, pids in sorted(engines.items()):
    eng.append({"name": e, "path": ENGINE_TEXT[e][0], "serves_properties": sorted(pids), "kind_free_text": ENGINE_TEXT[e][1]})
hooks_commits = []
m = {"version": 1, "setup_cmd": "./vcheck setup",
     "hooks": {"guard": "TRANSITIONS_VERIF",
               "enable": "no source hooks: recorders enter through public callback arguments; the harness sets TRANSITIONS_VERIF=1 (unused by the source)",
               "baseline_off_cmd": "cd /repo && /venv/bin/python -m pytest -ra -q -p no:cacheprovider --timeout=900 --continue-on-collection-errors",
               "source_commits": hooks_commits, "add_only": True},
     "engines": eng,
     "checks": checks, "not_applicable": na,
     "notes": "fix: commits in /repo are listed in known_findings.json (status fixed)"}
json.dump(m, open(os.path.join(V, 'MANIFEST.json'), 'w'), indent=1)
print('claimed', sorted(claimed), 'not claimed', len(na))
