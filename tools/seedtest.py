#!/usr/bin/env python3
"""Confirm a seeded change and run registered checks against it.

    tools/seedtest.py <ID> <idx> <PROP> [<PROP> ...]      (ID = out dir name under /tmp/seed/out_<ID>)

1. in the scratch worktree /tmp/seed/wt_<ID>: demo passes clean, fails with the patch, test suite passes with it
2. in /repo: apply the patch, run `./vcheck run PROP` for each PROP, undo the patch
3. record everything under /verif/seeded/<ID>_<idx>/
"""
import json, os, shutil, subprocess, sys

def sh(cmd, cwd=None, env=None):
    p = subprocess.run(cmd, shell=True, cwd=cwd, env=env, stdout=subprocess.PIPE, stderr=subprocess.STDOUT, text=True)
    return p.returncode, p.stdout

def main():
    sid, idx, props = sys.argv[1], sys.argv[2], sys.argv[3:]
    out = os.environ.get('SEED_OUT') or '/tmp/seed/out_%s' % sid
    wt = os.environ.get('SEED_WT') or '/tmp/seed/wt_%s' % sid
    patch = '%s/patch%s.diff' % (out, idx)
    demo = '%s/demo%s.py' % (out, idx)
    note = '%s/note%s.txt' % (out, idx)
    env = dict(os.environ, PYTHONPATH=wt)
    meta = {'source': sid, 'index': idx, 'ran': []}
    if os.path.isdir(wt):
        sh('git checkout -- .', wt)
        rc0, o0 = sh('/venv/bin/python %s' % demo, wt, env)
        rca, oa = sh('git apply %s || git apply -3 %s' % (patch, patch), wt)
        rc1, o1 = sh('/venv/bin/python %s' % demo, wt, env)
        rct, ot = sh('/venv/bin/python -m pytest -q -p no:cacheprovider -x -n 8 tests 2>&1 | tail -2', wt)
        sh('git checkout -- .', wt)
        meta['confirm'] = {'demo_clean_rc': rc0, 'patch_applies': rca == 0, 'demo_patched_rc': rc1,
                           'demo_patched_output': o1[-600:], 'tests_with_patch': ot.strip()[-200:]}
        print('confirm:', meta['confirm']['demo_clean_rc'], meta['confirm']['demo_patched_rc'], meta['confirm']['tests_with_patch'])
    # run the registered checks against the patched scratch worktree (VERIF_REPO), so that /repo itself —
    # which concurrently running checks import — is never modified
    rc, o = sh('git apply %s' % patch, wt)
    if rc != 0:
        rc, o = sh('git apply -3 %s' % patch, wt)      # written against an earlier tree
        if rc != 0 or 'with conflicts' in o:
            print('patch does not apply:', o[-300:]); sh('git checkout -- .', wt); sh('git reset -q --hard', wt); return 2
    env2 = dict(os.environ, VERIF_REPO=wt, VERIF_EVIDENCE_DIR='/tmp/seed/evidence')
    try:
        for p in props:
            rc, o = sh('./vcheck run %s' % p, '/verif', env2)
            lines = [l for l in o.splitlines() if l.startswith(('VIOLATION', 'KNOWN-FINDING', 'MACHINERY', p))]
            print(p, 'rc=%d' % rc, ' | '.join(lines)[:400])
            meta['ran'].append({'check': p, 'exit': rc, 'lines': lines})
    finally:
        sh('git checkout -- .', wt)
        sh('git reset -q --hard', wt)
        # C09's translator regenerates lean/Generated/Tables.lean from the tree under test: put the committed
        # (clean-tree) table back
        sh('git checkout -- lean/Generated/Tables.lean', '/verif')
    dst = '/verif/seeded/%s_%s' % (sid, os.environ.get('SEED_IDX') or idx)
    os.makedirs(dst, exist_ok=True)
    shutil.copy(patch, dst + '/patch.diff')
    shutil.copy(demo, dst + '/demo.py')
    if os.path.exists(note):
        meta['needs'] = open(note).read()
    meta['property'] = sid[:3]
    json.dump(meta, open(dst + '/meta.json', 'w'), indent=1)
    return 0

sys.exit(main())
