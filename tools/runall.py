#!/venv/bin/python
"""Run every claimed check (MANIFEST.json) once on the current tree and summarise.

    tools/runall.py [quick|thorough] [seed]

Used before committing evidence: the committed evidence/<ID>.json must come from a run on the clean tree."""
import json, os, subprocess, sys, time
V = os.path.dirname(os.path.dirname(os.path.abspath(__file__)))
tier = sys.argv[1] if len(sys.argv) > 1 else 'quick'
seed = sys.argv[2] if len(sys.argv) > 2 else '0'
man = json.load(open(os.path.join(V, 'MANIFEST.json')))
bad = 0
for c in man['checks']:
    cmd = c['quick_cmd'] if tier == 'quick' else c.get('thorough_cmd', c['quick_cmd'])
    t0 = time.time()
    p = subprocess.run(cmd, shell=True, cwd=V, env=dict(os.environ, VERIF_SEED=seed), stdout=subprocess.PIPE,
                       stderr=subprocess.STDOUT, text=True)
    lines = [l for l in p.stdout.splitlines() if l.startswith(('VIOLATION', 'KNOWN-FINDING', 'MACHINERY'))]
    last = p.stdout.strip().splitlines()[-1][:140] if p.stdout.strip() else ''
    print('%s rc=%d %.0fs | %s %s' % (c['property_id'], p.returncode, time.time() - t0, last,
                                      ' | '.join(l[:90] for l in lines)))
    sys.stdout.flush()
    bad += p.returncode != 0
sys.exit(1 if bad else 0)
