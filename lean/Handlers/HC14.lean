/-
  Handlers/HC14.lean — driver request of property C14.

    c14 <state whitelist codes> <transition whitelist codes> <cfg>
      → `<markup> | <rtOK> | 0`                       (import of the exported markup fails)
      → `<markup> | <rtOK> | 1 | <cfg'> | <markup'>`   (cfg' = importMk (exportMk cfg), markup' = exportMk cfg')

  `<cfg>` is the object state the harness extracts from the real machine, `<markup>` the model's
  export in the same encoding the harness applies to `machine.markup` (harness/markupcase.py `Codec`).
-/
import Handlers.Basic
import Model.Codec
import Model.Markup
import Proofs.C14

namespace Handlers
open TM.Codec TM.Mk

def pTri : P Tri := do
  let k ← nat
  pure (match k with | 0 => .none | 1 => .no | _ => .yes)

def pEvName : P EvName := do
  let k ← nat
  match k with
  | 0 => .plain <$> nat
  | 1 => .to <$> nats
  | _ => .toAttr <$> nats

def pTrans : P Trans := do
  let source ← nats
  let dest ← opt nats
  let prepare ← nats
  let conds ← list (do let c ← nat; let b ← bool; pure (c, b))
  let before ← nats
  let after ← nats
  pure { source, dest, prepare, conds, before, after }

def pEvent : P Event := do
  let name ← pEvName
  let trans ← list (do let k ← nats; let ts ← list pTrans; pure (k, ts))
  pure { name, trans }

def pSt : Nat → P St
  | 0 => failure
  | fuel + 1 => do
    let name ← nat
    let onEnter ← nats
    let onExit ← nats
    let onFinal ← nats
    let ignore ← pTri
    let final ← bool
    let initial ← opt nat
    let events ← list pEvent
    let children ← list (pSt fuel)
    pure (.mk name onEnter onExit onFinal ignore final initial events children)

def pOpts : P Opts := do
  let sendEvent ← bool
  let autoTransitions ← bool
  let queued ← bool
  let modelOverride ← bool
  let ignore ← pTri
  let modelAttribute ← opt nat
  pure { sendEvent, autoTransitions, queued, modelOverride, ignore, modelAttribute }

def pModel : P ModelC := do
  let cls ← nat
  let name ← opt nat
  let state ← nat
  pure { cls, name, state }

def pCfg (fuel : Nat) : P Cfg := do
  let hier ← bool
  let name ← opt nat
  let initial ← opt nat
  let prepareEvent ← nats
  let beforeSC ← nats
  let afterSC ← nats
  let finalize ← nats
  let onException ← nats
  let onFinal ← nats
  let opts ← pOpts
  let states ← list (pSt fuel)
  let events ← list pEvent
  let models ← list pModel
  pure { hier, name, initial, prepareEvent, beforeSC, afterSC, finalize, onException, onFinal, opts, states, events, models }

/-! encoders -/

def eNats (p : List Nat) : List Nat := p.length :: p
def eOpt {α} (f : α → List Nat) : Option α → List Nat
  | none => [0]
  | some a => 1 :: f a
def eTri : Tri → List Nat
  | .none => [0] | .no => [1] | .yes => [2]
def eBool (b : Bool) : List Nat := [if b then 1 else 0]
def eList {α} (f : α → List Nat) (l : List α) : List Nat := l.length :: l.flatMap f
def eEvName : EvName → List Nat
  | .plain n => [0, n]
  | .to p => 1 :: eNats p
  | .toAttr p => 2 :: eNats p
def eTrans (t : Trans) : List Nat :=
  eNats t.source ++ eOpt eNats t.dest ++ eNats t.prepare ++ eList (fun c => c.1 :: eBool c.2) t.conds ++
  eNats t.before ++ eNats t.after
def eEvent (e : Event) : List Nat :=
  eEvName e.name ++ eList (fun kv => eNats kv.1 ++ eList eTrans kv.2) e.trans

partial def eSt : St → List Nat
  | .mk name onEnter onExit onFinal ignore final initial events children =>
    name :: (eNats onEnter ++ eNats onExit ++ eNats onFinal ++ eTri ignore ++ eBool final ++
      eOpt (fun n => [n]) initial ++ eList eEvent events ++ eList eSt children)

def eOpts (o : Opts) : List Nat :=
  eBool o.sendEvent ++ eBool o.autoTransitions ++ eBool o.queued ++ eBool o.modelOverride ++ eTri o.ignore ++
  eOpt (fun n => [n]) o.modelAttribute

def eModel (m : ModelC) : List Nat := m.cls :: (eOpt (fun n => [n]) m.name ++ [m.state])

def eCfg (c : Cfg) : List Nat :=
  eBool c.hier ++ eOpt (fun n => [n]) c.name ++ eOpt (fun n => [n]) c.initial ++ eNats c.prepareEvent ++
  eNats c.beforeSC ++ eNats c.afterSC ++ eNats c.finalize ++ eNats c.onException ++ eNats c.onFinal ++
  eOpts c.opts ++ eList eSt c.states ++ eList eEvent c.events ++ eList eModel c.models

def eMTrans (t : MTrans) : List Nat :=
  eEvName t.trigger ++ eOpt eNats t.source ++ eOpt eNats t.dest ++ eNats t.prepare ++ eNats t.before ++
  eNats t.after ++ eNats t.conditions ++ eNats t.unl ++ [0]

partial def eMState : MState → List Nat
  | .mk name onEnter onExit onFinal ignore final initial transitions children =>
    name :: (eNats onEnter ++ eNats onExit ++ eNats onFinal ++ eOpt eTri ignore ++ eBool final ++
      eOpt (fun n => [n]) initial ++ eList eMTrans transitions ++ eList eMState children ++ [0])

def eMarkup (m : Markup) : List Nat :=
  eOpt (fun n => [n]) m.name ++ eOpt (fun n => [n]) m.initial ++ eNats m.prepareEvent ++ eNats m.beforeSC ++
  eNats m.afterSC ++ eNats m.finalize ++ eNats m.onException ++ eNats m.onFinal ++ eOpts m.opts ++
  eList eMState m.states ++ eList eMTrans m.transitions ++ eList eModel m.models ++ [0]

def c14Case : P String := do
  let wst ← nats
  let wtr ← nats
  let fuel := (← get).length
  let c ← pCfg fuel
  let wl : WL := ⟨wst, wtr⟩
  let mk := exportMk wl c
  let head := s!"{joinNats (eMarkup mk)} | {if rtOK wl c then 1 else 0}"
  match importMk c.hier mk with
  | none => pure s!"{head} | 0"
  | some c' => pure s!"{head} | 1 | {joinNats (eCfg c')} | {joinNats (eMarkup (exportMk wl c'))}"

def hC14 : List (String × Handler) := [("c14", fun ns => run c14Case ns)]

end Handlers
