import Model
namespace Handlers
def joinNats (l : List Nat) : String := " ".intercalate (l.map toString)
abbrev Handler := List Nat → Option String
end Handlers
