/-
  Handlers/HC07.lean — driver requests of property C07.

    aflat <qm> <kinds: (cb kind)…> <consts: (cb out)…> <cfg> <models> <script> <history>
        → `T <items…> S <model state …>` | `oof`      (the async flat engine `Model/Async.lean`)
-/
import Handlers.Basic
import Model.Async

namespace Handlers
open TM TM.Codec

def aflatCase : P String := do
  let qm ← nat
  let ks ← list (do let c ← nat; let k ← nat; pure (c, k))
  let cs ← list (do let c ← nat; let o ← out; pure (c, o))
  let c ← cfg
  let models ← nats
  let es ← list scriptEntry
  let h ← list cmd
  let qmax := (h.length + scriptCmds es + 2) * 8
  let fuel := scriptCmds es + 2
  let kd : Async.Kinds := fun cb => (alookup cb ks).getD 0
  -- callbacks listed in `consts` do the same at every invocation (deterministic conditions)
  let script : Script := fun cb k => match alookup cb cs with
    | some o => { out := o }
    | none => mkScript es cb k
  match Async.runHistoryP script kd c qm qmax fuel h (St.init c models) with
  | none => pure "oof"
  | some s =>
    let st := s.mstate.flatMap fun (m, v) => [m, v]
    pure s!"T {joinNats (encItems s.log)} S {joinNats (s.models.length :: s.models)} {joinNats st}"

def hC07 : List (String × Handler) := [("aflat", fun ns => run aflatCase ns)]

end Handlers
