/-
  Handlers/HC02.lean — driver requests of properties C02 / C03 (hierarchical engine).

    nested <ncfg> <script> <history: events…>
        → `T <items…> C <state value after every history item …> G <ok|diff>` | `oof` | `noinit`
          (the model run; `G` says whether the projection of the model's own `Item` log equals its ghost log)
    c02m <ncfg> <initial configuration (state value)> <items>   → `ok` | `reject <clause>`
    c03m <ncfg> <initial configuration (state value)> <items>   → `ok` | `reject <clause> …`
-/
import Handlers.Basic
import Model.NestedDispatch
import Model.Spec.C02
import Model.Spec.C03

namespace Handlers
open TM TM.Codec

def npath : P SPath := nats

def ntrans : P NTrans := do
  let source ← npath
  let dest ← opt npath
  let prepare ← nats
  let conds ← list cond
  let before ← nats
  let after ← nats
  pure { source, dest, prepare, conds, before, after }

def nevent : P (Nat × List NTrans) := do let e ← nat; let ts ← list ntrans; pure (e, ts)

/-- a `states` dictionary: `<n> (<state> <children…>)*`, depth-bounded by the number of tokens -/
def sforest : Nat → P SForest
  | 0 => failure
  | fuel + 1 => do
    let n ← nat
    let rec go : Nat → P SForest
      | 0 => pure .nil
      | k + 1 => do
        let name ← nat
        let onEnter ← nats
        let onExit ← nats
        let ig ← nat
        let initial ← nats
        let events ← list nevent
        let kids ← sforest fuel
        let rest ← go k
        pure (.cons { name, onEnter, onExit,
                      ignore := (match ig with | 0 => none | 1 => some false | _ => some true),
                      initial, events } kids rest)
    go n

def ncfg : P NCfg := do
  let toks ← get
  let states ← sforest (toks.length + 1)
  let events ← list nevent
  let prepareEvent ← nats
  let beforeSC ← nats
  let afterSC ← nats
  let finalize ← nats
  let onException ← nats
  let ignore ← bool
  let queued ← bool
  let initial ← npath
  pure { states, events, prepareEvent, beforeSC, afterSC, finalize, onException, ignore, queued, initial }

/-- state value: `0 <path>` | `1 <n> <values…>` -/
def encSVal : SVal → List Nat
  | .name p => 0 :: p.length :: p
  | v => 1 :: v.elems.length :: (go v)
where go : SVal → List Nat
  | .cons h t => encSVal h ++ go t
  | _ => []

def sval : Nat → P SVal
  | 0 => failure
  | fuel + 1 => do
    let k ← nat
    if k = 0 then .name <$> npath
    else do
      let l ← list (sval fuel)
      pure (l.foldr SVal.cons SVal.nil)

def svalTop : P SVal := do let toks ← get; sval (toks.length + 1)

/-- run the history item by item, collecting the state value after each -/
def runSteps (sc : Script) (cfg : NCfg) (qmax fuel : Nat) : List Nat → NSt → List (List Nat) → Option (NSt × List (List Nat))
  | [], s, acc => some (s, acc)
  | ev :: evs, s, acc =>
    match nrunCmd sc cfg qmax fuel (.trigger 0 ev) s with
    | .ok _ s' => runSteps sc cfg qmax fuel evs s' (acc ++ [encSVal (buildStateList [] s'.conf)])
    | .err _ s' => runSteps sc cfg qmax fuel evs s' (acc ++ [encSVal (buildStateList [] s'.conf)])
    | .oof => none

def nestedCase : P String := do
  let c ← ncfg
  let es ← list scriptEntry
  let h ← nats
  let qmax := (h.length + scriptCmds es + 2) * 8
  let fuel := scriptCmds es + 2
  match NSt.init c with
  | none => pure "noinit"
  | some s0 =>
    match runSteps (mkScript es) c qmax fuel h s0 [] with
    | none => pure "oof"
    | some (s, confs) =>
      let gs := C02.grun c (C02.G.init c s0.conf) s.glog
      let g := if C02.project c s.log ≠ s.glog then "diff"
        else if !(C02.invOK c gs s.conf) then "inv"
        else if gs.enteredWhileLive || gs.exitedWhileDead || gs.enterBeforeParent || gs.exitBeforeChild || gs.finBad
          then "flags" else "ok"
      pure s!"T {joinNats (encItems s.log)} C {joinNats (encSVal (buildStateList [] s0.conf) ++ confs.flatten)} G {g}"

/-- debugging aid: the model's ghost log and the projection of its item log, printed -/
def nestedGhostCase : P String := do
  let c ← ncfg
  let es ← list scriptEntry
  let h ← nats
  let qmax := (h.length + scriptCmds es + 2) * 8
  let fuel := scriptCmds es + 2
  match NSt.init c with
  | none => pure "noinit"
  | some s0 =>
    match runSteps (mkScript es) c qmax fuel h s0 [] with
    | none => pure "oof"
    | some (s, _) =>
      let txt := s!"GLOG {repr s.glog} PROJ {repr (C02.project c s.log)}"
      pure (String.ofList (txt.toList.map fun ch => if ch = '\n' then ' ' else ch))

def c02mCase : P String := do
  let c ← ncfg
  let v ← svalTop
  let items ← list item
  pure (C02.verdict c (buildStateTree v .nil) items)

def c03mCase : P String := do
  let c ← ncfg
  let v ← svalTop
  let items ← list item
  pure (C03.verdict c (buildStateTree v .nil) items)

def hC02 : List (String × Handler) :=
  [("nested", fun ns => run nestedCase ns), ("nestedg", fun ns => run nestedGhostCase ns), ("c02m", fun ns => run c02mCase ns), ("c03m", fun ns => run c03mCase ns)]

end Handlers
