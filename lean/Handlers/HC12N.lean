/-
  Handlers/HC12N.lean — driver request of property C12 on the hierarchical engine.

    nestedmay <ncfg> <script> <history: commands (kind model event)…>
        → `T <items…> C <state value before the history and after every history item …>` | `oof` | `noinit`
          (the run of `nrunCmdM`: `trigger` and `may_` calls, also re-entrant from scripted callbacks)
-/
import Handlers.HC02
import Model.NestedMay

namespace Handlers
open TM TM.Codec

/-- run the history item by item, collecting the state value after each -/
def runStepsM (sc : Script) (cfg : NCfg) (qmax fuel : Nat) : List Cmd → NSt → List (List Nat) → Option (NSt × List (List Nat))
  | [], s, acc => some (s, acc)
  | c :: cs, s, acc =>
    match nrunCmdM sc cfg qmax fuel c s with
    | .ok _ s' => runStepsM sc cfg qmax fuel cs s' (acc ++ [encSVal (buildStateList [] s'.conf)])
    | .err _ s' => runStepsM sc cfg qmax fuel cs s' (acc ++ [encSVal (buildStateList [] s'.conf)])
    | .oof => none

def nestedMayCase : P String := do
  let c ← ncfg
  let es ← list scriptEntry
  let h ← list cmd
  let qmax := (h.length + scriptCmds es + 2) * 8
  let fuel := scriptCmds es + 2
  match NSt.init c with
  | none => pure "noinit"
  | some s0 =>
    match runStepsM (mkScript es) c qmax fuel h s0 [] with
    | none => pure "oof"
    | some (s, confs) =>
      pure s!"T {joinNats (encItems s.log)} C {joinNats (encSVal (buildStateList [] s0.conf) ++ confs.flatten)}"

def hC12N : List (String × Handler) := [("nestedmay", fun ns => run nestedMayCase ns)]

end Handlers
