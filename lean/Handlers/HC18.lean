/-
  Handlers/HC18.lean — driver request of property C18 (hierarchical on_final):

    c18 <defs> <machine cbs> <roots> <E>
        defs     list of (id, final, on_final callback ids)
        roots    list of trees; tree = id, list of trees        (the OBSERVED configuration)
        E        list of ids                                    (the OBSERVED entered set)
      → `S <owners> <callbacks> C <0 owners callbacks | 1> W <enteredWF> <nodup ids>`
        S = the specification `Final.expected` (monitor), C = the model of `_final_check`,
        owners: 0 = machine, id+1 = state; lists length-prefixed.
-/
import Handlers.Basic
import Model.Spec.C18

namespace Handlers
open TM TM.Codec TM.Final

namespace C18

/-- recursive tree decoder; `fuel` bounds the nesting depth -/
def tree : Nat → P Tree
  | 0 => fun _ => none
  | fuel + 1 => do
    let id ← nat
    let kids ← list (tree fuel)
    pure (.node id kids)

def sdef : P (Nat × Bool × List Nat) := do
  let id ← nat; let f ← bool; let cbs ← nats
  pure (id, f, cbs)

def mkDefs (ds : List (Nat × Bool × List Nat)) (mcbs : List Nat) : Defs :=
  { final := fun s => match ds.find? (fun d => d.1 = s) with
      | some d => d.2.1
      | none => false
    onFinal := fun s => match ds.find? (fun d => d.1 = s) with
      | some d => d.2.2
      | none => []
    machineOnFinal := mcbs }

def encOwner : Owner → Nat
  | .machine => 0
  | .state s => s + 1

def encNats (l : List Nat) : List Nat := l.length :: l
def encB (b : Bool) : Nat := if b then 1 else 0

def nodupNats : List Nat → Bool
  | [] => true
  | a :: r => !r.contains a && nodupNats r

def request : P String := do
  let ds ← list sdef
  let mcbs ← nats
  let roots ← list (tree 64)
  let E ← nats
  let D := mkDefs ds mcbs
  let sp := expected D E roots
  let c := match finalCheckRoot D E roots with
    | .ok os => 0 :: (encNats (os.map encOwner) ++ encNats (runCalls D os))
    | .attributeError => [1]
  let w := [encB (enteredWF E roots), encB (nodupNats (idsL roots))]
  pure s!"S {joinNats (encNats (sp.map encOwner) ++ encNats (runCalls D sp))} C {joinNats c} W {joinNats w}"

end C18

def hC18 : List (String × Handler) := [("c18", fun ns => run C18.request ns)]

end Handlers
