/-
  Handlers/HC11.lean — driver requests of property C11.

    c11flat <attr> <override> <auto> <ops>
        → per op: error code, then a snapshot of the model machine (states, events table, every model's
          instance namespace and state, what calling each event method / trigger(name) / is_ helper
          does, get_triggers per state, sizes of get_transitions for every selector combination)
    c11hsm <sep> <states> <scopes> <active> <queries>
        → per queried state path: helper access paths, is_state with and without allow_substates,
          get_triggers as coded, the events that fire from it
-/
import Handlers.Basic
import Model.Helpers

namespace Handlers
open TM TM.Codec TM.Helpers

def nameP : P Name := nats
def optNameP : P (Option Name) := opt nameP
def pathP : P Path := list nameP

def bindingP : P Binding := do
  let k ← nat
  match k with
  | 0 => Binding.user <$> nat
  | _ => pure Binding.userNone

def objP : P Obj := do
  let cls ← list (do let n ← nameP; let b ← bindingP; pure (n, b))
  let inst ← list (do let n ← nameP; let b ← bindingP; pure (n, b))
  pure { cls, inst }

def srcP11 : P Helpers.Src := do
  let k ← nat
  if k = 0 then pure .all else Helpers.Src.one <$> nameP

def dstP11 : P Helpers.Dst := do
  let k ← nat
  match k with
  | 0 => Helpers.Dst.to <$> nameP
  | 1 => pure .same
  | _ => pure .internal

def opP11 : P Helpers.Op := do
  let k ← nat
  match k with
  | 0 => Helpers.Op.setInitial <$> nameP
  | 1 => Helpers.Op.addState <$> nameP
  | 2 => do let e ← nameP; let s ← srcP11; let d ← dstP11; let p ← bool; pure (.addTransition e s d p)
  | 3 => do let e ← nameP; let s ← optNameP; let d ← optNameP; pure (.removeTransition e s d)
  | 4 => do let m ← nat; let o ← objP; pure (.addModel m o)
  | 6 => do let k ← nat; pure (.failing (match k with | 1 => .valueError | 2 => .attributeError | 3 => .machineError | _ => .keyError))
  | _ => do let m ← nat; let e ← nameP; pure (.fire m e)

def encName (n : Name) : List Nat := n.length :: n
def encOptName : Option Name → List Nat
  | none => [0]
  | some n => 1 :: encName n
def encL {α} (f : α → List Nat) (l : List α) : List Nat := l.length :: l.flatMap f

def encErr : Option Err → Nat
  | none => 0 | some .valueError => 1 | some .attributeError => 2 | some .machineError => 3 | some .keyError => 4

def encBinding : Binding → List Nat
  | .user id => [0, 1, id]
  | .userNone => [1, 0]
  | .value s => 2 :: encName s
  | .isState s => 3 :: encName s
  | .trigger e => 4 :: encName e
  | .may e => 5 :: encName e
  | .triggerFn => [6, 0]
  | .mayTriggerFn => [7, 0]
  | .toFn => [8, 0]

def encCall : Call → List Nat
  | .fired (.ok b) => [0, if b then 1 else 0]
  | .fired (.error e) => [1, encErr (some e)]
  | .answer b => [2, if b then 1 else 0]
  | .users => [3, 0]
  | .missing => [4, 0]

def encTr (t : Tr) : List Nat := encName t.source ++ encOptName t.dest ++ [if t.pass then 1 else 0]

def snapshot (hm : HM) : List Nat :=
  encL encName hm.states ++
  encL (fun ev => encName ev.1 ++ encL encTr ev.2) hm.events ++
  encL (fun (mo : Nat × Obj) =>
    mo.1 :: encOptName (hm.stateOf mo.1) ++
    encL (fun (nb : Name × Binding) => encName nb.1 ++ encBinding nb.2) mo.2.inst ++
    encL (fun (ev : Name × List Tr) =>
      let a := callEvent hm mo.1 ev.1
      let b := callTrigger hm mo.1 ev.1
      encCall a.2 ++ encOptName (a.1.stateOf mo.1) ++ encCall b.2 ++ encOptName (b.1.stateOf mo.1)) hm.events ++
    encL (fun s => encCall (callIs hm mo.1 (isName hm.attr s))) hm.states) hm.objs ++
  encL (fun s => encL encName (getTriggers hm [s])) hm.states ++
  encL (fun (tr : Option Name) =>
    (none :: hm.states.map some).flatMap fun src =>
      (none :: hm.states.map some).map fun dst => (getTransitions hm tr src dst).length)
    (none :: hm.eventNames.map some)

def runSnap (hm : HM) : List Helpers.Op → List Nat
  | [] => []
  | op :: r =>
    let p := applyOp hm op
    let res : Nat := match op with
      | .fire m e => (match (fire hm m e).2 with | .ok true => 2 | .ok false => 1 | .error _ => 0)
      | _ => 0
    encErr p.2 :: res :: snapshot p.1 ++ runSnap p.1 r

def c11flat : P String := do
  let attr ← nameP; let override ← bool; let auto ← bool
  let ops ← list opP11
  pure (joinNats (runSnap (HM.new attr override auto) ops))

def c11hsm : P String := do
  let sep ← nat
  let states ← list pathP
  let scopes ← list (do
    let pre ← pathP
    let evs ← list (do let e ← nameP; let srcs ← list pathP; pure (e, srcs))
    pure (pre, evs))
  let active ← list pathP
  let queries ← list pathP
  let h : HSM := { states, scopes }
  let evNames := (scopes.flatMap fun sc => sc.2.map (·.1)).eraseDups
  let out := queries.flatMap fun q =>
    encL encName (isAccessH sep q) ++ encL encName (toAccessH sep q) ++
    [if isStateH active q false then 1 else 0, if isStateH active q true then 1 else 0] ++
    encL encName (getTriggersH h q) ++
    encL encName (evNames.filter (firesIn h [] q))
  pure (joinNats (out ++ encL encName h.knownEvents.eraseDups ++ [if autoCoveredB h sep then 1 else 0]))

/-- `c11trans <states> <tables> <queries (trigger?, src, dst)>` → per query the found transitions
(scope, event, source, dest) of `getTransitionsH` -/
def c11trans : P String := do
  let states ← list pathP
  let tables ← list (do
    let pre ← pathP
    let evs ← list (do
      let e ← nameP
      let ts ← list (do let s ← pathP; let d ← opt pathP; pure (s, d))
      pure (e, ts))
    pure (pre, evs))
  let queries ← list (do let t ← optNameP; let s ← pathP; let d ← pathP; pure (t, s, d))
  let h : HT := { states, tables }
  let encPath (p : Path) : List Nat := encL encName p
  let out := queries.flatMap fun q =>
    encL (fun (f : FoundT) => encPath f.scope ++ encName f.event ++ encPath f.source ++
      (match f.dest with | none => [0] | some d => 1 :: encPath d)) (getTransitionsH h q.1 q.2.1 q.2.2)
  pure (joinNats out)

/-- `c11wrap <override> <namespace (name, kind)> <steps (name, isStep, restEmpty)>` → the kinds of the top-level
helper attributes after `add_model` (0 missing, 1 user, 2 None, 3 FunctionWrapper), in the order of the request -/
def c11wrap : P String := do
  let override ← bool
  let ns ← list (do
    let n ← nameP; let k ← nat
    pure (n, match k with | 0 => TopAttr.missing | 1 => .user | 2 => .userNone | _ => .wrapper))
  let steps ← list (do let n ← nameP; let i ← bool; let r ← bool; pure ({ name := n, isStep := i, restEmpty := r } : WStep))
  let out := runWrap override ns steps
  pure (joinNats (ns.map fun p => match (kget p.1 out).getD .missing with
    | .missing => 0 | .user => 1 | .userNone => 2 | .wrapper => 3))

def hC11 : List (String × Handler) :=
  [("c11flat", run c11flat), ("c11hsm", run c11hsm), ("c11trans", run c11trans), ("c11wrap", run c11wrap)]

end Handlers
