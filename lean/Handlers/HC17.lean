/-
  Handlers/HC17.lean — driver requests of property C17.

    c17run <states> <onExc> <async> <resolve table> <models> <history>
        states   : list of (s, timeout, action?, raises)
        resolve  : list of (s, e, kind, prog: list of (enter?, state), dest, raises)   kind 0 = internal, 1 = move
        models   : list of (m, initial state)
        keys     : list of (m, runner key)   — the identity for the code as it is (id(model)); default m
        history  : list of ops: 0 <early: list of (m, e)>  |  1 m e  |  2 s v   (state.timeout := v)
      → `T <records> L <leaked> X <tie> C <(model, final state) …>`
    c17mon <routes> <segments: list of (<timeouts: list of (s, timeout)> <records>)>   → ok | reject
      (the verified monitor `C17.acceptsV` on an observed trace cut at the assignments to state.timeout;
       one segment = `C17.accepts`)
    c17ctor <timeout> <on_timeout: 0 | 1 n>  → `ok t n` | `AttributeError`
-/
import Handlers.Basic
import Model.Timeout
import Model.Spec.C17

namespace Handlers
open TM TM.Codec
open TM.Timeout (Rec Step Op)

namespace C17H

def encRec : Rec → List Nat
  | .tick => [0, 0, 0]
  | .enter m s => [1, m, s]
  | .exit m s => [2, m, s]
  | .fired m s => [3, m, s]
  | .firedEnd m s => [4, m, s]
  | .raised m s => [5, m, s]
  | .routed m s => [6, m, s]

def rec : P Rec := do
  let k ← nat; let m ← nat; let s ← nat
  pure <| match k with
    | 0 => .tick | 1 => .enter m s | 2 => .exit m s | 3 => .fired m s | 4 => .firedEnd m s
    | 5 => .raised m s | _ => .routed m s

structure StateRow where
  s : Nat
  timeout : Nat
  action : Option Nat
  raises : Bool

def stateRow : P StateRow := do
  let s ← nat; let t ← nat; let a ← opt nat; let r ← bool
  pure { s, timeout := t, action := a, raises := r }

def resolveRow : P (Nat × Nat × Step) := do
  let s ← nat; let e ← nat; let k ← nat
  let prog ← list (do let b ← bool; let x ← nat; pure (b, x))
  let d ← nat; let r ← bool
  pure (s, e, if k = 0 then .stay else .move prog d r)

def op : P Timeout.OpV := do
  let k ← nat
  if k = 0 then do
    let early ← list (do let m ← nat; let e ← nat; pure (m, e))
    pure (.op (.tick early))
  else if k = 1 then do
    let m ← nat; let e ← nat
    pure (.op (.ev m e))
  else do
    let s ← nat; let v ← nat
    pure (.setT s v)

def mkCfg (rows : List StateRow) (onExc async : Bool) (tbl : List (Nat × Nat × Step))
    (keys : List (Nat × Nat)) : Timeout.Cfg :=
  let row := fun s => rows.find? (fun r => r.s = s)
  { timeout := fun s => (row s).elim 0 (·.timeout)
    action := fun s => (row s).bind (·.action)
    raises := fun s => (row s).elim false (·.raises)
    onExc := onExc
    async := async
    resolve := fun s e => (tbl.find? (fun r => r.1 = s && r.2.1 = e)).map (·.2.2)
    key := fun m => ((keys.find? (fun p => p.1 = m)).map (·.2)).getD m }

def runCase : P String := do
  let rows ← list stateRow
  let onExc ← bool
  let async ← bool
  let tbl ← list resolveRow
  let models ← list (do let m ← nat; let s ← nat; pure (m, s))
  let keys ← list (do let m ← nat; let k ← nat; pure (m, k))
  let h ← list op
  let cur := fun m => ((models.find? (fun p => p.1 = m)).map (·.2)).getD 0
  let st : Timeout.St := (Timeout.runV (mkCfg rows onExc async tbl keys) h (Timeout.St.init cur)).2
  let curs := models.flatMap fun p => [p.1, st.cur p.1]
  pure s!"T {joinNats (st.log.length :: st.log.flatMap encRec)} L {if st.leaked then 1 else 0} X {if st.tie then 1 else 0} C {joinNats curs}"

def monCase : P String := do
  let routes ← bool
  let segs ← list (do
    let ts ← list (do let s ← nat; let t ← nat; pure (s, t))
    let recs ← list rec
    let sp : TM.C17.Spec := { timeout := fun s => ((ts.find? (fun p => p.1 = s)).map (·.2)).getD 0, routes }
    pure (sp, recs))
  pure (if TM.C17.acceptsV segs then "ok" else "reject")

def ctorCase : P String := do
  let t ← nat
  let o ← opt nat
  pure <| match Timeout.mkState t o with
    | .ok t n => s!"ok {t} {n}"
    | .attributeError => "AttributeError"

end C17H

def hC17 : List (String × Handler) :=
  [("c17run", Codec.run C17H.runCase), ("c17mon", Codec.run C17H.monCase), ("c17ctor", Codec.run C17H.ctorCase)]

end Handlers
