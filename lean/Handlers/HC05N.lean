/-
  Handlers/HC05N.lean — driver requests added for the hierarchical / asynchronous transports of property C05.

    c05m <fin0> <items>     → `ok` | `reject`     (verified monitor `C05M.accept`: one queue per model, queued='model')

  (the machine-wide acceptor `c05 <fin0> <items>` is served by Driver/Main.lean; the model runs `nested …` and
  `aflat …` by Handlers/HC02.lean and Handlers/HC07.lean)
-/
import Handlers.Basic
import Model.Spec.C05M

namespace Handlers
open TM TM.Codec

def c05mCase : P String := do
  let fin0 ← nat
  let items ← list item
  pure (if C05M.accept fin0 items then "ok" else "reject")

def hC05N : List (String × Handler) := [("c05m", fun ns => run c05mCase ns)]

end Handlers
