/-
  Handlers/HC04N.lean — driver requests of property C04 on the hierarchical engine.

  Configurations are sent in the extended form (`final` flag and `on_final` list of every state, `Machine.on_final`):

    nested4 <ncfg4> <script> <history: events…>
        → `T <items…> C <state value after every history item …> Q <queue length after every item …>` | `oof` | `noinit`
    c04n <qmax> <fuel> <ncfg4> <initial configuration (state value)> <items>
        → `ok` | `reject <number of trigger calls accepted before the rejected one>`   (`C04N.checkTrace` /
          `C04N.aHistory`; `qmax`, `fuel` = the bounds the `nested4` run of the same input uses)
-/
import Handlers.Basic
import Handlers.HC02
import Model.Spec.C04N

namespace Handlers
open TM TM.Codec

/-- a `states` dictionary with final flags and on_final lists -/
def sforest4 : Nat → P SForest
  | 0 => failure
  | fuel + 1 => do
    let n ← nat
    let rec go : Nat → P SForest
      | 0 => pure .nil
      | k + 1 => do
        let name ← nat
        let onEnter ← nats
        let onExit ← nats
        let ig ← nat
        let initial ← nats
        let events ← list nevent
        let final ← bool
        let onFinal ← nats
        let kids ← sforest4 fuel
        let rest ← go k
        pure (.cons { name, onEnter, onExit,
                      ignore := (match ig with | 0 => none | 1 => some false | _ => some true),
                      initial, events, final, onFinal } kids rest)
    go n

def ncfg4 : P NCfg := do
  let toks ← get
  let states ← sforest4 (toks.length + 1)
  let events ← list nevent
  let prepareEvent ← nats
  let beforeSC ← nats
  let afterSC ← nats
  let finalize ← nats
  let onException ← nats
  let ignore ← bool
  let queued ← bool
  let initial ← npath
  let onFinal ← nats
  pure { states, events, prepareEvent, beforeSC, afterSC, finalize, onException, ignore, queued, initial, onFinal }

/-- run the history item by item, collecting the state value and the queue length after each -/
def runSteps4 (sc : Script) (cfg : NCfg) (qmax fuel : Nat) :
    List Nat → NSt → List (List Nat) → List Nat → Option (NSt × List (List Nat) × List Nat)
  | [], s, acc, qs => some (s, acc, qs)
  | ev :: evs, s, acc, qs =>
    match nrunCmd sc cfg qmax fuel (.trigger 0 ev) s with
    | .ok _ s' => runSteps4 sc cfg qmax fuel evs s' (acc ++ [encSVal (buildStateList [] s'.conf)]) (qs ++ [s'.queue.length])
    | .err _ s' => runSteps4 sc cfg qmax fuel evs s' (acc ++ [encSVal (buildStateList [] s'.conf)]) (qs ++ [s'.queue.length])
    | .oof => none

def nested4Case : P String := do
  let c ← ncfg4
  let es ← list scriptEntry
  let h ← nats
  let qmax := (h.length + scriptCmds es + 2) * 8
  let fuel := scriptCmds es + 2
  match NSt.init c with
  | none => pure "noinit"
  | some s0 =>
    match runSteps4 (mkScript es) c qmax fuel h s0 [] [] with
    | none => pure "oof"
    | some (s, confs, qs) =>
      pure s!"T {joinNats (encItems s.log)} C {joinNats (encSVal (buildStateList [] s0.conf) ++ confs.flatten)} Q {joinNats qs}"

def c04nCase : P String := do
  let qmax ← nat
  let fuel ← nat
  let c ← ncfg4
  let v ← svalTop
  let items ← list item
  let r := C04N.aHistory c qmax fuel items.length { conf := buildStateTree v .nil } items 0
  pure (if r.2.1 then "ok" else s!"reject {r.1}")

def hC04N : List (String × Handler) :=
  [("nested4", fun ns => run nested4Case ns), ("c04n", fun ns => run c04nCase ns)]

end Handlers
