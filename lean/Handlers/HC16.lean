/-
  Handlers/HC16.lean — driver request `c16`: machine description + options + a model's graph history
  [+ region of interest] ↦ the abstract diagram of `Model/Diagram.lean` (`D <nats>`).
-/
import Handlers.Basic
import Model.Diagram

namespace Handlers
open TM TM.Codec TM.Diagram

namespace C16

def path : P Path := nats

def mtrans : P MTrans := do
  let trigger ← nats
  let label ← opt nats
  let source ← path
  let dest ← opt path
  let conds ← nats
  let unl ← nats
  pure { trigger, label, source, dest, conds, unl }

def init : P Init := do
  let k ← nat
  match k with
  | 0 => pure .none
  | 1 => do let n ← nat; pure (.one n)
  | _ => pure .par

/-- recursive state decoder; `fuel` bounds the nesting depth -/
def mstate : Nat → P MState
  | 0 => fun _ => none
  | fuel + 1 => do
    let name ← nat
    let label ← opt nats
    let final ← bool
    let enter ← nats
    let exit ← nats
    let i ← init
    let block ← bool
    let kids ← list (mstate fuel)
    let trans ← list mtrans
    pure (.mk name label final enter exit i block kids trans)

def opts : P Opts := do
  let nested ← bool; let showConds ← bool; let showAttrs ← bool
  pure { nested, showConds, showAttrs }

def step : P Step := do
  let k ← nat
  match k with
  | 0 => do let pre ← path; let src ← path; let dst ← path; pure (.begin pre src dst)
  | 1 => do let cur ← list path; pure (.finish cur)
  | _ => do let cur ← list path; pure (.regen cur)

def encList {α} (f : α → List Nat) (l : List α) : List Nat := l.length :: l.flatMap f
def encNats (l : List Nat) : List Nat := l.length :: l
def encOpt {α} (f : α → List Nat) : Option α → List Nat
  | none => [0]
  | some a => 1 :: f a
def encBool (b : Bool) : List Nat := [if b then 1 else 0]

mutual
def encNode : DNode → List Nat
  | .mk name label final cls block init par kids =>
    encNats name ++ encNats label.text ++ encNats label.enter ++ encNats label.exit ++ encBool final ++
      encOpt (fun c => [c]) cls ++ encBool block ++ encOpt encNats init ++ encBool par ++
      (kids.length :: encNodes kids)
def encNodes : List DNode → List Nat
  | [] => []
  | d :: r => encNode d ++ encNodes r
end

def encLabel (l : ELabel) : List Nat :=
  encNats l.text ++ encBool l.internal ++ encNats l.conds ++ encNats l.unl

def encEdge (e : Edge) : List Nat := encNats e.src ++ encNats e.dst ++ encList encLabel e.labels

def encDiagram (d : Diagram) : List Nat :=
  (d.nodes.length :: encNodes d.nodes) ++ encList encEdge d.edges ++ encOpt encNats d.rootInit

def request : P String := do
  let o ← opts
  let states ← list (mstate 64)
  let trans ← list mtrans
  let initial ← opt path
  let cur0 ← list path
  let h ← list step
  let roi ← opt (list path)
  let st := stylesAfter cur0 h
  pure s!"D {joinNats (encDiagram (diagram o { states, trans, initial } st roi))}"

end C16

def hC16 : List (String × Handler) := [("c16", fun ns => run C16.request ns)]

end Handlers
