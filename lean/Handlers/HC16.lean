/-
  Handlers/HC16.lean — driver request `c16`: machine description + options + a model's graph history
  [+ region of interest] ↦ the abstract diagram of `Model/Diagram.lean` (`D <nats>`).
-/
import Handlers.Basic
import Model.Diagram

namespace Handlers
open TM TM.Codec TM.Diagram

namespace C16

def path : P Path := nats

def mtrans : P MTrans := do
  let trigger ← nats
  let label ← opt nats
  let source ← path
  let dest ← opt path
  let conds ← nats
  let unl ← nats
  pure { trigger, label, source, dest, conds, unl }

def init : P Init := do
  let k ← nat
  match k with
  | 0 => pure .none
  | 1 => do let n ← nat; pure (.one n)
  | _ => pure .par

/-- recursive state decoder; `fuel` bounds the nesting depth -/
def mstate : Nat → P MState
  | 0 => fun _ => none
  | fuel + 1 => do
    let name ← nat
    let label ← opt nats
    let final ← bool
    let enter ← nats
    let exit ← nats
    let i ← init
    let block ← bool
    let kids ← list (mstate fuel)
    let trans ← list mtrans
    pure (.mk name label final enter exit i block kids trans)

def opts : P Opts := do
  let nested ← bool; let showConds ← bool; let showAttrs ← bool; let modelAttr ← nat
  pure { nested, showConds, showAttrs, modelAttr }

def obj : P Obj := list (do let a ← nat; let v ← list path; pure (a, v))

def step : P ObjStep := do
  let k ← nat
  match k with
  | 0 => do let pre ← path; let src ← path; let dst ← path; pure (.begin pre src dst)
  | 1 => do let m ← obj; pure (.finish m)
  | _ => do let m ← obj; pure (.regen m)

def encList {α} (f : α → List Nat) (l : List α) : List Nat := l.length :: l.flatMap f
def encNats (l : List Nat) : List Nat := l.length :: l
def encOpt {α} (f : α → List Nat) : Option α → List Nat
  | none => [0]
  | some a => 1 :: f a
def encBool (b : Bool) : List Nat := [if b then 1 else 0]

mutual
def encNode : DNode → List Nat
  | .mk name label final cls block init par kids =>
    encNats name ++ encNats label.text ++ encNats label.enter ++ encNats label.exit ++ encBool final ++
      encOpt (fun c => [c]) cls ++ encBool block ++ encOpt encNats init ++ encBool par ++
      (kids.length :: encNodes kids)
def encNodes : List DNode → List Nat
  | [] => []
  | d :: r => encNode d ++ encNodes r
end

def encLabel (l : ELabel) : List Nat :=
  encNats l.text ++ encBool l.internal ++ encNats l.conds ++ encNats l.unl

def encEdge (e : Edge) : List Nat := encNats e.src ++ encNats e.dst ++ encList encLabel e.labels

def encDiagram (d : Diagram) : List Nat :=
  (d.nodes.length :: encNodes d.nodes) ++ encList encEdge d.edges ++ encOpt encNats d.rootInit

def request : P String := do
  let o ← opts
  let states ← list (mstate 64)
  let trans ← list mtrans
  let initial ← opt path
  let m0 ← obj
  let h ← list step
  let roi ← opt obj
  pure s!"D {joinNats (encDiagram (diagramObj o { states, trans, initial } m0 h roi))}"

end C16

def hC16 : List (String × Handler) := [("c16", fun ns => run C16.request ns)]

end Handlers
