/-
  Handlers/HC06.lean — driver requests of property C06.

    c06run <hsm> <base> <extra> <absent> <progs> <schedule>
        → `T <events> B <blocked flag per thread> D <done flag per thread> C <current> M <mstate>`
          U <ung>  (engine: `eng a ms = ms * 31 + a + 1 mod 1000003`, an order-sensitive hash)
    c06mon <L> <hsm> <base> <extra> <absent> <nthreads> <events>
        → `<noOverlap> <contextsOrder> <contextsOrderDone>` as 0/1
    c06seq <progs> <order>     → `M <mstate> L <log>`   (sequential reference semantics)
-/
import Handlers.Basic
import Model.Locked

namespace Handlers
open TM
open TM.Codec TM.Locked

def c06Ctx : P Locked.Ctx := do
  let k ← nat; let v ← nat
  pure <| match k with | 0 => .lock v | 1 => .ident | _ => .user v

/-- ops: `0 tgt tag` call | `1 a 0` cb | `2 raised 0` ret | `3 m 0 <ctx list>` reg | `4 m 0` unreg | `5 0 0` snap -/
def c06Op : P Locked.Op := do
  let k ← nat; let a ← nat; let b ← nat
  match k with
  | 0 => pure (.call a b)
  | 1 => pure (.cb a)
  | 2 => pure (.ret (b != 0 || a != 0))
  | 3 => do let xs ← list c06Ctx; pure (.reg a xs)
  | 4 => pure (.unreg a)
  | _ => pure .snap

/-- events: 4 naturals each; `5 t m n` (reg) is followed by `n` contexts (2 naturals each); `6 t m 0` unreg; `7 t 0 0` snap -/
def c06Ev : P Locked.Ev := do
  let k ← nat; let t ← nat; let a ← nat; let b ← nat
  match k with
  | 0 => pure (.callBegin t a b)
  | 1 => pure (.enter t (match a with | 0 => .lock b | 1 => .ident | _ => .user b))
  | 2 => pure (.cb t a)
  | 3 => pure (.exit t (match a with | 0 => .lock b | 1 => .ident | _ => .user b))
  | 4 => pure (.callEnd t (a != 0))
  | 5 => do let xs ← many c06Ctx b; pure (.reg t a xs)
  | 6 => pure (.unreg t a)
  | _ => pure (.snap t)

def c06CfgP : P Locked.Cfg := do
  let hsm ← bool
  let base ← list c06Ctx
  let extra ← list (do let m ← nat; let l ← list c06Ctx; pure (m, l))
  let absent ← nats
  pure { hsm, base, extra, absent }

def encCtx : Locked.Ctx → List Nat
  | .lock l => [0, l] | .ident => [1, 0] | .user c => [2, c]

def encEv : Locked.Ev → List Nat
  | .callBegin t tgt tag => [0, t, tgt, tag]
  | .enter t x => 1 :: t :: encCtx x
  | .cb t a => [2, t, a, 0]
  | .exit t x => 3 :: t :: encCtx x
  | .callEnd t r => [4, t, if r then 1 else 0, 0]
  | .reg t m xs => [5, t, m, xs.length] ++ xs.flatMap encCtx
  | .unreg t m => [6, t, m, 0]
  | .snap t => [7, t, 0, 0]

def c06Eng (a ms : Nat) : Nat := (ms * 31 + a + 1) % 1000003

def b2n (b : Bool) : Nat := if b then 1 else 0

def c06Run : P String := do
  let c ← c06CfgP
  let progs ← list (list c06Op)
  let sched ← nats
  let s := runSched c c06Eng (init c (fun t => progs.getD t []) 0) sched
  let n := progs.length
  let bl := (List.range n).map fun t => b2n (blocked s t)
  let dn := (List.range n).map fun t => b2n ((s.th t).prog.isEmpty && (s.th t).frames.isEmpty)
  pure s!"T {joinNats (s.trace.length :: s.trace.flatMap encEv)} B {joinNats bl} D {joinNats dn} C {s.current} M {s.mstate} U {b2n s.ung}"

def c06Mon : P String := do
  let L ← nat
  let c ← c06CfgP
  let n ← nat
  let tr ← list c06Ev
  pure s!"{b2n (noOverlap L tr)} {b2n (contextsOrder c tr)} {b2n (contextsOrderDone c n tr)}"

def c06Seq : P String := do
  let progs ← list (list c06Op)
  let order ← nats
  let q := seqRun c06Eng (fun t => progs.getD t []) 0 order
  pure s!"M {q.ms} L {joinNats (q.log.length :: q.log.flatMap fun (t, a) => [t, a])}"

def hC06 : List (String × Handler) :=
  [("c06run", run c06Run), ("c06mon", run c06Mon), ("c06seq", run c06Seq)]

end Handlers
