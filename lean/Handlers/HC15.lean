/-
  Handlers/HC15.lean — driver requests of property C15.

    c15 <rt> <graph locked nested qmodel asyncio> <PM> <rho pairs> <held> <delta entries> <events>
        → `R <PM> O <observations> F <PM>`
      rt = 1: the machine is first sent through `Pickle.roundtrip` with identity map `rho`
      (R = the tables right after unpickling), then the events are run on it (O, F = final tables);
      rt = 0: the events are run on the machine as given (R = the machine itself).
-/
import Handlers.Basic
import Model.Pickle

namespace Handlers
open TM TM.Codec TM.Pickle

def c15Pairs : P (List (Nat × Nat)) := list (do let a ← nat; let b ← nat; pure (a, b))
def c15Tab : P (Tab (List Nat)) := list (do let a ← nat; let b ← nats; pure (a, b))

def c15PM : P PM := do
  let models ← nats
  let mstate ← c15Pairs
  let mctx ← nats
  let ctx ← c15Tab
  let graphs ← c15Pairs
  let qdict ← c15Tab
  let identHeld ← bool
  pure { models, mstate, mctx, ctx, graphs, qdict, identHeld }

def c15EncPairs (t : List (Nat × Nat)) : List Nat := t.length :: t.flatMap fun e => [e.1, e.2]
def c15EncTab (t : Tab (List Nat)) : List Nat := t.length :: t.flatMap fun e => e.1 :: e.2.length :: e.2
def c15EncPM (M : PM) : List Nat :=
  (M.models.length :: M.models) ++ c15EncPairs M.mstate ++ (M.mctx.length :: M.mctx) ++ c15EncTab M.ctx ++
    c15EncPairs M.graphs ++ c15EncTab M.qdict ++ [if M.identHeld then 1 else 0]

def c15EncObs : Obs → List Nat
  | .done cs b st => 0 :: cs.length :: cs ++ [if b then 1 else 0, st]
  | .blocked l => [1, l]
  | .keyError k => [2, k]
  | .regen => [3]
  | .members n => [4, n]

def c15Ev : P Ev := do
  let t ← nat
  if t = 0 then do let ep ← nat; let m ← nat; let ev ← nat; pure (.trigger ep m ev)
  else if t = 2 then do let m ← nat; pure (.readd m)
  else pure .regen

def c15Case : P String := do
  let rt ← bool
  let graph ← bool; let locked ← bool; let nested ← bool; let qmodel ← bool; let asyncio ← bool
  let k : Kind := { graph, locked, nested, qmodel, asyncio }
  let M ← c15PM
  let rho ← c15Pairs
  let held ← nats
  let dl ← list (do let ep ← nat; let st ← nat; let ev ← nat; let d ← opt nat; pure (ep, st, ev, d))
  let evs ← list c15Ev
  let ρ : Nat → Nat := fun n => (alookup n rho).getD (n + 1000000)
  let δ : Delta := fun ep st ev =>
    match dl.find? (fun e => e.1 = ep && e.2.1 = st && e.2.2.1 = ev) with
    | some e => e.2.2.2
    | none => none
  let M0 := if rt then roundtrip k ρ M else M
  let r := run k δ held M0 evs
  let obs := r.2.length :: r.2.flatMap c15EncObs
  pure s!"R {joinNats (c15EncPM M0)} O {joinNats obs} F {joinNats (c15EncPM r.1)}"

def hC15 : List (String × Handler) := [("c15", fun ns => run c15Case ns)]

end Handlers
