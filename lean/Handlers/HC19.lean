/-
  Handlers/HC19.lean — driver requests of property C19 (state feature mixins).

    c19ops  <feats> <nhooks> <states> <nmodels> <groups>     op-level run (ops observed by the harness probe)
        → per group: <items> <raised?>  <hook snapshot of every model>
    c19flat <feats> <nhooks> <states> <trans> <ignore> <nmodels> <initial> <history>
        → per trigger: <items> <result code> <state + hook snapshot of every model>
    c19tags <states> <s> <t>  → 0 | 1

  <states> = list of (name, tags list object (0 | ref+1), accepted, hook, retries, hasOut), then the heap of list objects
-/
import Handlers.Basic
import Model.Features

namespace Handlers
open TM.Codec
open TM.Feat hiding Cfg Trans
abbrev FCfg := TM.Feat.Cfg
abbrev FTrans := TM.Feat.Trans

def c19Mixin : P Mixin := do
  let k ← nat
  pure <| match k with
    | 0 => .tags | 1 => .error | 2 => .volatile | _ => .retry

structure C19State where
  d : SDef
  out : Bool

/-- (name, tags list object: 0 = keyword absent | ref+1, accepted, hook, retries, hasOut) -/
def c19State : P C19State := do
  let name ← nat
  let r ← nat
  let accepted ← bool
  let hook ← nat
  let retries ← nat
  let out ← bool
  pure { d := { name, tagsRef := (if r = 0 then none else some (r - 1)), accepted, hook, retries }, out }

/-- <states> <heap: list of the caller's list objects> -/
structure C19States where
  ss : List C19State
  heap : List (List Nat)

def c19States : P C19States := do
  let ss ← list c19State
  let heap ← list nats
  pure { ss, heap }

def c19Args (S : C19States) : Nat → SArgs :=
  builtArgs (S.ss.map (·.d)) (fun r => S.heap.getD r [])

def c19Out (S : C19States) (s : Nat) : Bool :=
  match S.ss.find? (fun x => x.d.name = s) with
  | some x => x.out
  | none => true

def encOpt : Option Nat → Nat
  | none => 0
  | some n => n + 1

def encObs : Obs → List Nat
  | .enterCbs s m sn => [0, s, m] ++ sn.map encOpt
  | .exitCbs s m sn => [1, s, m] ++ sn.map encOpt
  | .exitAbort s m sn => [5, s, m] ++ sn.map encOpt
  | .enterAbort s m sn => [6, s, m] ++ sn.map encOpt
  | .failure s m sn => [2, s, m] ++ sn.map encOpt
  | .raised s m => [3, s, m]
  | .created i => [4, i + 1]

def encLog (l : List Obs) : List Nat := l.length :: l.flatMap encObs

def c19Op : P Op := do
  let k ← nat; let s ← nat; let m ← nat; let src ← nat
  pure (if k = 0 then .enter s m src else if k = 1 then .exit s m else if k = 2 then .exitFail s m
    else .enterFail s m src)

def hookSnaps (c : FCfg) (nm : Nat) (st : FS) : List Nat :=
  (List.range nm).flatMap fun m => (snap c m st).map encOpt

/-- edits of public `tags` lists made before a trigger: (state, the list afterwards) -/
def c19TagEdit : P (Nat × List Nat) := do let s ← nat; let l ← nats; pure (s, l)

def c19ApplyEdits (c : FCfg) (es : List (Nat × List Nat)) : FCfg :=
  es.foldl (fun c e => c.setTags e.1 e.2) c

def c19RunGroups (c : FCfg) (nm : Nat) : List (List (Nat × List Nat) × List Op) → FS → List Nat
  | [], _ => []
  | (es, g) :: r, st =>
    let c1 := c19ApplyEdits c es
    let st0 : FS := { st with log := [] }
    let (st1, raised) := runGroup c1 g st0
    encLog st1.log ++ [if raised then 1 else 0] ++ hookSnaps c1 nm st1 ++ c19RunGroups c1 nm r st1

def c19OpsCase : P String := do
  let feats ← list c19Mixin
  let nhooks ← nat
  let ss ← c19States
  let nm ← nat
  let groups ← list (do let es ← list c19TagEdit; let g ← list c19Op; pure (es, g))
  let c : FCfg := { feats, args := c19Args ss, hasOut := c19Out ss, nhooks }
  pure (joinNats (c19RunGroups c nm groups FS.init))

def c19Trans : P FTrans := do
  let ev ← nat; let src ← nat; let d ← opt nat
  pure { ev, src, dest := d }

/-- a history entry of the flat run: a trigger (model, event, does an on_exit callback raise?) or an edit
of a state's public `tags` list -/
inductive C19Step
  | trig (m ev : Nat) (veto eveto : Bool)
  | edit (s : Nat) (l : List Nat)
  | poll (m ev : Nat)

def c19Step : P C19Step := do
  let k ← nat
  if k = 0 then do let m ← nat; let ev ← nat; let v ← bool; let e ← bool; pure (.trig m ev v e)
  else if k = 1 then do let s ← nat; let l ← nats; pure (.edit s l)
  else do let m ← nat; let ev ← nat; pure (.poll m ev)

def c19RunFlat (F : Flat) (nm : Nat) : List C19Step → MS → List Nat
  | [], _ => []
  | .edit s l :: r, ms => c19RunFlat { F with args := (F.cfg.setTags s l).args } nm r ms
  | .poll m ev :: r, ms =>
    -- a poll answers (code 10 | 11) and leaves everything as it is (`runFlat`)
    [0, 10 + (if may F m ev ms then 1 else 0)]
      ++ ((List.range nm).flatMap fun x => ms.cur x :: (snap F.cfg x ms.fs).map encOpt)
      ++ c19RunFlat F nm r ms
  | .trig m ev veto eveto :: r, ms =>
    let ms0 : MS := { ms with fs := { ms.fs with log := [] } }
    let (ms1, res) := trigger F m ev ms0 veto eveto
    encLog ms1.fs.log ++ [res.code]
      ++ ((List.range nm).flatMap fun x => ms1.cur x :: (snap F.cfg x ms1.fs).map encOpt)
      ++ c19RunFlat F nm r ms1

def c19FlatCase : P String := do
  let feats ← list c19Mixin
  let nhooks ← nat
  let ss ← c19States
  let trans ← list c19Trans
  let ignoreInvalid ← bool
  let nm ← nat
  let initial ← nat
  let h ← list c19Step
  let F : Flat := { feats, args := c19Args ss, nhooks, trans, ignoreInvalid }
  pure (joinNats (c19RunFlat F nm h { fs := FS.init, cur := fun _ => initial }))

def c19TagsCase : P String := do
  let ss ← c19States
  let s ← nat
  let t ← nat
  let c : FCfg := { feats := [], args := c19Args ss, hasOut := c19Out ss }
  pure (if isTag c s t then "1" else "0")

/-- `c19dyn <feats> <dynamic_methods of the machine's own state class>` → the merged list, sorted -/
def c19DynCase : P String := do
  let feats ← list c19Mixin
  let base ← nats
  let l := customMethods feats base
  pure (joinNats ((List.range 16).filter (fun x => l.contains x)))

def hC19 : List (String × Handler) :=
  [("c19dyn", run c19DynCase), ("c19ops", run c19OpsCase), ("c19flat", run c19FlatCase), ("c19tags", run c19TagsCase)]

end Handlers
