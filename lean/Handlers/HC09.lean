/-
  Handlers/HC09.lean — driver requests of property C09.

    hflat <cfg> <models> <script> <history>   → `T <items…> S <model state …>` | `oof`
        the flat engine with `NestedTransition._change_state` collapsed to depth 1 (`Model/HsmFlat.lean`);
        same request format as `flat`
-/
import Handlers.Basic
import Model.HsmFlat

namespace Handlers
open TM TM.Codec

def hflatCase : P String := do
  let c ← cfg
  let models ← nats
  let es ← list scriptEntry
  let h ← list cmd
  let qmax := (h.length + scriptCmds es + 2) * 8
  let fuel := scriptCmds es + 2
  match HsmFlat.runHistory (mkScript es) c qmax fuel h (St.init c models) with
  | none => pure "oof"
  | some s =>
    let st := s.mstate.flatMap fun (m, v) => [m, v]
    pure s!"T {joinNats (encItems s.log)} S {joinNats (s.models.length :: s.models)} {joinNats st}"

def hC09 : List (String × Handler) := [("hflat", fun ns => run hflatCase ns)]

end Handlers
