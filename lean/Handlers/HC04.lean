/-
  Handlers/HC04.lean — verified monitor for C04 on a recorded trace:
    c04 <cfg> <(model,state) pairs> <items>   → ok | reject      (`C04.checkTrace`)
-/
import Handlers.Basic

namespace Handlers
open TM TM.Codec

def c04Case : P String := do
  let c ← cfg
  let ms ← list (do let m ← nat; let st ← nat; pure (m, st))
  let items ← list item
  pure (if C04.checkTrace c items.length ms items then "ok" else "reject")

def hC04 : List (String × Handler) := [("c04", fun ns => run c04Case ns)]

end Handlers
