/-
  Handlers/HC08.lean — driver requests of property C08.
    c08    <queued> <onExc> <protected…> <states…> <initial> <labels…>  → `ok` | `reject <index>`   (model acceptor)
    c08mon <queued> <onExc> <protected…> <states…> <initial> <labels…>  → `ok` | `reject`           (verified monitor `serialOK`)
  label encoding: 0 begin t r m | 1 evstart t m | 2 evend t m o | 3 cb t k | 4 decide t cs… | 5 set t v |
                  6 fail t | 7 ret t b | 8 raised t cancelled | 9 remove m
-/
import Handlers.Basic
import Model.AsyncSched
import Model.Spec.C08

namespace Handlers
open TM TM.Codec TM.AS

def c08Label : P Label := do
  let k ← nat
  match k with
  | 0 => do let t ← nat; let r ← nat; let m ← nat; pure (.begin t r m)
  | 1 => do let t ← nat; let m ← nat; pure (.evstart t m)
  | 2 => do let t ← nat; let m ← nat; let o ← nat; pure (.evend t m o)
  | 3 => do let t ← nat; let k ← nat; pure (.cb t k)
  | 4 => do let t ← nat; let cs ← nats; pure (.decide t cs)
  | 5 => do let t ← nat; let v ← nat; pure (.set t v)
  | 6 => do let t ← nat; pure (.fail t)
  | 7 => do let t ← nat; let b ← bool; pure (.ret t b)
  | 8 => do let t ← nat; let b ← bool; pure (.raised t b)
  | 9 => do let m ← nat; pure (.remove m)
  | _ => failure

def c08Input : P (AS.Cfg × List Label) := do
  let queued ← nat
  let onExc ← bool
  let prot ← nats
  let states ← nats
  let initial ← nat
  let ls ← list c08Label
  pure ({ queued, onExc, prot, states, initial }, ls)

def c08Accept : P String := do
  let (c, ls) ← c08Input
  pure (match firstReject c (St.init c) ls 0 with
    | none => "ok"
    | some i => s!"reject {i}")

def c08Monitor : P String := do
  let (c, ls) ← c08Input
  pure (if serialOK c ls then "ok" else "reject")

def hC08 : List (String × Handler) :=
  [("c08", fun ns => run c08Accept ns), ("c08mon", fun ns => run c08Monitor ns)]

end Handlers
