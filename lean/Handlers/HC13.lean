/-
  Handlers/HC13.lean — driver requests of property C13.

    c13build <opts> <ops>     → `C <cfg…> I <init>` (the machine `Build.build` constructs) | `raise`
    c13equiv <cfg> <cfg>      → `ok` | `reject`      (verified checker `Build.equivCheck`, see Props/C13)
    c13names <mode> <scope> <segments> <paths>   → `ok <paths>` | `raises` | `replaces`   (Model/NestedNames.lean)
-/
import Handlers.Basic
import Model.Build
import Model.Spec.C13
import Model.NestedNames

namespace Handlers
open TM TM.Codec TM.Build

def opt3 : P (Option Bool) := do
  let k ← nat
  pure (match k with | 0 => none | 1 => some false | _ => some true)

def sspec : P SSpec := do
  let name ← nat; let onEnter ← nats; let onExit ← nats; let ign ← opt3; let fill ← bool; let final ← bool
  pure { name, onEnter, onExit, ign, fill, final }

def srcP : P Src := do
  let k ← nat
  match k with
  | 0 => Src.one <$> nat
  | 1 => Src.many <$> nats
  | _ => pure Src.all

def dstP : P Dst := do
  let k ← nat
  match k with
  | 0 => Dst.to <$> nat
  | 1 => pure Dst.same
  | _ => pure Dst.internal

def cbSpec : P CbSpec := do
  let conditions ← nats; let unlss ← nats; let before ← nats; let after ← nats; let prepare ← nats
  pure { conditions, unlss, before, after, prepare }

def oarg : P OArg := opt (list nats)

def opP : P Op := do
  let k ← nat
  match k with
  | 0 => do let ci ← opt3; let l ← list sspec; pure (.addStates l ci)
  | 1 => do let ev ← nat; let s ← srcP; let d ← dstP; let cb ← cbSpec; pure (.addTransition ev s d cb)
  | 2 => do
    let ev ← nat; let sts ← opt nats; let loop ← bool; let incl ← bool
    let c ← oarg; let u ← oarg; let bf ← oarg; let af ← oarg; let pr ← oarg
    pure (.addOrdered ev sts loop incl c u bf af pr)
  | 3 => do let ev ← nat; let s ← opt nats; let d ← opt nats; pure (.remove ev s d)
  | _ => Op.setInitial <$> nat

def optsP : P Opts := do
  let auto ← bool; let mign ← opt3
  let prepareEvent ← nats; let beforeSC ← nats; let afterSC ← nats; let finalize ← nats
  let onException ← nats; let onFinal ← nats; let queued ← bool
  pure { auto, mign, prepareEvent, beforeSC, afterSC, finalize, onException, onFinal, queued }

def encList (l : List Nat) : List Nat := l.length :: l

def encState (s : StateDef) : List Nat :=
  s.name :: encList s.onEnter ++ encList s.onExit ++
    [match s.ignore with | none => 0 | some false => 1 | some true => 2, if s.final then 1 else 0]

def encTrans (t : Trans) : List Nat :=
  t.source :: (match t.dest with | none => [0] | some d => [1, d]) ++ encList t.prepare ++
    (t.conds.length :: t.conds.flatMap fun c => [c.cb, if c.target then 1 else 0]) ++
    encList t.before ++ encList t.after

def encCfg (c : Cfg) : List Nat :=
  (c.states.length :: c.states.flatMap encState) ++
  (c.events.length :: c.events.flatMap fun (e, ts) => e :: ts.length :: ts.flatMap encTrans)

def c13build : P String := do
  let o ← optsP
  let ops ← list opP
  match build o ops with
  | none => pure "raise"
  | some b =>
    let i := match b.init with | none => [0] | some n => [1, n]
    pure s!"C {joinNats (encCfg b.cfg)} I {joinNats i}"

def c13equiv : P String := do
  let a ← cfg
  let b ← cfg
  pure (if equivCheck a b then "ok" else "reject")

/-- `c13names <mode 0 joined | 1 dict chain> <scope> <segments> <registered paths>` → `ok <paths>` | `raises` | `replaces` -/
def c13names : P String := do
  let mode ← nat
  let sc ← nats
  let segs ← nats
  let s ← list nats
  let r := if mode = 0 then NestedNames.addJoined sc segs s else NestedNames.addChainDict sc segs s
  pure (match r with
    | .ok l => s!"ok {joinNats (l.length :: l.flatMap fun p => p.length :: p)}"
    | .raises => "raises"
    | .replaces => "replaces")

def hC13 : List (String × Handler) :=
  [("c13build", run c13build), ("c13equiv", run c13equiv), ("c13names", run c13names)]

end Handlers
