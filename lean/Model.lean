import Model.Basic
import Model.Core
import Model.Codec
import Model.Spec.C01
import Model.Spec.C05
import Model.Async
import Model.Spec.C07
