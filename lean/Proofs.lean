import Proofs.C01
import Proofs.C05
import Proofs.C13
import Proofs.C13Behaviour
import Proofs.C13Check
