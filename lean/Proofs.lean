import Proofs.C01
import Proofs.C05
import Proofs.C07
