import Proofs.C01
import Proofs.C05
import Proofs.C04
import Proofs.Frame
import Proofs.C12
