import Proofs.C01
