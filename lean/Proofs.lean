import Proofs.C01
import Proofs.C05
