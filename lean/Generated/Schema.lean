/-
  Generated/Schema.lean — HAND-WRITTEN vocabulary of the tables that `harness/extract_tables.py`
  writes into `Generated/Tables.lean` from the live classes of the library under test.

  Everything here is plain data (`String`, `Bool`, `List`); the theorems over the tables are closed
  `decide` goals in `Props/C09.lean`.
-/
namespace TM
namespace Gen

/-- a feature tuple in the argument order of `MachineFactory.get_predefined(graph, nested, locked, asyncio)` -/
structure Feat where
  graph : Bool
  nested : Bool
  locked : Bool
  async : Bool
  deriving DecidableEq, Repr, Inhabited

/-- what `issubclass` says about one of the resolved `state_cls` / `event_cls` / `transition_cls` -/
structure Kind where
  /-- `__name__` of the class -/
  name : String
  /-- subclass of NestedState / NestedEvent / NestedTransition -/
  nested : Bool
  /-- subclass of AsyncState / AsyncEvent or NestedAsyncEvent / AsyncTransition -/
  async : Bool
  /-- events: subclass of LockedEvent; transitions: subclass of TransitionGraphSupport; states: false -/
  extra : Bool
  deriving DecidableEq, Repr, Inhabited

/-- one machine class as the interpreter resolves it -/
structure ClassRow where
  name : String
  /-- `issubclass(cls, GraphMachine / HierarchicalMachine / LockedMachine / AsyncMachine)` -/
  feat : Feat
  /-- `issubclass(cls, MarkupMachine)` -/
  markup : Bool
  stateCls : Kind
  eventCls : Kind
  transCls : Kind
  /-- `[c.__name__ for c in cls.__mro__]` -/
  mro : List String
  /-- `inspect.signature(cls.__init__)`: (parameter, repr(default)) in order, `self` dropped;
      `*args` / `**kwargs` appear as `("*args", "")` / `("**kwargs", "")` -/
  ctor : List (String × String)
  deriving DecidableEq, Repr, Inhabited

/-- one parameter of a method (`inspect.signature`, `self` dropped): `default` is `repr(default)`, `""` when
the parameter is required; `kind` 0 named, 1 `*args`, 2 `**kwargs` -/
structure Param where
  name : String
  default : String
  kind : Nat
  deriving DecidableEq, Repr, Inhabited

/-- a function that replaces a method of a base class (`Machine`, `State`, `Event`, `Transition`) in one of the
predefined classes or in a resolved `state_cls / event_cls / transition_cls` -/
structure Override where
  /-- the class of the MRO whose body holds the function -/
  owner : String
  method : String
  base : String
  /-- the classes that have this function in their MRO -/
  usedBy : List String
  baseParams : List Param
  params : List Param
  deriving DecidableEq, Repr, Inhabited

/-- result of `MachineFactory.get_predefined(*tuple)` -/
inductive Answer
  | cls (name : String)
  | valueError
  | otherError (exc : String)
  deriving DecidableEq, Repr, Inhabited

def lookupClass (rows : List ClassRow) (n : String) : Option ClassRow := rows.find? (·.name == n)

def allFeats : List Feat :=
  [false, true].flatMap fun g => [false, true].flatMap fun n => [false, true].flatMap fun l =>
    [false, true].map fun a => ⟨g, n, l, a⟩

end Gen
end TM
