/-
  Proofs/C02Frame.lean — the frame of hierarchical dispatch: with a script that issues no re-entrant commands,
  everything `napiTrigger` does to the configuration and the ghost log is a composition of
    * marks (ghost events that are not entries / exits; a `fin` mark carries the mask of the configuration then),
    * state changes `[exec t] ++ (what nchangeState appends)` made from a scope that is reachable from the
      machine's scope along its own prefix,
  whatever the dispatch code does in between (per-key loops, scope recursion, `done` set, queue).  Hence every
  reflexive-transitive relation on views that is closed under marks and state changes relates the view before a
  trigger call to the view after it.
-/
import Proofs.C02Base

namespace TM
open C02

structure Closed (cfg : NCfg) (sub : NSub) (sc : Script) (R : View → View → Prop) : Prop where
  refl : ∀ v, R v v
  trans : ∀ {a b c}, R a b → R b c → R a c
  /-- a mark is appended (for `fin`: with the mask of the current configuration) -/
  mark : ∀ (v : View) (e : GEv), e.isMark = true → (∀ t m, e = .fin t m → m = confMask cfg v.conf) →
    R v ⟨v.conf, v.glog ++ [e]⟩
  /-- a transition with a destination executes: the `exec` mark followed by `nchangeState` -/
  execChange : ∀ (scope : Scope) (x : Ctx) (dest : SPath) (tr : TRef) (s s' : NSt),
    cfg.root.walkTo scope.pre = some scope →
    (nchangeState sub sc cfg scope x dest { s with glog := s.glog ++ [.exec tr] }).state? = some s' →
    R s.view s'.view

/-- exception kinds the engine itself raises (everything but what a scripted callback raises) -/
def Exc.isEngine : Exc → Bool
  | .user _ => false
  | .base _ => false
  | _ => true

/-- `Closed` with the `mark` clause restricted: a `raised` mark carries an engine kind (with a script that never
raises no other `raised` mark is ever emitted, see `napiTrigger_err_engine`) -/
structure Closed' (cfg : NCfg) (sub : NSub) (sc : Script) (R : View → View → Prop) : Prop where
  refl : ∀ v, R v v
  trans : ∀ {a b c}, R a b → R b c → R a c
  /-- a mark is appended (for `fin`: with the mask of the current configuration; for `raised`: an engine kind) -/
  mark : ∀ (v : View) (e : GEv), e.isMark = true → (∀ t m, e = .fin t m → m = confMask cfg v.conf) →
    (hne : ∀ t x, e = .raised t x → x.isEngine = true) →
    R v ⟨v.conf, v.glog ++ [e]⟩
  /-- a transition with a destination executes: the `exec` mark followed by `nchangeState` -/
  execChange : ∀ (scope : Scope) (x : Ctx) (dest : SPath) (tr : TRef) (s s' : NSt),
    cfg.root.walkTo scope.pre = some scope →
    (nchangeState sub sc cfg scope x dest { s with glog := s.glog ++ [.exec tr] }).state? = some s' →
    R s.view s'.view

/-- common generalisation of `Closed` (`Q := fun _ => True`) and `Closed'` (`Q := (·.isEngine = true)`): the kinds
of the `raised` marks under which `R` is closed satisfy `Q` -/
structure ClosedG (cfg : NCfg) (sub : NSub) (sc : Script) (R : View → View → Prop) (Q : Exc → Prop) : Prop where
  refl : ∀ v, R v v
  trans : ∀ {a b c}, R a b → R b c → R a c
  mark : ∀ (v : View) (e : GEv), e.isMark = true → (∀ t m, e = .fin t m → m = confMask cfg v.conf) →
    (∀ t x, e = .raised t x → Q x) → R v ⟨v.conf, v.glog ++ [e]⟩
  execChange : ∀ (scope : Scope) (x : Ctx) (dest : SPath) (tr : TRef) (s s' : NSt),
    cfg.root.walkTo scope.pre = some scope →
    (nchangeState sub sc cfg scope x dest { s with glog := s.glog ++ [.exec tr] }).state? = some s' →
    R s.view s'.view

theorem Closed.toG {cfg : NCfg} {sub : NSub} {sc : Script} {R : View → View → Prop} (h : Closed cfg sub sc R) :
    ClosedG cfg sub sc R (fun _ => True) :=
  ⟨h.refl, h.trans, fun v e hm hf _ => h.mark v e hm hf, h.execChange⟩

theorem Closed'.toG {cfg : NCfg} {sub : NSub} {sc : Script} {R : View → View → Prop} (h : Closed' cfg sub sc R) :
    ClosedG cfg sub sc R (fun x => x.isEngine = true) :=
  ⟨h.refl, h.trans, h.mark, h.execChange⟩

/-! ### scopes -/

theorem Scope.enter_pre {sc sc' : Scope} {k : Nat} (h : sc.enter k = some sc') : sc'.pre = sc.pre ++ [k] := by
  unfold Scope.enter at h
  split at h
  · cases h; rfl
  · cases h

theorem Scope.walkTo_snoc : ∀ (p : SPath) (sc sc1 sc2 : Scope) (k : Nat),
    sc.walkTo p = some sc1 → sc1.enter k = some sc2 → sc.walkTo (p ++ [k]) = some sc2
  | [], sc, sc1, sc2, k, h1, h2 => by
    simp only [Scope.walkTo, Option.some.injEq] at h1
    subst h1
    simp [Scope.walkTo, h2]
  | a :: p, sc, sc1, sc2, k, h1, h2 => by
    simp only [Scope.walkTo, List.cons_append] at h1 ⊢
    cases he : sc.enter a with
    | none => simp [he] at h1
    | some sc' =>
      simp only [he] at h1 ⊢
      exact Scope.walkTo_snoc p sc' sc1 sc2 k h1 h2

/-- the reachability invariant of the scope recursion is kept by `with self(key)` -/
theorem Scope.walkTo_enter {root sc sc' : Scope} {k : Nat} (hw : root.walkTo sc.pre = some sc)
    (he : sc.enter k = some sc') : root.walkTo sc'.pre = some sc' := by
  rw [Scope.enter_pre he]
  exact Scope.walkTo_snoc _ _ _ _ _ hw he

theorem NCfg.walkTo_root (cfg : NCfg) : cfg.root.walkTo cfg.root.pre = some cfg.root := rfl

/-! ### callbacks do not touch the view -/

section View
variable (sub : NSub) (sc : Script) (cfg : NCfg)

theorem ninvoke_view (hC : NoCmds sc) (slot : Slot) (x : Ctx) (c : Nat) (s s' : NSt)
    (h : (ninvoke sub sc cfg slot x c s).state? = some s') : s'.view = s.view := by
  simp only [ninvoke, hC c, nrunCmds] at h
  cases ho : (sc c (s.count c)).out <;> simp only [ho, Res.state?, Option.some.injEq] at h <;> subst h <;> rfl

theorem ncallbacks_view (hC : NoCmds sc) (slot : Slot) (x : Ctx) : ∀ (cbs : List Nat) (s s' : NSt),
    (ncallbacks sub sc cfg slot x cbs s).state? = some s' → s'.view = s.view
  | [], s, s', h => by simp only [ncallbacks, Res.state?, Option.some.injEq] at h; subst h; rfl
  | c :: cs, s, s', h => by
    unfold ncallbacks at h
    cases hi : ninvoke sub sc cfg slot x c s with
    | ok b s1 =>
      simp only [hi, Res.bind] at h
      rw [ncallbacks_view hC slot x cs s1 s' h]
      exact ninvoke_view sub sc cfg hC slot x c s s1 (by simp [hi, Res.state?])
    | err e s1 =>
      simp only [hi, Res.bind, Res.state?, Option.some.injEq] at h; subst h
      exact ninvoke_view sub sc cfg hC slot x c s s1 (by simp [hi, Res.state?])
    | oof => simp [hi, Res.bind, Res.state?] at h

theorem nevalConds_view (hC : NoCmds sc) (x : Ctx) : ∀ (cs : List Cond) (s s' : NSt),
    (nevalConds sub sc cfg x cs s).state? = some s' → s'.view = s.view
  | [], s, s', h => by simp only [nevalConds, Res.state?, Option.some.injEq] at h; subst h; rfl
  | c :: cs, s, s', h => by
    unfold nevalConds at h
    cases hi : ninvoke sub sc cfg (if c.target then .condition else .unless) x c.cb s with
    | ok b s1 =>
      have h1 := ninvoke_view sub sc cfg hC _ x c.cb s s1 (by rw [hi]; rfl)
      simp only [hi, Res.bind] at h
      split at h
      · rw [nevalConds_view hC x cs s1 s' h, h1]
      · simp only [Res.state?, Option.some.injEq] at h; subst h; exact h1
    | err e s1 =>
      simp only [hi, Res.bind, Res.state?, Option.some.injEq] at h; subst h
      exact ninvoke_view sub sc cfg hC _ x c.cb s s1 (by rw [hi]; rfl)
    | oof => simp [hi, Res.bind, Res.state?] at h

end View


/-! ### only engine kinds -/

/-- a pure computation fails with engine kinds only -/
def PR.ErrE {α} (r : PR α) : Prop := ∀ e, r = .err e → e.isEngine = true

theorem PR.ErrE.ok {α} {a : α} : (PR.ok a).ErrE := by intro e h; cases h
theorem PR.ErrE.oof {α} : (PR.oof : PR α).ErrE := by intro e h; cases h
theorem PR.ErrE.err {α} {e : Exc} (h : e.isEngine = true) : (PR.err e : PR α).ErrE := by
  intro e' h'; cases h'; exact h
theorem PR.ErrE.bind {α β} {r : PR α} {f : α → PR β} (h1 : r.ErrE) (h2 : ∀ a, (f a).ErrE) : (r.bind f).ErrE := by
  intro e h
  cases r with
  | ok a => exact h2 a e h
  | err e' => simp only [PR.bind] at h; cases h; exact h1 _ rfl
  | oof => simp [PR.bind] at h

theorem Forest.reduceGet_err : ∀ (p : SPath) (f : Forest) (e : Exc), f.reduceGet p = .error e → e = .other
  | [], f, e, h => by simp [Forest.reduceGet] at h
  | k :: p, f, e, h => by
    unfold Forest.reduceGet at h
    split at h
    · exact Forest.reduceGet_err p _ e h
    · split at h
      · cases h
      · cases h; rfl

theorem initLoop_errE : ∀ (n : Nat) (q : List InitJob) (tree : Forest) (ents : List Found),
    (initLoop n q tree ents).ErrE
  | n, [], tree, ents => by
    have : initLoop n [] tree ents = .ok (tree, ents) := by cases n <;> rfl
    rw [this]; exact PR.ErrE.ok
  | 0, _ :: _, _, _ => PR.ErrE.oof
  | n + 1, (pos, pre, sts) :: q, tree, ents => by
    unfold initLoop
    simp only []
    split
    · exact PR.ErrE.err rfl
    · exact initLoop_errE n _ _ _

theorem enterInitial_errE (sc : Scope) : (enterInitial sc).ErrE := by
  unfold enterInitial
  split
  · exact PR.ErrE.ok
  · split
    · exact PR.ErrE.err rfl
    · exact initLoop_errE _ _ _ _

theorem enterDest_errE : ∀ (d : SPath) (sc : Scope), (enterDest sc d).ErrE
  | [], sc => by unfold enterDest; exact enterInitial_errE sc
  | k :: d, sc => by
    unfold enterDest
    split
    · exact PR.ErrE.err rfl
    · exact PR.ErrE.bind (enterDest_errE d _) (fun _ => PR.ErrE.ok)

theorem enterRoot_errE : ∀ (r : SPath) (sc : Scope) (dest : SPath), (enterRoot sc r dest).ErrE
  | [], sc, dest => by unfold enterRoot; exact enterDest_errE dest sc
  | k :: r, sc, dest => by
    unfold enterRoot
    split
    · exact PR.ErrE.err rfl
    · exact enterRoot_errE r _ dest

theorem exitStates_errE (root sc : Scope) (rt : SPath) : ∀ (ps : List SPath), (exitStates root sc rt ps).ErrE
  | [] => PR.ErrE.ok
  | p :: ps => by
    unfold exitStates
    split
    · exact PR.ErrE.err rfl
    · exact PR.ErrE.bind (exitStates_errE root sc rt ps) (fun _ => PR.ErrE.ok)

theorem resolveTransition_errE (root sc : Scope) (conf : Forest) (dest : SPath) :
    (resolveTransition root sc conf dest).ErrE := by
  unfold resolveTransition
  split
  · exact PR.ErrE.err rfl
  · simp only []
    split
    · rename_i e he
      rw [Forest.reduceGet_err _ _ e he]; exact PR.ErrE.err rfl
    · exact PR.ErrE.err rfl
    · split
      · rename_i e he
        rw [Forest.reduceGet_err _ _ e he]; exact PR.ErrE.err rfl
      · exact PR.ErrE.err rfl
      · split
        · exact PR.ErrE.oof
        · refine PR.ErrE.bind (exitStates_errE _ _ _ _) ?_
          intro exits
          refine PR.ErrE.bind (enterRoot_errE _ _ _) ?_
          intro r
          exact PR.ErrE.ok

theorem nfinalLoop_errE (E : List SPath) : ∀ (f : Forest) (sc : Scope) (cbs : List (List Nat)) (all : Bool),
    (nfinalLoop E sc f cbs all).ErrE := by
  intro f
  induction f with
  | nil => intro sc cbs all; unfold nfinalLoop; exact PR.ErrE.ok
  | cons k sub rest ih1 ih2 =>
    intro sc cbs all
    unfold nfinalLoop
    split
    · exact PR.ErrE.err rfl
    · exact PR.ErrE.bind (ih1 _ _ _) (fun r => ih2 _ _ _)

theorem nfinalCheckRoot_errE (cfg : NCfg) (tree : Forest) (E : List SPath) : (nfinalCheckRoot cfg tree E).ErrE := by
  unfold nfinalCheckRoot
  refine PR.ErrE.bind (nfinalLoop_errE E _ _ _ _) ?_
  intro r
  split
  · exact PR.ErrE.ok
  · split
    · split
      · exact PR.ErrE.ok
      · split
        · exact PR.ErrE.ok
        · exact PR.ErrE.err rfl
    · exact PR.ErrE.ok

/-- the final-check stage is: nothing, or an engine failure in place, or one run of `on_final` callbacks -/
theorem nfinalStage_cases (sub : NSub) (sc : Script) (cfg : NCfg) (scope : Scope) (x : Ctx) (dest : Option SPath)
    (conf0 : Forest) (s : NSt) :
    nfinalStage sub sc cfg scope x dest conf0 s = .ok () s ∨
    (∃ cbs, nfinalStage sub sc cfg scope x dest conf0 s = ncallbacks sub sc cfg .onFinal x cbs s) ∨
    (∃ e, e.isEngine = true ∧ nfinalStage sub sc cfg scope x dest conf0 s = .err e s) ∨
    nfinalStage sub sc cfg scope x dest conf0 s = .oof := by
  unfold nfinalStage
  cases dest with
  | none => exact Or.inl rfl
  | some d =>
    simp only []
    cases hr : resolveTransition cfg.root scope conf0 d with
    | ok r =>
      simp only []
      cases hf : nfinalCheckRoot cfg r.tree (r.enters.map (·.path)) with
      | ok cbs => exact Or.inr (Or.inl ⟨_, rfl⟩)
      | err e => exact Or.inr (Or.inr (Or.inl ⟨e, nfinalCheckRoot_errE _ _ _ e hf, rfl⟩))
      | oof => exact Or.inr (Or.inr (Or.inr rfl))
    | err e => exact Or.inl rfl
    | oof => exact Or.inl rfl

theorem nfinalStage_view (sub : NSub) (sc : Script) (cfg : NCfg) (hC : NoCmds sc) (scope : Scope) (x : Ctx)
    (dest : Option SPath) (conf0 : Forest) (s s' : NSt)
    (h : (nfinalStage sub sc cfg scope x dest conf0 s).state? = some s') : s'.view = s.view := by
  rcases nfinalStage_cases sub sc cfg scope x dest conf0 s with h1 | ⟨cbs, h1⟩ | ⟨e, _, h1⟩ | h1 <;> rw [h1] at h
  · simp only [Res.state?, Option.some.injEq] at h; subst h; rfl
  · exact ncallbacks_view sub sc cfg hC _ x cbs s s' h
  · simp only [Res.state?, Option.some.injEq] at h; subst h; rfl
  · simp [Res.state?] at h

theorem cerLoop_errE (cfg : NCfg) (ev : Nat) : ∀ (l : List SPath), (cerLoop cfg ev l).ErrE
  | [] => PR.ErrE.ok
  | p :: r => by
    unfold cerLoop
    split
    · exact PR.ErrE.err rfl
    · split
      · split
        · exact PR.ErrE.err rfl
        · exact PR.ErrE.err rfl
      · exact cerLoop_errE cfg ev r

/-- an engine computation fails with engine kinds only -/
def ErrE {α} (r : NR α) : Prop := ∀ e s', r = .err e s' → e.isEngine = true

theorem ErrE.ok {α} {a : α} {s : NSt} : ErrE (.ok a s : NR α) := by intro e s' h; cases h
theorem ErrE.oof {α} : ErrE (.oof : NR α) := by intro e s' h; cases h
theorem ErrE.err {α} {e : Exc} {s : NSt} (h : e.isEngine = true) : ErrE (.err e s : NR α) := by
  intro e' s' h'; cases h'; exact h
theorem ErrE.bind {α β} {r : NR α} {f : α → NSt → NR β} (h1 : ErrE r) (h2 : ∀ a s1, ErrE (f a s1)) :
    ErrE (r.bind f) := by
  intro e s' h
  cases r with
  | ok a s1 => exact h2 a s1 e s' h
  | err e' s1 => simp only [Res.bind] at h; cases h; exact h1 _ _ rfl
  | oof => simp [Res.bind] at h
theorem ErrE.map {α β} {r : NR α} {f : α → β} (h1 : ErrE r) : ErrE (r.map f) := by
  intro e s' h
  cases r with
  | ok a s1 => simp [Res.map] at h
  | err e' s1 => simp only [Res.map] at h; cases h; exact h1 _ _ rfl
  | oof => simp [Res.map] at h

section ErrE
variable {cfg : NCfg} {sub : NSub} {sc : Script}

theorem ninvoke_errE (hR : NoRaise sc) (hC : NoCmds sc) (slot : Slot) (x : Ctx) (c : Nat) (s : NSt) :
    ErrE (ninvoke sub sc cfg slot x c s) := by
  obtain ⟨b, hb⟩ := hR c (s.count c)
  simp only [ninvoke, hC c, nrunCmds, hb]
  exact ErrE.ok

theorem ncallbacks_errE (hR : NoRaise sc) (hC : NoCmds sc) (slot : Slot) (x : Ctx) : ∀ (cbs : List Nat) (s : NSt),
    ErrE (ncallbacks sub sc cfg slot x cbs s)
  | [], s => ErrE.ok
  | c :: cs, s => by
    unfold ncallbacks
    exact ErrE.bind (ninvoke_errE hR hC slot x c s) (fun _ s1 => ncallbacks_errE hR hC slot x cs s1)

theorem nevalConds_errE (hR : NoRaise sc) (hC : NoCmds sc) (x : Ctx) : ∀ (cs : List Cond) (s : NSt),
    ErrE (nevalConds sub sc cfg x cs s)
  | [], s => ErrE.ok
  | c :: cs, s => by
    unfold nevalConds
    refine ErrE.bind (ninvoke_errE hR hC _ x c.cb s) ?_
    intro b s1
    split
    · exact nevalConds_errE hR hC x cs s1
    · exact ErrE.ok

theorem exitAll_errE (hR : NoRaise sc) (hC : NoCmds sc) (x : Ctx) : ∀ (fs : List Found) (s : NSt),
    ErrE (exitAll sub sc cfg x fs s)
  | [], s => ErrE.ok
  | f :: fs, s => by
    unfold exitAll
    exact ErrE.bind (ncallbacks_errE hR hC _ x _ _) (fun _ s1 => exitAll_errE hR hC x fs s1)

theorem enterAll_errE (hR : NoRaise sc) (hC : NoCmds sc) (x : Ctx) : ∀ (fs : List Found) (s : NSt),
    ErrE (enterAll sub sc cfg x fs s)
  | [], s => ErrE.ok
  | f :: fs, s => by
    unfold enterAll
    exact ErrE.bind (ncallbacks_errE hR hC _ x _ _) (fun _ s1 => enterAll_errE hR hC x fs s1)

theorem nchangeState_errE (hR : NoRaise sc) (hC : NoCmds sc) (scope : Scope) (x : Ctx) (dest : SPath) (s : NSt) :
    ErrE (nchangeState sub sc cfg scope x dest s) := by
  unfold nchangeState
  split
  · rename_i e he
    exact ErrE.err (resolveTransition_errE _ _ _ _ e he)
  · exact ErrE.oof
  · exact ErrE.bind (exitAll_errE hR hC x _ _) (fun _ s1 => enterAll_errE hR hC x _ _)

theorem nfinalStage_errE (hR : NoRaise sc) (hC : NoCmds sc) (scope : Scope) (x : Ctx) (dest : Option SPath)
    (conf0 : Forest) (s : NSt) : ErrE (nfinalStage sub sc cfg scope x dest conf0 s) := by
  rcases nfinalStage_cases sub sc cfg scope x dest conf0 s with h1 | ⟨cbs, h1⟩ | ⟨e, he, h1⟩ | h1 <;> rw [h1]
  · exact ErrE.ok
  · exact ncallbacks_errE hR hC _ x cbs s
  · exact ErrE.err he
  · exact ErrE.oof

theorem nexecute_errE (hR : NoRaise sc) (hC : NoCmds sc) (scope : Scope) (x : Ctx) (tr : TRef) (t : NTrans) (s : NSt) :
    ErrE (nexecute sub sc cfg scope x tr t s) := by
  unfold nexecute
  refine ErrE.bind (ncallbacks_errE hR hC _ x _ _) ?_
  intro _ s1
  refine ErrE.bind (nevalConds_errE hR hC x _ s1) ?_
  intro ok s2
  split
  · exact ErrE.ok
  · refine ErrE.bind (ncallbacks_errE hR hC _ x _ _) ?_
    intro _ s3
    refine ErrE.bind (ncallbacks_errE hR hC _ x _ _) ?_
    intro _ s4
    refine ErrE.bind ?_ ?_
    · split
      · exact nchangeState_errE hR hC scope x _ s4
      · exact ErrE.ok
    · intro _ s5
      refine ErrE.bind (nfinalStage_errE hR hC scope x _ _ _) ?_
      intro _ s5
      refine ErrE.bind (ncallbacks_errE hR hC _ x _ _) ?_
      intro _ s6
      refine ErrE.bind (ncallbacks_errE hR hC _ x _ _) ?_
      intro _ s7
      exact ErrE.ok

theorem ntry_errE (hR : NoRaise sc) (hC : NoCmds sc) (scope : Scope) (x : Ctx) :
    ∀ (cands : List (TRef × NTrans)) (s : NSt), ErrE (ntry sub sc cfg scope x cands s)
  | [], s => ErrE.ok
  | (tr, t) :: r, s => by
    unfold ntry
    refine ErrE.bind (nexecute_errE hR hC scope x tr t s) ?_
    intro b s1
    cases b with
    | true => exact ErrE.ok
    | false => exact ntry_errE hR hC scope x r _

theorem nprocess_errE (hR : NoRaise sc) (hC : NoCmds sc) (scope : Scope) (x : Ctx) (cands : List (TRef × NTrans))
    (s : NSt) : ErrE (nprocess sub sc cfg scope x cands s) := by
  unfold nprocess
  exact ErrE.bind (ncallbacks_errE hR hC _ x _ s) (fun _ s1 => ntry_errE hR hC scope x cands s1)

theorem tnLoop_errE (hR : NoRaise sc) (hC : NoCmds sc) (scope : Scope) (x : Ctx) (ev : Nat) (ts : List NTrans) :
    ∀ (ps done : List SPath) (s : NSt), ErrE (tnLoop sub sc cfg scope x ev ts ps done s)
  | [], _, s => ErrE.ok
  | p :: ps, done, s => by
    unfold tnLoop
    simp only []
    split
    · exact tnLoop_errE hR hC scope x ev ts ps done s
    · split
      · exact ErrE.err rfl
      · exact ErrE.bind (nprocess_errE hR hC scope x _ s) (fun _ s1 => tnLoop_errE hR hC scope x ev ts ps _ s1)

theorem triggerNested_errE (hR : NoRaise sc) (hC : NoCmds sc) (scope : Scope) (x : Ctx) (ev : Nat) (ts : List NTrans)
    (s : NSt) : ErrE (triggerNested sub sc cfg scope x ev ts s) := by
  unfold triggerNested
  split
  · rename_i e he
    rw [Forest.reduceGet_err _ _ e he]; exact ErrE.err rfl
  · exact ErrE.err rfl
  · split
    · exact ErrE.oof
    · exact ErrE.bind (tnLoop_errE hR hC scope x ev ts _ _ s) (fun _ _ => by split <;> exact ErrE.ok)

theorem ten_errE (hR : NoRaise sc) (hC : NoCmds sc) (x : Ctx) (ev : Nat) :
    ∀ (tree : Forest) (scope : Scope) (res : List (Nat × Bool)) (offered : Bool) (s : NSt),
    ErrE (ten sub sc cfg x ev scope tree res offered s) := by
  intro tree
  induction tree with
  | nil => intro scope res offered s; unfold ten; exact ErrE.ok
  | cons key value rest ihv ihr =>
    intro scope res offered s
    unfold ten
    refine ErrE.bind ?_ ?_
    · split
      · exact ErrE.ok
      · split
        · exact ErrE.err rfl
        · exact ErrE.bind (ihv _ [] false s) (fun _ _ => ErrE.ok)
    · intro res1 s1
      split
      · split
        · exact ErrE.bind (triggerNested_errE hR hC scope x ev _ s1) (fun _ s2 => ihr scope _ true s2)
        · exact ihr scope res1 offered s1
      · exact ihr scope res1 offered s1

theorem checkEventResult_errE (cfg : NCfg) (res : Option Bool) (ev : Nat) (s : NSt) :
    ErrE (checkEventResult cfg res ev s) := by
  unfold checkEventResult
  split
  · exact ErrE.ok
  · split
    · exact ErrE.ok
    · rename_i e he
      exact ErrE.err (cerLoop_errE cfg ev _ e he)
    · exact ErrE.oof

theorem triggerEventBody_errE (hR : NoRaise sc) (hC : NoCmds sc) (x : Ctx) (ev : Nat) (s : NSt) :
    ErrE (triggerEventBody sub sc cfg x ev s) := by
  unfold triggerEventBody
  refine ErrE.bind (ten_errE hR hC x ev _ _ _ _ s) ?_
  intro r s1
  exact ErrE.bind (checkEventResult_errE cfg _ ev s1) (fun _ _ => ErrE.ok)

theorem exceptClause_errE (hR : NoRaise sc) (hC : NoCmds sc) (x : Ctx) (body : NR Bool) (hbody : ErrE body) :
    ErrE (match body with
      | .ok b s' => (.ok b s' : NR Bool)
      | .err e s' =>
        match cfg.onException with
        | [] => .err e s'
        | hs => (ncallbacks sub sc cfg .onException x hs s').bind fun _ s'' => .ok (s''.result.getD false) s''
      | .oof => .oof) := by
  cases body with
  | ok b s1 => exact ErrE.ok
  | oof => exact ErrE.oof
  | err e s1 =>
    simp only []
    split
    · exact ErrE.err (hbody e s1 rfl)
    · exact ErrE.bind (ncallbacks_errE hR hC _ x _ s1) (fun _ _ => ErrE.ok)

theorem finallyClause_errE (x : Ctx) (r1 : NR Bool) (hr1 : ErrE r1) :
    ErrE (match r1 with
      | .ok b s' => match nfinalize sub sc cfg x s' with
        | some s'' => (.ok b s'' : NR Bool)
        | none => .oof
      | .err e s' => match nfinalize sub sc cfg x s' with
        | some s'' => .err e s''
        | none => .oof
      | .oof => .oof) := by
  cases r1 with
  | oof => exact ErrE.oof
  | ok b s1 => simp only []; split <;> first | exact ErrE.ok | exact ErrE.oof
  | err e s1 => simp only []; split <;> first | exact ErrE.err (hr1 e s1 rfl) | exact ErrE.oof

theorem ntriggerEvent_errE (hR : NoRaise sc) (hC : NoCmds sc) (x : Ctx) (ev : Nat) (s : NSt) :
    ErrE (ntriggerEvent sub sc cfg x ev s) := by
  unfold ntriggerEvent
  exact finallyClause_errE x _ (exceptClause_errE hR hC x _ (triggerEventBody_errE hR hC x ev _))

theorem ndrain_errE (hR : NoRaise sc) (hC : NoCmds sc) : ∀ (n : Nat) (s : NSt), ErrE (ndrain sub sc cfg n s)
  | 0, _ => ErrE.oof
  | n + 1, s => by
    unfold ndrain
    split
    · exact ErrE.ok
    · split
      · exact ndrain_errE hR hC n _
      · rename_i e s1 hc
        exact ErrE.err (ntriggerEvent_errE hR hC _ _ s e s1 hc)
      · exact ErrE.oof

theorem nmachineProcess_errE (hR : NoRaise sc) (hC : NoCmds sc) (qmax ev tag : Nat) (s : NSt) :
    ErrE (nmachineProcess sub sc cfg qmax ev tag s) := by
  unfold nmachineProcess
  split
  · split
    · exact ntriggerEvent_errE hR hC _ ev s
    · exact ErrE.err rfl
  · simp only []
    split
    · exact ErrE.ok
    · exact ErrE.bind (ndrain_errE hR hC qmax _) (fun _ _ => ErrE.ok)

theorem napiTrigger_errE (hR : NoRaise sc) (hC : NoCmds sc) (qmax ev : Nat) (s : NSt) :
    ErrE (napiTrigger sub sc cfg qmax ev s) := by
  unfold napiTrigger
  simp only []
  split
  · exact ErrE.ok
  · rename_i e s1 hc
    exact ErrE.err (nmachineProcess_errE hR hC qmax ev _ _ e s1 hc)
  · exact ErrE.oof

end ErrE


/-! ### the frame -/

/-- every completed run of `r` (normal or exceptional) ends in a state whose view is `R`-related to `v` -/
def PresV {α} (R : View → View → Prop) (r : NR α) (v : View) : Prop := ∀ s', r.state? = some s' → R v s'.view

section Frame
variable {cfg : NCfg} {sub : NSub} {sc : Script} {R : View → View → Prop}

theorem PresV.ok {α} {v : View} {a : α} {s : NSt} (h : R v s.view) : PresV R (.ok a s : NR α) v := by
  intro s' hs; simp only [Res.state?, Option.some.injEq] at hs; subst hs; exact h
theorem PresV.err {α} {v : View} {e : Exc} {s : NSt} (h : R v s.view) : PresV R (.err e s : NR α) v := by
  intro s' hs; simp only [Res.state?, Option.some.injEq] at hs; subst hs; exact h
theorem PresV.oof {α} {v : View} : PresV R (.oof : NR α) v := by
  intro s' hs; simp [Res.state?] at hs

theorem PresV.weaken {α} (hcl : Closed cfg sub sc R) {r : NR α} {v w : View} (f : R v w) (h : PresV R r w) :
    PresV R r v := fun s' hs => hcl.trans f (h s' hs)

theorem PresV.bind {α β} {r : NR α} {f : α → NSt → NR β} {v : View}
    (h1 : PresV R r v) (h2 : ∀ a s1, r = .ok a s1 → R v s1.view → PresV R (f a s1) v) :
    PresV R (r.bind f) v := by
  intro s' h
  cases r with
  | ok a s1 => exact h2 a s1 rfl (h1 s1 rfl) s' h
  | err e s1 => simp only [Res.bind, Res.state?, Option.some.injEq] at h; subst h; exact h1 s1 rfl
  | oof => simp [Res.bind, Res.state?] at h

theorem PresV.map {α β} {r : NR α} {f : α → β} {v : View} (h1 : PresV R r v) : PresV R (r.map f) v := by
  intro s' h
  cases r with
  | ok a s1 => exact h1 s' h
  | err e s1 => exact h1 s' h
  | oof => simp [Res.map, Res.state?] at h

/-! #### generalised over the kinds of `raised` marks -/

section G
variable {Q : Exc → Prop}

theorem PresV.weakenG {α} (hcl : ClosedG cfg sub sc R Q) {r : NR α} {v w : View} (f : R v w) (h : PresV R r w) :
    PresV R r v := fun s' hs => hcl.trans f (h s' hs)

theorem ncallbacks_presG (hC : NoCmds sc) (hcl : ClosedG cfg sub sc R Q) (slot : Slot) (x : Ctx) (cbs : List Nat)
    (s : NSt) : PresV R (ncallbacks sub sc cfg slot x cbs s) s.view := by
  intro s' h; rw [ncallbacks_view sub sc cfg hC slot x cbs s s' h]; exact hcl.refl _

theorem nevalConds_presG (hC : NoCmds sc) (hcl : ClosedG cfg sub sc R Q) (x : Ctx) (cs : List Cond)
    (s : NSt) : PresV R (nevalConds sub sc cfg x cs s) s.view := by
  intro s' h; rw [nevalConds_view sub sc cfg hC x cs s s' h]; exact hcl.refl _

/-- a mark other than `fin` -/
theorem ClosedG.markG (hcl : ClosedG cfg sub sc R Q) (s : NSt) (e : GEv) (hm : e.isMark = true)
    (hf : ∀ t m, e = .fin t m → m = confMask cfg s.conf) (hr : ∀ t x, e = .raised t x → Q x) :
    R s.view (s.emitG e).view :=
  hcl.mark s.view e hm hf hr

/-- the `exec` mark, the `before` callbacks and the state change (if any), from the state before the mark -/
theorem execStep_presG (hcl : ClosedG cfg sub sc R Q) (scope : Scope) (x : Ctx) (tr : TRef)
    (dest : Option SPath) (s4 : NSt) (l : List GEv) (hw : cfg.root.walkTo scope.pre = some scope) :
    s4.glog = l ++ [.exec tr] →
    PresV R (match dest with
      | some d => nchangeState sub sc cfg scope x d s4
      | none => (.ok () s4 : NR Unit)) ⟨s4.conf, l⟩ := by
  intro hg
  cases dest with
  | none =>
    refine PresV.ok ?_
    have := hcl.mark ⟨s4.conf, l⟩ (.exec tr) rfl (by intro t m h; cases h) (by intro t x h; cases h)
    simpa [NSt.view, hg] using this
  | some d =>
    intro s' h
    have hs : ({ ({ s4 with glog := l } : NSt) with glog := ({ s4 with glog := l } : NSt).glog ++ [.exec tr] } : NSt) = s4 := by
      cases s4; simp only at hg; subst hg; rfl
    have := hcl.execChange scope x d tr { s4 with glog := l } s' hw (by rw [hs]; exact h)
    exact this


theorem nfinalStage_presG (hC : NoCmds sc) (hcl : ClosedG cfg sub sc R Q) (scope : Scope) (x : Ctx) (dest : Option SPath)
    (conf0 : Forest) (s : NSt) : PresV R (nfinalStage sub sc cfg scope x dest conf0 s) s.view := by
  intro s' h
  rw [nfinalStage_view sub sc cfg hC scope x dest conf0 s s' h]
  exact hcl.refl _

theorem nexecute_presG (hC : NoCmds sc) (hcl : ClosedG cfg sub sc R Q) (scope : Scope) (x : Ctx) (tr : TRef) (t : NTrans)
    (s : NSt) (hw : cfg.root.walkTo scope.pre = some scope) :
    PresV R (nexecute sub sc cfg scope x tr t s) s.view := by
  unfold nexecute
  have hcand : R s.view (s.emitG (.cand tr)).view := hcl.markG s _ rfl (by intro t m h; cases h) (by intro t x h; cases h)
  refine PresV.bind (PresV.weakenG hcl hcand (ncallbacks_presG hC hcl _ x _ _)) ?_
  intro _ s1 _ f1
  refine PresV.weakenG hcl f1 (PresV.bind (nevalConds_presG hC hcl x _ s1) ?_)
  intro ok s2 _ f2
  refine PresV.weakenG hcl f2 ?_
  cases ok with
  | false => exact PresV.ok (hcl.refl _)
  | true =>
    simp only [Bool.not_true, Bool.false_eq_true, if_false]
    refine PresV.bind (ncallbacks_presG hC hcl _ x _ s2) ?_
    intro _ s3 _ f3
    refine PresV.weakenG hcl f3 ?_
    -- from `s3`: the `exec` mark and the `before` callbacks (which fail or not) ...
    have hexec : R s3.view (s3.emitG (.exec tr)).view := hcl.markG s3 _ rfl (by intro t m h; cases h) (by intro t x h; cases h)
    refine PresV.bind (PresV.weakenG hcl hexec (ncallbacks_presG hC hcl _ x _ _)) ?_
    intro _ s4 h4 _
    have hv : s4.view = (s3.emitG (.exec tr)).view :=
      ncallbacks_view sub sc cfg hC _ x _ _ s4 (by rw [h4]; rfl)
    have hconf : s4.conf = s3.conf := congrArg View.conf hv
    have hg : s4.glog = s3.glog ++ [.exec tr] := congrArg View.glog hv
    -- ... then the state change
    have hstep := execStep_presG hcl scope x tr t.dest s4 s3.glog hw hg
    rw [hconf] at hstep
    refine PresV.bind hstep ?_
    intro _ s5 _ f5
    refine PresV.weakenG hcl f5 (PresV.bind (nfinalStage_presG hC hcl scope x _ _ s5) ?_)
    intro _ s5 _ f5
    refine PresV.weakenG hcl f5 (PresV.bind (ncallbacks_presG hC hcl _ x _ s5) ?_)
    intro _ s6 _ f6
    refine PresV.weakenG hcl f6 (PresV.bind (ncallbacks_presG hC hcl _ x _ s6) ?_)
    intro _ s7 _ f7
    exact PresV.ok f7

theorem ntry_presG (hC : NoCmds sc) (hcl : ClosedG cfg sub sc R Q) (scope : Scope) (x : Ctx)
    (hw : cfg.root.walkTo scope.pre = some scope) : ∀ (cands : List (TRef × NTrans)) (s : NSt),
    PresV R (ntry sub sc cfg scope x cands s) s.view
  | [], s => PresV.ok (hcl.refl _)
  | (tr, t) :: r, s => by
    unfold ntry
    refine PresV.bind (nexecute_presG hC hcl scope x tr t s hw) ?_
    intro b s1 _ f1
    cases b with
    | true => exact PresV.ok f1
    | false =>
      exact PresV.weakenG hcl (v := s.view) (w := ({ s1 with result := some false } : NSt).view) f1
        (ntry_presG hC hcl scope x hw r _)

theorem nprocess_presG (hC : NoCmds sc) (hcl : ClosedG cfg sub sc R Q) (scope : Scope) (x : Ctx)
    (hw : cfg.root.walkTo scope.pre = some scope) (cands : List (TRef × NTrans)) (s : NSt) :
    PresV R (nprocess sub sc cfg scope x cands s) s.view := by
  unfold nprocess
  refine PresV.bind (ncallbacks_presG hC hcl _ x _ s) ?_
  intro _ s1 _ f1
  exact PresV.weakenG hcl f1 (ntry_presG hC hcl scope x hw cands s1)

theorem tnLoop_presG (hC : NoCmds sc) (hcl : ClosedG cfg sub sc R Q) (scope : Scope) (x : Ctx) (ev : Nat)
    (ts : List NTrans) (hw : cfg.root.walkTo scope.pre = some scope) : ∀ (ps done : List SPath) (s : NSt),
    PresV R (tnLoop sub sc cfg scope x ev ts ps done s) s.view
  | [], _, s => PresV.ok (hcl.refl _)
  | p :: ps, done, s => by
    unfold tnLoop
    simp only []
    split
    · exact tnLoop_presG hC hcl scope x ev ts hw ps done s
    · split
      · exact PresV.err (hcl.refl _)
      · refine PresV.bind (nprocess_presG hC hcl scope x hw _ s) ?_
        intro _ s1 _ f1
        exact PresV.weakenG hcl f1 (tnLoop_presG hC hcl scope x ev ts hw ps _ s1)

theorem triggerNested_presG (hC : NoCmds sc) (hcl : ClosedG cfg sub sc R Q) (scope : Scope) (x : Ctx) (ev : Nat)
    (ts : List NTrans) (hw : cfg.root.walkTo scope.pre = some scope) (s : NSt) :
    PresV R (triggerNested sub sc cfg scope x ev ts s) s.view := by
  unfold triggerNested
  split
  · exact PresV.err (hcl.refl _)
  · exact PresV.err (hcl.refl _)
  · split
    · exact PresV.oof
    · refine PresV.bind (tnLoop_presG hC hcl scope x ev ts hw _ _ s) ?_
      intro _ s1 _ f1
      split
      · exact PresV.ok f1
      · exact PresV.ok (s := { s1 with result := some true }) f1

theorem ten_presG (hC : NoCmds sc) (hcl : ClosedG cfg sub sc R Q) (x : Ctx) (ev : Nat) :
    ∀ (tree : Forest) (scope : Scope) (res : List (Nat × Bool)) (offered : Bool) (s : NSt),
    cfg.root.walkTo scope.pre = some scope → PresV R (ten sub sc cfg x ev scope tree res offered s) s.view := by
  intro tree
  induction tree with
  | nil => intro scope res offered s _; unfold ten; exact PresV.ok (hcl.refl _)
  | cons key value rest ihv ihr =>
    intro scope res offered s hw
    unfold ten
    refine PresV.bind ?_ ?_
    · split
      · exact PresV.ok (hcl.refl _)
      · split
        · exact PresV.err (hcl.refl _)
        · rename_i inner he
          refine PresV.bind (ihv inner [] false s (Scope.walkTo_enter hw he)) ?_
          intro _ s1 _ f1
          exact PresV.ok f1
    · intro res1 s1 _ f1
      refine PresV.weakenG hcl f1 ?_
      split
      · split
        · refine PresV.bind (triggerNested_presG hC hcl scope x ev _ hw s1) ?_
          intro _ s2 _ f2
          exact PresV.weakenG hcl f2 (ihr scope _ true s2 hw)
        · exact ihr scope res1 offered s1 hw
      · exact ihr scope res1 offered s1 hw

theorem checkEventResult_presG (hcl : ClosedG cfg sub sc R Q) (res : Option Bool) (ev : Nat) (s : NSt) :
    PresV R (checkEventResult cfg res ev s) s.view := by
  unfold checkEventResult
  split
  · exact PresV.ok (hcl.refl _)
  · split
    · exact PresV.ok (hcl.refl _)
    · exact PresV.err (hcl.refl _)
    · exact PresV.oof

theorem triggerEventBody_presG (hC : NoCmds sc) (hcl : ClosedG cfg sub sc R Q) (x : Ctx) (ev : Nat) (s : NSt) :
    PresV R (triggerEventBody sub sc cfg x ev s) s.view := by
  unfold triggerEventBody
  refine PresV.bind (ten_presG hC hcl x ev s.conf cfg.root [] false s (NCfg.walkTo_root cfg)) ?_
  intro r s1 _ f1
  refine PresV.weakenG hcl f1 (PresV.bind (checkEventResult_presG hcl _ ev s1) ?_)
  intro b s2 _ f2
  exact PresV.ok (s := { s2 with result := some b }) f2

theorem nfinalize_presG (hC : NoCmds sc) (hcl : ClosedG cfg sub sc R Q) (x : Ctx) (s s' : NSt)
    (h : nfinalize sub sc cfg x s = some s') : R s.view s'.view := by
  unfold nfinalize at h
  have hfin : R s.view (s.emitG (.fin x.tag (confMask cfg s.conf))).view :=
    hcl.markG s _ rfl (by intro t m h; cases h; rfl) (by intro t x h; cases h)
  have hp := PresV.weakenG hcl hfin (ncallbacks_presG hC hcl .finalize x cfg.finalize _)
  split at h
  · rename_i u s1 hc; cases h; exact hp _ (by rw [hc]; rfl)
  · rename_i e s1 hc; cases h; exact hp _ (by rw [hc]; rfl)
  · cases h

/-- the `except BaseException` clause of `_trigger_event` -/
theorem exceptClause_presG (hC : NoCmds sc) (hcl : ClosedG cfg sub sc R Q) (x : Ctx) (body : NR Bool) (v : View)
    (hbody : PresV R body v) :
    PresV R (match body with
      | .ok b s' => (.ok b s' : NR Bool)
      | .err e s' =>
        match cfg.onException with
        | [] => .err e s'
        | hs => (ncallbacks sub sc cfg .onException x hs s').bind fun _ s'' => .ok (s''.result.getD false) s''
      | .oof => .oof) v := by
  cases body with
  | ok b s1 => exact hbody
  | oof => exact PresV.oof
  | err e s1 =>
    have f1 : R v s1.view := hbody s1 rfl
    simp only []
    split
    · exact PresV.err f1
    · refine PresV.weakenG hcl f1 (PresV.bind (ncallbacks_presG hC hcl _ x _ s1) ?_)
      intro _ s2 _ f2
      exact PresV.ok f2

/-- the `finally` clause of `_trigger_event` -/
theorem finallyClause_presG (hC : NoCmds sc) (hcl : ClosedG cfg sub sc R Q) (x : Ctx) (r1 : NR Bool) (v : View)
    (hr1 : PresV R r1 v) :
    PresV R (match r1 with
      | .ok b s' => match nfinalize sub sc cfg x s' with
        | some s'' => (.ok b s'' : NR Bool)
        | none => .oof
      | .err e s' => match nfinalize sub sc cfg x s' with
        | some s'' => .err e s''
        | none => .oof
      | .oof => .oof) v := by
  cases r1 with
  | oof => exact PresV.oof
  | ok b s1 =>
    simp only []
    cases hf : nfinalize sub sc cfg x s1 with
    | none => exact PresV.oof
    | some s2 => exact PresV.ok (hcl.trans (hr1 s1 rfl) (nfinalize_presG hC hcl x s1 s2 hf))
  | err e s1 =>
    simp only []
    cases hf : nfinalize sub sc cfg x s1 with
    | none => exact PresV.oof
    | some s2 => exact PresV.err (hcl.trans (hr1 s1 rfl) (nfinalize_presG hC hcl x s1 s2 hf))

theorem ntriggerEvent_presG (hC : NoCmds sc) (hcl : ClosedG cfg sub sc R Q) (x : Ctx) (ev : Nat) (s : NSt) :
    PresV R (ntriggerEvent sub sc cfg x ev s) s.view := by
  have hbody : PresV R (triggerEventBody sub sc cfg x ev { s with result := none, exited := [] }) s.view :=
    triggerEventBody_presG hC hcl x ev { s with result := none, exited := [] }
  unfold ntriggerEvent
  exact finallyClause_presG hC hcl x _ _ (exceptClause_presG hC hcl x _ _ hbody)

theorem ndrain_presG (hC : NoCmds sc) (hcl : ClosedG cfg sub sc R Q) : ∀ (n : Nat) (s : NSt),
    PresV R (ndrain sub sc cfg n s) s.view
  | 0, _ => PresV.oof
  | n + 1, s => by
    unfold ndrain
    split
    · exact PresV.ok (hcl.refl _)
    · rename_i ev tag _ _
      have ht := ntriggerEvent_presG hC hcl ⟨0, tag⟩ ev s
      split
      · rename_i b s1 hc
        have f1 : R s.view s1.view := ht s1 (by rw [hc]; rfl)
        exact PresV.weakenG hcl (w := ({ s1 with queue := s1.queue.drop 1 } : NSt).view) f1 (ndrain_presG hC hcl n _)
      · rename_i e s1 hc
        have f1 : R s.view s1.view := ht s1 (by rw [hc]; rfl)
        exact PresV.err (s := { s1 with queue := [] }) f1
      · exact PresV.oof

theorem nmachineProcess_presG (hC : NoCmds sc) (hcl : ClosedG cfg sub sc R Q) (qmax ev tag : Nat) (s : NSt) :
    PresV R (nmachineProcess sub sc cfg qmax ev tag s) s.view := by
  unfold nmachineProcess
  split
  · split
    · exact ntriggerEvent_presG hC hcl _ ev s
    · exact PresV.err (hcl.refl _)
  · simp only []
    split
    · exact PresV.ok (s := { s with queue := s.queue ++ [(ev, tag)] }) (hcl.refl _)
    · refine PresV.bind (v := s.view) (ndrain_presG hC hcl qmax { s with queue := s.queue ++ [(ev, tag)] }) ?_
      intro _ s1 _ f1
      exact PresV.ok f1

theorem napiTrigger_presG (hC : NoCmds sc) (hcl : ClosedG cfg sub sc R Q) (qmax ev : Nat)
    (hQ : ∀ tag s0 e s1, nmachineProcess sub sc cfg qmax ev tag s0 = .err e s1 → Q e) (s : NSt) :
    PresV R (napiTrigger sub sc cfg qmax ev s) s.view := by
  unfold napiTrigger
  simp only []
  have hapi : R s.view ((({ s with nextTag := s.nextTag + 1 } : NSt).emit (.api 0 s.nextTag 0 ev)).emitG
      (.api s.nextTag ev)).view :=
    hcl.mark s.view (.api s.nextTag ev) rfl (by intro t m h; cases h) (by intro t x h; cases h)
  have hp := PresV.weakenG hcl hapi (nmachineProcess_presG hC hcl qmax ev s.nextTag
    ((({ s with nextTag := s.nextTag + 1 } : NSt).emit (.api 0 s.nextTag 0 ev)).emitG (.api s.nextTag ev)))
  split
  · rename_i b s1 hc
    have f1 : R s.view s1.view := hp s1 (by rw [hc]; rfl)
    refine PresV.ok (hcl.trans f1 ?_)
    exact hcl.mark s1.view (.ret s.nextTag b) rfl (by intro t m h; cases h) (by intro t x h; cases h)
  · rename_i e s1 hc
    have f1 : R s.view s1.view := hp s1 (by rw [hc]; rfl)
    refine PresV.err (hcl.trans f1 ?_)
    exact hcl.mark s1.view (.raised s.nextTag e) rfl (by intro t m h; cases h)
      (by intro t x h; cases h; exact hQ _ _ _ _ hc)
  · exact PresV.oof

end G

/-! #### the instances for `Closed` -/

theorem ncallbacks_pres (hC : NoCmds sc) (hcl : Closed cfg sub sc R) (slot : Slot) (x : Ctx) (cbs : List Nat)
    (s : NSt) : PresV R (ncallbacks sub sc cfg slot x cbs s) s.view :=
  ncallbacks_presG hC hcl.toG slot x cbs s

theorem nevalConds_pres (hC : NoCmds sc) (hcl : Closed cfg sub sc R) (x : Ctx) (cs : List Cond)
    (s : NSt) : PresV R (nevalConds sub sc cfg x cs s) s.view :=
  nevalConds_presG hC hcl.toG x cs s

/-- a mark other than `fin` -/
theorem Closed.markG (hcl : Closed cfg sub sc R) (s : NSt) (e : GEv) (hm : e.isMark = true)
    (hf : ∀ t m, e = .fin t m → m = confMask cfg s.conf) : R s.view (s.emitG e).view :=
  hcl.mark s.view e hm hf

/-- the `exec` mark, the `before` callbacks and the state change (if any), from the state before the mark -/
theorem execStep_pres (hcl : Closed cfg sub sc R) (scope : Scope) (x : Ctx) (tr : TRef)
    (dest : Option SPath) (s4 : NSt) (l : List GEv) (hw : cfg.root.walkTo scope.pre = some scope) :
    s4.glog = l ++ [.exec tr] →
    PresV R (match dest with
      | some d => nchangeState sub sc cfg scope x d s4
      | none => (.ok () s4 : NR Unit)) ⟨s4.conf, l⟩ :=
  execStep_presG hcl.toG scope x tr dest s4 l hw

theorem nexecute_pres (hC : NoCmds sc) (hcl : Closed cfg sub sc R) (scope : Scope) (x : Ctx) (tr : TRef) (t : NTrans)
    (s : NSt) (hw : cfg.root.walkTo scope.pre = some scope) :
    PresV R (nexecute sub sc cfg scope x tr t s) s.view :=
  nexecute_presG hC hcl.toG scope x tr t s hw

theorem ntry_pres (hC : NoCmds sc) (hcl : Closed cfg sub sc R) (scope : Scope) (x : Ctx)
    (hw : cfg.root.walkTo scope.pre = some scope) : ∀ (cands : List (TRef × NTrans)) (s : NSt),
    PresV R (ntry sub sc cfg scope x cands s) s.view :=
  ntry_presG hC hcl.toG scope x hw

theorem nprocess_pres (hC : NoCmds sc) (hcl : Closed cfg sub sc R) (scope : Scope) (x : Ctx)
    (hw : cfg.root.walkTo scope.pre = some scope) (cands : List (TRef × NTrans)) (s : NSt) :
    PresV R (nprocess sub sc cfg scope x cands s) s.view :=
  nprocess_presG hC hcl.toG scope x hw cands s

theorem tnLoop_pres (hC : NoCmds sc) (hcl : Closed cfg sub sc R) (scope : Scope) (x : Ctx) (ev : Nat)
    (ts : List NTrans) (hw : cfg.root.walkTo scope.pre = some scope) : ∀ (ps done : List SPath) (s : NSt),
    PresV R (tnLoop sub sc cfg scope x ev ts ps done s) s.view :=
  tnLoop_presG hC hcl.toG scope x ev ts hw

theorem triggerNested_pres (hC : NoCmds sc) (hcl : Closed cfg sub sc R) (scope : Scope) (x : Ctx) (ev : Nat)
    (ts : List NTrans) (hw : cfg.root.walkTo scope.pre = some scope) (s : NSt) :
    PresV R (triggerNested sub sc cfg scope x ev ts s) s.view :=
  triggerNested_presG hC hcl.toG scope x ev ts hw s

theorem ten_pres (hC : NoCmds sc) (hcl : Closed cfg sub sc R) (x : Ctx) (ev : Nat) :
    ∀ (tree : Forest) (scope : Scope) (res : List (Nat × Bool)) (offered : Bool) (s : NSt),
    cfg.root.walkTo scope.pre = some scope → PresV R (ten sub sc cfg x ev scope tree res offered s) s.view :=
  ten_presG hC hcl.toG x ev

theorem checkEventResult_pres (hcl : Closed cfg sub sc R) (res : Option Bool) (ev : Nat) (s : NSt) :
    PresV R (checkEventResult cfg res ev s) s.view :=
  checkEventResult_presG hcl.toG res ev s

theorem triggerEventBody_pres (hC : NoCmds sc) (hcl : Closed cfg sub sc R) (x : Ctx) (ev : Nat) (s : NSt) :
    PresV R (triggerEventBody sub sc cfg x ev s) s.view :=
  triggerEventBody_presG hC hcl.toG x ev s

theorem nfinalize_pres (hC : NoCmds sc) (hcl : Closed cfg sub sc R) (x : Ctx) (s s' : NSt)
    (h : nfinalize sub sc cfg x s = some s') : R s.view s'.view :=
  nfinalize_presG hC hcl.toG x s s' h

/-- the `except BaseException` clause of `_trigger_event` -/
theorem exceptClause_pres (hC : NoCmds sc) (hcl : Closed cfg sub sc R) (x : Ctx) (body : NR Bool) (v : View)
    (hbody : PresV R body v) :
    PresV R (match body with
      | .ok b s' => (.ok b s' : NR Bool)
      | .err e s' =>
        match cfg.onException with
        | [] => .err e s'
        | hs => (ncallbacks sub sc cfg .onException x hs s').bind fun _ s'' => .ok (s''.result.getD false) s''
      | .oof => .oof) v :=
  exceptClause_presG hC hcl.toG x body v hbody

/-- the `finally` clause of `_trigger_event` -/
theorem finallyClause_pres (hC : NoCmds sc) (hcl : Closed cfg sub sc R) (x : Ctx) (r1 : NR Bool) (v : View)
    (hr1 : PresV R r1 v) :
    PresV R (match r1 with
      | .ok b s' => match nfinalize sub sc cfg x s' with
        | some s'' => (.ok b s'' : NR Bool)
        | none => .oof
      | .err e s' => match nfinalize sub sc cfg x s' with
        | some s'' => .err e s''
        | none => .oof
      | .oof => .oof) v :=
  finallyClause_presG hC hcl.toG x r1 v hr1

theorem ntriggerEvent_pres (hC : NoCmds sc) (hcl : Closed cfg sub sc R) (x : Ctx) (ev : Nat) (s : NSt) :
    PresV R (ntriggerEvent sub sc cfg x ev s) s.view :=
  ntriggerEvent_presG hC hcl.toG x ev s

theorem ndrain_pres (hC : NoCmds sc) (hcl : Closed cfg sub sc R) : ∀ (n : Nat) (s : NSt),
    PresV R (ndrain sub sc cfg n s) s.view :=
  ndrain_presG hC hcl.toG

theorem nmachineProcess_pres (hC : NoCmds sc) (hcl : Closed cfg sub sc R) (qmax ev tag : Nat) (s : NSt) :
    PresV R (nmachineProcess sub sc cfg qmax ev tag s) s.view :=
  nmachineProcess_presG hC hcl.toG qmax ev tag s

theorem napiTrigger_pres (hC : NoCmds sc) (hcl : Closed cfg sub sc R) (qmax ev : Nat) (s : NSt) :
    PresV R (napiTrigger sub sc cfg qmax ev s) s.view :=
  napiTrigger_presG hC hcl.toG qmax ev (fun _ _ _ _ _ => trivial) s

/-- the instance for `Closed'`: with a script that never raises, the `raised` marks carry engine kinds -/
theorem napiTrigger_pres' (hR : NoRaise sc) (hC : NoCmds sc) (hcl : Closed' cfg sub sc R) (qmax ev : Nat) (s : NSt) :
    PresV R (napiTrigger sub sc cfg qmax ev s) s.view :=
  napiTrigger_presG hC hcl.toG qmax ev (fun tag s0 e s1 h => nmachineProcess_errE hR hC qmax ev tag s0 e s1 h) s

end Frame

variable (cfg : NCfg) (sub : NSub) (sc : Script) (R : View → View → Prop)

/-- one trigger call (direct or through the queue) -/
theorem frame_apiTrigger (hC : NoCmds sc) (hcl : Closed cfg sub sc R) (qmax ev : Nat) (s s' : NSt)
    (h : (napiTrigger sub sc cfg qmax ev s).state? = some s') : R s.view s'.view :=
  napiTrigger_pres hC hcl qmax ev s s' h

/-- a whole history of trigger calls -/
theorem frame_history (hC : NoCmds sc) (hcl : ∀ sub, Closed cfg sub sc R) (qmax fuel : Nat) :
    ∀ (evs : List Nat) (s s' : NSt), nrunHistory sc cfg qmax fuel evs s = some s' → R s.view s'.view := by
  have hcmd : ∀ (ev : Nat) (s : NSt), PresV R (nrunCmd sc cfg qmax fuel (.trigger 0 ev) s) s.view := by
    intro ev s
    cases fuel with
    | zero => exact PresV.oof
    | succ f =>
      unfold nrunCmd
      exact PresV.map (napiTrigger_pres hC (hcl _) qmax ev s)
  intro evs
  induction evs with
  | nil => intro s s' h; simp only [nrunHistory, Option.some.injEq] at h; subst h; exact (hcl (fun _ s => .oof)).refl _
  | cons ev evs ih =>
    intro s s' h
    unfold nrunHistory at h
    have hc := hcmd ev s
    split at h
    · rename_i u s1 he
      exact (hcl (fun _ s => .oof)).trans (hc s1 (by rw [he]; rfl)) (ih s1 s' h)
    · rename_i e s1 he
      exact (hcl (fun _ s => .oof)).trans (hc s1 (by rw [he]; rfl)) (ih s1 s' h)
    · cases h

/-- with a script that neither raises nor issues commands, a trigger call only fails with engine kinds -/
theorem napiTrigger_err_engine (hR : NoRaise sc) (hC : NoCmds sc) (qmax ev : Nat) (s s' : NSt) (e : Exc)
    (h : napiTrigger sub sc cfg qmax ev s = .err e s') : e.isEngine = true :=
  napiTrigger_errE hR hC qmax ev s e s' h

/-- one trigger call (direct or through the queue), script that never raises -/
theorem frame_apiTrigger' (hR : NoRaise sc) (hC : NoCmds sc) (hcl : Closed' cfg sub sc R) (qmax ev : Nat) (s s' : NSt)
    (h : (napiTrigger sub sc cfg qmax ev s).state? = some s') : R s.view s'.view :=
  napiTrigger_pres' hR hC hcl qmax ev s s' h

/-- a whole history of trigger calls, script that never raises -/
theorem frame_history' (hR : NoRaise sc) (hC : NoCmds sc) (hcl : ∀ sub, Closed' cfg sub sc R) (qmax fuel : Nat) :
    ∀ (evs : List Nat) (s s' : NSt), nrunHistory sc cfg qmax fuel evs s = some s' → R s.view s'.view := by
  have hcmd : ∀ (ev : Nat) (s : NSt), PresV R (nrunCmd sc cfg qmax fuel (.trigger 0 ev) s) s.view := by
    intro ev s
    cases fuel with
    | zero => exact PresV.oof
    | succ f =>
      unfold nrunCmd
      exact PresV.map (napiTrigger_pres' hR hC (hcl _) qmax ev s)
  intro evs
  induction evs with
  | nil => intro s s' h; simp only [nrunHistory, Option.some.injEq] at h; subst h; exact (hcl (fun _ s => .oof)).refl _
  | cons ev evs ih =>
    intro s s' h
    unfold nrunHistory at h
    have hc := hcmd ev s
    split at h
    · rename_i u s1 he
      exact (hcl (fun _ s => .oof)).trans (hc s1 (by rw [he]; rfl)) (ih s1 s' h)
    · rename_i e s1 he
      exact (hcl (fun _ s => .oof)).trans (hc s1 (by rw [he]; rfl)) (ih s1 s' h)
    · cases h

end TM
