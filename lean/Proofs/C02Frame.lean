/-
  Proofs/C02Frame.lean — the frame of hierarchical dispatch: with a script that issues no re-entrant commands,
  everything `napiTrigger` does to the configuration and the ghost log is a composition of
    * marks (ghost events that are not entries / exits; a `fin` mark carries the mask of the configuration then),
    * state changes `[exec t] ++ (what nchangeState appends)` made from a scope that is reachable from the
      machine's scope along its own prefix,
  whatever the dispatch code does in between (per-key loops, scope recursion, `done` set, queue).  Hence every
  reflexive-transitive relation on views that is closed under marks and state changes relates the view before a
  trigger call to the view after it.
-/
import Proofs.C02Base

namespace TM
open C02

structure Closed (cfg : NCfg) (sub : NSub) (sc : Script) (R : View → View → Prop) : Prop where
  refl : ∀ v, R v v
  trans : ∀ {a b c}, R a b → R b c → R a c
  /-- a mark is appended (for `fin`: with the mask of the current configuration) -/
  mark : ∀ (v : View) (e : GEv), e.isMark = true → (∀ t m, e = .fin t m → m = confMask cfg v.conf) →
    R v ⟨v.conf, v.glog ++ [e]⟩
  /-- a transition with a destination executes: the `exec` mark followed by `nchangeState` -/
  execChange : ∀ (scope : Scope) (x : Ctx) (dest : SPath) (tr : TRef) (s s' : NSt),
    cfg.root.walkTo scope.pre = some scope →
    (nchangeState sub sc cfg scope x dest { s with glog := s.glog ++ [.exec tr] }).state? = some s' →
    R s.view s'.view

variable (cfg : NCfg) (sub : NSub) (sc : Script) (R : View → View → Prop)

/-- one trigger call (direct or through the queue) -/
theorem frame_apiTrigger (hC : NoCmds sc) (hcl : Closed cfg sub sc R) (qmax ev : Nat) (s s' : NSt)
    (h : (napiTrigger sub sc cfg qmax ev s).state? = some s') : R s.view s'.view := by
  sorry

/-- a whole history of trigger calls -/
theorem frame_history (hC : NoCmds sc) (hcl : ∀ sub, Closed cfg sub sc R) (qmax fuel : Nat) :
    ∀ (evs : List Nat) (s s' : NSt), nrunHistory sc cfg qmax fuel evs s = some s' → R s.view s'.view := by
  sorry

end TM
