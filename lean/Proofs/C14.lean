/-
  Proofs/C14.lean — definitions (decidable hypotheses, witnesses) and helper lemmas for Props/C14.lean.
-/
import Model.Markup

namespace TM
namespace Mk

/-! ### decidable hypotheses (Bool-valued, so the driver can evaluate them on the object state the
harness extracts from the real machine) -/

def nodupB {α} [DecidableEq α] : List α → Bool
  | [] => true
  | a :: r => !r.contains a && nodupB r

/-- the name has one of the two shapes `add_states` gives automatic triggers -/
def isTo : EvName → Bool
  | .to _ => true
  | .toAttr _ => true
  | .plain _ => false

/-- dict invariants of one scope's `events`: event names are keys of a dict, source keys are keys of a
dict, every transition is filed under its own source -/
def eventsWF (evs : List Event) : Bool :=
  nodupB (evs.map (·.name)) &&
  evs.all fun e => nodupB (e.trans.map (·.1)) && e.trans.all fun kv => kv.2.all fun t => t.source == kv.1

mutual
/-- well-formedness of one state (and, recursively, its substates) for the markup round trip:
dict invariants of its local events, no `to_…`-named local events, sibling names distinct -/
def stOK : St → Bool
  | .mk _ _ _ _ _ _ _ events children =>
    eventsWF events && events.all (fun e => !isTo e.name) && nodupB (names children) && stsOK children
def stsOK : List St → Bool
  | [] => true
  | s :: r => stOK s && stsOK r
end

/-- well-formedness hypotheses of the markup round trip on a whole configuration (no exclusions):
* the transition whitelist names `source`;
* per state: dict invariants of the local events, sibling names distinct, no `to_…`-named local
  events in nested scopes;
* top level: dict invariants, state names distinct; with `auto_transitions` on, `to_…` names are reserved
  for the automatic events (every `to_…`-named event is one `_is_auto_transition` recognises); with
  `auto_transitions` off a `to_…`-named event must not be recognised as automatic — it is then exported
  like any other — and must have no empty source entries (an emptied entry vanishes on re-import and
  could change the "one source key per state" count). -/
def rtOK (wl : WL) (c : Cfg) : Bool :=
  wl.tr.contains 0 &&
  stsOK c.states && nodupB (names c.states) && eventsWF c.events &&
  c.events.all (fun e => !isTo e.name ||
    (if c.opts.autoTransitions then isAuto c.states c.states e
     else (!isAuto c.states c.states e && e.trans.all (fun kv => !kv.2.isEmpty))))

/-! ### reading a markup back -/

/-- the flag a state effectively has (`Event.trigger`: the state's flag unless `None`, then the machine's) -/
def effIgnore (mi : Tri) (t : Tri) : Bool :=
  match t with
  | .none => mi.truthy
  | t => t.truthy

/-- the flag a state built from a markup entry effectively has (absent key: the machine's flag) -/
def MState.effIgnore (mi : Tri) (m : MState) : Bool :=
  match m.ignore with
  | none => mi.truthy
  | some t => Mk.effIgnore mi t

/-- address a state in a tree by child indices -/
def stAt : List St → List Nat → Option St
  | _, [] => none
  | l, [i] => l[i]?
  | l, i :: j :: r =>
    match l[i]? with
    | some s => stAt s.children (j :: r)
    | none => none

def mstAt : List MState → List Nat → Option MState
  | _, [] => none
  | l, [i] => l[i]?
  | l, i :: j :: r =>
    match l[i]? with
    | some s => mstAt s.children (j :: r)
    | none => none

/-- the transitions of a list of events, in dict iteration order -/
def pairs (evs : List Event) : List (EvName × Trans) :=
  evs.flatMap fun e => e.trans.flatMap fun kv => kv.2.map fun t => (e.name, t)

/-- what `Transition.__init__` makes of exported `conditions` + `unless` -/
def normT (t : Trans) : Trans :=
  { t with conds := (t.conds.filter (·.2)) ++ (t.conds.filter fun c => !c.2) }

/-! ### regression witnesses (the configurations behind the findings fixed in /repo) -/

def leaf (n : Name) : St := .mk n [] [] [] .none false none [] []

def optsDefault : Opts :=
  { sendEvent := false, autoTransitions := false, queued := false, modelOverride := false,
    ignore := .none, modelAttribute := none }

def cfgBase : Cfg :=
  { hier := false, name := none, initial := some 100
    prepareEvent := [], beforeSC := [], afterSC := [], finalize := [], onException := [], onFinal := []
    opts := optsDefault, states := [leaf 0, leaf 1], events := [], models := [⟨7, none, 100⟩] }

/-- `Machine(states=['s0','s1'], after_state_change='cb5', before_state_change='cb4')` -/
def witnessAfterSC : Cfg := { cfgBase with beforeSC := [4], afterSC := [5] }

/-- an internal transition `go: s0 → None` -/
def witnessInternal : Cfg :=
  { cfgBase with events := [⟨.plain 9, [([0], [{ source := [0], dest := none, prepare := [], conds := [],
                                                 before := [], after := [] }])]⟩] }

/-- a state with `ignore_invalid_triggers=False` on a machine with `ignore_invalid_triggers=True` -/
def witnessFlag : Cfg :=
  { cfgBase with opts := { optsDefault with ignore := .yes }
                 states := [.mk 0 [] [] [] .no false none [] [], .mk 1 [] [] [] .yes false none [] []] }

/-- a nested state with an `on_final` callback -/
def witnessOnFinal : St := .mk 1 [] [] [8] .none false (some 101) [] [leaf 2]

/-- flat machine, `model_attribute='mode'`, `auto_transitions=True`: the machine rebuilt from the markup
carries `to_mode_<state>` events, which `_is_auto_transition` does not recognise -/
def witnessAttr : Cfg :=
  { cfgBase with opts := { optsDefault with autoTransitions := true, modelAttribute := some 50 }
                 events := autoEvents false (some 50) [leaf 0, leaf 1] }

/-- `auto_transitions=False` and a user-defined trigger that is merely named `to_s1` -/
def witnessToNamed : Cfg :=
  { cfgBase with events := [⟨.to [1], [([0], [{ source := [0], dest := some [1], prepare := [], conds := [],
                                                before := [], after := [] }])]⟩] }

/-! ### helper lemmas: export -/

theorem exportSts_eq_map (wl : WL) (mi : Tri) (root : List St) (l : List St) :
    exportSts wl mi root l = l.map (exportSt wl mi root) := by
  induction l with
  | nil => simp [exportSts]
  | cons s r ih => simp [exportSts, ih]

theorem exportSts_length (wl : WL) (mi : Tri) (root l : List St) :
    (exportSts wl mi root l).length = l.length := by
  simp [exportSts_eq_map]

theorem exportSt_children (wl : WL) (mi : Tri) (root : List St) (s : St) :
    (exportSt wl mi root s).children = exportSts wl mi root s.children := by
  cases s; simp [exportSt, MState.children, St.children]

theorem mstAt_export (wl : WL) (mi : Tri) (root : List St) :
    ∀ (pos : List Nat) (sts : List St),
      mstAt (exportSts wl mi root sts) pos = (stAt sts pos).map (exportSt wl mi root)
  | [], _ => by simp [mstAt, stAt]
  | [i], sts => by simp [mstAt, stAt, exportSts_eq_map]
  | i :: j :: r, sts => by
    simp only [mstAt, stAt]
    rw [exportSts_eq_map, List.getElem?_map]
    cases h : sts[i]? with
    | none => simp
    | some s =>
      simp only [Option.map_some]
      rw [exportSt_children]
      exact mstAt_export wl mi root (j :: r) s.children

theorem exportEvents_eq_pairs (wl : WL) (scope root : List St) (evs : List Event) :
    exportEvents wl scope root evs
      = (pairs (evs.filter fun e => !isAuto scope root e)).map fun p => exportTrans wl p.1 p.2 := by
  simp only [exportEvents, pairs, List.map_flatMap, List.map_map]
  rfl

theorem exportSt_fields (wl : WL) (mi : Tri) (root : List St) (s : St)
    (h0 : wl.st.contains 0 = true) (h1 : wl.st.contains 1 = true) (h2 : wl.st.contains 2 = true)
    (h3 : wl.st.contains 3 = true) (h4 : wl.st.contains 4 = true) :
    (exportSt wl mi root s).name = s.name ∧ (exportSt wl mi root s).onEnter = s.onEnter ∧
    (exportSt wl mi root s).onExit = s.onExit ∧ (exportSt wl mi root s).onFinal = s.onFinal ∧
    (exportSt wl mi root s).final = s.final ∧
    (exportSt wl mi root s).ignore
      = (if s.ignore = .yes then some .yes else if mi = .yes then some s.ignore else none) ∧
    (exportSt wl mi root s).children = exportSts wl mi root s.children ∧
    (s.children ≠ [] → (exportSt wl mi root s).initial = s.initial ∧
      (exportSt wl mi root s).transitions = exportEvents wl s.children root s.events) := by
  cases s with
  | mk name onEnter onExit onFinal ignore final initial events children =>
    simp only [exportSt, MState.name, St.name, MState.onEnter, St.onEnter, MState.onExit, St.onExit,
      MState.onFinal, St.onFinal, MState.final, St.final, MState.ignore, St.ignore, MState.children,
      St.children, MState.initial, St.initial, MState.transitions, St.events, keep, h0, h1, h2, h3, h4,
      if_true, Bool.true_and]
    refine ⟨trivial, trivial, trivial, trivial, trivial, ?_, trivial, ?_⟩
    · cases ignore <;> cases mi <;> simp [Tri.truthy]
    · intro hne
      cases children with
      | nil => exact absurd rfl hne
      | cons a r => simp

theorem exportSt_effIgnore (wl : WL) (root : List St) (mi : Tri) (s : St)
    (h2 : wl.st.contains 2 = true) :
    (exportSt wl mi root s).effIgnore mi = effIgnore mi s.ignore := by
  cases s with
  | mk name onEnter onExit onFinal ignore final initial events children =>
    simp only [exportSt, MState.effIgnore, MState.ignore, St.ignore, h2, Bool.true_and]
    cases ignore <;> cases mi <;> simp [Tri.truthy, effIgnore]

theorem conds_true (l : List (Name × Bool)) :
    ((l.filter (·.2)).map (·.1)).map (fun c => (c, true)) = l.filter (·.2) := by
  induction l with
  | nil => rfl
  | cons a r ih =>
    obtain ⟨c, b⟩ := a
    cases b <;> simp_all

theorem conds_false (l : List (Name × Bool)) :
    ((l.filter (fun c => !c.2)).map (·.1)).map (fun c => (c, false)) = l.filter (fun c => !c.2) := by
  induction l with
  | nil => rfl
  | cons a r ih =>
    obtain ⟨c, b⟩ := a
    cases b <;> simp_all

/-- what `add_transition(**entry)` makes of an exported transition: destination and callbacks outside the
whitelist are gone, conditions come before unless-conditions -/
def normW (wl : WL) (t : Trans) : Trans :=
  normT { t with dest := if wl.tr.contains 1 then t.dest else none, prepare := keep wl.tr 2 t.prepare,
                 before := keep wl.tr 3 t.before, after := keep wl.tr 4 t.after }

theorem importTrans_export' (wl : WL) (n : EvName) (t : Trans) (h0 : wl.tr.contains 0 = true) :
    importTrans (exportTrans wl n t) = some (n, normW wl t) := by
  simp only [importTrans, exportTrans, h0, if_true, conds_true, conds_false, normT, normW]

theorem importTrans_export (wl : WL) (n : EvName) (t : Trans)
    (h0 : wl.tr.contains 0 = true) (h1 : wl.tr.contains 1 = true) (h2 : wl.tr.contains 2 = true)
    (h3 : wl.tr.contains 3 = true) (h4 : wl.tr.contains 4 = true) :
    importTrans (exportTrans wl n t) = some (n, normT t) := by
  rw [importTrans_export' wl n t h0]
  simp only [normW, keep, h1, h2, h3, h4, if_true]

/-! ### helper lemmas: the dirty flag -/

/-- invariant of a `MarkupMachine` instance built by `MM.new c0` -/
def MM.Inv (wl : WL) (c0 : Cfg) (m : MM) : Prop :=
  (m.dirty = false →
    m.cache.states = exportSts wl m.cfg.opts.ignore m.cfg.states m.cfg.states ∧
    m.cache.transitions = exportEvents wl m.cfg.states m.cfg.states m.cfg.events ∧
    (∀ i, m.cfg.initial = some i → m.cache.initial = some i) ∧
    (∀ n, m.cfg.name = some n → m.cache.name = some n)) ∧
  m.cache.prepareEvent = (initMarkup c0).prepareEvent ∧ m.cache.beforeSC = (initMarkup c0).beforeSC ∧
  m.cache.afterSC = (initMarkup c0).afterSC ∧ m.cache.finalize = (initMarkup c0).finalize ∧
  m.cache.onException = (initMarkup c0).onException ∧ m.cache.onFinal = (initMarkup c0).onFinal ∧
  m.cache.opts = (initMarkup c0).opts

theorem MM.inv_new (wl : WL) (c0 : Cfg) : MM.Inv wl c0 (MM.new c0) := by
  simp [MM.Inv, MM.new]

theorem MM.inv_read (wl : WL) (c0 : Cfg) (m : MM) (h : MM.Inv wl c0 m) : MM.Inv wl c0 (m.read wl) := by
  obtain ⟨hd, hm⟩ := h
  refine ⟨fun _ => ?_, ?_⟩
  · cases hdirty : m.dirty with
    | true =>
      simp only [MM.read, hdirty, if_true, convert]
      refine ⟨trivial, trivial, ?_, ?_⟩
      · intro i hi; simp [hi]
      · intro n hn; simp [hn]
    | false =>
      simp only [MM.read, hdirty]
      exact hd hdirty
  · cases hdirty : m.dirty with
    | true => simpa [MM.read, hdirty, convert] using hm
    | false => simpa [MM.read, hdirty] using hm

theorem MM.inv_step (wl : WL) (c0 : Cfg) (m : MM) (o : Op) (h : MM.Inv wl c0 m) :
    MM.Inv wl c0 (m.step wl o) := by
  cases o with
  | setter f => exact ⟨fun hd => by simp [MM.step] at hd, h.2⟩
  | register f => exact ⟨fun hd => by simp [MM.step] at hd, h.2⟩
  | modelsChanged f => exact ⟨fun hd => h.1 hd, h.2⟩
  | read => exact MM.inv_read wl c0 m h
  | observe => exact h
  | restore => exact h

theorem MM.inv_run (wl : WL) (c0 : Cfg) (ops : List Op) :
    ∀ m, MM.Inv wl c0 m → MM.Inv wl c0 (m.run wl ops) := by
  induction ops with
  | nil => intro m h; exact h
  | cons o r ih => intro m h; exact ih _ (MM.inv_step wl c0 m o h)

theorem MM.read_models (wl : WL) (m : MM) : (m.read wl).cache.models = m.cfg.models := rfl
theorem MM.read_cfg (wl : WL) (m : MM) : (m.read wl).cfg = m.cfg := rfl
theorem MM.read_dirty (wl : WL) (m : MM) : (m.read wl).dirty = false := rfl

theorem MM.current (wl : WL) (c0 : Cfg) (ops : List Op) :
    let m := (MM.new c0).run wl ops
    let r := (m.read wl).cache
    r.states = exportSts wl m.cfg.opts.ignore m.cfg.states m.cfg.states ∧
    r.transitions = exportEvents wl m.cfg.states m.cfg.states m.cfg.events ∧
    r.models = m.cfg.models ∧
    (∀ i, m.cfg.initial = some i → r.initial = some i) ∧
    (∀ n, m.cfg.name = some n → r.name = some n) ∧
    r.prepareEvent = (initMarkup c0).prepareEvent ∧ r.beforeSC = (initMarkup c0).beforeSC ∧
    r.afterSC = (initMarkup c0).afterSC ∧ r.finalize = (initMarkup c0).finalize ∧
    r.onException = (initMarkup c0).onException ∧ r.onFinal = (initMarkup c0).onFinal ∧
    r.opts = (initMarkup c0).opts := by
  intro m r
  have hinv := MM.inv_read wl c0 m (MM.inv_run wl c0 ops _ (MM.inv_new wl c0))
  obtain ⟨hd, h1, h2, h3, h4, h5, h6, h7⟩ := hinv
  obtain ⟨a1, a2, a3, a4⟩ := hd (MM.read_dirty wl m)
  exact ⟨a1, a2, rfl, a3, a4, h1, h2, h3, h4, h5, h6, h7⟩

/-- the cached `initial` / `name` are absent or those of the constructor-time object state -/
def MM.Inv2 (c0 : Cfg) (m : MM) : Prop :=
  (m.cache.initial = none ∨ m.cache.initial = c0.initial) ∧ (m.cache.name = none ∨ m.cache.name = c0.name)

theorem MM.inv2_step (wl : WL) (c0 : Cfg) (m : MM) (o : Op) (h : MM.Inv2 c0 m)
    (hc : (m.step wl o).cfg.initial = c0.initial ∧ (m.step wl o).cfg.name = c0.name) :
    MM.Inv2 c0 (m.step wl o) := by
  cases o with
  | setter f => exact h
  | register f => exact h
  | modelsChanged f => exact h
  | observe => exact h
  | restore => exact h
  | read =>
    obtain ⟨hi, hn⟩ := hc
    simp only [MM.step, MM.read_cfg] at hi hn
    cases hdirty : m.dirty with
    | false => simpa [MM.Inv2, MM.step, MM.read, hdirty] using h
    | true =>
      simp only [MM.Inv2, MM.step, MM.read, hdirty, if_true, convert, hi, hn]
      obtain ⟨h1, h2⟩ := h
      refine ⟨?_, ?_⟩
      · revert h1
        cases c0.initial with
        | none => exact id
        | some i => exact fun _ => Or.inr rfl
      · revert h2
        cases c0.name with
        | none => exact id
        | some i => exact fun _ => Or.inr rfl

theorem MM.inv2_run (wl : WL) (c0 : Cfg) (ops : List Op) :
    ∀ m, MM.Inv2 c0 m →
      (∀ k, (m.run wl (ops.take k)).cfg.initial = c0.initial ∧ (m.run wl (ops.take k)).cfg.name = c0.name) →
      MM.Inv2 c0 (m.run wl ops) := by
  induction ops with
  | nil => intro m h _; exact h
  | cons o r ih =>
    intro m h hk
    refine ih _ (MM.inv2_step wl c0 m o h (hk 1)) ?_
    intro k
    exact hk (k + 1)

theorem MM.current_export (wl : WL) (c0 : Cfg) (ops : List Op)
    (hfix : ∀ c, ((MM.new c0).run wl ops).cfg = c →
      c.initial = c0.initial ∧ c.name = c0.name ∧ c.prepareEvent = c0.prepareEvent ∧
      c.beforeSC = c0.beforeSC ∧ c.afterSC = c0.afterSC ∧ c.finalize = c0.finalize ∧
      c.onException = c0.onException ∧ c.onFinal = c0.onFinal ∧ c.opts = c0.opts)
    (hpre : ∀ k c, ((MM.new c0).run wl (ops.take k)).cfg = c → c.initial = c0.initial ∧ c.name = c0.name) :
    (((MM.new c0).run wl ops).read wl).cache = exportMk wl ((MM.new c0).run wl ops).cfg := by
  obtain ⟨f1, f2, f3, f4, f4', f5, f6, f7, f8⟩ := hfix _ rfl
  obtain ⟨a1, a2, a3, a4, a5, a6, a7, a8, a9, a10, a11, a12⟩ := MM.current wl c0 ops
  have hinv2 : MM.Inv2 c0 (((MM.new c0).run wl ops).read wl) := by
    have h0 : MM.Inv2 c0 ((MM.new c0).run wl ops) :=
      MM.inv2_run wl c0 ops _ ⟨Or.inl rfl, Or.inl rfl⟩ (fun k => hpre k _ rfl)
    exact MM.inv2_step wl c0 _ .read h0 ⟨f1, f2⟩
  unfold MM.Inv2 at hinv2
  generalize (MM.new c0).run wl ops = m at *
  generalize hr : (m.read wl).cache = r at *
  have hi : r.initial = (exportMk wl m.cfg).initial := by
    show r.initial = match m.cfg.initial with | some i => some i | none => none
    cases hci : m.cfg.initial with
    | some i => exact a4 i hci
    | none =>
      rcases hinv2.1 with h | h
      · exact h
      · rw [h, ← f1]; exact hci
  have hn : r.name = (exportMk wl m.cfg).name := by
    show r.name = match m.cfg.name with | some i => some i | none => none
    cases hci : m.cfg.name with
    | some i => exact a5 i hci
    | none =>
      rcases hinv2.2 with h | h
      · exact h
      · rw [h, ← f2]; exact hci
  cases r
  simp only [exportMk, refresh, convert, initMarkup, Markup.mk.injEq] at *
  simp only [a1, a2, a3, a6, a7, a8, a9, a10, a11, a12, f3, f4, f4', f5, f6, f7, f8, hi, hn, and_self]

/-! ### helper lemmas: regrouping (`addAll` after `pairs`) -/

theorem nodupB_iff {α} [DecidableEq α] (l : List α) : nodupB l = true ↔ l.Nodup := by
  induction l with
  | nil => simp [nodupB]
  | cons a r ih => simp [nodupB, List.nodup_cons, ih]

/-- dict invariants of one event -/
def EvWF (e : Event) : Prop :=
  (e.trans.map (·.1)).Nodup ∧ ∀ kv ∈ e.trans, ∀ t ∈ kv.2, t.source = kv.1

theorem eventsWF_iff (evs : List Event) :
    eventsWF evs = true ↔ (evs.map (·.name)).Nodup ∧ ∀ e ∈ evs, EvWF e := by
  simp [eventsWF, EvWF, nodupB_iff]

/-- a dict entry, absent when its list is empty -/
def mkKey (k : Path) (l : List Trans) : List (Path × List Trans) := if l.isEmpty then [] else [(k, l)]

/-- an event, absent when it has no source key -/
def mkEv (n : EvName) (ks : List (Path × List Trans)) : List Event := if ks.isEmpty then [] else [⟨n, ks⟩]

def pairsK (n : EvName) (kvs : List (Path × List Trans)) : List (EvName × Trans) :=
  kvs.flatMap fun kv => kv.2.map fun t => (n, t)

/-- the events with empty source lists and empty events dropped -/
def compactK (kvs : List (Path × List Trans)) : List (Path × List Trans) :=
  kvs.flatMap fun kv => mkKey kv.1 kv.2

def compact (evs : List Event) : List Event :=
  evs.flatMap fun e => mkEv e.name (compactK e.trans)

theorem pairs_eq (evs : List Event) : pairs evs = evs.flatMap fun e => pairsK e.name e.trans := rfl

theorem pairs_cons (e : Event) (r : List Event) : pairs (e :: r) = pairsK e.name e.trans ++ pairs r := by
  simp [pairs_eq]

theorem pairs_append (a b : List Event) : pairs (a ++ b) = pairs a ++ pairs b := by
  simp [pairs_eq]

theorem addAll_append (A : List Event) (l l' : List (EvName × Trans)) :
    addAll A (l ++ l') = addAll (addAll A l) l' := by
  simp [addAll, List.foldl_append]

theorem addAll_cons (A : List Event) (p : EvName × Trans) (l : List (EvName × Trans)) :
    addAll A (p :: l) = addAll (addEv p.1 p.2 A) l := rfl

theorem addAll_nil (A : List Event) : addAll A [] = A := rfl

theorem addKey_ne_nil (k : Path) (t : Trans) (ks : List (Path × List Trans)) : (addKey k t ks).isEmpty = false := by
  cases ks with
  | nil => rfl
  | cons kv r => simp only [addKey]; split <;> rfl

theorem addKey_append (k : Path) (t : Trans) (ks ks' : List (Path × List Trans)) (h : k ∉ ks.map (·.1)) :
    addKey k t (ks ++ ks') = ks ++ addKey k t ks' := by
  induction ks with
  | nil => rfl
  | cons kv r ih =>
    simp only [List.map_cons, List.mem_cons, not_or] at h
    have hne : ¬ kv.1 = k := fun e => h.1 e.symm
    simp only [List.cons_append, addKey, hne, if_false, ih h.2]

theorem addKey_mkKey (k : Path) (t : Trans) (l : List Trans) : addKey k t (mkKey k l) = mkKey k (l ++ [t]) := by
  cases l with
  | nil => rfl
  | cons a r => simp [mkKey, addKey]

theorem addEv_append (n : EvName) (t : Trans) (A B : List Event) (h : n ∉ A.map (·.name)) :
    addEv n t (A ++ B) = A ++ addEv n t B := by
  induction A with
  | nil => rfl
  | cons e r ih =>
    simp only [List.map_cons, List.mem_cons, not_or] at h
    have hne : ¬ e.name = n := fun e => h.1 e.symm
    simp only [List.cons_append, addEv, hne, if_false, ih h.2]

theorem addEv_mkEv (n : EvName) (t : Trans) (ks : List (Path × List Trans)) :
    addEv n t (mkEv n ks) = mkEv n (addKey t.source t ks) := by
  cases ks with
  | nil => rfl
  | cons a r =>
    simp only [mkEv, addKey_ne_nil, List.isEmpty_cons, Bool.false_eq_true, if_false, addEv, if_true]

theorem addAll_key (n : EvName) (k : Path) (A : List Event) (ks : List (Path × List Trans))
    (hA : n ∉ A.map (·.name)) (hk : k ∉ ks.map (·.1)) :
    ∀ (ts l : List Trans), (∀ t ∈ ts, t.source = k) →
      addAll (A ++ mkEv n (ks ++ mkKey k l)) (ts.map fun t => (n, t)) = A ++ mkEv n (ks ++ mkKey k (l ++ ts)) := by
  intro ts
  induction ts with
  | nil => intro l _; simp [addAll_nil]
  | cons t r ih =>
    intro l hs
    have ht : t.source = k := hs t (List.mem_cons_self ..)
    rw [List.map_cons, addAll_cons]
    simp only
    rw [addEv_append n t _ _ hA, addEv_mkEv, ht, addKey_append k t _ _ hk, addKey_mkKey,
      ih (l ++ [t]) (fun t' h' => hs t' (List.mem_cons_of_mem _ h'))]
    simp

theorem mkKey_keys (k : Path) (l : List Trans) (k' : Path) (h : k' ∈ (mkKey k l).map (·.1)) : k' = k := by
  unfold mkKey at h
  split at h <;> simp_all

theorem mkEv_names (n : EvName) (ks : List (Path × List Trans)) (n' : EvName)
    (h : n' ∈ (mkEv n ks).map (·.name)) : n' = n := by
  unfold mkEv at h
  split at h <;> simp_all

theorem addAll_keys (n : EvName) (A : List Event) (hA : n ∉ A.map (·.name)) :
    ∀ (kvs ks : List (Path × List Trans)), (kvs.map (·.1)).Nodup → (∀ kv ∈ kvs, kv.1 ∉ ks.map (·.1)) →
      (∀ kv ∈ kvs, ∀ t ∈ kv.2, t.source = kv.1) →
      addAll (A ++ mkEv n ks) (pairsK n kvs) = A ++ mkEv n (ks ++ compactK kvs) := by
  intro kvs
  induction kvs with
  | nil => intro ks _ _ _; simp [pairsK, compactK, addAll_nil]
  | cons kv r ih =>
    intro ks hnd hks hsrc
    rw [List.map_cons, List.nodup_cons] at hnd
    have h1 := addAll_key n kv.1 A ks hA (hks kv (List.mem_cons_self ..)) kv.2 []
      (hsrc kv (List.mem_cons_self ..))
    simp only [mkKey, List.isEmpty_nil, if_true, List.append_nil, List.nil_append] at h1
    have h2 := ih (ks ++ mkKey kv.1 kv.2) hnd.2 (by
      intro kv' hkv' hmem
      rw [List.map_append, List.mem_append] at hmem
      rcases hmem with hmem | hmem
      · exact hks kv' (List.mem_cons_of_mem _ hkv') hmem
      · have := mkKey_keys _ _ _ hmem
        exact hnd.1 (this ▸ List.mem_map_of_mem hkv'))
      (fun kv' hkv' => hsrc kv' (List.mem_cons_of_mem _ hkv'))
    simp only [pairsK, compactK, List.flatMap_cons] at h2 ⊢
    rw [addAll_append, h1]
    simp only [mkKey] at h2 ⊢
    rw [h2, List.append_assoc]

theorem addAll_events :
    ∀ (evs A : List Event), (evs.map (·.name)).Nodup → (∀ e ∈ evs, e.name ∉ A.map (·.name)) →
      (∀ e ∈ evs, EvWF e) → addAll A (pairs evs) = A ++ compact evs := by
  intro evs
  induction evs with
  | nil => intro A _ _ _; simp [pairs, compact, addAll_nil]
  | cons e r ih =>
    intro A hnd hA hwf
    rw [List.map_cons, List.nodup_cons] at hnd
    have hwfe := hwf e (List.mem_cons_self ..)
    have h1 := addAll_keys e.name A (hA e (List.mem_cons_self ..)) e.trans [] hwfe.1 (by simp) hwfe.2
    simp only [mkEv, List.isEmpty_nil, if_true, List.append_nil, List.nil_append] at h1
    have h2 := ih (A ++ mkEv e.name (compactK e.trans)) hnd.2 (by
      intro e' he' hmem
      rw [List.map_append, List.mem_append] at hmem
      rcases hmem with hmem | hmem
      · exact hA e' (List.mem_cons_of_mem _ he') hmem
      · have := mkEv_names _ _ _ hmem
        exact hnd.1 (this ▸ List.mem_map_of_mem he'))
      (fun e' he' => hwf e' (List.mem_cons_of_mem _ he'))
    rw [pairs_cons, addAll_append, h1]
    simp only [compact, List.flatMap_cons, mkEv] at h2 ⊢
    rw [h2, List.append_assoc]

theorem pairsK_mkKey (n : EvName) (k : Path) (l : List Trans) : pairsK n (mkKey k l) = l.map fun t => (n, t) := by
  cases l with
  | nil => rfl
  | cons a r => simp [mkKey, pairsK]

theorem pairsK_compactK (n : EvName) (kvs : List (Path × List Trans)) : pairsK n (compactK kvs) = pairsK n kvs := by
  induction kvs with
  | nil => rfl
  | cons kv r ih =>
    simp only [pairsK, compactK, List.flatMap_cons, List.flatMap_append] at ih ⊢
    rw [ih]
    congr 1
    exact pairsK_mkKey n kv.1 kv.2

theorem pairs_mkEv (n : EvName) (ks : List (Path × List Trans)) : pairs (mkEv n ks) = pairsK n ks := by
  cases ks with
  | nil => rfl
  | cons a r => simp [mkEv, pairs_eq]

theorem pairs_compact (evs : List Event) : pairs (compact evs) = pairs evs := by
  induction evs with
  | nil => rfl
  | cons e r ih =>
    simp only [compact, List.flatMap_cons] at ih ⊢
    rw [pairs_append, ih, pairs_mkEv, pairsK_compactK, pairs_cons]

theorem compact_names (evs : List Event) (e : Event) (h : e ∈ compact evs) : e.name ∈ evs.map (·.name) := by
  simp only [compact, List.mem_flatMap] at h
  obtain ⟨e0, he0, hm⟩ := h
  have := mkEv_names e0.name _ e.name (List.mem_map_of_mem hm)
  rw [this]
  exact List.mem_map_of_mem he0

/-- **regrouping**: feeding the transitions of well-formed events, in dict order, to `add_transition`
rebuilds dicts with the same iteration order -/
theorem pairs_addAll (evs : List Event) (h : eventsWF evs = true) :
    addAll [] (pairs evs) = compact evs ∧ pairs (addAll [] (pairs evs)) = pairs evs := by
  rw [eventsWF_iff] at h
  have := addAll_events evs [] h.1 (by simp) h.2
  rw [List.nil_append] at this
  rw [this]
  exact ⟨rfl, pairs_compact evs⟩

/-! ### helper lemmas: one scope's transitions through export + import -/

def normE (wl : WL) (e : Event) : Event :=
  ⟨e.name, e.trans.map fun kv => (kv.1, kv.2.map (normW wl))⟩

theorem keep_keep (wl : List Nat) (c : Nat) (l : List Name) : keep wl c (keep wl c l) = keep wl c l := by
  unfold keep; split <;> rfl

theorem filter_true_norm (l : List (Name × Bool)) :
    (l.filter (·.2) ++ l.filter fun c => !c.2).filter (·.2) = l.filter (·.2) := by
  simp [List.filter_append, List.filter_filter]

theorem filter_false_norm (l : List (Name × Bool)) :
    (l.filter (·.2) ++ l.filter fun c => !c.2).filter (fun c => !c.2) = l.filter (fun c => !c.2) := by
  simp [List.filter_append, List.filter_filter]

theorem exportTrans_normW (wl : WL) (n : EvName) (t : Trans) :
    exportTrans wl n (normW wl t) = exportTrans wl n t := by
  simp only [exportTrans, normW, normT, keep_keep, filter_true_norm, filter_false_norm, MTrans.mk.injEq,
    true_and, and_true]
  cases wl.tr.contains 1 <;> rfl

theorem importTransL_map (wl : WL) (h0 : wl.tr.contains 0 = true) :
    ∀ (L : List (EvName × Trans)),
      importTransL (L.map fun p => exportTrans wl p.1 p.2) = some (L.map fun p => (p.1, normW wl p.2)) := by
  intro L
  induction L with
  | nil => rfl
  | cons p r ih =>
    have hp := importTrans_export' wl p.1 p.2 h0
    simp only [List.map_cons, importTransL, hp, ih]

theorem pairsK_normE (wl : WL) (n : EvName) (kvs : List (Path × List Trans)) :
    pairsK n (kvs.map fun kv => (kv.1, kv.2.map (normW wl))) = (pairsK n kvs).map fun p => (p.1, normW wl p.2) := by
  simp [pairsK, List.flatMap_map, List.map_flatMap, Function.comp_def]

theorem pairs_normE (wl : WL) (evs : List Event) :
    pairs (evs.map (normE wl)) = (pairs evs).map fun p => (p.1, normW wl p.2) := by
  induction evs with
  | nil => rfl
  | cons e r ih =>
    rw [List.map_cons, pairs_cons, pairs_cons, List.map_append, ih]
    congr 1
    exact pairsK_normE wl e.name e.trans

theorem names_normE (wl : WL) (evs : List Event) : (evs.map (normE wl)).map (·.name) = evs.map (·.name) := by
  simp [normE, Function.comp_def]

theorem EvWF_normE (wl : WL) (e : Event) (h : EvWF e) : EvWF (normE wl e) := by
  obtain ⟨h1, h2⟩ := h
  refine ⟨?_, ?_⟩
  · simpa [normE, Function.comp_def] using h1
  · intro kv hkv t ht
    simp only [normE, List.mem_map] at hkv
    obtain ⟨kv0, hkv0, rfl⟩ := hkv
    simp only [List.mem_map] at ht
    obtain ⟨t0, ht0, rfl⟩ := ht
    exact h2 kv0 hkv0 t0 ht0

theorem isAuto_of_not_isTo (scope root : List St) (e : Event) (h : isTo e.name = false) :
    isAuto scope root e = false := by
  unfold isAuto
  cases hn : e.name <;> simp_all [isTo]

theorem isTo_of_isAuto (scope root : List St) (e : Event) (h : isAuto scope root e = true) :
    isTo e.name = true := by
  cases hn : isTo e.name with
  | true => rfl
  | false => rw [isAuto_of_not_isTo scope root e hn] at h; exact Bool.noConfusion h

/-- import of the exported transitions of well-formed events `evs` on top of events `A` with other names -/
theorem importEvents_pairs (wl : WL) (h0 : wl.tr.contains 0 = true)
    (A evs : List Event) (hwf : eventsWF evs = true) (hA : ∀ e ∈ evs, e.name ∉ A.map (·.name)) :
    importEvents A ((pairs evs).map fun p => exportTrans wl p.1 p.2) = some (A ++ compact (evs.map (normE wl))) := by
  rw [eventsWF_iff] at hwf
  unfold importEvents
  rw [importTransL_map wl h0 _, Option.map_some, ← pairs_normE]
  rw [addAll_events (evs.map (normE wl)) A (by rw [names_normE]; exact hwf.1)]
  · intro e he
    simp only [List.mem_map] at he
    obtain ⟨e0, he0, rfl⟩ := he
    exact hA e0 he0
  · intro e he
    simp only [List.mem_map] at he
    obtain ⟨e0, he0, rfl⟩ := he
    exact EvWF_normE wl e0 (hwf.2 e0 he0)

/-- re-export of the rebuilt events: none of them is automatic, the entries are the original ones -/
theorem exportEvents_compact' (wl : WL) (scope root : List St) (evs : List Event)
    (hna : ∀ e' ∈ compact (evs.map (normE wl)), isAuto scope root e' = false) :
    exportEvents wl scope root (compact (evs.map (normE wl))) = (pairs evs).map fun p => exportTrans wl p.1 p.2 := by
  rw [exportEvents_eq_pairs, List.filter_eq_self.mpr, pairs_compact, pairs_normE, List.map_map]
  · apply List.map_congr_left
    intro p _
    exact exportTrans_normW wl p.1 p.2
  · intro e he
    simp [hna e he]

theorem exportEvents_compact (wl : WL) (scope root : List St) (evs : List Event)
    (hto : ∀ e ∈ evs, isTo e.name = false) :
    exportEvents wl scope root (compact (evs.map (normE wl))) = (pairs evs).map fun p => exportTrans wl p.1 p.2 := by
  apply exportEvents_compact'
  intro e he
  have := compact_names _ e he
  rw [names_normE, List.mem_map] at this
  obtain ⟨e0, he0, hn⟩ := this
  have h := hto e0 he0
  rw [hn] at h
  exact isAuto_of_not_isTo scope root e h

theorem exportEvents_of_not_isTo (wl : WL) (scope root : List St) (evs : List Event)
    (hto : ∀ e ∈ evs, isTo e.name = false) :
    exportEvents wl scope root evs = (pairs evs).map fun p => exportTrans wl p.1 p.2 := by
  rw [exportEvents_eq_pairs, List.filter_eq_self.mpr]
  intro e he
  simp [isAuto_of_not_isTo scope root e (hto e he)]

/-- a nested scope: the local events come back, whatever the scope and the root are -/
theorem rtEvents_nested (wl : WL) (h0 : wl.tr.contains 0 = true)
    (scope root : List St) (evs : List Event) (hwf : eventsWF evs = true)
    (hto : evs.all (fun e => !isTo e.name) = true) :
    ∃ evs', importEvents [] (exportEvents wl scope root evs) = some evs' ∧
      ∀ scope' root', exportEvents wl scope' root' evs' = exportEvents wl scope root evs := by
  have hto' : ∀ e ∈ evs, isTo e.name = false := by
    intro e he
    have := List.all_eq_true.mp hto e he
    simpa using this
  refine ⟨compact (evs.map (normE wl)), ?_, ?_⟩
  · rw [exportEvents_of_not_isTo wl scope root evs hto', importEvents_pairs wl h0 [] evs hwf (by simp)]
    rfl
  · intro scope' root'
    rw [exportEvents_compact wl scope' root' evs hto', exportEvents_of_not_isTo wl scope root evs hto']

/-! ### helper lemmas: the state tree through export + import -/

mutual
/-- sibling names are distinct, at every level below -/
def ndT : St → Bool
  | .mk _ _ _ _ _ _ _ _ children => nodupB (names children) && ndTs children
def ndTs : List St → Bool
  | [] => true
  | s :: r => ndT s && ndTs r
end

/-- the exported `ignore_invalid_triggers` entry of a state with flag `ignore` under machine flag `mi` -/
def expFlag (b : Bool) (mi ignore : Tri) : Option Tri :=
  if !ignore.truthy && mi.truthy then some ignore else if b && ignore.truthy then some .yes else none

/-- the flag round-trips for every combination of state flag, machine flag and whitelist -/
theorem flag_rt (b : Bool) (mi ignore : Tri) : expFlag b mi ((expFlag b mi ignore).getD mi) = expFlag b mi ignore := by
  cases b <;> cases mi <;> cases ignore <;> rfl

theorem walk_single (sts : List St) (n : Name) : walk sts [n] = (names sts).contains n := by
  simp [walk]

theorem walk_nil (sts : List St) : walk sts [] = false := by
  simp [walk]

theorem walk_cons_cons (s : St) (r : List St) (n m : Name) (p : Path) :
    walk (s :: r) (n :: m :: p) = if s.name == n then walk s.children (m :: p) else walk r (n :: m :: p) := by
  simp only [walk, List.find?_cons]
  cases s.name == n <;> rfl

theorem isEmpty_of_names_eq (a b : List St) (h : names a = names b) : a.isEmpty = b.isEmpty := by
  cases a <;> cases b <;> simp_all [names]

mutual
theorem rtSt (wl : WL) (h0 : wl.tr.contains 0 = true) (mi : Tri) (root : List St) :
    ∀ s : St, stOK s = true →
      ∃ s', importSt mi (exportSt wl mi root s) = some s' ∧
        (∀ root', exportSt wl mi root' s' = exportSt wl mi root s) ∧ s'.name = s.name ∧ ndT s' = true ∧
        ∀ p, walk s'.children p = walk s.children p
  | .mk name onEnter onExit onFinal ignore final initial events children, h => by
    simp only [stOK, Bool.and_eq_true] at h
    obtain ⟨⟨⟨hwf, hto⟩, hnd⟩, hch⟩ := h
    obtain ⟨ch', hch1, hch2, hch3, hch4, hch5⟩ := rtSts wl h0 mi root children hch
    have hemp : ch'.isEmpty = children.isEmpty := isEmpty_of_names_eq _ _ hch3
    have hev : ∃ evs', importEvents [] (if children.isEmpty then [] else exportEvents wl children root events)
          = some evs' ∧ ∀ scope' root', (if children.isEmpty then [] else exportEvents wl scope' root' evs')
          = (if children.isEmpty then [] else exportEvents wl children root events) := by
      cases children.isEmpty with
      | true => exact ⟨[], rfl, fun _ _ => rfl⟩
      | false =>
        obtain ⟨evs', e1, e2⟩ := rtEvents_nested wl h0 children root events hwf hto
        exact ⟨evs', e1, e2⟩
    obtain ⟨evs', hev1, hev2⟩ := hev
    refine ⟨.mk name (keep wl.st 1 onEnter) (keep wl.st 0 onExit) (keep wl.st 4 onFinal)
      ((expFlag (wl.st.contains 2) mi ignore).getD mi)
      (wl.st.contains 3 && final) (if children.isEmpty then none else initial) evs' ch', ?_, ?_, ?_, ?_, hch5⟩
    · simp only [exportSt, importSt, hch1, hev1, expFlag]
    · intro root'
      have hf := flag_rt (wl.st.contains 2) mi ignore
      simp only [expFlag] at hf
      simp only [exportSt, keep_keep, hch2 root', hemp, expFlag, hf, hev2 ch' root', MState.mk.injEq,
        true_and, and_true]
      refine ⟨?_, ?_⟩
      · cases wl.st.contains 3 <;> rfl
      · cases children.isEmpty <;> rfl
    · rfl
    · simp only [ndT, hch3, hnd, hch4, Bool.and_self]
theorem rtSts (wl : WL) (h0 : wl.tr.contains 0 = true) (mi : Tri) (root : List St) :
    ∀ l : List St, stsOK l = true →
      ∃ l', importSts mi (exportSts wl mi root l) = some l' ∧
        (∀ root', exportSts wl mi root' l' = exportSts wl mi root l) ∧ names l' = names l ∧ ndTs l' = true ∧
        ∀ p, walk l' p = walk l p
  | [], _ => ⟨[], rfl, fun _ => rfl, rfl, rfl, fun _ => rfl⟩
  | s :: r, h => by
    simp only [stsOK, Bool.and_eq_true] at h
    obtain ⟨s', a1, a2, a3, a4, a5⟩ := rtSt wl h0 mi root s h.1
    obtain ⟨r', b1, b2, b3, b4, b5⟩ := rtSts wl h0 mi root r h.2
    have hnames : names (s' :: r') = names (s :: r) := by
      simp only [names, List.map_cons, a3] at b3 ⊢; rw [b3]
    refine ⟨s' :: r', ?_, ?_, hnames, ?_, ?_⟩
    · simp only [exportSts, importSts, a1, b1]
    · intro root'; simp only [exportSts, a2 root', b2 root']
    · simp only [ndTs, a4, b4, Bool.and_self]
    · intro p
      match p with
      | [] => rw [walk_nil, walk_nil]
      | [n] => rw [walk_single, walk_single, hnames]
      | n :: m :: q => rw [walk_cons_cons, walk_cons_cons, a3, a5 (m :: q), b5 (n :: m :: q)]
end

/-! ### helper lemmas: the automatic transitions of the rebuilt machine -/

theorem walk_mem_names (sts : List St) (n : Name) (p : Path) (h : walk sts (n :: p) = true) : n ∈ names sts := by
  cases p with
  | nil => rw [walk_single] at h; exact List.contains_iff_mem.mp h
  | cons m q =>
    induction sts with
    | nil => simp [walk] at h
    | cons s r ih =>
      rw [walk_cons_cons] at h
      simp only [names, List.map_cons, List.mem_cons]
      cases hs : s.name == n with
      | true => left; exact (beq_iff_eq.mp hs).symm
      | false => rw [hs] at h; right; exact ih h

mutual
theorem nnSt_walk : ∀ (s : St) (pre g : Path), ndT s = true → g ∈ nestedNamesSt pre s →
    g = pre ++ [s.name] ∨ ∃ p, g = pre ++ s.name :: p ∧ walk s.children p = true
  | .mk name _ _ _ _ _ _ _ children, pre, g, hnd, hg => by
    simp only [nestedNamesSt, List.mem_cons] at hg
    rcases hg with rfl | hg
    · exact Or.inl rfl
    · right
      simp only [ndT, Bool.and_eq_true] at hnd
      obtain ⟨p, rfl, hp⟩ := nnSts_walk children (pre ++ [name]) g hnd.1 hnd.2 hg
      exact ⟨p, by simp [St.name], hp⟩
theorem nnSts_walk : ∀ (l : List St) (pre g : Path), nodupB (names l) = true → ndTs l = true →
    g ∈ nestedNamesSts pre l → ∃ p, g = pre ++ p ∧ walk l p = true
  | [], _, _, _, _, hg => by simp [nestedNamesSts] at hg
  | s :: r, pre, g, hn, hnd, hg => by
    simp only [nestedNamesSts, List.mem_append] at hg
    simp only [ndTs, Bool.and_eq_true] at hnd
    simp only [names, List.map_cons, nodupB, Bool.and_eq_true, Bool.not_eq_eq_eq_not, Bool.not_true] at hn
    rcases hg with hg | hg
    · rcases nnSt_walk s pre g hnd.1 hg with rfl | ⟨p, rfl, hp⟩
      · exact ⟨[s.name], rfl, by simp [walk_single, names]⟩
      · refine ⟨s.name :: p, rfl, ?_⟩
        cases p with
        | nil => rw [walk_nil] at hp; exact Bool.noConfusion hp
        | cons m q => rw [walk_cons_cons]; simp [hp]
    · obtain ⟨p, rfl, hp⟩ := nnSts_walk r pre g hn.2 hnd.2 hg
      refine ⟨p, rfl, ?_⟩
      cases p with
      | nil => rw [walk_nil] at hp; exact Bool.noConfusion hp
      | cons n q =>
        have hmem := walk_mem_names r n q hp
        cases q with
        | nil =>
          rw [walk_single] at hp ⊢
          simp only [names, List.map_cons, List.contains_cons] at hp ⊢
          rw [hp]; simp
        | cons m q' =>
          rw [walk_cons_cons]
          have hne : (s.name == n) = false := by
            cases hs : s.name == n with
            | false => rfl
            | true =>
              have := beq_iff_eq.mp hs
              rw [← this] at hmem
              have hc := List.contains_iff_mem.mpr hmem
              simp only [names] at hc
              rw [hc] at hn
              exact Bool.noConfusion hn.1
          rw [hne]; exact hp
end

theorem hasState_of_walk (sts : List St) (p : Path) (h : walk sts p = true) : hasState sts sts p = true := by
  match p, h with
  | [], h => rw [walk_nil] at h; exact Bool.noConfusion h
  | [n], h => rw [walk_single] at h; exact h
  | n :: m :: q, h => simp only [hasState, h, Bool.or_self]

/-- the events `add_states` / `_init_state` create (named `to_<state>` or `to_<model_attribute>_<state>`)
are recognised as automatic in the machine they are in -/
theorem autoEvents_isAuto (hier : Bool) (attr : Option Name) (sts : List St)
    (hn : nodupB (names sts) = true) (hnd : ndTs sts = true) :
    ∀ e ∈ autoEvents hier attr sts, isAuto sts sts e = true := by
  intro e he
  simp only [autoEvents, List.mem_map] at he
  obtain ⟨g, hg, rfl⟩ := he
  have hhas : hasState sts sts g = true := by
    cases hier with
    | true =>
      simp only [if_true] at hg
      obtain ⟨p, hp, hw⟩ := nnSts_walk sts [] g hn hnd hg
      rw [List.nil_append] at hp
      rw [hp]; exact hasState_of_walk sts p hw
    | false =>
      simp only [Bool.false_eq_true, if_false, List.mem_map] at hg
      obtain ⟨n, hn', rfl⟩ := hg
      simp only [hasState]
      exact List.contains_iff_mem.mpr hn'
  cases (!hier && attr.isSome) <;>
    simp only [isAuto, Bool.false_eq_true, if_false, if_true, List.length_map, names, hhas, Bool.and_true,
      beq_self_eq_true]

/-! ### helper lemmas: the top level and the assembly -/

theorem exportEvents_append (wl : WL) (scope root : List St) (A B : List Event) :
    exportEvents wl scope root (A ++ B) = exportEvents wl scope root A ++ exportEvents wl scope root B := by
  simp [exportEvents, List.filter_append, List.flatMap_append]

theorem exportEvents_all_auto (wl : WL) (scope root : List St) (A : List Event)
    (h : ∀ e ∈ A, isAuto scope root e = true) : exportEvents wl scope root A = [] := by
  have : A.filter (fun e => !isAuto scope root e) = [] := by
    rw [List.filter_eq_nil_iff]
    intro e he
    simp [h e he]
  simp [exportEvents, this]

theorem eventsWF_filter (p : Event → Bool) (evs : List Event) (h : eventsWF evs = true) :
    eventsWF (evs.filter p) = true := by
  rw [eventsWF_iff] at h ⊢
  refine ⟨List.Nodup.sublist (List.Sublist.map _ List.filter_sublist) h.1, ?_⟩
  intro e he
  exact h.2 e (List.mem_filter.mp he).1

/-- the top-level scope, general form: on top of automatic events `A` of the rebuilt machine the transitions of
the non-automatic events come back, provided none of the rebuilt events is taken for an automatic one -/
theorem rtEvents_gen (wl : WL) (h0 : wl.tr.contains 0 = true)
    (sts sts' : List St) (evs A : List Event) (hwf : eventsWF evs = true)
    (hA : ∀ e ∈ A, isAuto sts' sts' e = true)
    (hdisj : ∀ e ∈ evs.filter (fun e => !isAuto sts sts e), e.name ∉ A.map (·.name))
    (hna : ∀ e' ∈ compact ((evs.filter (fun e => !isAuto sts sts e)).map (normE wl)), isAuto sts' sts' e' = false) :
    ∃ evs', importEvents A (exportEvents wl sts sts evs) = some evs' ∧
      exportEvents wl sts' sts' evs' = exportEvents wl sts sts evs := by
  refine ⟨A ++ compact ((evs.filter (fun e => !isAuto sts sts e)).map (normE wl)), ?_, ?_⟩
  · rw [exportEvents_eq_pairs]
    exact importEvents_pairs wl h0 A _ (eventsWF_filter _ evs hwf) hdisj
  · rw [exportEvents_append, exportEvents_all_auto wl sts' sts' A hA, List.nil_append,
      exportEvents_compact' wl sts' sts' _ hna, exportEvents_eq_pairs]

/-- `auto_transitions` on: `to_…` names are reserved for the automatic events -/
theorem rtEvents_top (wl : WL) (h0 : wl.tr.contains 0 = true)
    (sts sts' : List St) (evs A : List Event) (hwf : eventsWF evs = true)
    (hto : ∀ e ∈ evs, isTo e.name = true → isAuto sts sts e = true)
    (hA : ∀ e ∈ A, isAuto sts' sts' e = true) :
    ∃ evs', importEvents A (exportEvents wl sts sts evs) = some evs' ∧
      exportEvents wl sts' sts' evs' = exportEvents wl sts sts evs := by
  have hfilter : evs.filter (fun e => !isAuto sts sts e) = evs.filter (fun e => !isTo e.name) := by
    apply List.filter_congr
    intro e he
    cases ht : isTo e.name with
    | true => rw [hto e he ht]
    | false => rw [isAuto_of_not_isTo sts sts e ht]
  have hnt : ∀ e ∈ evs.filter (fun e => !isAuto sts sts e), isTo e.name = false := by
    intro e he
    rw [hfilter] at he
    have := (List.mem_filter.mp he).2
    simpa using this
  apply rtEvents_gen wl h0 sts sts' evs A hwf hA
  · intro e he hmem
    rw [List.mem_map] at hmem
    obtain ⟨a, ha, hn⟩ := hmem
    have h1 := isTo_of_isAuto sts' sts' a (hA a ha)
    rw [hn, hnt e he] at h1
    exact Bool.noConfusion h1
  · intro e' he'
    have := compact_names _ e' he'
    rw [names_normE, List.mem_map] at this
    obtain ⟨e0, he0, hn⟩ := this
    have h := hnt e0 he0
    rw [hn] at h
    exact isAuto_of_not_isTo sts' sts' e' h

theorem mkKey_of_ne (k : Path) (l : List Trans) (h : l.isEmpty = false) : mkKey k l = [(k, l)] := by
  simp [mkKey, h]

theorem compactK_of_nonempty (kvs : List (Path × List Trans)) (h : kvs.all (fun kv => !kv.2.isEmpty) = true) :
    compactK kvs = kvs := by
  induction kvs with
  | nil => rfl
  | cons kv r ih =>
    simp only [List.all_cons, Bool.and_eq_true, Bool.not_eq_eq_eq_not, Bool.not_true] at h
    simp only [compactK, List.flatMap_cons] at ih ⊢
    rw [ih (by simpa using h.2), mkKey_of_ne _ _ h.1]
    rfl

theorem normE_nonempty (wl : WL) (e : Event) (h : e.trans.all (fun kv => !kv.2.isEmpty) = true) :
    (normE wl e).trans.all (fun kv => !kv.2.isEmpty) = true := by
  simp only [normE, List.all_map, List.all_eq_true] at h ⊢
  intro kv hkv
  simpa using h kv hkv

theorem mem_compact (evs : List Event) (e' : Event) (h : e' ∈ compact evs) :
    ∃ e ∈ evs, e' = ⟨e.name, compactK e.trans⟩ := by
  simp only [compact, List.mem_flatMap] at h
  obtain ⟨e, he, hm⟩ := h
  refine ⟨e, he, ?_⟩
  unfold mkEv at hm
  split at hm
  · simp at hm
  · simpa using hm

theorem hasState_congr (sts sts' : List St) (hn : names sts' = names sts) (hw : ∀ p, walk sts' p = walk sts p)
    (p : Path) : hasState sts' sts' p = hasState sts sts p := by
  match p with
  | [] => rfl
  | [n] => simp only [hasState, hn]
  | n :: m :: q => simp only [hasState, hw]

theorem isAuto_congr (sts sts' : List St) (hn : names sts' = names sts) (hw : ∀ p, walk sts' p = walk sts p)
    (e e' : Event) (hname : e'.name = e.name) (hlen : e'.trans.length = e.trans.length) :
    isAuto sts' sts' e' = isAuto sts sts e := by
  have hl : sts'.length = sts.length := by
    have := congrArg List.length hn
    simpa [names] using this
  simp only [isAuto, hname, hlen, hl, hasState_congr sts sts' hn hw]

/-- `auto_transitions` off: every event is exported, `to_…`-named ones included; none is taken for an
automatic one in the rebuilt machine either -/
theorem rtEvents_top_off (wl : WL) (h0 : wl.tr.contains 0 = true)
    (sts sts' : List St) (evs : List Event) (hwf : eventsWF evs = true)
    (hn : names sts' = names sts) (hw : ∀ p, walk sts' p = walk sts p)
    (hto : ∀ e ∈ evs, isTo e.name = true →
      isAuto sts sts e = false ∧ e.trans.all (fun kv => !kv.2.isEmpty) = true) :
    ∃ evs', importEvents [] (exportEvents wl sts sts evs) = some evs' ∧
      exportEvents wl sts' sts' evs' = exportEvents wl sts sts evs := by
  apply rtEvents_gen wl h0 sts sts' evs [] hwf (by simp) (by simp)
  intro e' he'
  obtain ⟨en, hen, rfl⟩ := mem_compact _ e' he'
  rw [List.mem_map] at hen
  obtain ⟨e, he, rfl⟩ := hen
  have he0 := (List.mem_filter.mp he).1
  cases ht : isTo e.name with
  | false => exact isAuto_of_not_isTo sts' sts' _ ht
  | true =>
    obtain ⟨hna, hne⟩ := hto e he0 ht
    rw [compactK_of_nonempty _ (normE_nonempty wl e hne)]
    have := isAuto_congr sts sts' hn hw e ⟨(normE wl e).name, (normE wl e).trans⟩ rfl
      (by simp only [normE, List.length_map])
    rw [this]
    exact hna

theorem exportMk_eq (wl : WL) (c : Cfg) :
    exportMk wl c =
      { name := c.name, initial := c.initial, prepareEvent := c.prepareEvent, beforeSC := c.beforeSC
        afterSC := c.afterSC, finalize := c.finalize, onException := c.onException, onFinal := c.onFinal
        opts := c.opts, states := exportSts wl c.opts.ignore c.states c.states
        transitions := exportEvents wl c.states c.states c.events, models := c.models } := by
  simp only [exportMk, refresh, convert, initMarkup, Markup.mk.injEq, and_true]
  constructor
  · cases c.name <;> rfl
  · cases c.initial <;> rfl

/-- **round trip** of the markup -/
theorem roundtrip (wl : WL) (c : Cfg) (h : rtOK wl c = true) :
    ∃ c', importMk c.hier (exportMk wl c) = some c' ∧ exportMk wl c' = exportMk wl c := by
  simp only [rtOK, Bool.and_eq_true] at h
  obtain ⟨⟨⟨⟨h0, hsts⟩, hnd⟩, hwf⟩, hto⟩ := h
  obtain ⟨sts', s1, s2, s3, s4, s5⟩ := rtSts wl h0 c.opts.ignore c.states c.states hsts
  have hev : ∃ evs', importEvents
      (if c.opts.autoTransitions then autoEvents c.hier c.opts.modelAttribute sts' else [])
      (exportEvents wl c.states c.states c.events) = some evs' ∧
      exportEvents wl sts' sts' evs' = exportEvents wl c.states c.states c.events := by
    cases hauto : c.opts.autoTransitions with
    | true =>
      simp only [if_true]
      rw [hauto] at hto
      simp only [if_true] at hto
      apply rtEvents_top wl h0 c.states sts' c.events _ hwf
      · intro e he ht
        have := List.all_eq_true.mp hto e he
        simpa [ht] using this
      · exact autoEvents_isAuto c.hier c.opts.modelAttribute sts' (s3 ▸ hnd) s4
    | false =>
      simp only [Bool.false_eq_true, if_false]
      rw [hauto] at hto
      simp only [Bool.false_eq_true, if_false] at hto
      apply rtEvents_top_off wl h0 c.states sts' c.events hwf s3 s5
      intro e he ht
      have := List.all_eq_true.mp hto e he
      simp only [ht, Bool.not_true, Bool.false_or, Bool.and_eq_true, Bool.not_eq_eq_eq_not] at this
      exact this
  obtain ⟨evs', e1, e2⟩ := hev
  refine ⟨{ hier := c.hier, name := c.name, initial := c.initial, prepareEvent := c.prepareEvent
            beforeSC := c.beforeSC, afterSC := c.afterSC, finalize := c.finalize
            onException := c.onException, onFinal := c.onFinal, opts := c.opts, states := sts'
            events := evs', models := c.models }, ?_, ?_⟩
  · rw [exportMk_eq]
    simp only [importMk, s1, e1]
  · rw [exportMk_eq, exportMk_eq]
    simp only [s2 sts', e2]

/-! ### the stale `initial` / `name` (why `C14_current_export` needs its prefix hypothesis) -/

/-- `initial` set, markup read, `initial` reset: the cached dict keeps the value read in between -/
def witnessStaleOps : List Op :=
  [.setter (fun c => { c with initial := some 5 }), .read, .setter (fun c => { c with initial := none })]

def witnessStaleCfg : Cfg := { cfgBase with initial := none }

/-- the final object state equals the constructor-time one in every field `C14_current_export` fixes, yet
the read differs from the export of a fresh machine: a hypothesis on the final state alone is not enough -/
theorem MM.current_export_stale :
    (((MM.new witnessStaleCfg).run WL.pinned witnessStaleOps).cfg.initial = witnessStaleCfg.initial ∧
     ((MM.new witnessStaleCfg).run WL.pinned witnessStaleOps).cfg.name = witnessStaleCfg.name ∧
     ((MM.new witnessStaleCfg).run WL.pinned witnessStaleOps).cfg.opts = witnessStaleCfg.opts) ∧
    ((((MM.new witnessStaleCfg).run WL.pinned witnessStaleOps).read WL.pinned).cache).initial = some 5 ∧
    (exportMk WL.pinned ((MM.new witnessStaleCfg).run WL.pinned witnessStaleOps).cfg).initial = none :=
  ⟨⟨rfl, rfl, rfl⟩, rfl, rfl⟩

/-- `after_state_change` replaced after construction: the cached dict keeps the constructor-time list
(the machine-level lists are captured once), the export of a fresh machine shows the new one -/
def witnessStaleAfterOps : List Op := [.setter (fun c => { c with afterSC := [9] })]

theorem MM.current_export_stale_afterSC :
    (((MM.new cfgBase).run WL.pinned witnessStaleAfterOps).cfg.beforeSC = cfgBase.beforeSC ∧
     ((MM.new cfgBase).run WL.pinned witnessStaleAfterOps).cfg.initial = cfgBase.initial ∧
     ((MM.new cfgBase).run WL.pinned witnessStaleAfterOps).cfg.opts = cfgBase.opts) ∧
    ((((MM.new cfgBase).run WL.pinned witnessStaleAfterOps).read WL.pinned).cache).afterSC = [] ∧
    (exportMk WL.pinned ((MM.new cfgBase).run WL.pinned witnessStaleAfterOps).cfg).afterSC = [9] :=
  ⟨⟨rfl, rfl, rfl⟩, rfl, rfl⟩

end Mk
end TM
