/-
  Proofs/C12NMore.lean — further lemmas for Props/C12N.lean:

    * unresolvable destinations: `nmayLoop` on a candidate list behaves exactly like `nmayLoop` on the sub-list of the
      candidates whose destination resolves (`nmayLoop_filter`);
    * the levels above the candidate loop are plain sequencing — an exception that leaves `nmayLoop` reaches the caller
      of `may_` unchanged (`nmayWalk_err`, `nmayHere_err`, `ncanTriggerNested_err`, `nmayAny_err`);
    * the decidable "all destinations resolve" (`NCfg.destsOK`) is sound (`destsOK_sound`);
    * with resolvable destinations the two verdicts on a pair coincide (`mayP_eq_trigP`), and `mayP` implies `trigP` always.
-/
import Proofs.C12NTrig

namespace TM
open C02 Enter

section Loop
variable (sub : NSub) (sc : Script) (cfg : NCfg)

/-- candidates whose destination is not a registered state are skipped without running anything -/
theorem nmayLoop_filter (scope : Scope) (x : Ctx) : ∀ (ts : List NTrans) (s : NSt),
    nmayLoop sub sc cfg scope x ts s = nmayLoop sub sc cfg scope x (ts.filter (ndestOk cfg scope)) s
  | [], s => rfl
  | t :: ts, s => by
    cases hd : ndestOk cfg scope t with
    | false =>
      rw [List.filter_cons_of_neg (by simp [hd])]
      conv => lhs; unfold nmayLoop
      simp only [hd, Bool.not_false, if_true]
      exact nmayLoop_filter scope x ts s
    | true =>
      rw [List.filter_cons_of_pos (by simp [hd])]
      conv => lhs; unfold nmayLoop
      conv => rhs; unfold nmayLoop
      simp only [hd, Bool.not_true, Bool.false_eq_true, if_false]
      have ih := fun s' => nmayLoop_filter scope x ts s'
      simp only [ih]

theorem nmayWalk_err (scope : Scope) (x : Ctx) (ts : List NTrans) (path : SPath) (n : Nat) (s s' : NSt) (e : Exc)
    (hreg : (getState cfg.root scope (path.take (n + 1))).isSome = true)
    (h : nmayLoop sub sc cfg scope x (nmayCands ts (path.take (n + 1))) s = .err e s') :
    nmayWalk sub sc cfg scope x ts path (n + 1) s = .err e s' := by
  obtain ⟨fd, hfd⟩ := Option.isSome_iff_exists.mp hreg
  simp only [nmayWalk, hfd, h, nbind_err]

theorem nmayHere_err (x : Ctx) (ev : Nat) (scope : Scope) (path : SPath) (ts : List NTrans) (s s' : NSt) (e : Exc)
    (hev : alookup ev scope.events = some ts)
    (h : nmayWalk sub sc cfg scope x ts path path.length s = .err e s') :
    nmayHere sub sc cfg x ev scope path s = .err e s' := by
  simp only [nmayHere, hev, h]

theorem ncanTriggerNested_err (x : Ctx) (ev : Nat) (scope : Scope) (path : SPath) (s s' : NSt) (e : Exc)
    (h : nmayHere sub sc cfg x ev scope path s = .err e s') :
    ncanTriggerNested sub sc cfg x ev scope path s = .err e s' := by
  cases path with
  | nil => simp only [ncanTriggerNested, h, nbind_err]
  | cons k rest => simp only [ncanTriggerNested, h, nbind_err]

theorem nmayAny_err (x : Ctx) (ev : Nat) (p : SPath) (ps : List SPath) (s s' : NSt) (e : Exc)
    (h : ncanTriggerNested sub sc cfg x ev cfg.root p s = .err e s') :
    nmayAny sub sc cfg x ev (p :: ps) s = .err e s' := by
  simp only [nmayAny, h, nbind_err]

end Loop

/-! ### resolvable destinations -/

/-- the events of the scope reached along `a` (if any) only hold transitions whose destination resolves there -/
def NCfg.destsOKAt (cfg : NCfg) (a : SPath) : Bool :=
  match cfg.root.walkTo a with
  | some scope => scope.events.all fun e => e.2.all (ndestOk cfg scope)
  | none => true

/-- **decidable**: every destination of every transition — declared on the machine or inside a state definition —
is a registered state as seen from the declaring scope -/
def NCfg.destsOK (cfg : NCfg) : Bool := cfg.destsOKAt [] && cfg.states.paths.all cfg.destsOKAt

/-- every candidate `may_` could meet for event `ev` has a resolvable destination -/
def DestsResolve (cfg : NCfg) (ev : Nat) : Prop :=
  ∀ a scope, cfg.root.walkTo a = some scope → ∀ ts, alookup ev scope.events = some ts →
    ∀ t ∈ ts, ndestOk cfg scope t = true

theorem alookup_mem' {β : Type} {k : Nat} {v : β} : ∀ {l : List (Nat × β)}, alookup k l = some v → (k, v) ∈ l
  | [], h => by simp [alookup] at h
  | (k', v') :: r, h => by
    simp only [alookup] at h
    split at h
    · rename_i hk; cases h; subst hk; exact List.mem_cons_self ..
    · exact List.mem_cons_of_mem _ (alookup_mem' h)

theorem SForest.find_paths {sf : SForest} {k : Nat} {d : SDef} {kids : SForest} (h : sf.find k = some (d, kids)) :
    [k] ∈ sf.paths ∧ ∀ q ∈ kids.paths, k :: q ∈ sf.paths := by
  induction sf with
  | nil => simp [SForest.find] at h
  | cons d' kids' rest _ ihr =>
    simp only [SForest.find] at h
    simp only [SForest.paths, List.cons_append, List.mem_cons, List.mem_append, List.mem_map]
    split at h
    · rename_i hk
      cases h
      subst hk
      exact ⟨Or.inl rfl, fun q hq => Or.inr (Or.inl ⟨q, hq, rfl⟩)⟩
    · obtain ⟨h1, h2⟩ := ihr h
      exact ⟨Or.inr (Or.inr h1), fun q hq => Or.inr (Or.inr (h2 q hq))⟩

theorem Scope.walkTo_paths : ∀ (p : SPath) (sc sc' : Scope), p ≠ [] → sc.walkTo p = some sc' → p ∈ sc.states.paths
  | [], _, _, h, _ => absurd rfl h
  | k :: p, sc, sc', _, h => by
    simp only [Scope.walkTo] at h
    cases he : sc.enter k with
    | none => simp [he] at h
    | some inner =>
      simp only [he] at h
      obtain ⟨d, kids, hf, rfl⟩ := Scope.enter_eq he
      obtain ⟨h1, h2⟩ := SForest.find_paths hf
      cases p with
      | nil => exact h1
      | cons k' p' => exact h2 _ (Scope.walkTo_paths (k' :: p') _ sc' (by simp) h)

theorem destsOK_sound (cfg : NCfg) (h : cfg.destsOK = true) (ev : Nat) : DestsResolve cfg ev := by
  intro a scope hw ts hts t ht
  simp only [NCfg.destsOK, Bool.and_eq_true, List.all_eq_true] at h
  have hat : cfg.destsOKAt a = true := by
    cases a with
    | nil => exact h.1
    | cons k p => exact h.2 _ (Scope.walkTo_paths (k :: p) cfg.root scope (by simp) hw)
  simp only [NCfg.destsOKAt, hw, List.all_eq_true] at hat
  exact hat (ev, ts) (alookup_mem' hts) t ht

/-! ### the API level: `model.<event>()` on an idle, unqueued machine is `_trigger_event` between two marks -/

theorem ntriggerEvent_mono (sub : NSub) (sc : Script) (cfg : NCfg) (hC : NoCmds sc) (hwf : cfg.states.WF = true)
    (x : Ctx) (ev : Nat) (s : NSt) : Mono (ntriggerEvent sub sc cfg x ev s) s := by
  rw [ntriggerEvent_eq]
  have hb := triggerEventBody_mono (sub := sub) (cfg := cfg) hC hwf x ev { s with result := none, exited := [] }
  have hw := ntriggerWrap_ends (sub := sub) (cfg := cfg) hC (fun _ => True) (fun _ _ _ _ => trivial) x _ _
    (⟨hb.noOof, fun s' hs' => by obtain ⟨g, l⟩ := hb.grow s' hs'; exact ⟨g, l, trivial⟩⟩ :
      Ends (fun _ => True) _ { s with result := none, exited := [] })
  exact ⟨hw.noOof, fun s' hs' => by obtain ⟨g, l, _⟩ := hw.grow s' hs'; exact ⟨g, l⟩⟩

/-- on an idle unqueued machine `model.<event>()` executes a transition iff the `_trigger_event` it wraps does -/
theorem napiTrigger_executes (sub : NSub) (sc : Script) (cfg : NCfg) (hC : NoCmds sc) (hwf : cfg.states.WF = true)
    (hq : cfg.queued = false) (qmax ev : Nat) (s : NSt) (hidle : s.queue = []) :
    (napiTrigger sub sc cfg qmax ev s ≠ .oof) ∧
    (NExecutes (napiTrigger sub sc cfg qmax ev s) s ↔
      NExecutes (ntriggerEvent sub sc cfg ⟨0, s.nextTag⟩ ev
        ((({ s with nextTag := s.nextTag + 1 } : NSt).emit (.api 0 s.nextTag 0 ev)).emitG (.api s.nextTag ev)))
        ((({ s with nextTag := s.nextTag + 1 } : NSt).emit (.api 0 s.nextTag 0 ev)).emitG (.api s.nextTag ev))) := by
  have hm := ntriggerEvent_mono sub sc cfg hC hwf ⟨0, s.nextTag⟩ ev
    ((({ s with nextTag := s.nextTag + 1 } : NSt).emit (.api 0 s.nextTag 0 ev)).emitG (.api s.nextTag ev))
  have hproc : nmachineProcess sub sc cfg qmax ev s.nextTag
      ((({ s with nextTag := s.nextTag + 1 } : NSt).emit (.api 0 s.nextTag 0 ev)).emitG (.api s.nextTag ev)) =
      ntriggerEvent sub sc cfg ⟨0, s.nextTag⟩ ev
        ((({ s with nextTag := s.nextTag + 1 } : NSt).emit (.api 0 s.nextTag 0 ev)).emitG (.api s.nextTag ev)) := by
    unfold nmachineProcess
    simp only [hq, Bool.not_false, if_true]
    have : ((({ s with nextTag := s.nextTag + 1 } : NSt).emit (.api 0 s.nextTag 0 ev)).emitG (.api s.nextTag ev)).queue = [] :=
      hidle
    rw [this]
  unfold napiTrigger
  simp only [hproc]
  generalize ntriggerEvent sub sc cfg ⟨0, s.nextTag⟩ ev
    ((({ s with nextTag := s.nextTag + 1 } : NSt).emit (.api 0 s.nextTag 0 ev)).emitG (.api s.nextTag ev)) = r at hm
  have hs1 : ((({ s with nextTag := s.nextTag + 1 } : NSt).emit (.api 0 s.nextTag 0 ev)).emitG (.api s.nextTag ev)).glog
      = s.glog ++ [.api s.nextTag ev] := rfl
  cases r with
  | oof => exact absurd rfl hm.noOof
  | ok b s' =>
    obtain ⟨g1, l1⟩ := hm.grow s' rfl
    rw [hs1] at l1
    refine ⟨(by intro h; cases h), ?_⟩
    constructor
    · rintro ⟨s'', hs'', seg, l, he⟩
      simp only [Res.state?, Option.some.injEq] at hs''
      subst hs''
      refine ⟨s', rfl, g1, by rw [hs1]; exact l1, ?_⟩
      have l2 : s'.glog ++ [.ret s.nextTag b] = s.glog ++ seg := l
      rw [l1, List.append_assoc, List.append_assoc] at l2
      have := List.append_cancel_left l2
      rw [← this, hasExec_append, hasExec_append] at he
      simpa [hasExec] using he
    · rintro ⟨s'', hs'', seg, l, he⟩
      simp only [Res.state?, Option.some.injEq] at hs''
      subst hs''
      rw [hs1] at l
      refine ⟨_, rfl, [.api s.nextTag ev] ++ seg ++ [.ret s.nextTag b], ?_, ?_⟩
      · simp [NSt.emit, NSt.emitG, l]
      · rw [hasExec_append, hasExec_append, he]; simp
  | err e s' =>
    obtain ⟨g1, l1⟩ := hm.grow s' rfl
    rw [hs1] at l1
    refine ⟨(by intro h; cases h), ?_⟩
    constructor
    · rintro ⟨s'', hs'', seg, l, he⟩
      simp only [Res.state?, Option.some.injEq] at hs''
      subst hs''
      refine ⟨s', rfl, g1, by rw [hs1]; exact l1, ?_⟩
      have l2 : s'.glog ++ [.raised s.nextTag e] = s.glog ++ seg := l
      rw [l1, List.append_assoc, List.append_assoc] at l2
      have := List.append_cancel_left l2
      rw [← this, hasExec_append, hasExec_append] at he
      simpa [hasExec] using he
    · rintro ⟨s'', hs'', seg, l, he⟩
      simp only [Res.state?, Option.some.injEq] at hs''
      subst hs''
      rw [hs1] at l
      refine ⟨_, rfl, [.api s.nextTag ev] ++ seg ++ [.raised s.nextTag e], ?_, ?_⟩
      · simp [NSt.emit, NSt.emitG, l]
      · rw [hasExec_append, hasExec_append, he]; simp

section Verdicts
variable (sc : Script) (cfg : NCfg) (ev : Nat)

/-- what `may_` accepts the trigger executes -/
theorem mayP_imp_trigP (pr : SPath × SPath) (h : mayP sc cfg ev pr = true) : trigP sc cfg ev pr = true := by
  unfold mayP at h
  unfold trigP
  cases hw : cfg.root.walkTo pr.1 with
  | none => rw [hw] at h; cases h
  | some scope =>
    rw [hw] at h
    simp only [] at h ⊢
    unfold mayAt at h
    unfold passAt
    cases hev : alookup ev scope.events with
    | none => rw [hev] at h; cases h
    | some ts =>
      rw [hev] at h
      simp only [] at h ⊢
      rw [List.any_eq_true] at h ⊢
      obtain ⟨t, ht, hp⟩ := h
      exact ⟨t, ht, (Bool.and_eq_true _ _ ▸ hp).2⟩

/-- with resolvable destinations the verdicts coincide -/
theorem mayP_eq_trigP (hd : DestsResolve cfg ev) (pr : SPath × SPath) : mayP sc cfg ev pr = trigP sc cfg ev pr := by
  unfold mayP trigP
  cases hw : cfg.root.walkTo pr.1 with
  | none => rfl
  | some scope =>
    simp only []
    unfold mayAt passAt
    cases hev : alookup ev scope.events with
    | none => rfl
    | some ts =>
      simp only []
      have : ∀ t ∈ nmayCands ts pr.2, (ndestOk cfg scope t && npasses sc t) = npasses sc t := by
        intro t ht
        have : t ∈ ts := (List.mem_filter.mp ht).1
        rw [hd pr.1 scope hw ts hev t this, Bool.true_and]
      generalize nmayCands ts pr.2 = l at this
      induction l with
      | nil => rfl
      | cons a l ih =>
        simp only [List.any_cons]
        rw [this a (List.mem_cons_self ..), ih (fun t ht => this t (List.mem_cons_of_mem _ ht))]

end Verdicts

end TM
