/-
  Proofs/C17.lean — helper lemmas for property C17: the timed model of Timeout/AsyncTimeout
  (Model/Timeout.lean) simulates the property acceptor (Model/Spec/C17.lean).
-/
import Model.Spec.C17

namespace TM
namespace C17
open Timeout

@[simp] theorem specOf_timeout (cfg : Cfg) : (specOf cfg).timeout = cfg.timeout := rfl
@[simp] theorem specOf_routes (cfg : Cfg) : (specOf cfg).routes = (cfg.async && cfg.onExc) := rfl

/-! ### lists of timers -/

theorem getElem?_setPhase (ts : List Timer) (i j : Nat) (p : Phase) :
    (setPhase ts i p)[j]? = if j = i then (ts[i]?).map (fun t => { t with phase := p }) else ts[j]? := by
  induction ts generalizing i j with
  | nil => simp [setPhase]
  | cons t ts ih =>
    cases i with
    | zero => cases j <;> simp [setPhase]
    | succ i => cases j <;> simp [setPhase, ih]

theorem length_setPhase (ts : List Timer) (i : Nat) (p : Phase) : (setPhase ts i p).length = ts.length := by
  induction ts generalizing i with
  | nil => simp [setPhase]
  | cons t ts ih => cases i <;> simp [setPhase, ih]

theorem monOf_snoc (sp : Spec) (log : List Rec) (r : Rec) : monOf sp (log ++ [r]) = mstep sp (monOf sp log) r := by
  simp [monOf, List.foldl_append]

/-- deadline of the waiting timer in `runner[s][m]`, if there is one -/
def armedOf (st : St) (s m : Nat) : Option Nat :=
  match st.runner s m with
  | some i =>
    match st.timers[i]? with
    | some t => if t.phase = .waiting then some t.deadline else none
    | none => none
  | none => none


/-- the invariant: runner slots are typed, every waiting timer sits in its slot (no orphan), no
waiting timer is overdue, and the acceptor — having consumed the log so far — has accepted it and
holds exactly the waiting timers' deadlines; `p` = handlers currently running -/
structure Good (cfg : Cfg) (p : Nat → Nat → Bool) (st : St) : Prop where
  typed : ∀ s m i, st.runner s m = some i → ∃ t, st.timers[i]? = some t ∧ t.s = s ∧ t.m = m
  owned : ∀ (i : Nat) (t : Timer), st.timers[i]? = some t → t.phase = .waiting → st.runner t.s t.m = some i
  due : ∀ (i : Nat) (t : Timer), st.timers[i]? = some t → t.phase = .waiting → st.now ≤ t.deadline
  ok : (monOf (specOf cfg) st.log).ok = true
  now : (monOf (specOf cfg) st.log).now = st.now
  armed : ∀ s m, (monOf (specOf cfg) st.log).armed s m = armedOf st s m
  pend : ∀ s m, (monOf (specOf cfg) st.log).pend s m = p s m
  owed : ∀ s m, (monOf (specOf cfg) st.log).owed s m = false

/-- … as long as no `enter` has overwritten a waiting timer -/
def GoodIf (cfg : Cfg) (p : Nat → Nat → Bool) (st : St) : Prop := st.leaked = false → Good cfg p st

theorem tEnter_good (cfg : Cfg) (hk : ∀ m, cfg.key m = m) (p : Nat → Nat → Bool) (m s : Nat) (st : St) (h : GoodIf cfg p st) :
    GoodIf cfg p (tEnter cfg m s st) := by
  intro hl
  unfold tEnter at hl ⊢
  rw [hk m] at hl ⊢
  by_cases hT : 0 < cfg.timeout s
  · simp only [hT, if_true] at hl ⊢
    simp only [Bool.or_eq_false_iff] at hl
    have g := h hl.1
    have hslot := hl.2
    refine ⟨?_, ?_, ?_, ?_, ?_, ?_, ?_, ?_⟩
    · intro s' m' i hi
      by_cases hk : s' = s ∧ m' = m
      · simp only [hk, and_self, if_true, Option.some.injEq] at hi
        subst hi
        exact ⟨{ deadline := st.now + cfg.timeout s, m := m, s := s, phase := .waiting }, by simp, hk.1.symm, hk.2.symm⟩
      · simp only [hk, if_false] at hi
        obtain ⟨t, ht, hs, hm⟩ := g.typed s' m' i hi
        have hlt : i < st.timers.length := (List.getElem?_eq_some_iff.mp ht).1
        exact ⟨t, by simp [List.getElem?_append_left hlt, ht], hs, hm⟩
    · intro i t hi hw
      by_cases hlt : i < st.timers.length
      · rw [List.getElem?_append_left hlt] at hi
        have ho := g.owned i t hi hw
        by_cases hk : t.s = s ∧ t.m = m
        · exfalso
          rw [hk.1, hk.2] at ho
          simp [slotWaiting, ho, hi, hw] at hslot
        · simp only [hk, if_false]; exact ho
      · have hge : st.timers.length ≤ i := Nat.le_of_not_lt hlt
        rw [List.getElem?_append_right hge] at hi
        have : i - st.timers.length = 0 := by
          cases hd : i - st.timers.length with
          | zero => rfl
          | succ k => simp [hd] at hi
        simp only [this, List.getElem?_cons_zero, Option.some.injEq] at hi
        subst hi
        simp; omega
    · intro i t hi hw
      by_cases hlt : i < st.timers.length
      · rw [List.getElem?_append_left hlt] at hi
        exact g.due i t hi hw
      · have hge : st.timers.length ≤ i := Nat.le_of_not_lt hlt
        rw [List.getElem?_append_right hge] at hi
        have : i - st.timers.length = 0 := by
          cases hd : i - st.timers.length with
          | zero => rfl
          | succ k => simp [hd] at hi
        simp only [this, List.getElem?_cons_zero, Option.some.injEq] at hi
        subst hi
        simp
    · simp only [monOf_snoc, mstep, specOf_timeout, hT, if_true]; exact g.ok
    · simp only [monOf_snoc, mstep, specOf_timeout, hT, if_true]; exact g.now
    · intro s' m'
      simp only [monOf_snoc, mstep, specOf_timeout, hT, if_true, upd, armedOf]
      by_cases hk : s' = s ∧ m' = m
      · simp [hk, g.now]
      · simp only [hk, if_false]
        have ga := g.armed s' m'
        simp only [armedOf] at ga
        rw [ga]
        cases hr : st.runner s' m' with
        | none => rfl
        | some j =>
          obtain ⟨t, ht, _, _⟩ := g.typed s' m' j hr
          have hlt : j < st.timers.length := (List.getElem?_eq_some_iff.mp ht).1
          simp [List.getElem?_append_left hlt]
    · intro s' m'
      simp only [monOf_snoc, mstep, specOf_timeout, hT, if_true]; exact g.pend s' m'
    · intro s' m'
      simp only [monOf_snoc, mstep, specOf_timeout, hT, if_true]; exact g.owed s' m'
  · simp only [hT, if_false, St.emit] at hl ⊢
    have g := h hl
    have hm : monOf (specOf cfg) (st.log ++ [Rec.enter m s]) = monOf (specOf cfg) st.log := by
      simp [monOf_snoc, mstep, specOf_timeout, hT]
    exact ⟨g.typed, g.owned, g.due, by rw [hm]; exact g.ok, by rw [hm]; exact g.now,
      by intro s' m'; rw [hm]; exact g.armed s' m', by intro s' m'; rw [hm]; exact g.pend s' m',
      by intro s' m'; rw [hm]; exact g.owed s' m'⟩


/-! ### taking one timer out of the waiting phase (cancel, start of the handler, end of the handler) -/

/-- `st'` is `st` with timer `i` (if any) mapped to something that is not waiting -/
structure Quench (st st' : St) (i : Nat) : Prop where
  runner : st'.runner = st.runner
  now : st'.now = st.now
  timers : ∃ f : Timer → Timer,
    (∀ t, (f t).deadline = t.deadline ∧ (f t).m = t.m ∧ (f t).s = t.s ∧ (f t).phase ≠ .waiting) ∧
    ∀ j, st'.timers[j]? = if j = i then (st.timers[i]?).map f else st.timers[j]?

theorem Quench.typed {st st' : St} {i : Nat} (q : Quench st st' i)
    (h : ∀ s m i, st.runner s m = some i → ∃ t, st.timers[i]? = some t ∧ t.s = s ∧ t.m = m) :
    ∀ s m i, st'.runner s m = some i → ∃ t, st'.timers[i]? = some t ∧ t.s = s ∧ t.m = m := by
  obtain ⟨f, hf, hts⟩ := q.timers
  intro s m j hj
  rw [q.runner] at hj
  obtain ⟨t, ht, hs, hm⟩ := h s m j hj
  by_cases hji : j = i
  · subst hji
    exact ⟨f t, by simp [hts, ht], by rw [(hf t).2.2.1]; exact hs, by rw [(hf t).2.1]; exact hm⟩
  · exact ⟨t, by simp [hts, hji, ht], hs, hm⟩

/-- a timer that waits afterwards waited before, unchanged, and is not `i` -/
theorem Quench.waiting {st st' : St} {i : Nat} (q : Quench st st' i) (j : Nat) (t : Timer)
    (hj : st'.timers[j]? = some t) (hw : t.phase = .waiting) : j ≠ i ∧ st.timers[j]? = some t := by
  obtain ⟨f, hf, hts⟩ := q.timers
  rw [hts] at hj
  by_cases hji : j = i
  · simp only [hji, if_true] at hj
    cases ht : st.timers[i]? with
    | none => simp [ht] at hj
    | some t0 =>
      simp only [ht, Option.map_some, Option.some.injEq] at hj
      subst hj
      exact absurd hw (hf t0).2.2.2
  · simp only [hji, if_false] at hj
    exact ⟨hji, hj⟩

theorem Quench.armedOf {st st' : St} {i : Nat} (q : Quench st st' i)
    (h : ∀ s m i, st.runner s m = some i → ∃ t, st.timers[i]? = some t ∧ t.s = s ∧ t.m = m) (s m : Nat) :
    armedOf st' s m = if st.runner s m = some i then none else armedOf st s m := by
  obtain ⟨f, hf, hts⟩ := q.timers
  simp only [C17.armedOf, q.runner]
  cases hr : st.runner s m with
  | none => simp
  | some j =>
    by_cases hji : j = i
    · subst hji
      obtain ⟨t, ht, _, _⟩ := h s m j hr
      simp [hts, ht, (hf t).2.2.2]
    · simp [hts, hji]

/-- the timer part of the invariant survives -/
theorem Quench.good_timers {cfg : Cfg} {p : Nat → Nat → Bool} {st st' : St} {i : Nat} (q : Quench st st' i)
    (g : Good cfg p st) :
    (∀ s m i, st'.runner s m = some i → ∃ t, st'.timers[i]? = some t ∧ t.s = s ∧ t.m = m) ∧
    (∀ (i : Nat) (t : Timer), st'.timers[i]? = some t → t.phase = .waiting → st'.runner t.s t.m = some i) ∧
    (∀ (i : Nat) (t : Timer), st'.timers[i]? = some t → t.phase = .waiting → st'.now ≤ t.deadline) := by
  refine ⟨q.typed g.typed, ?_, ?_⟩
  · intro j t hj hw
    rw [q.runner]
    exact g.owned j t (q.waiting j t hj hw).2 hw
  · intro j t hj hw
    rw [q.now]
    exact g.due j t (q.waiting j t hj hw).2 hw

theorem getElem?_cancelTimer (ts : List Timer) (i j : Nat) :
    (cancelTimer ts i)[j]? =
      if j = i then (ts[i]?).map (fun t => if t.phase = .waiting then { t with phase := .finished } else t)
      else ts[j]? := by
  unfold cancelTimer
  cases ht : ts[i]? with
  | none =>
    by_cases hji : j = i
    · subst hji; simp [ht]
    · simp [hji]
  | some t =>
    by_cases hw : t.phase = .waiting
    · simp only [hw, if_true, getElem?_setPhase, ht, Option.map_some]
    · by_cases hji : j = i
      · subst hji; simp [hw, ht]
      · simp [hw, hji]


theorem tExit_fields (cfg : Cfg) (hk : ∀ m, cfg.key m = m) (m s : Nat) (st : St) :
    (tExit cfg m s st).runner = st.runner ∧ (tExit cfg m s st).now = st.now ∧ (tExit cfg m s st).leaked = st.leaked ∧
    (tExit cfg m s st).log = st.log ++ [.exit m s] ∧
    (tExit cfg m s st).timers = (match st.runner s m with
      | some i => cancelTimer st.timers i
      | none => st.timers) := by
  unfold tExit
  rw [hk m]
  cases hr : st.runner s m with
  | none => simp [St.emit]
  | some i =>
    cases ht : st.timers[i]? with
    | none => simp [St.emit, cancelTimer, ht]
    | some t =>
      by_cases ha : t.isAlive = true
      · simp [St.emit, ha, ht]
      · have hw : ¬ t.phase = .waiting := by
          intro hw; apply ha; simp [Timer.isAlive, hw]
        simp [St.emit, ha, cancelTimer, ht, hw]

theorem tExit_quench (cfg : Cfg) (hk : ∀ m, cfg.key m = m) (m s : Nat) (st : St) (i : Nat) (hr : st.runner s m = some i) :
    Quench st (tExit cfg m s st) i := by
  obtain ⟨h1, h2, _, _, h5⟩ := tExit_fields cfg hk m s st
  refine ⟨h1, h2, fun t => if t.phase = .waiting then { t with phase := .finished } else t, ?_, ?_⟩
  · intro t
    by_cases hw : t.phase = .waiting
    · simp [hw]
    · simp [hw]
  · intro j
    rw [h5, hr]
    exact getElem?_cancelTimer st.timers i j

theorem tExit_good (cfg : Cfg) (hk : ∀ m, cfg.key m = m) (p : Nat → Nat → Bool) (m s : Nat) (st : St) (h : GoodIf cfg p st) :
    GoodIf cfg p (tExit cfg m s st) := by
  intro hl
  obtain ⟨h1, h2, h3, h4, h5⟩ := tExit_fields cfg hk m s st
  rw [h3] at hl
  have g := h hl
  have hmon : monOf (specOf cfg) (tExit cfg m s st).log = mstep (specOf cfg) (monOf (specOf cfg) st.log) (.exit m s) := by
    rw [h4, monOf_snoc]
  cases hr : st.runner s m with
  | none =>
    have ht : (tExit cfg m s st).timers = st.timers := by rw [h5, hr]
    have ha : ∀ s' m', armedOf (tExit cfg m s st) s' m' = armedOf st s' m' := by
      intro s' m'; simp only [armedOf, h1, ht]
    refine ⟨by rw [h1, ht]; exact g.typed, by rw [h1, ht]; exact g.owned, by rw [h2, ht]; exact g.due,
      by rw [hmon]; exact g.ok, by rw [hmon, h2]; exact g.now, ?_, by intro s' m'; rw [hmon]; exact g.pend s' m',
      by intro s' m'; rw [hmon]; exact g.owed s' m'⟩
    intro s' m'
    rw [hmon, ha]
    simp only [mstep, upd]
    by_cases hk : s' = s ∧ m' = m
    · simp only [hk, and_self, if_true, armedOf, hr]
    · simp only [hk, if_false]; exact g.armed s' m'
  | some i =>
    have q := tExit_quench cfg hk m s st i hr
    obtain ⟨t1, t2, t3⟩ := q.good_timers g
    refine ⟨t1, t2, t3, by rw [hmon]; exact g.ok, by rw [hmon, h2]; exact g.now, ?_,
      by intro s' m'; rw [hmon]; exact g.pend s' m', by intro s' m'; rw [hmon]; exact g.owed s' m'⟩
    intro s' m'
    rw [hmon, q.armedOf g.typed]
    simp only [mstep, upd]
    by_cases hk : s' = s ∧ m' = m
    · simp only [hk, and_self, if_true, hr]
    · simp only [hk, if_false]
      have hne : ¬ st.runner s' m' = some i := by
        intro hc
        obtain ⟨t, ht, hs, hm⟩ := g.typed s' m' i hc
        obtain ⟨t', ht', hs', hm'⟩ := g.typed s m i hr
        rw [ht] at ht'
        cases ht'
        exact hk ⟨hs.symm.trans hs', hm.symm.trans hm'⟩
      simp only [hne, if_false]
      exact g.armed s' m'


theorem act_good (cfg : Cfg) (hk : ∀ m, cfg.key m = m) (p : Nat → Nat → Bool) (m : Nat) (a : Bool × Nat) (st : St) (h : GoodIf cfg p st) :
    GoodIf cfg p (act cfg m st a) := by
  unfold act
  split
  · exact tEnter_good cfg hk p m a.2 st h
  · exact tExit_good cfg hk p m a.2 st h

theorem acts_good (cfg : Cfg) (hk : ∀ m, cfg.key m = m) (p : Nat → Nat → Bool) (m : Nat) (prog : List (Bool × Nat)) (st : St)
    (h : GoodIf cfg p st) : GoodIf cfg p (acts cfg m prog st) := by
  induction prog generalizing st with
  | nil => exact h
  | cons x xs ih => exact ih _ (act_good cfg hk p m x st h)

theorem trigger_good (cfg : Cfg) (hk : ∀ m, cfg.key m = m) (p : Nat → Nat → Bool) (m e : Nat) (st : St) (h : GoodIf cfg p st) :
    GoodIf cfg p (trigger cfg m e st) := by
  unfold trigger
  split
  · exact h
  · exact h
  · rename_i prog d _ _
    have h1 := acts_good cfg hk p m prog st h
    intro hl
    have g := h1 hl
    exact ⟨g.typed, g.owned, g.due, g.ok, g.now, g.armed, g.pend, g.owed⟩

theorem triggers_good (cfg : Cfg) (hk : ∀ m, cfg.key m = m) (p : Nat → Nat → Bool) (evs : List (Nat × Nat)) (st : St) (h : GoodIf cfg p st) :
    GoodIf cfg p (triggers cfg evs st) := by
  induction evs generalizing st with
  | nil => exact h
  | cons x xs ih => exact ih _ (trigger_good cfg hk p x.1 x.2 st h)

/-! ### how the timer list evolves: deadlines, owners are immutable; a timer never returns to
`waiting`; timers created later are due in the future -/

structure Evolve (st st' : St) : Prop where
  now : st'.now = st.now
  len : st.timers.length ≤ st'.timers.length
  old : ∀ (i : Nat) (t : Timer), st.timers[i]? = some t →
    ∃ t', st'.timers[i]? = some t' ∧ t'.deadline = t.deadline ∧ t'.m = t.m ∧ t'.s = t.s ∧
      (t.phase ≠ .waiting → t'.phase ≠ .waiting)
  new : ∀ (i : Nat) (t' : Timer), st'.timers[i]? = some t' → st.timers.length ≤ i → st.now < t'.deadline

theorem Evolve.refl (st : St) : Evolve st st :=
  ⟨rfl, Nat.le_refl _, fun _ t h => ⟨t, h, rfl, rfl, rfl, id⟩, fun i t' h hi => by
    have := (List.getElem?_eq_some_iff.mp h).1; omega⟩

theorem Evolve.of_eq {st st' : St} (hn : st'.now = st.now) (ht : st'.timers = st.timers) : Evolve st st' :=
  ⟨hn, by rw [ht]; exact Nat.le_refl _, fun _ t h => ⟨t, by rw [ht]; exact h, rfl, rfl, rfl, id⟩, fun i t' h hi => by
    rw [ht] at h
    have := (List.getElem?_eq_some_iff.mp h).1; omega⟩

theorem Evolve.trans {a b c : St} (h1 : Evolve a b) (h2 : Evolve b c) : Evolve a c := by
  refine ⟨h2.now.trans h1.now, Nat.le_trans h1.len h2.len, ?_, ?_⟩
  · intro i t hi
    obtain ⟨t', ht', d1, m1, s1, w1⟩ := h1.old i t hi
    obtain ⟨t'', ht'', d2, m2, s2, w2⟩ := h2.old i t' ht'
    exact ⟨t'', ht'', d2.trans d1, m2.trans m1, s2.trans s1, fun hw => w2 (w1 hw)⟩
  · intro i t'' hi hge
    by_cases hlt : i < b.timers.length
    · obtain ⟨t', ht'⟩ : ∃ t', b.timers[i]? = some t' := ⟨b.timers[i], List.getElem?_eq_getElem hlt⟩
      obtain ⟨t2, ht2, d2, _, _, _⟩ := h2.old i t' ht'
      rw [hi] at ht2
      cases ht2
      rw [d2]
      exact h1.new i t' ht' hge
    · have := h2.new i t'' hi (Nat.le_of_not_lt hlt)
      rw [h1.now] at this
      exact this

theorem Quench.evolve {st st' : St} {i : Nat} (q : Quench st st' i) : Evolve st st' := by
  obtain ⟨f, hf, hts⟩ := q.timers
  have hold : ∀ (j : Nat) (t : Timer), st.timers[j]? = some t →
      ∃ t', st'.timers[j]? = some t' ∧ t'.deadline = t.deadline ∧ t'.m = t.m ∧ t'.s = t.s ∧
        (t.phase ≠ .waiting → t'.phase ≠ .waiting) := by
    intro j t hj
    by_cases hji : j = i
    · subst hji
      exact ⟨f t, by simp [hts, hj], (hf t).1, (hf t).2.1, (hf t).2.2.1, fun _ => (hf t).2.2.2⟩
    · exact ⟨t, by simp [hts, hji, hj], rfl, rfl, rfl, id⟩
  refine ⟨q.now, ?_, hold, ?_⟩
  · apply Nat.le_of_not_lt
    intro hlt
    have hj : st.timers[st'.timers.length]? = some (st.timers[st'.timers.length]) := List.getElem?_eq_getElem hlt
    obtain ⟨t', ht', _⟩ := hold _ _ hj
    have := (List.getElem?_eq_some_iff.mp ht').1
    omega
  · intro j t' hj hge
    exfalso
    have hnone : ∀ k, st.timers.length ≤ k → st.timers[k]? = none := fun k hk => List.getElem?_eq_none hk
    rw [hts] at hj
    by_cases hji : j = i
    · subst hji
      simp [hnone j hge] at hj
    · simp [hji, hnone j hge] at hj

theorem tExit_evolve (cfg : Cfg) (hk : ∀ m, cfg.key m = m) (m s : Nat) (st : St) : Evolve st (tExit cfg m s st) := by
  cases hr : st.runner s m with
  | none =>
    obtain ⟨_, h2, _, _, h5⟩ := tExit_fields cfg hk m s st
    rw [hr] at h5
    exact Evolve.of_eq h2 h5
  | some i => exact (tExit_quench cfg hk m s st i hr).evolve

theorem tEnter_evolve (cfg : Cfg) (hk : ∀ m, cfg.key m = m) (m s : Nat) (st : St) : Evolve st (tEnter cfg m s st) := by
  unfold tEnter
  by_cases hT : 0 < cfg.timeout s
  · simp only [hT, if_true]
    refine ⟨rfl, by simp, ?_, ?_⟩
    · intro i t hi
      have hlt : i < st.timers.length := (List.getElem?_eq_some_iff.mp hi).1
      exact ⟨t, by simp [List.getElem?_append_left hlt, hi], rfl, rfl, rfl, id⟩
    · intro i t' hi hge
      simp only at hi hge
      rw [List.getElem?_append_right hge] at hi
      have : i - st.timers.length = 0 := by
        cases hd : i - st.timers.length with
        | zero => rfl
        | succ k => simp [hd] at hi
      simp only [this, List.getElem?_cons_zero, Option.some.injEq] at hi
      subst hi
      simp; omega
  · simp only [hT, if_false]
    exact Evolve.of_eq rfl rfl

theorem act_evolve (cfg : Cfg) (hk : ∀ m, cfg.key m = m) (m : Nat) (a : Bool × Nat) (st : St) : Evolve st (act cfg m st a) := by
  unfold act
  split
  · exact tEnter_evolve cfg hk m a.2 st
  · exact tExit_evolve cfg hk m a.2 st

theorem acts_evolve (cfg : Cfg) (hk : ∀ m, cfg.key m = m) (m : Nat) (prog : List (Bool × Nat)) (st : St) : Evolve st (acts cfg m prog st) := by
  induction prog generalizing st with
  | nil => exact Evolve.refl st
  | cons x xs ih => exact (act_evolve cfg hk m x st).trans (ih _)

theorem trigger_evolve (cfg : Cfg) (hk : ∀ m, cfg.key m = m) (m e : Nat) (st : St) : Evolve st (trigger cfg m e st) := by
  unfold trigger
  split
  · exact Evolve.refl st
  · exact Evolve.refl st
  · rename_i prog d _ _
    have e1 := acts_evolve cfg hk m prog st
    have e2 : Evolve (acts cfg m prog st)
        { acts cfg m prog st with cur := fun m' => if m' = m then d else (acts cfg m prog st).cur m' } :=
      Evolve.of_eq rfl rfl
    exact e1.trans e2

theorem triggers_evolve (cfg : Cfg) (hk : ∀ m, cfg.key m = m) (evs : List (Nat × Nat)) (st : St) : Evolve st (triggers cfg evs st) := by
  induction evs generalizing st with
  | nil => exact Evolve.refl st
  | cons x xs ih => exact (trigger_evolve cfg hk x.1 x.2 st).trans (ih _)


/-! ### firing -/

theorem setPhase_quench (st st' : St) (i : Nat) (p : Phase) (hp : p ≠ .waiting)
    (hr : st'.runner = st.runner) (hn : st'.now = st.now) (ht : st'.timers = setPhase st.timers i p) :
    Quench st st' i :=
  ⟨hr, hn, fun t => { t with phase := p }, fun _ => ⟨rfl, rfl, rfl, hp⟩, fun j => by
    rw [ht]; exact getElem?_setPhase st.timers i j p⟩

theorem monOf_append (sp : Spec) (log rs : List Rec) : monOf sp (log ++ rs) = rs.foldl (mstep sp) (monOf sp log) := by
  simp [monOf, List.foldl_append]

/-- records that do not touch the timers: the invariant follows from what the acceptor does with them -/
theorem emits_good (cfg : Cfg) (hk : ∀ m, cfg.key m = m) (p p' : Nat → Nat → Bool) (st st' : St) (rs : List Rec) (g : Good cfg p st)
    (hr : st'.runner = st.runner) (hn : st'.now = st.now) (ht : st'.timers = st.timers) (hlog : st'.log = st.log ++ rs)
    (hok : (rs.foldl (mstep (specOf cfg)) (monOf (specOf cfg) st.log)).ok = true)
    (hnow : (rs.foldl (mstep (specOf cfg)) (monOf (specOf cfg) st.log)).now = (monOf (specOf cfg) st.log).now)
    (harmed : ∀ s m, (rs.foldl (mstep (specOf cfg)) (monOf (specOf cfg) st.log)).armed s m = (monOf (specOf cfg) st.log).armed s m)
    (hpend : ∀ s m, (rs.foldl (mstep (specOf cfg)) (monOf (specOf cfg) st.log)).pend s m = p' s m)
    (howed : ∀ s m, (rs.foldl (mstep (specOf cfg)) (monOf (specOf cfg) st.log)).owed s m = false) :
    Good cfg p' st' := by
  have ha : ∀ s m, armedOf st' s m = armedOf st s m := by intro s m; simp only [armedOf, hr, ht]
  refine ⟨by rw [hr, ht]; exact g.typed, by rw [hr, ht]; exact g.owned, by rw [hn, ht]; exact g.due, ?_, ?_, ?_, ?_, ?_⟩
  · rw [hlog, monOf_append]; exact hok
  · rw [hlog, monOf_append, hnow, hn]; exact g.now
  · intro s m; rw [hlog, monOf_append, harmed, ha]; exact g.armed s m
  · intro s m; rw [hlog, monOf_append]; exact hpend s m
  · intro s m; rw [hlog, monOf_append]; exact howed s m

theorem fireStart_good (cfg : Cfg) (hk : ∀ m, cfg.key m = m) (st : St) (i : Nat) (t : Timer) (hi : st.timers[i]? = some t)
    (hw : t.phase = .waiting) (hd : t.deadline ≤ st.now) (h : GoodIf cfg (fun _ _ => false) st) :
    GoodIf cfg (upd (fun _ _ => false) t.s t.m true)
      (({ st with timers := setPhase st.timers i .running }).emit (.fired t.m t.s)) := by
  intro hl
  have g := h hl
  have q : Quench st (({ st with timers := setPhase st.timers i .running }).emit (.fired t.m t.s)) i :=
    setPhase_quench _ _ i .running (by decide) rfl rfl rfl
  obtain ⟨t1, t2, t3⟩ := q.good_timers g
  have hrun : st.runner t.s t.m = some i := g.owned i t hi hw
  have hdl : t.deadline = st.now := Nat.le_antisymm hd (g.due i t hi hw)
  have hmon : monOf (specOf cfg) (({ st with timers := setPhase st.timers i .running }).emit (.fired t.m t.s)).log
      = mstep (specOf cfg) (monOf (specOf cfg) st.log) (.fired t.m t.s) := by
    simp only [St.emit, monOf_snoc]
  refine ⟨t1, t2, t3, ?_, ?_, ?_, ?_, ?_⟩
  · rw [hmon]
    simp only [mstep, g.ok, Bool.true_and, g.armed, g.now, armedOf, hrun, hi, hw, if_true, hdl, beq_self_eq_true]
  · rw [hmon]; exact g.now
  · intro s' m'
    rw [hmon, q.armedOf g.typed]
    simp only [mstep, upd]
    by_cases hk : s' = t.s ∧ m' = t.m
    · simp only [hk, and_self, if_true, hrun]
    · simp only [hk, if_false]
      have hne : ¬ st.runner s' m' = some i := by
        intro hc
        obtain ⟨t', ht', hs, hm⟩ := g.typed s' m' i hc
        rw [hi] at ht'
        cases ht'
        exact hk ⟨hs.symm, hm.symm⟩
      simp only [hne, if_false]
      exact g.armed s' m'
  · intro s' m'
    rw [hmon]
    simp only [mstep, upd, g.pend]
  · intro s' m'
    rw [hmon]; exact g.owed s' m'

theorem handlerEnd_good (cfg : Cfg) (hk : ∀ m, cfg.key m = m) (m s : Nat) (r : Bool) (st : St)
    (h : GoodIf cfg (upd (fun _ _ => false) s m true) st) :
    GoodIf cfg (fun _ _ => false) (handlerEnd cfg m s r st) := by
  unfold handlerEnd
  by_cases hr : (cfg.raises s || r) = true
  · by_cases hro : (cfg.async && cfg.onExc) = true
    · simp only [hr, hro, if_true]
      intro hl
      have g := h hl
      have hp : (monOf (specOf cfg) st.log).pend s m = true := by rw [g.pend]; simp [upd]
      refine emits_good cfg hk _ _ st _ [.raised m s, .routed m s] g rfl rfl rfl (by simp [St.emit]) ?_ ?_ ?_ ?_ ?_
      · simp [mstep, g.ok, hp, upd, hro]
      · simp [mstep]
      · intro s' m'; simp [mstep]
      · intro s' m'
        simp only [List.foldl_cons, List.foldl_nil, mstep, upd, g.pend]
        by_cases hk : s' = s ∧ m' = m <;> simp [hk]
      · intro s' m'
        simp only [List.foldl_cons, List.foldl_nil, mstep, upd, g.owed]
        by_cases hk : s' = s ∧ m' = m <;> simp [hk]
    · have hro' : (cfg.async && cfg.onExc) = false := by simpa using hro
      simp only [hr, hro', if_true, Bool.false_eq_true, if_false]
      intro hl
      have g := h hl
      have hp : (monOf (specOf cfg) st.log).pend s m = true := by rw [g.pend]; simp [upd]
      refine emits_good cfg hk _ _ st _ [.raised m s] g rfl rfl rfl (by simp [St.emit]) ?_ ?_ ?_ ?_ ?_
      · simp [mstep, g.ok, hp]
      · simp [mstep]
      · intro s' m'; simp [mstep]
      · intro s' m'
        simp only [List.foldl_cons, List.foldl_nil, mstep, upd, g.pend]
        by_cases hk : s' = s ∧ m' = m <;> simp [hk]
      · intro s' m'
        simp only [List.foldl_cons, List.foldl_nil, mstep, upd, g.owed, specOf_routes, hro']
        by_cases hk : s' = s ∧ m' = m <;> simp [hk]
  · have hr' : (cfg.raises s || r) = false := by simpa using hr
    simp only [hr', Bool.false_eq_true, if_false]
    intro hl
    have g := h hl
    have hp : (monOf (specOf cfg) st.log).pend s m = true := by rw [g.pend]; simp [upd]
    refine emits_good cfg hk _ _ st _ [.firedEnd m s] g rfl rfl rfl (by simp [St.emit]) ?_ ?_ ?_ ?_ ?_
    · simp [mstep, g.ok, hp]
    · simp [mstep]
    · intro s' m'; simp [mstep]
    · intro s' m'
      simp only [List.foldl_cons, List.foldl_nil, mstep, upd, g.pend]
      by_cases hk : s' = s ∧ m' = m <;> simp [hk]
    · intro s' m'
      simp only [List.foldl_cons, List.foldl_nil, mstep, g.owed]

theorem handlerEnd_evolve (cfg : Cfg) (hk : ∀ m, cfg.key m = m) (m s : Nat) (r : Bool) (st : St) : Evolve st (handlerEnd cfg m s r st) := by
  unfold handlerEnd
  split
  · split <;> exact Evolve.of_eq rfl rfl
  · exact Evolve.of_eq rfl rfl

theorem fireEnd_good (cfg : Cfg) (hk : ∀ m, cfg.key m = m) (p : Nat → Nat → Bool) (st : St) (i : Nat)
    (hnw : ∀ t, st.timers[i]? = some t → t.phase ≠ .waiting) (h : GoodIf cfg p st) :
    GoodIf cfg p { st with timers := setPhase st.timers i .finished } := by
  intro hl
  have g := h hl
  have q : Quench st { st with timers := setPhase st.timers i .finished } i :=
    setPhase_quench _ _ i .finished (by decide) rfl rfl rfl
  obtain ⟨t1, t2, t3⟩ := q.good_timers g
  refine ⟨t1, t2, t3, g.ok, g.now, ?_, g.pend, g.owed⟩
  intro s m
  rw [q.armedOf g.typed]
  by_cases hc : st.runner s m = some i
  · simp only [hc, if_true]
    rw [g.armed]
    obtain ⟨t, ht, _, _⟩ := g.typed s m i hc
    simp [armedOf, hc, ht, hnw t ht]
  · simp only [hc, if_false]; exact g.armed s m


abbrev F : Nat → Nat → Bool := fun _ _ => false

/-- the state in which the handler of timer `i` runs -/
def fireStart (st : St) (i : Nat) (t : Timer) : St :=
  ({ st with timers := setPhase st.timers i .running }).emit (.fired t.m t.s)

/-- an exception escapes from the event the handler triggers -/
def handlerRaises (cfg : Cfg) (st : St) (i : Nat) (t : Timer) : Bool :=
  match cfg.action t.s with
  | some e => triggerRaises cfg t.m e (fireStart st i t)
  | none => false

/-- the state in which the handler ends (before the timer is marked finished) -/
def fireBody (cfg : Cfg) (st : St) (i : Nat) (t : Timer) : St :=
  handlerEnd cfg t.m t.s (handlerRaises cfg st i t)
    (match cfg.action t.s with
      | some e => trigger cfg t.m e (fireStart st i t)
      | none => fireStart st i t)

theorem fire_eq (cfg : Cfg) (hk : ∀ m, cfg.key m = m) (i : Nat) (st : St) (t : Timer) (hi : st.timers[i]? = some t) (hw : t.phase = .waiting) :
    fire cfg i st = { fireBody cfg st i t with timers := setPhase (fireBody cfg st i t).timers i .finished } := by
  unfold fire
  simp only [hi, hw, if_true, fireBody, fireStart, handlerRaises]
  cases cfg.action t.s <;> rfl

theorem fireStart_evolve (st : St) (i : Nat) (t : Timer) : Evolve st (fireStart st i t) :=
  (setPhase_quench st (fireStart st i t) i .running (by decide) rfl rfl rfl).evolve

theorem fireBody_evolve (cfg : Cfg) (hk : ∀ m, cfg.key m = m) (st : St) (i : Nat) (t : Timer) : Evolve st (fireBody cfg st i t) := by
  unfold fireBody
  cases cfg.action t.s with
  | none => exact (fireStart_evolve st i t).trans (handlerEnd_evolve cfg hk _ _ _ _)
  | some e => exact ((fireStart_evolve st i t).trans (trigger_evolve cfg hk _ _ _)).trans (handlerEnd_evolve cfg hk _ _ _ _)

/-- at the end of the handler its timer is (still) not waiting -/
theorem fireBody_notWaiting (cfg : Cfg) (hk : ∀ m, cfg.key m = m) (st : St) (i : Nat) (t : Timer) (hi : st.timers[i]? = some t) :
    ∀ t', (fireBody cfg st i t).timers[i]? = some t' → t'.phase ≠ .waiting := by
  have h0 : (fireStart st i t).timers[i]? = some { t with phase := .running } := by
    simp [fireStart, St.emit, getElem?_setPhase, hi]
  have ev : Evolve (fireStart st i t) (fireBody cfg st i t) := by
    unfold fireBody
    cases cfg.action t.s with
    | none => exact handlerEnd_evolve cfg hk _ _ _ _
    | some e => exact (trigger_evolve cfg hk _ _ _).trans (handlerEnd_evolve cfg hk _ _ _ _)
  intro t' ht'
  obtain ⟨t2, ht2, _, _, _, hw2⟩ := ev.old i _ h0
  rw [ht'] at ht2
  cases ht2
  exact hw2 (by simp)

theorem fire_evolve (cfg : Cfg) (hk : ∀ m, cfg.key m = m) (i : Nat) (st : St) : Evolve st (fire cfg i st) := by
  cases hi : st.timers[i]? with
  | none => unfold fire; simp only [hi]; exact Evolve.refl st
  | some t =>
    by_cases hw : t.phase = .waiting
    · rw [fire_eq cfg hk i st t hi hw]
      have q : Quench (fireBody cfg st i t)
          { fireBody cfg st i t with timers := setPhase (fireBody cfg st i t).timers i .finished } i :=
        setPhase_quench _ _ i .finished (by decide) rfl rfl rfl
      exact (fireBody_evolve cfg hk st i t).trans q.evolve
    · unfold fire; simp only [hi, hw, if_false]; exact Evolve.refl st

theorem fireIfDue_evolve (cfg : Cfg) (hk : ∀ m, cfg.key m = m) (i : Nat) (st : St) : Evolve st (fireIfDue cfg i st) := by
  unfold fireIfDue
  split
  · split
    · exact fire_evolve cfg hk i st
    · exact Evolve.refl st
  · exact Evolve.refl st

theorem fireIfDue_good (cfg : Cfg) (hk : ∀ m, cfg.key m = m) (i : Nat) (st : St) (h : GoodIf cfg F st) : GoodIf cfg F (fireIfDue cfg i st) := by
  unfold fireIfDue
  cases hi : st.timers[i]? with
  | none => exact h
  | some t =>
    by_cases hc : t.phase = .waiting ∧ t.deadline ≤ st.now
    · simp only [hc, and_self, if_true]
      rw [fire_eq cfg hk i st t hi hc.1]
      apply fireEnd_good cfg hk F _ i (fireBody_notWaiting cfg hk st i t hi)
      unfold fireBody
      apply handlerEnd_good cfg hk
      have h1 := fireStart_good cfg hk st i t hi hc.1 hc.2 h
      cases cfg.action t.s with
      | none => exact h1
      | some e => exact trigger_good cfg hk _ _ _ _ h1
    · simp only [hc, if_false]; exact h

/-! ### time -/

/-- between operations no waiting timer is due -/
def Quiet (st : St) : Prop := ∀ (i : Nat) (t : Timer), st.timers[i]? = some t → t.phase = .waiting → st.now < t.deadline

theorem Quiet.evolve {st st' : St} (q : Quiet st) (e : Evolve st st') : Quiet st' := by
  intro i t' hi hw
  rw [e.now]
  by_cases hlt : i < st.timers.length
  · obtain ⟨t, ht⟩ : ∃ t, st.timers[i]? = some t := ⟨st.timers[i], List.getElem?_eq_getElem hlt⟩
    obtain ⟨t2, ht2, d2, _, _, w2⟩ := e.old i t ht
    rw [hi] at ht2
    cases ht2
    rw [d2]
    apply q i t ht
    apply Classical.byContradiction
    intro hnw
    exact w2 hnw hw
  · exact e.new i t' hi (Nat.le_of_not_lt hlt)

/-- while the due timers are being fired: every waiting timer that is due is still in the work list -/
def LoopInv (idxs : List Nat) (st : St) : Prop :=
  ∀ (i : Nat) (t : Timer), st.timers[i]? = some t → t.phase = .waiting → t.deadline ≤ st.now → i ∈ idxs

theorem fireIfDue_notDue (cfg : Cfg) (hk : ∀ m, cfg.key m = m) (k : Nat) (st : St) (t : Timer) (hkk : (fireIfDue cfg k st).timers[k]? = some t)
    (hw : t.phase = .waiting) : ¬ t.deadline ≤ (fireIfDue cfg k st).now := by
  unfold fireIfDue at hkk ⊢
  cases hi : st.timers[k]? with
  | none => simp only [hi] at hkk; cases hkk
  | some t0 =>
    by_cases hc : t0.phase = .waiting ∧ t0.deadline ≤ st.now
    · simp only [hi, hc, and_self, if_true] at hkk
      rw [fire_eq cfg hk k st t0 hi hc.1] at hkk
      simp only [getElem?_setPhase, if_true] at hkk
      cases hb : (fireBody cfg st k t0).timers[k]? with
      | none => simp [hb] at hkk
      | some tb =>
        simp only [hb, Option.map_some, Option.some.injEq] at hkk
        subst hkk
        cases hw
    · simp only [hi, hc, if_false] at hkk ⊢
      cases hkk
      intro hd
      exact hc ⟨hw, hd⟩

theorem LoopInv.step (cfg : Cfg) (hk : ∀ m, cfg.key m = m) (k : Nat) (rest : List Nat) (st : St) (h : LoopInv (k :: rest) st) :
    LoopInv rest (fireIfDue cfg k st) := by
  have e := fireIfDue_evolve cfg hk k st
  intro i t' hi hw hd
  by_cases hik : i = k
  · subst hik
    exact absurd hd (fireIfDue_notDue cfg hk i st t' hi hw)
  · by_cases hlt : i < st.timers.length
    · obtain ⟨t, ht⟩ : ∃ t, st.timers[i]? = some t := ⟨st.timers[i], List.getElem?_eq_getElem hlt⟩
      obtain ⟨t2, ht2, d2, _, _, w2⟩ := e.old i t ht
      rw [hi] at ht2
      cases ht2
      have hwt : t.phase = .waiting := by
        apply Classical.byContradiction
        intro hnw
        exact w2 hnw hw
      have := h i t ht hwt (by rw [← d2, ← e.now]; exact hd)
      cases this with
      | head => exact absurd rfl hik
      | tail _ hm => exact hm
    · have := e.new i t' hi (Nat.le_of_not_lt hlt)
      rw [e.now] at hd
      omega

theorem fireAll_quiet (cfg : Cfg) (hk : ∀ m, cfg.key m = m) (idxs : List Nat) (st : St) (h : LoopInv idxs st) : Quiet (fireAll cfg idxs st) := by
  induction idxs generalizing st with
  | nil =>
    intro i t hi hw
    apply Nat.lt_of_not_le
    intro hd
    have := h i t hi hw hd
    cases this
  | cons k rest ih => exact ih _ (LoopInv.step cfg hk k rest st h)

theorem fireAll_good (cfg : Cfg) (hk : ∀ m, cfg.key m = m) (idxs : List Nat) (st : St) (h : GoodIf cfg F st) : GoodIf cfg F (fireAll cfg idxs st) := by
  induction idxs generalizing st with
  | nil => exact h
  | cons k rest ih => exact ih _ (fireIfDue_good cfg hk k st h)

/-- what the acceptor checks before time may pass (and at the end of the observation) -/
theorem quiet_of (cfg : Cfg) (hk : ∀ m, cfg.key m = m) (st : St) (g : Good cfg F st) (q : Quiet st) : quiet (monOf (specOf cfg) st.log) = true := by
  unfold quiet
  rw [List.all_eq_true]
  intro k _
  rw [g.armed, g.pend, g.owed, g.now]
  simp only [Bool.not_false, Bool.and_true]
  unfold armedOf
  cases hr : st.runner k.1 k.2 with
  | none => rfl
  | some i =>
    cases ht : st.timers[i]? with
    | none => simp only [ht]
    | some t =>
      by_cases hw : t.phase = .waiting
      · simp only [ht, hw, if_true, decide_eq_true_eq]; exact q i t ht hw
      · simp only [ht, hw, if_false]

theorem tick_start_good (cfg : Cfg) (hk : ∀ m, cfg.key m = m) (st : St) (q : Quiet st) (h : GoodIf cfg F st) :
    GoodIf cfg F (({ st with now := st.now + 1 }).emit .tick) := by
  intro hl
  have g := h hl
  have hq := quiet_of cfg hk st g q
  have hmon : monOf (specOf cfg) (({ st with now := st.now + 1 }).emit .tick).log
      = mstep (specOf cfg) (monOf (specOf cfg) st.log) .tick := by simp only [St.emit, monOf_snoc]
  refine ⟨g.typed, g.owned, ?_, ?_, ?_, ?_, ?_, ?_⟩
  · intro i t hi hw
    exact q i t hi hw
  · rw [hmon]; simp only [mstep, g.ok, hq, Bool.and_self]
  · rw [hmon]; simp only [mstep, g.now]; rfl
  · intro s m; rw [hmon]; simp only [mstep]; exact g.armed s m
  · intro s m; rw [hmon]; simp only [mstep]; exact g.pend s m
  · intro s m; rw [hmon]; simp only [mstep]; exact g.owed s m

theorem tickOp_good (cfg : Cfg) (hk : ∀ m, cfg.key m = m) (early : List (Nat × Nat)) (st : St) (q : Quiet st) (h : GoodIf cfg F st) :
    GoodIf cfg F (tickOp cfg early st) := by
  unfold tickOp
  exact fireAll_good cfg hk _ _ (triggers_good cfg hk F early _ (tick_start_good cfg hk st q h))

theorem tickOp_quiet (cfg : Cfg) (hk : ∀ m, cfg.key m = m) (early : List (Nat × Nat)) (st : St) : Quiet (tickOp cfg early st) := by
  unfold tickOp
  apply fireAll_quiet cfg hk
  intro i t hi _ _
  exact List.mem_range.mpr (List.getElem?_eq_some_iff.mp hi).1

theorem step_good (cfg : Cfg) (hk : ∀ m, cfg.key m = m) (op : Op) (st : St) (q : Quiet st) (h : GoodIf cfg F st) : GoodIf cfg F (step cfg st op) := by
  cases op with
  | tick early => exact tickOp_good cfg hk early st q h
  | ev m e => exact trigger_good cfg hk F m e st h

theorem step_quiet (cfg : Cfg) (hk : ∀ m, cfg.key m = m) (op : Op) (st : St) (q : Quiet st) : Quiet (step cfg st op) := by
  cases op with
  | tick early => exact tickOp_quiet cfg hk early st
  | ev m e => exact q.evolve (trigger_evolve cfg hk m e st)

theorem run_inv (cfg : Cfg) (hk : ∀ m, cfg.key m = m) (h : List Op) (st : St) (q : Quiet st) (g : GoodIf cfg F st) :
    Quiet (run cfg h st) ∧ GoodIf cfg F (run cfg h st) := by
  induction h generalizing st with
  | nil => exact ⟨q, g⟩
  | cons op rest ih => exact ih _ (step_quiet cfg hk op st q) (step_good cfg hk op st q g)

theorem init_good (cfg : Cfg) (hk : ∀ m, cfg.key m = m) (cur : Nat → Nat) : Good cfg F (St.init cur) := by
  refine ⟨?_, ?_, ?_, rfl, rfl, ?_, ?_, ?_⟩
  · intro s m i hi; simp [St.init] at hi
  · intro i t hi; simp [St.init] at hi
  · intro i t hi; simp [St.init] at hi
  · intro s m; rfl
  · intro s m; rfl
  · intro s m; rfl

theorem init_quiet (cur : Nat → Nat) : Quiet (St.init cur) := by
  intro i t hi; simp [St.init] at hi


/-! ### declarative readings of the acceptor (any trace, in particular the implementation's) -/

theorem mstep_ok (sp : Spec) (μ : Mon) (r : Rec) (h : (mstep sp μ r).ok = true) : μ.ok = true := by
  cases r with
  | enter m s =>
    simp only [mstep] at h
    split at h <;> exact h
  | exit m s => exact h
  | tick | fired m s | firedEnd m s | raised m s | routed m s =>
    simp only [mstep, Bool.and_eq_true] at h
    exact h.1

theorem fold_ok (sp : Spec) (l : List Rec) (μ : Mon) (h : (l.foldl (mstep sp) μ).ok = true) : μ.ok = true := by
  induction l generalizing μ with
  | nil => exact h
  | cons r l ih => exact mstep_ok sp μ r (ih _ h)

theorem ok_prefix (sp : Spec) (a b : List Rec) (h : (monOf sp (a ++ b)).ok = true) : (monOf sp a).ok = true := by
  rw [monOf_append] at h
  exact fold_ok sp b _ h

theorem ticks_cons (r : Rec) (l : List Rec) : ticks (r :: l) = (if r = .tick then 1 else 0) + ticks l := by
  unfold ticks
  by_cases h : r = .tick
  · simp [h]; omega
  · simp [h]

theorem ticks_append (a b : List Rec) : ticks (a ++ b) = ticks a + ticks b := by
  simp [ticks, List.filter_append]

theorem mstep_now (sp : Spec) (μ : Mon) (r : Rec) : (mstep sp μ r).now = μ.now + (if r = .tick then 1 else 0) := by
  cases r with
  | enter m s => simp only [mstep]; split <;> simp
  | tick | exit m s | fired m s | firedEnd m s | raised m s | routed m s => simp [mstep]

theorem fold_now (sp : Spec) (l : List Rec) (μ : Mon) : (l.foldl (mstep sp) μ).now = μ.now + ticks l := by
  induction l generalizing μ with
  | nil => simp [ticks]
  | cons r l ih => rw [List.foldl_cons, ih, mstep_now, ticks_cons]; omega

theorem monOf_now (sp : Spec) (l : List Rec) : (monOf sp l).now = ticks l := by
  unfold monOf; rw [fold_now]; simp [Mon.init]

/-- a record that is not an enter / exit / firing of (m, s) leaves its deadline alone -/
theorem mstep_armed_other (sp : Spec) (μ : Mon) (r : Rec) (m s : Nat)
    (h1 : r ≠ .enter m s ∨ sp.timeout s = 0) (h2 : r ≠ .exit m s) (h3 : r ≠ .fired m s) :
    (mstep sp μ r).armed s m = μ.armed s m := by
  cases r with
  | enter m' s' =>
    simp only [mstep]
    split
    · rename_i hT
      simp only [upd]
      by_cases hk : s = s' ∧ m = m'
      · exfalso
        obtain ⟨rfl, rfl⟩ := hk
        cases h1 with
        | inl h => exact h rfl
        | inr h => omega
      · simp [hk]
    · rfl
  | exit m' s' =>
    simp only [mstep, upd]
    by_cases hk : s = s' ∧ m = m'
    · exfalso; obtain ⟨rfl, rfl⟩ := hk; exact h2 rfl
    · simp [hk]
  | fired m' s' =>
    simp only [mstep, upd]
    by_cases hk : s = s' ∧ m = m'
    · exfalso; obtain ⟨rfl, rfl⟩ := hk; exact h3 rfl
    · simp [hk]
  | tick | firedEnd m' s' | raised m' s' | routed m' s' => rfl

theorem mstep_armed_exit (sp : Spec) (μ : Mon) (m s : Nat) : (mstep sp μ (.exit m s)).armed s m = none := by
  simp [mstep, upd]

theorem mstep_armed_fired (sp : Spec) (μ : Mon) (m s : Nat) : (mstep sp μ (.fired m s)).armed s m = none := by
  simp [mstep, upd]

/-- not armed, and not entered: stays not armed -/
theorem none_stays (sp : Spec) (m s : Nat) (l : List Rec) (μ : Mon) (h0 : μ.armed s m = none)
    (hl : ∀ r ∈ l, r ≠ .enter m s) : (l.foldl (mstep sp) μ).armed s m = none := by
  induction l generalizing μ with
  | nil => exact h0
  | cons r l ih =>
    apply ih
    · by_cases h2 : r = .exit m s
      · subst h2; exact mstep_armed_exit sp μ m s
      · by_cases h3 : r = .fired m s
        · subst h3; exact mstep_armed_fired sp μ m s
        · rw [mstep_armed_other sp μ r m s (Or.inl (hl r (List.mem_cons_self))) h2 h3]; exact h0
    · intro r' hr'; exact hl r' (List.mem_cons_of_mem _ hr')

/-- a firing is rejected when the state was left (or has fired) and not been entered again -/
theorem fired_needs_enter (sp : Spec) (m s : Nat) (pre mid post : List Rec) (r0 : Rec)
    (hr0 : r0 = .exit m s ∨ r0 = .fired m s)
    (h : (monOf sp (pre ++ r0 :: (mid ++ .fired m s :: post))).ok = true) : .enter m s ∈ mid := by
  apply Classical.byContradiction
  intro hn
  have e : pre ++ r0 :: (mid ++ .fired m s :: post) = (pre ++ [r0]) ++ mid ++ [.fired m s] ++ post := by simp
  rw [e] at h
  have h1 := ok_prefix sp _ _ h
  rw [monOf_snoc, monOf_append, monOf_snoc] at h1
  have hnone : (mid.foldl (mstep sp) (mstep sp (monOf sp pre) r0)).armed s m = none := by
    apply none_stays
    · cases hr0 with
      | inl h => subst h; exact mstep_armed_exit sp _ m s
      | inr h => subst h; exact mstep_armed_fired sp _ m s
    · intro r hr he; subst he; exact hn hr
  generalize mid.foldl (mstep sp) (mstep sp (monOf sp pre) r0) = μ at h1 hnone
  simp [mstep, hnone] at h1

/-- weaker cleanliness used while searching for the arming entry -/
def Weak (sp : Spec) (m s : Nat) (l : List Rec) : Prop :=
  ∀ r ∈ l, r ≠ .exit m s ∧ r ≠ .fired m s ∧ (r = .enter m s → sp.timeout s = 0)

theorem armed_origin (sp : Spec) (m s : Nat) (l : List Rec) (μ0 : Mon) (d : Nat)
    (h : (l.foldl (mstep sp) μ0).armed s m = some d) :
    (μ0.armed s m = some d ∧ Weak sp m s l) ∨
    ∃ l1 mid, l = l1 ++ .enter m s :: mid ∧ 0 < sp.timeout s ∧ Clean m s mid ∧
      d = (l1.foldl (mstep sp) μ0).now + sp.timeout s := by
  induction l generalizing μ0 with
  | nil => exact Or.inl ⟨h, fun r hr => by cases hr⟩
  | cons r l ih =>
    rw [List.foldl_cons] at h
    cases ih _ h with
    | inr hx =>
      obtain ⟨l1, mid, e, hT, hc, hd⟩ := hx
      exact Or.inr ⟨r :: l1, mid, by rw [e]; rfl, hT, hc, hd⟩
    | inl hx =>
      obtain ⟨ha, hw⟩ := hx
      by_cases h2 : r = .exit m s
      · subst h2; rw [mstep_armed_exit] at ha; cases ha
      · by_cases h3 : r = .fired m s
        · subst h3; rw [mstep_armed_fired] at ha; cases ha
        · by_cases h1 : r = .enter m s
          · subst h1
            by_cases hT : 0 < sp.timeout s
            · right
              refine ⟨[], l, rfl, hT, ?_, ?_⟩
              · intro r' hr'
                obtain ⟨a, b, c⟩ := hw r' hr'
                exact ⟨fun he => by have := c he; omega, a, b⟩
              · simp only [mstep, hT, if_true, upd, and_self] at ha
                simp only [List.foldl_nil]
                exact (Option.some.inj ha).symm
            · left
              have h0 : sp.timeout s = 0 := by omega
              rw [mstep_armed_other sp μ0 _ m s (Or.inr h0) h2 h3] at ha
              refine ⟨ha, ?_⟩
              intro r' hr'
              cases hr' with
              | head => exact ⟨h2, h3, fun _ => h0⟩
              | tail _ hm => exact hw r' hm
          · left
            rw [mstep_armed_other sp μ0 r m s (Or.inl h1) h2 h3] at ha
            refine ⟨ha, ?_⟩
            intro r' hr'
            cases hr' with
            | head => exact ⟨h2, h3, fun he => absurd he h1⟩
            | tail _ hm => exact hw r' hm

theorem keys_mono (sp : Spec) (μ : Mon) (r : Rec) (k : Nat × Nat) (h : k ∈ μ.keys) : k ∈ (mstep sp μ r).keys := by
  cases r with
  | enter m s => simp only [mstep]; split <;> simp [h]
  | fired m s => simp [mstep, h]
  | tick | exit m s | firedEnd m s | raised m s | routed m s => exact h

theorem quiet_armed (μ : Mon) (s m D : Nat) (hq : quiet μ = true) (hk : (s, m) ∈ μ.keys) (ha : μ.armed s m = some D) :
    μ.now < D := by
  unfold quiet at hq
  rw [List.all_eq_true] at hq
  have := hq (s, m) hk
  simp only [ha, Bool.and_eq_true, decide_eq_true_eq] at this
  exact this.1.1

/-- while (m, s) stays entered, accepted time cannot pass its deadline -/
theorem due_inv (sp : Spec) (m s D : Nat) (l : List Rec) (μ : Mon) (ha : μ.armed s m = some D)
    (hk : (s, m) ∈ μ.keys) (hn : μ.now ≤ D) (hc : Clean m s l) (hok : (l.foldl (mstep sp) μ).ok = true) :
    (l.foldl (mstep sp) μ).armed s m = some D ∧ (s, m) ∈ (l.foldl (mstep sp) μ).keys ∧
    (l.foldl (mstep sp) μ).now ≤ D := by
  induction l generalizing μ with
  | nil => exact ⟨ha, hk, hn⟩
  | cons r l ih =>
    rw [List.foldl_cons] at hok ⊢
    obtain ⟨c1, c2, c3⟩ := hc r (List.mem_cons_self)
    apply ih
    · rw [mstep_armed_other sp μ r m s (Or.inl c1) c2 c3]; exact ha
    · exact keys_mono sp μ r _ hk
    · rw [mstep_now]
      by_cases ht : r = .tick
      · subst ht
        have h1 := fold_ok sp l _ hok
        simp only [mstep, Bool.and_eq_true] at h1
        have := quiet_armed μ s m D h1.2 hk ha
        simp; omega
      · simp [ht]; exact hn
    · intro r' hr'; exact hc r' (List.mem_cons_of_mem _ hr')
    · exact hok


/-! ### frame: what an operation on model `m` leaves untouched for another model `m'` -/

/-- the view of model `m'`: its state, the timers in its runner slots (by value), its records;
plus the typing invariant so that frames compose -/
structure Frame (m' : Nat) (st st' : St) : Prop where
  cur : st'.cur m' = st.cur m'
  slot : ∀ s, slot st' s m' = slot st s m'
  log : ∃ seg, st'.log = st.log ++ seg ∧ ∀ r ∈ seg, recModel r ≠ some m'
  typed : Typed st'

theorem Frame.refl (m' : Nat) (st : St) (h : Typed st) : Frame m' st st :=
  ⟨rfl, fun _ => rfl, ⟨[], by simp, fun _ hr => by cases hr⟩, h⟩

theorem Frame.trans {m' : Nat} {a b c : St} (h1 : Frame m' a b) (h2 : Frame m' b c) : Frame m' a c := by
  obtain ⟨s1, e1, f1⟩ := h1.log
  obtain ⟨s2, e2, f2⟩ := h2.log
  refine ⟨h2.cur.trans h1.cur, fun s => (h2.slot s).trans (h1.slot s), ⟨s1 ++ s2, by rw [e2, e1]; simp, ?_⟩, h2.typed⟩
  intro r hr
  cases List.mem_append.mp hr with
  | inl h => exact f1 r h
  | inr h => exact f2 r h

theorem Quench.slot_other {st st' : St} {i : Nat} (q : Quench st st' i) (hty : Typed st) (t : Timer)
    (hi : st.timers[i]? = some t) (m' : Nat) (hm : t.m ≠ m') (s : Nat) : slot st' s m' = slot st s m' := by
  obtain ⟨f, _, hts⟩ := q.timers
  unfold C17.slot
  rw [q.runner]
  cases hr : st.runner s m' with
  | none => rfl
  | some j =>
    simp only [Option.bind_some]
    rw [hts]
    by_cases hji : j = i
    · exfalso
      subst hji
      obtain ⟨t', ht', _, hm'⟩ := hty s m' j hr
      rw [hi] at ht'
      cases ht'
      exact hm hm'
    · simp [hji]

theorem tExit_frame (cfg : Cfg) (hk : ∀ m, cfg.key m = m) (m m' s : Nat) (st : St) (hne : m ≠ m') (hty : Typed st) : Frame m' st (tExit cfg m s st) := by
  obtain ⟨h1, h2, _, h4, h5⟩ := tExit_fields cfg hk m s st
  have hcur : (tExit cfg m s st).cur = st.cur := by
    unfold tExit
    rw [hk m]
    cases hr : st.runner s m with
    | none => rfl
    | some i =>
      cases ht : st.timers[i]? with
      | none => simp [St.emit, ht]
      | some t =>
        by_cases ha : t.isAlive = true
        · simp [St.emit, ht, ha]
        · simp [St.emit, ht, ha]
  have hlog : ∃ seg, (tExit cfg m s st).log = st.log ++ seg ∧ ∀ r ∈ seg, recModel r ≠ some m' :=
    ⟨[.exit m s], h4, fun r hr => by
      simp only [List.mem_singleton] at hr; subst hr; simp [recModel, hne]⟩
  cases hr : st.runner s m with
  | none =>
    rw [hr] at h5
    refine ⟨by rw [hcur], ?_, hlog, ?_⟩
    · intro s'; simp only [C17.slot, h1, h5]
    · intro s' m'' i hi; rw [h1] at hi; rw [h5]; exact hty s' m'' i hi
  | some i =>
    have q := tExit_quench cfg hk m s st i hr
    obtain ⟨t, ht, _, hm⟩ := hty s m i hr
    exact ⟨by rw [hcur], q.slot_other hty t ht m' (by rw [hm]; exact hne), hlog, q.typed hty⟩

theorem tEnter_typed (cfg : Cfg) (hk : ∀ m, cfg.key m = m) (m s : Nat) (st : St) (hty : Typed st) : Typed (tEnter cfg m s st) := by
  unfold tEnter
  rw [hk m]
  by_cases hT : 0 < cfg.timeout s
  · simp only [hT, if_true]
    intro s' m' i hi
    simp only at hi
    by_cases hk : s' = s ∧ m' = m
    · simp only [hk, and_self, if_true, Option.some.injEq] at hi
      subst hi
      exact ⟨{ deadline := st.now + cfg.timeout s, m := m, s := s, phase := .waiting }, by simp, hk.1.symm, hk.2.symm⟩
    · simp only [hk, if_false] at hi
      obtain ⟨t, ht, hs, hm⟩ := hty s' m' i hi
      have hlt : i < st.timers.length := (List.getElem?_eq_some_iff.mp ht).1
      exact ⟨t, by simp [List.getElem?_append_left hlt, ht], hs, hm⟩
  · simp only [hT, if_false]
    exact hty

theorem tEnter_frame (cfg : Cfg) (hk : ∀ m, cfg.key m = m) (m m' s : Nat) (st : St) (hne : m ≠ m') (hty : Typed st) :
    Frame m' st (tEnter cfg m s st) := by
  have hty' := tEnter_typed cfg hk m s st hty
  have hlog : ∃ seg, (tEnter cfg m s st).log = st.log ++ seg ∧ ∀ r ∈ seg, recModel r ≠ some m' :=
    ⟨[.enter m s], by unfold tEnter; split <;> rfl, fun r hr => by
      simp only [List.mem_singleton] at hr; subst hr; simp [recModel, hne]⟩
  refine ⟨by unfold tEnter; split <;> rfl, ?_, hlog, hty'⟩
  intro s'
  unfold tEnter
  rw [hk m]
  by_cases hT : 0 < cfg.timeout s
  · simp only [hT, if_true, C17.slot]
    have hk : ¬ (s' = s ∧ m' = m) := fun h => hne h.2.symm
    simp only [hk, if_false]
    cases hr : st.runner s' m' with
    | none => rfl
    | some j =>
      obtain ⟨t, ht, _, _⟩ := hty s' m' j hr
      have hlt : j < st.timers.length := (List.getElem?_eq_some_iff.mp ht).1
      simp [List.getElem?_append_left hlt]
  · simp only [hT, if_false]; rfl

theorem act_frame (cfg : Cfg) (hk : ∀ m, cfg.key m = m) (m m' : Nat) (a : Bool × Nat) (st : St) (hne : m ≠ m') (hty : Typed st) :
    Frame m' st (act cfg m st a) := by
  unfold act
  split
  · exact tEnter_frame cfg hk m m' a.2 st hne hty
  · exact tExit_frame cfg hk m m' a.2 st hne hty

theorem acts_frame (cfg : Cfg) (hk : ∀ m, cfg.key m = m) (m m' : Nat) (prog : List (Bool × Nat)) (st : St) (hne : m ≠ m') (hty : Typed st) :
    Frame m' st (acts cfg m prog st) := by
  induction prog generalizing st with
  | nil => exact Frame.refl m' st hty
  | cons x xs ih =>
    have f1 := act_frame cfg hk m m' x st hne hty
    exact f1.trans (ih _ f1.typed)

theorem trigger_frame (cfg : Cfg) (hk : ∀ m, cfg.key m = m) (m m' e : Nat) (st : St) (hne : m ≠ m') (hty : Typed st) :
    Frame m' st (trigger cfg m e st) := by
  unfold trigger
  split
  · exact Frame.refl m' st hty
  · exact Frame.refl m' st hty
  · rename_i prog d _ _
    have f1 := acts_frame cfg hk m m' prog st hne hty
    have f2 : Frame m' (acts cfg m prog st)
        { acts cfg m prog st with cur := fun m'' => if m'' = m then d else (acts cfg m prog st).cur m'' } :=
      ⟨by have hmm : ¬ m' = m := fun h => hne h.symm
          simp [hmm], fun _ => rfl, ⟨[], by simp, fun _ hr => by cases hr⟩, f1.typed⟩
    exact f1.trans f2

/-- every operation only appends to the log -/
theorem trigger_log (cfg : Cfg) (hk : ∀ m, cfg.key m = m) (m e : Nat) (st : St) : ∃ seg, (trigger cfg m e st).log = st.log ++ seg := by
  have ha : ∀ a st, ∃ seg, (act cfg m st a).log = st.log ++ seg := by
    intro a st
    unfold act
    split
    · exact ⟨[.enter m a.2], by unfold tEnter; split <;> rfl⟩
    · exact ⟨[.exit m a.2], (tExit_fields cfg hk m a.2 st).2.2.2.1⟩
  have hx : ∀ prog st, ∃ seg, (acts cfg m prog st).log = st.log ++ seg := by
    intro prog
    induction prog with
    | nil => intro st; exact ⟨[], by simp [acts]⟩
    | cons x xs ih =>
      intro st
      obtain ⟨s1, h1⟩ := ha x st
      obtain ⟨s2, h2⟩ := ih (act cfg m st x)
      exact ⟨s1 ++ s2, by
        simp only [acts, List.foldl_cons] at h2 ⊢
        rw [h2, h1]; simp⟩
  unfold trigger
  split
  · exact ⟨[], by simp⟩
  · exact ⟨[], by simp⟩
  · rename_i prog d _ _
    obtain ⟨s1, h1⟩ := hx prog st
    exact ⟨s1, h1⟩

/-- a firing the acceptor lets through: the state was entered exactly `timeout` ticks earlier and
nothing about (m, s) happened in between -/
theorem fired_origin (sp : Spec) (m s : Nat) (pre post : List Rec)
    (h : (monOf sp (pre ++ .fired m s :: post)).ok = true) :
    ∃ pre1 mid, pre = pre1 ++ .enter m s :: mid ∧ 0 < sp.timeout s ∧ Clean m s mid ∧ ticks mid = sp.timeout s := by
  have e : pre ++ .fired m s :: post = (pre ++ [.fired m s]) ++ post := by simp
  rw [e] at h
  have h1 := ok_prefix sp _ _ h
  rw [monOf_snoc] at h1
  have ha : (monOf sp pre).armed s m = some (monOf sp pre).now := by
    simp only [mstep, Bool.and_eq_true, beq_iff_eq] at h1
    exact h1.2
  cases armed_origin sp m s pre Mon.init _ ha with
  | inl hx => simp [Mon.init] at hx
  | inr hx =>
    obtain ⟨l1, mid, e1, hT, hc, hd⟩ := hx
    refine ⟨l1, mid, e1, hT, hc, ?_⟩
    have n1 : (monOf sp pre).now = ticks l1 + ticks mid := by
      rw [monOf_now, e1, ticks_append, ticks_cons]; simp
    have n2 : (l1.foldl (mstep sp) Mon.init).now = ticks l1 := monOf_now sp l1
    omega

/-- while the state stays entered, accepted time does not pass the deadline; an accepted complete
observation does not even reach it -/
theorem must_fire (sp : Spec) (m s : Nat) (pre mid post : List Rec) (hT : 0 < sp.timeout s) (hc : Clean m s mid)
    (h : (monOf sp (pre ++ .enter m s :: (mid ++ post))).ok = true) :
    ticks mid ≤ sp.timeout s ∧ (post = [] → quiet (monOf sp (pre ++ .enter m s :: mid)) = true → ticks mid < sp.timeout s) := by
  have e : pre ++ .enter m s :: (mid ++ post) = ((pre ++ [.enter m s]) ++ mid) ++ post := by simp
  rw [e] at h
  have h1 := ok_prefix sp _ _ h
  rw [monOf_append] at h1
  have hμ : monOf sp (pre ++ [.enter m s]) = mstep sp (monOf sp pre) (.enter m s) := monOf_snoc sp pre _
  have a1 : (monOf sp (pre ++ [.enter m s])).armed s m = some ((monOf sp pre).now + sp.timeout s) := by
    rw [hμ]; simp [mstep, hT, upd]
  have k1 : (s, m) ∈ (monOf sp (pre ++ [.enter m s])).keys := by
    rw [hμ]; simp [mstep, hT]
  have n1 : (monOf sp (pre ++ [.enter m s])).now = (monOf sp pre).now := by
    rw [hμ]; simp [mstep, hT]
  obtain ⟨a2, k2, n2⟩ := due_inv sp m s _ mid _ a1 k1 (by rw [n1]; omega) hc h1
  have n3 := fold_now sp mid (monOf sp (pre ++ [.enter m s]))
  refine ⟨by omega, ?_⟩
  intro _ hq
  have e2 : pre ++ .enter m s :: mid = (pre ++ [.enter m s]) ++ mid := by simp
  rw [e2, monOf_append] at hq
  have := quiet_armed _ s m _ hq k2 a2
  omega

theorem fire_log (cfg : Cfg) (hk : ∀ m, cfg.key m = m) (i : Nat) (st : St) (t : Timer) (hi : st.timers[i]? = some t) (hw : t.phase = .waiting) :
    ∃ mid, (fire cfg i st).log = st.log ++ .fired t.m t.s :: mid ++
      (if cfg.raises t.s || handlerRaises cfg st i t then
        (if cfg.async && cfg.onExc then [.raised t.m t.s, .routed t.m t.s] else [.raised t.m t.s])
       else [.firedEnd t.m t.s]) := by
  rw [fire_eq cfg hk i st t hi hw]
  simp only [fireBody]
  have hs : (fireStart st i t).log = st.log ++ [.fired t.m t.s] := rfl
  have hmid : ∃ mid, (match cfg.action t.s with
      | some e => trigger cfg t.m e (fireStart st i t)
      | none => fireStart st i t).log = st.log ++ .fired t.m t.s :: mid := by
    cases cfg.action t.s with
    | none => exact ⟨[], by simp [hs]⟩
    | some e =>
      obtain ⟨seg, h⟩ := trigger_log cfg hk t.m e (fireStart st i t)
      exact ⟨seg, by simp only [h, hs]; simp⟩
  obtain ⟨mid, hm⟩ := hmid
  refine ⟨mid, ?_⟩
  unfold handlerEnd
  generalize (cfg.raises t.s || handlerRaises cfg st i t) = rr
  by_cases hr : rr = true
  · by_cases hro : (cfg.async && cfg.onExc) = true
    · simp only [hr, hro, if_true, St.emit, hm]; simp
    · have hro' : (cfg.async && cfg.onExc) = false := by simpa using hro
      simp only [hr, hro', if_true, Bool.false_eq_true, if_false, St.emit, hm]
  · have hr' : rr = false := by simpa using hr
    simp only [hr', Bool.false_eq_true, if_false, St.emit, hm]

/-- `cancel()` on a timer whose handler has started changes nothing -/
theorem tExit_running (cfg : Cfg) (hk : ∀ m, cfg.key m = m) (m s i : Nat) (st : St) (t : Timer) (hr : st.runner s m = some i)
    (hi : st.timers[i]? = some t) (hp : t.phase = .running) : (tExit cfg m s st).timers = st.timers := by
  rw [(tExit_fields cfg hk m s st).2.2.2.2, hr]
  simp [cancelTimer, hi, hp]

end C17
end TM
