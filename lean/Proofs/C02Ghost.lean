/-
  Proofs/C02Ghost.lean — the ghost bookkeeping across one state change (pure list reasoning about `C02.gstep`).

  Exiting a list `X` of distinct live states — children before parents, closed under live descendants — and then
  entering a list `N` of distinct states none of which is live any more — each after its parent — raises none of
  the flags "entered while active / exited while inactive / entered before its parent / exited before a live
  descendant", leaves `live` duplicate-free with members `(live \ X) ∪ N`, and raises "entered and then exited in
  the same event" exactly when `X` meets the states entered earlier in this event.
-/
import Proofs.C02Base

namespace TM
open C02

theorem grun_append (cfg : NCfg) (g : G) (a b : List GEv) : grun cfg g (a ++ b) = grun cfg (grun cfg g a) b := by
  simp [grun, List.foldl_append]

/-- a path is not a proper prefix of itself -/
theorem properPrefix_self (p : SPath) : properPrefix p p = false := by
  simp [properPrefix]

/-- the exit phase: exiting distinct live states, children first, closed under live descendants -/
theorem grun_exits (cfg : NCfg) (X : List SPath) : ∀ (g : G),
    g.halted = false → g.live.Nodup → X.Nodup → (∀ p ∈ X, p ∈ g.live) →
    X.Pairwise (fun a b => properPrefix a b = false) →
    (∀ p ∈ X, ∀ q ∈ g.live, properPrefix p q = true → q ∈ X) →
    (grun cfg g (X.map GEv.exit)).live.Nodup ∧
    (∀ p, p ∈ (grun cfg g (X.map GEv.exit)).live ↔ (p ∈ g.live ∧ p ∉ X)) ∧
    (grun cfg g (X.map GEv.exit)).enteredWhileLive = g.enteredWhileLive ∧
    (grun cfg g (X.map GEv.exit)).exitedWhileDead = g.exitedWhileDead ∧
    (grun cfg g (X.map GEv.exit)).enterBeforeParent = g.enterBeforeParent ∧
    (grun cfg g (X.map GEv.exit)).exitBeforeChild = g.exitBeforeChild ∧
    (grun cfg g (X.map GEv.exit)).finBad = g.finBad ∧
    (grun cfg g (X.map GEv.exit)).halted = false ∧
    (grun cfg g (X.map GEv.exit)).entered = g.entered ∧
    (grun cfg g (X.map GEv.exit)).exited = g.exited ++ X ∧
    (grun cfg g (X.map GEv.exit)).cur = g.cur ∧
    (grun cfg g (X.map GEv.exit)).execd = g.execd ∧
    (grun cfg g (X.map GEv.exit)).maxExec = g.maxExec ∧
    (grun cfg g (X.map GEv.exit)).enteredThenExited = (g.enteredThenExited || X.any g.entered.contains) := by
  induction X with
  | nil => intro g hh hnd _ _ _ _; simp [grun, hh, hnd]
  | cons p X ih =>
    intro g hh hnd hX hXl hXo hXc
    have hpl : p ∈ g.live := hXl p (by simp)
    rw [List.nodup_cons] at hX
    rw [List.pairwise_cons] at hXo
    have hmem : ∀ q, q ∈ g.live.erase p ↔ q ∈ g.live ∧ q ≠ p := by
      intro q; rw [hnd.mem_erase_iff]; exact And.comm
    have hstep : gstep cfg g (.exit p) = { g with
      live := g.live.erase p, exited := g.exited ++ [p],
      exitedWhileDead := g.exitedWhileDead || !g.live.contains p,
      enteredThenExited := g.enteredThenExited || g.entered.contains p,
      eteStale := g.eteStale || (g.entered.contains p && g.cur == 2),
      eteReentered := g.eteReentered || (g.entered.contains p && g.cur == 3),
      eteActive := g.eteActive || (g.entered.contains p && g.cur != 2 && g.cur != 3 && g.cur != 4),
      eteRepeated := g.eteRepeated || (g.entered.contains p && g.cur == 4),
      exitBeforeChild := g.exitBeforeChild || g.live.any fun q => properPrefix p q } := by
      simp [gstep, hh]
    have hchild : (g.live.any fun q => properPrefix p q) = false := by
      rw [List.any_eq_false]
      intro q hq hpq
      have hqX := hXc p (by simp) q hq hpq
      rcases List.mem_cons.1 hqX with h | h
      · subst h; simp [properPrefix_self] at hpq
      · have := hXo.1 q h; simp [hpq] at this
    have key := ih (gstep cfg g (.exit p)) (by rw [hstep]; exact hh) (by rw [hstep]; exact hnd.erase p) hX.2
      (by rw [hstep]; intro q hq; rw [hmem]; exact ⟨hXl q (by simp [hq]), fun h => hX.1 (h ▸ hq)⟩)
      hXo.2
      (by
        rw [hstep]; intro p' hp' q hq hpq
        rw [hmem] at hq
        have := hXc p' (by simp [hp']) q hq.1 hpq
        rcases List.mem_cons.1 this with h | h
        · exact absurd h hq.2
        · exact h)
    have hrun : grun cfg g ((p :: X).map GEv.exit) = grun cfg (gstep cfg g (.exit p)) (X.map GEv.exit) := by
      simp [grun]
    rw [hrun]
    obtain ⟨k1, k2, k3, k4, k5, k6, k7, k8, k9, k10, k11, k12, k13, k14⟩ := key
    refine ⟨k1, ?_, k3.trans ?_, k4.trans ?_, k5.trans ?_, k6.trans ?_, k7.trans ?_, k8, k9.trans ?_, k10.trans ?_,
      k11.trans ?_, k12.trans ?_, k13.trans ?_, k14.trans ?_⟩
    · intro q; rw [k2, hstep]; simp only [hmem, List.mem_cons, not_or]
      constructor
      · rintro ⟨⟨a, b⟩, c⟩; exact ⟨a, b, c⟩
      · rintro ⟨a, b, c⟩; exact ⟨⟨a, b⟩, c⟩
    all_goals first | (rw [hstep]; done) | (rw [hstep]; simp [hpl, hchild, Bool.or_assoc]; done)

/-- the enter phase: entering distinct non-live states, each after its parent (`A` or an earlier one) -/
theorem grun_enters (cfg : NCfg) (A : SPath) (N : List SPath) : ∀ (g : G) (seen : List SPath),
    g.halted = false → g.live.Nodup → (A = [] ∨ A ∈ g.live) → (∀ s ∈ seen, s ∈ g.live) →
    N.Nodup → (∀ p ∈ N, p ∉ g.live) → parentsFirst A seen N = true →
    (grun cfg g (N.map GEv.enter)).live.Nodup ∧
    (∀ p, p ∈ (grun cfg g (N.map GEv.enter)).live ↔ (p ∈ g.live ∨ p ∈ N)) ∧
    (grun cfg g (N.map GEv.enter)).enteredWhileLive = g.enteredWhileLive ∧
    (grun cfg g (N.map GEv.enter)).exitedWhileDead = g.exitedWhileDead ∧
    (grun cfg g (N.map GEv.enter)).enterBeforeParent = g.enterBeforeParent ∧
    (grun cfg g (N.map GEv.enter)).exitBeforeChild = g.exitBeforeChild ∧
    (grun cfg g (N.map GEv.enter)).finBad = g.finBad ∧
    (grun cfg g (N.map GEv.enter)).halted = false ∧
    (grun cfg g (N.map GEv.enter)).entered = g.entered ++ N ∧
    (grun cfg g (N.map GEv.enter)).exited = g.exited ∧
    (grun cfg g (N.map GEv.enter)).cur = g.cur ∧
    (grun cfg g (N.map GEv.enter)).execd = g.execd ∧
    (grun cfg g (N.map GEv.enter)).maxExec = g.maxExec ∧
    (grun cfg g (N.map GEv.enter)).enteredThenExited = g.enteredThenExited := by
  induction N with
  | nil => intro g seen hh hnd _ _ _ _ _; simp [grun, hh, hnd]
  | cons p N ih =>
    intro g seen hh hnd hA hseen hN hNl hpf
    rw [List.nodup_cons] at hN
    have hpl : p ∉ g.live := hNl p (by simp)
    simp only [parentsFirst, Bool.and_eq_true, Bool.or_eq_true, beq_iff_eq, List.contains_eq_mem,
      decide_eq_true_eq] at hpf
    have hstep : gstep cfg g (.enter p) = { g with
      live := g.live ++ [p], entered := g.entered ++ [p],
      enteredWhileLive := g.enteredWhileLive || g.live.contains p,
      enterBeforeParent := g.enterBeforeParent || (p.length > 1 && !g.live.contains p.dropLast) } := by
      simp [gstep, hh]
    have hpar : 1 < p.length → p.dropLast ∈ g.live := by
      intro hlen
      rcases hpf.1 with h | h
      · rcases hA with hA | hA
        · have : p.dropLast.length = 0 := by rw [h, hA]; rfl
          rw [List.length_dropLast] at this
          omega
        · exact h ▸ hA
      · exact hseen _ h
    have key := ih (gstep cfg g (.enter p)) (seen ++ [p]) (by rw [hstep]; exact hh)
      (by rw [hstep]; exact List.nodup_append.2 ⟨hnd, by simp, by intro a ha b hb; simp at hb; subst hb; exact fun h => hpl (h ▸ ha)⟩)
      (by rw [hstep]; rcases hA with h | h; exact Or.inl h; exact Or.inr (by simp [h]))
      (by rw [hstep]; intro s hs; rcases List.mem_append.1 hs with h | h
          · simp [hseen s h]
          · simp at h; simp [h])
      hN.2
      (by rw [hstep]; intro q hq hql; rcases List.mem_append.1 hql with h | h
          · exact hNl q (by simp [hq]) h
          · simp at h; exact hN.1 (h ▸ hq))
      hpf.2
    have hrun : grun cfg g ((p :: N).map GEv.enter) = grun cfg (gstep cfg g (.enter p)) (N.map GEv.enter) := by
      simp [grun]
    rw [hrun]
    obtain ⟨k1, k2, k3, k4, k5, k6, k7, k8, k9, k10, k11, k12, k13, k14⟩ := key
    refine ⟨k1, ?_, k3.trans ?_, k4.trans ?_, k5.trans ?_, k6.trans ?_, k7.trans ?_, k8, k9.trans ?_, k10.trans ?_,
      k11.trans ?_, k12.trans ?_, k13.trans ?_, k14.trans ?_⟩
    · intro q; rw [k2, hstep]; simp only [List.mem_append, List.mem_cons, List.not_mem_nil, or_false, or_assoc]
    all_goals first | (rw [hstep]; done) | (rw [hstep]; simp [hpl]; done) |
      (rw [hstep]; simp; intro h1 h2; exact absurd (hpar h1) h2)

theorem grun_change (cfg : NCfg) (g : G) (A : SPath) (X N : List SPath)
    (hh : g.halted = false) (hnd : g.live.Nodup)
    (hA : A = [] ∨ (A ∈ g.live ∧ A ∉ X))
    (hX : X.Nodup) (hXl : ∀ p ∈ X, p ∈ g.live)
    (hXo : X.Pairwise (fun a b => properPrefix a b = false))
    (hXc : ∀ p ∈ X, ∀ q ∈ g.live, properPrefix p q = true → q ∈ X)
    (hN : N.Nodup) (hNl : ∀ p ∈ N, p ∈ g.live → p ∈ X)
    (hNp : parentsFirst A [] N = true) :
    let g' := grun cfg g (X.map GEv.exit ++ N.map GEv.enter)
    g'.live.Nodup ∧ (∀ p, p ∈ g'.live ↔ (p ∈ g.live ∧ p ∉ X) ∨ p ∈ N) ∧
    g'.enteredWhileLive = g.enteredWhileLive ∧ g'.exitedWhileDead = g.exitedWhileDead ∧
    g'.enterBeforeParent = g.enterBeforeParent ∧ g'.exitBeforeChild = g.exitBeforeChild ∧
    g'.finBad = g.finBad ∧ g'.halted = false ∧
    g'.entered = g.entered ++ N ∧ g'.exited = g.exited ++ X ∧ g'.cur = g.cur ∧ g'.execd = g.execd ∧
    g'.maxExec = g.maxExec ∧
    (g'.enteredThenExited = (g.enteredThenExited || X.any g.entered.contains)) := by
  intro g'
  obtain ⟨e1, e2, e3, e4, e5, e6, e7, e8, e9, e10, e11, e12, e13, e14⟩ :=
    grun_exits cfg X g hh hnd hX hXl hXo hXc
  obtain ⟨k1, k2, k3, k4, k5, k6, k7, k8, k9, k10, k11, k12, k13, k14⟩ :=
    grun_enters cfg A N (grun cfg g (X.map GEv.exit)) [] e8 e1
      (by rcases hA with h | h
          · exact Or.inl h
          · exact Or.inr ((e2 A).2 h))
      (by intro s hs; cases hs) hN
      (by intro p hp hpl; have := (e2 p).1 hpl; exact this.2 (hNl p hp this.1))
      hNp
  have hg' : g' = grun cfg (grun cfg g (X.map GEv.exit)) (N.map GEv.enter) := grun_append cfg g _ _
  rw [hg']
  refine ⟨k1, ?_, k3.trans e3, k4.trans e4, k5.trans e5, k6.trans e6, k7.trans e7, k8, ?_, k10.trans e10,
    k11.trans e11, k12.trans e12, k13.trans e13, k14.trans e14⟩
  · intro p; rw [k2, e2]
  · rw [k9, e9]

end TM
