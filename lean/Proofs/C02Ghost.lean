/-
  Proofs/C02Ghost.lean — the ghost bookkeeping across one state change (pure list reasoning about `C02.gstep`).

  Exiting a list `X` of distinct live states — children before parents, closed under live descendants — and then
  entering a list `N` of distinct states none of which is live any more — each after its parent — raises none of
  the flags "entered while active / exited while inactive / entered before its parent / exited before a live
  descendant", leaves `live` duplicate-free with members `(live \ X) ∪ N`, and raises "entered and then exited in
  the same event" exactly when `X` meets the states entered earlier in this event.
-/
import Proofs.C02Base

namespace TM
open C02

theorem grun_append (cfg : NCfg) (g : G) (a b : List GEv) : grun cfg g (a ++ b) = grun cfg (grun cfg g a) b := by
  sorry

theorem grun_change (cfg : NCfg) (g : G) (A : SPath) (X N : List SPath)
    (hh : g.halted = false) (hnd : g.live.Nodup)
    (hA : A = [] ∨ (A ∈ g.live ∧ A ∉ X))
    (hX : X.Nodup) (hXl : ∀ p ∈ X, p ∈ g.live)
    (hXo : X.Pairwise (fun a b => properPrefix a b = false))
    (hXc : ∀ p ∈ X, ∀ q ∈ g.live, properPrefix p q = true → q ∈ X)
    (hN : N.Nodup) (hNl : ∀ p ∈ N, p ∈ g.live → p ∈ X)
    (hNp : parentsFirst A [] N = true) :
    let g' := grun cfg g (X.map GEv.exit ++ N.map GEv.enter)
    g'.live.Nodup ∧ (∀ p, p ∈ g'.live ↔ (p ∈ g.live ∧ p ∉ X) ∨ p ∈ N) ∧
    g'.enteredWhileLive = g.enteredWhileLive ∧ g'.exitedWhileDead = g.exitedWhileDead ∧
    g'.enterBeforeParent = g.enterBeforeParent ∧ g'.exitBeforeChild = g.exitBeforeChild ∧
    g'.finBad = g.finBad ∧ g'.halted = false ∧
    g'.entered = g.entered ++ N ∧ g'.exited = g.exited ++ X ∧ g'.cur = g.cur ∧ g'.execd = g.execd ∧
    g'.maxExec = g.maxExec ∧
    (g'.enteredThenExited = (g.enteredThenExited || X.any g.entered.contains)) := by
  sorry

end TM
