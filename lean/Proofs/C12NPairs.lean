/-
  Proofs/C12NPairs.lean — the (scope, source) pairs the two sides look at.

  `may_` (`_can_trigger`) starts at the machine's scope for every active state (`resolve_order` of the whole
  configuration), walks the state and its ancestors inside the scope, then descends one scope along the state's own
  path: `mayPairs` (Proofs/C12N.lean), root scope first, with repetitions.
  The trigger (`_trigger_event_nested` / `trigger_nested`) recurses into the scopes of the active compound states
  first (innermost scope first), offers the event to a scope once per call and there visits `resolve_order` of the
  scope's sub-tree: `trigPairs` below — the list the dispatch would visit if nothing executed.

  Both lists have the same members: the pairs `(a, b)` with `b ≠ []` and `a ++ b` an active state
  (`mem_mayPairs`, `mem_trigPairs`, `pairs_same_set`).
-/
import Proofs.C12N

namespace TM
open C02

/-- the pairs `_trigger_event_nested` visits for the sub-tree `F` of the scope with prefix `a` when no transition
executes; `first` = the event has not been offered to this scope yet (the head of the scope's `items()` loop) -/
def tenPairs : SPath → Forest → Bool → List (SPath × SPath)
  | _, .nil, _ => []
  | a, .cons key value rest, first =>
    (if value.isEmpty then [] else tenPairs (a ++ [key]) value true) ++
    (if first then ((resolveOrder (.cons key value rest)).getD []).map (fun p => (a, p)) else []) ++
    tenPairs a rest false

/-- the pairs a trigger call visits for the configuration `conf` when no transition executes, in its order -/
def trigPairs (conf : Forest) : List (SPath × SPath) := tenPairs [] conf true

/-! ### membership -/

theorem mem_resolveOrder (F : Forest) (p : SPath) : p ∈ (resolveOrder F).getD [] ↔ p ∈ F.nodes := by
  obtain ⟨l, hl⟩ := resolveOrder_total F
  rw [hl]
  exact (resolveOrder_perm hl).mem_iff

theorem Forest.nodes_ne_nil_of_mem {F : Forest} {p : SPath} (h : p ∈ F.nodes) : F.isEmpty = false := by
  cases F with
  | nil => simp [Forest.nodes] at h
  | cons k s r => rfl

theorem mem_tenPairs : ∀ (F : Forest) (a : SPath) (first : Bool) (pr : SPath × SPath),
    pr ∈ tenPairs a F first ↔
      ∃ a', pr.1 = a ++ a' ∧ pr.2 ≠ [] ∧ a' ++ pr.2 ∈ F.nodes ∧ (first = false → a' ≠ []) := by
  intro F
  induction F with
  | nil =>
    intro a first pr
    simp [tenPairs, Forest.nodes]
  | cons k s r ihs ihr =>
    intro a first pr
    obtain ⟨pa, pb⟩ := pr
    simp only [tenPairs, List.mem_append]
    constructor
    · rintro ((h | h) | h)
      · -- a deeper scope
        split at h
        · cases h
        · obtain ⟨a'', e1, e2, e3, _⟩ := (ihs (a ++ [k]) true (pa, pb)).mp h
          refine ⟨k :: a'', by simpa using e1, e2, ?_, fun _ => by simp⟩
          simp only [Forest.nodes, List.cons_append, List.mem_cons, List.mem_append, List.mem_map]
          exact Or.inr (Or.inl ⟨a'' ++ pb, e3, rfl⟩)
      · -- this scope
        split at h
        · rename_i hf
          simp only [List.mem_map, Prod.mk.injEq] at h
          obtain ⟨p, hp, rfl, rfl⟩ := h
          have hp' := (mem_resolveOrder _ p).mp hp
          refine ⟨[], by simp, ?_, by simpa using hp', fun hh => by rw [hf] at hh; cases hh⟩
          intro e; subst e; exact Forest.nil_not_mem_nodes _ hp'
        · cases h
      · -- later siblings
        obtain ⟨a', e1, e2, e3, e4⟩ := (ihr a false (pa, pb)).mp h
        refine ⟨a', e1, e2, ?_, fun _ => e4 rfl⟩
        simp only [Forest.nodes, List.cons_append, List.mem_cons, List.mem_append, List.mem_map]
        exact Or.inr (Or.inr e3)
    · rintro ⟨a', e1, e2, e3, e4⟩
      cases a' with
      | nil =>
        have hf : first = true := by
          cases first with
          | true => rfl
          | false => exact absurd rfl (e4 rfl)
        refine Or.inl (Or.inr ?_)
        rw [if_pos hf]
        simp only [List.mem_map, Prod.mk.injEq]
        refine ⟨pb, (mem_resolveOrder _ pb).mpr (by simpa using e3), by simpa using e1.symm, rfl⟩
      | cons x a'' =>
        simp only [Forest.nodes, List.cons_append, List.mem_cons, List.mem_append, List.mem_map] at e3
        rcases e3 with h | ⟨q, hq, h⟩ | h
        · -- `[k]` itself: then `b = []`
          injection h with _ h2
          exact absurd (List.append_eq_nil_iff.mp h2).2 e2
        · have hx : k = x := by injection h
          have hq' : q = a'' ++ pb := by injection h
          subst hx; subst hq'
          refine Or.inl (Or.inl ?_)
          rw [if_neg (by rw [Forest.nodes_ne_nil_of_mem hq]; simp)]
          exact (ihs (a ++ [k]) true (pa, pb)).mpr ⟨a'', by simpa using e1, e2, hq, fun hh => by cases hh⟩
        · refine Or.inr ?_
          exact (ihr a false (pa, pb)).mpr ⟨x :: a'', e1, e2, by simpa using h, fun _ => by simp⟩

theorem mem_trigPairs (conf : Forest) (pr : SPath × SPath) :
    pr ∈ trigPairs conf ↔ pr.2 ≠ [] ∧ pr.1 ++ pr.2 ∈ conf.nodes := by
  unfold trigPairs
  rw [mem_tenPairs]
  constructor
  · rintro ⟨a', e1, e2, e3, _⟩
    simp only [List.nil_append] at e1
    rw [e1]; exact ⟨e2, e3⟩
  · rintro ⟨e2, e3⟩
    exact ⟨pr.1, by simp, e2, e3, fun h => by cases h⟩

theorem mem_walkSources (path : SPath) : ∀ (n : Nat) (b : SPath),
    b ∈ walkSources path n ↔ ∃ m, m < n ∧ b = path.take (m + 1)
  | 0, b => by simp [walkSources]
  | n + 1, b => by
    simp only [walkSources, List.mem_cons, mem_walkSources path n b]
    constructor
    · rintro (h | ⟨m, hm, h⟩)
      · exact ⟨n, Nat.lt_succ_self n, h⟩
      · exact ⟨m, Nat.lt_succ_of_lt hm, h⟩
    · rintro ⟨m, hm, h⟩
      by_cases hmn : m = n
      · subst hmn; exact Or.inl h
      · exact Or.inr ⟨m, by omega, h⟩

theorem mem_mayPairsNested : ∀ (path a : SPath) (pr : SPath × SPath),
    pr ∈ mayPairsNested a path ↔
      ∃ i j, i + j < path.length ∧ pr.1 = a ++ path.take i ∧ pr.2 = (path.drop i).take (j + 1)
  | [], a, pr => by simp [mayPairsNested]
  | k :: rest, a, pr => by
    obtain ⟨pa, pb⟩ := pr
    simp only [mayPairsNested, List.mem_append, List.mem_map, Prod.mk.injEq, mem_walkSources,
      mem_mayPairsNested rest (a ++ [k]) (pa, pb)]
    constructor
    · rintro (⟨b, ⟨m, hm, hb⟩, rfl, rfl⟩ | ⟨i, j, hij, e1, e2⟩)
      · exact ⟨0, m, by simpa using hm, by simp, by simpa using hb⟩
      · exact ⟨i + 1, j, by simp only [List.length_cons]; omega, by simpa using e1, by simpa using e2⟩
    · rintro ⟨i, j, hij, e1, e2⟩
      simp only [List.length_cons] at hij
      cases i with
      | zero =>
        refine Or.inl ⟨pb, ⟨j, by omega, by simpa using e2⟩, by simpa using e1.symm, rfl⟩
      | succ i' =>
        exact Or.inr ⟨i', j, by omega, by simpa using e1, by simpa using e2⟩

/-- the active states are closed under non-empty prefixes -/
theorem Forest.take_mem_nodes : ∀ (F : Forest) (p : SPath) (n : Nat), p ∈ F.nodes → 0 < n → p.take n ∈ F.nodes := by
  intro F
  induction F with
  | nil => intro p n h; simp [Forest.nodes] at h
  | cons k s r ihs ihr =>
    intro p n h hn
    simp only [Forest.nodes, List.cons_append, List.mem_cons, List.mem_append, List.mem_map] at h ⊢
    obtain ⟨n', rfl⟩ : ∃ n', n = n' + 1 := ⟨n - 1, by omega⟩
    rcases h with rfl | ⟨q, hq, rfl⟩ | h
    · exact Or.inl (by simp)
    · cases n' with
      | zero => exact Or.inl (by simp)
      | succ n'' => exact Or.inr (Or.inl ⟨q.take (n'' + 1), ihs q _ hq (by omega), by simp⟩)
    · exact Or.inr (Or.inr (ihr p _ h (by omega)))

theorem mem_mayPairs (conf : Forest) (pr : SPath × SPath) :
    pr ∈ mayPairs conf ↔ pr.2 ≠ [] ∧ pr.1 ++ pr.2 ∈ conf.nodes := by
  unfold mayPairs
  simp only [List.mem_flatMap, mem_resolveOrder, mem_mayPairsNested, List.nil_append]
  constructor
  · rintro ⟨p, hp, i, j, hij, e1, e2⟩
    have hlen : (pr.2).length = j + 1 := by
      rw [e2, List.length_take, List.length_drop]; omega
    refine ⟨fun e => by rw [e] at hlen; simp at hlen, ?_⟩
    have : pr.1 ++ pr.2 = p.take (i + (j + 1)) := by rw [e1, e2]; exact List.take_add.symm
    rw [this]
    exact Forest.take_mem_nodes conf p _ hp (by omega)
  · rintro ⟨e2, e3⟩
    refine ⟨pr.1 ++ pr.2, e3, pr.1.length, pr.2.length - 1, ?_, ?_, ?_⟩
    · have : 0 < pr.2.length := List.length_pos_iff.mpr e2
      simp only [List.length_append]; omega
    · simp
    · have : 0 < pr.2.length := List.length_pos_iff.mpr e2
      have h1 : pr.2.length - 1 + 1 = pr.2.length := by omega
      rw [h1, List.drop_left' rfl, List.take_length]

/-- **the two sides look at the same set of (scope, source) pairs**: the pairs `(a, b)` such that `b` is not empty
and `a ++ b` is an active state — `a` the global path of the scope whose event table is consulted (`[]` = the machine),
`b` the scope-relative source — in a different order and with different multiplicities -/
theorem pairs_same_set (conf : Forest) (pr : SPath × SPath) : pr ∈ mayPairs conf ↔ pr ∈ trigPairs conf := by
  rw [mem_mayPairs, mem_trigPairs]

end TM
