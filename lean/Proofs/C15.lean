/-
  Proofs/C15.lean — helper lemmas for property C15 (pickling): association lists under an injective
  renaming of keys, the simulation between a machine and its renamed twin, lock-set lemmas.
-/
import Model.Pickle

namespace TM
namespace Pickle

/-- pickle never maps two live objects to one: the identity map is injective -/
def Inj (ρ : Nat → Nat) : Prop := ∀ a b, ρ a = ρ b → a = b

theorem alookup_map_key {β γ : Type} (ρ : Nat → Nat) (hρ : Inj ρ) (f : β → γ) (k : Nat) :
    ∀ t : Tab β, alookup (ρ k) (t.map fun e => (ρ e.1, f e.2)) = (alookup k t).map f
  | [] => rfl
  | (k', v) :: r => by
    simp only [List.map_cons, alookup]
    by_cases h : k' = k
    · subst h; simp
    · have : ρ k' ≠ ρ k := fun e => h (hρ _ _ e)
      simp only [h, this, if_false]
      exact alookup_map_key ρ hρ f k r

theorem alookup_map_val {β γ : Type} (f : β → γ) (k : Nat) :
    ∀ t : Tab β, alookup k (t.map fun e => (e.1, f e.2)) = (alookup k t).map f
  | [] => rfl
  | (k', v) :: r => by
    simp only [List.map_cons, alookup]
    by_cases h : k' = k
    · subst h; simp
    · simp only [h, if_false]; exact alookup_map_val f k r

theorem alookup_of_list {β : Type} (ρ : Nat → Nat) (hρ : Inj ρ) (f : Nat → β) (m : Nat) :
    ∀ l : List Nat, m ∈ l → alookup (ρ m) (l.map fun x => (ρ x, f x)) = some (f m)
  | [], h => by cases h
  | x :: r, h => by
    simp only [List.map_cons, alookup]
    by_cases hx : x = m
    · subst hx; simp
    · have : ρ x ≠ ρ m := fun e => hx (hρ _ _ e)
      simp only [this, if_false]
      rcases List.mem_cons.mp h with e | e
      · exact absurd e.symm hx
      · exact alookup_of_list ρ hρ f m r e

theorem alookup_of_list_none {β : Type} (f : Nat → β) (g : Nat → Nat) (k : Nat) :
    ∀ l : List Nat, (∀ x ∈ l, g x ≠ k) → alookup k (l.map fun x => (g x, f x)) = none
  | [], _ => rfl
  | x :: r, h => by
    simp only [List.map_cons, alookup]
    have : g x ≠ k := h x (List.mem_cons_self ..)
    simp only [this, if_false]
    exact alookup_of_list_none f g k r fun y hy => h y (List.mem_cons_of_mem _ hy)

theorem alookup_aset_self' {β} (k : Nat) (v : β) : ∀ l : Tab β, alookup k (aset k v l) = some v
  | [] => by simp [aset, alookup]
  | (k', v') :: r => by
    by_cases h : k' = k
    · simp [aset, alookup, h]
    · simp [aset, alookup, h]; exact alookup_aset_self' k v r

theorem alookup_aset_ne' {β} (k k' : Nat) (v : β) (h : k' ≠ k) : ∀ l : Tab β, alookup k' (aset k v l) = alookup k' l
  | [] => by simp [aset, alookup, Ne.symm h]
  | (k2, v2) :: r => by
    by_cases h2 : k2 = k
    · subst h2; simp [aset, alookup, Ne.symm h]
    · by_cases h3 : k2 = k'
      · subst h3; simp [aset, alookup, h2]
      · simp [aset, alookup, h2, h3]; exact alookup_aset_ne' k k' v h r

theorem alookup_append_miss {β} (k m : Nat) (v : β) : ∀ t : Tab β, k ≠ m → alookup k (t ++ [(m, v)]) = alookup k t
  | [], h => by simp [alookup, Ne.symm h]
  | (k', v') :: r, h => by
    simp only [List.cons_append, alookup]
    by_cases h2 : k' = k
    · simp [h2]
    · simp only [h2, if_false]; exact alookup_append_miss k m v r h

theorem alookup_append_none {β} (m : Nat) (v : β) : ∀ t : Tab β, alookup m t = none → alookup m (t ++ [(m, v)]) = some v
  | [], _ => by simp [alookup]
  | (k', v') :: r, h => by
    simp only [List.cons_append, alookup] at h ⊢
    by_cases h2 : k' = m
    · simp [h2] at h
    · simp only [h2, if_false] at h ⊢; exact alookup_append_none m v r h

theorem alookup_append_some {β} (k m : Nat) (v w : β) : ∀ t : Tab β, alookup k t = some w → alookup k (t ++ [(m, v)]) = some w
  | [], h => by simp [alookup] at h
  | (k', v') :: r, h => by
    simp only [List.cons_append, alookup] at h ⊢
    by_cases h2 : k' = k
    · simpa [h2] using h
    · simp only [h2, if_false] at h ⊢; exact alookup_append_some k m v w r h

/-! ### touch / contexts -/

theorem lookupD_touch (k : Kind) (M : PM) (m x : Nat) : lookupD x (touch k M m).ctx = lookupD x M.ctx := by
  unfold touch
  split
  · rename_i h
    simp only [Bool.and_eq_true, Option.isNone_iff_eq_none] at h
    unfold lookupD
    by_cases hx : x = m
    · subst hx; rw [alookup_append_none _ _ _ h.2, h.2]; rfl
    · rw [alookup_append_miss _ _ _ _ hx]
  · rfl

theorem touch_models (k : Kind) (M : PM) (m : Nat) : (touch k M m).models = M.models := by
  unfold touch; split <;> rfl
theorem touch_mstate (k : Kind) (M : PM) (m : Nat) : (touch k M m).mstate = M.mstate := by
  unfold touch; split <;> rfl
theorem touch_mctx (k : Kind) (M : PM) (m : Nat) : (touch k M m).mctx = M.mctx := by
  unfold touch; split <;> rfl
theorem touch_graphs (k : Kind) (M : PM) (m : Nat) : (touch k M m).graphs = M.graphs := by
  unfold touch; split <;> rfl
theorem touch_qdict (k : Kind) (M : PM) (m : Nat) : (touch k M m).qdict = M.qdict := by
  unfold touch; split <;> rfl
theorem touch_ident (k : Kind) (M : PM) (m : Nat) : (touch k M m).identHeld = M.identHeld := by
  unfold touch; split <;> rfl

theorem find_held_map (ρ : Nat → Nat) (hρ : Inj ρ) (held : List Nat) :
    ∀ cs : List Nat, (cs.map ρ).find? (fun l => decide (l ∈ held.map ρ)) =
      (cs.find? (fun l => decide (l ∈ held))).map ρ
  | [] => rfl
  | c :: r => by
    have hm : (ρ c ∈ held.map ρ) ↔ c ∈ held := by
      constructor
      · intro h
        obtain ⟨a, ha, e⟩ := List.mem_map.mp h
        exact hρ _ _ e ▸ ha
      · exact fun h => List.mem_map.mpr ⟨c, h, rfl⟩
    simp only [List.map_cons, List.find?_cons]
    by_cases hc : c ∈ held
    · simp [hc, hm]
    · simp only [hc, hm, decide_false]
      exact find_held_map ρ hρ held r

/-! ### the simulation between a machine and a copy whose objects are renamed by `ρ`

Stated on lookups at the *registered* models only: stale entries under other keys (the original of a
graph machine keeps the graph of a removed model) are invisible to events on registered models. -/

structure Sim (k : Kind) (ρ : Nat → Nat) (M M' : PM) : Prop where
  models : M'.models = M.models.map ρ
  mctx : M'.mctx = M.mctx.map ρ
  mstate : ∀ m ∈ M.models, alookup (ρ m) M'.mstate = alookup m M.mstate
  ctx : k.locked = true → ∀ m ∈ M.models, lookupD (ρ m) M'.ctx = (lookupD m M.ctx).map ρ
  /-- presence only: the value (what the graph shows) is never read by an event, and differs
      legitimately (an async original shows no active state after a transition, its copy does) -/
  graphs : k.graph = true → ∀ m ∈ M.models, (alookup (ρ m) M'.graphs).isNone = (alookup m M.graphs).isNone
  qdict : k.qmodel = true → ∀ m ∈ M.models, (alookup (ρ m) M'.qdict).isNone = (alookup m M.qdict).isNone
  ident : k.locked = true → M'.identHeld = M.identHeld

theorem agree_aset {β} (ρ : Nat → Nat) (hρ : Inj ρ) (S : List Nat) (T T' : Tab β) (m : Nat) (v : β)
    (h : ∀ x ∈ S, alookup (ρ x) T' = alookup x T) :
    ∀ x ∈ S, alookup (ρ x) (aset (ρ m) v T') = alookup x (aset m v T) := by
  intro x hx
  by_cases e : x = m
  · subst e; rw [alookup_aset_self', alookup_aset_self']
  · have : ρ x ≠ ρ m := fun e' => e (hρ _ _ e')
    rw [alookup_aset_ne' _ _ _ this, alookup_aset_ne' _ _ _ e]; exact h x hx

theorem agree_aset_isNone {β} (ρ : Nat → Nat) (hρ : Inj ρ) (S : List Nat) (T T' : Tab β) (m : Nat) (v : β)
    (h : ∀ x ∈ S, (alookup (ρ x) T').isNone = (alookup x T).isNone) :
    ∀ x ∈ S, (alookup (ρ x) (aset (ρ m) v T')).isNone = (alookup x (aset m v T)).isNone := by
  intro x hx
  by_cases e : x = m
  · subst e; rw [alookup_aset_self', alookup_aset_self']
  · have : ρ x ≠ ρ m := fun e' => e (hρ _ _ e')
    rw [alookup_aset_ne' _ _ _ this, alookup_aset_ne' _ _ _ e]; exact h x hx

theorem sim_touch {k ρ M M'} (h : Sim k ρ M M') (m : Nat) : Sim k ρ (touch k M m) (touch k M' (ρ m)) where
  models := by rw [touch_models, touch_models]; exact h.models
  mctx := by rw [touch_mctx, touch_mctx]; exact h.mctx
  mstate := by rw [touch_models, touch_mstate, touch_mstate]; exact h.mstate
  ctx := by
    intro h1 x hx
    rw [touch_models] at hx
    rw [lookupD_touch, lookupD_touch]; exact h.ctx h1 x hx
  graphs := by rw [touch_models, touch_graphs, touch_graphs]; exact h.graphs
  qdict := by rw [touch_models, touch_qdict, touch_qdict]; exact h.qdict
  ident := by intro hl; rw [touch_ident, touch_ident]; exact h.ident hl

theorem contexts_sim {k ρ M M'} (h : Sim k ρ M M') (m : Nat) (hm : m ∈ M.models) :
    contexts k M' (ρ m) = (contexts k M m).map ρ := by
  unfold contexts
  cases h1 : k.locked with
  | false => simp
  | true =>
    simp only [if_true, h.ident h1]
    cases hi : M.identHeld with
    | true => simp
    | false =>
      simp only [Bool.false_eq_true, if_false]
      cases h2 : k.nested with
      | true =>
        simp only [if_true, h.ctx h1 m hm, h.mctx, List.isEmpty_map]
        split <;> rfl
      | false => simp [h.ctx h1 m hm]

theorem stateOf_sim {k ρ M M'} (h : Sim k ρ M M') (m : Nat) (hm : m ∈ M.models) :
    M'.stateOf (ρ m) = M.stateOf m := by
  unfold PM.stateOf; rw [h.mstate m hm]

theorem sim_fire {k ρ M M'} (δ : Delta) (hρ : Inj ρ) (h : Sim k ρ M M') (cs : List Nat) (ep m ev : Nat)
    (hm : m ∈ M.models) :
    (fire k δ M' (cs.map ρ) ep (ρ m) ev).2 = renObs ρ (fire k δ M cs ep m ev).2 ∧
    Sim k ρ (fire k δ M cs ep m ev).1 (fire k δ M' (cs.map ρ) ep (ρ m) ev).1 := by
  unfold fire
  rw [stateOf_sim h m hm]
  cases hq : k.qmodel with
  | true =>
    have hqd := h.qdict hq m hm
    cases hl : (alookup m M.qdict).isNone with
    | true =>
      rw [hl] at hqd
      simp only [hqd, Bool.and_self, if_true]
      exact ⟨rfl, h⟩
    | false =>
      rw [hl] at hqd
      simp only [hqd, Bool.and_false, Bool.false_eq_true, if_false]
      cases hd : δ ep (M.stateOf m) ev with
      | none => exact ⟨rfl, h⟩
      | some dst =>
        cases hg : k.graph with
        | false =>
          simp only [Bool.false_eq_true, if_false]
          refine ⟨rfl, ⟨h.models, h.mctx, agree_aset ρ hρ _ _ _ m dst h.mstate, h.ctx, ?_, h.qdict, h.ident⟩⟩
          intro hg'; rw [hg] at hg'; cases hg'
        | true =>
          have hgr := h.graphs hg m hm
          simp only [if_true, hgr]
          cases hgl : (alookup m M.graphs).isNone with
          | true => exact ⟨rfl, h⟩
          | false =>
            simp only [Bool.false_eq_true, if_false]
            exact ⟨rfl, ⟨h.models, h.mctx, agree_aset ρ hρ _ _ _ m dst h.mstate, h.ctx,
              fun _ => agree_aset_isNone ρ hρ _ _ _ m _ (h.graphs hg), h.qdict, h.ident⟩⟩
  | false =>
    simp only [Bool.false_and, Bool.false_eq_true, if_false]
    cases hd : δ ep (M.stateOf m) ev with
    | none => exact ⟨rfl, h⟩
    | some dst =>
      cases hg : k.graph with
      | false =>
        simp only [Bool.false_eq_true, if_false]
        refine ⟨rfl, ⟨h.models, h.mctx, agree_aset ρ hρ _ _ _ m dst h.mstate, h.ctx, ?_, h.qdict, h.ident⟩⟩
        intro hg'; rw [hg] at hg'; cases hg'
      | true =>
        have hgr := h.graphs hg m hm
        simp only [if_true, hgr]
        cases hgl : (alookup m M.graphs).isNone with
        | true => exact ⟨rfl, h⟩
        | false =>
          simp only [Bool.false_eq_true, if_false]
          exact ⟨rfl, ⟨h.models, h.mctx, agree_aset ρ hρ _ _ _ m dst h.mstate, h.ctx,
            fun _ => agree_aset_isNone ρ hρ _ _ _ m _ (h.graphs hg), h.qdict, h.ident⟩⟩

theorem sim_trigger {k ρ M M'} (δ : Delta) (hρ : Inj ρ) (h : Sim k ρ M M') (held : List Nat) (ep m ev : Nat)
    (hm : m ∈ M.models) :
    (trigger k δ (held.map ρ) M' ep (ρ m) ev).2 = renObs ρ (trigger k δ held M ep m ev).2 ∧
    Sim k ρ (trigger k δ held M ep m ev).1 (trigger k δ (held.map ρ) M' ep (ρ m) ev).1 := by
  unfold trigger
  simp only [contexts_sim h m hm, find_held_map ρ hρ held]
  cases hf : (contexts k M m).find? (fun l => decide (l ∈ held)) with
  | some l => exact ⟨rfl, sim_touch h m⟩
  | none =>
    have hm' : m ∈ (touch k M m).models := by rw [touch_models]; exact hm
    exact sim_fire δ hρ (sim_touch h m) (contexts k M m) ep m ev hm'

/-! ### regeneration of graphs, steps, runs -/

theorem alookup_regen (M : PM) (x : Nat) : ∀ (ms : List Nat) (g : Tab Nat),
    alookup x (regenGraphs M ms g) = if x ∈ ms then some (M.stateOf x + 1) else alookup x g
  | [], g => by simp [regenGraphs]
  | y :: r, g => by
    rw [regenGraphs, alookup_regen M x r]
    by_cases hr : x ∈ r
    · simp [hr]
    · by_cases hy : x = y
      · subst hy; simp [alookup_aset_self']
      · simp [hr, hy, alookup_aset_ne' _ _ _ hy]

theorem sim_step {k ρ M M'} (δ : Delta) (hρ : Inj ρ) (h : Sim k ρ M M') (held : List Nat) (e : Ev)
    (he : e.onModels M.models) :
    (step k δ (held.map ρ) M' (renEv ρ e)).2 = renObs ρ (step k δ held M e).2 ∧
    Sim k ρ (step k δ held M e).1 (step k δ (held.map ρ) M' (renEv ρ e)).1 := by
  cases e with
  | trigger ep m ev => exact sim_trigger δ hρ h held ep m ev he
  | readd m =>
    refine ⟨?_, h⟩
    simp only [step, renEv, renObs, h.models, List.length_map]
  | regen =>
    refine ⟨rfl, ?_⟩
    simp only [step, renEv]
    cases hg : k.graph with
    | false => simpa using h
    | true =>
      simp only [if_true]
      refine ⟨h.models, h.mctx, h.mstate, h.ctx, ?_, h.qdict, h.ident⟩
      intro _ m hm
      have hm' : m ∈ M.models := hm
      rw [alookup_regen, alookup_regen, h.models]
      have : ρ m ∈ M.models.map ρ := List.mem_map.mpr ⟨m, hm', rfl⟩
      simp only [this, hm', if_true, Option.isNone_some]

theorem fire_fields (k : Kind) (δ : Delta) (M : PM) (cs : List Nat) (ep m ev : Nat) :
    (fire k δ M cs ep m ev).1.models = M.models ∧ (fire k δ M cs ep m ev).1.mctx = M.mctx ∧
    (fire k δ M cs ep m ev).1.ctx = M.ctx ∧ (fire k δ M cs ep m ev).1.qdict = M.qdict := by
  unfold fire
  dsimp only
  repeat' split
  all_goals exact ⟨rfl, rfl, rfl, rfl⟩

theorem trigger_models (k : Kind) (δ : Delta) (held : List Nat) (M : PM) (ep m ev : Nat) :
    (trigger k δ held M ep m ev).1.models = M.models ∧ (trigger k δ held M ep m ev).1.mctx = M.mctx := by
  unfold trigger
  dsimp only
  split
  · exact ⟨touch_models .., touch_mctx ..⟩
  · have := fire_fields k δ (touch k M m) (contexts k M m) ep m ev
    exact ⟨this.1.trans (touch_models ..), this.2.1.trans (touch_mctx ..)⟩

theorem step_models (k : Kind) (δ : Delta) (held : List Nat) (M : PM) (e : Ev) :
    (step k δ held M e).1.models = M.models := by
  cases e with
  | trigger ep m ev => exact (trigger_models ..).1
  | regen => simp only [step]; split <;> rfl
  | readd m => rfl

theorem sim_run {k ρ} (δ : Delta) (hρ : Inj ρ) (held : List Nat) :
    ∀ (h : List Ev) (M M' : PM), Sim k ρ M M' → (∀ e ∈ h, e.onModels M.models) →
      (run k δ (held.map ρ) M' (h.map (renEv ρ))).2 = (run k δ held M h).2.map (renObs ρ) ∧
      Sim k ρ (run k δ held M h).1 (run k δ (held.map ρ) M' (h.map (renEv ρ))).1
  | [], M, M', hs, _ => ⟨rfl, hs⟩
  | e :: es, M, M', hs, hh => by
    obtain ⟨o1, s1⟩ := sim_step δ hρ hs held e (hh e (List.mem_cons_self ..))
    have hh' : ∀ e' ∈ es, e'.onModels (step k δ held M e).1.models := by
      intro e' he'; rw [step_models]; exact hh e' (List.mem_cons_of_mem _ he')
    obtain ⟨o2, s2⟩ := sim_run δ hρ held es _ _ s1 hh'
    simp only [List.map_cons, run]
    exact ⟨by rw [o1, o2], s2⟩

/-! ### the round trip -/

/-- every registered model of a graph machine has a graph, every registered model of a
    `queued='model'` machine has a queue (both established by `add_model`; nothing deletes a graph,
    `remove_model` deletes the queue together with the registration) -/
def WF (k : Kind) (M : PM) : Prop :=
  (k.graph = true → ∀ m ∈ M.models, (alookup m M.graphs).isSome = true) ∧
  (k.qmodel = true → ∀ m ∈ M.models, (alookup m M.qdict).isSome = true)

theorem base_fields (k : Kind) (ρ : Nat → Nat) (M : PM) :
    (baseSetstate k (transport ρ (baseGetstate k M))).models = M.models.map ρ ∧
    (baseSetstate k (transport ρ (baseGetstate k M))).mctx = M.mctx.map ρ ∧
    (baseSetstate k (transport ρ (baseGetstate k M))).mstate = M.mstate.map fun e => (ρ e.1, e.2) := by
  unfold baseSetstate baseGetstate
  cases k.locked <;> cases k.qmodel <;> exact ⟨rfl, rfl, rfl⟩

theorem roundtrip_base (k : Kind) (ρ : Nat → Nat) (M : PM) :
    (roundtrip k ρ M).models = (baseSetstate k (transport ρ (baseGetstate k M))).models ∧
    (roundtrip k ρ M).mctx = (baseSetstate k (transport ρ (baseGetstate k M))).mctx ∧
    (roundtrip k ρ M).mstate = (baseSetstate k (transport ρ (baseGetstate k M))).mstate ∧
    (roundtrip k ρ M).ctx = (baseSetstate k (transport ρ (baseGetstate k M))).ctx ∧
    (roundtrip k ρ M).qdict = (baseSetstate k (transport ρ (baseGetstate k M))).qdict := by
  unfold roundtrip setstate getstate baseSetstate baseGetstate
  cases k.graph <;> cases k.locked <;> cases k.qmodel <;> exact ⟨rfl, rfl, rfl, rfl, rfl⟩

theorem roundtrip_mstate (k : Kind) (ρ : Nat → Nat) (M : PM) :
    (roundtrip k ρ M).mstate = M.mstate.map fun e => (ρ e.1, e.2) :=
  (roundtrip_base k ρ M).2.2.1.trans (base_fields k ρ M).2.2

theorem roundtrip_models (k : Kind) (ρ : Nat → Nat) (M : PM) :
    (roundtrip k ρ M).models = M.models.map ρ ∧ (roundtrip k ρ M).mctx = M.mctx.map ρ :=
  ⟨(roundtrip_base k ρ M).1.trans (base_fields k ρ M).1, (roundtrip_base k ρ M).2.1.trans (base_fields k ρ M).2.1⟩

theorem roundtrip_ident (k : Kind) (ρ : Nat → Nat) (M : PM) : (roundtrip k ρ M).identHeld = false := by
  unfold roundtrip setstate getstate baseSetstate baseGetstate
  cases k.graph <;> cases k.locked <;> cases k.qmodel <;> rfl

theorem roundtrip_stateOf (k : Kind) (ρ : Nat → Nat) (hρ : Inj ρ) (M : PM) (m : Nat) :
    (roundtrip k ρ M).stateOf (ρ m) = M.stateOf m := by
  unfold PM.stateOf
  rw [roundtrip_mstate]
  have := alookup_map_key ρ hρ (fun s : Nat => s) m M.mstate
  simp only [Option.map_id'] at this
  rw [this]

/-- every locked class (with or without graph support): the new map has exactly one entry per model,
    under the new id, in registration order, holding that model's (translated) contexts -/
theorem locked_ctx (k : Kind) (hl : k.locked = true) (ρ : Nat → Nat) (hρ : Inj ρ) (M : PM) :
    (roundtrip k ρ M).ctx = M.models.map fun m => (ρ m, (lookupD m M.ctx).map ρ) := by
  rw [(roundtrip_base k ρ M).2.2.2.1]
  unfold baseSetstate baseGetstate
  simp only [hl, if_true]
  simp only [lockedSetstate, transport, lockedGetstate, defaultGetstate, defaultSetstate, Option.map_some,
    Option.getD_some, List.map_map]
  apply List.map_congr_left
  intro m hm
  have hcomp : ((fun e : Nat × List Nat => (ρ e.fst, List.map ρ e.snd)) ∘ fun m => (m, lookupD m M.ctx)) =
      fun x => (ρ x, (lookupD x M.ctx).map ρ) := rfl
  have := alookup_of_list ρ hρ (fun x => (lookupD x M.ctx).map ρ) m M.models hm
  simp only [Function.comp, hcomp, this, Option.getD_some]

/-- classes that are not locked keep the context map they have (it is empty: no such attribute) -/
theorem unlocked_ctx (k : Kind) (hl : k.locked = false) (ρ : Nat → Nat) (M : PM) :
    (roundtrip k ρ M).ctx = M.ctx.map fun e => (e.1, e.2.map ρ) := by
  rw [(roundtrip_base k ρ M).2.2.2.1]
  unfold baseSetstate baseGetstate
  simp only [hl, Bool.false_eq_true, if_false]
  cases k.qmodel <;> rfl

/-- async classes with `queued='model'`: one queue per model under the new id, registration order -/
theorem async_qdict (k : Kind) (hl : k.locked = false) (hq : k.qmodel = true) (ρ : Nat → Nat) (M : PM) :
    (roundtrip k ρ M).qdict = M.models.map fun m => (ρ m, lookupD m M.qdict) := by
  rw [(roundtrip_base k ρ M).2.2.2.2]
  unfold baseSetstate baseGetstate
  simp only [hl, hq, Bool.false_eq_true, if_false, if_true]
  simp only [asyncSetstate, transport, asyncGetstate, defaultGetstate, defaultSetstate, Option.map_some,
    Option.getD_some, List.map_map]
  rfl

/-- graph classes: one fresh graph per model under the new id, showing the model's state -/
theorem graph_graphs (k : Kind) (hg : k.graph = true) (ρ : Nat → Nat) (hρ : Inj ρ) (M : PM) :
    (roundtrip k ρ M).graphs = M.models.map fun m => (ρ m, M.stateOf m + 1) := by
  have hb := base_fields k ρ M
  have : (roundtrip k ρ M).graphs =
      (baseSetstate k (transport ρ (baseGetstate k M))).models.map fun m =>
        (m, (baseSetstate k (transport ρ (baseGetstate k M))).stateOf m + 1) := by
    unfold roundtrip setstate getstate
    simp only [hg, if_true]
    unfold baseSetstate baseGetstate
    cases k.locked <;> cases k.qmodel <;> rfl
  rw [this, hb.1, List.map_map]
  apply List.map_congr_left
  intro m _
  have h2 := alookup_map_key ρ hρ (fun s : Nat => s) m M.mstate
  simp only [Option.map_id'] at h2
  simp only [Function.comp, PM.stateOf, hb.2.2, h2]

/-- the copy simulates the original AT REST (`quiesce M`): the event in progress while the snapshot was
    taken (if any) is not part of the machine -/
theorem roundtrip_sim (k : Kind) (hk : k.predefined = true) (ρ : Nat → Nat) (hρ : Inj ρ) (M : PM) (hwf : WF k M) :
    Sim k ρ (quiesce M) (roundtrip k ρ M) where
  models := (roundtrip_models k ρ M).1
  mctx := (roundtrip_models k ρ M).2
  mstate := by
    intro m _
    show alookup (ρ m) (roundtrip k ρ M).mstate = alookup m M.mstate
    rw [roundtrip_mstate]
    have := alookup_map_key ρ hρ (fun s : Nat => s) m M.mstate
    simpa only [Option.map_id'] using this
  ctx := by
    intro hl m hm
    show lookupD (ρ m) (roundtrip k ρ M).ctx = (lookupD m M.ctx).map ρ
    rw [locked_ctx k hl ρ hρ M]
    unfold lookupD
    rw [alookup_of_list ρ hρ (fun x => ((alookup x M.ctx).getD []).map ρ) m M.models hm]
    rfl
  graphs := by
    intro hg m hm
    show (alookup (ρ m) (roundtrip k ρ M).graphs).isNone = (alookup m M.graphs).isNone
    rw [graph_graphs k hg ρ hρ M, alookup_of_list ρ hρ (fun x => M.stateOf x + 1) m M.models hm]
    have := hwf.1 hg m hm
    cases hl : alookup m M.graphs with
    | none => rw [hl] at this; cases this
    | some _ => rfl
  qdict := by
    intro hq m hm
    have hl : k.locked = false := by
      cases hl : k.locked with
      | false => rfl
      | true =>
        cases ha : k.asyncio <;> simp [Kind.predefined, hl, hq, ha] at hk
    show (alookup (ρ m) (roundtrip k ρ M).qdict).isNone = (alookup m M.qdict).isNone
    rw [async_qdict k hl hq ρ M, alookup_of_list ρ hρ (fun x => lookupD x M.qdict) m M.models hm]
    have := hwf.2 hq m hm
    cases hx : alookup m M.qdict with
    | none => rw [hx] at this; cases this
    | some _ => rfl
  ident := fun _ => roundtrip_ident k ρ M

/-! ### locks -/

theorem lookupD_sub (m l : Nat) : ∀ t : Tab (List Nat), l ∈ lookupD m t → l ∈ t.flatMap (·.2)
  | [], h => by simp [lookupD, alookup] at h
  | (k', v) :: r, h => by
    unfold lookupD at h
    simp only [alookup] at h
    simp only [List.flatMap_cons, List.mem_append]
    by_cases e : k' = m
    · simp only [e, if_true, Option.getD_some] at h; exact Or.inl h
    · simp only [e, if_false] at h; exact Or.inr (lookupD_sub m l r h)

theorem contexts_sub (k : Kind) (M : PM) (m l : Nat) (h : l ∈ contexts k M m) : l ∈ lockIds M := by
  unfold contexts at h
  unfold lockIds
  rw [List.mem_append]
  cases hl : k.locked with
  | false => simp [hl] at h
  | true =>
    cases hi : M.identHeld with
    | true => simp [hl, hi] at h
    | false =>
      cases hn : k.nested with
      | true =>
        simp only [hl, hn, hi, if_true, Bool.false_eq_true, if_false] at h
        split at h
        · exact Or.inl h
        · exact Or.inr (lookupD_sub m l _ h)
      | false => simp [hl, hn, hi] at h; exact Or.inr (lookupD_sub m l _ h)

theorem trigger_unheld (k : Kind) (δ : Delta) (held : List Nat) (M : PM) (ep m ev : Nat)
    (h : ∀ l ∈ lockIds M, l ∉ held) : trigger k δ held M ep m ev = trigger k δ [] M ep m ev := by
  unfold trigger
  have h1 : (contexts k M m).find? (fun l => decide (l ∈ held)) = none := by
    rw [List.find?_eq_none]
    intro l hl; simpa using h l (contexts_sub k M m l hl)
  have h2 : (contexts k M m).find? (fun l => decide (l ∈ ([] : List Nat))) = none := by
    rw [List.find?_eq_none]
    intro l _; simp
  simp only [h1, h2]

theorem lockIds_touch (k : Kind) (M : PM) (m : Nat) : lockIds (touch k M m) = lockIds M := by
  unfold touch
  split
  · simp [lockIds]
  · rfl

theorem lockIds_step (k : Kind) (δ : Delta) (held : List Nat) (M : PM) (e : Ev) :
    lockIds (step k δ held M e).1 = lockIds M := by
  cases e with
  | trigger ep m ev =>
    simp only [step]
    unfold trigger
    dsimp only
    split
    · exact lockIds_touch ..
    · have := fire_fields k δ (touch k M m) (contexts k M m) ep m ev
      unfold lockIds
      rw [this.2.1, this.2.2.1]
      exact lockIds_touch ..
  | regen => simp only [step]; split <;> rfl
  | readd m => rfl

theorem run_unheld (k : Kind) (δ : Delta) (held : List Nat) :
    ∀ (h : List Ev) (M : PM), (∀ l ∈ lockIds M, l ∉ held) → run k δ held M h = run k δ [] M h
  | [], _, _ => rfl
  | e :: es, M, hM => by
    have h1 : step k δ held M e = step k δ [] M e := by
      cases e with
      | trigger ep m ev => exact trigger_unheld k δ held M ep m ev hM
      | regen => rfl
      | readd m => rfl
    simp only [run, h1]
    have hM' : ∀ l ∈ lockIds (step k δ [] M e).1, l ∉ held := by rw [lockIds_step]; exact hM
    rw [run_unheld k δ held es _ hM']

theorem lockIds_roundtrip (k : Kind) (ρ : Nat → Nat) (hρ : Inj ρ) (M : PM) :
    ∀ l ∈ lockIds (roundtrip k ρ M), ∃ l0 ∈ lockIds M, l = ρ l0 := by
  intro l hl
  unfold lockIds at hl
  rw [List.mem_append] at hl
  rcases hl with hl | hl
  · rw [(roundtrip_models k ρ M).2] at hl
    obtain ⟨a, ha, e⟩ := List.mem_map.mp hl
    exact ⟨a, by unfold lockIds; exact List.mem_append_left _ ha, e.symm⟩
  · cases hlk : k.locked with
    | true =>
      rw [locked_ctx k hlk ρ hρ M] at hl
      simp only [List.mem_flatMap, List.mem_map] at hl
      obtain ⟨e, ⟨m, _, rfl⟩, hle⟩ := hl
      obtain ⟨a, ha, rfl⟩ := List.mem_map.mp hle
      exact ⟨a, by unfold lockIds; exact List.mem_append_right _ (lookupD_sub m a _ ha), rfl⟩
    | false =>
      rw [unlocked_ctx k hlk ρ M] at hl
      simp only [List.mem_flatMap, List.mem_map] at hl
      obtain ⟨e, ⟨e0, he0, rfl⟩, hle⟩ := hl
      obtain ⟨a, ha, rfl⟩ := List.mem_map.mp hle
      exact ⟨a, by unfold lockIds; exact List.mem_append_right _ (List.mem_flatMap.mpr ⟨e0, he0, ha⟩), rfl⟩

/-! ### frame: an event on model `m` writes only under the key `m` -/

theorem trigger_frame (k : Kind) (δ : Delta) (held : List Nat) (M : PM) (ep m ev : Nat) (x : Nat) (hx : x ≠ m) :
    alookup x (trigger k δ held M ep m ev).1.mstate = alookup x M.mstate ∧
    alookup x (trigger k δ held M ep m ev).1.graphs = alookup x M.graphs ∧
    lookupD x (trigger k δ held M ep m ev).1.ctx = lookupD x M.ctx ∧
    (trigger k δ held M ep m ev).1.qdict = M.qdict := by
  unfold trigger
  dsimp only
  split
  · exact ⟨by rw [touch_mstate], by rw [touch_graphs], lookupD_touch .., touch_qdict ..⟩
  · have hf := fire_fields k δ (touch k M m) (contexts k M m) ep m ev
    refine ⟨?_, ?_, by rw [hf.2.2.1]; exact lookupD_touch .., hf.2.2.2.trans (touch_qdict ..)⟩
    · unfold fire
      dsimp only
      repeat' split
      all_goals simp only [touch_mstate, alookup_aset_ne' _ _ _ hx]
    · unfold fire
      dsimp only
      repeat' split
      all_goals simp only [touch_graphs, alookup_aset_ne' _ _ _ hx]

end Pickle
end TM
