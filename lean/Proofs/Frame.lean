/-
  Proofs/Frame.lean — with a script that issues no re-entrant commands, no engine function touches
  the model list, the queue or the tag counter, whatever its callbacks return or raise
  (no well-formedness hypothesis).
-/
import Proofs.C04

namespace TM

/-- every `call` item of the segment is on behalf of model `m` -/
def OnlyModel (m : Nat) (seg : List Item) : Prop :=
  ∀ it ∈ seg, ∀ sl c m' t st, it = Item.call sl c m' t st → m' = m

/-- `s'` extends `s`: model list, queue and tag counter untouched, the log grew by a segment whose
callback invocations are all on behalf of model `m` -/
structure Ext (m : Nat) (s s' : St) : Prop where
  frame : Frame' s s'
  log : ∃ seg, s'.log = s.log ++ seg ∧ OnlyModel m seg

theorem Ext.refl (m : Nat) (s : St) : Ext m s s :=
  ⟨⟨rfl, rfl, rfl⟩, [], by simp, by intro it h; cases h⟩

theorem Ext.trans {m : Nat} {a b c : St} (h1 : Ext m a b) (h2 : Ext m b c) : Ext m a c := by
  obtain ⟨g1, l1, o1⟩ := h1.log
  obtain ⟨g2, l2, o2⟩ := h2.log
  refine ⟨h1.frame.trans h2.frame, g1 ++ g2, by rw [l2, l1, List.append_assoc], ?_⟩
  intro it hit
  rcases List.mem_append.mp hit with h | h
  · exact o1 it h
  · exact o2 it h

/-- every completed run of `r` (normal or exceptional) ends in a state extending `s` -/
def PresR {α} (m : Nat) (r : R α) (s : St) : Prop := ∀ s', r.state? = some s' → Ext m s s'

theorem PresR.ok {α} (m : Nat) (a : α) (s : St) : PresR m (.ok a s : R α) s := by
  intro s' h; simp [Res.state?] at h; subst h; exact Ext.refl _ _
theorem PresR.err {α} (m : Nat) (e : Exc) (s : St) : PresR m (.err e s : R α) s := by
  intro s' h; simp [Res.state?] at h; subst h; exact Ext.refl _ _

theorem PresR.weaken {α} {m : Nat} {r : R α} {s0 s : St} (f : Ext m s0 s) (h : PresR m r s) :
    ∀ s', r.state? = some s' → Ext m s0 s' :=
  fun s' hs => f.trans (h s' hs)

theorem PresR.bind {α β} {m : Nat} {r : R α} {f : α → St → R β} {s : St}
    (h1 : PresR m r s) (h2 : ∀ a s1, Ext m s s1 → ∀ s', (f a s1).state? = some s' → Ext m s s') :
    PresR m (r.bind f) s := by
  intro s' h
  cases r with
  | ok a s1 => exact h2 a s1 (h1 s1 rfl) s' h
  | err e s1 => simp [Res.bind, Res.state?] at h; subst h; exact h1 s1 rfl
  | oof => simp [Res.bind, Res.state?] at h

variable (sub : Sub) (sc : Script) (cfg : Cfg)

theorem invoke_pres (hC : NoCmds sc) (slot : Slot) (x : Ctx) (c : Nat) (s : St) :
    PresR x.model (invoke sub sc slot x c s) s := by
  obtain ⟨o, s1, f, l, h⟩ := invoke_any sub sc hC slot x c s
  intro s' hs
  rw [h] at hs
  have : s' = s1 := by cases o <;> (simp [Res.state?] at hs; exact hs.symm)
  subst this
  refine ⟨f.toFrame', _, l, ?_⟩
  intro it hit sl c' m' t st heq
  simp at hit
  rcases hit with h1 | h1
  · rw [h1] at heq; cases heq; rfl
  · rw [h1] at heq; cases heq

theorem callbacks_pres (hC : NoCmds sc) (slot : Slot) (x : Ctx) : ∀ (cbs : List Nat) (s : St),
    PresR x.model (callbacks sub sc slot x cbs s) s
  | [], s => PresR.ok _ _ _
  | c :: cs, s => by
    unfold callbacks
    refine PresR.bind (invoke_pres sub sc hC slot x c s) ?_
    intro _ s1 f1
    exact PresR.weaken f1 (callbacks_pres hC slot x cs s1)

theorem evalConds_pres (hC : NoCmds sc) (x : Ctx) : ∀ (cs : List Cond) (s : St),
    PresR x.model (evalConds sub sc x cs s) s
  | [], s => PresR.ok _ _ _
  | c :: cs, s => by
    unfold evalConds
    refine PresR.bind (invoke_pres sub sc hC _ x c.cb s) ?_
    intro b s1 f1
    split
    · exact PresR.weaken f1 (evalConds_pres hC x cs s1)
    · exact PresR.weaken f1 (PresR.ok _ _ _)

theorem setState_ext (m0 : Nat) (s : St) (m st : Nat) : Ext m0 s (s.setState m st) :=
  ⟨⟨rfl, rfl, rfl⟩, [], by simp [St.setState], by intro it h; cases h⟩

theorem changeState_pres (hC : NoCmds sc) (x : Ctx) (t : Trans) (d : Nat) (s : St) :
    PresR x.model (changeState sub sc cfg x t d s) s := by
  unfold changeState
  cases cfg.state? (s.stateOf x.model) with
  | none => exact PresR.err _ _ _
  | some src =>
    refine PresR.bind (callbacks_pres sub sc hC _ x _ s) ?_
    intro _ s1 f1
    cases cfg.state? d with
    | none => exact PresR.weaken f1 (PresR.err _ _ _)
    | some dd =>
      refine PresR.weaken (f1.trans (setState_ext x.model s1 x.model d)) (PresR.bind (callbacks_pres sub sc hC _ x _ _) ?_)
      intro _ s3 _
      by_cases hf : dd.final
      · simp only [hf, if_true]
        intro s' hs; exact (Ext.trans ‹_› (callbacks_pres sub sc hC _ x _ s3 s' hs))
      · simp only [hf]
        intro s' hs; simp [Res.state?] at hs; subst hs; assumption

theorem execute_pres (hC : NoCmds sc) (x : Ctx) (t : Trans) (s : St) :
    PresR x.model (execute sub sc cfg x t s) s := by
  unfold execute
  refine PresR.bind (callbacks_pres sub sc hC _ x _ s) ?_
  intro _ s1 f1
  refine PresR.weaken f1 (PresR.bind (evalConds_pres sub sc hC x _ s1) ?_)
  intro ok s2 f2
  cases ok with
  | false => exact PresR.weaken f2 (PresR.ok _ _ _)
  | true =>
    simp only [Bool.not_true, Bool.false_eq_true, if_false]
    refine PresR.weaken f2 (PresR.bind (callbacks_pres sub sc hC _ x _ s2) ?_)
    intro _ s3 f3
    refine PresR.weaken f3 (PresR.bind (callbacks_pres sub sc hC _ x _ s3) ?_)
    intro _ s4 f4
    have hcs : PresR x.model (match t.dest with
        | some d => changeState sub sc cfg x t d s4
        | none => (.ok () s4 : R Unit)) s4 := by
      cases t.dest with
      | none => exact PresR.ok _ _ _
      | some d => exact changeState_pres sub sc cfg hC x t d s4
    refine PresR.weaken f4 (PresR.bind hcs ?_)
    intro _ s5 f5
    refine PresR.weaken f5 (PresR.bind (callbacks_pres sub sc hC _ x _ s5) ?_)
    intro _ s6 f6
    refine PresR.weaken f6 (PresR.bind (callbacks_pres sub sc hC _ x _ s6) ?_)
    intro _ s7 f7
    exact PresR.weaken f7 (PresR.ok _ _ _)

theorem tryTransitions_pres (hC : NoCmds sc) (x : Ctx) : ∀ (ts : List Trans) (s : St),
    PresR x.model (tryTransitions sub sc cfg x ts s) s
  | [], s => PresR.ok _ _ _
  | t :: ts, s => by
    unfold tryTransitions
    refine PresR.bind (execute_pres sub sc cfg hC x t s) ?_
    intro ok s1 f1
    cases ok with
    | true => exact PresR.weaken f1 (PresR.ok _ _ _)
    | false => exact PresR.weaken f1 (tryTransitions_pres hC x ts s1)

theorem guarded_pres (hC : NoCmds sc) (x : Ctx) (body : R Bool) (s : St) (hb : PresR x.model body s) :
    PresR x.model (guarded sub sc cfg x body) s := by
  have hfin : ∀ sa, Ext x.model s sa → ∀ sb, runFinalize sub sc cfg x sa = some sb → Ext x.model s sb := by
    intro sa fa sb h
    unfold runFinalize at h
    have := callbacks_pres sub sc hC .finalize x cfg.finalize sa
    cases hc : callbacks sub sc .finalize x cfg.finalize sa with
    | ok u s1 => simp [hc] at h; subst h; exact fa.trans (this s1 (by simp [hc, Res.state?]))
    | err e s1 => simp [hc] at h; subst h; exact fa.trans (this s1 (by simp [hc, Res.state?]))
    | oof => simp [hc] at h
  have hex : PresR x.model (exceptClause sub sc cfg x body) s := by
    cases body with
    | ok b s1 => exact hb
    | oof => intro s' h; simp [exceptClause, Res.state?] at h
    | err e s1 =>
      have f1 := hb s1 rfl
      unfold exceptClause
      cases hh : cfg.onException with
      | nil => exact PresR.weaken f1 (PresR.err _ _ _)
      | cons h0 hs =>
        refine PresR.weaken f1 (PresR.bind (callbacks_pres sub sc hC _ x _ s1) ?_)
        intro _ s2 f2
        exact PresR.weaken f2 (PresR.ok _ _ _)
  intro s' h
  unfold guarded finallyClause at h
  cases he : exceptClause sub sc cfg x body with
  | ok b s1 =>
    simp only [he] at h
    cases hf : runFinalize sub sc cfg x s1 with
    | none => simp [hf, Res.state?] at h
    | some sb => simp [hf, Res.state?] at h; subst h; exact hfin s1 (hex s1 (by simp [he, Res.state?])) sb hf
  | err e s1 =>
    simp only [he] at h
    cases hf : runFinalize sub sc cfg x s1 with
    | none => simp [hf, Res.state?] at h
    | some sb => simp [hf, Res.state?] at h; subst h; exact hfin s1 (hex s1 (by simp [he, Res.state?])) sb hf
  | oof => simp [he, Res.state?] at h

theorem eventTrigger_pres (hC : NoCmds sc) (ts : List Trans) (x : Ctx) (s : St) :
    PresR x.model (eventTrigger sub sc cfg ts x s) s := by
  simp only [eventTrigger]
  cases hsd : cfg.state? (s.stateOf x.model) with
  | none => exact PresR.err _ _ _
  | some sd =>
    simp only []
    apply guarded_pres sub sc cfg hC
    cases candidates ts (s.stateOf x.model) with
    | none =>
      simp only []
      split
      · exact PresR.ok _ _ _
      · exact PresR.err _ _ _
    | some cs =>
      simp only [eventProcess]
      refine PresR.bind (callbacks_pres sub sc hC _ x _ s) ?_
      intro _ s1 f1
      exact PresR.weaken f1 (tryTransitions_pres sub sc cfg hC x cs s1)

/-- `model.trigger(name)` on an unqueued machine: model list, queue and tag counter are untouched -/
theorem triggerByName_pres (hC : NoCmds sc) (hq : cfg.queued = false) (qmax m ev tag : Nat) (s : St) :
    PresR m (triggerByName sub sc cfg qmax m ev tag s) s := by
  unfold triggerByName
  split
  · exact PresR.err _ _ _
  · cases cfg.event? ev with
    | some ts =>
      simp only [machineProcess, hq, Bool.not_false, if_true]
      cases s.queue with
      | nil => exact eventTrigger_pres sub sc cfg hC _ _ s
      | cons _ _ => exact PresR.err _ _ _
    | none =>
      simp only []
      cases cfg.state? (s.stateOf m) with
      | none => exact PresR.err _ _ _
      | some _ =>
        simp only []
        split
        · exact PresR.ok _ _ _
        · exact PresR.err _ _ _

end TM
