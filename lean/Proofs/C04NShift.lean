/-
  Proofs/C04NShift.lean — the nested engine never reads its two logs.

  `NSt` carries the observable log (`log : List Item`) and the ghost log (`glog : List GEv`).  Every function
  of `Model/Nested.lean` / `Model/NestedDispatch.lean` only ever APPENDS to them (`NSt.emit`, `NSt.emitG`);
  no branch, no value and no other field depends on what they already contain.  This file states that as a
  commutation: running a function from a state whose logs carry extra prefixes `L` / `G` (`NSt.shift L G s`)
  gives the same three-way result, with the same value / exception, and a final state which is the final
  state of the unshifted run with the same prefixes (`Res.shiftN L G`).

  `Shifts F` is that statement for `F : NSt → NR α`; `SubShifts sub` for a command interpreter.  The family is
  proved function by function in definition order (`nrunCmds` … `napiTrigger`), each under the hypothesis
  that the re-entrant interpreter `sub` shifts; the fuelled knot `nrunCmd` then shifts at every fuel by
  induction (`nrunCmd_subShifts`), and a whole history does (`nrunHistory_shift`).

  What it gives: a run may be cut at any point of its history and the remainder replayed from the same state
  with empty logs — the logs of the full run are the prefix so far followed by the logs of the replay
  (`NSt.shift_nil`, `NSt.shift_shift`).
-/
import Model

namespace TM

/-- the same state with `L` / `G` put in front of the two logs -/
def NSt.shift (L : List Item) (G : List GEv) (s : NSt) : NSt := { s with log := L ++ s.log, glog := G ++ s.glog }

def Res.shiftN {α : Type} (L : List Item) (G : List GEv) : NR α → NR α
  | .ok v s => .ok v (s.shift L G)
  | .err e s => .err e (s.shift L G)
  | .oof => .oof

/-- `F` commutes with log prefixes -/
def Shifts {α : Type} (F : NSt → NR α) : Prop := ∀ L G s, F (s.shift L G) = Res.shiftN L G (F s)

def SubShifts (sub : NSub) : Prop := ∀ c, Shifts (sub c)

/-! ### projections and the two emitters -/

@[simp] theorem NSt.shift_conf (L : List Item) (G : List GEv) (s : NSt) : (s.shift L G).conf = s.conf := rfl
@[simp] theorem NSt.shift_queue (L : List Item) (G : List GEv) (s : NSt) : (s.shift L G).queue = s.queue := rfl
@[simp] theorem NSt.shift_counts (L : List Item) (G : List GEv) (s : NSt) : (s.shift L G).counts = s.counts := rfl
@[simp] theorem NSt.shift_nextTag (L : List Item) (G : List GEv) (s : NSt) : (s.shift L G).nextTag = s.nextTag := rfl
@[simp] theorem NSt.shift_result (L : List Item) (G : List GEv) (s : NSt) : (s.shift L G).result = s.result := rfl
@[simp] theorem NSt.shift_exited (L : List Item) (G : List GEv) (s : NSt) : (s.shift L G).exited = s.exited := rfl
@[simp] theorem NSt.shift_log (L : List Item) (G : List GEv) (s : NSt) : (s.shift L G).log = L ++ s.log := rfl
@[simp] theorem NSt.shift_glog (L : List Item) (G : List GEv) (s : NSt) : (s.shift L G).glog = G ++ s.glog := rfl
@[simp] theorem NSt.shift_count (L : List Item) (G : List GEv) (s : NSt) (c : Nat) :
    (s.shift L G).count c = s.count c := rfl

theorem shift_emit (L : List Item) (G : List GEv) (s : NSt) (i : Item) :
    (s.shift L G).emit i = (s.emit i).shift L G := by
  simp [NSt.shift, NSt.emit, List.append_assoc]

theorem shift_emitG (L : List Item) (G : List GEv) (s : NSt) (g : GEv) :
    (s.shift L G).emitG g = (s.emitG g).shift L G := by
  simp [NSt.shift, NSt.emitG, List.append_assoc]

/-- empty prefixes change nothing -/
theorem NSt.shift_nil (s : NSt) : s.shift [] [] = s := by
  simp [NSt.shift]

/-- prefixes compose -/
theorem NSt.shift_shift (L L' : List Item) (G G' : List GEv) (s : NSt) :
    (s.shift L G).shift L' G' = s.shift (L' ++ L) (G' ++ G) := by
  simp [NSt.shift, List.append_assoc]

@[simp] theorem Res.shiftN_ok {α : Type} (L : List Item) (G : List GEv) (v : α) (s : NSt) :
    Res.shiftN L G (.ok v s : NR α) = .ok v (s.shift L G) := rfl
@[simp] theorem Res.shiftN_err {α : Type} (L : List Item) (G : List GEv) (e : Exc) (s : NSt) :
    Res.shiftN L G (.err e s : NR α) = .err e (s.shift L G) := rfl
@[simp] theorem Res.shiftN_oof {α : Type} (L : List Item) (G : List GEv) :
    Res.shiftN L G (.oof : NR α) = .oof := rfl

/-! ### combinators -/

/-- pointwise form of `Shifts.bind`, for goals where the state is already fixed -/
theorem Res.shiftN_bind {α β : Type} {L : List Item} {G : List GEv} {r' r : NR α} {K : α → NSt → NR β}
    (h : r' = Res.shiftN L G r) (hK : ∀ v s, K v (s.shift L G) = Res.shiftN L G (K v s)) :
    r'.bind K = Res.shiftN L G (r.bind K) := by
  subst h
  cases r with
  | ok v s => exact hK v s
  | err e s => rfl
  | oof => rfl

theorem Res.shiftN_map {α β : Type} (L : List Item) (G : List GEv) (f : α → β) (r : NR α) :
    (Res.shiftN L G r).map f = Res.shiftN L G (r.map f) := by
  cases r <;> rfl

theorem Shifts.ok {α : Type} (v : α) : Shifts (fun s => (.ok v s : NR α)) := fun _ _ _ => rfl

theorem Shifts.pure {α : Type} (v : α) : Shifts (fun s => (.ok v s : NR α)) := Shifts.ok v

theorem Shifts.err {α : Type} (e : Exc) : Shifts (fun s => (.err e s : NR α)) := fun _ _ _ => rfl

theorem Shifts.oof {α : Type} : Shifts (fun _ => (.oof : NR α)) := fun _ _ _ => rfl

theorem Shifts.bind {α β : Type} {F : NSt → NR α} {K : α → NSt → NR β} (hF : Shifts F)
    (hK : ∀ v, Shifts (K v)) : Shifts (fun s => (F s).bind K) := by
  intro L G s
  exact Res.shiftN_bind (hF L G s) (fun v s' => hK v L G s')

theorem Shifts.map {α β : Type} {F : NSt → NR α} (f : α → β) (hF : Shifts F) :
    Shifts (fun s => (F s).map f) := by
  intro L G s
  simp only [hF L G s, Res.shiftN_map]

/-- precomposition with a state update that commutes with the shift -/
theorem Shifts.comp {α : Type} {F : NSt → NR α} {g : NSt → NSt} (hF : Shifts F)
    (hg : ∀ L G s, g (s.shift L G) = (g s).shift L G) : Shifts (fun s => F (g s)) := by
  intro L G s
  simp only [hg L G s, hF L G (g s)]

section Family
variable {sub : NSub} {sc : Script} {cfg : NCfg}

/-! ### one state change (`Model/Nested.lean`) -/

theorem nrunCmds_shifts (hsub : SubShifts sub) : ∀ cmds, Shifts (nrunCmds sub cmds)
  | [] => fun _ _ _ => rfl
  | c :: cs => by
    intro L G s
    unfold nrunCmds
    exact Res.shiftN_bind (hsub c L G s) (fun _ s' => nrunCmds_shifts hsub cs L G s')

/-- `ninvoke` before the commands run: the counter is bumped, the `call` item emitted -/
private def invPre (cfg : NCfg) (slot : Slot) (x : Ctx) (c : Nat) (s : NSt) : NSt :=
  ({ s with counts := aset c (s.count c + 1) s.counts } : NSt).emit
    (.call slot c x.model x.tag (confMask cfg s.conf))

/-- `ninvoke` after the commands ran: the `done` item and the outcome -/
private def invPost (c : Nat) (out : Out) : NR Unit → NR Bool
  | .ok _ s3 =>
    match out with
    | .ret b => .ok b (s3.emit (.done c (.ret b)))
    | .raise e => .err e (s3.emit (.done c (.raise e)))
  | .err e s3 => .err e (s3.emit (.done c (.raise e)))
  | .oof => .oof

private theorem ninvoke_eq (sub : NSub) (sc : Script) (cfg : NCfg) (slot : Slot) (x : Ctx) (c : Nat) (s : NSt) :
    ninvoke sub sc cfg slot x c s
      = invPost c (sc c (s.count c)).out (nrunCmds sub (sc c (s.count c)).cmds (invPre cfg slot x c s)) := rfl

private theorem invPre_shift (cfg : NCfg) (slot : Slot) (x : Ctx) (c : Nat) (L : List Item) (G : List GEv) (s : NSt) :
    invPre cfg slot x c (s.shift L G) = (invPre cfg slot x c s).shift L G := by
  simp [invPre, NSt.shift, NSt.emit, NSt.count, List.append_assoc]

private theorem invPost_shift (c : Nat) (out : Out) (L : List Item) (G : List GEv) (r : NR Unit) :
    invPost c out (Res.shiftN L G r) = Res.shiftN L G (invPost c out r) := by
  cases r with
  | ok _ s3 => cases out <;> simp only [invPost, Res.shiftN_ok, Res.shiftN_err, shift_emit]
  | err e s3 => simp only [invPost, Res.shiftN_err, shift_emit]
  | oof => rfl

theorem ninvoke_shifts (hsub : SubShifts sub) (slot : Slot) (x : Ctx) (c : Nat) :
    Shifts (ninvoke sub sc cfg slot x c) := by
  intro L G s
  rw [ninvoke_eq, ninvoke_eq, invPre_shift, NSt.shift_count, nrunCmds_shifts hsub _ L G, invPost_shift]

theorem ncallbacks_shifts (hsub : SubShifts sub) (slot : Slot) (x : Ctx) :
    ∀ cbs, Shifts (ncallbacks sub sc cfg slot x cbs)
  | [] => fun _ _ _ => rfl
  | c :: cs => by
    intro L G s
    unfold ncallbacks
    exact Res.shiftN_bind (ninvoke_shifts hsub slot x c L G s)
      (fun _ s' => ncallbacks_shifts hsub slot x cs L G s')

theorem nevalConds_shifts (hsub : SubShifts sub) (x : Ctx) :
    ∀ cs, Shifts (nevalConds sub sc cfg x cs)
  | [] => fun _ _ _ => rfl
  | c :: cs => by
    intro L G s
    unfold nevalConds
    refine Res.shiftN_bind (ninvoke_shifts hsub _ x c.cb L G s) ?_
    intro b s'
    split
    · exact nevalConds_shifts hsub x cs L G s'
    · rfl

theorem exitAll_shifts (hsub : SubShifts sub) (x : Ctx) :
    ∀ fs, Shifts (exitAll sub sc cfg x fs)
  | [] => fun _ _ _ => rfl
  | f :: fs => by
    intro L G s
    unfold exitAll
    refine Res.shiftN_bind ?_ (fun _ s' => exitAll_shifts hsub x fs L G s')
    rw [shift_emitG]
    exact ncallbacks_shifts hsub _ x _ L G _

theorem enterAll_shifts (hsub : SubShifts sub) (x : Ctx) :
    ∀ fs, Shifts (enterAll sub sc cfg x fs)
  | [] => fun _ _ _ => rfl
  | f :: fs => by
    intro L G s
    unfold enterAll
    refine Res.shiftN_bind ?_ (fun _ s' => enterAll_shifts hsub x fs L G s')
    rw [shift_emitG]
    exact ncallbacks_shifts hsub _ x _ L G _

theorem nchangeState_shifts (hsub : SubShifts sub) (scope : Scope) (x : Ctx) (dest : SPath) :
    Shifts (nchangeState sub sc cfg scope x dest) := by
  intro L G s
  unfold nchangeState
  simp only [NSt.shift_conf]
  cases resolveTransition cfg.root scope s.conf dest with
  | err e => rfl
  | oof => rfl
  | ok r =>
    simp only []
    refine Res.shiftN_bind ?_ ?_
    · exact exitAll_shifts hsub x r.exits L G { s with exited := s.exited ++ r.exitNames }
    · intro _ s1
      exact enterAll_shifts hsub x r.enters L G { s1 with conf := r.tree }

theorem nfinalStage_shifts (hsub : SubShifts sub) (scope : Scope) (x : Ctx) (dest : Option SPath)
    (conf0 : Forest) : Shifts (nfinalStage sub sc cfg scope x dest conf0) := by
  intro L G s
  unfold nfinalStage
  cases dest with
  | none => rfl
  | some d =>
    simp only []
    cases resolveTransition cfg.root scope conf0 d with
    | err e => rfl
    | oof => rfl
    | ok r =>
      simp only []
      cases nfinalCheckRoot cfg r.tree (r.enters.map (·.path)) with
      | ok cbs => exact ncallbacks_shifts hsub _ x _ L G s
      | err e => rfl
      | oof => rfl

theorem nexecute_shifts (hsub : SubShifts sub) (scope : Scope) (x : Ctx) (tr : TRef) (t : NTrans) :
    Shifts (nexecute sub sc cfg scope x tr t) := by
  intro L G s
  unfold nexecute
  refine Res.shiftN_bind ?_ ?_
  · rw [shift_emitG]
    exact ncallbacks_shifts hsub _ x _ L G _
  intro _ s1
  refine Res.shiftN_bind (nevalConds_shifts hsub x _ L G s1) ?_
  intro ok s2
  cases ok with
  | false => rfl
  | true =>
    simp only [Bool.not_true, Bool.false_eq_true, if_false]
    refine Res.shiftN_bind (ncallbacks_shifts hsub _ x _ L G s2) ?_
    intro _ s3
    refine Res.shiftN_bind ?_ ?_
    · rw [shift_emitG]
      exact ncallbacks_shifts hsub _ x _ L G _
    intro _ s4
    simp only [NSt.shift_conf]
    refine Res.shiftN_bind ?_ ?_
    · cases t.dest with
      | none => rfl
      | some d => exact nchangeState_shifts hsub scope x d L G s4
    intro _ s5
    refine Res.shiftN_bind (nfinalStage_shifts hsub scope x _ _ L G s5) ?_
    intro _ s5'
    refine Res.shiftN_bind (ncallbacks_shifts hsub _ x _ L G s5') ?_
    intro _ s6
    refine Res.shiftN_bind (ncallbacks_shifts hsub _ x _ L G s6) ?_
    intro _ s7
    rfl

/-! ### dispatch of one event (`Model/NestedDispatch.lean`) -/

theorem ntry_shifts (hsub : SubShifts sub) (scope : Scope) (x : Ctx) :
    ∀ cands, Shifts (ntry sub sc cfg scope x cands)
  | [] => fun _ _ _ => rfl
  | (tr, t) :: r => by
    intro L G s
    unfold ntry
    refine Res.shiftN_bind (nexecute_shifts hsub scope x tr t L G s) ?_
    intro b s1
    cases b with
    | true => rfl
    | false => exact ntry_shifts hsub scope x r L G { s1 with result := some false }

theorem nprocess_shifts (hsub : SubShifts sub) (scope : Scope) (x : Ctx) (cands : List (TRef × NTrans)) :
    Shifts (nprocess sub sc cfg scope x cands) := by
  intro L G s
  unfold nprocess
  exact Res.shiftN_bind (ncallbacks_shifts hsub _ x _ L G s) (fun _ s1 => ntry_shifts hsub scope x cands L G s1)

theorem tnLoop_shifts (hsub : SubShifts sub) (scope : Scope) (x : Ctx) (ev : Nat) (ts : List NTrans) :
    ∀ ps done, Shifts (tnLoop sub sc cfg scope x ev ts ps done)
  | [], _ => fun _ _ _ => rfl
  | p :: ps, done => by
    intro L G s
    unfold tnLoop
    by_cases h : p ∈ done ∨ (ncandidates scope.pre ev ts p).isEmpty = true ∨ scope.pre ++ p ∈ s.exited
    · simp only [NSt.shift_exited, h, if_true]
      exact tnLoop_shifts hsub scope x ev ts ps done L G s
    · simp only [NSt.shift_exited, h, if_false]
      cases getState cfg.root scope p with
      | none => rfl
      | some _ =>
        simp only []
        refine Res.shiftN_bind (nprocess_shifts hsub scope x _ L G s) ?_
        intro _ s1
        simp only [NSt.shift_result]
        exact tnLoop_shifts hsub scope x ev ts ps _ L G s1

theorem triggerNested_shifts (hsub : SubShifts sub) (scope : Scope) (x : Ctx) (ev : Nat) (ts : List NTrans) :
    Shifts (triggerNested sub sc cfg scope x ev ts) := by
  intro L G s
  unfold triggerNested
  simp only [NSt.shift_conf]
  cases s.conf.reduceGet scope.pre with
  | error e => rfl
  | ok o =>
    cases o with
    | none => rfl
    | some sub' =>
      simp only []
      cases resolveOrder sub' with
      | none => rfl
      | some order =>
        simp only []
        refine Res.shiftN_bind (tnLoop_shifts hsub scope x ev ts order [] L G s) ?_
        intro done s1
        split <;> rfl

theorem ten_shifts (hsub : SubShifts sub) (x : Ctx) (ev : Nat) :
    ∀ (tree : Forest) (scope : Scope) (res : List (Nat × Bool)) (offered : Bool),
      Shifts (ten sub sc cfg x ev scope tree res offered) := by
  intro tree
  induction tree with
  | nil => intro scope res offered L G s; unfold ten; rfl
  | cons key value rest ihv ihr =>
    intro scope res offered L G s
    unfold ten
    refine Res.shiftN_bind ?_ ?_
    · split
      · rfl
      · cases scope.enter key with
        | none => rfl
        | some inner =>
          simp only []
          exact Res.shiftN_bind (ihv inner [] false L G s) (fun _ _ => rfl)
    · intro res1 s1
      split
      · cases alookup ev scope.events with
        | none => exact ihr scope res1 offered L G s1
        | some ts =>
          simp only []
          refine Res.shiftN_bind (triggerNested_shifts hsub scope x ev ts L G s1) ?_
          intro tmp s2
          exact ihr scope _ true L G s2
      · exact ihr scope res1 offered L G s1

theorem checkEventResult_shifts (res : Option Bool) (ev : Nat) :
    Shifts (checkEventResult cfg res ev) := by
  intro L G s
  unfold checkEventResult
  cases res with
  | some b => rfl
  | none =>
    simp only [NSt.shift_conf]
    cases cerLoop cfg ev (buildStateList [] s.conf).flat <;> rfl

theorem triggerEventBody_shifts (hsub : SubShifts sub) (x : Ctx) (ev : Nat) :
    Shifts (triggerEventBody sub sc cfg x ev) := by
  intro L G s
  unfold triggerEventBody
  simp only [NSt.shift_conf]
  refine Res.shiftN_bind (ten_shifts hsub x ev s.conf cfg.root [] false L G s) ?_
  intro r s1
  refine Res.shiftN_bind (checkEventResult_shifts (summarize r) ev L G s1) ?_
  intro b s2
  rfl

theorem nfinalize_shifts (hsub : SubShifts sub) (x : Ctx) (L : List Item) (G : List GEv) (s : NSt) :
    nfinalize sub sc cfg x (s.shift L G) = (nfinalize sub sc cfg x s).map (·.shift L G) := by
  unfold nfinalize
  simp only [NSt.shift_conf]
  rw [shift_emitG, ncallbacks_shifts hsub .finalize x cfg.finalize L G]
  cases ncallbacks sub sc cfg .finalize x cfg.finalize (s.emitG (.fin x.tag (confMask cfg s.conf))) <;> rfl

/-- the `except BaseException:` stage of `_trigger_event`, applied to the outcome of the `try` part -/
private def excStage (sub : NSub) (sc : Script) (cfg : NCfg) (x : Ctx) : NR Bool → NR Bool
  | .ok b s' => .ok b s'
  | .err e s' =>
    match cfg.onException with
    | [] => .err e s'
    | hs => (ncallbacks sub sc cfg .onException x hs s').bind fun _ s'' => .ok (s''.result.getD false) s''
  | .oof => .oof

/-- the `finally:` stage of `_trigger_event`, applied to the outcome of the `try` / `except` part -/
private def finStage (sub : NSub) (sc : Script) (cfg : NCfg) (x : Ctx) : NR Bool → NR Bool
  | .ok b s' => match nfinalize sub sc cfg x s' with
    | some s'' => .ok b s''
    | none => .oof
  | .err e s' => match nfinalize sub sc cfg x s' with
    | some s'' => .err e s''
    | none => .oof
  | .oof => .oof

private theorem ntriggerEvent_eq (sub : NSub) (sc : Script) (cfg : NCfg) (x : Ctx) (ev : Nat) (s : NSt) :
    ntriggerEvent sub sc cfg x ev s
      = finStage sub sc cfg x (excStage sub sc cfg x
          (triggerEventBody sub sc cfg x ev { s with result := none, exited := [] })) := rfl

private theorem excStage_shift (hsub : SubShifts sub) (x : Ctx) (L : List Item) (G : List GEv) (r : NR Bool) :
    excStage sub sc cfg x (Res.shiftN L G r) = Res.shiftN L G (excStage sub sc cfg x r) := by
  cases r with
  | ok b s' => rfl
  | err e s' =>
    simp only [excStage, Res.shiftN_err]
    cases cfg.onException with
    | nil => rfl
    | cons h hs =>
      simp only []
      exact Res.shiftN_bind (ncallbacks_shifts hsub _ x _ L G s') (fun _ _ => rfl)
  | oof => rfl

private theorem finStage_shift (hsub : SubShifts sub) (x : Ctx) (L : List Item) (G : List GEv) (r : NR Bool) :
    finStage sub sc cfg x (Res.shiftN L G r) = Res.shiftN L G (finStage sub sc cfg x r) := by
  cases r with
  | ok b s' =>
    simp only [finStage, Res.shiftN_ok, nfinalize_shifts hsub x L G s']
    cases nfinalize sub sc cfg x s' <;> rfl
  | err e s' =>
    simp only [finStage, Res.shiftN_err, nfinalize_shifts hsub x L G s']
    cases nfinalize sub sc cfg x s' <;> rfl
  | oof => rfl

theorem ntriggerEvent_shifts (hsub : SubShifts sub) (x : Ctx) (ev : Nat) :
    Shifts (ntriggerEvent sub sc cfg x ev) := by
  intro L G s
  have hs : ({ s.shift L G with result := none, exited := [] } : NSt)
      = ({ s with result := none, exited := [] } : NSt).shift L G := rfl
  rw [ntriggerEvent_eq, ntriggerEvent_eq, hs, triggerEventBody_shifts hsub x ev L G, excStage_shift hsub,
    finStage_shift hsub]

theorem ndrain_shifts (hsub : SubShifts sub) : ∀ n, Shifts (ndrain sub sc cfg n)
  | 0 => fun _ _ _ => rfl
  | n + 1 => by
    intro L G s
    unfold ndrain
    simp only [NSt.shift_queue]
    cases s.queue with
    | nil => rfl
    | cons p q =>
      obtain ⟨ev, tag⟩ := p
      simp only []
      rw [ntriggerEvent_shifts hsub ⟨0, tag⟩ ev L G s]
      cases ntriggerEvent sub sc cfg ⟨0, tag⟩ ev s with
      | ok _ s' => exact ndrain_shifts hsub n L G { s' with queue := s'.queue.drop 1 }
      | err e s' => rfl
      | oof => rfl

theorem nmachineProcess_shifts (hsub : SubShifts sub) (qmax ev tag : Nat) :
    Shifts (nmachineProcess sub sc cfg qmax ev tag) := by
  intro L G s
  unfold nmachineProcess
  simp only [NSt.shift_queue]
  split
  · cases s.queue with
    | nil => exact ntriggerEvent_shifts hsub ⟨0, tag⟩ ev L G s
    | cons _ _ => rfl
  · by_cases h : (s.queue ++ [(ev, tag)]).length > 1
    · simp only [h, if_true]
      rfl
    · simp only [h, if_false]
      exact Res.shiftN_bind (ndrain_shifts hsub qmax L G { s with queue := s.queue ++ [(ev, tag)] })
        (fun _ _ => rfl)

/-- `napiTrigger` before the event is handed to the machine: the tag is allocated, the call logged -/
private def apiPre (ev : Nat) (s : NSt) : NSt :=
  (({ s with nextTag := s.nextTag + 1 } : NSt).emit (.api 0 s.nextTag 0 ev)).emitG (.api s.nextTag ev)

/-- `napiTrigger` after it: the outcome logged, the caller's `event_data` restored -/
private def apiPost (tag : Nat) (saved : Option Bool) (savedX : List SPath) : NR Bool → NR Bool
  | .ok b s' => .ok b { ((s'.emit (.ret tag b)).emitG (.ret tag b)) with result := saved, exited := savedX }
  | .err e s' => .err e { ((s'.emit (.raised tag e)).emitG (.raised tag e)) with result := saved, exited := savedX }
  | .oof => .oof

private theorem napiTrigger_eq (sub : NSub) (sc : Script) (cfg : NCfg) (qmax ev : Nat) (s : NSt) :
    napiTrigger sub sc cfg qmax ev s
      = apiPost s.nextTag s.result s.exited (nmachineProcess sub sc cfg qmax ev s.nextTag (apiPre ev s)) := rfl

private theorem apiPre_shift (ev : Nat) (L : List Item) (G : List GEv) (s : NSt) :
    apiPre ev (s.shift L G) = (apiPre ev s).shift L G := by
  simp [apiPre, NSt.shift, NSt.emit, NSt.emitG, List.append_assoc]

private theorem apiPost_shift (tag : Nat) (saved : Option Bool) (savedX : List SPath) (L : List Item) (G : List GEv)
    (r : NR Bool) :
    apiPost tag saved savedX (Res.shiftN L G r) = Res.shiftN L G (apiPost tag saved savedX r) := by
  cases r with
  | ok b s' => simp [apiPost, NSt.shift, NSt.emit, NSt.emitG, List.append_assoc]
  | err e s' => simp [apiPost, NSt.shift, NSt.emit, NSt.emitG, List.append_assoc]
  | oof => rfl

theorem napiTrigger_shifts (hsub : SubShifts sub) (qmax ev : Nat) :
    Shifts (napiTrigger sub sc cfg qmax ev) := by
  intro L G s
  rw [napiTrigger_eq, napiTrigger_eq, apiPre_shift, NSt.shift_nextTag, NSt.shift_result, NSt.shift_exited,
    nmachineProcess_shifts hsub qmax ev s.nextTag L G, apiPost_shift]

end Family

/-! ### the fuelled knot and whole histories -/

theorem nrunCmd_subShifts (sc : Script) (cfg : NCfg) (qmax : Nat) : ∀ f, SubShifts (nrunCmd sc cfg qmax f)
  | 0 => fun _ _ _ _ => rfl
  | f + 1 => by
    intro c L G s
    cases c with
    | trigger m ev =>
      simp only [nrunCmd]
      rw [napiTrigger_shifts (nrunCmd_subShifts sc cfg qmax f) qmax ev L G s, Res.shiftN_map]
    | removeModel m => rfl
    | addModel m => rfl
    | dispatch ev => rfl
    | may m ev => rfl

theorem nrunHistory_shift (sc : Script) (cfg : NCfg) (qmax fuel : Nat) (L : List Item) (G : List GEv) :
    ∀ (h : List Nat) (s : NSt),
      nrunHistory sc cfg qmax fuel h (s.shift L G) = (nrunHistory sc cfg qmax fuel h s).map (·.shift L G)
  | [], s => rfl
  | ev :: evs, s => by
    unfold nrunHistory
    rw [nrunCmd_subShifts sc cfg qmax fuel (.trigger 0 ev) L G s]
    cases nrunCmd sc cfg qmax fuel (.trigger 0 ev) s with
    | ok _ s' => exact nrunHistory_shift sc cfg qmax fuel L G evs s'
    | err _ s' => exact nrunHistory_shift sc cfg qmax fuel L G evs s'
    | oof => rfl

end TM
