/-
  Proofs/C03Pass.lean — one pass of `NestedEvent.trigger_nested` (P1, precedence) and the shape of dispatch when no
  state definition declares events of its own.

  * `tnLoop_antichain`: the loop over `resolve_order` with the `done` set executes transitions only from states of
    the list that are not in `done`, and the executed sources are pairwise unrelated in the ancestor order — given
    the list is duplicate-free and never lists a state before one of its descendants (`resolveOrder_children_first`).
  * `ten_global_only`: when no state declares events (all transitions are declared on the machine), the recursion
    of `_trigger_event_nested` through the child scopes does nothing and the event is offered exactly once, to the
    machine's scope.
  * `C03_P1_global_only`: hence, for such machines, the sources of the transitions executed while ONE trigger call
    is processed are pairwise unrelated (in particular no transition executes twice).
-/
import Proofs.C02Tree
import Proofs.C02Base
import Proofs.C02Frame

namespace TM
open C02 C03

/-- sources (relative to the declaring scope) of the transitions of the list `ts` executed in a ghost segment -/
def execSources (ts : List NTrans) (seg : List GEv) : List SPath :=
  seg.filterMap fun e => match e with
    | .exec tr => (ts[tr.idx]?).map (·.source)
    | _ => none

theorem tnLoop_antichain (cfg : NCfg) (sub : NSub) (sc : Script) (hR : NoRaise sc) (hC : NoCmds sc)
    (scope : Scope) (x : Ctx) (ev : Nat) (ts : List NTrans) :
    ∀ (ps done : List SPath) (s s' : NSt),
    ps.Pairwise (fun a b => properPrefix a b = false) → ps.Nodup →
    (tnLoop sub sc cfg scope x ev ts ps done s).state? = some s' →
    ∃ seg, s'.glog = s.glog ++ seg ∧
      (execSources ts seg).Pairwise (fun a b => related a b = false) ∧
      (∀ p ∈ execSources ts seg, p ∈ ps ∧ p ∉ done) := by
  sorry

/-- no state definition declares events -/
def SForest.noEvents : SForest → Bool
  | .nil => true
  | .cons d kids rest => d.events.isEmpty && kids.noEvents && rest.noEvents

theorem ten_global_only (cfg : NCfg) (sub : NSub) (sc : Script) (x : Ctx) (ev : Nat)
    (hno : cfg.states.noEvents = true) (k : Nat) (v : Forest) (hc : ConfOK cfg.states (.cons k v .nil) = true)
    (s : NSt) :
    ten sub sc cfg x ev cfg.root (.cons k v .nil) [] s =
      (match alookup ev cfg.events with
       | none => .ok [] s
       | some ts => (triggerNested sub sc cfg cfg.root x ev ts s).bind fun tmp s2 =>
           .ok (match tmp with
             | some b => [(k, b)]
             | none => []) s2) := by
  sorry

/-- all `exec` events of a ghost segment, as (event, index) of machine-level transitions -/
def execRefs (seg : List GEv) : List TRef :=
  seg.filterMap fun e => match e with
    | .exec tr => some tr
    | _ => none

/-- **P1 for machines whose transitions are all declared on the machine**: one trigger call on an unqueued
machine, callbacks neither raising nor triggering: the executed transitions belong to the triggered event and
their sources are pairwise unrelated -/
theorem C03_P1_global_only (cfg : NCfg) (sub : NSub) (sc : Script) (hR : NoRaise sc) (hC : NoCmds sc)
    (hq : cfg.queued = false) (hno : cfg.states.noEvents = true)
    (qmax ev : Nat) (s s' : NSt) (hlen : s.conf.len = 1) (hcok : ConfOK cfg.states s.conf = true) (hidle : s.queue = [])
    (h : (napiTrigger sub sc cfg qmax ev s).state? = some s') :
    ∃ seg, s'.glog = s.glog ++ seg ∧
      (∀ tr ∈ execRefs seg, tr.scope = [] ∧ tr.ev = ev) ∧
      (execSources ((alookup ev cfg.events).getD []) seg).Pairwise (fun a b => related a b = false) := by
  sorry

end TM
