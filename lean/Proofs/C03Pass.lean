/-
  Proofs/C03Pass.lean — one pass of `NestedEvent.trigger_nested` (P1, precedence) and the shape of dispatch when no
  state definition declares events of its own.

  * `tnLoop_antichain`: the loop over `resolve_order` with the `done` set executes transitions only from states of
    the list that are not in `done`, and the executed sources are pairwise unrelated in the ancestor order — given
    the list is duplicate-free and never lists a state before one of its descendants (`resolveOrder_children_first`).
  * `ten_global_only`: when no state declares events (all transitions are declared on the machine), the recursion
    of `_trigger_event_nested` through the child scopes does nothing and the event is offered exactly once, to the
    machine's scope.
  * `C03_P1_global_only`: hence, for such machines, the sources of the transitions executed while ONE trigger call
    is processed are pairwise unrelated (in particular no transition executes twice).
-/
import Proofs.C02Tree
import Proofs.C02Base
import Proofs.C02Frame
import Proofs.C02Fin
import Proofs.C02

namespace TM
open C02 C03

/-- sources (relative to the declaring scope) of the transitions of the list `ts` executed in a ghost segment -/
def execSources (ts : List NTrans) (seg : List GEv) : List SPath :=
  seg.filterMap fun e => match e with
    | .exec tr => (ts[tr.idx]?).map (·.source)
    | _ => none

namespace Pass

/-- the `exec` references of a ghost segment -/
def refs (seg : List GEv) : List TRef :=
  seg.filterMap fun e => match e with
    | .exec tr => some tr
    | _ => none

theorem refs_append (a b : List GEv) : refs (a ++ b) = refs a ++ refs b := by
  simp [refs, List.filterMap_append]

theorem refs_nil : refs [] = [] := rfl

theorem execSources_eq (ts : List NTrans) (seg : List GEv) :
    execSources ts seg = (refs seg).filterMap fun tr => (ts[tr.idx]?).map (·.source) := by
  induction seg with
  | nil => rfl
  | cons e r ih =>
    cases e <;> simp [execSources, refs, List.filterMap_cons] at ih ⊢ <;> try exact ih
    rename_i t
    cases ts[t.idx]? <;> simp [ih]

theorem execSources_append (ts : List NTrans) (a b : List GEv) :
    execSources ts (a ++ b) = execSources ts a ++ execSources ts b := by
  simp [execSources, List.filterMap_append]

theorem execSources_quiet (ts : List NTrans) {seg : List GEv} (h : refs seg = []) : execSources ts seg = [] := by
  rw [execSources_eq, h]; rfl

/-- the ghost log grows by a segment without `exec` -/
def Quiet (s s' : NSt) : Prop := ∃ seg, s'.glog = s.glog ++ seg ∧ refs seg = []

theorem Quiet.refl (s : NSt) : Quiet s s := ⟨[], by simp, rfl⟩

theorem Quiet.trans {a b c : NSt} (h1 : Quiet a b) (h2 : Quiet b c) : Quiet a c := by
  obtain ⟨s1, e1, r1⟩ := h1
  obtain ⟨s2, e2, r2⟩ := h2
  exact ⟨s1 ++ s2, by rw [e2, e1, List.append_assoc], by rw [refs_append, r1, r2]; rfl⟩

theorem Quiet.of_glog {s s' : NSt} (h : s'.glog = s.glog) : Quiet s s' := ⟨[], by simp [h], rfl⟩

theorem Quiet.of_view {s s' : NSt} (h : s'.view = s.view) : Quiet s s' :=
  Quiet.of_glog (congrArg View.glog h)

theorem Quiet.emitG (s : NSt) (e : GEv) (h : ∀ tr, e ≠ .exec tr) : Quiet s (s.emitG e) := by
  refine ⟨[e], rfl, ?_⟩
  cases e <;> first | rfl | exact absurd rfl (h _)

section
variable (sub : NSub) (sc : Script) (cfg : NCfg)

theorem ncallbacks_quiet (hC : NoCmds sc) (slot : Slot) (x : Ctx) (cbs : List Nat) (s s' : NSt)
    (h : (ncallbacks sub sc cfg slot x cbs s).state? = some s') : Quiet s s' :=
  Quiet.of_view (ncallbacks_view sub sc cfg hC slot x cbs s s' h)

theorem nevalConds_quiet (hC : NoCmds sc) (x : Ctx) (cs : List Cond) (s s' : NSt)
    (h : (nevalConds sub sc cfg x cs s).state? = some s') : Quiet s s' :=
  Quiet.of_view (nevalConds_view sub sc cfg hC x cs s s' h)

end

/-- case analysis of a completed `bind` -/
theorem bind_state {α β : Type} {r : NR α} {f : α → NSt → NR β} {s' : NSt}
    (h : (r.bind f).state? = some s') :
    (∃ e, r = .err e s') ∨ (∃ a s1, r = .ok a s1 ∧ (f a s1).state? = some s') := by
  cases r with
  | ok a s1 => exact Or.inr ⟨a, s1, rfl, h⟩
  | err e s1 =>
    simp only [Res.bind, Res.state?, Option.some.injEq] at h; subst h
    exact Or.inl ⟨e, rfl⟩
  | oof => simp [Res.bind, Res.state?] at h

theorem bind_ok {α β : Type} (a : α) (s : NSt) (f : α → NSt → NR β) : (Res.ok a s : NR α).bind f = f a s := rfl
theorem bind_err {α β : Type} (e : Exc) (s : NSt) (f : α → NSt → NR β) : (Res.err e s : NR α).bind f = .err e s := rfl
theorem bind_oof {α β : Type} (f : α → NSt → NR β) : (Res.oof : NR α).bind f = .oof := rfl

section
variable (sub : NSub) (sc : Script) (cfg : NCfg)

theorem exitAll_quiet (hC : NoCmds sc) (x : Ctx) : ∀ (fs : List Found) (s s' : NSt),
    (exitAll sub sc cfg x fs s).state? = some s' → Quiet s s'
  | [], s, s', h => by
    simp only [exitAll, Res.state?, Option.some.injEq] at h; subst h; exact Quiet.refl _
  | f :: fs, s, s', h => by
    unfold exitAll at h
    have h0 : Quiet s (s.emitG (.exit f.path)) := Quiet.emitG s _ (by intro tr h; cases h)
    rcases bind_state h with ⟨e, he⟩ | ⟨a, s1, he, h1⟩
    · exact h0.trans (ncallbacks_quiet sub sc cfg hC _ x _ _ s' (by rw [he]; rfl))
    · exact (h0.trans (ncallbacks_quiet sub sc cfg hC _ x _ _ s1 (by rw [he]; rfl))).trans
        (exitAll_quiet hC x fs s1 s' h1)

theorem enterAll_quiet (hC : NoCmds sc) (x : Ctx) : ∀ (fs : List Found) (s s' : NSt),
    (enterAll sub sc cfg x fs s).state? = some s' → Quiet s s'
  | [], s, s', h => by
    simp only [enterAll, Res.state?, Option.some.injEq] at h; subst h; exact Quiet.refl _
  | f :: fs, s, s', h => by
    unfold enterAll at h
    have h0 : Quiet s (s.emitG (.enter f.path)) := Quiet.emitG s _ (by intro tr h; cases h)
    rcases bind_state h with ⟨e, he⟩ | ⟨a, s1, he, h1⟩
    · exact h0.trans (ncallbacks_quiet sub sc cfg hC _ x _ _ s' (by rw [he]; rfl))
    · exact (h0.trans (ncallbacks_quiet sub sc cfg hC _ x _ _ s1 (by rw [he]; rfl))).trans
        (enterAll_quiet hC x fs s1 s' h1)

theorem nchangeState_quiet (hC : NoCmds sc) (scope : Scope) (x : Ctx) (dest : SPath) (s s' : NSt)
    (h : (nchangeState sub sc cfg scope x dest s).state? = some s') : Quiet s s' := by
  unfold nchangeState at h
  split at h
  · simp only [Res.state?, Option.some.injEq] at h; subst h; exact Quiet.refl _
  · simp [Res.state?] at h
  · rename_i r _
    have q0 : Quiet s ({ s with exited := s.exited ++ r.exitNames } : NSt) := Quiet.of_glog rfl
    rcases bind_state h with ⟨e, he⟩ | ⟨a, s1, he, h1⟩
    · exact q0.trans (exitAll_quiet sub sc cfg hC x _ _ s' (by rw [he]; rfl))
    · have q1 := exitAll_quiet sub sc cfg hC x _ _ s1 (by rw [he]; rfl)
      have q2 := enterAll_quiet sub sc cfg hC x _ _ s' h1
      exact q0.trans (q1.trans ((Quiet.of_glog (s := s1) (s' := { s1 with conf := r.tree }) rfl).trans q2))

end


/-- what a completed `Transition.execute` for `tr` leaves in the ghost log -/
def ExecPost (tr : TRef) (s : NSt) : NR Bool → Prop
  | .ok b s' => ∃ seg, s'.glog = s.glog ++ seg ∧ refs seg = if b then [tr] else []
  | .err _ s' => ∃ seg, s'.glog = s.glog ++ seg ∧ (refs seg = [] ∨ refs seg = [tr])
  | .oof => True

theorem ExecPost.of_quiet_err {tr : TRef} {s s' : NSt} {e : Exc} (h : Quiet s s') : ExecPost tr s (.err e s') := by
  obtain ⟨seg, h1, h2⟩ := h
  exact ⟨seg, h1, Or.inl h2⟩

/-- the ghost log grows by a segment whose only `exec` is `tr` -/
def One (tr : TRef) (s s' : NSt) : Prop := ∃ seg, s'.glog = s.glog ++ seg ∧ refs seg = [tr]

theorem One.quiet {tr : TRef} {a b c : NSt} (h1 : One tr a b) (h2 : Quiet b c) : One tr a c := by
  obtain ⟨s1, e1, r1⟩ := h1
  obtain ⟨s2, e2, r2⟩ := h2
  exact ⟨s1 ++ s2, by rw [e2, e1, List.append_assoc], by rw [refs_append, r1, r2]; rfl⟩

theorem Quiet.one {tr : TRef} {a b c : NSt} (h1 : Quiet a b) (h2 : One tr b c) : One tr a c := by
  obtain ⟨s1, e1, r1⟩ := h1
  obtain ⟨s2, e2, r2⟩ := h2
  exact ⟨s1 ++ s2, by rw [e2, e1, List.append_assoc], by rw [refs_append, r1, r2]; rfl⟩

theorem One.emit (s : NSt) (tr : TRef) : One tr s (s.emitG (.exec tr)) := ⟨[.exec tr], rfl, rfl⟩

theorem ExecPost.of_one_err {tr : TRef} {s s' : NSt} {e : Exc} (h : One tr s s') : ExecPost tr s (.err e s') := by
  obtain ⟨seg, h1, h2⟩ := h
  exact ⟨seg, h1, Or.inr h2⟩

section
variable (sub : NSub) (sc : Script) (cfg : NCfg)

theorem nfinalStage_quiet (hC : NoCmds sc) (scope : Scope) (x : Ctx) (dest : Option SPath) (conf0 : Forest) (s s' : NSt)
    (h : (nfinalStage sub sc cfg scope x dest conf0 s).state? = some s') : Quiet s s' :=
  Quiet.of_view (nfinalStage_view sub sc cfg hC scope x dest conf0 s s' h)

theorem nexecute_tail (hC : NoCmds sc) (x : Ctx) (tr : TRef) (t : NTrans) (s : NSt) (r5 : NR Unit)
    (h5 : ∀ s5, r5.state? = some s5 → One tr s s5) (F : NSt → NR Unit)
    (hF : ∀ s5 s5', (F s5).state? = some s5' → Quiet s5 s5') :
    ExecPost tr s (r5.bind fun _ s5 =>
      (F s5).bind fun _ s5 =>
      (ncallbacks sub sc cfg .after x t.after s5).bind fun _ s6 =>
      (ncallbacks sub sc cfg .afterSC x cfg.afterSC s6).bind fun _ s7 =>
        .ok true s7) := by
  cases r5 with
  | oof => simp only [bind_oof]; trivial
  | err e s5 => simp only [bind_err]; exact ExecPost.of_one_err (h5 s5 rfl)
  | ok _ s5a =>
  have o5 := h5 s5a rfl
  simp only [bind_ok]
  cases hF5 : F s5a with
  | oof => simp only [bind_oof]; trivial
  | err e s5' =>
    simp only [bind_err]
    exact ExecPost.of_one_err (o5.quiet (hF s5a s5' (by rw [hF5]; rfl)))
  | ok _ s5 =>
  have o5 := o5.quiet (hF s5a s5 (by rw [hF5]; rfl))
  simp only [bind_ok]
  cases h6 : ncallbacks sub sc cfg .after x t.after s5 with
  | oof => simp only [bind_oof]; trivial
  | err e s6 =>
    simp only [bind_err]
    exact ExecPost.of_one_err (o5.quiet (ncallbacks_quiet sub sc cfg hC _ x _ _ s6 (by rw [h6]; rfl)))
  | ok _ s6 =>
  have o6 := o5.quiet (ncallbacks_quiet sub sc cfg hC _ x _ _ s6 (by rw [h6]; rfl))
  simp only [bind_ok]
  cases h7 : ncallbacks sub sc cfg .afterSC x cfg.afterSC s6 with
  | oof => simp only [bind_oof]; trivial
  | err e s7 =>
    simp only [bind_err]
    exact ExecPost.of_one_err (o6.quiet (ncallbacks_quiet sub sc cfg hC _ x _ _ s7 (by rw [h7]; rfl)))
  | ok _ s7 =>
  obtain ⟨seg, e1, e2⟩ := o6.quiet (ncallbacks_quiet sub sc cfg hC _ x _ _ s7 (by rw [h7]; rfl))
  exact ⟨seg, e1, by simpa using e2⟩

theorem nexecute_post (hC : NoCmds sc) (scope : Scope) (x : Ctx) (tr : TRef) (t : NTrans) (s : NSt) :
    ExecPost tr s (nexecute sub sc cfg scope x tr t s) := by
  unfold nexecute
  have q0 : Quiet s (s.emitG (.cand tr)) := Quiet.emitG s _ (by intro tr h; cases h)
  cases h1 : ncallbacks sub sc cfg .prepare x t.prepare (s.emitG (.cand tr)) with
  | oof => simp only [bind_oof]; trivial
  | err e s1 =>
    simp only [bind_err]
    exact ExecPost.of_quiet_err (q0.trans (ncallbacks_quiet sub sc cfg hC _ x _ _ s1 (by rw [h1]; rfl)))
  | ok _ s1 =>
  have q1 := q0.trans (ncallbacks_quiet sub sc cfg hC _ x _ _ s1 (by rw [h1]; rfl))
  simp only [bind_ok]
  cases h2 : nevalConds sub sc cfg x t.conds s1 with
  | oof => simp only [bind_oof]; trivial
  | err e s2 =>
    simp only [bind_err]
    exact ExecPost.of_quiet_err (q1.trans (nevalConds_quiet sub sc cfg hC x _ s1 s2 (by rw [h2]; rfl)))
  | ok ok s2 =>
  have q2 := q1.trans (nevalConds_quiet sub sc cfg hC x _ s1 s2 (by rw [h2]; rfl))
  simp only [bind_ok]
  cases ok with
  | false =>
    simp only [Bool.not_false, if_true]
    obtain ⟨seg, e1, e2⟩ := q2
    exact ⟨seg, e1, by simpa using e2⟩
  | true =>
  simp only [Bool.not_true, Bool.false_eq_true, if_false]
  cases h3 : ncallbacks sub sc cfg .beforeSC x cfg.beforeSC s2 with
  | oof => simp only [bind_oof]; trivial
  | err e s3 =>
    simp only [bind_err]
    exact ExecPost.of_quiet_err (q2.trans (ncallbacks_quiet sub sc cfg hC _ x _ _ s3 (by rw [h3]; rfl)))
  | ok _ s3 =>
  have q3 := q2.trans (ncallbacks_quiet sub sc cfg hC _ x _ _ s3 (by rw [h3]; rfl))
  have o3 : One tr s (s3.emitG (.exec tr)) := q3.one (One.emit s3 tr)
  simp only [bind_ok]
  cases h4 : ncallbacks sub sc cfg .before x t.before (s3.emitG (.exec tr)) with
  | oof => simp only [bind_oof]; trivial
  | err e s4 =>
    simp only [bind_err]
    exact ExecPost.of_one_err (o3.quiet (ncallbacks_quiet sub sc cfg hC _ x _ _ s4 (by rw [h4]; rfl)))
  | ok _ s4 =>
  have o4 := o3.quiet (ncallbacks_quiet sub sc cfg hC _ x _ _ s4 (by rw [h4]; rfl))
  simp only [bind_ok]
  refine nexecute_tail sub sc cfg hC x tr t s _ ?_ _ (fun s5 s5' h => nfinalStage_quiet sub sc cfg hC scope x _ _ s5 s5' h)
  intro s5 h
  refine o4.quiet ?_
  cases hd : t.dest with
  | none => simp only [hd, Res.state?, Option.some.injEq] at h; subst h; exact Quiet.refl _
  | some d => simp only [hd] at h; exact nchangeState_quiet sub sc cfg hC scope x d s4 s5 h

end


/-- what a completed candidate loop leaves in the ghost log -/
def TryPost (cands : List (TRef × NTrans)) (s : NSt) : NR Unit → Prop
  | .ok _ s' => ∃ seg, s'.glog = s.glog ++ seg ∧
      (refs seg = [] ∨ (s'.result = some true ∧ ∃ c ∈ cands, refs seg = [c.1]))
  | .err _ s' => ∃ seg, s'.glog = s.glog ++ seg ∧ (refs seg = [] ∨ ∃ c ∈ cands, refs seg = [c.1])
  | .oof => True

theorem TryPost.mono {c1 c2 : List (TRef × NTrans)} {s0 s : NSt} {r : NR Unit} (hq : Quiet s0 s)
    (hsub : ∀ c ∈ c1, c ∈ c2) (h : TryPost c1 s r) : TryPost c2 s0 r := by
  obtain ⟨seg0, e0, r0⟩ := hq
  cases r with
  | oof => trivial
  | ok _ s' =>
    obtain ⟨seg, e1, h1⟩ := h
    refine ⟨seg0 ++ seg, by rw [e1, e0, List.append_assoc], ?_⟩
    rw [refs_append, r0, List.nil_append]
    rcases h1 with h1 | ⟨hr, c, hc, h1⟩
    · exact Or.inl h1
    · exact Or.inr ⟨hr, c, hsub c hc, h1⟩
  | err _ s' =>
    obtain ⟨seg, e1, h1⟩ := h
    refine ⟨seg0 ++ seg, by rw [e1, e0, List.append_assoc], ?_⟩
    rw [refs_append, r0, List.nil_append]
    rcases h1 with h1 | ⟨c, hc, h1⟩
    · exact Or.inl h1
    · exact Or.inr ⟨c, hsub c hc, h1⟩

section
variable (sub : NSub) (sc : Script) (cfg : NCfg)

theorem ntry_post (hC : NoCmds sc) (scope : Scope) (x : Ctx) : ∀ (cands : List (TRef × NTrans)) (s : NSt),
    TryPost cands s (ntry sub sc cfg scope x cands s)
  | [], s => ⟨[], by simp, Or.inl rfl⟩
  | (tr, t) :: r, s => by
    unfold ntry
    have hp := nexecute_post sub sc cfg hC scope x tr t s
    cases h1 : nexecute sub sc cfg scope x tr t s with
    | oof => simp only [bind_oof]; trivial
    | err e s1 =>
      rw [h1] at hp
      obtain ⟨seg, e1, h2⟩ := hp
      simp only [bind_err]
      refine ⟨seg, e1, ?_⟩
      rcases h2 with h2 | h2
      · exact Or.inl h2
      · exact Or.inr ⟨(tr, t), by simp, h2⟩
    | ok b s1 =>
      rw [h1] at hp
      obtain ⟨seg, e1, h2⟩ := hp
      simp only [bind_ok]
      cases b with
      | true =>
        simp only [if_true]
        exact ⟨seg, e1, Or.inr ⟨rfl, (tr, t), by simp, by simpa using h2⟩⟩
      | false =>
        simp only [Bool.false_eq_true, if_false]
        have hq : Quiet s ({ s1 with result := some false } : NSt) := ⟨seg, e1, by simpa using h2⟩
        exact TryPost.mono hq (fun c hc => List.mem_cons_of_mem _ hc) (ntry_post hC scope x r _)

theorem nprocess_post (hC : NoCmds sc) (scope : Scope) (x : Ctx) (cands : List (TRef × NTrans)) (s : NSt) :
    TryPost cands s (nprocess sub sc cfg scope x cands s) := by
  unfold nprocess
  cases h1 : ncallbacks sub sc cfg .prepareEvent x cfg.prepareEvent s with
  | oof => simp only [bind_oof]; trivial
  | err e s1 =>
    simp only [bind_err]
    obtain ⟨seg, e1, h2⟩ := ncallbacks_quiet sub sc cfg hC _ x _ _ s1 (by rw [h1]; rfl)
    exact ⟨seg, e1, Or.inl h2⟩
  | ok _ s1 =>
    simp only [bind_ok]
    exact TryPost.mono (ncallbacks_quiet sub sc cfg hC _ x _ _ s1 (by rw [h1]; rfl)) (fun c hc => hc)
      (ntry_post sub sc cfg hC scope x cands s1)

end

theorem ncandidates_spec {pre : SPath} {ev : Nat} {ts : List NTrans} {p : SPath} {c : TRef × NTrans}
    (h : c ∈ ncandidates pre ev ts p) :
    c.1.scope = pre ∧ c.1.ev = ev ∧ ts[c.1.idx]? = some c.2 ∧ c.2.source = p := by
  simp only [ncandidates, List.mem_map, List.mem_filter, decide_eq_true_eq] at h
  obtain ⟨e, ⟨he, hs⟩, rfl⟩ := h
  exact ⟨rfl, rfl, List.mem_zipIdx_iff_getElem?.mp he, hs⟩

/-! ### paths -/

theorem isPrefix_eq_true {p q : SPath} : isPrefix p q = true ↔ q.take p.length = p := by
  simp [isPrefix]

theorem mem_prefixesOf {p q : SPath} (hq : q ≠ []) (h : p.take q.length = q) : q ∈ prefixesOf p := by
  simp only [prefixesOf, List.mem_map, List.mem_range]
  have hl : q.length ≤ p.length := by
    have := congrArg List.length h
    simp only [List.length_take] at this
    omega
  have hpos : 0 < q.length := List.length_pos_iff.mpr hq
  refine ⟨q.length - 1, by omega, ?_⟩
  have : q.length - 1 + 1 = q.length := by omega
  rw [this, h]

theorem unrelated_of {p q : SPath} (hne : q ≠ p) (hpp : properPrefix p q = false) (hq : q ≠ [])
    (hd : q ∉ prefixesOf p) : related p q = false := by
  simp only [related, Bool.or_eq_false_iff]
  constructor
  · cases h : isPrefix p q with
    | false => rfl
    | true =>
      exfalso
      have ht := isPrefix_eq_true.mp h
      have hl : p.length ≤ q.length := by
        have := congrArg List.length ht
        simp only [List.length_take] at this
        omega
      simp only [properPrefix, Bool.and_eq_false_iff, decide_eq_false_iff_not, beq_eq_false_iff_ne] at hpp
      rcases hpp with hpp | hpp
      · have : p.length = q.length := by omega
        rw [this, List.take_length] at ht
        exact hne ht
      · exact hpp ht
  · cases h : isPrefix q p with
    | false => rfl
    | true => exact absurd (mem_prefixesOf hq (isPrefix_eq_true.mp h)) hd

theorem getState_nil (root sc : Scope) : getState root sc [] = none := by
  simp [getState, SForest.walk]


theorem cand_segment {pre : SPath} {ev : Nat} {ts : List NTrans} {p : SPath} {c : TRef × NTrans}
    (hc : c ∈ ncandidates pre ev ts p) {seg : List GEv} (h : refs seg = [c.1]) :
    execSources ts seg = [p] ∧ ∀ tr ∈ refs seg, tr.scope = pre ∧ tr.ev = ev := by
  obtain ⟨h1, h2, h3, h4⟩ := ncandidates_spec hc
  constructor
  · rw [execSources_eq, h]; simp [h3, h4]
  · intro tr htr
    rw [h] at htr
    simp only [List.mem_singleton] at htr
    subst htr
    exact ⟨h1, h2⟩

section
variable (sub : NSub) (sc : Script) (cfg : NCfg)

theorem tnLoop_aux (hC : NoCmds sc) (scope : Scope) (x : Ctx) (ev : Nat) (ts : List NTrans) :
    ∀ (ps done : List SPath) (s s' : NSt),
    ps.Pairwise (fun a b => properPrefix a b = false) → ps.Nodup →
    (tnLoop sub sc cfg scope x ev ts ps done s).state? = some s' →
    ∃ seg, s'.glog = s.glog ++ seg ∧
      (∀ tr ∈ refs seg, tr.scope = scope.pre ∧ tr.ev = ev) ∧
      (execSources ts seg).Pairwise (fun a b => related a b = false) ∧
      (∀ q ∈ execSources ts seg, q ∈ ps ∧ q ∉ done ∧ q ≠ [])
  | [], done, s, s', _, _, h => by
    simp only [tnLoop, Res.state?, Option.some.injEq] at h; subst h
    exact ⟨[], by simp, by simp [refs], by simp [execSources], by simp [execSources]⟩
  | p :: ps, done, s, s', hpw, hnd, h => by
    unfold tnLoop at h
    simp only [] at h
    rw [List.pairwise_cons] at hpw
    rw [List.nodup_cons] at hnd
    split at h
    · obtain ⟨seg, e1, h1, h2, h3⟩ := tnLoop_aux hC scope x ev ts ps done s s' hpw.2 hnd.2 h
      exact ⟨seg, e1, h1, h2, fun q hq => ⟨List.mem_cons_of_mem _ (h3 q hq).1, (h3 q hq).2⟩⟩
    · rename_i hcond
      have hpd : p ∉ done := fun hp => hcond (Or.inl hp)
      split at h
      · simp only [Res.state?, Option.some.injEq] at h; subst h
        exact ⟨[], by simp, by simp [refs], by simp [execSources], by simp [execSources]⟩
      · rename_i f hgs
        have hpne : p ≠ [] := by
          intro hp; subst hp; rw [getState_nil] at hgs; cases hgs
        have hpost := nprocess_post sub sc cfg hC scope x (ncandidates scope.pre ev ts p) s
        cases hn : nprocess sub sc cfg scope x (ncandidates scope.pre ev ts p) s with
        | oof => rw [hn] at h; simp [bind_oof, Res.state?] at h
        | err e s1 =>
          rw [hn] at h hpost
          simp only [bind_err, Res.state?, Option.some.injEq] at h; subst h
          obtain ⟨seg, e1, h2⟩ := hpost
          refine ⟨seg, e1, ?_⟩
          rcases h2 with h2 | ⟨c, hc, h2⟩
          · rw [execSources_quiet ts h2, h2]; simp
          · obtain ⟨hes, hrf⟩ := cand_segment hc h2
            rw [hes]
            exact ⟨hrf, by simp, by simp [hpd, hpne]⟩
        | ok u s1 =>
          rw [hn] at h hpost
          simp only [bind_ok] at h
          obtain ⟨seg1, e1, h2⟩ := hpost
          obtain ⟨seg2, e2, k1, k2, k3⟩ := tnLoop_aux hC scope x ev ts ps _ s1 s' hpw.2 hnd.2 h
          refine ⟨seg1 ++ seg2, by rw [e2, e1, List.append_assoc], ?_⟩
          rw [refs_append, execSources_append]
          rcases h2 with h2 | ⟨hres, c, hc, h2⟩
          · rw [execSources_quiet ts h2, h2, List.nil_append, List.nil_append]
            refine ⟨k1, k2, fun q hq => ?_⟩
            obtain ⟨m1, m2, m3⟩ := k3 q hq
            refine ⟨List.mem_cons_of_mem _ m1, ?_, m3⟩
            intro hqd; apply m2
            split
            · exact List.mem_append_left _ hqd
            · exact hqd
          · obtain ⟨hes, hrf⟩ := cand_segment hc h2
            rw [hes]
            simp only [hres, if_true] at k3
            refine ⟨?_, ?_, ?_⟩
            · intro tr htr
              rcases List.mem_append.mp htr with htr | htr
              · exact hrf tr htr
              · exact k1 tr htr
            · rw [List.singleton_append, List.pairwise_cons]
              refine ⟨fun q hq => ?_, k2⟩
              obtain ⟨m1, m2, m3⟩ := k3 q hq
              refine unrelated_of ?_ (hpw.1 q m1) m3 (fun hm => m2 (List.mem_append_right _ hm))
              intro hqp; subst hqp; exact hnd.1 m1
            · intro q hq
              rw [List.singleton_append, List.mem_cons] at hq
              rcases hq with hq | hq
              · subst hq; exact ⟨by simp, hpd, hpne⟩
              · obtain ⟨m1, m2, m3⟩ := k3 q hq
                exact ⟨List.mem_cons_of_mem _ m1, fun hm => m2 (List.mem_append_left _ hm), m3⟩

end


end Pass

theorem tnLoop_antichain (cfg : NCfg) (sub : NSub) (sc : Script) (hR : NoRaise sc) (hC : NoCmds sc)
    (scope : Scope) (x : Ctx) (ev : Nat) (ts : List NTrans) :
    ∀ (ps done : List SPath) (s s' : NSt),
    ps.Pairwise (fun a b => properPrefix a b = false) → ps.Nodup →
    (tnLoop sub sc cfg scope x ev ts ps done s).state? = some s' →
    ∃ seg, s'.glog = s.glog ++ seg ∧
      (execSources ts seg).Pairwise (fun a b => related a b = false) ∧
      (∀ p ∈ execSources ts seg, p ∈ ps ∧ p ∉ done) := by
  have _ := hR
  intro ps done s s' hpw hnd h
  obtain ⟨seg, e1, _, h2, h3⟩ := Pass.tnLoop_aux sub sc cfg hC scope x ev ts ps done s s' hpw hnd h
  exact ⟨seg, e1, h2, fun p hp => ⟨(h3 p hp).1, (h3 p hp).2.1⟩⟩

/-- no state definition declares events -/
def SForest.noEvents : SForest → Bool
  | .nil => true
  | .cons d kids rest => d.events.isEmpty && kids.noEvents && rest.noEvents

namespace Pass

theorem noEvents_find {sf : SForest} (h : sf.noEvents = true) {k : Nat} {d : SDef} {kids : SForest}
    (hf : sf.find k = some (d, kids)) : d.events = [] ∧ kids.noEvents = true := by
  induction sf with
  | nil => simp [SForest.find] at hf
  | cons d' kids' rest _ ihr =>
    simp only [SForest.noEvents, Bool.and_eq_true, List.isEmpty_iff] at h
    simp only [SForest.find] at hf
    split at hf
    · simp only [Option.some.injEq, Prod.mk.injEq] at hf
      obtain ⟨rfl, rfl⟩ := hf
      exact ⟨h.1.1, h.1.2⟩
    · exact ihr h.2 hf

section
variable (sub : NSub) (sc : Script) (cfg : NCfg)

/-- in a scope without events, over definitions without events, `_trigger_event_nested` does nothing -/
theorem ten_silent (x : Ctx) (ev : Nat) : ∀ (tree : Forest) (scope : Scope) (res : List (Nat × Bool)) (off : Bool)
    (s : NSt),
    scope.states.noEvents = true → scope.events = [] → ConfOK scope.states tree = true →
    ten sub sc cfg x ev scope tree res off s = .ok res s := by
  intro tree
  induction tree with
  | nil => intro scope res off s _ _ _; rw [ten]
  | cons key value rest ihv ihr =>
    intro scope res off s hno hev hc
    obtain ⟨_, hrest, d, kids, hf, _, hv⟩ := ConfOK_cons hc
    obtain ⟨hde, hkn⟩ := noEvents_find hno hf
    rw [ten]
    have he : scope.enter key = some { owner := some d, states := kids, events := d.events, pre := scope.pre ++ [key] } := by
      simp [Scope.enter, hf]
    cases hve : value.isEmpty with
    | true =>
      simp only [if_true, bind_ok, hev, alookup, ite_self]
      exact ihr scope res off s hno hev hrest
    | false =>
      simp only [Bool.false_eq_true, if_false, he]
      rw [ihv _ [] false s hkn hde (hv hve).2]
      simp only [bind_ok, summarize, List.isEmpty_nil, if_true, hev, alookup, ite_self]
      exact ihr scope res off s hno hev hrest

end

end Pass


theorem ten_global_only (cfg : NCfg) (sub : NSub) (sc : Script) (x : Ctx) (ev : Nat)
    (hno : cfg.states.noEvents = true) (k : Nat) (v : Forest) (hc : ConfOK cfg.states (.cons k v .nil) = true)
    (s : NSt) :
    ten sub sc cfg x ev cfg.root (.cons k v .nil) [] false s =
      (match alookup ev cfg.events with
       | none => .ok [] s
       | some ts => (triggerNested sub sc cfg cfg.root x ev ts s).bind fun tmp s2 =>
           .ok (match tmp with
             | some b => [(k, b)]
             | none => []) s2) := by
  obtain ⟨_, _, d, kids, hf, _, hv⟩ := ConfOK_cons hc
  obtain ⟨hde, hkn⟩ := Pass.noEvents_find hno hf
  have hf' : cfg.root.states.find k = some (d, kids) := hf
  have he : cfg.root.enter k = some { owner := some d, states := kids, events := d.events, pre := cfg.root.pre ++ [k] } := by
    simp [Scope.enter, hf']
  have hev : cfg.root.events = cfg.events := rfl
  have htail : ∀ (res : List (Nat × Bool)) (off : Bool) (s2 : NSt),
      ten sub sc cfg x ev cfg.root .nil res off s2 = .ok res s2 := by
    intro res off s2; rw [ten]
  rw [ten]
  cases hve : v.isEmpty with
  | true =>
    simp only [if_true, Pass.bind_ok, alookup, Option.getD_none, htail, hev, and_self]
    cases alookup ev cfg.events with
    | none => rfl
    | some ts =>
      simp only [aset]
      congr 1
  | false =>
    simp only [Bool.false_eq_true, if_false, he]
    rw [Pass.ten_silent sub sc cfg x ev v _ [] false s hkn hde (hv hve).2]
    simp only [Pass.bind_ok, summarize, List.isEmpty_nil, if_true, alookup, Option.getD_none, htail, hev, and_self]
    cases alookup ev cfg.events with
    | none => rfl
    | some ts =>
      simp only [aset]
      congr 1


/-- all `exec` events of a ghost segment, as (event, index) of machine-level transitions -/
def execRefs (seg : List GEv) : List TRef :=
  seg.filterMap fun e => match e with
    | .exec tr => some tr
    | _ => none

namespace Pass

theorem execRefs_eq (seg : List GEv) : execRefs seg = refs seg := rfl

/-- the ghost log grows by a segment whose executed transitions are machine-level transitions of `ev` with
pairwise unrelated sources -/
def Step (ev : Nat) (ts : List NTrans) (s s' : NSt) : Prop :=
  ∃ seg, s'.glog = s.glog ++ seg ∧
    (∀ tr ∈ refs seg, tr.scope = [] ∧ tr.ev = ev) ∧
    (execSources ts seg).Pairwise (fun a b => related a b = false)

theorem Quiet.step {ev : Nat} {ts : List NTrans} {s s' : NSt} (h : Quiet s s') : Step ev ts s s' := by
  obtain ⟨seg, e1, h1⟩ := h
  refine ⟨seg, e1, ?_, ?_⟩
  · rw [h1]; simp
  · rw [execSources_quiet ts h1]; simp

theorem Step.wrap {ev : Nat} {ts : List NTrans} {a b c d : NSt} (h1 : Quiet a b) (h2 : Step ev ts b c)
    (h3 : Quiet c d) : Step ev ts a d := by
  obtain ⟨s1, e1, r1⟩ := h1
  obtain ⟨s2, e2, r2, p2⟩ := h2
  obtain ⟨s3, e3, r3⟩ := h3
  refine ⟨s1 ++ s2 ++ s3, by rw [e3, e2, e1]; simp [List.append_assoc], ?_, ?_⟩
  · rw [refs_append, refs_append, r1, r3]; simpa using r2
  · rw [execSources_append, execSources_append, execSources_quiet ts r1, execSources_quiet ts r3]
    simpa using p2

theorem Forest.len_one {f : Forest} (h : f.len = 1) : ∃ k v, f = .cons k v .nil := by
  cases f with
  | nil => simp [Forest.len] at h
  | cons k v r =>
    cases r with
    | nil => exact ⟨k, v, rfl⟩
    | cons _ _ _ => simp [Forest.len] at h

section
variable (sub : NSub) (sc : Script) (cfg : NCfg)

theorem triggerNested_step (hC : NoCmds sc) (x : Ctx) (ev : Nat) (ts : List NTrans) (s s' : NSt)
    (hcok : ConfOK cfg.states s.conf = true)
    (h : (triggerNested sub sc cfg cfg.root x ev ts s).state? = some s') : Step ev ts s s' := by
  unfold triggerNested at h
  have hrg : s.conf.reduceGet cfg.root.pre = .ok (some s.conf) := by
    show s.conf.reduceGet [] = _
    simp [Forest.reduceGet]
  rw [hrg] at h
  simp only [] at h
  cases hro : resolveOrder s.conf with
  | none => rw [hro] at h; simp [Res.state?] at h
  | some order =>
    rw [hro] at h
    simp only [] at h
    have hpw := resolveOrder_children_first hro
    have hnd : order.Nodup := (resolveOrder_perm hro).nodup_iff.mpr (Forest.nodes_nodup (ConfOK_WF hcok))
    have haux := tnLoop_aux sub sc cfg hC cfg.root x ev ts order [] s
    rcases bind_state h with ⟨e, he⟩ | ⟨a, s1, he, h1⟩
    · obtain ⟨seg, e1, h2, h3, _⟩ := haux s' hpw hnd (by rw [he]; rfl)
      exact ⟨seg, e1, h2, h3⟩
    · obtain ⟨seg, e1, h2, h3, _⟩ := haux s1 hpw hnd (by rw [he]; rfl)
      split at h1
      · simp only [Res.state?, Option.some.injEq] at h1; subst h1
        exact ⟨seg, e1, h2, h3⟩
      · simp only [Res.state?, Option.some.injEq] at h1; subst h1
        exact ⟨seg, e1, h2, h3⟩

theorem ten_step (hC : NoCmds sc) (x : Ctx) (ev : Nat) (hno : cfg.states.noEvents = true) (s s' : NSt)
    (hlen : s.conf.len = 1) (hcok : ConfOK cfg.states s.conf = true)
    (h : (ten sub sc cfg x ev cfg.root s.conf [] false s).state? = some s') :
    Step ev ((alookup ev cfg.events).getD []) s s' := by
  obtain ⟨k, v, hkv⟩ := Forest.len_one hlen
  rw [hkv, ten_global_only cfg sub sc x ev hno k v (hkv ▸ hcok) s] at h
  cases hal : alookup ev cfg.events with
  | none =>
    rw [hal] at h
    simp only [Res.state?, Option.some.injEq] at h; subst h
    exact (Quiet.refl _).step
  | some ts =>
    rw [hal] at h
    simp only [Option.getD_some] at h ⊢
    rcases bind_state h with ⟨e, he⟩ | ⟨a, s1, he, h1⟩
    · exact triggerNested_step sub sc cfg hC x ev ts s s' hcok (by rw [he]; rfl)
    · simp only [Res.state?, Option.some.injEq] at h1; subst h1
      exact triggerNested_step sub sc cfg hC x ev ts s s1 hcok (by rw [he]; rfl)

theorem checkEventResult_state (res : Option Bool) (ev : Nat) (s s' : NSt)
    (h : (checkEventResult cfg res ev s).state? = some s') : s' = s := by
  unfold checkEventResult at h
  split at h
  · simp only [Res.state?, Option.some.injEq] at h; exact h.symm
  · split at h
    · simp only [Res.state?, Option.some.injEq] at h; exact h.symm
    · simp only [Res.state?, Option.some.injEq] at h; exact h.symm
    · simp [Res.state?] at h

theorem triggerEventBody_step (hC : NoCmds sc) (x : Ctx) (ev : Nat) (hno : cfg.states.noEvents = true) (s s' : NSt)
    (hlen : s.conf.len = 1) (hcok : ConfOK cfg.states s.conf = true)
    (h : (triggerEventBody sub sc cfg x ev s).state? = some s') :
    Step ev ((alookup ev cfg.events).getD []) s s' := by
  unfold triggerEventBody at h
  rcases bind_state h with ⟨e, he⟩ | ⟨r, s1, he, h1⟩
  · exact ten_step sub sc cfg hC x ev hno s s' hlen hcok (by rw [he]; rfl)
  · have hs1 := ten_step sub sc cfg hC x ev hno s s1 hlen hcok (by rw [he]; rfl)
    rcases bind_state h1 with ⟨e, he2⟩ | ⟨b, s2, he2, h2⟩
    · have := checkEventResult_state cfg _ ev s1 s' (by rw [he2]; rfl)
      subst this; exact hs1
    · have := checkEventResult_state cfg _ ev s1 s2 (by rw [he2]; rfl)
      subst this
      simp only [Res.state?, Option.some.injEq] at h2; subst h2
      exact Step.wrap (Quiet.refl _) hs1 (Quiet.of_glog rfl)

theorem nfinalize_quiet (hC : NoCmds sc) (x : Ctx) (s s' : NSt) (h : nfinalize sub sc cfg x s = some s') :
    Quiet s s' := by
  unfold nfinalize at h
  have h0 : Quiet s (s.emitG (.fin x.tag (confMask cfg s.conf))) := Quiet.emitG s _ (by intro tr h; cases h)
  split at h
  · rename_i u s1 hc; cases h
    exact h0.trans (ncallbacks_quiet sub sc cfg hC _ x _ _ _ (by rw [hc]; rfl))
  · rename_i e s1 hc; cases h
    exact h0.trans (ncallbacks_quiet sub sc cfg hC _ x _ _ _ (by rw [hc]; rfl))
  · cases h

theorem ntriggerEvent_body (hC : NoCmds sc) (x : Ctx) (ev : Nat) (s s'' : NSt)
    (h : (ntriggerEvent sub sc cfg x ev s).state? = some s'') :
    ∃ s', (triggerEventBody sub sc cfg x ev { s with result := none, exited := [] }).state? = some s' ∧
      Quiet s' s'' := by
  unfold ntriggerEvent at h
  simp only [] at h
  cases hb : triggerEventBody sub sc cfg x ev { s with result := none, exited := [] } with
  | oof => rw [hb] at h; simp [Res.state?] at h
  | ok b s1 =>
    rw [hb] at h
    simp only [] at h
    cases hf : nfinalize sub sc cfg x s1 with
    | none => rw [hf] at h; simp [Res.state?] at h
    | some s2 =>
      rw [hf] at h
      simp only [Res.state?, Option.some.injEq] at h; subst h
      exact ⟨s1, rfl, nfinalize_quiet sub sc cfg hC x s1 s2 hf⟩
  | err e s1 =>
    rw [hb] at h
    simp only [] at h
    refine ⟨s1, rfl, ?_⟩
    cases hx : cfg.onException with
    | nil =>
      rw [hx] at h
      simp only [] at h
      cases hf : nfinalize sub sc cfg x s1 with
      | none => rw [hf] at h; simp [Res.state?] at h
      | some s2 =>
        rw [hf] at h
        simp only [Res.state?, Option.some.injEq] at h; subst h
        exact nfinalize_quiet sub sc cfg hC x s1 s2 hf
    | cons c cs =>
      rw [hx] at h
      simp only [] at h
      cases hcb : ncallbacks sub sc cfg .onException x (c :: cs) s1 with
      | oof => rw [hcb] at h; simp [bind_oof, Res.state?] at h
      | ok u s2 =>
        rw [hcb] at h
        simp only [bind_ok] at h
        have q1 := ncallbacks_quiet sub sc cfg hC _ x _ s1 s2 (by rw [hcb]; rfl)
        cases hf : nfinalize sub sc cfg x s2 with
        | none => rw [hf] at h; simp [Res.state?] at h
        | some s3 =>
          rw [hf] at h
          simp only [Res.state?, Option.some.injEq] at h; subst h
          exact q1.trans (nfinalize_quiet sub sc cfg hC x s2 s3 hf)
      | err e2 s2 =>
        rw [hcb] at h
        simp only [bind_err] at h
        have q1 := ncallbacks_quiet sub sc cfg hC _ x _ s1 s2 (by rw [hcb]; rfl)
        cases hf : nfinalize sub sc cfg x s2 with
        | none => rw [hf] at h; simp [Res.state?] at h
        | some s3 =>
          rw [hf] at h
          simp only [Res.state?, Option.some.injEq] at h; subst h
          exact q1.trans (nfinalize_quiet sub sc cfg hC x s2 s3 hf)

end

end Pass

/-- **P1 for machines whose transitions are all declared on the machine**: one trigger call on an unqueued
machine, callbacks neither raising nor triggering: the executed transitions belong to the triggered event and
their sources are pairwise unrelated -/
theorem C03_P1_global_only (cfg : NCfg) (sub : NSub) (sc : Script) (hR : NoRaise sc) (hC : NoCmds sc)
    (hq : cfg.queued = false) (hno : cfg.states.noEvents = true)
    (qmax ev : Nat) (s s' : NSt) (hlen : s.conf.len = 1) (hcok : ConfOK cfg.states s.conf = true) (hidle : s.queue = [])
    (h : (napiTrigger sub sc cfg qmax ev s).state? = some s') :
    ∃ seg, s'.glog = s.glog ++ seg ∧
      (∀ tr ∈ execRefs seg, tr.scope = [] ∧ tr.ev = ev) ∧
      (execSources ((alookup ev cfg.events).getD []) seg).Pairwise (fun a b => related a b = false) := by
  have _ := hR
  open Pass in
  suffices hs : Step ev ((alookup ev cfg.events).getD []) s s' from hs
  unfold napiTrigger at h
  simp only [] at h
  -- the state handed to `nmachineProcess`
  generalize hs1 : ((({ s with nextTag := s.nextTag + 1 } : NSt).emit (.api 0 s.nextTag 0 ev)).emitG
      (.api s.nextTag ev)) = s1 at h
  have q01 : Pass.Quiet s s1 := by
    subst hs1; exact ⟨[.api s.nextTag ev], rfl, rfl⟩
  have hconf : s1.conf = s.conf := by subst hs1; rfl
  have hqueue : s1.queue = [] := by subst hs1; exact hidle
  have hmp : nmachineProcess sub sc cfg qmax ev s.nextTag s1 = ntriggerEvent sub sc cfg ⟨0, s.nextTag⟩ ev s1 := by
    simp [nmachineProcess, hq, hqueue]
  rw [hmp] at h
  have key : ∀ s2, (ntriggerEvent sub sc cfg ⟨0, s.nextTag⟩ ev s1).state? = some s2 →
      Pass.Step ev ((alookup ev cfg.events).getD []) s s2 := by
    intro s2 h2
    obtain ⟨sb, hb, qb⟩ := Pass.ntriggerEvent_body sub sc cfg hC _ ev s1 s2 h2
    have hstep := Pass.triggerEventBody_step sub sc cfg hC _ ev hno { s1 with result := none, exited := [] } sb
      (by show s1.conf.len = 1; rw [hconf]; exact hlen) (by show ConfOK cfg.states s1.conf = true; rw [hconf]; exact hcok) hb
    exact Pass.Step.wrap (q01.trans (Pass.Quiet.of_glog rfl)) hstep qb
  cases hn : ntriggerEvent sub sc cfg ⟨0, s.nextTag⟩ ev s1 with
  | oof => rw [hn] at h; simp [Res.state?] at h
  | ok b s2 =>
    rw [hn] at h
    simp only [Res.state?, Option.some.injEq] at h; subst h
    exact Pass.Step.wrap (Pass.Quiet.refl _) (key s2 (by rw [hn]; rfl)) ⟨[.ret s.nextTag b], rfl, rfl⟩
  | err e s2 =>
    rw [hn] at h
    simp only [Res.state?, Option.some.injEq] at h; subst h
    exact Pass.Step.wrap (Pass.Quiet.refl _) (key s2 (by rw [hn]; rfl)) ⟨[.raised s.nextTag e], rfl, rfl⟩

end TM
