/-
  Proofs/C02RegionsDefs.lean — "the transition stays inside its own region", judged at the moment it executes.
-/
import Proofs.C02
import Proofs.C03Effect

namespace TM
open C02 C03

/-- a transition `src → dst` (global names) is LOCAL w.r.t. the ghost state at the moment it executes: its source is
active and has not been entered during the current event, nothing below the source was entered during the current
event, and wherever an ancestor of the source (or the machine itself) has two or more active children the
destination lies in the same child's branch as the source -/
def localNow (g : G) (src dst : SPath) : Bool :=
  g.live.contains src && !g.entered.contains src
  && (List.range src.length).all (fun k =>
        decide ((liveKids g.live (src.take k)).length < 2) || isPrefix (src.take (k + 1)) dst)
  && g.entered.all (fun q => !isPrefix src q)

/-- the transitions the reference denotes (declared on the machine or inside a state definition — source and
destination are relative to the declaring scope `tr.scope`) that have a destination are all local now -/
def localRef (cfg : NCfg) (g : G) (tr : TRef) : Bool :=
  (allTrans cfg).all fun e =>
    e.1 != tr || (match e.2.dest with
      | some d => localNow g (tr.scope ++ e.2.source) (tr.scope ++ d)
      | none => true)

/-- some transition that executes in the segment is not local at that moment -/
def nonLocalRun (cfg : NCfg) : G → List GEv → Bool
  | _, [] => false
  | g, e :: l =>
    (match e with
      | .exec tr => !localRef cfg g tr
      | _ => false) || nonLocalRun cfg (gstep cfg g e) l

/-- the live set is closed under non-empty prefixes -/
def PrefixClosed (live : List SPath) : Prop := ∀ p ∈ live, ∀ k, 0 < k → k < p.length → p.take k ∈ live

namespace Regions


theorem diverge : ∀ (p s : List Nat), isPrefix p s = true ∨ isPrefix s p = true ∨
    ∃ k, k < p.length ∧ k < s.length ∧ p.take k = s.take k ∧ p.take (k+1) ≠ s.take (k+1)
  | [], s => by simp [isPrefix]
  | x :: p, [] => by simp [isPrefix]
  | x :: p, y :: s => by
    by_cases hxy : x = y
    · subst hxy
      rcases diverge p s with h | h | ⟨k, h1, h2, h3, h4⟩
      · left; simpa [isPrefix] using h
      · right; left; simpa [isPrefix] using h
      · right; right
        refine ⟨k+1, by simpa using h1, by simpa using h2, by simpa using h3, by simpa using h4⟩
    · right; right
      exact ⟨0, by simp, by simp, by simp, by simpa using hxy⟩

theorem getLast_filter_range (P : Nat → Bool) : ∀ n : Nat,
    (((List.range n).filter P).getLast? = none ∧ ∀ j, j < n → P j = false) ∨
    ∃ i, ((List.range n).filter P).getLast? = some i ∧ i < n ∧ P i = true ∧ ∀ j, j < n → P j = true → j ≤ i
  | 0 => by simp
  | n+1 => by
    rw [List.range_succ, List.filter_append]
    cases hn : P n
    · simp [hn]
      rcases getLast_filter_range P n with ⟨h1, h2⟩ | ⟨i, h1, h2, h3, h4⟩
      · left; refine ⟨by simpa using h1, fun j hj => ?_⟩
        by_cases hjn : j = n
        · subst hjn; exact hn
        · exact h2 j (by omega)
      · right; refine ⟨i, by simpa using h1, by omega, h3, fun j hj hp => ?_⟩
        by_cases hjn : j = n
        · subst hjn; simp [hn] at hp
        · exact h4 j (by omega) hp
    · right
      refine ⟨n, by simp [hn], by omega, hn, fun j hj _ => by omega⟩

theorem anchor_spec (live : List SPath) (dst : SPath) (hd : dst ≠ []) :
    ∃ i, i < dst.length ∧ anchor live dst = dst.take i ∧ (i = 0 ∨ dst.take i ∈ live) ∧
      ∀ j, j < dst.length → (j = 0 ∨ dst.take j ∈ live) → j ≤ i := by
  have hlen : 0 < dst.length := List.length_pos_iff.mpr hd
  unfold anchor
  rw [List.filter_map, List.getLast?_map]
  have hP : ∀ j, j < dst.length →
      ((((fun p : SPath => p.isEmpty || live.contains p) ∘ fun i => dst.take i) j) = true ↔
        (j = 0 ∨ dst.take j ∈ live)) := by
    intro j hj
    cases j with
    | zero => simp
    | succ j =>
      cases dst with
      | nil => simp at hj
      | cons x t => simp; exact decide_eq_true_iff
  rcases getLast_filter_range ((fun p : SPath => p.isEmpty || live.contains p) ∘ fun i => dst.take i) dst.length
    with ⟨_, h2⟩ | ⟨i, h1, h2, h3, h4⟩
  · have := h2 0 hlen
    simp at this
  · refine ⟨i, h2, by rw [h1]; rfl, (hP i h2).mp h3, fun j hj hjp => h4 j hj ((hP j hj).mpr hjp)⟩

theorem two_kids {live : List SPath} (hnd : live.Nodup) {m x y : SPath} (hx : x ∈ live) (hy : y ∈ live)
    (hxl : x.length = m.length + 1) (hyl : y.length = m.length + 1)
    (hxm : x.take m.length = m) (hym : y.take m.length = m) (hne : x ≠ y) :
    2 ≤ (liveKids live m).length := by
  have hxk : x ∈ liveKids live m := by simp [liveKids, isPrefix, hx, hxl, hxm]
  have hyk : y ∈ liveKids live m := by simp [liveKids, isPrefix, hy, hyl, hym]
  have hk : (liveKids live m).Nodup := List.Nodup.sublist List.filter_sublist hnd
  revert hxk hyk hk
  generalize liveKids live m = L
  intro hxk hyk hk
  match L, hxk, hyk with
  | [], h, _ => simp at h
  | [z], h1, h2 =>
    simp at h1 h2
    exact absurd (h1.trans h2.symm) hne
  | _ :: _ :: _, _, _ => simp

theorem mem_exits {live : List SPath} {dst p : SPath} (hd : dst ≠ []) (h : p ∈ expectedExits live dst) :
    p ∈ live ∧ p.take (anchor live dst).length = anchor live dst ∧
      ((liveKids live (anchor live dst)).length > 1 →
        p.take ((anchor live dst).length + 1) = dst.take ((anchor live dst).length + 1)) := by
  obtain ⟨i, hi, ha, _, _⟩ := anchor_spec live dst hd
  have hal : (anchor live dst).length = i := by rw [ha, List.length_take]; omega
  unfold expectedExits at h
  simp only [] at h
  rw [hal] at h ⊢
  have hk : (live.filter fun p => p.length == i + 1 && isPrefix (anchor live dst) p) = liveKids live (anchor live dst) := by
    simp [liveKids, hal]
  rw [hk] at h
  have hl : (dst.take (i+1)).length = i + 1 := by rw [List.length_take]; omega
  split at h
  · rename_i hgt
    simp only [List.mem_filter, isPrefix, hl, beq_iff_eq] at h
    refine ⟨h.1, ?_, fun _ => h.2⟩
    have : (p.take (i+1)).take i = (dst.take (i+1)).take i := by rw [h.2]
    rw [List.take_take, List.take_take] at this
    have hm : min i (i+1) = i := by omega
    rw [hm] at this
    rw [this, ha]
  · rename_i hgt
    simp only [List.mem_filter, properPrefix, hal, Bool.and_eq_true, beq_iff_eq] at h
    exact ⟨h.1, h.2.2, fun hh => absurd hh hgt⟩

theorem take_mem {live : List SPath} (hpc : ∀ p ∈ live, ∀ k, 0 < k → k < p.length → p.take k ∈ live)
    {p : SPath} (hp : p ∈ live) {k : Nat} (hk : k < p.length) : p.take (k+1) ∈ live := by
  by_cases h : k + 1 < p.length
  · exact hpc p hp (k+1) (by omega) h
  · rw [List.take_of_length_le (by omega)]; exact hp

theorem exits_comparable (live : List SPath) (src dst : SPath) (hd : dst ≠ [])
    (hnd : live.Nodup) (hpc : ∀ p ∈ live, ∀ k, 0 < k → k < p.length → p.take k ∈ live)
    (hsl : src ∈ live)
    (h3 : ∀ k, k < src.length → (liveKids live (src.take k)).length < 2 ∨ isPrefix (src.take (k+1)) dst = true) :
    ∀ p ∈ expectedExits live dst, isPrefix p src = true ∨ isPrefix src p = true := by
  intro p hp
  obtain ⟨hpl, hpa, hpn⟩ := mem_exits hd hp
  obtain ⟨i, hi, ha, hia, himax⟩ := anchor_spec live dst hd
  have hal : (anchor live dst).length = i := by rw [ha, List.length_take]; omega
  rw [hal] at hpa hpn
  rcases diverge p src with h | h | ⟨k, hkp, hks, heq, hne⟩
  · exact Or.inl h
  · exact Or.inr h
  · exfalso
    have hml : (src.take k).length = k := by rw [List.length_take]; omega
    have hxl : (p.take (k+1)).length = k + 1 := by rw [List.length_take]; omega
    have hyl : (src.take (k+1)).length = k + 1 := by rw [List.length_take]; omega
    have hmin : min k (k+1) = k := by omega
    have h2 : 2 ≤ (liveKids live (src.take k)).length :=
      two_kids hnd (take_mem hpc hpl hkp) (take_mem hpc hsl hks)
        (by rw [hxl, hml]) (by rw [hyl, hml])
        (by rw [hml, List.take_take, hmin, heq]) (by rw [hml, List.take_take, hmin]) hne
    rcases h3 k hks with h | h
    · omega
    · -- dst.take (k+1) = src.take (k+1)
      simp only [isPrefix, hyl, beq_iff_eq] at h
      have hkd : k < dst.length := by
        have := congrArg List.length h
        rw [hyl, List.length_take] at this; omega
      have hdk : dst.take k = src.take k := by
        have := congrArg (List.take k) h
        rw [List.take_take, List.take_take, hmin] at this
        exact this
      have hki : k ≤ i := by
        apply himax k hkd
        by_cases hk0 : k = 0
        · exact Or.inl hk0
        · right; rw [hdk]
          have := take_mem hpc hsl (k := k - 1) (by omega)
          rwa [show k - 1 + 1 = k by omega] at this
      by_cases hik : i = k
      · subst hik
        rw [ha, hdk] at hpn
        have := hpn (by omega)
        exact hne (this.trans h)
      · have hm2 : min (k+1) i = k + 1 := by omega
        have e1 : p.take (k+1) = (anchor live dst).take (k+1) := by
          rw [← hpa, List.take_take, hm2]
        have e2 : (anchor live dst).take (k+1) = dst.take (k+1) := by
          rw [ha, List.take_take, hm2]
        exact hne (e1.trans (e2.trans h))

end Regions

/-- **a local transition exits nothing that was entered during the current event** (pure statement about the exit
set the property prescribes, `C03.expectedExits`) -/
theorem local_exits_fresh (g : G) (src dst : SPath) (hd : dst ≠ [])
    (hnd : g.live.Nodup) (hpc : PrefixClosed g.live)
    (hJ : ∀ p ∈ g.entered, ∀ q ∈ g.live, isPrefix p q = true → q ∈ g.entered)
    (hloc : localNow g src dst = true) :
    ∀ p ∈ expectedExits g.live dst, p ∉ g.entered := by
  intro p hp hpe
  simp only [localNow, Bool.and_eq_true, List.contains_iff_mem, Bool.not_eq_true', List.all_eq_true,
    List.mem_range, Bool.or_eq_true, decide_eq_true_eq] at hloc
  obtain ⟨⟨⟨hsl, hse⟩, h3⟩, h4⟩ := hloc
  rcases Regions.exits_comparable g.live src dst hd hnd hpc hsl h3 p hp with h | h
  · have hm := hJ p hpe src hsl h
    have hc : g.entered.contains src = true := List.contains_iff_mem.2 hm
    rw [hc] at hse; cases hse
  · have := h4 p hpe
    simp [h] at this

end TM
