/-
  Proofs/C03Pass2.lean — one pass of `NestedEvent.trigger_nested`, continued: P3 (innermost first, nothing of the same
  state or an ancestor after an execution, completeness up to states exited earlier in the event) and the value the
  pass returns (`triggerNested_result`: True iff some transition of the call executed), on the sequence of offers read
  off the ghost segment; and, for machines whose transitions are all declared on the machine, both halves of P2
  (every executed source was active when the event began — `C03_P2_active_at_start` — and has not been exited since —
  `C03_P2_global_only`, via `event_data.exited_states`) and P5 at full strength (`C03_P5_global_only`).
-/
import Proofs.C03Pass
import Proofs.C02

namespace TM
open C02 C03

/-- an offer of a transition of the list `ts` as far as the ghost log shows it: source, index, executed? -/
structure SOffer where
  src : SPath
  idx : Nat
  executed : Bool
  deriving DecidableEq, Repr

/-- the offers of a ghost segment in order: `cand t` opens one, `exec t` marks the last one executed -/
def sOffers (ts : List NTrans) : List GEv → List SOffer → List SOffer
  | [], acc => acc
  | .cand tr :: l, acc => sOffers ts l (acc ++ [⟨((ts[tr.idx]?).map (·.source)).getD [], tr.idx, false⟩])
  | .exec _ :: l, acc =>
    sOffers ts l (match acc.getLast? with
      | some o => acc.dropLast ++ [{ o with executed := true }]
      | none => acc)
  | _ :: l, acc => sOffers ts l acc

/-- P3, "after": no candidate of the same state or of an ancestor is offered after a transition executed -/
def sAfter (offs : List SOffer) : Bool := (pairs offs).all fun e => !(e.1.executed && isPrefix e.2.src e.1.src)

/-- P3, "order": no state is offered before one of its descendants; candidates of one state in definition order -/
def sOrder (offs : List SOffer) : Bool :=
  (pairs offs).all fun e => !properPrefix e.1.src e.2.src && !(e.1.src == e.2.src && e.1.idx ≥ e.2.idx)

/-! ### infrastructure: the offers each engine function appends -/

namespace Pass2
open Pass

/-- the offer a `cand tr` event opens -/
def off (ts : List NTrans) (tr : TRef) (b : Bool) : SOffer :=
  ⟨((ts[tr.idx]?).map (·.source)).getD [], tr.idx, b⟩

theorem sOffers_append (ts : List NTrans) : ∀ (a b : List GEv) (acc : List SOffer),
    sOffers ts (a ++ b) acc = sOffers ts b (sOffers ts a acc)
  | [], _, _ => rfl
  | e :: a, b, acc => by
    cases e <;> simp only [List.cons_append, sOffers] <;> exact sOffers_append ts a b _

/-- the ghost log grows by a segment that appends the offers `g` -/
def Adds (ts : List NTrans) (g : List SOffer) (s s' : NSt) : Prop :=
  ∃ seg, s'.glog = s.glog ++ seg ∧ ∀ acc, sOffers ts seg acc = acc ++ g

section
variable {ts : List NTrans}

theorem Adds.refl (s : NSt) : Adds ts [] s s := ⟨[], by simp, by intro acc; simp [sOffers]⟩

theorem Adds.trans {g1 g2 : List SOffer} {a b c : NSt} (h1 : Adds ts g1 a b) (h2 : Adds ts g2 b c) :
    Adds ts (g1 ++ g2) a c := by
  obtain ⟨s1, e1, r1⟩ := h1
  obtain ⟨s2, e2, r2⟩ := h2
  refine ⟨s1 ++ s2, by rw [e2, e1, List.append_assoc], ?_⟩
  intro acc
  rw [sOffers_append, r1, r2, List.append_assoc]

theorem Adds.sil_r {g : List SOffer} {a b c : NSt} (h1 : Adds ts g a b) (h2 : Adds ts [] b c) : Adds ts g a c := by
  simpa using h1.trans h2

theorem Adds.sil_l {g : List SOffer} {a b c : NSt} (h1 : Adds ts [] a b) (h2 : Adds ts g b c) : Adds ts g a c := by
  simpa using h1.trans h2

theorem Adds.of_glog {s s' : NSt} (h : s'.glog = s.glog) : Adds ts [] s s' :=
  ⟨[], by simp [h], by intro acc; simp [sOffers]⟩

theorem Adds.of_view {s s' : NSt} (h : s'.view = s.view) : Adds ts [] s s' :=
  Adds.of_glog (congrArg View.glog h)

theorem Adds.emitG (s : NSt) (e : GEv) (h1 : ∀ tr, e ≠ .cand tr) (h2 : ∀ tr, e ≠ .exec tr) :
    Adds ts [] s (s.emitG e) := by
  refine ⟨[e], rfl, ?_⟩
  intro acc
  cases e <;> first | exact absurd rfl (h1 _) | exact absurd rfl (h2 _) | simp [sOffers]

theorem Adds.cand (s : NSt) (tr : TRef) : Adds ts [off ts tr false] s (s.emitG (.cand tr)) :=
  ⟨[.cand tr], rfl, by intro acc; simp [sOffers, off]⟩

theorem Adds.exec {s s1 : NSt} {tr : TRef} (h : Adds ts [off ts tr false] s s1) :
    Adds ts [off ts tr true] s (s1.emitG (.exec tr)) := by
  obtain ⟨seg, e1, r1⟩ := h
  refine ⟨seg ++ [.exec tr], by simp [NSt.emitG, e1], ?_⟩
  intro acc
  rw [sOffers_append, r1]
  simp [sOffers, off]

end

/-- postcondition of a three-way result -/
def Post {α : Type} (P : α → NSt → Prop) (E : NSt → Prop) : NR α → Prop
  | .ok a s' => P a s'
  | .err _ s' => E s'
  | .oof => True

theorem Post.bind {α β : Type} {P1 : α → NSt → Prop} {E1 : NSt → Prop} {P : β → NSt → Prop} {E : NSt → Prop}
    {r : NR α} {f : α → NSt → NR β} (h1 : Post P1 E1 r) (hE : ∀ s', E1 s' → E s')
    (hf : ∀ a s1, P1 a s1 → Post P E (f a s1)) : Post P E (r.bind f) := by
  cases r with
  | ok a s1 => exact hf a s1 h1
  | err e s1 => exact hE s1 h1
  | oof => trivial

theorem Post.mono {α : Type} {P1 P : α → NSt → Prop} {E1 E : NSt → Prop} {r : NR α} (h1 : Post P1 E1 r)
    (hP : ∀ a s', P1 a s' → P a s') (hE : ∀ s', E1 s' → E s') : Post P E r := by
  cases r with
  | ok a s1 => exact hP a s1 h1
  | err e s1 => exact hE s1 h1
  | oof => trivial

theorem Post.of_state {α : Type} {Q : NSt → Prop} {r : NR α} (h : ∀ s', r.state? = some s' → Q s') :
    Post (fun _ => Q) Q r := by
  cases r with
  | ok a s1 => exact h s1 rfl
  | err e s1 => exact h s1 rfl
  | oof => trivial

theorem Post.state {α : Type} {Q : NSt → Prop} {r : NR α} (h : Post (fun _ => Q) Q r) {s' : NSt}
    (hs : r.state? = some s') : Q s' := by
  cases r with
  | ok a s1 => simp only [Res.state?, Option.some.injEq] at hs; subst hs; exact h
  | err e s1 => simp only [Res.state?, Option.some.injEq] at hs; subst hs; exact h
  | oof => simp [Res.state?] at hs

section
variable (sub : NSub) (sc : Script) (cfg : NCfg) {ts : List NTrans}

theorem ncallbacks_sil (hC : NoCmds sc) (slot : Slot) (x : Ctx) (cbs : List Nat) (s s' : NSt)
    (h : (ncallbacks sub sc cfg slot x cbs s).state? = some s') : Adds ts [] s s' :=
  Adds.of_view (ncallbacks_view sub sc cfg hC slot x cbs s s' h)

theorem nevalConds_sil (hC : NoCmds sc) (x : Ctx) (cs : List Cond) (s s' : NSt)
    (h : (nevalConds sub sc cfg x cs s).state? = some s') : Adds ts [] s s' :=
  Adds.of_view (nevalConds_view sub sc cfg hC x cs s s' h)

theorem exitAll_sil (hC : NoCmds sc) (x : Ctx) : ∀ (fs : List Found) (s s' : NSt),
    (exitAll sub sc cfg x fs s).state? = some s' → Adds ts [] s s'
  | [], s, s', h => by
    simp only [exitAll, Res.state?, Option.some.injEq] at h; subst h; exact Adds.refl _
  | f :: fs, s, s', h => by
    unfold exitAll at h
    have h0 : Adds ts [] s (s.emitG (.exit f.path)) :=
      Adds.emitG s _ (by intro tr h; cases h) (by intro tr h; cases h)
    rcases bind_state h with ⟨e, he⟩ | ⟨a, s1, he, h1⟩
    · exact h0.sil_r (ncallbacks_sil sub sc cfg hC _ x _ _ s' (by rw [he]; rfl))
    · exact (h0.sil_r (ncallbacks_sil sub sc cfg hC _ x _ _ s1 (by rw [he]; rfl))).sil_r
        (exitAll_sil hC x fs s1 s' h1)

theorem enterAll_sil (hC : NoCmds sc) (x : Ctx) : ∀ (fs : List Found) (s s' : NSt),
    (enterAll sub sc cfg x fs s).state? = some s' → Adds ts [] s s'
  | [], s, s', h => by
    simp only [enterAll, Res.state?, Option.some.injEq] at h; subst h; exact Adds.refl _
  | f :: fs, s, s', h => by
    unfold enterAll at h
    have h0 : Adds ts [] s (s.emitG (.enter f.path)) :=
      Adds.emitG s _ (by intro tr h; cases h) (by intro tr h; cases h)
    rcases bind_state h with ⟨e, he⟩ | ⟨a, s1, he, h1⟩
    · exact h0.sil_r (ncallbacks_sil sub sc cfg hC _ x _ _ s' (by rw [he]; rfl))
    · exact (h0.sil_r (ncallbacks_sil sub sc cfg hC _ x _ _ s1 (by rw [he]; rfl))).sil_r
        (enterAll_sil hC x fs s1 s' h1)

theorem nchangeState_sil (hC : NoCmds sc) (scope : Scope) (x : Ctx) (dest : SPath) (s s' : NSt)
    (h : (nchangeState sub sc cfg scope x dest s).state? = some s') : Adds ts [] s s' := by
  unfold nchangeState at h
  split at h
  · simp only [Res.state?, Option.some.injEq] at h; subst h; exact Adds.refl _
  · simp [Res.state?] at h
  · rename_i r _
    have q0 : Adds ts [] s ({ s with exited := s.exited ++ r.exitNames } : NSt) := Adds.of_glog rfl
    rcases bind_state h with ⟨e, he⟩ | ⟨a, s1, he, h1⟩
    · exact q0.sil_r (exitAll_sil sub sc cfg hC x _ _ s' (by rw [he]; rfl))
    · have q1 : Adds ts [] _ s1 := exitAll_sil sub sc cfg hC x _ _ s1 (by rw [he]; rfl)
      have q2 : Adds ts [] _ s' := enterAll_sil sub sc cfg hC x _ _ s' h1
      exact q0.sil_r (q1.sil_r ((Adds.of_glog (s := s1) (s' := { s1 with conf := r.tree }) rfl).sil_r q2))

theorem nfinalStage_sil (hC : NoCmds sc) (scope : Scope) (x : Ctx) (dest : Option SPath) (conf0 : Forest) (s s' : NSt)
    (h : (nfinalStage sub sc cfg scope x dest conf0 s).state? = some s') : Adds ts [] s s' :=
  Adds.of_view (nfinalStage_view sub sc cfg hC scope x dest conf0 s s' h)

/-- `Transition.execute` for `tr` opens exactly one offer, executed iff it returns `True` -/
theorem nexecute_post2 (hC : NoCmds sc) (scope : Scope) (x : Ctx) (tr : TRef) (t : NTrans) (s : NSt) :
    Post (fun b s' => Adds ts [off ts tr b] s s') (fun s' => ∃ b, Adds ts [off ts tr b] s s')
      (nexecute sub sc cfg scope x tr t s) := by
  unfold nexecute
  have a0 : Adds ts [off ts tr false] s (s.emitG (.cand tr)) := Adds.cand s tr
  refine Post.bind (Post.of_state (ncallbacks_sil (ts := ts) sub sc cfg hC _ x _ _))
    (fun s' h => ⟨false, a0.sil_r h⟩) ?_
  intro _ s1 h1
  have a1 := a0.sil_r h1
  refine Post.bind (Post.of_state (nevalConds_sil (ts := ts) sub sc cfg hC x _ _))
    (fun s' h => ⟨false, a1.sil_r h⟩) ?_
  intro ok s2 h2
  have a2 := a1.sil_r h2
  cases ok with
  | false => exact a2
  | true =>
  simp only [Bool.not_true, Bool.false_eq_true, if_false]
  refine Post.bind (Post.of_state (ncallbacks_sil (ts := ts) sub sc cfg hC _ x _ _))
    (fun s' h => ⟨false, a2.sil_r h⟩) ?_
  intro _ s3 h3
  have a3 : Adds ts [off ts tr true] s (s3.emitG (.exec tr)) := (a2.sil_r h3).exec
  refine Post.bind (Post.of_state (ncallbacks_sil (ts := ts) sub sc cfg hC _ x _ _))
    (fun s' h => ⟨true, a3.sil_r h⟩) ?_
  intro _ s4 h4
  have a4 := a3.sil_r h4
  have h5 : ∀ s5, (match t.dest with
        | some d => nchangeState sub sc cfg scope x d s4
        | none => .ok () s4).state? = some s5 → Adds ts [] s4 s5 := by
    intro s5 h
    cases hd : t.dest with
    | none => simp only [hd, Res.state?, Option.some.injEq] at h; subst h; exact Adds.refl _
    | some d => simp only [hd] at h; exact nchangeState_sil sub sc cfg hC scope x d s4 s5 h
  refine Post.bind (Post.of_state h5) (fun s' h => ⟨true, a4.sil_r h⟩) ?_
  intro _ s5 h5'
  have a5 := a4.sil_r h5'
  refine Post.bind (Post.of_state (nfinalStage_sil (ts := ts) sub sc cfg hC scope x _ _ _))
    (fun s' h => ⟨true, a5.sil_r h⟩) ?_
  intro _ s5 h5''
  have a5 := a5.sil_r h5''
  refine Post.bind (Post.of_state (ncallbacks_sil (ts := ts) sub sc cfg hC _ x _ _))
    (fun s' h => ⟨true, a5.sil_r h⟩) ?_
  intro _ s6 h6
  have a6 := a5.sil_r h6
  refine Post.bind (Post.of_state (ncallbacks_sil (ts := ts) sub sc cfg hC _ x _ _))
    (fun s' h => ⟨true, a6.sil_r h⟩) ?_
  intro _ s7 h7
  exact a6.sil_r h7

end

theorem Post.and {α : Type} {P1 P2 : α → NSt → Prop} {E1 E2 : NSt → Prop} {r : NR α} (h1 : Post P1 E1 r)
    (h2 : Post P2 E2 r) : Post (fun a s => P1 a s ∧ P2 a s) (fun s => E1 s ∧ E2 s) r := by
  cases r with
  | ok a s1 => exact ⟨h1, h2⟩
  | err e s1 => exact ⟨h1, h2⟩
  | oof => trivial

/-! ### `event_data.exited_states` only grows while an event is processed; callbacks do not touch it -/

/-- everything exited so far is still recorded -/
def ExSub (s s' : NSt) : Prop := ∀ q ∈ s.exited, q ∈ s'.exited

theorem ExSub.refl (s : NSt) : ExSub s s := fun _ h => h

theorem ExSub.trans {a b c : NSt} (h1 : ExSub a b) (h2 : ExSub b c) : ExSub a c := fun q h => h2 q (h1 q h)

theorem ExSub.of_eq {s s' : NSt} (h : s'.exited = s.exited) : ExSub s s' := fun q hq => by rw [h]; exact hq

section
variable (sub : NSub) (sc : Script) (cfg : NCfg)

theorem ninvoke_exited (hC : NoCmds sc) (slot : Slot) (x : Ctx) (c : Nat) (s s' : NSt)
    (h : (ninvoke sub sc cfg slot x c s).state? = some s') : s'.exited = s.exited := by
  simp only [ninvoke, hC c, nrunCmds] at h
  cases ho : (sc c (s.count c)).out <;> simp only [ho, Res.state?, Option.some.injEq] at h <;> subst h <;> rfl

theorem ncallbacks_exited (hC : NoCmds sc) (slot : Slot) (x : Ctx) : ∀ (cbs : List Nat) (s s' : NSt),
    (ncallbacks sub sc cfg slot x cbs s).state? = some s' → s'.exited = s.exited
  | [], s, s', h => by simp only [ncallbacks, Res.state?, Option.some.injEq] at h; subst h; rfl
  | c :: cs, s, s', h => by
    unfold ncallbacks at h
    rcases bind_state h with ⟨e, he⟩ | ⟨a, s1, he, h1⟩
    · exact ninvoke_exited sub sc cfg hC slot x c s s' (by rw [he]; rfl)
    · rw [ncallbacks_exited hC slot x cs s1 s' h1]
      exact ninvoke_exited sub sc cfg hC slot x c s s1 (by rw [he]; rfl)

theorem nevalConds_exited (hC : NoCmds sc) (x : Ctx) : ∀ (cs : List Cond) (s s' : NSt),
    (nevalConds sub sc cfg x cs s).state? = some s' → s'.exited = s.exited
  | [], s, s', h => by simp only [nevalConds, Res.state?, Option.some.injEq] at h; subst h; rfl
  | c :: cs, s, s', h => by
    unfold nevalConds at h
    rcases bind_state h with ⟨e, he⟩ | ⟨b, s1, he, h1⟩
    · exact ninvoke_exited sub sc cfg hC _ x c.cb s s' (by rw [he]; rfl)
    · have e1 := ninvoke_exited sub sc cfg hC _ x c.cb s s1 (by rw [he]; rfl)
      split at h1
      · rw [nevalConds_exited hC x cs s1 s' h1, e1]
      · simp only [Res.state?, Option.some.injEq] at h1; subst h1; exact e1

theorem exitAll_exited (hC : NoCmds sc) (x : Ctx) : ∀ (fs : List Found) (s s' : NSt),
    (exitAll sub sc cfg x fs s).state? = some s' → s'.exited = s.exited
  | [], s, s', h => by simp only [exitAll, Res.state?, Option.some.injEq] at h; subst h; rfl
  | f :: fs, s, s', h => by
    unfold exitAll at h
    rcases bind_state h with ⟨e, he⟩ | ⟨a, s1, he, h1⟩
    · exact ncallbacks_exited sub sc cfg hC _ x _ (s.emitG (.exit f.path)) s' (by rw [he]; rfl)
    · rw [exitAll_exited hC x fs s1 s' h1]
      exact ncallbacks_exited sub sc cfg hC _ x _ (s.emitG (.exit f.path)) s1 (by rw [he]; rfl)

theorem enterAll_exited (hC : NoCmds sc) (x : Ctx) : ∀ (fs : List Found) (s s' : NSt),
    (enterAll sub sc cfg x fs s).state? = some s' → s'.exited = s.exited
  | [], s, s', h => by simp only [enterAll, Res.state?, Option.some.injEq] at h; subst h; rfl
  | f :: fs, s, s', h => by
    unfold enterAll at h
    rcases bind_state h with ⟨e, he⟩ | ⟨a, s1, he, h1⟩
    · exact ncallbacks_exited sub sc cfg hC _ x _ (s.emitG (.enter f.path)) s' (by rw [he]; rfl)
    · rw [enterAll_exited hC x fs s1 s' h1]
      exact ncallbacks_exited sub sc cfg hC _ x _ (s.emitG (.enter f.path)) s1 (by rw [he]; rfl)

theorem nchangeState_exsub (hC : NoCmds sc) (scope : Scope) (x : Ctx) (dest : SPath) (s s' : NSt)
    (h : (nchangeState sub sc cfg scope x dest s).state? = some s') : ExSub s s' := by
  unfold nchangeState at h
  split at h
  · simp only [Res.state?, Option.some.injEq] at h; subst h; exact ExSub.refl _
  · simp [Res.state?] at h
  · rename_i r _
    have q0 : ExSub s ({ s with exited := s.exited ++ r.exitNames } : NSt) := fun q hq => List.mem_append_left _ hq
    rcases bind_state h with ⟨e, he⟩ | ⟨a, s1, he, h1⟩
    · exact q0.trans (ExSub.of_eq (exitAll_exited sub sc cfg hC x _ _ s' (by rw [he]; rfl)))
    · have e1 := exitAll_exited sub sc cfg hC x _ _ s1 (by rw [he]; rfl)
      have e2 := enterAll_exited sub sc cfg hC x _ _ s' h1
      exact q0.trans ((ExSub.of_eq e1).trans (ExSub.of_eq e2))

theorem nfinalStage_exited (hC : NoCmds sc) (scope : Scope) (x : Ctx) (dest : Option SPath) (conf0 : Forest) (s s' : NSt)
    (h : (nfinalStage sub sc cfg scope x dest conf0 s).state? = some s') : s'.exited = s.exited := by
  rcases nfinalStage_cases sub sc cfg scope x dest conf0 s with h1 | ⟨cbs, h1⟩ | ⟨e, _, h1⟩ | h1 <;> rw [h1] at h
  · simp only [Res.state?, Option.some.injEq] at h; subst h; rfl
  · exact ncallbacks_exited sub sc cfg hC _ x cbs s s' h
  · simp only [Res.state?, Option.some.injEq] at h; subst h; rfl
  · simp [Res.state?] at h

theorem nexecute_exsub (hC : NoCmds sc) (scope : Scope) (x : Ctx) (tr : TRef) (t : NTrans) (s s' : NSt)
    (h : (nexecute sub sc cfg scope x tr t s).state? = some s') : ExSub s s' := by
  unfold nexecute at h
  have cb : ∀ slot cbs (a b : NSt), (ncallbacks sub sc cfg slot x cbs a).state? = some b → ExSub a b :=
    fun slot cbs a b hab => ExSub.of_eq (ncallbacks_exited sub sc cfg hC slot x cbs a b hab)
  have q0 : ExSub s (s.emitG (.cand tr)) := ExSub.refl _
  rcases bind_state h with ⟨e, he⟩ | ⟨_, s1, he, h⟩
  · exact q0.trans (cb _ _ _ _ (by rw [he]; rfl))
  have q1 := q0.trans (cb _ _ _ s1 (by rw [he]; rfl))
  rcases bind_state h with ⟨e, he⟩ | ⟨ok, s2, he, h⟩
  · exact q1.trans (ExSub.of_eq (nevalConds_exited sub sc cfg hC x _ s1 s' (by rw [he]; rfl)))
  have q2 := q1.trans (ExSub.of_eq (nevalConds_exited sub sc cfg hC x _ s1 s2 (by rw [he]; rfl)))
  cases ok with
  | false => simp only [Bool.not_false, if_true, Res.state?, Option.some.injEq] at h; subst h; exact q2
  | true =>
  simp only [Bool.not_true, Bool.false_eq_true, if_false] at h
  rcases bind_state h with ⟨e, he⟩ | ⟨_, s3, he, h⟩
  · exact q2.trans (cb _ _ _ _ (by rw [he]; rfl))
  have q3 : ExSub s (s3.emitG (.exec tr)) := q2.trans (cb _ _ _ s3 (by rw [he]; rfl))
  rcases bind_state h with ⟨e, he⟩ | ⟨_, s4, he, h⟩
  · exact q3.trans (cb _ _ _ _ (by rw [he]; rfl))
  have q4 := q3.trans (cb _ _ _ s4 (by rw [he]; rfl))
  have h5 : ∀ s5, (match t.dest with
        | some d => nchangeState sub sc cfg scope x d s4
        | none => .ok () s4).state? = some s5 → ExSub s4 s5 := by
    intro s5 h
    cases hd : t.dest with
    | none => simp only [hd, Res.state?, Option.some.injEq] at h; subst h; exact ExSub.refl _
    | some d => simp only [hd] at h; exact nchangeState_exsub sub sc cfg hC scope x d s4 s5 h
  rcases bind_state h with ⟨e, he⟩ | ⟨_, s5, he, h⟩
  · exact q4.trans (h5 _ (congrArg Res.state? he))
  have q5 := q4.trans (h5 s5 (congrArg Res.state? he))
  rcases bind_state h with ⟨e, he⟩ | ⟨_, s5', he, h⟩
  · exact q5.trans (ExSub.of_eq (nfinalStage_exited sub sc cfg hC scope x _ _ s5 _ (by rw [he]; rfl)))
  have q5 := q5.trans (ExSub.of_eq (nfinalStage_exited sub sc cfg hC scope x _ _ s5 s5' (by rw [he]; rfl)))
  rcases bind_state h with ⟨e, he⟩ | ⟨_, s6, he, h⟩
  · exact q5.trans (cb _ _ _ _ (by rw [he]; rfl))
  have q6 := q5.trans (cb _ _ _ s6 (by rw [he]; rfl))
  rcases bind_state h with ⟨e, he⟩ | ⟨_, s7, he, h⟩
  · exact q6.trans (cb _ _ _ _ (by rw [he]; rfl))
  have q7 := q6.trans (cb _ _ _ s7 (by rw [he]; rfl))
  simp only [Res.state?, Option.some.injEq] at h; subst h; exact q7

theorem ntry_exsub (hC : NoCmds sc) (scope : Scope) (x : Ctx) : ∀ (cands : List (TRef × NTrans)) (s s' : NSt),
    (ntry sub sc cfg scope x cands s).state? = some s' → ExSub s s'
  | [], s, s', h => by simp only [ntry, Res.state?, Option.some.injEq] at h; subst h; exact ExSub.refl _
  | (tr, t) :: r, s, s', h => by
    unfold ntry at h
    rcases bind_state h with ⟨e, he⟩ | ⟨b, s1, he, h1⟩
    · exact nexecute_exsub sub sc cfg hC scope x tr t s s' (by rw [he]; rfl)
    · have q1 := nexecute_exsub sub sc cfg hC scope x tr t s s1 (by rw [he]; rfl)
      cases b with
      | true => simp only [if_true, Res.state?, Option.some.injEq] at h1; subst h1; exact q1
      | false =>
        simp only [Bool.false_eq_true, if_false] at h1
        have q2 : ExSub s1 ({ s1 with result := some false } : NSt) := fun _ hq => hq
        exact q1.trans (q2.trans (ntry_exsub hC scope x r _ s' h1))

theorem nprocess_exsub (hC : NoCmds sc) (scope : Scope) (x : Ctx) (cands : List (TRef × NTrans)) (s s' : NSt)
    (h : (nprocess sub sc cfg scope x cands s).state? = some s') : ExSub s s' := by
  unfold nprocess at h
  rcases bind_state h with ⟨e, he⟩ | ⟨_, s1, he, h1⟩
  · exact ExSub.of_eq (ncallbacks_exited sub sc cfg hC _ x _ s s' (by rw [he]; rfl))
  · exact (ExSub.of_eq (ncallbacks_exited sub sc cfg hC _ x _ s s1 (by rw [he]; rfl))).trans
      (ntry_exsub sub sc cfg hC scope x cands s1 s' h1)

end

/-- inside the offers of one state: only the last may be executed, indices increase -/
def R (a b : SOffer) : Prop := a.executed = false ∧ a.idx < b.idx

/-- the offers made to one state `p` from the candidate list `cands` -/
structure Grp (p : SPath) (cands : List (TRef × NTrans)) (g : List SOffer) : Prop where
  src : ∀ o ∈ g, o.src = p
  idx : ∀ o ∈ g, ∃ c ∈ cands, o.idx = c.1.idx
  pw : g.Pairwise R

def TryErr (ts : List NTrans) (p : SPath) (cands : List (TRef × NTrans)) (s s' : NSt) : Prop :=
  ∃ g, Adds ts g s s' ∧ Grp p cands g

def TryOk (ts : List NTrans) (p : SPath) (cands : List (TRef × NTrans)) (s s' : NSt) : Prop :=
  ∃ g, Adds ts g s s' ∧ Grp p cands g ∧ (cands ≠ [] → g ≠ []) ∧
    s'.result = (match g.getLast? with
      | some o => some o.executed
      | none => s.result) ∧
    (∀ o ∈ g, o.executed = true → s'.result = some true)

theorem off_src {ts : List NTrans} {tr : TRef} {t : NTrans} {p : SPath} (h : ts[tr.idx]? = some t)
    (hs : t.source = p) (b : Bool) : (off ts tr b).src = p := by
  simp [off, h, hs]

section
variable (sub : NSub) (sc : Script) (cfg : NCfg) {ts : List NTrans}

theorem ntry_post2 (hC : NoCmds sc) (scope : Scope) (x : Ctx) (p : SPath) :
    ∀ (cands : List (TRef × NTrans)) (s : NSt),
    (∀ c ∈ cands, ts[c.1.idx]? = some c.2 ∧ c.2.source = p) →
    cands.Pairwise (fun a b => a.1.idx < b.1.idx) →
    Post (fun _ => TryOk ts p cands s) (TryErr ts p cands s) (ntry sub sc cfg scope x cands s)
  | [], s, _, _ => by
    refine ⟨[], Adds.refl s, ⟨by simp, by simp, List.Pairwise.nil⟩, by simp, rfl, by simp⟩
  | (tr, t) :: r, s, hc, hs => by
    unfold ntry
    rw [List.pairwise_cons] at hs
    have hsrc : ∀ b, (off ts tr b).src = p := off_src (hc (tr, t) (by simp)).1 (hc (tr, t) (by simp)).2
    have hg1 : ∀ b, Grp p ((tr, t) :: r) [off ts tr b] := fun b =>
      ⟨by simp [hsrc], by intro o ho; exact ⟨(tr, t), by simp, by simp at ho; subst ho; rfl⟩, List.pairwise_singleton _ _⟩
    refine Post.bind (nexecute_post2 (ts := ts) sub sc cfg hC scope x tr t s) ?_ ?_
    · rintro s' ⟨b, hb⟩
      exact ⟨[off ts tr b], hb, hg1 b⟩
    · intro b s1 hb
      cases b with
      | true =>
        simp only [if_true]
        exact ⟨[off ts tr true], hb.sil_r (Adds.of_glog rfl), hg1 true, by simp, by simp [off], by simp⟩
      | false =>
        simp only [Bool.false_eq_true, if_false]
        have hb' : Adds ts [off ts tr false] s ({ s1 with result := some false } : NSt) :=
          hb.sil_r (Adds.of_glog rfl)
        refine Post.mono (ntry_post2 hC scope x p r _ (fun c hc' => hc c (List.mem_cons_of_mem _ hc')) hs.2) ?_ ?_
        · rintro _ s' ⟨g, ha, hg, _, hres, hex⟩
          have hG : Grp p ((tr, t) :: r) (off ts tr false :: g) := by
            refine ⟨?_, ?_, ?_⟩
            · intro o ho
              rcases List.mem_cons.mp ho with rfl | ho
              · exact hsrc false
              · exact hg.src o ho
            · intro o ho
              rcases List.mem_cons.mp ho with rfl | ho
              · exact ⟨(tr, t), by simp, rfl⟩
              · obtain ⟨c, hc1, hc2⟩ := hg.idx o ho
                exact ⟨c, List.mem_cons_of_mem _ hc1, hc2⟩
            · rw [List.pairwise_cons]
              refine ⟨fun o ho => ⟨rfl, ?_⟩, hg.pw⟩
              obtain ⟨c, hc1, hc2⟩ := hg.idx o ho
              rw [hc2]; exact hs.1 c hc1
          refine ⟨off ts tr false :: g, by simpa using hb'.trans ha, hG, by simp, ?_, ?_⟩
          · rw [hres]
            cases g with
            | nil => simp [off]
            | cons a l => rw [List.getLast?_cons_cons, List.getLast?_cons]
          · intro o ho he
            rcases List.mem_cons.mp ho with rfl | ho
            · simp [off] at he
            · exact hex o ho he
        · rintro s' ⟨g, ha, hg⟩
          refine ⟨off ts tr false :: g, by simpa using hb'.trans ha, ?_, ?_, ?_⟩
          · intro o ho
            rcases List.mem_cons.mp ho with rfl | ho
            · exact hsrc false
            · exact hg.src o ho
          · intro o ho
            rcases List.mem_cons.mp ho with rfl | ho
            · exact ⟨(tr, t), by simp, rfl⟩
            · obtain ⟨c, hc1, hc2⟩ := hg.idx o ho
              exact ⟨c, List.mem_cons_of_mem _ hc1, hc2⟩
          · rw [List.pairwise_cons]
            refine ⟨fun o ho => ⟨rfl, ?_⟩, hg.pw⟩
            obtain ⟨c, hc1, hc2⟩ := hg.idx o ho
            rw [hc2]; exact hs.1 c hc1

end

def ProcOk (ts : List NTrans) (p : SPath) (cands : List (TRef × NTrans)) (s s' : NSt) : Prop :=
  ∃ g, Adds ts g s s' ∧ Grp p cands g ∧ (∃ o, g.getLast? = some o ∧ s'.result = some o.executed) ∧
    (∀ o ∈ g, o.executed = true → s'.result = some true)

section
variable (sub : NSub) (sc : Script) (cfg : NCfg) {ts : List NTrans}

theorem nprocess_post2 (hC : NoCmds sc) (scope : Scope) (x : Ctx) (p : SPath) (cands : List (TRef × NTrans))
    (s : NSt) (hc : ∀ c ∈ cands, ts[c.1.idx]? = some c.2 ∧ c.2.source = p)
    (hs : cands.Pairwise (fun a b => a.1.idx < b.1.idx)) (hne : cands ≠ []) :
    Post (fun _ => ProcOk ts p cands s) (TryErr ts p cands s) (nprocess sub sc cfg scope x cands s) := by
  unfold nprocess
  refine Post.bind (Post.of_state (ncallbacks_sil (ts := ts) sub sc cfg hC _ x _ _))
    (fun s' h => ⟨[], h, ⟨by simp, by simp, List.Pairwise.nil⟩⟩) ?_
  intro _ s1 h1
  refine Post.mono (ntry_post2 sub sc cfg hC scope x p cands s1 hc hs) ?_ ?_
  · rintro _ s' ⟨g, ha, hg, hn, hres, hex⟩
    refine ⟨g, h1.sil_l ha, hg, ?_, hex⟩
    cases hl : g.getLast? with
    | none => exact absurd (List.getLast?_eq_none_iff.mp hl) (hn hne)
    | some o => rw [hl] at hres; exact ⟨o, rfl, hres⟩
  · rintro s' ⟨g, ha, hg⟩
    exact ⟨g, h1.sil_l ha, hg⟩

end

theorem zipIdx_le {α : Type} : ∀ (l : List α) (n : Nat) (e : α × Nat), e ∈ l.zipIdx n → n ≤ e.2
  | [], _, _, h => by simp at h
  | a :: l, n, e, h => by
    rw [List.zipIdx_cons, List.mem_cons] at h
    rcases h with rfl | h
    · exact Nat.le_refl _
    · exact Nat.le_of_succ_le (zipIdx_le l (n + 1) e h)

theorem zipIdx_sorted {α : Type} : ∀ (l : List α) (n : Nat), (l.zipIdx n).Pairwise (fun a b => a.2 < b.2)
  | [], _ => by simp
  | a :: l, n => by
    rw [List.zipIdx_cons, List.pairwise_cons]
    exact ⟨fun e he => zipIdx_le l (n + 1) e he, zipIdx_sorted l (n + 1)⟩

theorem ncandidates_sorted (pre : SPath) (ev : Nat) (ts : List NTrans) (p : SPath) :
    (ncandidates pre ev ts p).Pairwise (fun a b => a.1.idx < b.1.idx) := by
  unfold ncandidates
  rw [List.pairwise_map]
  exact (zipIdx_sorted ts 0).filter _

theorem ncandidates_ok {pre : SPath} {ev : Nat} {ts : List NTrans} {p : SPath} :
    ∀ c ∈ ncandidates pre ev ts p, ts[c.1.idx]? = some c.2 ∧ c.2.source = p := fun _ hc =>
  ⟨(ncandidates_spec hc).2.2.1, (ncandidates_spec hc).2.2.2⟩

/-! ### the two halves of P3 as `Pairwise` -/

theorem pairs_all {α : Type} (f : α × α → Bool) : ∀ l : List α,
    (pairs l).all f = true ↔ l.Pairwise (fun a b => f (a, b) = true)
  | [] => by simp [pairs]
  | a :: r => by
    simp only [pairs, List.all_append, List.all_map, Bool.and_eq_true, pairs_all f r, List.pairwise_cons,
      List.all_eq_true, Function.comp]

def AfterR (a b : SOffer) : Prop := (!(a.executed && isPrefix b.src a.src)) = true
def OrderR (a b : SOffer) : Prop :=
  (!properPrefix a.src b.src && !(a.src == b.src && decide (a.idx ≥ b.idx))) = true

theorem sAfter_iff (offs : List SOffer) : sAfter offs = true ↔ offs.Pairwise AfterR := pairs_all _ offs
theorem sOrder_iff (offs : List SOffer) : sOrder offs = true ↔ offs.Pairwise OrderR := pairs_all _ offs

theorem properPrefix_self (p : SPath) : properPrefix p p = false := by simp [properPrefix]

theorem Grp.p3 {p : SPath} {cands : List (TRef × NTrans)} {g : List SOffer} (hg : Grp p cands g) :
    g.Pairwise AfterR ∧ g.Pairwise OrderR := by
  constructor
  · refine hg.pw.imp ?_
    intro a b hab
    simp [AfterR, hab.1]
  · refine hg.pw.imp_of_mem ?_
    intro a b ha hb hab
    have : ¬ b.idx ≤ a.idx := by have := hab.2; omega
    simp [OrderR, hg.src a ha, hg.src b hb, properPrefix_self, this]

theorem isPrefix_of_mem_prefixesOf {p q : SPath} (h : q ∈ prefixesOf p) : isPrefix q p = true := by
  simp only [prefixesOf, List.mem_map, List.mem_range] at h
  obtain ⟨i, hi, rfl⟩ := h
  rw [isPrefix_eq_true]
  simp only [List.length_take]
  rw [Nat.min_eq_left (by omega)]

/-! ### the loop -/

def Srcs (ps done : List SPath) (offs : List SOffer) : Prop :=
  ∀ o ∈ offs, o.src ∈ ps ∧ o.src ∉ done ∧ o.src ≠ []

def P3 (ps : List SPath) (offs : List SOffer) : Prop :=
  ps.Pairwise (fun a b => properPrefix a b = false) → ps.Nodup → sAfter offs = true ∧ sOrder offs = true

def Complete (pre : SPath) (ev : Nat) (ts : List NTrans) (ps done : List SPath) (offs : List SOffer) (s' : NSt) :
    Prop :=
  ∀ p ∈ ps, p ∉ done → (ncandidates pre ev ts p).isEmpty = false →
    (∃ o ∈ offs, o.src = p) ∨ (∃ o ∈ offs, o.executed = true ∧ isPrefix p o.src = true) ∨ (pre ++ p) ∈ s'.exited

def LoopErr (ts : List NTrans) (ps done : List SPath) (s s' : NSt) : Prop :=
  ∃ offs, Adds ts offs s s' ∧ Srcs ps done offs ∧ P3 ps offs

/-- the loop ended normally with the `done` set `done'` -/
def LoopOk (pre : SPath) (ev : Nat) (ts : List NTrans) (ps done : List SPath) (s : NSt) (done' : List SPath)
    (s' : NSt) : Prop :=
  ∃ offs, Adds ts offs s s' ∧ Srcs ps done offs ∧ P3 ps offs ∧ Complete pre ev ts ps done offs s' ∧
    s'.result = (match offs.getLast? with
      | some o => some o.executed
      | none => s.result) ∧
    (∃ ext, done' = done ++ ext ∧ (ext = [] ↔ offs.any (·.executed) = false)) ∧
    ExSub s s'

theorem Srcs.skip {p : SPath} {ps done : List SPath} {offs : List SOffer} (h : Srcs ps done offs) :
    Srcs (p :: ps) done offs := fun o ho => ⟨List.mem_cons_of_mem _ (h o ho).1, (h o ho).2⟩

theorem P3.skip {p : SPath} {ps : List SPath} {offs : List SOffer} (h : P3 ps offs) : P3 (p :: ps) offs := by
  intro hpw hnd
  rw [List.pairwise_cons] at hpw
  rw [List.nodup_cons] at hnd
  exact h hpw.2 hnd.2

/-- the offers of the first processed state followed by those of the rest of the list -/
theorem p3_combine {p : SPath} {ps done done' : List SPath} {cands : List (TRef × NTrans)} {g offs : List SOffer}
    (hg : Grp p cands g) (hpd : p ∉ done) (hpne : p ≠ [])
    (hsub : ∀ q, q ∈ done → q ∈ done')
    (hex : ∀ o ∈ g, o.executed = true → ∀ q ∈ prefixesOf p, q ∈ done')
    (hs : Srcs ps done' offs) (h3 : P3 ps offs) :
    Srcs (p :: ps) done (g ++ offs) ∧ P3 (p :: ps) (g ++ offs) := by
  constructor
  · intro o ho
    rcases List.mem_append.mp ho with ho | ho
    · rw [hg.src o ho]; exact ⟨by simp, hpd, hpne⟩
    · obtain ⟨m1, m2, m3⟩ := hs o ho
      exact ⟨List.mem_cons_of_mem _ m1, fun hm => m2 (hsub _ hm), m3⟩
  · intro hpw hnd
    rw [List.pairwise_cons] at hpw
    rw [List.nodup_cons] at hnd
    obtain ⟨t1, t2⟩ := h3 hpw.2 hnd.2
    rw [sAfter_iff] at t1 ⊢
    rw [sOrder_iff] at t2 ⊢
    obtain ⟨g1, g2⟩ := hg.p3
    rw [List.pairwise_append, List.pairwise_append]
    refine ⟨⟨g1, t1, ?_⟩, ⟨g2, t2, ?_⟩⟩
    · intro a ha b hb
      obtain ⟨m1, m2, m3⟩ := hs b hb
      cases he : a.executed with
      | false => simp [AfterR, he]
      | true =>
        have : isPrefix b.src a.src = false := by
          cases hp : isPrefix b.src a.src with
          | false => rfl
          | true =>
            rw [hg.src a ha] at hp
            exact absurd (hex a ha he _ (mem_prefixesOf m3 (isPrefix_eq_true.mp hp))) m2
        simp [AfterR, this]
    · intro a ha b hb
      obtain ⟨m1, m2, m3⟩ := hs b hb
      have hne : ¬ (p = b.src) := by intro h; rw [h] at hnd; exact hnd.1 m1
      simp [OrderR, hg.src a ha, hpw.1 _ m1, hne]

section
variable (sub : NSub) (sc : Script) (cfg : NCfg)

theorem prefixesOf_ne_nil {p : SPath} (h : p ≠ []) : prefixesOf p ≠ [] := by
  cases p with
  | nil => exact absurd rfl h
  | cons a l => simp [prefixesOf, List.range_succ_eq_map]

theorem tnLoop_main (hC : NoCmds sc) (scope : Scope) (x : Ctx) (ev : Nat) (ts : List NTrans) :
    ∀ (ps done : List SPath) (s : NSt),
    Post (LoopOk scope.pre ev ts ps done s) (LoopErr ts ps done s)
      (tnLoop sub sc cfg scope x ev ts ps done s)
  | [], done, s => by
    refine ⟨[], Adds.refl s, by simp [Srcs], ?_, by simp [Complete], rfl, ⟨[], by simp, by simp⟩, ExSub.refl s⟩
    intro _ _; simp [sAfter, sOrder, pairs]
  | p :: ps, done, s => by
    unfold tnLoop
    simp only []
    split
    · rename_i hcond
      refine Post.mono (tnLoop_main hC scope x ev ts ps done s) ?_ ?_
      · rintro _ s' ⟨offs, ha, h1, h2, h3, h4, h5, h6⟩
        refine ⟨offs, ha, h1.skip, h2.skip, ?_, h4, h5, h6⟩
        intro q hq hqd hqc
        rcases List.mem_cons.mp hq with rfl | hq
        · rcases hcond with hcond | hcond | hcond
          · exact absurd hcond hqd
          · rw [hcond] at hqc; cases hqc
          · exact Or.inr (Or.inr (h6 _ hcond))
        · exact h3 q hq hqd hqc
      · rintro s' ⟨offs, ha, h1, h2⟩
        exact ⟨offs, ha, h1.skip, h2.skip⟩
    · rename_i hcond
      have hpd : p ∉ done := fun hp => hcond (Or.inl hp)
      have hcne : ncandidates scope.pre ev ts p ≠ [] := by
        intro h; apply hcond; right; left; rw [h]; rfl
      split
      · refine ⟨[], Adds.refl s, by simp [Srcs], ?_⟩
        intro _ _; simp [sAfter, sOrder, pairs]
      · rename_i f hgs
        have hpne : p ≠ [] := by
          intro hp; subst hp; rw [getState_nil] at hgs; cases hgs
        refine Post.bind (Post.and (nprocess_post2 (ts := ts) sub sc cfg hC scope x p _ s ncandidates_ok
          (ncandidates_sorted _ _ _ _) hcne) (Post.of_state (nprocess_exsub sub sc cfg hC scope x _ s))) ?_ ?_
        · rintro s1 ⟨⟨g, ha, hg⟩, _⟩
          have := p3_combine (ps := ps) (done := done) (done' := done ++ prefixesOf p) (offs := []) hg hpd hpne
            (fun _ h => List.mem_append_left _ h) (fun _ _ _ q hq => List.mem_append_right _ hq)
            (by simp [Srcs]) (by intro _ _; simp [sAfter, sOrder, pairs])
          rw [List.append_nil] at this
          exact ⟨g, ha, this.1, this.2⟩
        · rintro _ s1 ⟨⟨g, ha, hg, ⟨ol, hl, hres⟩, hex⟩, hxs⟩
          generalize hd' : (if s1.result = some true then done ++ prefixesOf p else done) = done'
          have hsub : ∀ q, q ∈ done → q ∈ done' := by
            intro q hq; subst hd'; split
            · exact List.mem_append_left _ hq
            · exact hq
          have hex' : ∀ o ∈ g, o.executed = true → ∀ q ∈ prefixesOf p, q ∈ done' := by
            intro o ho he q hq
            subst hd'; rw [if_pos (hex o ho he)]
            exact List.mem_append_right _ hq
          have hol : ol ∈ g := List.mem_of_getLast? hl
          -- some offer of the group executed iff the pass of this state set `result` to True
          have hany : g.any (·.executed) = true ↔ s1.result = some true := by
            constructor
            · intro h
              obtain ⟨o, ho, he⟩ := List.any_eq_true.mp h
              exact hex o ho he
            · intro h
              rw [hres] at h
              exact List.any_eq_true.mpr ⟨ol, hol, by simpa using h⟩
          refine Post.mono (tnLoop_main hC scope x ev ts ps done' s1) ?_ ?_
          · rintro dn s' ⟨offs, ha', h1, h2, h3, h4, ⟨ext, hdn, hext⟩, h6⟩
            obtain ⟨c1, c2⟩ := p3_combine hg hpd hpne hsub hex' h1 h2
            refine ⟨g ++ offs, ha.trans ha', c1, c2, ?_, ?_, ?_, hxs.trans h6⟩
            · intro q hq hqd hqc
              rcases List.mem_cons.mp hq with rfl | hq
              · exact Or.inl ⟨ol, List.mem_append_left _ hol, hg.src ol hol⟩
              · by_cases hqd' : q ∈ done'
                · right; left
                  subst hd'
                  split at hqd'
                  · rename_i hr
                    rcases List.mem_append.mp hqd' with hm | hm
                    · exact absurd hm hqd
                    · refine ⟨ol, List.mem_append_left _ hol, ?_, ?_⟩
                      · rw [hres] at hr; simpa using hr
                      · rw [hg.src ol hol]; exact isPrefix_of_mem_prefixesOf hm
                  · exact absurd hqd' hqd
                · rcases h3 q hq hqd' hqc with ⟨o, ho, h⟩ | ⟨o, ho, h⟩ | h
                  · exact Or.inl ⟨o, List.mem_append_right _ ho, h⟩
                  · exact Or.inr (Or.inl ⟨o, List.mem_append_right _ ho, h⟩)
                  · exact Or.inr (Or.inr h)
            · rw [h4]
              cases offs with
              | nil => rw [List.append_nil, hl, hres]; rfl
              | cons b l => rw [List.getLast?_append, List.getLast?_cons]; rfl
            · subst hd'
              by_cases hr : s1.result = some true
              · rw [if_pos hr] at hdn
                refine ⟨prefixesOf p ++ ext, by rw [hdn, List.append_assoc], ?_⟩
                have h1 : ¬ (prefixesOf p ++ ext = []) := by
                  intro h; exact prefixesOf_ne_nil hpne (List.append_eq_nil_iff.mp h).1
                have h2 : ¬ ((g ++ offs).any (·.executed) = false) := by
                  rw [List.any_append, hany.mpr hr]; simp
                exact ⟨fun h => absurd h h1, fun h => absurd h h2⟩
              · rw [if_neg hr] at hdn
                refine ⟨ext, hdn, ?_⟩
                have hg0 : g.any (·.executed) = false := by
                  cases hga : g.any (·.executed) with
                  | false => rfl
                  | true => exact absurd (hany.mp hga) hr
                rw [List.any_append, hg0, Bool.false_or]
                exact hext
          · rintro s' ⟨offs, ha', h1, h2⟩
            obtain ⟨c1, c2⟩ := p3_combine hg hpd hpne hsub hex' h1 h2
            exact ⟨g ++ offs, ha.trans ha', c1, c2⟩
end

/-- the value of a pass that made the offers `offs`, starting with `event_data.result = r0` -/
def passValue (offs : List SOffer) (r0 : Option Bool) : Option Bool :=
  if offs.any (·.executed) then some true
  else match offs.getLast? with
    | some _ => some false
    | none => r0

section
variable (sub : NSub) (sc : Script) (cfg : NCfg)

theorem triggerNested_post (hC : NoCmds sc) (scope : Scope) (x : Ctx) (ev : Nat) (ts : List NTrans) (s : NSt) :
    Post (fun tmp s' => ∃ offs, Adds ts offs s s' ∧ tmp = passValue offs s.result) (fun _ => True)
      (triggerNested sub sc cfg scope x ev ts s) := by
  unfold triggerNested
  split
  · trivial
  · trivial
  · split
    · trivial
    · rename_i order _
      refine Post.bind (tnLoop_main sub sc cfg hC scope x ev ts order [] s) (fun _ _ => trivial) ?_
      rintro dn s1 ⟨offs, ha, _, _, _, hres, ⟨ext, hdn, hext⟩, _⟩
      rw [List.nil_append] at hdn
      subst hdn
      cases hd : dn.isEmpty with
      | true =>
        have hany := hext.mp (List.isEmpty_iff.mp hd)
        simp only [if_true]
        refine ⟨offs, ha, ?_⟩
        show s1.result = passValue offs s.result
        rw [hres, passValue, hany]
        simp only [Bool.false_eq_true, if_false]
        cases hl : offs.getLast? with
        | none => rfl
        | some o =>
          have ho : o ∈ offs := List.mem_of_getLast? hl
          have := (List.any_eq_false.mp hany) o ho
          simp only [Bool.not_eq_true] at this
          simp only [this]
      | false =>
        have hany : offs.any (·.executed) = true := by
          cases h : offs.any (·.executed) with
          | true => rfl
          | false =>
            have := hext.mpr h
            rw [this] at hd; cases hd
        simp only [Bool.false_eq_true, if_false]
        refine ⟨offs, ha.sil_r (Adds.of_glog rfl), ?_⟩
        rw [passValue, hany]; rfl

end

/-- the ghost log grows by a segment whose executed sources all lie in `nodes` -/
def Step2 (ts : List NTrans) (nodes : List SPath) (s s' : NSt) : Prop :=
  ∃ seg, s'.glog = s.glog ++ seg ∧ ∀ p ∈ execSources ts seg, p ∈ nodes

theorem step2_of_quiet {ts : List NTrans} {nodes : List SPath} {s s' : NSt} (h : Quiet s s') :
    Step2 ts nodes s s' := by
  obtain ⟨seg, e1, h1⟩ := h
  refine ⟨seg, e1, ?_⟩
  rw [execSources_quiet ts h1]; simp

theorem Step2.wrap {ts : List NTrans} {nodes : List SPath} {a b c d : NSt} (h1 : Quiet a b)
    (h2 : Step2 ts nodes b c) (h3 : Quiet c d) : Step2 ts nodes a d := by
  obtain ⟨s1, e1, r1⟩ := h1
  obtain ⟨s2, e2, p2⟩ := h2
  obtain ⟨s3, e3, r3⟩ := h3
  refine ⟨s1 ++ s2 ++ s3, by rw [e3, e2, e1]; simp [List.append_assoc], ?_⟩
  rw [execSources_append, execSources_append, execSources_quiet ts r1, execSources_quiet ts r3]
  simpa using p2

section
variable (sub : NSub) (sc : Script) (cfg : NCfg)

theorem triggerNested_step2 (hC : NoCmds sc) (x : Ctx) (ev : Nat) (ts : List NTrans) (s s' : NSt)
    (hcok : ConfOK cfg.states s.conf = true)
    (h : (triggerNested sub sc cfg cfg.root x ev ts s).state? = some s') : Step2 ts s.conf.nodes s s' := by
  unfold triggerNested at h
  have hrg : s.conf.reduceGet cfg.root.pre = .ok (some s.conf) := by
    show s.conf.reduceGet [] = _
    simp [Forest.reduceGet]
  rw [hrg] at h
  simp only [] at h
  cases hro : resolveOrder s.conf with
  | none => rw [hro] at h; simp [Res.state?] at h
  | some order =>
    rw [hro] at h
    simp only [] at h
    have hpw := resolveOrder_children_first hro
    have hperm := resolveOrder_perm hro
    have hnd : order.Nodup := hperm.nodup_iff.mpr (Forest.nodes_nodup (ConfOK_WF hcok))
    have haux := tnLoop_aux sub sc cfg hC cfg.root x ev ts order [] s
    rcases bind_state h with ⟨e, he⟩ | ⟨a, s1, he, h1⟩
    · obtain ⟨seg, e1, _, _, h4⟩ := haux s' hpw hnd (by rw [he]; rfl)
      exact ⟨seg, e1, fun p hp => hperm.mem_iff.mp (h4 p hp).1⟩
    · obtain ⟨seg, e1, _, _, h4⟩ := haux s1 hpw hnd (by rw [he]; rfl)
      split at h1 <;> (simp only [Res.state?, Option.some.injEq] at h1; subst h1) <;>
        exact ⟨seg, e1, fun p hp => hperm.mem_iff.mp (h4 p hp).1⟩

theorem ten_step2 (hC : NoCmds sc) (x : Ctx) (ev : Nat) (hno : cfg.states.noEvents = true) (s s' : NSt)
    (hlen : s.conf.len = 1) (hcok : ConfOK cfg.states s.conf = true)
    (h : (ten sub sc cfg x ev cfg.root s.conf [] false s).state? = some s') :
    Step2 ((alookup ev cfg.events).getD []) s.conf.nodes s s' := by
  obtain ⟨k, v, hkv⟩ := Forest.len_one hlen
  rw [hkv, ten_global_only cfg sub sc x ev hno k v (hkv ▸ hcok) s] at h
  cases hal : alookup ev cfg.events with
  | none =>
    rw [hal] at h
    simp only [Res.state?, Option.some.injEq] at h; subst h
    exact step2_of_quiet (Quiet.refl _)
  | some ts =>
    rw [hal] at h
    simp only [Option.getD_some] at h ⊢
    rcases bind_state h with ⟨e, he⟩ | ⟨a, s1, he, h1⟩
    · exact triggerNested_step2 sub sc cfg hC x ev ts s s' hcok (by rw [he]; rfl)
    · simp only [Res.state?, Option.some.injEq] at h1; subst h1
      exact triggerNested_step2 sub sc cfg hC x ev ts s s1 hcok (by rw [he]; rfl)

theorem triggerEventBody_step2 (hC : NoCmds sc) (x : Ctx) (ev : Nat) (hno : cfg.states.noEvents = true) (s s' : NSt)
    (hlen : s.conf.len = 1) (hcok : ConfOK cfg.states s.conf = true)
    (h : (triggerEventBody sub sc cfg x ev s).state? = some s') :
    Step2 ((alookup ev cfg.events).getD []) s.conf.nodes s s' := by
  unfold triggerEventBody at h
  rcases bind_state h with ⟨e, he⟩ | ⟨r, s1, he, h1⟩
  · exact ten_step2 sub sc cfg hC x ev hno s s' hlen hcok (by rw [he]; rfl)
  · have hs1 := ten_step2 sub sc cfg hC x ev hno s s1 hlen hcok (by rw [he]; rfl)
    rcases bind_state h1 with ⟨e, he2⟩ | ⟨b, s2, he2, h2⟩
    · have := checkEventResult_state cfg _ ev s1 s' (by rw [he2]; rfl)
      subst this; exact hs1
    · have := checkEventResult_state cfg _ ev s1 s2 (by rw [he2]; rfl)
      subst this
      simp only [Res.state?, Option.some.injEq] at h2; subst h2
      exact Step2.wrap (Quiet.refl _) hs1 (Quiet.of_glog rfl)

end

end Pass2

/-- **P3 for one pass**: over any duplicate-free list in `resolve_order` shape (no state before a descendant) -/
theorem tnLoop_p3 (cfg : NCfg) (sub : NSub) (sc : Script) (hR : NoRaise sc) (hC : NoCmds sc)
    (scope : Scope) (x : Ctx) (ev : Nat) (ts : List NTrans) :
    ∀ (ps done : List SPath) (s s' : NSt),
    ps.Pairwise (fun a b => properPrefix a b = false) → ps.Nodup →
    (tnLoop sub sc cfg scope x ev ts ps done s).state? = some s' →
    ∃ seg, s'.glog = s.glog ++ seg ∧ sAfter (sOffers ts seg []) = true ∧ sOrder (sOffers ts seg []) = true := by
  have _ := hR
  intro ps done s s' hpw hnd h
  have hm := Pass2.tnLoop_main sub sc cfg hC scope x ev ts ps done s
  have key : Pass2.LoopErr ts ps done s s' := by
    cases hr : tnLoop sub sc cfg scope x ev ts ps done s with
    | oof => rw [hr] at h; simp [Res.state?] at h
    | err e s1 =>
      rw [hr] at h hm
      simp only [Res.state?, Option.some.injEq] at h; subst h
      exact hm
    | ok u s1 =>
      rw [hr] at h hm
      simp only [Res.state?, Option.some.injEq] at h; subst h
      obtain ⟨offs, ha, h1, h2, _⟩ := hm
      exact ⟨offs, ha, h1, h2⟩
  obtain ⟨offs, ⟨seg, e1, hs⟩, _, h3⟩ := key
  refine ⟨seg, e1, ?_⟩
  rw [hs []]
  exact h3 hpw hnd

/-- **completeness of one pass** that ends normally: every listed state that has candidates and is not in the
`done` set it started with was offered, unless a transition of that state or of a descendant executed in this pass,
or the state was exited earlier while this event was processed -/
theorem tnLoop_complete (cfg : NCfg) (sub : NSub) (sc : Script) (hR : NoRaise sc) (hC : NoCmds sc)
    (scope : Scope) (x : Ctx) (ev : Nat) (ts : List NTrans) :
    ∀ (ps done done' : List SPath) (s s' : NSt),
    tnLoop sub sc cfg scope x ev ts ps done s = .ok done' s' →
    ∃ seg, s'.glog = s.glog ++ seg ∧
      ∀ p ∈ ps, p ∉ done → (ncandidates scope.pre ev ts p).isEmpty = false →
        (∃ o ∈ sOffers ts seg [], o.src = p) ∨
        (∃ o ∈ sOffers ts seg [], o.executed = true ∧ isPrefix p o.src = true) ∨
        (scope.pre ++ p) ∈ s'.exited := by
  have _ := hR
  intro ps done done' s s' h
  have hm := Pass2.tnLoop_main sub sc cfg hC scope x ev ts ps done s
  rw [h] at hm
  obtain ⟨offs, ⟨seg, e1, hs⟩, _, _, h3, _⟩ := hm
  refine ⟨seg, e1, ?_⟩
  rw [hs []]
  exact h3

/-- what `trigger_nested` returns: True iff some transition of this call executed; otherwise False if some state
was offered (all its candidates blocked), and the old value if nobody was offered -/
theorem triggerNested_result (cfg : NCfg) (sub : NSub) (sc : Script) (hR : NoRaise sc) (hC : NoCmds sc)
    (scope : Scope) (x : Ctx) (ev : Nat) (ts : List NTrans) (s s' : NSt) (tmp : Option Bool)
    (h : triggerNested sub sc cfg scope x ev ts s = .ok tmp s') :
    ∃ seg, s'.glog = s.glog ++ seg ∧
      tmp = (if (sOffers ts seg []).any (·.executed) then some true
             else match (sOffers ts seg []).getLast? with
               | some _ => some false
               | none => s.result) := by
  have _ := hR
  have hp := Pass2.triggerNested_post sub sc cfg hC scope x ev ts s
  rw [h] at hp
  obtain ⟨offs, ⟨seg, e1, hs⟩, ht⟩ := hp
  refine ⟨seg, e1, ?_⟩
  rw [hs []]
  exact ht

/-- **first half of P2 for machine-level declarations**: while one trigger call is processed on a machine without
local declarations, every transition executes from a state that was active when the event began -/
theorem C03_P2_active_at_start (cfg : NCfg) (sub : NSub) (sc : Script) (hR : NoRaise sc) (hC : NoCmds sc)
    (hq : cfg.queued = false) (hno : cfg.states.noEvents = true)
    (qmax ev : Nat) (s s' : NSt) (hlen : s.conf.len = 1) (hcok : ConfOK cfg.states s.conf = true) (hidle : s.queue = [])
    (h : (napiTrigger sub sc cfg qmax ev s).state? = some s') :
    ∃ seg, s'.glog = s.glog ++ seg ∧
      ∀ p ∈ execSources ((alookup ev cfg.events).getD []) seg, p ∈ s.conf.nodes := by
  have _ := hR
  suffices hs : Pass2.Step2 ((alookup ev cfg.events).getD []) s.conf.nodes s s' from hs
  unfold napiTrigger at h
  simp only [] at h
  generalize hs1 : ((({ s with nextTag := s.nextTag + 1 } : NSt).emit (.api 0 s.nextTag 0 ev)).emitG
      (.api s.nextTag ev)) = s1 at h
  have q01 : Pass.Quiet s s1 := by
    subst hs1; exact ⟨[.api s.nextTag ev], rfl, rfl⟩
  have hconf : s1.conf = s.conf := by subst hs1; rfl
  have hqueue : s1.queue = [] := by subst hs1; exact hidle
  have hmp : nmachineProcess sub sc cfg qmax ev s.nextTag s1 = ntriggerEvent sub sc cfg ⟨0, s.nextTag⟩ ev s1 := by
    simp [nmachineProcess, hq, hqueue]
  rw [hmp] at h
  have key : ∀ s2, (ntriggerEvent sub sc cfg ⟨0, s.nextTag⟩ ev s1).state? = some s2 →
      Pass2.Step2 ((alookup ev cfg.events).getD []) s.conf.nodes s s2 := by
    intro s2 h2
    obtain ⟨sb, hb, qb⟩ := Pass.ntriggerEvent_body sub sc cfg hC _ ev s1 s2 h2
    have hstep := Pass2.triggerEventBody_step2 sub sc cfg hC _ ev hno { s1 with result := none, exited := [] } sb
      (by show s1.conf.len = 1; rw [hconf]; exact hlen) (by show ConfOK cfg.states s1.conf = true; rw [hconf]; exact hcok) hb
    have hstep' : Pass2.Step2 ((alookup ev cfg.events).getD []) s.conf.nodes
        ({ s1 with result := none, exited := [] } : NSt) sb := by
      have : ({ s1 with result := none, exited := [] } : NSt).conf = s.conf := hconf
      rw [← this]; exact hstep
    exact Pass2.Step2.wrap (q01.trans (Pass.Quiet.of_glog rfl)) hstep' qb
  cases hn : ntriggerEvent sub sc cfg ⟨0, s.nextTag⟩ ev s1 with
  | oof => rw [hn] at h; simp [Res.state?] at h
  | ok b s2 =>
    rw [hn] at h
    simp only [Res.state?, Option.some.injEq] at h; subst h
    exact Pass2.Step2.wrap (Pass.Quiet.refl _) (key s2 (by rw [hn]; rfl)) ⟨[.ret s.nextTag b], rfl, rfl⟩
  | err e s2 =>
    rw [hn] at h
    simp only [Res.state?, Option.some.injEq] at h; subst h
    exact Pass2.Step2.wrap (Pass.Quiet.refl _) (key s2 (by rw [hn]; rfl)) ⟨[.raised s.nextTag e], rfl, rfl⟩


/-! ### second half of P2: no transition executes from a state exited earlier while the event is processed -/

/-- no transition executes from a state that was exited earlier in the segment -/
def execFresh (ts : List NTrans) : List GEv → List SPath → Bool
  | [], _ => true
  | .exit p :: l, ex => execFresh ts l (ex ++ [p])
  | .exec tr :: l, ex => (match ts[tr.idx]? with
      | some t => !ex.contains t.source
      | none => true) && execFresh ts l ex
  | _ :: l, ex => execFresh ts l ex

namespace Pass2
open Pass

/-- the `exit` events of a ghost segment -/
def exits (seg : List GEv) : List SPath :=
  seg.filterMap fun e => match e with
    | .exit p => some p
    | _ => none

theorem exits_append (a b : List GEv) : exits (a ++ b) = exits a ++ exits b := by
  simp [exits, List.filterMap_append]

theorem execFresh_append (ts : List NTrans) : ∀ (a b : List GEv) (ex : List SPath),
    execFresh ts (a ++ b) ex = (execFresh ts a ex && execFresh ts b (ex ++ exits a))
  | [], b, ex => by simp [execFresh, exits]
  | e :: a, b, ex => by
    cases e <;> simp only [List.cons_append, execFresh, exits, List.filterMap_cons] <;>
      rw [execFresh_append ts a b] <;> simp [exits, Bool.and_assoc]

theorem execFresh_quiet (ts : List NTrans) : ∀ (seg : List GEv) (ex : List SPath), refs seg = [] →
    execFresh ts seg ex = true
  | [], _, _ => rfl
  | e :: l, ex, h => by
    cases e <;> simp only [refs, List.filterMap_cons] at h <;> try (exact absurd h (List.cons_ne_nil _ _))
    all_goals (simp only [execFresh]; exact execFresh_quiet ts l _ h)

/-- a step that leaves configuration and `exited` alone, executes nothing and exits only states of `X` -/
def FrX (X : List SPath) (s s' : NSt) : Prop :=
  s'.conf = s.conf ∧ s'.exited = s.exited ∧
    ∃ seg, s'.glog = s.glog ++ seg ∧ refs seg = [] ∧ ∀ q ∈ exits seg, q ∈ X

theorem FrX.refl (X : List SPath) (s : NSt) : FrX X s s := ⟨rfl, rfl, [], by simp, rfl, by simp [exits]⟩

theorem FrX.trans {X : List SPath} {a b c : NSt} (h1 : FrX X a b) (h2 : FrX X b c) : FrX X a c := by
  obtain ⟨c1, x1, s1, e1, r1, k1⟩ := h1
  obtain ⟨c2, x2, s2, e2, r2, k2⟩ := h2
  refine ⟨c2.trans c1, x2.trans x1, s1 ++ s2, by rw [e2, e1, List.append_assoc], by rw [refs_append, r1, r2]; rfl, ?_⟩
  intro q hq
  rw [exits_append] at hq
  rcases List.mem_append.mp hq with h | h
  · exact k1 q h
  · exact k2 q h

theorem FrX.mono {X Y : List SPath} {a b : NSt} (h : FrX X a b) (hXY : ∀ q ∈ X, q ∈ Y) : FrX Y a b := by
  obtain ⟨c1, x1, s1, e1, r1, k1⟩ := h
  exact ⟨c1, x1, s1, e1, r1, fun q hq => hXY q (k1 q hq)⟩

theorem FrX.of_eq {X : List SPath} {s s' : NSt} (hv : s'.view = s.view) (hx : s'.exited = s.exited) : FrX X s s' :=
  ⟨congrArg View.conf hv, hx, [], by simp [show s'.glog = s.glog from congrArg View.glog hv], rfl, by simp [exits]⟩

theorem FrX.emitG (X : List SPath) (s : NSt) (e : GEv) (h1 : ∀ tr, e ≠ .exec tr) (h2 : ∀ p, e = .exit p → p ∈ X) :
    FrX X s (s.emitG e) := by
  refine ⟨rfl, rfl, [e], rfl, ?_, ?_⟩
  · cases e <;> first | rfl | exact absurd rfl (h1 _)
  · intro q hq
    cases e <;> simp [exits] at hq
    subst hq; exact h2 _ rfl

/-- the frame of the second half of P2: the configuration stays well-formed with a single root, `exited` only
grows and contains the states exited in the segment, and every execution in the segment is from a state that is in
no list `E` of states recorded as exited before the segment nor exited in the segment before it -/
def Fr (cfg : NCfg) (ts : List NTrans) (s s' : NSt) : Prop :=
  ConfOK cfg.states s'.conf = true ∧ s'.conf.len = 1 ∧ ExSub s s' ∧
    ∃ seg, s'.glog = s.glog ++ seg ∧ (∀ q ∈ exits seg, q ∈ s'.exited) ∧
      ∀ E : List SPath, (∀ q ∈ E, q ∈ s.exited) → execFresh ts seg E = true

section
variable {cfg : NCfg} {ts : List NTrans}

theorem Fr.refl (s : NSt) (hc : ConfOK cfg.states s.conf = true) (hl : s.conf.len = 1) : Fr cfg ts s s :=
  ⟨hc, hl, ExSub.refl s, [], by simp, by simp [exits], fun _ _ => rfl⟩

theorem Fr.trans {a b c : NSt} (h1 : Fr cfg ts a b) (h2 : Fr cfg ts b c) : Fr cfg ts a c := by
  obtain ⟨_, _, x1, s1, e1, k1, f1⟩ := h1
  obtain ⟨c2, l2, x2, s2, e2, k2, f2⟩ := h2
  refine ⟨c2, l2, x1.trans x2, s1 ++ s2, by rw [e2, e1, List.append_assoc], ?_, ?_⟩
  · intro q hq
    rw [exits_append] at hq
    rcases List.mem_append.mp hq with h | h
    · exact x2 q (k1 q h)
    · exact k2 q h
  · intro E hE
    rw [execFresh_append, f1 E hE, Bool.true_and]
    apply f2
    intro q hq
    rcases List.mem_append.mp hq with h | h
    · exact x1 q (hE q h)
    · exact k1 q h

/-- a step that only changes the bookkeeping -/
theorem Fr.of_glog {a b : NSt} (hc : ConfOK cfg.states b.conf = true) (hl : b.conf.len = 1) (hg : b.glog = a.glog)
    (hx : ExSub a b) : Fr cfg ts a b :=
  ⟨hc, hl, hx, [], by simp [hg], by simp [exits], fun _ _ => rfl⟩

theorem FrX.fr {X : List SPath} {a b : NSt} (hc : ConfOK cfg.states a.conf = true) (hl : a.conf.len = 1)
    (h : FrX X a b) (hX : ∀ q ∈ X, q ∈ b.exited) : Fr cfg ts a b := by
  obtain ⟨c1, x1, s1, e1, r1, k1⟩ := h
  exact ⟨by rw [c1]; exact hc, by rw [c1]; exact hl, ExSub.of_eq x1, s1, e1, fun q hq => hX q (k1 q hq),
    fun E _ => execFresh_quiet ts s1 E r1⟩

theorem Fr.exec {a : NSt} {tr : TRef} {t : NTrans} (hc : ConfOK cfg.states a.conf = true) (hl : a.conf.len = 1)
    (ht : ts[tr.idx]? = some t) (hx : t.source ∉ a.exited) : Fr cfg ts a (a.emitG (.exec tr)) := by
  refine ⟨hc, hl, ExSub.refl a, [.exec tr], rfl, by simp [exits], ?_⟩
  intro E hE
  have : t.source ∉ E := fun h => hx (hE _ h)
  simp [execFresh, ht, this]

end

section
variable (sub : NSub) (sc : Script) (cfg : NCfg) {ts : List NTrans}

theorem ncallbacks_frx (hC : NoCmds sc) (X : List SPath) (slot : Slot) (x : Ctx) (cbs : List Nat) (s s' : NSt)
    (h : (ncallbacks sub sc cfg slot x cbs s).state? = some s') : FrX X s s' :=
  FrX.of_eq (ncallbacks_view sub sc cfg hC slot x cbs s s' h) (ncallbacks_exited sub sc cfg hC slot x cbs s s' h)

theorem nevalConds_frx (hC : NoCmds sc) (X : List SPath) (x : Ctx) (cs : List Cond) (s s' : NSt)
    (h : (nevalConds sub sc cfg x cs s).state? = some s') : FrX X s s' :=
  FrX.of_eq (nevalConds_view sub sc cfg hC x cs s s' h) (nevalConds_exited sub sc cfg hC x cs s s' h)

theorem exitAll_frx (hC : NoCmds sc) (x : Ctx) : ∀ (fs : List Found) (s s' : NSt),
    (exitAll sub sc cfg x fs s).state? = some s' → FrX (pathsOf fs) s s'
  | [], s, s', h => by
    simp only [exitAll, Res.state?, Option.some.injEq] at h; subst h; exact FrX.refl _ _
  | f :: fs, s, s', h => by
    unfold exitAll at h
    have h0 : FrX (pathsOf (f :: fs)) s (s.emitG (.exit f.path)) :=
      FrX.emitG _ s _ (by intro tr h; cases h) (by intro p h; cases h; simp [pathsOf])
    rcases bind_state h with ⟨e, he⟩ | ⟨a, s1, he, h1⟩
    · exact h0.trans (ncallbacks_frx sub sc cfg hC _ _ x _ _ s' (by rw [he]; rfl))
    · exact (h0.trans (ncallbacks_frx sub sc cfg hC _ _ x _ _ s1 (by rw [he]; rfl))).trans
        ((exitAll_frx hC x fs s1 s' h1).mono (fun q hq => by simp only [pathsOf, List.map_cons] at hq ⊢; exact List.mem_cons_of_mem _ hq))

theorem enterAll_frx (hC : NoCmds sc) (x : Ctx) : ∀ (fs : List Found) (s s' : NSt),
    (enterAll sub sc cfg x fs s).state? = some s' → FrX [] s s'
  | [], s, s', h => by
    simp only [enterAll, Res.state?, Option.some.injEq] at h; subst h; exact FrX.refl _ _
  | f :: fs, s, s', h => by
    unfold enterAll at h
    have h0 : FrX [] s (s.emitG (.enter f.path)) :=
      FrX.emitG _ s _ (by intro tr h; cases h) (by intro p h; cases h)
    rcases bind_state h with ⟨e, he⟩ | ⟨a, s1, he, h1⟩
    · exact h0.trans (ncallbacks_frx sub sc cfg hC _ _ x _ _ s' (by rw [he]; rfl))
    · exact (h0.trans (ncallbacks_frx sub sc cfg hC _ _ x _ _ s1 (by rw [he]; rfl))).trans
        (enterAll_frx hC x fs s1 s' h1)

/-- `_change_state` of a machine-level transition: what it exits is what it recorded in `exited` -/
theorem nchangeState_fr (hwf : cfg.states.WF = true) (hC : NoCmds sc) (x : Ctx) (dest : SPath) (s s' : NSt)
    (hc : ConfOK cfg.states s.conf = true) (hl : s.conf.len = 1)
    (h : (nchangeState sub sc cfg cfg.root x dest s).state? = some s') : Fr cfg ts s s' := by
  unfold nchangeState at h
  split at h
  · simp only [Res.state?, Option.some.injEq] at h; subst h; exact Fr.refl _ hc hl
  · simp [Res.state?] at h
  · rename_i r hr
    have hroot : cfg.root.walkTo cfg.root.pre = some cfg.root := rfl
    obtain ⟨_, _, _, _, _, _, _, _, _, htc, htl, _⟩ :=
      resolveTransition_spec enterSpec_holds enterRootEq_holds cfg hwf cfg.root hroot s.conf hc hl dest r hr
    have hnames := resolveTransition_exitNames enterSpec_holds enterRootEq_holds cfg hwf cfg.root hroot s.conf hc hl
      dest r hr
    have f0 : Fr cfg ts s ({ s with exited := s.exited ++ r.exitNames } : NSt) :=
      Fr.of_glog hc hl rfl (fun q hq => List.mem_append_left _ hq)
    rcases bind_state h with ⟨e, he⟩ | ⟨a, s1, he, h1⟩
    · have hx := exitAll_frx sub sc cfg hC x _ _ s' (by rw [he]; rfl)
      refine f0.trans (hx.fr hc hl ?_)
      intro q hq
      rw [hx.2.1]
      exact List.mem_append_right _ (by rw [hnames]; exact hq)
    · have hx := exitAll_frx sub sc cfg hC x _ _ s1 (by rw [he]; rfl)
      have f1 : Fr cfg ts ({ s with exited := s.exited ++ r.exitNames } : NSt) s1 := hx.fr hc hl (by
        intro q hq
        rw [hx.2.1]
        exact List.mem_append_right _ (by rw [hnames]; exact hq))
      have f2 : Fr cfg ts s1 ({ s1 with conf := r.tree } : NSt) := Fr.of_glog htc htl rfl (ExSub.refl _)
      have f3 : Fr cfg ts ({ s1 with conf := r.tree } : NSt) s' :=
        (enterAll_frx sub sc cfg hC x _ _ s' h1).fr htc htl (by simp)
      exact f0.trans (f1.trans (f2.trans f3))

theorem nfinalStage_frx (hC : NoCmds sc) (X : List SPath) (scope : Scope) (x : Ctx) (dest : Option SPath) (conf0 : Forest)
    (s s' : NSt) (h : (nfinalStage sub sc cfg scope x dest conf0 s).state? = some s') : FrX X s s' :=
  FrX.of_eq (nfinalStage_view sub sc cfg hC scope x dest conf0 s s' h)
    (nfinalStage_exited sub sc cfg hC scope x dest conf0 s s' h)

/-- `Transition.execute` of a machine-level transition whose source has not been exited -/
theorem nexecute_fr (hwf : cfg.states.WF = true) (hC : NoCmds sc) (x : Ctx) (tr : TRef) (t : NTrans) (s : NSt)
    (hc : ConfOK cfg.states s.conf = true) (hl : s.conf.len = 1)
    (ht : ts[tr.idx]? = some t) (hx : t.source ∉ s.exited) :
    Post (fun b s' => Fr cfg ts s s' ∧ (b = false → FrX [] s s')) (fun s' => Fr cfg ts s s')
      (nexecute sub sc cfg cfg.root x tr t s) := by
  unfold nexecute
  have nil : ∀ (b : NSt), ∀ q ∈ ([] : List SPath), q ∈ b.exited := by simp
  have q0 : FrX [] s (s.emitG (.cand tr)) := FrX.emitG _ s _ (by intro tr h; cases h) (by intro p h; cases h)
  refine Post.bind (Post.of_state (ncallbacks_frx sub sc cfg hC [] _ x _ _))
    (fun s' h => (q0.trans h).fr hc hl (nil _)) ?_
  intro _ s1 h1
  have q1 := q0.trans h1
  refine Post.bind (Post.of_state (nevalConds_frx sub sc cfg hC [] x _ _))
    (fun s' h => (q1.trans h).fr hc hl (nil _)) ?_
  intro ok s2 h2
  have q2 := q1.trans h2
  cases ok with
  | false => exact ⟨q2.fr hc hl (nil _), fun _ => q2⟩
  | true =>
  simp only [Bool.not_true, Bool.false_eq_true, if_false]
  refine Post.bind (Post.of_state (ncallbacks_frx sub sc cfg hC [] _ x _ _))
    (fun s' h => (q2.trans h).fr hc hl (nil _)) ?_
  intro _ s3 h3
  have q3 := q2.trans h3
  have hc3 : ConfOK cfg.states s3.conf = true := by rw [q3.1]; exact hc
  have hl3 : s3.conf.len = 1 := by rw [q3.1]; exact hl
  have f3 : Fr cfg ts s (s3.emitG (.exec tr)) :=
    (q3.fr hc hl (nil _)).trans (Fr.exec hc3 hl3 ht (by rw [q3.2.1]; exact hx))
  have cbf : ∀ (a b : NSt), Fr cfg ts s a → FrX [] a b → Fr cfg ts s b := fun a b fa hab =>
    fa.trans (hab.fr fa.1 fa.2.1 (nil _))
  refine Post.bind (Post.of_state (ncallbacks_frx sub sc cfg hC [] _ x _ _)) (fun s' h => cbf _ _ f3 h) ?_
  intro _ s4 h4
  have f4 := cbf _ _ f3 h4
  have h5 : ∀ s5, (match t.dest with
        | some d => nchangeState sub sc cfg cfg.root x d s4
        | none => .ok () s4).state? = some s5 → Fr cfg ts s4 s5 := by
    intro s5 h
    cases hd : t.dest with
    | none => simp only [hd, Res.state?, Option.some.injEq] at h; subst h; exact Fr.refl _ f4.1 f4.2.1
    | some d => simp only [hd] at h; exact nchangeState_fr (ts := ts) sub sc cfg hwf hC x d s4 s5 f4.1 f4.2.1 h
  refine Post.bind (Post.of_state h5) (fun s' h => f4.trans h) ?_
  intro _ s5 h5'
  have f5 := f4.trans h5'
  refine Post.bind (Post.of_state (nfinalStage_frx sub sc cfg hC [] cfg.root x _ _ _)) (fun s' h => cbf _ _ f5 h) ?_
  intro _ s5 h5''
  have f5 := cbf _ _ f5 h5''
  refine Post.bind (Post.of_state (ncallbacks_frx sub sc cfg hC [] _ x _ _)) (fun s' h => cbf _ _ f5 h) ?_
  intro _ s6 h6
  have f6 := cbf _ _ f5 h6
  refine Post.bind (Post.of_state (ncallbacks_frx sub sc cfg hC [] _ x _ _)) (fun s' h => cbf _ _ f6 h) ?_
  intro _ s7 h7
  exact ⟨cbf _ _ f6 h7, fun h => by cases h⟩

theorem ntry_fr (hwf : cfg.states.WF = true) (hC : NoCmds sc) (x : Ctx) (p : SPath) :
    ∀ (cands : List (TRef × NTrans)) (s : NSt),
    ConfOK cfg.states s.conf = true → s.conf.len = 1 →
    (∀ c ∈ cands, ts[c.1.idx]? = some c.2 ∧ c.2.source = p) → p ∉ s.exited →
    Post (fun _ s' => Fr cfg ts s s') (fun s' => Fr cfg ts s s') (ntry sub sc cfg cfg.root x cands s)
  | [], s, hc, hl, _, _ => Fr.refl s hc hl
  | (tr, t) :: r, s, hc, hl, hcs, hx => by
    unfold ntry
    obtain ⟨ht, hsrc⟩ := hcs (tr, t) (by simp)
    refine Post.bind (nexecute_fr (ts := ts) sub sc cfg hwf hC x tr t s hc hl ht (by rw [hsrc]; exact hx))
      (fun _ h => h) ?_
    rintro b s1 ⟨hf, hq⟩
    cases b with
    | true =>
      simp only [if_true]
      exact hf.trans (Fr.of_glog hf.1 hf.2.1 rfl (fun _ h => h))
    | false =>
      simp only [Bool.false_eq_true, if_false]
      obtain ⟨c1, x1, _⟩ := hq rfl
      have hf' : Fr cfg ts s ({ s1 with result := some false } : NSt) :=
        hf.trans (Fr.of_glog hf.1 hf.2.1 rfl (fun _ h => h))
      refine Post.mono (ntry_fr hwf hC x p r _ hf.1 hf.2.1 (fun c hc' => hcs c (List.mem_cons_of_mem _ hc'))
        (by show p ∉ s1.exited; rw [x1]; exact hx)) (fun _ _ h => hf'.trans h) (fun _ h => hf'.trans h)

theorem nprocess_fr (hwf : cfg.states.WF = true) (hC : NoCmds sc) (x : Ctx) (p : SPath)
    (cands : List (TRef × NTrans)) (s : NSt)
    (hc : ConfOK cfg.states s.conf = true) (hl : s.conf.len = 1)
    (hcs : ∀ c ∈ cands, ts[c.1.idx]? = some c.2 ∧ c.2.source = p) (hx : p ∉ s.exited) :
    Post (fun _ s' => Fr cfg ts s s') (fun s' => Fr cfg ts s s') (nprocess sub sc cfg cfg.root x cands s) := by
  unfold nprocess
  refine Post.bind (Post.of_state (ncallbacks_frx sub sc cfg hC [] _ x _ _))
    (fun s' h => h.fr hc hl (by simp)) ?_
  intro _ s1 h1
  have f1 : Fr cfg ts s s1 := h1.fr hc hl (by simp)
  exact Post.mono (ntry_fr sub sc cfg hwf hC x p cands s1 f1.1 f1.2.1 hcs (by rw [h1.2.1]; exact hx))
    (fun _ _ h => f1.trans h) (fun _ h => f1.trans h)

theorem tnLoop_fr (hwf : cfg.states.WF = true) (hC : NoCmds sc) (x : Ctx) (ev : Nat) (ts : List NTrans) :
    ∀ (ps done : List SPath) (s : NSt), ConfOK cfg.states s.conf = true → s.conf.len = 1 →
    Post (fun _ s' => Fr cfg ts s s') (fun s' => Fr cfg ts s s') (tnLoop sub sc cfg cfg.root x ev ts ps done s)
  | [], done, s, hc, hl => Fr.refl s hc hl
  | p :: ps, done, s, hc, hl => by
    unfold tnLoop
    simp only []
    split
    · exact tnLoop_fr hwf hC x ev ts ps done s hc hl
    · rename_i hcond
      have hx : p ∉ s.exited := fun hm => hcond (Or.inr (Or.inr (by
        have : cfg.root.pre ++ p = p := List.nil_append p
        rw [this]; exact hm)))
      split
      · exact Fr.refl s hc hl
      · refine Post.bind (nprocess_fr (ts := ts) sub sc cfg hwf hC x p _ s hc hl ncandidates_ok hx) (fun _ h => h) ?_
        intro _ s1 f1
        exact Post.mono (tnLoop_fr hwf hC x ev ts ps _ s1 f1.1 f1.2.1) (fun _ _ h => f1.trans h)
          (fun _ h => f1.trans h)

theorem triggerNested_fr (hwf : cfg.states.WF = true) (hC : NoCmds sc) (x : Ctx) (ev : Nat) (ts : List NTrans) (s : NSt)
    (hc : ConfOK cfg.states s.conf = true) (hl : s.conf.len = 1) :
    Post (fun _ s' => Fr cfg ts s s') (fun s' => Fr cfg ts s s') (triggerNested sub sc cfg cfg.root x ev ts s) := by
  unfold triggerNested
  split
  · exact Fr.refl s hc hl
  · exact Fr.refl s hc hl
  · split
    · trivial
    · refine Post.bind (tnLoop_fr sub sc cfg hwf hC x ev ts _ [] s hc hl) (fun _ h => h) ?_
      intro dn s1 f1
      split
      · exact f1
      · exact f1.trans (Fr.of_glog f1.1 f1.2.1 rfl (fun _ h => h))

theorem ten_fr (hwf : cfg.states.WF = true) (hC : NoCmds sc) (x : Ctx) (ev : Nat) (hno : cfg.states.noEvents = true)
    (s : NSt) (hl : s.conf.len = 1) (hc : ConfOK cfg.states s.conf = true) :
    Post (fun _ s' => Fr cfg ((alookup ev cfg.events).getD []) s s')
      (fun s' => Fr cfg ((alookup ev cfg.events).getD []) s s') (ten sub sc cfg x ev cfg.root s.conf [] false s) := by
  obtain ⟨k, v, hkv⟩ := Forest.len_one hl
  rw [hkv, ten_global_only cfg sub sc x ev hno k v (hkv ▸ hc) s]
  cases hal : alookup ev cfg.events with
  | none => exact Fr.refl s hc hl
  | some ts =>
    simp only [Option.getD_some]
    exact Post.bind (triggerNested_fr sub sc cfg hwf hC x ev ts s hc hl) (fun _ h => h) (fun _ _ h => h)

theorem triggerEventBody_fr (hwf : cfg.states.WF = true) (hC : NoCmds sc) (x : Ctx) (ev : Nat)
    (hno : cfg.states.noEvents = true) (s s' : NSt) (hl : s.conf.len = 1) (hc : ConfOK cfg.states s.conf = true)
    (h : (triggerEventBody sub sc cfg x ev s).state? = some s') :
    Fr cfg ((alookup ev cfg.events).getD []) s s' := by
  have hten := ten_fr sub sc cfg hwf hC x ev hno s hl hc
  unfold triggerEventBody at h
  rcases bind_state h with ⟨e, he⟩ | ⟨r, s1, he, h1⟩
  · exact hten.state (by rw [he]; rfl)
  · have hs1 := hten.state (s' := s1) (by rw [he]; rfl)
    rcases bind_state h1 with ⟨e, he2⟩ | ⟨b, s2, he2, h2⟩
    · have := checkEventResult_state cfg _ ev s1 s' (by rw [he2]; rfl)
      subst this; exact hs1
    · have := checkEventResult_state cfg _ ev s1 s2 (by rw [he2]; rfl)
      subst this
      simp only [Res.state?, Option.some.injEq] at h2; subst h2
      exact hs1.trans (Fr.of_glog hs1.1 hs1.2.1 rfl (fun _ h => h))

end

/-- the ghost log grows by a segment in which nothing executes from a state exited earlier in the segment -/
def Step5 (ts : List NTrans) (s s' : NSt) : Prop :=
  ∃ seg, s'.glog = s.glog ++ seg ∧ execFresh ts seg [] = true

theorem Step5.wrap {ts : List NTrans} {a b c d : NSt} (e : GEv) (h1 : b.glog = a.glog ++ [e])
    (he1 : ∀ tr, e ≠ .exec tr) (he2 : ∀ p, e ≠ .exit p) (h2 : Step5 ts b c) (h3 : Quiet c d) : Step5 ts a d := by
  obtain ⟨s2, e2, p2⟩ := h2
  obtain ⟨s3, e3, r3⟩ := h3
  refine ⟨[e] ++ s2 ++ s3, by rw [e3, e2, h1]; simp [List.append_assoc], ?_⟩
  have hx : exits [e] = [] := by
    cases e <;> first | rfl | exact absurd rfl (he2 _)
  have hr : refs [e] = [] := by
    cases e <;> first | rfl | exact absurd rfl (he1 _)
  rw [execFresh_append, execFresh_append, execFresh_quiet ts [e] _ hr, hx, List.append_nil, p2,
    execFresh_quiet ts s3 _ r3]
  rfl

end Pass2

/-- **P2 for machine-level declarations, both halves**: every transition executes from a state that was active when
the event began and has not been exited since -/
theorem C03_P2_global_only (cfg : NCfg) (hwf : cfg.states.WF = true) (sub : NSub) (sc : Script)
    (hR : NoRaise sc) (hC : NoCmds sc) (hq : cfg.queued = false) (hno : cfg.states.noEvents = true)
    (qmax ev : Nat) (s s' : NSt) (hlen : s.conf.len = 1) (hcok : ConfOK cfg.states s.conf = true) (hidle : s.queue = [])
    (h : (napiTrigger sub sc cfg qmax ev s).state? = some s') :
    ∃ seg, s'.glog = s.glog ++ seg ∧
      (∀ p ∈ execSources ((alookup ev cfg.events).getD []) seg, p ∈ s.conf.nodes) ∧
      execFresh ((alookup ev cfg.events).getD []) seg [] = true := by
  obtain ⟨seg, e1, hact⟩ := C03_P2_active_at_start cfg sub sc hR hC hq hno qmax ev s s' hlen hcok hidle h
  suffices hs : Pass2.Step5 ((alookup ev cfg.events).getD []) s s' by
    obtain ⟨seg5, e5, h5⟩ := hs
    have : seg5 = seg := List.append_cancel_left (e5.symm.trans e1)
    subst this
    exact ⟨seg5, e1, hact, h5⟩
  unfold napiTrigger at h
  simp only [] at h
  generalize hs1 : ((({ s with nextTag := s.nextTag + 1 } : NSt).emit (.api 0 s.nextTag 0 ev)).emitG
      (.api s.nextTag ev)) = s1 at h
  have g01 : s1.glog = s.glog ++ [.api s.nextTag ev] := by subst hs1; rfl
  have hconf : s1.conf = s.conf := by subst hs1; rfl
  have hqueue : s1.queue = [] := by subst hs1; exact hidle
  have hmp : nmachineProcess sub sc cfg qmax ev s.nextTag s1 = ntriggerEvent sub sc cfg ⟨0, s.nextTag⟩ ev s1 := by
    simp [nmachineProcess, hq, hqueue]
  rw [hmp] at h
  have key : ∀ s2 s3, (ntriggerEvent sub sc cfg ⟨0, s.nextTag⟩ ev s1).state? = some s2 → Pass.Quiet s2 s3 →
      Pass2.Step5 ((alookup ev cfg.events).getD []) s s3 := by
    intro s2 s3 h2 q23
    obtain ⟨sb, hb, qb⟩ := Pass.ntriggerEvent_body sub sc cfg hC _ ev s1 s2 h2
    obtain ⟨_, _, _, segb, eb, _, fb⟩ := Pass2.triggerEventBody_fr sub sc cfg hwf hC _ ev hno
      { s1 with result := none, exited := [] } sb
      (by show s1.conf.len = 1; rw [hconf]; exact hlen) (by show ConfOK cfg.states s1.conf = true; rw [hconf]; exact hcok) hb
    have hstep : Pass2.Step5 ((alookup ev cfg.events).getD []) s1 sb := ⟨segb, eb, fb [] (by simp)⟩
    exact Pass2.Step5.wrap _ g01 (by intro tr h; cases h) (by intro p h; cases h) hstep (qb.trans q23)
  cases hn : ntriggerEvent sub sc cfg ⟨0, s.nextTag⟩ ev s1 with
  | oof => rw [hn] at h; simp [Res.state?] at h
  | ok b s2 =>
    rw [hn] at h
    simp only [Res.state?, Option.some.injEq] at h; subst h
    exact key s2 _ (by rw [hn]; rfl) ⟨[.ret s.nextTag b], rfl, rfl⟩
  | err e s2 =>
    rw [hn] at h
    simp only [Res.state?, Option.some.injEq] at h; subst h
    exact key s2 _ (by rw [hn]; rfl) ⟨[.raised s.nextTag e], rfl, rfl⟩


/-! ### at most one execution from a configuration without active parallel states -/

/-- no state of the configuration has two active children (no parallel state is active) -/
def Forest.isChain : Forest → Bool
  | .nil => true
  | .cons _ s .nil => s.isChain
  | _ => false

namespace Pass2

theorem related_cons (k : Nat) (p q : SPath) : related (k :: p) (k :: q) = related p q := by
  simp [related, isPrefix]

theorem related_single_cons (k : Nat) (q : SPath) : related [k] (k :: q) = true := by
  simp [related, isPrefix]

theorem related_cons_single (k : Nat) (q : SPath) : related (k :: q) [k] = true := by
  simp [related, isPrefix]

end Pass2

/-- the nodes of a chain are pairwise related (each is a prefix of the other) -/
theorem Forest.chain_related {f : Forest} (h : f.isChain = true) :
    ∀ p ∈ f.nodes, ∀ q ∈ f.nodes, related p q = true := by
  induction f with
  | nil => intro p hp; simp [Forest.nodes] at hp
  | cons k s r ihs _ =>
    cases r with
    | cons _ _ _ => simp [Forest.isChain] at h
    | nil =>
      simp only [Forest.isChain] at h
      intro p hp q hq
      simp only [Forest.nodes, List.append_nil, List.mem_cons, List.mem_map] at hp hq
      rcases hp with rfl | ⟨p', hp', rfl⟩ <;> rcases hq with rfl | ⟨q', hq', rfl⟩
      · exact Pass2.related_single_cons k []
      · exact Pass2.related_single_cons k q'
      · exact Pass2.related_cons_single k p'
      · rw [Pass2.related_cons]; exact ihs h p' hp' q' hq'

namespace Pass2
open Pass

/-- the ghost log grows by a segment whose executed references all point into `ts` -/
def Step4 (ts : List NTrans) (s s' : NSt) : Prop :=
  ∃ seg, s'.glog = s.glog ++ seg ∧ ∀ tr ∈ refs seg, (ts[tr.idx]?).isSome = true

theorem step4_of_quiet {ts : List NTrans} {s s' : NSt} (h : Quiet s s') : Step4 ts s s' := by
  obtain ⟨seg, e1, h1⟩ := h
  refine ⟨seg, e1, ?_⟩
  rw [h1]; simp

theorem Step4.trans {ts : List NTrans} {a b c : NSt} (h1 : Step4 ts a b) (h2 : Step4 ts b c) : Step4 ts a c := by
  obtain ⟨s1, e1, r1⟩ := h1
  obtain ⟨s2, e2, r2⟩ := h2
  refine ⟨s1 ++ s2, by rw [e2, e1, List.append_assoc], ?_⟩
  intro tr htr
  rw [refs_append] at htr
  rcases List.mem_append.mp htr with h | h
  · exact r1 tr h
  · exact r2 tr h

theorem Step4.wrap {ts : List NTrans} {a b c d : NSt} (h1 : Quiet a b) (h2 : Step4 ts b c) (h3 : Quiet c d) :
    Step4 ts a d :=
  ((step4_of_quiet h1).trans h2).trans (step4_of_quiet h3)

/-- when every executed reference points into `ts`, sources and references are equally many -/
theorem execSources_length {ts : List NTrans} {seg : List GEv}
    (h : ∀ tr ∈ refs seg, (ts[tr.idx]?).isSome = true) : (execSources ts seg).length = (refs seg).length := by
  rw [execSources_eq]
  generalize refs seg = l at h
  induction l with
  | nil => rfl
  | cons tr l ih =>
    have h1 := h tr (by simp)
    cases hx : ts[tr.idx]? with
    | none => rw [hx] at h1; cases h1
    | some t =>
      simp only [List.filterMap_cons, hx, Option.map_some, List.length_cons]
      rw [ih (fun tr' h' => h tr' (List.mem_cons_of_mem _ h'))]

section
variable (sub : NSub) (sc : Script) (cfg : NCfg)

theorem tnLoop_step4 (hC : NoCmds sc) (scope : Scope) (x : Ctx) (ev : Nat) (ts : List NTrans) :
    ∀ (ps done : List SPath) (s s' : NSt),
    (tnLoop sub sc cfg scope x ev ts ps done s).state? = some s' → Step4 ts s s'
  | [], done, s, s', h => by
    simp only [tnLoop, Res.state?, Option.some.injEq] at h; subst h
    exact step4_of_quiet (Quiet.refl _)
  | p :: ps, done, s, s', h => by
    unfold tnLoop at h
    simp only [] at h
    split at h
    · exact tnLoop_step4 hC scope x ev ts ps done s s' h
    · split at h
      · simp only [Res.state?, Option.some.injEq] at h; subst h
        exact step4_of_quiet (Quiet.refl _)
      · have hpost := nprocess_post sub sc cfg hC scope x (ncandidates scope.pre ev ts p) s
        have hone : ∀ {seg : List GEv}, (refs seg = [] ∨ ∃ c ∈ ncandidates scope.pre ev ts p, refs seg = [c.1]) →
            ∀ tr ∈ refs seg, (ts[tr.idx]?).isSome = true := by
          intro seg h2 tr htr
          rcases h2 with h2 | ⟨c, hc, h2⟩
          · rw [h2] at htr; cases htr
          · rw [h2, List.mem_singleton] at htr
            subst htr
            rw [(ncandidates_spec hc).2.2.1]; rfl
        cases hn : nprocess sub sc cfg scope x (ncandidates scope.pre ev ts p) s with
        | oof => rw [hn] at h; simp [bind_oof, Res.state?] at h
        | err e s1 =>
          rw [hn] at h hpost
          simp only [bind_err, Res.state?, Option.some.injEq] at h; subst h
          obtain ⟨seg, e1, h2⟩ := hpost
          exact ⟨seg, e1, hone h2⟩
        | ok u s1 =>
          rw [hn] at h hpost
          simp only [bind_ok] at h
          obtain ⟨seg1, e1, h2⟩ := hpost
          have h2' : refs seg1 = [] ∨ ∃ c ∈ ncandidates scope.pre ev ts p, refs seg1 = [c.1] := by
            rcases h2 with h2 | ⟨_, c, hc, h2⟩
            · exact Or.inl h2
            · exact Or.inr ⟨c, hc, h2⟩
          exact Step4.trans ⟨seg1, e1, hone h2'⟩ (tnLoop_step4 hC scope x ev ts ps _ s1 s' h)

theorem triggerNested_step4 (hC : NoCmds sc) (scope : Scope) (x : Ctx) (ev : Nat) (ts : List NTrans) (s s' : NSt)
    (h : (triggerNested sub sc cfg scope x ev ts s).state? = some s') : Step4 ts s s' := by
  unfold triggerNested at h
  split at h
  · simp only [Res.state?, Option.some.injEq] at h; subst h; exact step4_of_quiet (Quiet.refl _)
  · simp only [Res.state?, Option.some.injEq] at h; subst h; exact step4_of_quiet (Quiet.refl _)
  · split at h
    · simp [Res.state?] at h
    · rcases bind_state h with ⟨e, he⟩ | ⟨a, s1, he, h1⟩
      · exact tnLoop_step4 sub sc cfg hC scope x ev ts _ [] s s' (by rw [he]; rfl)
      · have h4 := tnLoop_step4 sub sc cfg hC scope x ev ts _ [] s s1 (by rw [he]; rfl)
        split at h1 <;> (simp only [Res.state?, Option.some.injEq] at h1; subst h1)
        · exact h4
        · exact h4.trans (step4_of_quiet (Quiet.of_glog rfl))

theorem ten_step4 (hC : NoCmds sc) (x : Ctx) (ev : Nat) (hno : cfg.states.noEvents = true) (s s' : NSt)
    (hlen : s.conf.len = 1) (hcok : ConfOK cfg.states s.conf = true)
    (h : (ten sub sc cfg x ev cfg.root s.conf [] false s).state? = some s') :
    Step4 ((alookup ev cfg.events).getD []) s s' := by
  obtain ⟨k, v, hkv⟩ := Forest.len_one hlen
  rw [hkv, ten_global_only cfg sub sc x ev hno k v (hkv ▸ hcok) s] at h
  cases hal : alookup ev cfg.events with
  | none =>
    rw [hal] at h
    simp only [Res.state?, Option.some.injEq] at h; subst h
    exact step4_of_quiet (Quiet.refl _)
  | some ts =>
    rw [hal] at h
    simp only [Option.getD_some] at h ⊢
    rcases bind_state h with ⟨e, he⟩ | ⟨a, s1, he, h1⟩
    · exact triggerNested_step4 sub sc cfg hC _ x ev ts s s' (by rw [he]; rfl)
    · simp only [Res.state?, Option.some.injEq] at h1; subst h1
      exact triggerNested_step4 sub sc cfg hC _ x ev ts s s1 (by rw [he]; rfl)

theorem triggerEventBody_step4 (hC : NoCmds sc) (x : Ctx) (ev : Nat) (hno : cfg.states.noEvents = true) (s s' : NSt)
    (hlen : s.conf.len = 1) (hcok : ConfOK cfg.states s.conf = true)
    (h : (triggerEventBody sub sc cfg x ev s).state? = some s') :
    Step4 ((alookup ev cfg.events).getD []) s s' := by
  unfold triggerEventBody at h
  rcases bind_state h with ⟨e, he⟩ | ⟨r, s1, he, h1⟩
  · exact ten_step4 sub sc cfg hC x ev hno s s' hlen hcok (by rw [he]; rfl)
  · have hs1 := ten_step4 sub sc cfg hC x ev hno s s1 hlen hcok (by rw [he]; rfl)
    rcases bind_state h1 with ⟨e, he2⟩ | ⟨b, s2, he2, h2⟩
    · have := checkEventResult_state cfg _ ev s1 s' (by rw [he2]; rfl)
      subst this; exact hs1
    · have := checkEventResult_state cfg _ ev s1 s2 (by rw [he2]; rfl)
      subst this
      simp only [Res.state?, Option.some.injEq] at h2; subst h2
      exact Step4.wrap (Quiet.refl _) hs1 (Quiet.of_glog rfl)

/-- one trigger call on a machine without local declarations: every executed reference points into the
machine-level transition list of the event -/
theorem napiTrigger_step4 (hC : NoCmds sc) (hq : cfg.queued = false) (hno : cfg.states.noEvents = true)
    (qmax ev : Nat) (s s' : NSt) (hlen : s.conf.len = 1) (hcok : ConfOK cfg.states s.conf = true) (hidle : s.queue = [])
    (h : (napiTrigger sub sc cfg qmax ev s).state? = some s') :
    Step4 ((alookup ev cfg.events).getD []) s s' := by
  unfold napiTrigger at h
  simp only [] at h
  generalize hs1 : ((({ s with nextTag := s.nextTag + 1 } : NSt).emit (.api 0 s.nextTag 0 ev)).emitG
      (.api s.nextTag ev)) = s1 at h
  have q01 : Quiet s s1 := by
    subst hs1; exact ⟨[.api s.nextTag ev], rfl, rfl⟩
  have hconf : s1.conf = s.conf := by subst hs1; rfl
  have hqueue : s1.queue = [] := by subst hs1; exact hidle
  have hmp : nmachineProcess sub sc cfg qmax ev s.nextTag s1 = ntriggerEvent sub sc cfg ⟨0, s.nextTag⟩ ev s1 := by
    simp [nmachineProcess, hq, hqueue]
  rw [hmp] at h
  have key : ∀ s2, (ntriggerEvent sub sc cfg ⟨0, s.nextTag⟩ ev s1).state? = some s2 →
      Step4 ((alookup ev cfg.events).getD []) s s2 := by
    intro s2 h2
    obtain ⟨sb, hb, qb⟩ := ntriggerEvent_body sub sc cfg hC _ ev s1 s2 h2
    have hstep := triggerEventBody_step4 sub sc cfg hC _ ev hno { s1 with result := none, exited := [] } sb
      (by show s1.conf.len = 1; rw [hconf]; exact hlen) (by show ConfOK cfg.states s1.conf = true; rw [hconf]; exact hcok) hb
    exact Step4.wrap (q01.trans (Quiet.of_glog rfl)) hstep qb
  cases hn : ntriggerEvent sub sc cfg ⟨0, s.nextTag⟩ ev s1 with
  | oof => rw [hn] at h; simp [Res.state?] at h
  | ok b s2 =>
    rw [hn] at h
    simp only [Res.state?, Option.some.injEq] at h; subst h
    exact Step4.wrap (Quiet.refl _) (key s2 (by rw [hn]; rfl)) ⟨[.ret s.nextTag b], rfl, rfl⟩
  | err e s2 =>
    rw [hn] at h
    simp only [Res.state?, Option.some.injEq] at h; subst h
    exact Step4.wrap (Quiet.refl _) (key s2 (by rw [hn]; rfl)) ⟨[.raised s.nextTag e], rfl, rfl⟩

end

end Pass2

/-- on a machine without local declarations, from a configuration without active parallel states, one trigger call
executes at most one transition -/
theorem C03_exec_le_one_of_chain (cfg : NCfg) (sub : NSub) (sc : Script) (hR : NoRaise sc) (hC : NoCmds sc)
    (hq : cfg.queued = false) (hno : cfg.states.noEvents = true)
    (qmax ev : Nat) (s s' : NSt) (hlen : s.conf.len = 1) (hcok : ConfOK cfg.states s.conf = true) (hidle : s.queue = [])
    (hchain : s.conf.isChain = true)
    (h : (napiTrigger sub sc cfg qmax ev s).state? = some s') :
    ∃ seg, s'.glog = s.glog ++ seg ∧ (execRefs seg).length ≤ 1 := by
  obtain ⟨seg, e1, _, hpw⟩ := C03_P1_global_only cfg sub sc hR hC hq hno qmax ev s s' hlen hcok hidle h
  obtain ⟨seg2, e2, hin⟩ := C03_P2_active_at_start cfg sub sc hR hC hq hno qmax ev s s' hlen hcok hidle h
  obtain ⟨seg4, e4, hsome⟩ := Pass2.napiTrigger_step4 sub sc cfg hC hq hno qmax ev s s' hlen hcok hidle h
  have h2 : seg2 = seg := List.append_cancel_left (e2.symm.trans e1)
  have h4 : seg4 = seg := List.append_cancel_left (e4.symm.trans e1)
  subst h2; subst h4
  refine ⟨seg4, e1, ?_⟩
  rw [Pass.execRefs_eq, ← Pass2.execSources_length hsome]
  generalize execSources ((alookup ev cfg.events).getD []) seg4 = l at hpw hin
  match l, hpw, hin with
  | [], _, _ => simp
  | [_], _, _ => simp
  | a :: b :: l, hpw, hin =>
    exfalso
    have h1 : related a b = false := (List.pairwise_cons.mp hpw).1 b (by simp)
    have h2 := Forest.chain_related hchain a (hin a (by simp)) b (hin b (by simp))
    rw [h1] at h2; cases h2


/-! ### what one trigger call returns (P5) on a machine without local declarations -/

namespace Pass2
open Pass

section
variable {ts : List NTrans}

theorem Adds.unique {g1 g2 : List SOffer} {s s' : NSt} (h1 : Adds ts g1 s s') (h2 : Adds ts g2 s s') : g1 = g2 := by
  obtain ⟨a, ea, ra⟩ := h1
  obtain ⟨b, eb, rb⟩ := h2
  have : a = b := List.append_cancel_left (ea.symm.trans eb)
  subst this
  simpa using (ra []).symm.trans (rb [])

theorem Adds.offers {g : List SOffer} {s s' : NSt} (h : Adds ts g s s') {seg : List GEv}
    (e : s'.glog = s.glog ++ seg) : sOffers ts seg [] = g := by
  obtain ⟨a, ea, ra⟩ := h
  have : a = seg := List.append_cancel_left (ea.symm.trans e)
  subst this
  simpa using ra []

/-- the ghost log grows by a segment with at least one offer -/
def NE (ts : List NTrans) (s s' : NSt) : Prop := ∃ g, g ≠ [] ∧ Adds ts g s s'

theorem NE.of_left {g g' : List SOffer} {a b c : NSt} (hne : g ≠ []) (h1 : Adds ts g a b) (h2 : Adds ts g' b c) :
    NE ts a c := ⟨g ++ g', by simp [hne], h1.trans h2⟩

theorem NE.sil_l {a b c : NSt} (h1 : Adds ts [] a b) (h2 : NE ts b c) : NE ts a c := by
  obtain ⟨g, hne, h⟩ := h2
  exact ⟨g, hne, h1.sil_l h⟩

end

section
variable (sub : NSub) (sc : Script) (cfg : NCfg) {ts : List NTrans}

theorem ninvoke_noerr (hR : NoRaise sc) (hC : NoCmds sc) (slot : Slot) (x : Ctx) (c : Nat) (s : NSt) (e : Exc)
    (s' : NSt) : ninvoke sub sc cfg slot x c s ≠ .err e s' := by
  obtain ⟨b, hb⟩ := hR c (s.count c)
  simp only [ninvoke, hC c, nrunCmds, hb]
  intro h; cases h

theorem ncallbacks_noerr (hR : NoRaise sc) (hC : NoCmds sc) (slot : Slot) (x : Ctx) :
    ∀ (cbs : List Nat) (s : NSt) (e : Exc) (s' : NSt), ncallbacks sub sc cfg slot x cbs s ≠ .err e s'
  | [], s, e, s' => by simp [ncallbacks]
  | c :: cs, s, e, s' => by
    unfold ncallbacks
    cases hi : ninvoke sub sc cfg slot x c s with
    | oof => simp [bind_oof]
    | err e1 s1 => exact absurd hi (ninvoke_noerr sub sc cfg hR hC slot x c s e1 s1)
    | ok b s1 => rw [bind_ok]; exact ncallbacks_noerr hR hC slot x cs s1 e s'

/-- an exception out of the candidate loop comes after at least one offer -/
theorem ntry_err_ne (hC : NoCmds sc) (scope : Scope) (x : Ctx) : ∀ (cands : List (TRef × NTrans)) (s : NSt),
    Post (fun _ _ => True) (NE ts s) (ntry sub sc cfg scope x cands s)
  | [], s => trivial
  | (tr, t) :: r, s => by
    unfold ntry
    refine Post.bind (nexecute_post2 (ts := ts) sub sc cfg hC scope x tr t s) ?_ ?_
    · rintro s' ⟨b, hb⟩
      exact ⟨[off ts tr b], by simp, hb⟩
    · intro b s1 hb
      cases b with
      | true => trivial
      | false =>
        simp only [Bool.false_eq_true, if_false]
        have hb' : Adds ts [off ts tr false] s ({ s1 with result := some false } : NSt) :=
          hb.sil_r (Adds.of_glog rfl)
        refine Post.mono (ntry_err_ne hC scope x r _) (fun _ _ _ => trivial) ?_
        rintro s' ⟨g, _, hg⟩
        exact NE.of_left (by simp) hb' hg

theorem nprocess_err_ne (hR : NoRaise sc) (hC : NoCmds sc) (scope : Scope) (x : Ctx) (cands : List (TRef × NTrans))
    (s : NSt) : Post (fun _ _ => True) (NE ts s) (nprocess sub sc cfg scope x cands s) := by
  unfold nprocess
  cases h1 : ncallbacks sub sc cfg .prepareEvent x cfg.prepareEvent s with
  | oof => trivial
  | err e s1 => exact absurd h1 (ncallbacks_noerr sub sc cfg hR hC _ x _ s e s1)
  | ok u s1 =>
    rw [bind_ok]
    have q : Adds ts [] s s1 := ncallbacks_sil sub sc cfg hC _ x _ s s1 (by rw [h1]; rfl)
    exact Post.mono (ntry_err_ne sub sc cfg hC scope x cands s1) (fun _ _ _ => trivial) (fun _ h => NE.sil_l q h)

/-- a pass over registered states either does nothing at all or makes at least one offer -/
theorem tnLoop_idle (hR : NoRaise sc) (hC : NoCmds sc) (scope : Scope) (x : Ctx) (ev : Nat) (ts : List NTrans) :
    ∀ (ps done : List SPath) (s : NSt), (∀ p ∈ ps, (getState cfg.root scope p).isSome = true) →
    Post (fun _ s' => s' = s ∨ NE ts s s') (NE ts s) (tnLoop sub sc cfg scope x ev ts ps done s)
  | [], done, s, _ => Or.inl rfl
  | p :: ps, done, s, hgs => by
    have hgs' : ∀ q ∈ ps, (getState cfg.root scope q).isSome = true := fun q hq => hgs q (List.mem_cons_of_mem _ hq)
    unfold tnLoop
    simp only []
    split
    · exact tnLoop_idle hR hC scope x ev ts ps done s hgs'
    · rename_i hcond
      have hcne : ncandidates scope.pre ev ts p ≠ [] := by
        intro h; apply hcond; right; left; rw [h]; rfl
      split
      · rename_i hnone
        have := hgs p (by simp)
        rw [hnone] at this; cases this
      · have hpost := nprocess_post2 (ts := ts) sub sc cfg hC scope x p _ s ncandidates_ok
          (ncandidates_sorted _ _ _ _) hcne
        have herr := nprocess_err_ne (ts := ts) sub sc cfg hR hC scope x (ncandidates scope.pre ev ts p) s
        cases hn : nprocess sub sc cfg scope x (ncandidates scope.pre ev ts p) s with
        | oof => trivial
        | err e s1 => rw [hn] at herr; exact herr
        | ok u s1 =>
          rw [hn] at hpost
          obtain ⟨g, ha, _, ⟨o, hl, _⟩, _⟩ := hpost
          have hne : g ≠ [] := by intro h; rw [h] at hl; cases hl
          rw [bind_ok]
          refine Post.mono (tnLoop_idle hR hC scope x ev ts ps _ s1 hgs') ?_ ?_
          · rintro _ s' (rfl | ⟨g', _, hg'⟩)
            · exact Or.inr ⟨g, hne, ha⟩
            · exact Or.inr (NE.of_left hne ha hg')
          · rintro s' ⟨g', _, hg'⟩
            exact NE.of_left hne ha hg'

/-- outcome of a pass / of `_trigger_event_nested` that ended normally -/
def PassOk (ts : List NTrans) (s : NSt) (tmp : Option Bool) (s' : NSt) : Prop :=
  ∃ offs, Adds ts offs s s' ∧ (offs ≠ [] → tmp = some (offs.any (·.executed))) ∧
    (offs = [] → tmp = none ∧ s' = s)

theorem triggerNested_p5 (hR : NoRaise sc) (hC : NoCmds sc) (x : Ctx) (ev : Nat) (ts : List NTrans) (s : NSt)
    (hcok : ConfOK cfg.states s.conf = true) (hres0 : s.result = none) :
    Post (PassOk ts s) (NE ts s) (triggerNested sub sc cfg cfg.root x ev ts s) := by
  unfold triggerNested
  have hrg : s.conf.reduceGet cfg.root.pre = .ok (some s.conf) := by
    show s.conf.reduceGet [] = _
    simp [Forest.reduceGet]
  rw [hrg]
  simp only []
  cases hro : resolveOrder s.conf with
  | none => trivial
  | some order =>
    simp only []
    have hperm := resolveOrder_perm hro
    have hgs : ∀ p ∈ order, (getState cfg.root cfg.root p).isSome = true := by
      intro p hp
      obtain ⟨d, kids, hw, _⟩ := ConfOK_walk hcok (hperm.mem_iff.mp hp)
      have hw' : cfg.root.states.walk p = some (d, kids) := hw
      simp [getState, hw']
    refine Post.bind (Post.and (tnLoop_main sub sc cfg hC cfg.root x ev ts order [] s)
      (tnLoop_idle sub sc cfg hR hC cfg.root x ev ts order [] s hgs)) (fun _ h => h.2) ?_
    rintro dn s1 ⟨⟨offs, ha, _, _, _, hres, ⟨ext, hdn, hext⟩, _⟩, hidle⟩
    rw [List.nil_append] at hdn
    subst hdn
    have hnil : offs = [] → s1 = s := by
      intro ho
      rcases hidle with h | ⟨g, hne, hg⟩
      · exact h
      · have := hg.unique ha
        rw [ho] at this
        exact absurd this hne
    cases hd : dn.isEmpty with
    | true =>
      have hany := hext.mp (List.isEmpty_iff.mp hd)
      simp only [if_true]
      refine ⟨offs, ha, ?_, ?_⟩
      · intro hne
        show s1.result = _
        rw [hres, hany]
        cases hl : offs.getLast? with
        | none => exact absurd (List.getLast?_eq_none_iff.mp hl) hne
        | some o =>
          have := (List.any_eq_false.mp hany) o (List.mem_of_getLast? hl)
          simp only [Bool.not_eq_true] at this
          simp only [this]
      · intro ho
        refine ⟨?_, hnil ho⟩
        show s1.result = none
        rw [hres, ho]; exact hres0
    | false =>
      have hany : offs.any (·.executed) = true := by
        cases h : offs.any (·.executed) with
        | true => rfl
        | false =>
          have := hext.mpr h
          rw [this] at hd; cases hd
      simp only [Bool.false_eq_true, if_false]
      refine ⟨offs, ha.sil_r (Adds.of_glog rfl), ?_, ?_⟩
      · intro _; rw [hany]
      · intro ho; rw [ho] at hany; cases hany

theorem ten_p5 (hR : NoRaise sc) (hC : NoCmds sc) (x : Ctx) (ev : Nat) (hno : cfg.states.noEvents = true) (s : NSt)
    (hlen : s.conf.len = 1) (hcok : ConfOK cfg.states s.conf = true) (hres0 : s.result = none) :
    Post (fun r s' => PassOk ((alookup ev cfg.events).getD []) s (summarize r) s')
      (NE ((alookup ev cfg.events).getD []) s) (ten sub sc cfg x ev cfg.root s.conf [] false s) := by
  obtain ⟨k, v, hkv⟩ := Forest.len_one hlen
  rw [hkv, ten_global_only cfg sub sc x ev hno k v (hkv ▸ hcok) s]
  cases hal : alookup ev cfg.events with
  | none =>
    exact ⟨[], Adds.refl s, by simp, fun _ => ⟨by simp [summarize], rfl⟩⟩
  | some ts =>
    simp only [Option.getD_some]
    refine Post.bind (triggerNested_p5 sub sc cfg hR hC x ev ts s hcok hres0) (fun _ h => h) ?_
    intro tmp s2 h
    show PassOk ts s (summarize _) s2
    cases tmp <;> simpa [summarize] using h

/-- outcome of the `try:` part, normal end -/
def BodyOk (cfg : NCfg) (ev : Nat) (ts : List NTrans) (s : NSt) (b : Bool) (s' : NSt) : Prop :=
  ∃ offs, Adds ts offs s s' ∧ (offs ≠ [] → b = offs.any (·.executed)) ∧
    (offs = [] → cerLoop cfg ev (buildStateList [] s.conf).flat = .ok b ∧ s'.conf = s.conf)

/-- outcome of the `try:` part, exception -/
def BodyErr (cfg : NCfg) (ev : Nat) (ts : List NTrans) (s : NSt) (e : Exc) (s' : NSt) : Prop :=
  ∃ offs, Adds ts offs s s' ∧
    (offs = [] → cerLoop cfg ev (buildStateList [] s.conf).flat = .err e ∧ s'.conf = s.conf)

theorem triggerEventBody_p5 (hR : NoRaise sc) (hC : NoCmds sc) (x : Ctx) (ev : Nat) (hno : cfg.states.noEvents = true)
    (s : NSt) (hlen : s.conf.len = 1) (hcok : ConfOK cfg.states s.conf = true) (hres0 : s.result = none) :
    (∀ b s', triggerEventBody sub sc cfg x ev s = .ok b s' → BodyOk cfg ev ((alookup ev cfg.events).getD []) s b s') ∧
    (∀ e s', triggerEventBody sub sc cfg x ev s = .err e s' → BodyErr cfg ev ((alookup ev cfg.events).getD []) s e s') := by
  have hten := ten_p5 sub sc cfg hR hC x ev hno s hlen hcok hres0
  unfold triggerEventBody
  cases ht : ten sub sc cfg x ev cfg.root s.conf [] false s with
  | oof => constructor <;> intro _ _ h <;> simp [bind_oof] at h
  | err e1 s1 =>
    rw [ht] at hten
    obtain ⟨g, hne, hg⟩ := hten
    constructor
    · intro _ _ h; simp [bind_err] at h
    · intro e s' h
      simp only [bind_err, Res.err.injEq] at h
      obtain ⟨rfl, rfl⟩ := h
      exact ⟨g, hg, fun h => absurd h hne⟩
  | ok r s1 =>
    rw [ht] at hten
    obtain ⟨offs, ha, h1, h2⟩ := hten
    rw [bind_ok]
    by_cases hoffs : offs = []
    · obtain ⟨hs, rfl⟩ := h2 hoffs
      subst hoffs
      rw [hs]
      simp only [checkEventResult]
      cases hcer : cerLoop cfg ev (buildStateList [] s1.conf).flat with
      | oof => constructor <;> intro _ _ h <;> simp [bind_oof] at h
      | ok b1 =>
        simp only [bind_ok]
        constructor
        · intro b s' h
          simp only [Res.ok.injEq] at h
          obtain ⟨rfl, rfl⟩ := h
          exact ⟨[], Adds.of_glog rfl, by simp, fun _ => ⟨hcer, rfl⟩⟩
        · intro e s' h; cases h
      | err e1 =>
        simp only [bind_err]
        constructor
        · intro b s' h; cases h
        · intro e s' h
          simp only [Res.err.injEq] at h
          obtain ⟨rfl, rfl⟩ := h
          exact ⟨[], Adds.refl _, fun _ => ⟨hcer, rfl⟩⟩
    · have hs := h1 hoffs
      rw [hs]
      simp only [checkEventResult, bind_ok]
      constructor
      · intro b s' h
        simp only [Res.ok.injEq] at h
        obtain ⟨rfl, rfl⟩ := h
        exact ⟨offs, ha.sil_r (Adds.of_glog rfl), fun _ => rfl, fun hn => absurd hn hoffs⟩
      · intro e s' h; cases h

theorem nfinalize_sil (hC : NoCmds sc) (x : Ctx) (s s' : NSt) (h : nfinalize sub sc cfg x s = some s') :
    Adds ts [] s s' ∧ s'.conf = s.conf := by
  unfold nfinalize at h
  have h0 : Adds ts [] s (s.emitG (.fin x.tag (confMask cfg s.conf))) :=
    Adds.emitG s _ (by intro tr h; cases h) (by intro tr h; cases h)
  split at h
  · rename_i u s1 hc; cases h
    have hv := ncallbacks_view sub sc cfg hC _ x _ _ s' (by rw [hc]; rfl)
    exact ⟨h0.sil_r (Adds.of_view hv), congrArg View.conf hv⟩
  · rename_i e s1 hc; cases h
    have hv := ncallbacks_view sub sc cfg hC _ x _ _ s' (by rw [hc]; rfl)
    exact ⟨h0.sil_r (Adds.of_view hv), congrArg View.conf hv⟩
  · cases h

/-- without `on_exception` handlers `_trigger_event` passes the outcome of its `try:` part on, after `finally:` -/
theorem ntriggerEvent_p5 (hC : NoCmds sc) (hex : cfg.onException = []) (x : Ctx) (ev : Nat) (s : NSt) :
    (∀ b s'', ntriggerEvent sub sc cfg x ev s = .ok b s'' →
      ∃ s', triggerEventBody sub sc cfg x ev { s with result := none, exited := [] } = .ok b s' ∧ Adds ts [] s' s'' ∧
        s''.conf = s'.conf) ∧
    (∀ e s'', ntriggerEvent sub sc cfg x ev s = .err e s'' →
      ∃ s', triggerEventBody sub sc cfg x ev { s with result := none, exited := [] } = .err e s' ∧ Adds ts [] s' s'' ∧
        s''.conf = s'.conf) := by
  unfold ntriggerEvent
  simp only [hex]
  cases hb : triggerEventBody sub sc cfg x ev { s with result := none, exited := [] } with
  | oof => constructor <;> intro _ _ h <;> cases h
  | ok b1 s1 =>
    simp only []
    cases hf : nfinalize sub sc cfg x s1 with
    | none => constructor <;> intro _ _ h <;> cases h
    | some s2 =>
      obtain ⟨q, hc⟩ := nfinalize_sil (ts := ts) sub sc cfg hC x s1 s2 hf
      constructor
      · intro b s'' h
        simp only [Res.ok.injEq] at h
        obtain ⟨rfl, rfl⟩ := h
        exact ⟨s1, rfl, q, hc⟩
      · intro _ _ h; cases h
  | err e1 s1 =>
    simp only []
    cases hf : nfinalize sub sc cfg x s1 with
    | none => constructor <;> intro _ _ h <;> cases h
    | some s2 =>
      obtain ⟨q, hc⟩ := nfinalize_sil (ts := ts) sub sc cfg hC x s1 s2 hf
      constructor
      · intro _ _ h; cases h
      · intro e s'' h
        simp only [Res.err.injEq] at h
        obtain ⟨rfl, rfl⟩ := h
        exact ⟨s1, rfl, q, hc⟩

end

section
variable (sub : NSub) (sc : Script) (cfg : NCfg)

theorem napiTrigger_p5 (hR : NoRaise sc) (hC : NoCmds sc)
    (hq : cfg.queued = false) (hno : cfg.states.noEvents = true) (hex : cfg.onException = [])
    (qmax ev : Nat) (s : NSt) (hlen : s.conf.len = 1) (hcok : ConfOK cfg.states s.conf = true) (hidle : s.queue = []) :
    (∀ b s', napiTrigger sub sc cfg qmax ev s = .ok b s' → BodyOk cfg ev ((alookup ev cfg.events).getD []) s b s') ∧
    (∀ e s', napiTrigger sub sc cfg qmax ev s = .err e s' → BodyErr cfg ev ((alookup ev cfg.events).getD []) s e s') := by
  generalize hts : (alookup ev cfg.events).getD [] = ts
  unfold napiTrigger
  simp only []
  generalize hs1 : ((({ s with nextTag := s.nextTag + 1 } : NSt).emit (.api 0 s.nextTag 0 ev)).emitG
      (.api s.nextTag ev)) = s1
  have q01 : Adds ts [] s s1 := by
    subst hs1; exact ⟨[.api s.nextTag ev], rfl, by intro acc; simp [sOffers]⟩
  have hconf : s1.conf = s.conf := by subst hs1; rfl
  have hqueue : s1.queue = [] := by subst hs1; exact hidle
  have hmp : nmachineProcess sub sc cfg qmax ev s.nextTag s1 = ntriggerEvent sub sc cfg ⟨0, s.nextTag⟩ ev s1 := by
    simp [nmachineProcess, hq, hqueue]
  rw [hmp]
  have hconf0 : ({ s1 with result := none, exited := [] } : NSt).conf = s.conf := hconf
  have hbody := triggerEventBody_p5 sub sc cfg hR hC ⟨0, s.nextTag⟩ ev hno { s1 with result := none, exited := [] }
    (by rw [hconf0]; exact hlen) (by rw [hconf0]; exact hcok) rfl
  rw [hts] at hbody
  have hte := ntriggerEvent_p5 (ts := ts) sub sc cfg hC hex ⟨0, s.nextTag⟩ ev s1
  have q10 : Adds ts [] s ({ s1 with result := none, exited := [] } : NSt) := q01.sil_r (Adds.of_glog rfl)
  cases hn : ntriggerEvent sub sc cfg ⟨0, s.nextTag⟩ ev s1 with
  | oof => constructor <;> intro _ _ h <;> cases h
  | ok b2 s2 =>
    simp only []
    constructor
    · intro b s' h
      simp only [Res.ok.injEq] at h
      obtain ⟨rfl, rfl⟩ := h
      obtain ⟨sb, hb, q, hc⟩ := hte.1 b2 s2 hn
      obtain ⟨offs, ha, h1, h2⟩ := hbody.1 b2 sb hb
      have qr : Adds ts [] s2 ({ ((s2.emit (.ret s.nextTag b2)).emitG (.ret s.nextTag b2)) with
          result := s.result, exited := s.exited } : NSt) :=
        ⟨[.ret s.nextTag b2], rfl, by intro acc; simp [sOffers]⟩
      refine ⟨offs, ((q10.sil_l ha).sil_r q).sil_r qr, h1, ?_⟩
      intro hl
      obtain ⟨c1, c2⟩ := h2 hl
      rw [hconf0] at c1 c2
      exact ⟨c1, show s2.conf = s.conf from hc.trans c2⟩
    · intro _ _ h; cases h
  | err e2 s2 =>
    simp only []
    constructor
    · intro _ _ h; cases h
    · intro e s' h
      simp only [Res.err.injEq] at h
      obtain ⟨rfl, rfl⟩ := h
      obtain ⟨sb, hb, q, hc⟩ := hte.2 e2 s2 hn
      obtain ⟨offs, ha, h2⟩ := hbody.2 e2 sb hb
      have qr : Adds ts [] s2 ({ ((s2.emit (.raised s.nextTag e2)).emitG (.raised s.nextTag e2)) with
          result := s.result, exited := s.exited } : NSt) :=
        ⟨[.raised s.nextTag e2], rfl, by intro acc; simp [sOffers]⟩
      refine ⟨offs, ((q10.sil_l ha).sil_r q).sil_r qr, ?_⟩
      intro hl
      obtain ⟨c1, c2⟩ := h2 hl
      rw [hconf0] at c1 c2
      exact ⟨c1, show s2.conf = s.conf from hc.trans c2⟩

end

end Pass2

/-- **P5 for machine-level declarations**: what one trigger call on an unqueued machine returns.  If the event was
offered to some state, the call returns True iff some transition executed; if it was offered to nobody, the outcome
is what `_check_event_result` decides from the (flattened) state value (`cerLoop`): False / MachineError /
AttributeError -/
theorem C03_P5_global_only (cfg : NCfg) (sub : NSub) (sc : Script) (hR : NoRaise sc) (hC : NoCmds sc)
    (hq : cfg.queued = false) (hno : cfg.states.noEvents = true) (hex : cfg.onException = [])
    (qmax ev : Nat) (s : NSt) (hlen : s.conf.len = 1) (hcok : ConfOK cfg.states s.conf = true) (hidle : s.queue = []) :
    (∀ b s', napiTrigger sub sc cfg qmax ev s = .ok b s' →
      ∃ seg, s'.glog = s.glog ++ seg ∧
        (if (sOffers ((alookup ev cfg.events).getD []) seg []) = [] then
           cerLoop cfg ev (buildStateList [] s.conf).flat = .ok b ∧ s'.conf = s.conf
         else b = (sOffers ((alookup ev cfg.events).getD []) seg []).any (·.executed))) ∧
    (∀ e s', napiTrigger sub sc cfg qmax ev s = .err e s' →
      ∃ seg, s'.glog = s.glog ++ seg ∧
        ((sOffers ((alookup ev cfg.events).getD []) seg []) = [] →
          cerLoop cfg ev (buildStateList [] s.conf).flat = .err e ∧ s'.conf = s.conf)) := by
  obtain ⟨hok, herr⟩ := Pass2.napiTrigger_p5 sub sc cfg hR hC hq hno hex qmax ev s hlen hcok hidle
  constructor
  · intro b s' h
    obtain ⟨offs, ⟨seg, e1, hs⟩, h1, h2⟩ := hok b s' h
    refine ⟨seg, e1, ?_⟩
    rw [hs [], List.nil_append]
    by_cases ho : offs = []
    · rw [if_pos ho]; exact h2 ho
    · rw [if_neg ho]; exact h1 ho
  · intro e s' h
    obtain ⟨offs, ⟨seg, e1, hs⟩, h2⟩ := herr e s' h
    refine ⟨seg, e1, ?_⟩
    rw [hs [], List.nil_append]
    exact h2

end TM
