/-
  Proofs/C03Pass2.lean — one pass of `NestedEvent.trigger_nested`, continued: P3 (innermost first, nothing of the same
  state or an ancestor after an execution, completeness) and the value the pass returns (P5), on the sequence of
  offers read off the ghost segment; and, for machines whose transitions are all declared on the machine, the first
  half of P2: every executed source was active when the event began.
-/
import Proofs.C03Pass

namespace TM
open C02 C03

/-- an offer of a transition of the list `ts` as far as the ghost log shows it: source, index, executed? -/
structure SOffer where
  src : SPath
  idx : Nat
  executed : Bool
  deriving DecidableEq, Repr

/-- the offers of a ghost segment in order: `cand t` opens one, `exec t` marks the last one executed -/
def sOffers (ts : List NTrans) : List GEv → List SOffer → List SOffer
  | [], acc => acc
  | .cand tr :: l, acc => sOffers ts l (acc ++ [⟨((ts[tr.idx]?).map (·.source)).getD [], tr.idx, false⟩])
  | .exec _ :: l, acc =>
    sOffers ts l (match acc.getLast? with
      | some o => acc.dropLast ++ [{ o with executed := true }]
      | none => acc)
  | _ :: l, acc => sOffers ts l acc

/-- P3, "after": no candidate of the same state or of an ancestor is offered after a transition executed -/
def sAfter (offs : List SOffer) : Bool := (pairs offs).all fun e => !(e.1.executed && isPrefix e.2.src e.1.src)

/-- P3, "order": no state is offered before one of its descendants; candidates of one state in definition order -/
def sOrder (offs : List SOffer) : Bool :=
  (pairs offs).all fun e => !properPrefix e.1.src e.2.src && !(e.1.src == e.2.src && e.1.idx ≥ e.2.idx)

/-- **P3 for one pass**: over any duplicate-free list in `resolve_order` shape (no state before a descendant) -/
theorem tnLoop_p3 (cfg : NCfg) (sub : NSub) (sc : Script) (hR : NoRaise sc) (hC : NoCmds sc)
    (scope : Scope) (x : Ctx) (ev : Nat) (ts : List NTrans) :
    ∀ (ps done : List SPath) (s s' : NSt),
    ps.Pairwise (fun a b => properPrefix a b = false) → ps.Nodup →
    (tnLoop sub sc cfg scope x ev ts ps done s).state? = some s' →
    ∃ seg, s'.glog = s.glog ++ seg ∧ sAfter (sOffers ts seg []) = true ∧ sOrder (sOffers ts seg []) = true := by
  sorry

/-- **completeness of one pass** that ends normally: every listed state that has candidates and is not in the
`done` set it started with was offered, unless a transition of that state or of a descendant executed in this pass -/
theorem tnLoop_complete (cfg : NCfg) (sub : NSub) (sc : Script) (hR : NoRaise sc) (hC : NoCmds sc)
    (scope : Scope) (x : Ctx) (ev : Nat) (ts : List NTrans) :
    ∀ (ps done : List SPath) (s s' : NSt),
    tnLoop sub sc cfg scope x ev ts ps done s = .ok () s' →
    ∃ seg, s'.glog = s.glog ++ seg ∧
      ∀ p ∈ ps, p ∉ done → (ncandidates scope.pre ev ts p).isEmpty = false →
        (∃ o ∈ sOffers ts seg [], o.src = p) ∨ (∃ o ∈ sOffers ts seg [], o.executed = true ∧ isPrefix p o.src = true) := by
  sorry

/-- **what the pass returns** (`event_data.result`): the outcome of the LAST state that was offered — `some true` iff
its last candidate executed — and the old value if nothing was offered.  Hence "True iff some transition executed"
holds exactly when no state is offered and blocked after an execution. -/
theorem tnLoop_result (cfg : NCfg) (sub : NSub) (sc : Script) (hR : NoRaise sc) (hC : NoCmds sc)
    (scope : Scope) (x : Ctx) (ev : Nat) (ts : List NTrans) :
    ∀ (ps done : List SPath) (s s' : NSt),
    tnLoop sub sc cfg scope x ev ts ps done s = .ok () s' →
    ∃ seg, s'.glog = s.glog ++ seg ∧
      s'.result = (match (sOffers ts seg []).getLast? with
        | some o => some o.executed
        | none => s.result) := by
  sorry

/-- **first half of P2 for machine-level declarations**: while one trigger call is processed on a machine without
local declarations, every transition executes from a state that was active when the event began -/
theorem C03_P2_active_at_start (cfg : NCfg) (sub : NSub) (sc : Script) (hR : NoRaise sc) (hC : NoCmds sc)
    (hq : cfg.queued = false) (hno : cfg.states.noEvents = true)
    (qmax ev : Nat) (s s' : NSt) (hlen : s.conf.len = 1) (hcok : ConfOK cfg.states s.conf = true) (hidle : s.queue = [])
    (h : (napiTrigger sub sc cfg qmax ev s).state? = some s') :
    ∃ seg, s'.glog = s.glog ++ seg ∧
      ∀ p ∈ execSources ((alookup ev cfg.events).getD []) seg, p ∈ s.conf.nodes := by
  sorry

end TM
