/-
  Proofs/C05ANR.lean — the async engine (`Model/Async.lean`, any queue mode) never logs a `remove_model` call:
  every trace segment it appends satisfies `C05F.NoRemove` (instance of the skeleton `Proofs/C05AGen.lean` with the
  acceptor "no `api 3` item").  Needed to apply `C05_idle_obsC07_gen` (Proofs/C05Filter.lean) to async traces.
-/
import Proofs.C05AGen
import Proofs.C05Filter

namespace TM
namespace A5
open N5 (Acc)
open C05F (NoRemove)

theorem noRemove_nil : NoRemove [] := by intro i hi; cases hi

theorem noRemove_append {a b : List Item} (ha : NoRemove a) (hb : NoRemove b) : NoRemove (a ++ b) := by
  intro i hi
  rcases List.mem_append.mp hi with h | h
  · exact ha i h
  · exact hb i h

theorem noRemove_single (i : Item) (h : ∀ t m e, i ≠ .api 3 t m e) : NoRemove [i] := by
  intro j hj
  simp only [List.mem_singleton] at hj
  subst hj
  exact h

def accNR : Acc Unit := ⟨fun _ seg _ => NoRemove seg, fun _ => noRemove_nil, fun h1 h2 => noRemove_append h1 h2⟩

/-- every completed run of `r` appends a segment without remove_model calls to the log `l` -/
def NRRes {α} (r : R α) (l : List Item) : Prop := ∀ s', r.state? = some s' → ∃ seg, s'.log = l ++ seg ∧ NoRemove seg

theorem NRRes.of_post {α} {P P' : Unit → St → Prop} {r : R α} {l : List Item} (h : APost accNR P P' () l r) :
    NRRes r l := by
  intro s' hs
  cases r with
  | oof => simp [Res.state?] at hs
  | ok a s1 =>
    simp only [Res.state?, Option.some.injEq] at hs; subst hs
    obtain ⟨_, seg, l1, a1, _⟩ := h; exact ⟨seg, l1, a1⟩
  | err e s1 =>
    simp only [Res.state?, Option.some.injEq] at hs; subst hs
    obtain ⟨_, seg, l1, a1, _⟩ := h; exact ⟨seg, l1, a1⟩

theorem NRRes.to_post {α} {r : R α} {l : List Item} (h : NRRes r l) :
    APost accNR (fun _ _ => True) (fun _ _ => True) () l r := by
  cases r with
  | oof => trivial
  | ok a s1 => obtain ⟨seg, l1, a1⟩ := h s1 rfl; exact ⟨(), seg, l1, a1, trivial⟩
  | err e s1 => obtain ⟨seg, l1, a1⟩ := h s1 rfl; exact ⟨(), seg, l1, a1, trivial⟩

def SubNR (sub : Sub) : Prop := ∀ c s, NRRes (sub c s) s.log

def blockNR (sub : Sub) (hsub : SubNR sub) (x : Ctx) : Block accNR sub x where
  Blk := fun _ _ => True
  Syn := fun _ _ _ => True
  Any := fun _ _ => True
  toBlk := fun _ => trivial
  blkAny := fun _ => trivial
  synAny := fun _ => trivial
  blkFrame := fun _ _ _ => trivial
  synFrame := fun _ _ _ => trivial
  callBlk := fun _ _ _ _ _ => ⟨(), noRemove_single _ (by intro t m e h; cases h), trivial⟩
  done := fun _ _ _ => noRemove_single _ (by intro t m e h; cases h)
  sub := fun _ c _ s _ => (hsub c s).to_post

theorem eventTrigger_nr (sub : Sub) (hsub : SubNR sub) (sc : Script) (kd : Async.Kinds) (cfg : Cfg) (ts : List Trans)
    (x : Ctx) (s : St) : NRRes (Async.eventTrigger sub sc kd cfg ts x s) s.log := by
  refine NRRes.of_post (eventTrigger_post (blockNR sub hsub x) sc kd cfg ?_ ts () s trivial)
  intro _ s1 _
  unfold Async.callbacks
  refine APost.map _ ?_
  refine gather_of_startAll (blockNR sub hsub x) sc kd (fun _ _ => True) (fun _ _ _ => trivial) _ () s1 ?_
  exact startAll_syn (blockNR sub hsub x) sc kd true _
    (fun _ _ _ _ _ _ => ⟨(), noRemove_single _ (by intro t m e h; cases h), trivial⟩) () s1 trivial

theorem drain_nr (sub : Sub) (hsub : SubNR sub) (sc : Script) (kd : Async.Kinds) (cfg : Cfg) (qm m : Nat) :
    ∀ (n : Nat) (s : St), NRRes (Async.drain sub sc kd cfg qm m n s) s.log
  | 0, s => by intro s' h; simp [Async.drain, Res.state?] at h
  | n + 1, s => by
    intro s' h
    unfold Async.drain at h
    cases hq : Async.qOf qm m s.queue with
    | nil => simp only [hq, Res.state?, Option.some.injEq] at h; subst h; exact ⟨[], by simp, noRemove_nil⟩
    | cons e0 r0 =>
      obtain ⟨m', ev, tag⟩ := e0
      simp only [hq] at h
      have hg := eventTrigger_nr sub hsub sc kd cfg ((cfg.event? ev).getD []) ⟨m', tag⟩ s
      cases hr : Async.eventTrigger sub sc kd cfg ((cfg.event? ev).getD []) ⟨m', tag⟩ s with
      | oof => simp [hr, Res.state?] at h
      | err e s1 =>
        simp only [hr, Res.state?, Option.some.injEq] at h; subst h
        exact hg s1 (by simp [hr, Res.state?])
      | ok b s1 =>
        simp only [hr] at h
        obtain ⟨g1, hg1, n1⟩ := hg s1 (by simp [hr, Res.state?])
        obtain ⟨g2, hg2, n2⟩ := drain_nr sub hsub sc kd cfg qm m n { s1 with queue := Async.qPop qm m s1.queue } s' h
        exact ⟨g1 ++ g2, by rw [hg2]; show s1.log ++ g2 = _; rw [hg1, List.append_assoc], noRemove_append n1 n2⟩

theorem apiTrigger_nr (sub : Sub) (hsub : SubNR sub) (sc : Script) (kd : Async.Kinds) (cfg : Cfg) (qm qmax m ev : Nat)
    (s : St) : NRRes (Async.apiTrigger sub sc kd cfg qm qmax m ev s) s.log := by
  -- the body only appends segments without remove_model calls …
  have hbody : ∀ s1 : St, NRRes (Async.triggerByName sub sc kd cfg qm qmax m ev s.nextTag s1) s1.log := by
    intro s1 s' h
    unfold Async.triggerByName at h
    split at h
    · simp only [Res.state?, Option.some.injEq] at h; subst h; exact ⟨[], by simp, noRemove_nil⟩
    · split at h
      · unfold Async.machineProcess at h
        simp only [] at h
        split at h
        · split at h
          · exact eventTrigger_nr sub hsub sc kd cfg _ _ s1 s' h
          · simp only [Res.state?, Option.some.injEq] at h; subst h; exact ⟨[], by simp, noRemove_nil⟩
        · split at h
          · simp only [Res.state?, Option.some.injEq] at h; subst h; exact ⟨[], by simp, noRemove_nil⟩
          · have hd := drain_nr sub hsub sc kd cfg qm m qmax { s1 with queue := s1.queue ++ [(m, ev, s.nextTag)] }
            cases hr : Async.drain sub sc kd cfg qm m qmax { s1 with queue := s1.queue ++ [(m, ev, s.nextTag)] } with
            | oof => simp [hr, Res.bind, Res.state?] at h
            | ok u s2 =>
              simp only [hr, Res.bind, Res.state?, Option.some.injEq] at h; subst h
              exact hd s2 (by simp [hr, Res.state?])
            | err e s2 =>
              simp only [hr, Res.bind, Res.state?, Option.some.injEq] at h; subst h
              exact hd s2 (by simp [hr, Res.state?])
      · simp only [] at h
        split at h
        · simp only [Res.state?, Option.some.injEq] at h; subst h; exact ⟨[], by simp, noRemove_nil⟩
        · split at h <;>
          (simp only [Res.state?, Option.some.injEq] at h; subst h; exact ⟨[], by simp, noRemove_nil⟩)
  -- … and the wrapper adds the `api 0` item and the outcome item
  intro s' h
  unfold Async.apiTrigger at h
  simp only [] at h
  have hb := hbody (({ s with nextTag := s.nextTag + 1 } : St).emit (.api 0 s.nextTag m ev))
  have hapi : NoRemove [Item.api 0 s.nextTag m ev] := noRemove_single _ (by intro t m e h; cases h)
  cases hr : Async.triggerByName sub sc kd cfg qm qmax m ev s.nextTag
      (({ s with nextTag := s.nextTag + 1 } : St).emit (.api 0 s.nextTag m ev)) with
  | oof => simp [hr, Res.state?] at h
  | ok b s1 =>
    simp only [hr, Res.state?, Option.some.injEq] at h; subst h
    obtain ⟨g, hg, ng⟩ := hb s1 (by simp [hr, Res.state?])
    exact ⟨[.api 0 s.nextTag m ev] ++ g ++ [.ret s.nextTag b], by simp [St.emit, hg],
      noRemove_append (noRemove_append hapi ng) (noRemove_single _ (by intro t m e h; cases h))⟩
  | err e s1 =>
    simp only [hr, Res.state?, Option.some.injEq] at h; subst h
    obtain ⟨g, hg, ng⟩ := hb s1 (by simp [hr, Res.state?])
    exact ⟨[.api 0 s.nextTag m ev] ++ g ++ [.raised s.nextTag e], by simp [St.emit, hg],
      noRemove_append (noRemove_append hapi ng) (noRemove_single _ (by intro t m e h; cases h))⟩

theorem runCmd_nr (sc : Script) (kd : Async.Kinds) (cfg : Cfg) (qm qmax : Nat) :
    ∀ f, SubNR (Async.runCmd sc kd cfg qm qmax f)
  | 0 => by intro c s s' h; simp [Async.runCmd, Res.state?] at h
  | f + 1 => by
    intro c s s' h
    cases c with
    | trigger m ev =>
      have h' : (Async.apiTrigger (Async.runCmd sc kd cfg qm qmax f) sc kd cfg qm qmax m ev s).state? = some s' := by
        have : Async.runCmd sc kd cfg qm qmax (f + 1) (.trigger m ev) s =
          (Async.apiTrigger (Async.runCmd sc kd cfg qm qmax f) sc kd cfg qm qmax m ev s).map fun _ => () := rfl
        rw [this] at h
        cases hr : Async.apiTrigger (Async.runCmd sc kd cfg qm qmax f) sc kd cfg qm qmax m ev s <;>
          simp [hr, Res.map, Res.state?] at h ⊢ <;> exact h
      exact apiTrigger_nr _ (runCmd_nr sc kd cfg qm qmax f) sc kd cfg qm qmax m ev s s' h'
    | removeModel _ => simp [Async.runCmd, Res.state?] at h
    | addModel _ => simp [Async.runCmd, Res.state?] at h
    | dispatch _ => simp [Async.runCmd, Res.state?] at h
    | may _ _ => simp [Async.runCmd, Res.state?] at h

/-- the trace of a whole async history contains no remove_model call -/
theorem runHistory_nr (sc : Script) (kd : Async.Kinds) (cfg : Cfg) (qm qmax fuel : Nat) :
    ∀ (h : List Cmd) (s s' : St), Async.runHistory sc kd cfg qm qmax fuel h s = some s' →
      ∃ seg, s'.log = s.log ++ seg ∧ NoRemove seg
  | [], s, s', hs => by
    simp only [Async.runHistory, Option.some.injEq] at hs; subst hs; exact ⟨[], by simp, noRemove_nil⟩
  | c :: cs, s, s', hs => by
    simp only [Async.runHistory] at hs
    have h1 := runCmd_nr sc kd cfg qm qmax fuel c s
    cases hr : Async.runCmd sc kd cfg qm qmax fuel c s with
    | oof => simp [hr] at hs
    | ok u s1 =>
      simp only [hr] at hs
      obtain ⟨g1, hg1, n1⟩ := h1 s1 (by simp [hr, Res.state?])
      obtain ⟨g2, hg2, n2⟩ := runHistory_nr sc kd cfg qm qmax fuel cs s1 s' hs
      exact ⟨g1 ++ g2, by rw [hg2, hg1, List.append_assoc], noRemove_append n1 n2⟩
    | err e s1 =>
      simp only [hr] at hs
      obtain ⟨g1, hg1, n1⟩ := h1 s1 (by simp [hr, Res.state?])
      obtain ⟨g2, hg2, n2⟩ := runHistory_nr sc kd cfg qm qmax fuel cs s1 s' hs
      exact ⟨g1 ++ g2, by rw [hg2, hg1, List.append_assoc], noRemove_append n1 n2⟩

end A5
end TM
