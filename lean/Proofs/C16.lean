/-
  Proofs/C16.lean — lemmas for property C16 (diagrams): state trees, edge grouping, style bookkeeping.
-/
import Model.Diagram

namespace TM
namespace Diagram

/-! ### declared names = paths of the tree -/

mutual
theorem dnames_render (o : Opts) (st : Styles) (pre : Path) :
    ∀ s, dnames (renderState o st pre s) = paths pre s
  | .mk name label final enter exit init block kids trans => by
    cases block
    · simp [renderState, dnames, paths, dnamesL]
    · simp [renderState, dnames, paths, dnamesL_render o st (pre ++ [name]) kids]
theorem dnamesL_render (o : Opts) (st : Styles) (pre : Path) :
    ∀ l, dnamesL (renderList o st pre l) = pathsL pre l
  | [] => by simp [renderList, dnamesL, pathsL]
  | s :: r => by
    simp [renderList, dnamesL, pathsL, dnames_render o st pre s, dnamesL_render o st pre r]
end

mutual
theorem paths_shape (pre : Path) : ∀ s p, p ∈ paths pre s → ∃ rest, p = pre ++ s.name :: rest
  | .mk name label final enter exit init block kids trans, p, h => by
    simp only [paths, List.mem_cons] at h
    rcases h with h | h
    · exact ⟨[], by simp [h, MState.name]⟩
    · cases block
      · simp at h
      · simp only [if_true] at h
        obtain ⟨k, _, rest, hr⟩ := pathsL_shape (pre ++ [name]) kids p h
        exact ⟨k.name :: rest, by simp [hr, MState.name]⟩
theorem pathsL_shape (pre : Path) : ∀ l p, p ∈ pathsL pre l → ∃ s ∈ l, ∃ rest, p = pre ++ s.name :: rest
  | [], p, h => by simp [pathsL] at h
  | s :: r, p, h => by
    simp only [pathsL, List.mem_append] at h
    rcases h with h | h
    · obtain ⟨rest, hr⟩ := paths_shape pre s p h
      exact ⟨s, by simp, rest, hr⟩
    · obtain ⟨k, hk, rest, hr⟩ := pathsL_shape pre r p h
      exact ⟨k, by simp [hk], rest, hr⟩
end

theorem append_cons_inj {pre : Path} {a b : Nat} {r1 r2 : Path}
    (h : pre ++ a :: r1 = pre ++ b :: r2) : a = b := by
  have := List.append_cancel_left h
  simp at this
  exact this.1

mutual
theorem paths_nodup (pre : Path) : ∀ s, wfState s = true → (paths pre s).Nodup
  | .mk name label final enter exit init block kids trans, h => by
    simp only [wfState, Bool.and_eq_true] at h
    simp only [paths, List.nodup_cons]
    cases block
    · simp
    · simp only [if_true]
      refine ⟨?_, pathsL_nodup (pre ++ [name]) kids h.2⟩
      intro hm
      obtain ⟨k, _, rest, hr⟩ := pathsL_shape (pre ++ [name]) kids _ hm
      have := congrArg List.length hr
      simp at this
theorem pathsL_nodup (pre : Path) : ∀ l, wfList l = true → (pathsL pre l).Nodup
  | [], _ => by simp [pathsL]
  | s :: r, h => by
    simp only [wfList, Bool.and_eq_true, Bool.not_eq_true'] at h
    obtain ⟨⟨hn, hs⟩, hr⟩ := h
    simp only [pathsL]
    rw [List.nodup_append]
    refine ⟨paths_nodup pre s hs, pathsL_nodup pre r hr, ?_⟩
    intro a ha b hb hab
    subst hab
    obtain ⟨r1, e1⟩ := paths_shape pre s a ha
    obtain ⟨k, hk, r2, e2⟩ := pathsL_shape pre r a hb
    have : s.name = k.name := append_cons_inj (e1.symm.trans e2)
    simp at hn
    exact hn _ hk this.symm
end

mutual
theorem nestedOK_render (o : Opts) (st : Styles) (pre : Path) :
    ∀ s, nestedOK (renderState o st pre s) = true
  | .mk name label final enter exit init block kids trans => by
    cases block
    · simp [renderState, nestedOK, nestedOKL]
    · simp [renderState, nestedOK, nestedOKL_render o st (pre ++ [name]) kids]
theorem nestedOKL_render (o : Opts) (st : Styles) (pre : Path) :
    ∀ l, nestedOKL pre (renderList o st pre l) = true
  | [] => by simp [renderList, nestedOKL]
  | s :: r => by
    have hname : (renderState o st pre s).name = pre ++ [s.name] := by
      cases s; simp [renderState, DNode.name, MState.name]
    simp [renderList, nestedOKL, nestedOK_render o st pre s, nestedOKL_render o st pre r, hname]
end

/-! ### edge grouping -/

def keys (es : List Edge) : List (Path × Path) := es.map (fun e => (e.src, e.dst))

theorem labelsAt_nil (k : Path × Path) : labelsAt [] k = [] := rfl

theorem labelsAt_cons (e : Edge) (r : List Edge) (k : Path × Path) :
    labelsAt (e :: r) k = if (e.src, e.dst) = k then e.labels else labelsAt r k := by
  by_cases h : (e.src, e.dst) = k <;> simp [labelsAt, List.find?, h]

theorem addLabel_labelsAt (k : Path × Path) (l : ELabel) :
    ∀ es k', labelsAt (addLabel k l es) k' = if k' = k then labelsAt es k ++ [l] else labelsAt es k'
  | [], k' => by
    by_cases h : k' = k
    · subst h; simp [addLabel, labelsAt_cons, labelsAt_nil]
    · have h' : ¬ k = k' := fun e => h e.symm
      simp [addLabel, labelsAt_cons, labelsAt_nil, h, h']
  | e :: r, k' => by
    by_cases he : (e.src, e.dst) = k
    · by_cases h : k' = k
      · subst h; simp [addLabel, he, labelsAt_cons]
      · have h' : ¬ k = k' := fun e => h e.symm
        simp [addLabel, he, labelsAt_cons, h, h']
    · have ih := addLabel_labelsAt k l r k'
      by_cases h : k' = k
      · subst h
        simp only [addLabel, he, if_false, labelsAt_cons, if_true] at ih ⊢
        exact ih
      · simp only [addLabel, he, if_false, labelsAt_cons, h] at ih ⊢
        rw [ih]

theorem addLabel_keys (k : Path × Path) (l : ELabel) :
    ∀ es, keys (addLabel k l es) = if k ∈ keys es then keys es else keys es ++ [k]
  | [] => by simp [addLabel, keys]
  | e :: r => by
    by_cases he : (e.src, e.dst) = k
    · simp [addLabel, he, keys]
    · have ih := addLabel_keys k l r
      have he' : ¬ k = (e.src, e.dst) := fun x => he x.symm
      simp only [addLabel, he, if_false, keys, List.map_cons, List.mem_cons, he', false_or] at ih ⊢
      rw [ih]
      by_cases hk : k ∈ List.map (fun e => (e.src, e.dst)) r <;> simp [hk]

theorem addLabel_nodup (k : Path × Path) (l : ELabel) (es : List Edge) (h : (keys es).Nodup) :
    (keys (addLabel k l es)).Nodup := by
  rw [addLabel_keys]
  split
  · exact h
  · rename_i hk
    rw [List.nodup_append]
    exact ⟨h, by simp, by intro a ha b hb; simp at hb; subst hb; intro e; exact hk (e ▸ ha)⟩

theorem groupFrom_labelsAt (o : Opts) (k : Path × Path) :
    ∀ ts acc, labelsAt (groupFrom o acc ts) k =
      labelsAt acc k ++ (ts.filter (fun t => edgeKey t = k)).map (tlabel o)
  | [], acc => by simp [groupFrom]
  | t :: r, acc => by
    have ih := groupFrom_labelsAt o k r (addLabel (edgeKey t) (tlabel o t) acc)
    simp only [groupFrom, List.foldl_cons] at ih ⊢
    rw [ih, addLabel_labelsAt]
    by_cases h : k = edgeKey t
    · subst h; simp
    · have h' : ¬ edgeKey t = k := fun e => h e.symm
      simp [h, h']

theorem groupFrom_nodup (o : Opts) :
    ∀ ts acc, (keys acc).Nodup → (keys (groupFrom o acc ts)).Nodup
  | [], acc, h => by simpa [groupFrom] using h
  | t :: r, acc, h => by
    have := groupFrom_nodup o r _ (addLabel_nodup (edgeKey t) (tlabel o t) acc h)
    simpa [groupFrom] using this

theorem labelsAt_filter (f : Edge → Bool) (k : Path × Path) :
    ∀ es, (keys es).Nodup → labelsAt (es.filter f) k =
      match es.find? (fun e => (e.src, e.dst) = k) with
      | some e => if f e then e.labels else []
      | none => []
  | [], _ => by simp [labelsAt]
  | e :: r, h => by
    simp only [keys, List.map_cons, List.nodup_cons] at h
    have ih := labelsAt_filter f k r h.2
    by_cases he : (e.src, e.dst) = k
    · by_cases hf : f e = true
      · simp [List.filter, hf, labelsAt_cons, he, List.find?]
      · simp only [Bool.not_eq_true] at hf
        have hnone : r.find? (fun e => (e.src, e.dst) = k) = none := by
          rw [List.find?_eq_none]
          intro x hx
          simp only [decide_eq_true_eq]
          intro hxk
          exact h.1 (by rw [he, ← hxk]; exact List.mem_map_of_mem (f := fun e => (e.src, e.dst)) hx)
        simp [List.filter, hf, List.find?, he, ih, hnone]
    · by_cases hf : f e = true
      · simp [List.filter, hf, labelsAt_cons, he, List.find?, ih]
      · simp only [Bool.not_eq_true] at hf
        simp [List.filter, hf, List.find?, he, ih]

/-! ### styles -/

theorem styleOf_setNode (s : Styles) (q p : Path) (v : Nat) :
    (s.setNode q v).styleOf p = if q = p then v else s.styleOf p := by
  simp [Styles.setNode, Styles.styleOf, alook]

theorem styleOf_setNodes (v : Nat) (p : Path) :
    ∀ (ps : List Path) (s : Styles), (s.setNodes ps v).styleOf p = if p ∈ ps then v else s.styleOf p
  | [], s => by simp [Styles.setNodes]
  | q :: r, s => by
    have ih := styleOf_setNodes v p r (s.setNode q v)
    simp only [Styles.setNodes, List.foldl_cons] at ih ⊢
    rw [ih, styleOf_setNode]
    by_cases h1 : p ∈ r
    · simp [h1]
    · by_cases h2 : q = p
      · subst h2; simp
      · have h2' : ¬ p = q := fun e => h2 e.symm
        simp [h1, h2, h2']

theorem styleOf_empty (p : Path) : ({} : Styles).styleOf p = 0 := rfl

/-- what the text shows of a label list: the nested backend drops a line whose joined label is empty -/
def shown (o : Opts) (ls : List ELabel) : List ELabel :=
  if o.nested && blankLabels ls then [] else ls

theorem labelsAt_eq_find (es : List Edge) (k : Path × Path) :
    labelsAt es k = match es.find? (fun e => (e.src, e.dst) = k) with
      | some e => e.labels
      | none => [] := rfl

theorem edgesOf_labelsAt (o : Opts) (ts : List MTrans) (k : Path × Path) :
    labelsAt (edgesOf o ts) k = shown o ((ts.filter (fun t => edgeKey t = k)).map (tlabel o)) := by
  have hg : labelsAt (groupEdges o ts) k = (ts.filter (fun t => edgeKey t = k)).map (tlabel o) := by
    simpa [groupEdges, labelsAt_nil] using groupFrom_labelsAt o k ts []
  have hn : (keys (groupEdges o ts)).Nodup := groupFrom_nodup o ts [] (by simp [keys])
  unfold edgesOf shown
  cases hnest : o.nested
  · simp [hg]
  · simp only [if_true, Bool.true_and]
    rw [labelsAt_filter _ k _ hn, ← hg, labelsAt_eq_find]
    cases hf : (groupEdges o ts).find? (fun e => (e.src, e.dst) = k) with
    | none => simp
    | some e =>
      simp only [Edge.blank]
      by_cases hb : blankLabels e.labels = true <;> simp [hb]

/-! ### `_get_elements` covers every scope -/

mutual
theorem elems_cover (pre p : Path) :
    ∀ s s', findState pre p s = some s' →
      (s'.kids ≠ [] → ∀ t ∈ s'.trans, globalise p t ∈ elemsState pre s) ∧
      (∀ i, s'.init = .one i →
        ({ trigger := [], source := p, dest := some (p ++ [i]) } : MTrans) ∈ elemsState pre s)
  | .mk name label final enter exit init block kids trans, s', h => by
    simp only [findState] at h
    by_cases hp : pre ++ [name] = p
    · simp only [hp, if_true, Option.some.injEq] at h
      subst h
      subst hp
      constructor
      · intro hk t ht
        have hk' : kids.isEmpty = false := by cases kids <;> simp_all [MState.kids]
        simp only [MState.trans] at ht
        simp [elemsState, hk', List.mem_map]
        exact Or.inr (Or.inl ⟨t, ht, rfl⟩)
      · intro i hi
        simp only [MState.init] at hi
        subst hi
        simp [elemsState, initEdge]
    · simp only [hp, if_false] at h
      cases block
      · simp at h
      · simp only [if_true] at h
        have ih := elemsL_cover (pre ++ [name]) p kids s' h
        constructor
        · intro hk t ht
          simp [elemsState, ih.1 hk t ht]
        · intro i hi
          simp [elemsState, ih.2 i hi]
theorem elemsL_cover (pre p : Path) :
    ∀ l s', findStateL pre p l = some s' →
      (s'.kids ≠ [] → ∀ t ∈ s'.trans, globalise p t ∈ elemsList pre l) ∧
      (∀ i, s'.init = .one i →
        ({ trigger := [], source := p, dest := some (p ++ [i]) } : MTrans) ∈ elemsList pre l)
  | [], s', h => by simp [findStateL] at h
  | s :: r, s', h => by
    simp only [findStateL] at h
    cases hs : findState pre p s with
    | some x =>
      simp only [hs, Option.some.injEq] at h
      subst h
      have ih := elems_cover pre p s x hs
      exact ⟨fun hk t ht => by simp [elemsList, ih.1 hk t ht], fun i hi => by simp [elemsList, ih.2 i hi]⟩
    | none =>
      simp only [hs] at h
      have ih := elemsL_cover pre p r s' h
      exact ⟨fun hk t ht => by simp [elemsList, ih.1 hk t ht], fun i hi => by simp [elemsList, ih.2 i hi]⟩
end

/-! ### region of interest -/

mutual
theorem paths_filter (S : List Path) (pre : Path) :
    ∀ s p, p ∈ paths pre s → S.contains p = true →
      ∃ s', filterState S pre s = some s' ∧ p ∈ paths pre s'
  | .mk name label final enter exit init block kids trans, p, h, hS => by
    simp only [paths, List.mem_cons] at h
    cases block
    · simp only [Bool.false_eq_true, if_false, List.not_mem_nil, or_false] at h
      subst h
      have hS' : pre ++ [name] ∈ S := by simpa using hS
      exact ⟨.mk name label final enter exit init false kids trans, by simp [filterState, hS'], by simp [paths]⟩
    · simp only [if_true] at h
      rcases h with h | h
      · subst h
        have hS' : pre ++ [name] ∈ S := by simpa using hS
        exact ⟨.mk name label final enter exit init true (filterList S (pre ++ [name]) kids) trans,
          by simp [filterState, hS'], by simp [paths]⟩
      · have ih := pathsL_filter S (pre ++ [name]) kids p h hS
        have hne : (filterList S (pre ++ [name]) kids).isEmpty = false := by
          cases hk : filterList S (pre ++ [name]) kids with
          | nil => simp [hk, pathsL] at ih
          | cons _ _ => rfl
        exact ⟨.mk name label final enter exit init true (filterList S (pre ++ [name]) kids) trans,
          by simp [filterState, hne], by simp [paths, ih]⟩
theorem pathsL_filter (S : List Path) (pre : Path) :
    ∀ l p, p ∈ pathsL pre l → S.contains p = true → p ∈ pathsL pre (filterList S pre l)
  | [], p, h, _ => by simp [pathsL] at h
  | s :: r, p, h, hS => by
    simp only [pathsL, List.mem_append] at h
    rcases h with h | h
    · obtain ⟨s', h1, h2⟩ := paths_filter S pre s p h hS
      simp [filterList, h1, pathsL, h2]
    · have ih := pathsL_filter S pre r p h hS
      cases hs : filterState S pre s with
      | some s' => simp [filterList, hs, pathsL, ih]
      | none => simp [filterList, hs, ih]
end

theorem roiTrans_mem (st : Styles) (act : List Path) (ts : List MTrans) (t : MTrans) :
    t ∈ roiTrans st act ts ↔ t ∈ ts ∧ (t.source ∈ act ∨ st.edgeStyled t.source t.dest = true) := by
  simp [roiTrans, List.mem_filter]

/-! ### what a history leaves behind -/

/-- (source recorded by the last `begin` not followed by a regeneration, names marked active since
the last reset) -/
def sumStep : (Option Path × List Path) → Step → (Option Path × List Path)
  | _, .begin pre src _ => (some (pre ++ src), [])
  | (p, a), .finish cur => (p, a ++ cur)
  | _, .regen cur => (none, cur)

def summary (init : List Path) (h : List Step) : Option Path × List Path := h.foldl sumStep (none, init)

/-- the (global) name of the source of the last executed transition; none after a regeneration -/
def lastSource (init : List Path) (h : List Step) : Option Path := (summary init h).1

/-- the names marked active since the graph was last reset -/
def marked (init : List Path) (h : List Step) : List Path := (summary init h).2

/-- the model state the graph was last told about -/
def curOf (init : List Path) (h : List Step) : List Path :=
  match h.getLast? with
  | none => init
  | some (.begin _ _ _) => []
  | some (.finish c) => c
  | some (.regen c) => c

def Agrees (s : Styles) (x : Option Path × List Path) : Prop :=
  ∀ p, s.styleOf p = if p ∈ x.2 then 1 else if x.1 = some p then 2 else 0

theorem agrees_step (s : Styles) (x : Option Path × List Path) (st : Step) (h : Agrees s x) :
    Agrees (applyStep s st) (sumStep x st) := by
  intro p
  obtain ⟨xp, xa⟩ := x
  cases st with
  | begin pre src dst =>
    simp only [applyStep, sumStep, setPrevious, prevKey, styleOf_setNode]
    by_cases h2 : pre ++ src = p
    · simp [h2]
    · simp [h2, Styles.styleOf, alook]
  | finish cur =>
    simp only [applyStep, sumStep, styleOf_setNodes, h p, List.mem_append]
    by_cases h1 : p ∈ cur
    · simp [h1]
    · simp only [h1, or_false, if_false]
      by_cases h3 : p ∈ xa <;> by_cases h4 : xp = some p <;> simp [h3, h4]
  | regen cur =>
    simp [applyStep, sumStep, styleOf_setNodes, styleOf_empty]

theorem agrees_foldl : ∀ (h : List Step) (s : Styles) (x : Option Path × List Path),
    Agrees s x → Agrees (h.foldl applyStep s) (h.foldl sumStep x)
  | [], _, _, ha => ha
  | st :: r, s, x, ha => by
    simp only [List.foldl_cons]
    exact agrees_foldl r _ _ (agrees_step s x st ha)

theorem styleOf_after (init : List Path) (h : List Step) (p : Path) :
    (stylesAfter init h).styleOf p =
      if p ∈ marked init h then 1 else if lastSource init h = some p then 2 else 0 := by
  have h0 : Agrees (({} : Styles).setNodes init 1) (none, init) := by
    intro q; simp [styleOf_setNodes, styleOf_empty]
  exact agrees_foldl h _ _ h0 p

theorem summary_snoc (init : List Path) (h : List Step) (st : Step) :
    summary init (h ++ [st]) = sumStep (summary init h) st := by
  simp [summary, List.foldl_append]

/-- what the graph was last told is marked -/
theorem curOf_marked (init : List Path) (h : List Step) : ∀ p ∈ curOf init h, p ∈ marked init h := by
  intro p hp
  rcases List.eq_nil_or_concat h with rfl | ⟨h', st, rfl⟩
  · simpa [curOf, marked, summary] using hp
  · simp only [List.concat_eq_append] at hp ⊢
    simp only [curOf, List.getLast?_append, List.getLast?_singleton, Option.some_or] at hp
    simp only [marked, summary_snoc]
    cases st with
    | begin pre src dst => simp at hp
    | finish c =>
      generalize summary init h' = x
      obtain ⟨xp, xa⟩ := x
      simp only [sumStep, List.mem_append]
      exact Or.inr hp
    | regen c => simpa [sumStep] using hp

/-! ### top-level nodes carry the class of their style -/

theorem renderList_top (o : Opts) (st : Styles) :
    ∀ states n, n ∈ renderList o st [] states →
      ∃ s ∈ states, n.name = [s.name] ∧ n.cls = some (st.styleOf [s.name])
  | [], n, h => by simp [renderList] at h
  | s :: r, n, h => by
    simp only [renderList, List.mem_cons] at h
    rcases h with h | h
    · refine ⟨s, by simp, ?_⟩
      cases s; subst h; simp [renderState, DNode.name, DNode.cls, MState.name]
    · obtain ⟨s', hs', h'⟩ := renderList_top o st r n h
      exact ⟨s', by simp [hs'], h'⟩

theorem renderList_top' (o : Opts) (st : Styles) :
    ∀ states s, s ∈ states →
      ∃ n ∈ renderList o st [] states, n.name = [s.name] ∧ n.cls = some (st.styleOf [s.name])
  | [], s, h => by simp at h
  | x :: r, s, h => by
    simp only [List.mem_cons] at h
    rcases h with h | h
    · subst h
      refine ⟨renderState o st [] s, by simp [renderList], ?_⟩
      cases s; simp [renderState, DNode.name, DNode.cls, MState.name]
    · obtain ⟨n, hn, h'⟩ := renderList_top' o st r s h
      exact ⟨n, by simp [renderList, hn], h'⟩

theorem nodesOf_top (o : Opts) (st : Styles) (states : List MState) (n : DNode) (h : n ∈ nodesOf o st states) :
    ∃ s ∈ states, n.name = [s.name] ∧ n.cls = some (st.styleOf [s.name]) := by
  unfold nodesOf at h
  split at h
  · exact renderList_top o st states n h
  · simp only [List.mem_map] at h
    obtain ⟨s, hs, rfl⟩ := h
    exact ⟨s, hs, by simp [renderFlat, DNode.name, DNode.cls]⟩

theorem nodesOf_top' (o : Opts) (st : Styles) (states : List MState) (s : MState) (h : s ∈ states) :
    ∃ n ∈ nodesOf o st states, n.name = [s.name] ∧ n.cls = some (st.styleOf [s.name]) := by
  unfold nodesOf
  split
  · exact renderList_top' o st states s h
  · exact ⟨renderFlat o st s, List.mem_map_of_mem h, by simp [renderFlat, DNode.name, DNode.cls]⟩

/-! ### finding a state's node -/

mutual
theorem findNode_render (o : Opts) (st : Styles) (pre p : Path) :
    ∀ s s', findState pre p s = some s' →
      ∃ pre', pre' ++ [s'.name] = p ∧ findNode p (renderState o st pre s) = some (renderState o st pre' s')
  | .mk name label final enter exit init block kids trans, s', h => by
    simp only [findState] at h
    by_cases hp : pre ++ [name] = p
    · simp only [hp, if_true, Option.some.injEq] at h
      subst h
      exact ⟨pre, by simpa [MState.name] using hp, by simp [renderState, findNode, hp]⟩
    · simp only [hp, if_false] at h
      cases block
      · simp at h
      · simp only [if_true] at h
        obtain ⟨pre', h1, h2⟩ := findNodeL_render o st (pre ++ [name]) p kids s' h
        exact ⟨pre', h1, by simp [renderState, findNode, hp, h2]⟩
theorem findNodeL_render (o : Opts) (st : Styles) (pre p : Path) :
    ∀ l s', findStateL pre p l = some s' →
      ∃ pre', pre' ++ [s'.name] = p ∧ findNodeL p (renderList o st pre l) = some (renderState o st pre' s')
  | [], s', h => by simp [findStateL] at h
  | s :: r, s', h => by
    simp only [findStateL] at h
    cases hs : findState pre p s with
    | some x =>
      simp only [hs, Option.some.injEq] at h
      subst h
      obtain ⟨pre', h1, h2⟩ := findNode_render o st pre p s x hs
      exact ⟨pre', h1, by simp [renderList, findNodeL, h2]⟩
    | none =>
      simp only [hs] at h
      obtain ⟨pre', h1, h2⟩ := findNodeL_render o st pre p r s' h
      have hn : findNode p (renderState o st pre s) = none := findNode_none o st pre p s hs
      exact ⟨pre', h1, by simp [renderList, findNodeL, hn, h2]⟩
theorem findNode_none (o : Opts) (st : Styles) (pre p : Path) :
    ∀ s, findState pre p s = none → findNode p (renderState o st pre s) = none
  | .mk name label final enter exit init block kids trans, h => by
    simp only [findState] at h
    by_cases hp : pre ++ [name] = p
    · simp [hp] at h
    · simp only [hp, if_false] at h
      cases block
      · simp [renderState, findNode, hp, findNodeL]
      · simp only [if_true] at h
        simp [renderState, findNode, hp, findNodeL_none o st (pre ++ [name]) p kids h]
theorem findNodeL_none (o : Opts) (st : Styles) (pre p : Path) :
    ∀ l, findStateL pre p l = none → findNodeL p (renderList o st pre l) = none
  | [], _ => by simp [renderList, findNodeL]
  | s :: r, h => by
    simp only [findStateL] at h
    cases hs : findState pre p s with
    | some x => simp [hs] at h
    | none =>
      simp only [hs] at h
      simp [renderList, findNodeL, findNode_none o st pre p s hs, findNodeL_none o st pre p r h]
end

/-! ### the store of per-model graphs -/

theorem store_get_set (k k' : Nat) (s : Styles) (st : Store) :
    (st.set k s).get k' = if k = k' then s else st.get k' := by
  simp [Store.set, Store.get]

/-! ### sessions: the view only depends on the latest options / description and the graph events -/

def lastOpts (o : Opts) : List Event → Opts
  | [] => o
  | .options o' :: r => lastOpts o' r
  | _ :: r => lastOpts o r

def lastMach (m : Mach) : List Event → Mach
  | [] => m
  | .machine m' :: r => lastMach m' r
  | _ :: r => lastMach m r

def graphSteps (attr : Nat) : List Event → List Step
  | [] => []
  | .graph g :: r => g.resolve attr :: graphSteps attr r
  | _ :: r => graphSteps attr r

theorem session_foldl : ∀ (evs : List Event) (s : Session),
    (∀ o, Event.options o ∈ evs → o.modelAttr = s.opts.modelAttr) →
    evs.foldl Session.apply s =
      { opts := lastOpts s.opts evs, mach := lastMach s.mach evs,
        styles := (graphSteps s.opts.modelAttr evs).foldl applyStep s.styles }
  | [], s, _ => rfl
  | e :: r, s, h => by
    have hr : ∀ o, Event.options o ∈ r → o.modelAttr = s.opts.modelAttr :=
      fun o ho => h o (List.mem_cons_of_mem _ ho)
    cases e with
    | graph g =>
      rw [List.foldl_cons, session_foldl r _ (by simpa [Session.apply] using hr)]
      simp [Session.apply, lastOpts, lastMach, graphSteps]
    | options o =>
      have ho : o.modelAttr = s.opts.modelAttr := h o (List.mem_cons_self ..)
      rw [List.foldl_cons, session_foldl r _ (by simpa [Session.apply, ho] using hr)]
      simp [Session.apply, lastOpts, lastMach, graphSteps, ho]
    | machine m =>
      rw [List.foldl_cons, session_foldl r _ (by simpa [Session.apply] using hr)]
      simp [Session.apply, lastOpts, lastMach, graphSteps]

end Diagram
end TM
