/-
  Proofs/C11.lean — lemmas for property C11 (helpers on the model), about `Model/Helpers.lean`.
-/
import Model.Helpers

namespace TM
namespace Helpers

/-! ### finite maps -/

section maps
variable {κ β : Type} [DecidableEq κ]

theorem kget_kset_self (k : κ) (v : β) (l : List (κ × β)) : kget k (kset k v l) = some v := by
  induction l with
  | nil => simp [kset, kget]
  | cons h t ih =>
    obtain ⟨k', v'⟩ := h
    by_cases hk : k' = k
    · simp [kset, kget, hk]
    · simp [kset, kget, hk, ih]

theorem kget_kset_ne (k k' : κ) (v : β) (l : List (κ × β)) (h : k' ≠ k) : kget k' (kset k v l) = kget k' l := by
  induction l with
  | nil => simp [kset, kget, Ne.symm h]
  | cons hd t ih =>
    obtain ⟨k0, v0⟩ := hd
    by_cases hk : k0 = k
    · subst hk; simp [kset, kget, Ne.symm h]
    · by_cases hk' : k0 = k'
      · subst hk'; simp [kset, kget, hk]
      · simp [kset, kget, hk, hk', ih]

theorem kget_kdel_self (k : κ) (l : List (κ × β)) : kget k (kdel k l) = none := by
  induction l with
  | nil => rfl
  | cons hd t ih =>
    obtain ⟨k0, v0⟩ := hd
    by_cases hk : k0 = k <;> simp [kdel, kget, hk, ih]

theorem kget_kdel_ne (k k' : κ) (l : List (κ × β)) (h : k' ≠ k) : kget k' (kdel k l) = kget k' l := by
  induction l with
  | nil => rfl
  | cons hd t ih =>
    obtain ⟨k0, v0⟩ := hd
    by_cases hk : k0 = k
    · subst hk; simp [kdel, kget, Ne.symm h, ih]
    · by_cases hk' : k0 = k'
      · subst hk'; simp [kdel, kget, hk]
      · simp [kdel, kget, hk, hk', ih]

theorem kget_append_none (k : κ) (l r : List (κ × β)) (h : kget k l = none) : kget k (l ++ r) = kget k r := by
  induction l with
  | nil => rfl
  | cons hd t ih =>
    obtain ⟨k0, v0⟩ := hd
    by_cases hk : k0 = k
    · simp [kget, hk] at h
    · simp [kget, hk] at h ⊢; exact ih h

theorem kget_append_some (k : κ) (v : β) (l r : List (κ × β)) (h : kget k l = some v) : kget k (l ++ r) = some v := by
  induction l with
  | nil => simp [kget] at h
  | cons hd t ih =>
    obtain ⟨k0, v0⟩ := hd
    by_cases hk : k0 = k
    · simp [kget, hk] at h ⊢; exact h
    · simp [kget, hk] at h ⊢; exact ih h

theorem kget_map_snd {γ : Type} (k : κ) (f : β → γ) (l : List (κ × β)) :
    kget k (l.map fun p => (p.1, f p.2)) = (kget k l).map f := by
  induction l with
  | nil => rfl
  | cons hd t ih =>
    obtain ⟨k0, v0⟩ := hd
    by_cases hk : k0 = k <;> simp [kget, hk, ih]

theorem kget_mem (k : κ) (v : β) (l : List (κ × β)) (h : kget k l = some v) : (k, v) ∈ l := by
  induction l with
  | nil => simp [kget] at h
  | cons hd t ih =>
    obtain ⟨k0, v0⟩ := hd
    by_cases hk : k0 = k
    · simp [kget, hk] at h; subst hk; subst h; exact List.mem_cons_self ..
    · simp [kget, hk] at h; exact List.mem_cons_of_mem _ (ih h)

theorem kget_isSome_of_mem (k : κ) (v : β) (l : List (κ × β)) (h : (k, v) ∈ l) : (kget k l).isSome := by
  induction l with
  | nil => cases h
  | cons hd t ih =>
    obtain ⟨k0, v0⟩ := hd
    by_cases hk : k0 = k
    · simp [kget, hk]
    · simp only [kget, hk, if_false]
      rcases List.mem_cons.mp h with h | h
      · injection h with h1 _; exact absurd h1.symm hk
      · exact ih h

/-- keys of a map -/
def keys (l : List (κ × β)) : List κ := l.map (·.1)

theorem kget_none_iff (k : κ) (l : List (κ × β)) : kget k l = none ↔ k ∉ keys l := by
  induction l with
  | nil => simp [kget, keys]
  | cons hd t ih =>
    obtain ⟨k0, v0⟩ := hd
    by_cases hk : k0 = k
    · simp [kget, keys, hk]
    · simp only [kget, hk, if_false, keys, List.map_cons, List.mem_cons, not_or]
      constructor
      · intro h; exact ⟨fun e => hk e.symm, by simpa [keys] using ih.mp h⟩
      · intro h; exact ih.mpr (by simpa [keys] using h.2)

theorem keys_kset (k : κ) (v : β) (l : List (κ × β)) :
    keys (kset k v l) = if k ∈ keys l then keys l else keys l ++ [k] := by
  induction l with
  | nil => simp [kset, keys]
  | cons hd t ih =>
    obtain ⟨k0, v0⟩ := hd
    by_cases hk : k0 = k
    · subst hk; simp [kset, keys]
    · have hk' : ¬ k = k0 := fun e => hk e.symm
      simp only [kset, hk, if_false, keys, List.map_cons, List.mem_cons, hk', false_or] at ih ⊢
      by_cases hm : k ∈ List.map (fun x => x.fst) t <;> simp [hm] at ih ⊢ <;> exact ih

theorem mem_keys_kdel (k k' : κ) (l : List (κ × β)) : k' ∈ keys (kdel k l) ↔ k' ∈ keys l ∧ k' ≠ k := by
  induction l with
  | nil => simp [kdel, keys]
  | cons hd t ih =>
    obtain ⟨k0, v0⟩ := hd
    by_cases hk : k0 = k
    · subst hk
      simp only [kdel, if_true, keys, List.map_cons, List.mem_cons] at ih ⊢
      rw [ih]
      constructor
      · rintro ⟨h1, h2⟩; exact ⟨Or.inr h1, h2⟩
      · rintro ⟨h1 | h1, h2⟩
        · exact absurd h1 h2
        · exact ⟨h1, h2⟩
    · simp only [kdel, hk, if_false, keys, List.map_cons, List.mem_cons] at ih ⊢
      rw [ih]
      constructor
      · rintro (h | ⟨h1, h2⟩)
        · exact ⟨Or.inl h, by rw [h]; exact hk⟩
        · exact ⟨Or.inr h1, h2⟩
      · rintro ⟨h1 | h1, h2⟩
        · exact Or.inl h1
        · exact Or.inr ⟨h1, h2⟩

end maps

/-! ### objects -/

@[simp] theorem setattr_cls (o : Obj) (n : Name) (b : Binding) : (o.setattr n b).cls = o.cls := rfl

theorem getattr_setattr_self (o : Obj) (n : Name) (b : Binding) : (o.setattr n b).getattr n = some b := by
  simp [Obj.getattr, Obj.setattr, kget_kset_self]

theorem getattr_setattr_ne (o : Obj) (n n' : Name) (b : Binding) (h : n' ≠ n) :
    (o.setattr n b).getattr n' = o.getattr n' := by
  simp [Obj.getattr, Obj.setattr, kget_kset_ne _ _ _ _ h]

@[simp] theorem checkedAssign_cls (ov : Bool) (o : Obj) (n : Name) (b : Binding) : (checkedAssign ov o n b).cls = o.cls := by
  unfold checkedAssign; split <;> rfl

theorem getattr_checkedAssign_ne (ov : Bool) (o : Obj) (n n' : Name) (b : Binding) (h : n' ≠ n) :
    (checkedAssign ov o n b).getattr n' = o.getattr n' := by
  unfold checkedAssign; split
  · exact getattr_setattr_ne o n n' b h
  · rfl

theorem getattr_checkedAssign_self (ov : Bool) (o : Obj) (n : Name) (b : Binding) :
    (checkedAssign ov o n b).getattr n = if (o.unbound n) != ov then some b else o.getattr n := by
  unfold checkedAssign; split
  · exact getattr_setattr_self o n b
  · rfl

/-- a binding found after a checked assignment is the assigned one (under that name) or was there before -/
theorem getattr_checkedAssign_cases (ov : Bool) (o : Obj) (n n' : Name) (b b' : Binding)
    (h : (checkedAssign ov o n b).getattr n' = some b') : (n' = n ∧ b' = b) ∨ o.getattr n' = some b' := by
  by_cases hn : n' = n
  · subst hn
    rw [getattr_checkedAssign_self] at h
    split at h
    · left; exact ⟨rfl, by injection h with h; exact h.symm⟩
    · right; exact h
  · right; rwa [getattr_checkedAssign_ne _ _ _ _ _ hn] at h


/-! ### the invariant of reachable machines -/

def Binding.isUser : Binding → Bool
  | .user _ => true
  | .userNone => true
  | _ => false

/-- an object as it is handed to `add_model`: nothing on it comes from this machine -/
def Obj.Fresh (o : Obj) : Prop :=
  (∀ n b, kget n o.cls = some b → b.isUser = true) ∧ (∀ n b, kget n o.inst = some b → b.isUser = true)

def Obj.freshB (o : Obj) : Bool := o.cls.all (fun p => p.2.isUser) && o.inst.all (fun p => p.2.isUser)

theorem Obj.fresh_of_freshB {o : Obj} (h : o.freshB = true) : o.Fresh := by
  simp only [Obj.freshB, Bool.and_eq_true, List.all_eq_true] at h
  exact ⟨fun n b hb => h.1 (n, b) (kget_mem _ _ _ hb), fun n b hb => h.2 (n, b) (kget_mem _ _ _ hb)⟩

/-- `model_attribute` hygiene: the state attribute is not named like `trigger` or a `may_` helper
(otherwise `_checked_assignment` with `model_override` would replace the state value itself) -/
def AttrOK (attr : Name) : Prop := attr ≠ sTrigger ∧ ¬ sMay <+: attr

/-- what a binding found under the name `n` looks like -/
def OKB (hm : HM) (n : Name) : Binding → Prop
  | .user _ => True
  | .userNone => True
  | .value s => n = hm.attr ∧ s ∈ hm.states
  | .isState s => n = isName hm.attr s ∧ s ∈ hm.states
  | .trigger e => n = e ∧ e ∈ keys hm.events
  | .may e => n = mayName e
  | .triggerFn => n = sTrigger
  | .mayTriggerFn => n = sMayTrigger
  | .toFn => False

def InstOK (hm : HM) (o : Obj) : Prop := ∀ n b, kget n o.inst = some b → OKB hm n b

structure ObjOK (hm : HM) (o : Obj) : Prop where
  cls : ∀ n b, kget n o.cls = some b → b.isUser = true
  inst : InstOK hm o
  st : ∃ s, kget hm.attr o.inst = some (.value s)

structure Inv (hm : HM) : Prop where
  attrOK : AttrOK hm.attr
  objs : ∀ m o, (m, o) ∈ hm.objs → ObjOK hm o
  evNe : ∀ e ∈ keys hm.events, e ≠ hm.attr
  init : ∀ i, hm.initial = some i → i ∈ hm.states
  nodupM : (keys hm.objs).Nodup
  nodupE : (keys hm.events).Nodup
  nodupS : hm.states.Nodup

theorem OKB.mono {hm hm' : HM} (ha : hm'.attr = hm.attr) (hs : ∀ s ∈ hm.states, s ∈ hm'.states)
    (he : ∀ e ∈ keys hm.events, e ∈ keys hm'.events) {n : Name} {b : Binding} (h : OKB hm n b) : OKB hm' n b := by
  cases b <;> simp only [OKB, ha] at h ⊢
  · exact ⟨h.1, hs _ h.2⟩
  · exact ⟨h.1, hs _ h.2⟩
  · exact ⟨h.1, he _ h.2⟩
  · exact h
  · exact h
  · exact h

theorem ObjOK.mono {hm hm' : HM} (ha : hm'.attr = hm.attr) (hs : ∀ s ∈ hm.states, s ∈ hm'.states)
    (he : ∀ e ∈ keys hm.events, e ∈ keys hm'.events) {o : Obj} (h : ObjOK hm o) : ObjOK hm' o :=
  ⟨h.cls, fun n b hb => OKB.mono ha hs he (h.inst n b hb), by rw [ha]; exact h.st⟩

theorem isName_ne_attr (attr s : Name) : isName attr s ≠ attr := by
  unfold isName infixed
  split
  · rename_i h; subst h; simp [sIs, sState]
  · intro h
    have := congrArg List.length h
    simp [sIs] at this
    omega

theorem mayName_ne_attr (attr e : Name) (h : AttrOK attr) : mayName e ≠ attr := by
  intro he
  apply h.2
  rw [← he]
  exact List.prefix_append sMay e

theorem kget_inst_checkedAssign (ov : Bool) (o : Obj) (n n' : Name) (b b' : Binding)
    (h : kget n' (checkedAssign ov o n b).inst = some b') : (n' = n ∧ b' = b) ∨ kget n' o.inst = some b' := by
  unfold checkedAssign at h
  split at h
  · by_cases hn : n' = n
    · subst hn
      simp only [Obj.setattr, kget_kset_self] at h
      left; exact ⟨rfl, by injection h with h; exact h.symm⟩
    · simp only [Obj.setattr, kget_kset_ne _ _ _ _ hn] at h
      right; exact h
  · right; exact h

theorem kget_inst_checkedAssign_ne (ov : Bool) (o : Obj) (n n' : Name) (b : Binding) (hn : n' ≠ n) :
    kget n' (checkedAssign ov o n b).inst = kget n' o.inst := by
  unfold checkedAssign
  split
  · simp only [Obj.setattr, kget_kset_ne _ _ _ _ hn]
  · rfl

theorem ObjOK.checkedAssign {hm : HM} {o : Obj} (h : ObjOK hm o) (ov : Bool) (n : Name) (b : Binding)
    (hb : OKB hm n b) (hn : n ≠ hm.attr) : ObjOK hm (checkedAssign ov o n b) := by
  refine ⟨by simpa using h.cls, ?_, ?_⟩
  · intro n' b' h'
    rcases kget_inst_checkedAssign ov o n n' b b' h' with ⟨rfl, rfl⟩ | h''
    · exact hb
    · exact h.inst n' b' h''
  · rw [kget_inst_checkedAssign_ne ov o n hm.attr b (Ne.symm hn)]
    exact h.st

theorem ObjOK.addTrigger {hm : HM} {o : Obj} (h : ObjOK hm o) (ha : AttrOK hm.attr) (e : Name)
    (he : e ∈ keys hm.events) (hne : e ≠ hm.attr) : ObjOK hm (addTriggerToModel hm.override e o) := by
  unfold addTriggerToModel
  exact (h.checkedAssign _ e (.trigger e) ⟨rfl, he⟩ hne).checkedAssign _ (mayName e) (.may e) rfl (mayName_ne_attr _ _ ha)

theorem ObjOK.addModelToState {hm : HM} {o : Obj} (h : ObjOK hm o) (s : Name) (hs : s ∈ hm.states) :
    ObjOK hm (addModelToState hm.override hm.attr s o) := by
  unfold Helpers.addModelToState
  exact h.checkedAssign _ _ _ ⟨rfl, hs⟩ (isName_ne_attr _ _)

theorem mem_map_snd {α β γ : Type} {f : β → γ} {l : List (α × β)} {a : α} {c : γ}
    (h : (a, c) ∈ l.map fun p => (p.1, f p.2)) : ∃ b, (a, b) ∈ l ∧ c = f b := by
  obtain ⟨⟨a', b⟩, hm, he⟩ := List.mem_map.mp h
  injection he with h1 h2
  subst h1; exact ⟨b, hm, h2.symm⟩

theorem keys_map_snd {α β γ : Type} (f : β → γ) (l : List (α × β)) :
    keys (l.map fun p => (p.1, f p.2)) = keys l := by
  simp [keys, List.map_map, Function.comp_def]


theorem mem_keys_of_kget {κ β : Type} [DecidableEq κ] {k : κ} {v : β} {l : List (κ × β)} (h : kget k l = some v) :
    k ∈ keys l := by
  by_cases hm : k ∈ keys l
  · exact hm
  · rw [(kget_none_iff k l).mpr hm] at h; cases h

theorem keys_kset_of_mem {κ β : Type} [DecidableEq κ] {k : κ} (v : β) {l : List (κ × β)} (h : k ∈ keys l) :
    keys (kset k v l) = keys l := by
  rw [keys_kset]; simp [h]

theorem keys_append {κ β : Type} (l r : List (κ × β)) : keys (l ++ r) = keys l ++ keys r := by
  simp [keys]

/-! #### add_transition -/

/-- the shape of the machine after `add_transition` (for a name that is not the state attribute) -/
structure AddTrShape (hm hm' : HM) (e : Name) : Prop where
  attr : hm'.attr = hm.attr
  override : hm'.override = hm.override
  auto : hm'.auto = hm.auto
  states : hm'.states = hm.states
  initial : hm'.initial = hm.initial
  keysE : keys hm'.events = if e ∈ keys hm.events then keys hm.events else keys hm.events ++ [e]
  objs : hm'.objs = if e ∈ keys hm.events then hm.objs
    else hm.objs.map fun p => (p.1, addTriggerToModel hm.override e p.2)
  other : ∀ e', e' ≠ e → kget e' hm'.events = kget e' hm.events

theorem addTransition_shape (hm : HM) (e : Name) (src : Src) (dst : Dst) (pass : Bool) (hne : e ≠ hm.attr) :
    (addTransition hm e src dst pass).2 = none ∧ AddTrShape hm (addTransition hm e src dst pass).1 e ∧
    kget e (addTransition hm e src dst pass).1.events =
      some ((kget e hm.events).getD [] ++ (src.expand hm.states).map (mkTr dst pass)) := by
  unfold addTransition
  simp only [hne, if_false]
  cases hk : kget e hm.events with
  | some ts =>
    have hmem : e ∈ keys hm.events := mem_keys_of_kget hk
    refine ⟨by first | rfl | trivial, ⟨rfl, rfl, rfl, rfl, rfl, ?_, ?_, ?_⟩, ?_⟩
    · simp [hmem, keys_kset_of_mem _ hmem]
    · simp [hmem]
    · intro e' he'; simp [kget_kset_ne _ _ _ _ he']
    · simp [kget_kset_self, hk]
  | none =>
    have hmem : e ∉ keys hm.events := (kget_none_iff e hm.events).mp hk
    have h1 : kget e (hm.events ++ [(e, ([] : List Tr))]) = some [] := by
      rw [kget_append_none _ _ _ hk]; simp [kget]
    refine ⟨by first | rfl | trivial, ⟨rfl, rfl, rfl, rfl, rfl, ?_, ?_, ?_⟩, ?_⟩
    · have : e ∈ keys (hm.events ++ [(e, ([] : List Tr))]) := mem_keys_of_kget h1
      simp only [Option.isSome_none, Bool.false_eq_true, if_false, HM.onObjs]
      rw [keys_kset_of_mem _ this, keys_append]
      simp only [hmem, if_false]
      simp [keys]
    · simp [hmem, HM.onObjs]
    · intro e' he'
      simp only [Option.isSome_none, Bool.false_eq_true, if_false, HM.onObjs]
      rw [kget_kset_ne _ _ _ _ he']
      cases hk' : kget e' hm.events with
      | none => rw [kget_append_none _ _ _ hk']; simp [kget, Ne.symm he']
      | some v => exact kget_append_some _ _ _ _ hk'
    · simp only [Option.isSome_none, Bool.false_eq_true, if_false, HM.onObjs]
      rw [kget_kset_self, h1]; simp

theorem addTransition_attr_raises (hm : HM) (src : Src) (dst : Dst) (pass : Bool) :
    addTransition hm hm.attr src dst pass = (hm, some .valueError) := by
  simp [addTransition]

theorem Inv.ofShape {hm hm' : HM} {e : Name} (h : Inv hm) (sh : AddTrShape hm hm' e) (hne : e ≠ hm.attr) : Inv hm' := by
  have hsub : ∀ e' ∈ keys hm.events, e' ∈ keys hm'.events := by
    intro e' he'; rw [sh.keysE]; split
    · exact he'
    · exact List.mem_append_left _ he'
  have hin : e ∈ keys hm'.events := by
    rw [sh.keysE]; split
    · assumption
    · simp
  have hst : ∀ s ∈ hm.states, s ∈ hm'.states := by rw [sh.states]; exact fun _ h => h
  refine ⟨by rw [sh.attr]; exact h.attrOK, ?_, ?_, ?_, ?_, ?_, by rw [sh.states]; exact h.nodupS⟩
  · intro m o hmo
    rw [sh.objs] at hmo
    split at hmo
    · exact (h.objs m o hmo).mono sh.attr hst hsub
    · obtain ⟨o0, h0, rfl⟩ := mem_map_snd hmo
      have ok' : ObjOK hm' o0 := (h.objs m o0 h0).mono sh.attr hst hsub
      have := ok'.addTrigger (by rw [sh.attr]; exact h.attrOK) e hin (by rw [sh.attr]; exact hne)
      rwa [sh.override] at this
  · intro e' he'
    rw [sh.attr]
    rw [sh.keysE] at he'
    split at he'
    · exact h.evNe e' he'
    · rcases List.mem_append.mp he' with h1 | h1
      · exact h.evNe e' h1
      · simp at h1; rw [h1]; exact hne
  · intro i hi; rw [sh.states]; rw [sh.initial] at hi; exact h.init i hi
  · rw [sh.objs]; split
    · exact h.nodupM
    · rw [keys_map_snd]; exact h.nodupM
  · rw [sh.keysE]; split
    · exact h.nodupE
    · rename_i hmem
      exact List.nodup_append.mpr ⟨h.nodupE, by simp, by
        intro a ha b hb; simp at hb; subst hb; intro hab; subst hab; exact hmem ha⟩

theorem Inv.addTransition {hm : HM} (h : Inv hm) (e : Name) (src : Src) (dst : Dst) (pass : Bool) :
    Inv (addTransition hm e src dst pass).1 := by
  by_cases hne : e = hm.attr
  · subst hne; rw [addTransition_attr_raises]; exact h
  · exact h.ofShape (addTransition_shape hm e src dst pass hne).2.1 hne


/-! #### add_states -/

theorem autoLoop_inv (s : Name) : ∀ (l : List Name) (h : HM), Inv h → Inv (autoLoop s l h).1
  | [], h, hi => hi
  | a :: r, h, hi => by
    unfold autoLoop
    have h1 := hi.addTransition (toName h.attr a) (if a = s then .all else .one s) (.to a) true
    cases hr : Helpers.addTransition h (toName h.attr a) (if a = s then Src.all else Src.one s) (Dst.to a) true with
    | mk h' err =>
      rw [hr] at h1
      cases err with
      | none => exact autoLoop_inv s r h' h1
      | some e => exact h1

/-- the first half of `add_states`: the state is registered and every model gets its `is_` helper -/
def addStateCore (hm : HM) (s : Name) : HM :=
  { hm.onObjs (addModelToState hm.override hm.attr s) with
    states := if s ∈ hm.states then hm.states else hm.states ++ [s] }

theorem addState_eq (hm : HM) (s : Name) :
    addState hm s = if hm.auto then autoLoop s (addStateCore hm s).states (addStateCore hm s) else (addStateCore hm s, none) := rfl

theorem Inv.addStateCore {hm : HM} (h : Inv hm) (s : Name) : Inv (addStateCore hm s) := by
  have hst : ∀ x ∈ hm.states, x ∈ (Helpers.addStateCore hm s).states := by
    intro x hx; simp only [Helpers.addStateCore]; split
    · exact hx
    · exact List.mem_append_left _ hx
  have hs : s ∈ (Helpers.addStateCore hm s).states := by
    simp only [Helpers.addStateCore]; split
    · assumption
    · simp
  refine ⟨h.attrOK, ?_, h.evNe, fun i hi => hst i (h.init i hi), ?_, h.nodupE, ?_⟩
  · intro m o hmo
    obtain ⟨o0, h0, rfl⟩ := mem_map_snd (f := addModelToState hm.override hm.attr s) hmo
    have ok' : ObjOK (Helpers.addStateCore hm s) o0 :=
      ObjOK.mono (hm := hm) (hm' := Helpers.addStateCore hm s) rfl hst (fun _ h => h) (h.objs m o0 h0)
    exact ok'.addModelToState s hs
  · show (keys (hm.objs.map fun p => (p.1, addModelToState hm.override hm.attr s p.2))).Nodup
    rw [keys_map_snd]; exact h.nodupM
  · simp only [Helpers.addStateCore]; split
    · exact h.nodupS
    · rename_i hmem
      exact List.nodup_append.mpr ⟨h.nodupS, by simp, by
        intro a ha b hb; simp at hb; subst hb; intro hab; subst hab; exact hmem ha⟩

theorem Inv.addState {hm : HM} (h : Inv hm) (s : Name) : Inv (addState hm s).1 := by
  rw [addState_eq]; split
  · exact autoLoop_inv s _ _ (h.addStateCore s)
  · exact h.addStateCore s

theorem autoLoop_states (s : Name) : ∀ (l : List Name) (h : HM), (autoLoop s l h).1.states = h.states ∧
    (autoLoop s l h).1.initial = h.initial ∧ (autoLoop s l h).1.attr = h.attr ∧ (autoLoop s l h).1.auto = h.auto ∧
    (autoLoop s l h).1.override = h.override
  | [], h => ⟨rfl, rfl, rfl, rfl, rfl⟩
  | a :: r, h => by
    unfold autoLoop
    cases hr : Helpers.addTransition h (toName h.attr a) (if a = s then Src.all else Src.one s) (Dst.to a) true with
    | mk h' err =>
      have hs : h'.states = h.states ∧ h'.initial = h.initial ∧ h'.attr = h.attr ∧ h'.auto = h.auto ∧ h'.override = h.override := by
        by_cases hne : toName h.attr a = h.attr
        · rw [hne, addTransition_attr_raises] at hr; injection hr with h1 _; subst h1; exact ⟨rfl, rfl, rfl, rfl, rfl⟩
        · have sh := (addTransition_shape h _ (if a = s then Src.all else Src.one s) (Dst.to a) true hne).2.1
          rw [hr] at sh; exact ⟨sh.states, sh.initial, sh.attr, sh.auto, sh.override⟩
      cases err with
      | none =>
        obtain ⟨i1, i2, i3, i4, i5⟩ := autoLoop_states s r h'
        exact ⟨i1.trans hs.1, i2.trans hs.2.1, i3.trans hs.2.2.1, i4.trans hs.2.2.2.1, i5.trans hs.2.2.2.2⟩
      | some e => exact hs

theorem addState_states (hm : HM) (s : Name) :
    (addState hm s).1.states = (if s ∈ hm.states then hm.states else hm.states ++ [s]) ∧
    (addState hm s).1.initial = hm.initial ∧ (addState hm s).1.attr = hm.attr ∧ (addState hm s).1.auto = hm.auto ∧
    (addState hm s).1.override = hm.override := by
  rw [addState_eq]; split
  · exact autoLoop_states s _ _
  · exact ⟨rfl, rfl, rfl, rfl, rfl⟩

/-- transfer of the invariant to a machine with the same attribute, states and events -/
theorem Inv.of_parts {hm hm' : HM} (h : Inv hm) (ha : hm'.attr = hm.attr) (hs : hm'.states = hm.states)
    (he : hm'.events = hm.events) (hi : ∀ i, hm'.initial = some i → i ∈ hm'.states)
    (ho : ∀ m o, (m, o) ∈ hm'.objs → ObjOK hm' o) (hn : (keys hm'.objs).Nodup) : Inv hm' :=
  ⟨by rw [ha]; exact h.attrOK, ho, by rw [he, ha]; exact h.evNe, hi, hn, by rw [he]; exact h.nodupE,
    by rw [hs]; exact h.nodupS⟩

theorem ObjOK.congr {hm hm' : HM} (ha : hm'.attr = hm.attr) (hs : hm'.states = hm.states)
    (he : hm'.events = hm.events) {o : Obj} (h : ObjOK hm o) : ObjOK hm' o :=
  h.mono ha (by rw [hs]; exact fun _ h => h) (by rw [he]; exact fun _ h => h)

theorem Inv.sameKeys {hm hm' : HM} (h : Inv hm) (ha : hm'.attr = hm.attr) (hs : hm'.states = hm.states)
    (hk : keys hm'.events = keys hm.events) (hi : hm'.initial = hm.initial) (ho : hm'.objs = hm.objs) : Inv hm' :=
  ⟨by rw [ha]; exact h.attrOK,
    fun m o hmo => (h.objs m o (ho ▸ hmo)).mono ha (by rw [hs]; exact fun _ h => h) (by rw [hk]; exact fun _ h => h),
    by rw [hk, ha]; exact h.evNe, by rw [hi, hs]; exact h.init, by rw [ho]; exact h.nodupM, by rw [hk]; exact h.nodupE,
    by rw [hs]; exact h.nodupS⟩

theorem Inv.withInitial {hm : HM} (h : Inv hm) {s : Name} (hs : s ∈ hm.states) : Inv { hm with initial := some s } :=
  h.of_parts rfl rfl rfl (fun i hi => by injection hi with hi; subst hi; exact hs)
    (fun m o hmo => ⟨(h.objs m o hmo).cls, (h.objs m o hmo).inst, (h.objs m o hmo).st⟩) h.nodupM

theorem Inv.setInitial {hm : HM} (h : Inv hm) (s : Name) : Inv (setInitial hm s).1 := by
  unfold Helpers.setInitial
  by_cases hs : s ∈ hm.states
  · simp only [hs, if_true]; exact h.withInitial hs
  · simp only [hs, if_false]
    have hi := h.addState s
    have hst := (addState_states hm s).1
    cases hr : Helpers.addState hm s with
    | mk h' err =>
      rw [hr] at hi hst
      cases err with
      | some e => exact hi
      | none =>
        show Inv { h' with initial := some s }
        exact hi.withInitial (by show s ∈ h'.states; rw [hst]; simp [hs])

/-! #### add_model -/

theorem fold_addTrigger_ok {hm : HM} (ha : AttrOK hm.attr) (hne : ∀ e ∈ keys hm.events, e ≠ hm.attr) :
    ∀ (l : List (Name × List Tr)) (o : Obj), (∀ ev ∈ l, ev.1 ∈ keys hm.events) → ObjOK hm o →
      ObjOK hm (l.foldl (fun o ev => addTriggerToModel hm.override ev.1 o) o)
  | [], o, _, h => h
  | ev :: r, o, hl, h => by
    simp only [List.foldl_cons]
    exact fold_addTrigger_ok ha hne r _ (fun x hx => hl x (List.mem_cons_of_mem _ hx))
      (h.addTrigger ha ev.1 (hl ev (List.mem_cons_self ..)) (hne _ (hl ev (List.mem_cons_self ..))))

theorem fold_addModelToState_ok {hm : HM} :
    ∀ (l : List Name) (o : Obj), (∀ s ∈ l, s ∈ hm.states) → ObjOK hm o →
      ObjOK hm (l.foldl (fun o s => addModelToState hm.override hm.attr s o) o)
  | [], o, _, h => h
  | s :: r, o, hl, h => by
    simp only [List.foldl_cons]
    exact fold_addModelToState_ok r _ (fun x hx => hl x (List.mem_cons_of_mem _ hx))
      (h.addModelToState s (hl s (List.mem_cons_self ..)))

/-- `ObjOK` without the clause about the state attribute (a model before `set_state`) -/
structure PreOK (hm : HM) (o : Obj) : Prop where
  cls : ∀ n b, kget n o.cls = some b → b.isUser = true
  inst : InstOK hm o

theorem OKB_of_isUser (hm : HM) (n : Name) (b : Binding) (h : b.isUser = true) : OKB hm n b := by
  cases b <;> simp [Binding.isUser] at h <;> trivial

theorem PreOK.checkedAssign {hm : HM} {o : Obj} (h : PreOK hm o) (ov : Bool) (n : Name) (b : Binding)
    (hb : OKB hm n b) : PreOK hm (checkedAssign ov o n b) := by
  refine ⟨by simpa using h.cls, ?_⟩
  intro n' b' h'
  rcases kget_inst_checkedAssign ov o n n' b b' h' with ⟨rfl, rfl⟩ | h''
  · exact hb
  · exact h.inst n' b' h''

theorem PreOK.fold_addTrigger {hm : HM} :
    ∀ (l : List (Name × List Tr)) (o : Obj), (∀ ev ∈ l, ev.1 ∈ keys hm.events) → PreOK hm o →
      PreOK hm (l.foldl (fun o ev => addTriggerToModel hm.override ev.1 o) o)
  | [], o, _, h => h
  | ev :: r, o, hl, h => by
    simp only [List.foldl_cons]
    refine PreOK.fold_addTrigger r _ (fun x hx => hl x (List.mem_cons_of_mem _ hx)) ?_
    unfold addTriggerToModel
    exact (h.checkedAssign hm.override ev.1 (.trigger ev.1) ⟨rfl, hl ev (List.mem_cons_self ..)⟩).checkedAssign
      hm.override (mayName ev.1) (.may ev.1) rfl

theorem PreOK.fold_addModelToState {hm : HM} :
    ∀ (l : List Name) (o : Obj), (∀ s ∈ l, s ∈ hm.states) → PreOK hm o →
      PreOK hm (l.foldl (fun o s => addModelToState hm.override hm.attr s o) o)
  | [], o, _, h => h
  | s :: r, o, hl, h => by
    simp only [List.foldl_cons]
    refine PreOK.fold_addModelToState r _ (fun x hx => hl x (List.mem_cons_of_mem _ hx)) ?_
    unfold addModelToState
    exact h.checkedAssign hm.override (isName hm.attr s) (.isState s) ⟨rfl, hl s (List.mem_cons_self ..)⟩

theorem bindModel_preOK (hm : HM) (o : Obj) (hf : o.Fresh) : PreOK hm (bindModel hm o) := by
  unfold bindModel
  have h0 : PreOK hm o := ⟨hf.1, fun n b hb => OKB_of_isUser hm n b (hf.2 n b hb)⟩
  have h1 := (h0.checkedAssign hm.override sTrigger .triggerFn rfl).checkedAssign hm.override sMayTrigger .mayTriggerFn rfl
  have h2 := PreOK.fold_addTrigger hm.events _ (fun ev hev => List.mem_map_of_mem (f := (·.1)) hev) h1
  exact PreOK.fold_addModelToState hm.states _ (fun s hs => hs) h2

theorem Inv.addModel {hm : HM} (h : Inv hm) (m : Nat) (o : Obj) (hf : o.Fresh) : Inv (addModel hm m o).1 := by
  unfold Helpers.addModel
  cases hi : hm.initial with
  | none => exact h
  | some i =>
    simp only
    cases hk : kget m hm.objs with
    | some x => simpa using h
    | none =>
      simp only [Option.isSome_none, Bool.false_eq_true, if_false]
      split
      · rename_i his
        have hpre := bindModel_preOK hm o hf
        refine h.of_parts rfl rfl rfl (fun j hj => ?_) ?_ ?_
        · exact h.init j (by rw [hi]; exact hj)
        · intro m' o' hmo
          rcases List.mem_append.mp hmo with h1 | h1
          · exact ⟨(h.objs m' o' h1).cls, (h.objs m' o' h1).inst, (h.objs m' o' h1).st⟩
          · simp only [List.mem_singleton, Prod.mk.injEq] at h1
            obtain ⟨_, rfl⟩ := h1
            refine ⟨hpre.cls, ?_, ⟨i, by simp [Obj.setattr, kget_kset_self]⟩⟩
            intro n b hb
            by_cases hn : n = hm.attr
            · subst hn
              simp only [Obj.setattr, kget_kset_self] at hb
              injection hb with hb; subst hb; exact ⟨rfl, his⟩
            · simp only [Obj.setattr, kget_kset_ne _ _ _ _ hn] at hb
              exact OKB.mono rfl (fun _ h => h) (fun _ h => h) (hpre.inst n b hb)
        · show (keys (hm.objs ++ [_])).Nodup
          rw [keys_append]
          exact List.nodup_append.mpr ⟨h.nodupM, by simp [keys], by
            intro a ha b hb; simp [keys] at hb; subst hb; intro hab; subst hab
            exact ((kget_none_iff _ _).mp hk) ha⟩
      · exact h


/-! #### remove_transition -/

theorem ObjOK.dropInst {hm hm' : HM} {o : Obj} (h : ObjOK hm o) (e : Name) (hne : e ≠ hm.attr)
    (ha : hm'.attr = hm.attr) (hs : hm'.states = hm.states)
    (he : ∀ e' ∈ keys hm.events, e' ≠ e → e' ∈ keys hm'.events) : ObjOK hm' (o.dropInst e) := by
  refine ⟨h.cls, ?_, ?_⟩
  · intro n b hb
    by_cases hn : n = e
    · subst hn; simp [Obj.dropInst, kget_kdel_self] at hb
    · simp only [Obj.dropInst, kget_kdel_ne _ _ _ hn] at hb
      have ok := h.inst n b hb
      cases b <;> simp only [OKB, ha, hs] at ok ⊢ <;> try exact ok
      exact ⟨ok.1, he _ ok.2 (by rw [← ok.1]; exact hn)⟩
  · rw [ha]
    obtain ⟨s, hs'⟩ := h.st
    exact ⟨s, by simp only [Obj.dropInst, kget_kdel_ne _ _ _ (Ne.symm hne)]; exact hs'⟩

/-- `_remove_trigger_from_model` either leaves the object alone or drops the machine's own entry -/
theorem removeTrigger_cases (e : Name) (o : Obj) :
    (removeTriggerFromModel e o = o ∧ ∀ b, kget e o.inst = some b → machineOwned e b = false) ∨
    (removeTriggerFromModel e o = o.dropInst e ∧ ∃ b, kget e o.inst = some b ∧ machineOwned e b = true) := by
  unfold removeTriggerFromModel
  cases hk : kget e o.inst with
  | none => exact Or.inl ⟨rfl, fun b hb => by cases hb⟩
  | some b =>
    cases hb : machineOwned e b with
    | true => exact Or.inr ⟨by simp [hb], b, rfl, hb⟩
    | false => exact Or.inl ⟨by simp [hb], fun b' hb' => by injection hb' with hb'; subst hb'; exact hb⟩

theorem ObjOK.removeTrigger {hm hm' : HM} {o : Obj} (h : ObjOK hm o) (e : Name) (hne : e ≠ hm.attr)
    (ha : hm'.attr = hm.attr) (hs : hm'.states = hm.states)
    (he : ∀ e' ∈ keys hm.events, e' ≠ e → e' ∈ keys hm'.events) : ObjOK hm' (removeTriggerFromModel e o) := by
  rcases removeTrigger_cases e o with ⟨h1, hno⟩ | ⟨h1, _⟩
  · rw [h1]
    refine ⟨h.cls, ?_, by rw [ha]; exact h.st⟩
    intro n b hb
    have ok := h.inst n b hb
    cases b <;> simp only [OKB, ha, hs] at ok ⊢ <;> try exact ok
    refine ⟨ok.1, he _ ok.2 ?_⟩
    intro heq
    have hn : n = e := ok.1.trans heq
    subst hn
    have := hno _ hb
    simp [machineOwned, heq] at this
  · rw [h1]; exact h.dropInst e hne ha hs he

theorem Inv.removeTransition {hm : HM} (h : Inv hm) (e : Name) (src dst : Option Name) :
    Inv (removeTransition hm e src dst).1 := by
  unfold Helpers.removeTransition
  cases hk : kget e hm.events with
  | none => exact h
  | some ts =>
    have hmem : e ∈ keys hm.events := mem_keys_of_kget hk
    have hne : e ≠ hm.attr := h.evNe e hmem
    simp only
    cases hf : ts.filter (keepTr src dst) with
    | cons t keep =>
      simp only
      exact h.sameKeys (hm' := { hm with events := kset e (t :: keep) hm.events }) rfl rfl
        (keys_kset_of_mem _ hmem) rfl rfl
    | nil =>
      simp only
      refine ⟨h.attrOK, ?_, ?_, h.init, ?_, ?_, h.nodupS⟩
      · intro m o' hmo
        obtain ⟨o, ho, rfl⟩ := mem_map_snd (f := removeTriggerFromModel e) hmo
        exact (h.objs m o ho).removeTrigger e hne rfl rfl (by
          intro e' he' hne'; show e' ∈ keys (kdel e hm.events); exact (mem_keys_kdel e e' hm.events).mpr ⟨he', hne'⟩)
      · intro e' he'
        have : e' ∈ keys (kdel e hm.events) := he'
        exact h.evNe e' ((mem_keys_kdel e e' hm.events).mp this).1
      · show (keys (hm.objs.map fun p => (p.1, removeTriggerFromModel e p.2))).Nodup
        rw [keys_map_snd]; exact h.nodupM
      · show (keys (kdel e hm.events)).Nodup
        have hsub : List.Sublist (keys (kdel e hm.events)) (keys hm.events) := by
          clear hk hmem hf
          induction hm.events with
          | nil => exact List.Sublist.slnil
          | cons hd t ih =>
            obtain ⟨k0, v0⟩ := hd
            by_cases hk0 : k0 = e
            · simp only [kdel, hk0, if_true, keys, List.map_cons]; exact List.Sublist.cons _ ih
            · simp only [kdel, hk0, if_false, keys, List.map_cons]; exact List.Sublist.cons_cons _ ih
        exact List.Nodup.sublist hsub h.nodupE

/-! #### events -/

theorem mem_kset {κ β : Type} [DecidableEq κ] {k k' : κ} {v v' : β} {l : List (κ × β)} (h : (k', v') ∈ kset k v l) :
    (k' = k ∧ v' = v) ∨ (k', v') ∈ l := by
  induction l with
  | nil => simp [kset] at h; exact Or.inl h
  | cons hd t ih =>
    obtain ⟨k0, v0⟩ := hd
    by_cases hk : k0 = k
    · simp only [kset, hk, if_true] at h
      rcases List.mem_cons.mp h with h | h
      · injection h with h1 h2; exact Or.inl ⟨h1, h2⟩
      · exact Or.inr (List.mem_cons_of_mem _ h)
    · simp only [kset, hk, if_false] at h
      rcases List.mem_cons.mp h with h | h
      · exact Or.inr (h ▸ List.mem_cons_self ..)
      · rcases ih h with h' | h'
        · exact Or.inl h'
        · exact Or.inr (List.mem_cons_of_mem _ h')

theorem Inv.fire {hm : HM} (h : Inv hm) (m : Nat) (e : Name) : Inv (fire hm m e).1 := by
  unfold Helpers.fire
  split
  · exact h
  · rename_i o hko
    split
    · exact h
    · split
      · exact h
      · split
        · exact h
        · split
          · exact h
          · split
            · exact h
            · split
              · exact h
              · rename_i d _
                split
                · rename_i hd
                  have hmo : (m, o) ∈ hm.objs := kget_mem _ _ _ hko
                  refine h.of_parts rfl rfl rfl h.init ?_ ?_
                  · intro m' o' hmo'
                    rcases mem_kset hmo' with ⟨_, rfl⟩ | h'
                    · have ok := h.objs m o hmo
                      refine ⟨ok.cls, ?_, ⟨d, by simp [Obj.setattr, kget_kset_self]⟩⟩
                      intro n b hb
                      by_cases hn : n = hm.attr
                      · subst hn
                        simp only [Obj.setattr, kget_kset_self] at hb
                        injection hb with hb; subst hb; exact ⟨rfl, hd⟩
                      · simp only [Obj.setattr, kget_kset_ne _ _ _ _ hn] at hb
                        exact ok.inst n b hb
                    · exact ⟨(h.objs m' o' h').cls, (h.objs m' o' h').inst, (h.objs m' o' h').st⟩
                  · show (keys (kset m _ hm.objs)).Nodup
                    rw [keys_kset_of_mem _ (mem_keys_of_kget hko)]; exact h.nodupM
                · exact h

/-! #### histories -/

/-- every object handed to `add_model` is fresh (carries nothing of this machine yet) -/
def OpsFresh (ops : List Op) : Prop := ∀ m o, Op.addModel m o ∈ ops → o.Fresh

def opsFreshB (ops : List Op) : Bool :=
  ops.all fun op => match op with
    | .addModel _ o => o.freshB
    | _ => true

theorem opsFresh_of_B {ops : List Op} (h : opsFreshB ops = true) : OpsFresh ops := by
  intro m o hmo
  simp only [opsFreshB, List.all_eq_true] at h
  exact Obj.fresh_of_freshB (h _ hmo)

theorem Inv.applyOp {hm : HM} (h : Inv hm) (op : Op) (hf : ∀ m o, op = .addModel m o → o.Fresh) : Inv (applyOp hm op).1 := by
  cases op with
  | setInitial s => exact h.setInitial s
  | addState s => exact h.addState s
  | addTransition e src dst pass => exact h.addTransition e src dst pass
  | removeTransition e src dst => exact h.removeTransition e src dst
  | addModel m o => exact h.addModel m o (hf m o rfl)
  | failing e => exact h
  | fire m e => exact h.fire m e

theorem Inv.run : ∀ (ops : List Op) (hm : HM), Inv hm → OpsFresh ops → Inv (run hm ops)
  | [], _, h, _ => h
  | op :: r, hm, h, hf => by
    unfold Helpers.run
    exact Inv.run r _ (h.applyOp op (fun m o he => hf m o (he ▸ List.mem_cons_self ..)))
      (fun m o hmo => hf m o (List.mem_cons_of_mem _ hmo))

theorem Inv.new (attr : Name) (ov auto : Bool) (ha : AttrOK attr) : Inv (HM.new attr ov auto) :=
  ⟨ha, (fun m o h => by cases h), (fun e h => by cases h), (fun i h => by cases h), List.nodup_nil, List.nodup_nil,
    List.nodup_nil⟩


/-! ### constants of a machine -/

structure SameConsts (hm hm' : HM) : Prop where
  attr : hm'.attr = hm.attr
  override : hm'.override = hm.override
  auto : hm'.auto = hm.auto

theorem SameConsts.refl (hm : HM) : SameConsts hm hm := ⟨rfl, rfl, rfl⟩
theorem SameConsts.trans {a b c : HM} (h1 : SameConsts a b) (h2 : SameConsts b c) : SameConsts a c :=
  ⟨h2.attr.trans h1.attr, h2.override.trans h1.override, h2.auto.trans h1.auto⟩

theorem addTransition_consts (hm : HM) (e : Name) (src : Src) (dst : Dst) (pass : Bool) :
    SameConsts hm (addTransition hm e src dst pass).1 := by
  by_cases hne : e = hm.attr
  · subst hne; rw [addTransition_attr_raises]; exact SameConsts.refl _
  · have sh := (addTransition_shape hm e src dst pass hne).2.1
    exact ⟨sh.attr, sh.override, sh.auto⟩

theorem addState_consts (hm : HM) (s : Name) : SameConsts hm (addState hm s).1 := by
  obtain ⟨_, _, a, b, c⟩ := addState_states hm s
  exact ⟨a, c, b⟩

theorem setInitial_consts (hm : HM) (s : Name) : SameConsts hm (setInitial hm s).1 := by
  unfold Helpers.setInitial
  split
  · exact ⟨rfl, rfl, rfl⟩
  · have := addState_consts hm s
    cases hr : Helpers.addState hm s with
    | mk h' err =>
      rw [hr] at this
      cases err with
      | none => exact ⟨this.attr, this.override, this.auto⟩
      | some e => exact this

theorem addModel_consts (hm : HM) (m : Nat) (o : Obj) : SameConsts hm (addModel hm m o).1 := by
  unfold Helpers.addModel
  split
  · exact SameConsts.refl _
  · split
    · exact SameConsts.refl _
    · split
      · exact ⟨rfl, rfl, rfl⟩
      · exact SameConsts.refl _

theorem removeTransition_consts (hm : HM) (e : Name) (src dst : Option Name) :
    SameConsts hm (removeTransition hm e src dst).1 := by
  unfold Helpers.removeTransition
  split
  · exact SameConsts.refl _
  · split
    · exact ⟨rfl, rfl, rfl⟩
    · exact ⟨rfl, rfl, rfl⟩

theorem fire_consts (hm : HM) (m : Nat) (e : Name) : SameConsts hm (fire hm m e).1 := by
  unfold Helpers.fire
  repeat' split
  all_goals first | exact SameConsts.refl _ | exact ⟨rfl, rfl, rfl⟩

theorem applyOp_consts (hm : HM) (op : Op) : SameConsts hm (applyOp hm op).1 := by
  cases op with
  | setInitial s => exact setInitial_consts hm s
  | addState s => exact addState_consts hm s
  | addTransition e src dst pass => exact addTransition_consts hm e src dst pass
  | removeTransition e src dst => exact removeTransition_consts hm e src dst
  | addModel m o => exact addModel_consts hm m o
  | failing e => exact SameConsts.refl _
  | fire m e => exact fire_consts hm m e

theorem run_consts : ∀ (ops : List Op) (hm : HM), SameConsts hm (run hm ops)
  | [], hm => SameConsts.refl hm
  | op :: r, hm => (applyOp_consts hm op).trans (run_consts r _)


/-! ### machines without `model_override`: every helper is there, nothing of the model's is touched -/

/-- `getattr(model, name, None) is not None` -/
def Bnd (o : Obj) (n : Name) : Prop := o.unbound n = false

theorem Bnd.checkedAssign_other {o : Obj} {n' : Name} (h : Bnd o n') (n : Name) (b : Binding) :
    Bnd (checkedAssign false o n b) n' := by
  unfold Bnd at h ⊢
  by_cases hn : n' = n
  · subst hn
    have : checkedAssign false o n' b = o := by unfold checkedAssign; simp [h]
    rw [this]; exact h
  · unfold Obj.unbound at h ⊢
    rw [getattr_checkedAssign_ne _ _ _ _ _ hn]; exact h

theorem Bnd.checkedAssign_self (o : Obj) (n : Name) (b : Binding) (hb : b ≠ .userNone) :
    Bnd (checkedAssign false o n b) n := by
  unfold Bnd
  cases hu : o.unbound n with
  | false =>
    have : checkedAssign false o n b = o := by unfold checkedAssign; simp [hu]
    rw [this]; exact hu
  | true =>
    unfold Obj.unbound
    rw [getattr_checkedAssign_self]
    simp only [hu, Bool.true_bne, Bool.not_false, if_true]
    cases b <;> simp at hb ⊢

theorem Bnd.setattr_ne {o : Obj} {n' : Name} (h : Bnd o n') (n : Name) (b : Binding) (hn : n' ≠ n) :
    Bnd (o.setattr n b) n' := by
  unfold Bnd Obj.unbound at h ⊢
  rw [getattr_setattr_ne _ _ _ _ hn]; exact h

theorem getattr_dropInst_ne (o : Obj) (e n : Name) (hn : n ≠ e) : (o.dropInst e).getattr n = o.getattr n := by
  simp [Obj.getattr, Obj.dropInst, kget_kdel_ne _ _ _ hn]

theorem Bnd.dropInst_ne {o : Obj} {n' : Name} (h : Bnd o n') (e : Name) (hn : n' ≠ e) : Bnd (o.dropInst e) n' := by
  unfold Bnd Obj.unbound at h ⊢
  rw [getattr_dropInst_ne _ _ _ hn]; exact h

/-- "the model's own attributes are as the model defined them": same class, every non-None attribute
the model defined (other than the state attribute) is still the very same object -/
structure KeptFrom (attr : Name) (o0 o : Obj) : Prop where
  cls : o.cls = o0.cls
  user : ∀ n id, n ≠ attr → o0.getattr n = some (.user id) → o.getattr n = some (.user id)

theorem KeptFrom.refl (attr : Name) (o : Obj) : KeptFrom attr o o := ⟨rfl, fun _ _ _ h => h⟩

theorem KeptFrom.checkedAssign {attr : Name} {o0 o : Obj} (h : KeptFrom attr o0 o) (n : Name) (b : Binding) :
    KeptFrom attr o0 (Helpers.checkedAssign false o n b) := by
  refine ⟨by simpa using h.cls, ?_⟩
  intro n' id hn h0
  have h1 := h.user n' id hn h0
  by_cases hnn : n' = n
  · subst hnn
    have : Helpers.checkedAssign false o n' b = o := by unfold Helpers.checkedAssign; simp [Obj.unbound, h1]
    rw [this]; exact h1
  · rw [getattr_checkedAssign_ne _ _ _ _ _ hnn]; exact h1

theorem KeptFrom.setState {attr : Name} {o0 o : Obj} (h : KeptFrom attr o0 o) (b : Binding) :
    KeptFrom attr o0 (o.setattr attr b) :=
  ⟨h.cls, fun n id hn h0 => by rw [getattr_setattr_ne _ _ _ _ hn]; exact h.user n id hn h0⟩

theorem KeptFrom.removeTrigger {attr : Name} {o0 o : Obj} (h : KeptFrom attr o0 o) (e : Name) :
    KeptFrom attr o0 (removeTriggerFromModel e o) := by
  rcases removeTrigger_cases e o with ⟨h1, _⟩ | ⟨h1, b, hb, hown⟩
  · rw [h1]; exact h
  · rw [h1]
    refine ⟨h.cls, ?_⟩
    intro n id hn h0
    have hu := h.user n id hn h0
    by_cases hne : n = e
    · subst hne
      have : o.getattr n = some b := by simp [Obj.getattr, hb]
      rw [this] at hu; injection hu with hu; subst hu
      simp [machineOwned] at hown
    · rw [getattr_dropInst_ne _ _ _ hne]; exact hu

theorem Bnd.removeTrigger_ne {o : Obj} {n' : Name} (h : Bnd o n') (e : Name) (hn : n' ≠ e) :
    Bnd (removeTriggerFromModel e o) n' := by
  rcases removeTrigger_cases e o with ⟨h1, _⟩ | ⟨h1, _⟩
  · rw [h1]; exact h
  · rw [h1]; exact h.dropInst_ne e hn

/-- per registered model of a machine without `model_override`; `P m o0` says "`o0` is the object
that was handed to `add_model` for `m`"; `hyg` = no removed event is named like an `is_` helper or `trigger` -/
structure FObj (P : Nat → Obj → Prop) (hyg : Prop) (hm : HM) (m : Nat) (o : Obj) : Prop where
  orig : ∃ o0, P m o0 ∧ KeptFrom hm.attr o0 o
  /-- under name hygiene of the removed events (`hyg`): the `is_` helpers … -/
  isB : hyg → ∀ s ∈ hm.states, Bnd o (isName hm.attr s)
  evB : ∀ e ∈ keys hm.events, Bnd o e
  /-- … and `trigger` -/
  trB : hyg → Bnd o sTrigger

def FInv (P : Nat → Obj → Prop) (hyg : Prop) (hm : HM) : Prop := ∀ m o, (m, o) ∈ hm.objs → FObj P hyg hm m o

theorem FObj.addTrigger {P : Nat → Obj → Prop} {hyg : Prop} {hm hm' : HM} {m : Nat} {o : Obj} (h : FObj P hyg hm m o) (e : Name)
    (ha : hm'.attr = hm.attr) (hs : hm'.states = hm.states)
    (hk : ∀ e' ∈ keys hm'.events, e' ∈ keys hm.events ∨ e' = e) : FObj P hyg hm' m (addTriggerToModel false e o) := by
  unfold addTriggerToModel
  refine ⟨?_, ?_, ?_, ?_⟩
  · obtain ⟨o0, hp, hkf⟩ := h.orig
    exact ⟨o0, hp, by rw [ha]; exact (hkf.checkedAssign _ _).checkedAssign _ _⟩
  · intro hh s hs'; rw [ha]; rw [hs] at hs'
    exact ((h.isB hh s hs').checkedAssign_other _ _).checkedAssign_other _ _
  · intro e' he'
    rcases hk e' he' with h1 | h1
    · exact ((h.evB e' h1).checkedAssign_other _ _).checkedAssign_other _ _
    · subst h1; exact (Bnd.checkedAssign_self o e' (.trigger e') (by simp)).checkedAssign_other _ _
  · intro hh; exact ((h.trB hh).checkedAssign_other _ _).checkedAssign_other _ _

theorem FObj.mono {P : Nat → Obj → Prop} {hyg : Prop} {hm hm' : HM} {m : Nat} {o : Obj} (h : FObj P hyg hm m o)
    (ha : hm'.attr = hm.attr) (hs : hm'.states = hm.states) (hk : ∀ e' ∈ keys hm'.events, e' ∈ keys hm.events) :
    FObj P hyg hm' m o :=
  ⟨by rw [ha]; exact h.orig, by rw [ha, hs]; exact h.isB, fun e he => h.evB e (hk e he), h.trB⟩

theorem FInv.addTransition {P : Nat → Obj → Prop} {hyg : Prop} {hm : HM} (h : FInv P hyg hm) (hov : hm.override = false)
    (e : Name) (src : Src) (dst : Dst) (pass : Bool) : FInv P hyg (addTransition hm e src dst pass).1 := by
  by_cases hne : e = hm.attr
  · subst hne; rw [addTransition_attr_raises]; exact h
  · have sh := (addTransition_shape hm e src dst pass hne).2.1
    intro m o hmo
    rw [sh.objs] at hmo
    split at hmo
    · rename_i hmem
      exact (h m o hmo).mono sh.attr sh.states (by rw [sh.keysE]; simp [hmem])
    · rename_i hmem
      obtain ⟨o0, h0, rfl⟩ := mem_map_snd hmo
      rw [hov]
      exact (h m o0 h0).addTrigger e sh.attr sh.states (by
        intro e' he'; rw [sh.keysE] at he'; simp only [hmem, if_false] at he'
        rcases List.mem_append.mp he' with h1 | h1
        · exact Or.inl h1
        · exact Or.inr (by simpa using h1))

theorem autoLoop_finv {P : Nat → Obj → Prop} {hyg : Prop} (s : Name) : ∀ (l : List Name) (h : HM), h.override = false → FInv P hyg h →
    FInv P hyg (autoLoop s l h).1
  | [], h, _, hi => hi
  | a :: r, h, hov, hi => by
    unfold autoLoop
    have h1 := hi.addTransition hov (toName h.attr a) (if a = s then .all else .one s) (.to a) true
    have hc := addTransition_consts h (toName h.attr a) (if a = s then .all else .one s) (.to a) true
    cases hr : Helpers.addTransition h (toName h.attr a) (if a = s then Src.all else Src.one s) (Dst.to a) true with
    | mk h' err =>
      rw [hr] at h1 hc
      cases err with
      | none => exact autoLoop_finv s r h' (hc.override.trans hov) h1
      | some e => exact h1

theorem FInv.addState {P : Nat → Obj → Prop} {hyg : Prop} {hm : HM} (h : FInv P hyg hm) (hov : hm.override = false) (s : Name) :
    FInv P hyg (addState hm s).1 := by
  have hcore : FInv P hyg (addStateCore hm s) := by
    intro m o hmo
    obtain ⟨o0, h0, rfl⟩ := mem_map_snd (f := addModelToState hm.override hm.attr s) hmo
    have f0 := h m o0 h0
    rw [hov]
    unfold addModelToState
    refine ⟨?_, ?_, ?_, ?_⟩
    · obtain ⟨oo, hp, hkf⟩ := f0.orig
      exact ⟨oo, hp, hkf.checkedAssign _ _⟩
    · intro hh s' hs'
      have hs'' : s' ∈ hm.states ∨ s' = s := by
        simp only [Helpers.addStateCore] at hs'
        split at hs'
        · exact Or.inl hs'
        · rcases List.mem_append.mp hs' with h1 | h1
          · exact Or.inl h1
          · exact Or.inr (by simpa using h1)
      rcases hs'' with h1 | h1
      · exact (f0.isB hh s' h1).checkedAssign_other _ _
      · subst h1; exact Bnd.checkedAssign_self _ _ _ (by simp)
    · intro e he; exact (f0.evB e he).checkedAssign_other _ _
    · intro hh; exact (f0.trB hh).checkedAssign_other _ _
  rw [addState_eq]; split
  · exact autoLoop_finv s _ _ hov hcore
  · exact hcore

theorem FInv.setInitial {P : Nat → Obj → Prop} {hyg : Prop} {hm : HM} (h : FInv P hyg hm) (hov : hm.override = false) (s : Name) :
    FInv P hyg (setInitial hm s).1 := by
  unfold Helpers.setInitial
  by_cases hs : s ∈ hm.states
  · simp only [hs, if_true]
    intro m o hmo; exact (h m o hmo).mono rfl rfl (fun _ h => h)
  · simp only [hs, if_false]
    have hi := h.addState hov s
    cases hr : Helpers.addState hm s with
    | mk h' err =>
      rw [hr] at hi
      cases err with
      | some e => exact hi
      | none => intro m o hmo; exact (hi m o hmo).mono rfl rfl (fun _ h => h)

theorem fold_addTrigger_bnd : ∀ (l : List (Name × List Tr)) (o : Obj) (n : Name),
    (Bnd o n ∨ n ∈ keys l) → Bnd (l.foldl (fun o ev => addTriggerToModel false ev.1 o) o) n
  | [], o, n, h => by
    rcases h with h | h
    · exact h
    · cases h
  | ev :: r, o, n, h => by
    simp only [List.foldl_cons]
    refine fold_addTrigger_bnd r _ n ?_
    unfold addTriggerToModel
    rcases h with h | h
    · exact Or.inl ((h.checkedAssign_other _ _).checkedAssign_other _ _)
    · simp only [keys, List.map_cons, List.mem_cons] at h
      rcases h with h | h
      · subst h; exact Or.inl ((Bnd.checkedAssign_self o ev.1 (.trigger ev.1) (by simp)).checkedAssign_other _ _)
      · exact Or.inr h

theorem fold_addModelToState_bnd (attr : Name) : ∀ (l : List Name) (o : Obj) (n : Name),
    (Bnd o n ∨ ∃ s ∈ l, n = isName attr s) → Bnd (l.foldl (fun o s => addModelToState false attr s o) o) n
  | [], o, n, h => by
    rcases h with h | ⟨s, hs, _⟩
    · exact h
    · cases hs
  | s :: r, o, n, h => by
    simp only [List.foldl_cons]
    refine fold_addModelToState_bnd attr r _ n ?_
    unfold addModelToState
    rcases h with h | ⟨s', hs', hn⟩
    · exact Or.inl (h.checkedAssign_other _ _)
    · rcases List.mem_cons.mp hs' with h1 | h1
      · subst h1; subst hn; exact Or.inl (Bnd.checkedAssign_self _ _ _ (by simp))
      · exact Or.inr ⟨s', h1, hn⟩

theorem fold_addTrigger_kept {attr : Name} {o0 : Obj} : ∀ (l : List (Name × List Tr)) (o : Obj), KeptFrom attr o0 o →
    KeptFrom attr o0 (l.foldl (fun o ev => addTriggerToModel false ev.1 o) o)
  | [], _, h => h
  | ev :: r, o, h => by
    simp only [List.foldl_cons]
    exact fold_addTrigger_kept r _ (by unfold addTriggerToModel; exact (h.checkedAssign _ _).checkedAssign _ _)

theorem fold_addModelToState_kept {attr : Name} {o0 : Obj} : ∀ (l : List Name) (o : Obj), KeptFrom attr o0 o →
    KeptFrom attr o0 (l.foldl (fun o s => addModelToState false attr s o) o)
  | [], _, h => h
  | s :: r, o, h => by
    simp only [List.foldl_cons]
    exact fold_addModelToState_kept r _ (by unfold addModelToState; exact h.checkedAssign _ _)

theorem FInv.addModel {P : Nat → Obj → Prop} {hyg : Prop} {hm : HM} (h : FInv P hyg hm) (hov : hm.override = false)
    (m : Nat) (o : Obj) (hp : P m o) : FInv P hyg (addModel hm m o).1 := by
  unfold Helpers.addModel
  cases hi : hm.initial with
  | none => exact h
  | some i =>
    simp only
    cases hk : kget m hm.objs with
    | some x => simpa using h
    | none =>
      simp only [Option.isSome_none, Bool.false_eq_true, if_false]
      split
      · intro m' o' hmo
        rcases List.mem_append.mp hmo with h1 | h1
        · exact (h m' o' h1).mono rfl rfl (fun _ h => h)
        · simp only [List.mem_singleton, Prod.mk.injEq] at h1
          obtain ⟨rfl, rfl⟩ := h1
          have hb : ∀ n, (n = sTrigger ∨ n ∈ keys hm.events ∨ ∃ s ∈ hm.states, n = isName hm.attr s) →
              Bnd (bindModel hm o) n := by
            intro n hn
            unfold bindModel
            rw [hov]
            refine fold_addModelToState_bnd hm.attr hm.states _ n ?_
            rcases hn with h1 | h1 | h1
            · subst h1
              exact Or.inl (fold_addTrigger_bnd hm.events _ _
                (Or.inl ((Bnd.checkedAssign_self o sTrigger .triggerFn (by simp)).checkedAssign_other _ _)))
            · exact Or.inl (fold_addTrigger_bnd hm.events _ _ (Or.inr h1))
            · exact Or.inr h1
          have hne : ∀ n, n ≠ hm.attr → Bnd (bindModel hm o) n →
              Bnd ((bindModel hm o).setattr hm.attr (.value i)) n := fun n hn hb => hb.setattr_ne _ _ hn
          refine ⟨⟨o, hp, ?_⟩, ?_, ?_, ?_⟩
          · refine KeptFrom.setState ?_ _
            unfold bindModel
            rw [hov]
            exact fold_addModelToState_kept _ _ (fold_addTrigger_kept _ _
              (((KeptFrom.refl _ o).checkedAssign _ _).checkedAssign _ _))
          · intro _ s hs
            exact hne _ (isName_ne_attr _ _) (hb _ (Or.inr (Or.inr ⟨s, hs, rfl⟩)))
          · intro e he
            by_cases hea : e = hm.attr
            · subst hea
              show ((bindModel hm o).setattr hm.attr (.value i)).unbound hm.attr = false
              simp [Obj.unbound, getattr_setattr_self]
            · exact hne _ hea (hb _ (Or.inr (Or.inl he)))
          · intro _
            by_cases hta : sTrigger = hm.attr
            · show ((bindModel hm o).setattr hm.attr (.value i)).unbound sTrigger = false
              rw [hta]; simp [Obj.unbound, getattr_setattr_self]
            · exact hne _ hta (hb _ (Or.inl rfl))
      · exact h

/-- name hygiene of a removal: the removed event is not named like an `is_` helper or like `trigger`
(`_remove_trigger_from_model` deletes whatever partial of the machine sits under the event's name) -/
structure RemOK (e : Name) : Prop where
  notIs : ¬ sIs <+: e
  notTrigger : e ≠ sTrigger

theorem getattr_none_split {o : Obj} {n : Name} (h : o.getattr n = none) : kget n o.inst = none ∧ kget n o.cls = none := by
  unfold Obj.getattr at h
  cases hi : kget n o.inst with
  | some b => simp [hi] at h
  | none => simp [hi] at h; exact ⟨rfl, h⟩

theorem isName_prefix (attr s : Name) : sIs <+: isName attr s := List.prefix_append _ _

theorem FInv.removeTransition {P : Nat → Obj → Prop} {hyg : Prop} {hm : HM} (h : FInv P hyg hm) (e : Name)
    (src dst : Option Name) (hr : hyg → RemOK e) : FInv P hyg (removeTransition hm e src dst).1 := by
  unfold Helpers.removeTransition
  cases hk : kget e hm.events with
  | none => exact h
  | some ts =>
    have hmem : e ∈ keys hm.events := mem_keys_of_kget hk
    simp only
    cases hf : ts.filter (keepTr src dst) with
    | cons t keep =>
      simp only
      intro m o hmo
      exact (h m o hmo).mono rfl rfl (by
        intro e' he'; have : e' ∈ keys (kset e (t :: keep) hm.events) := he'
        rwa [keys_kset_of_mem _ hmem] at this)
    | nil =>
      simp only
      intro m o' hmo
      obtain ⟨o, ho, rfl⟩ := mem_map_snd (f := removeTriggerFromModel e) hmo
      have f := h m o ho
      refine ⟨?_, ?_, ?_, ?_⟩
      · obtain ⟨o0, hp, hkf⟩ := f.orig
        exact ⟨o0, hp, hkf.removeTrigger e⟩
      · intro hh s hs
        exact (f.isB hh s hs).removeTrigger_ne e (by intro he; exact (hr hh).notIs (he ▸ isName_prefix _ _))
      · intro e' he'
        have := (mem_keys_kdel e e' hm.events).mp he'
        exact (f.evB e' this.1).removeTrigger_ne e this.2
      · intro hh; exact (f.trB hh).removeTrigger_ne e (Ne.symm (hr hh).notTrigger)

theorem FInv.fire {P : Nat → Obj → Prop} {hyg : Prop} {hm : HM} (h : FInv P hyg hm) (m : Nat) (e : Name) :
    FInv P hyg (fire hm m e).1 := by
  unfold Helpers.fire
  split
  · exact h
  · rename_i o hko
    split
    · exact h
    · split
      · exact h
      · split
        · exact h
        · split
          · exact h
          · split
            · exact h
            · split
              · exact h
              · rename_i d _
                split
                · have hmo : (m, o) ∈ hm.objs := kget_mem _ _ _ hko
                  intro m' o' hmo'
                  rcases mem_kset hmo' with ⟨rfl, rfl⟩ | h'
                  · have f := h m' o hmo
                    refine ⟨?_, ?_, ?_, ?_⟩
                    · obtain ⟨o0, hp, hkf⟩ := f.orig
                      exact ⟨o0, hp, hkf.setState _⟩
                    · intro hh s hs; exact (f.isB hh s hs).setattr_ne _ _ (isName_ne_attr _ _)
                    · intro e' he'
                      by_cases hea : e' = hm.attr
                      · subst hea
                        show (o.setattr hm.attr (.value d)).unbound hm.attr = false
                        simp [Obj.unbound, getattr_setattr_self]
                      · exact (f.evB e' he').setattr_ne _ _ hea
                    · intro hh
                      by_cases hta : sTrigger = hm.attr
                      · show (o.setattr hm.attr (.value d)).unbound sTrigger = false
                        rw [hta]; simp [Obj.unbound, getattr_setattr_self]
                      · exact (f.trB hh).setattr_ne _ _ hta
                  · exact (h m' o' h').mono rfl rfl (fun _ h => h)
                · exact h

/-- name hygiene of a history (needed only for the `is_` helpers and `trigger`): no removed event is named like
an `is_` helper or like `trigger` -/
def RemHyg (ops : List Op) : Prop := ∀ e src dst, Op.removeTransition e src dst ∈ ops → RemOK e

theorem FInv.run {hyg : Prop} (all : List Op) : ∀ (ops : List Op) (hm : HM), hm.override = false →
    FInv (fun m o => Op.addModel m o ∈ all) hyg hm → (hyg → RemHyg ops) → (∀ op ∈ ops, op ∈ all) →
    FInv (fun m o => Op.addModel m o ∈ all) hyg (run hm ops)
  | [], _, _, h, _, _ => h
  | op :: r, hm, hov, h, hf, hsub => by
    unfold Helpers.run
    have hc := applyOp_consts hm op
    refine FInv.run all r _ (hc.override.trans hov) ?_ (fun hh e s d hm' => hf hh e s d (List.mem_cons_of_mem _ hm'))
      (fun op' h' => hsub op' (List.mem_cons_of_mem _ h'))
    cases op with
    | setInitial s => exact h.setInitial hov s
    | addState s => exact h.addState hov s
    | addTransition e src dst pass => exact h.addTransition hov e src dst pass
    | removeTransition e src dst => exact h.removeTransition e src dst (fun hh => hf hh e src dst (List.mem_cons_self ..))
    | addModel m o => exact h.addModel hov m o (hsub _ (List.mem_cons_self ..))
    | failing e => exact h
    | fire m e => exact h.fire m e

/-! ### auto transitions -/

theorem infixed_inj (attr a b : Name) (h : infixed attr a = infixed attr b) : a = b := by
  unfold infixed at h
  split at h
  · exact h
  · have h2 := List.append_cancel_left h
    injection h2

theorem toName_inj (attr a b : Name) (h : toName attr a = toName attr b) : a = b :=
  infixed_inj attr a b (List.append_cancel_left h)

theorem isName_inj (attr a b : Name) (h : isName attr a = isName attr b) : a = b :=
  infixed_inj attr a b (List.append_cancel_left h)

theorem toName_prefix (attr s : Name) : sTo <+: toName attr s := List.prefix_append _ _

theorem toName_ne_attr (attr s : Name) : toName attr s ≠ attr := by
  unfold toName infixed
  split
  · rename_i h; subst h; simp [sTo, sState]
  · intro h
    have := congrArg List.length h
    simp [sTo] at this
    omega

/-- some transition of `to_<d>` leaves from `s` -/
def Cov (hm : HM) (s d : Name) : Prop :=
  ∃ ts, kget (toName hm.attr d) hm.events = some ts ∧ ∃ t ∈ ts, t.source = s

/-- every event named like an auto transition IS one: only on machines with auto transitions, named
after a registered state, all its transitions lead there unconditionally from registered states -/
def AutoShape (hm : HM) : Prop :=
  ∀ e ts, kget e hm.events = some ts → sTo <+: e →
    hm.auto = true ∧ ∃ d ∈ hm.states, e = toName hm.attr d ∧
      ∀ t ∈ ts, t.dest = some d ∧ t.pass = true ∧ t.source ∈ hm.states

structure AutoInv (hm : HM) : Prop where
  cover : hm.auto = true → ∀ s ∈ hm.states, ∀ d ∈ hm.states, Cov hm s d
  shape : AutoShape hm

/-- a user-level `add_transition`: the event is not named like an auto transition -/
theorem AutoInv.addTransition_user {hm : HM} (h : AutoInv hm) (e : Name) (src : Src) (dst : Dst) (pass : Bool)
    (hu : ¬ sTo <+: e) : AutoInv (addTransition hm e src dst pass).1 := by
  by_cases hne : e = hm.attr
  · subst hne; rw [addTransition_attr_raises]; exact h
  · obtain ⟨_, sh, _⟩ := addTransition_shape hm e src dst pass hne
    generalize (Helpers.addTransition hm e src dst pass).1 = hm' at *
    have hoth : ∀ e', sTo <+: e' → kget e' hm'.events = kget e' hm.events :=
      fun e' he' => sh.other e' (by intro h1; subst h1; exact hu he')
    refine ⟨?_, ?_⟩
    · intro ha s hs d hd
      rw [sh.auto] at ha; rw [sh.states] at hs hd
      obtain ⟨ts, hk, ht⟩ := h.cover ha s hs d hd
      exact ⟨ts, by rw [sh.attr, hoth _ (toName_prefix _ _)]; exact hk, ht⟩
    · intro e' ts hk hp
      rw [hoth e' hp] at hk
      rw [sh.auto, sh.states, sh.attr]
      exact h.shape e' ts hk hp

/-- the auto-transition call of `add_states` for the pair (`a`, new state `s`) -/
theorem AutoShape.addTransition_auto {hm : HM} (h : AutoShape hm) (ha : hm.auto = true) (s a : Name)
    (hs : s ∈ hm.states) (has : a ∈ hm.states) :
    let hm' := (addTransition hm (toName hm.attr a) (if a = s then Src.all else Src.one s) (Dst.to a) true).1
    (addTransition hm (toName hm.attr a) (if a = s then Src.all else Src.one s) (Dst.to a) true).2 = none ∧
    AutoShape hm' ∧ (∀ x y, Cov hm x y → Cov hm' x y) ∧
    (a = s → ∀ x ∈ hm.states, Cov hm' x s) ∧ (a ≠ s → Cov hm' s a) := by
  intro hm'
  obtain ⟨hnone, sh, hkey⟩ := addTransition_shape hm (toName hm.attr a) (if a = s then Src.all else Src.one s) (Dst.to a) true
    (toName_ne_attr _ _)
  have hmono : ∀ x y, Cov hm x y → Cov hm' x y := by
    intro x y ⟨ts, hk, t, ht, hts⟩
    by_cases hy : toName hm.attr y = toName hm.attr a
    · refine ⟨_, by rw [sh.attr, hy]; exact hkey, t, ?_, hts⟩
      rw [← hy, hk]; exact List.mem_append_left _ ht
    · exact ⟨ts, by rw [sh.attr, sh.other _ hy]; exact hk, t, ht, hts⟩
  refine ⟨hnone, ?_, hmono, ?_, ?_⟩
  · intro e ts hk hp
    rw [sh.auto, sh.states, sh.attr]
    by_cases he : e = toName hm.attr a
    · subst he
      rw [hkey] at hk; injection hk with hk
      refine ⟨ha, a, has, rfl, ?_⟩
      intro t ht
      rw [← hk] at ht
      rcases List.mem_append.mp ht with h1 | h1
      · cases hko : kget (toName hm.attr a) hm.events with
        | none => rw [hko] at h1; cases h1
        | some old =>
          rw [hko] at h1
          obtain ⟨_, d, hd, hde, hall⟩ := h _ old hko hp
          have : a = d := toName_inj _ _ _ hde
          subst this
          exact hall t h1
      · obtain ⟨x, hx, rfl⟩ := List.mem_map.mp h1
        refine ⟨rfl, rfl, ?_⟩
        show x ∈ hm.states
        split at hx
        · exact hx
        · simp [Src.expand] at hx; rw [hx]; exact hs
    · rw [sh.other e he] at hk
      exact h e ts hk hp
  · intro has' x hx
    subst has'
    refine ⟨_, by rw [sh.attr]; exact hkey, mkTr (.to a) true x, ?_, rfl⟩
    apply List.mem_append_right
    simp only [if_true, Src.expand]
    exact List.mem_map_of_mem hx
  · intro has'
    refine ⟨_, by rw [sh.attr]; exact hkey, mkTr (.to a) true s, ?_, rfl⟩
    apply List.mem_append_right
    simp [has', Src.expand]

theorem autoLoop_auto (s : Name) : ∀ (l : List Name) (h : HM), AutoShape h → h.auto = true → s ∈ h.states →
    (∀ a ∈ l, a ∈ h.states) →
    AutoShape (autoLoop s l h).1 ∧ (∀ x y, Cov h x y → Cov (autoLoop s l h).1 x y) ∧
    (∀ a ∈ l, (a = s → ∀ x ∈ h.states, Cov (autoLoop s l h).1 x s) ∧ (a ≠ s → Cov (autoLoop s l h).1 s a))
  | [], h, hi, _, _, _ => ⟨hi, fun _ _ c => c, fun a ha => by cases ha⟩
  | a :: r, h, hi, hau, hs, hl => by
    unfold autoLoop
    obtain ⟨hnone, hi', hmono, h1, h2⟩ := hi.addTransition_auto hau s a hs (hl a (List.mem_cons_self ..))
    have hc := addTransition_consts h (toName h.attr a) (if a = s then Src.all else Src.one s) (Dst.to a) true
    have hst : (Helpers.addTransition h (toName h.attr a) (if a = s then Src.all else Src.one s) (Dst.to a) true).1.states = h.states :=
      (addTransition_shape h _ _ _ _ (toName_ne_attr _ _)).2.1.states
    cases hr : Helpers.addTransition h (toName h.attr a) (if a = s then Src.all else Src.one s) (Dst.to a) true with
    | mk h' err =>
      rw [hr] at hnone hi' hmono h1 h2 hc hst
      simp only at hnone hi' hmono h1 h2 hc hst
      subst hnone
      simp only
      obtain ⟨r1, r2, r3⟩ := autoLoop_auto s r h' hi' (hc.auto.trans hau) (by rw [hst]; exact hs)
        (fun x hx => by rw [hst]; exact hl x (List.mem_cons_of_mem _ hx))
      refine ⟨r1, fun x y c => r2 x y (hmono x y c), ?_⟩
      intro b hb
      rcases List.mem_cons.mp hb with hb | hb
      · subst hb
        exact ⟨fun e x hx => r2 _ _ (h1 e x hx), fun e => r2 _ _ (h2 e)⟩
      · have := r3 b hb
        exact ⟨fun e x hx => this.1 e x (by rw [hst]; exact hx), this.2⟩

theorem mem_core_states {hm : HM} {s x : Name} (h : x ∈ (addStateCore hm s).states) : x ∈ hm.states ∨ x = s := by
  simp only [Helpers.addStateCore] at h
  split at h
  · exact Or.inl h
  · rcases List.mem_append.mp h with h1 | h1
    · exact Or.inl h1
    · exact Or.inr (by simpa using h1)

theorem AutoInv.addState {hm : HM} (h : AutoInv hm) (s : Name) : AutoInv (addState hm s).1 := by
  have hsub : ∀ x ∈ hm.states, x ∈ (addStateCore hm s).states := by
    intro x hx; simp only [Helpers.addStateCore]; split
    · exact hx
    · exact List.mem_append_left _ hx
  have hs : s ∈ (addStateCore hm s).states := by
    simp only [Helpers.addStateCore]; split
    · assumption
    · simp
  have hshape : AutoShape (addStateCore hm s) := by
    intro e ts hk hp
    obtain ⟨a, d, hd, he, hall⟩ := h.shape e ts hk hp
    exact ⟨a, d, hsub d hd, he, fun t ht => ⟨(hall t ht).1, (hall t ht).2.1, hsub _ (hall t ht).2.2⟩⟩
  rw [addState_eq]
  cases hau : hm.auto with
  | false =>
    simp only [Bool.false_eq_true, if_false]
    exact ⟨(fun ha => by rw [show (addStateCore hm s).auto = hm.auto from rfl, hau] at ha; cases ha), hshape⟩
  | true =>
    simp only [if_true]
    obtain ⟨r1, r2, r3⟩ := autoLoop_auto s (addStateCore hm s).states (addStateCore hm s) hshape hau hs (fun _ h => h)
    obtain ⟨hst, _, hat, _, _⟩ := autoLoop_states s (addStateCore hm s).states (addStateCore hm s)
    refine ⟨?_, r1⟩
    intro _ x hx d hd
    rw [hst] at hx hd
    by_cases hxs : x = s
    · subst hxs
      by_cases hds : d = x
      · subst hds; exact (r3 d hd).1 rfl d hd
      · exact (r3 d hd).2 hds
    · by_cases hds : d = s
      · subst hds; exact (r3 d hd).1 rfl x hx
      · have hx' : x ∈ hm.states := (mem_core_states hx).resolve_right hxs
        have hd' : d ∈ hm.states := (mem_core_states hd).resolve_right hds
        exact r2 x d (h.cover hau x hx' d hd')

theorem AutoInv.setInitial {hm : HM} (h : AutoInv hm) (s : Name) : AutoInv (setInitial hm s).1 := by
  unfold Helpers.setInitial
  by_cases hs : s ∈ hm.states
  · simp only [hs, if_true]; exact ⟨h.cover, h.shape⟩
  · simp only [hs, if_false]
    have hi := h.addState s
    cases hr : Helpers.addState hm s with
    | mk h' err =>
      rw [hr] at hi
      cases err with
      | some e => exact hi
      | none => exact ⟨hi.cover, hi.shape⟩

theorem AutoInv.addModel {hm : HM} (h : AutoInv hm) (m : Nat) (o : Obj) : AutoInv (addModel hm m o).1 := by
  unfold Helpers.addModel
  split
  · exact h
  · split
    · exact h
    · split
      · exact ⟨h.cover, h.shape⟩
      · exact h

theorem AutoInv.fire {hm : HM} (h : AutoInv hm) (m : Nat) (e : Name) : AutoInv (fire hm m e).1 := by
  unfold Helpers.fire
  repeat' split
  all_goals first | exact h | exact ⟨h.cover, h.shape⟩

theorem AutoInv.removeTransition {hm : HM} (h : AutoInv hm) (e : Name) (src dst : Option Name) (hu : ¬ sTo <+: e) :
    AutoInv (removeTransition hm e src dst).1 := by
  have hne : ∀ e', sTo <+: e' → e' ≠ e := fun e' he' h1 => hu (h1 ▸ he')
  have hkeep : ∀ (evs : List (Name × List Tr)), (∀ e', e' ≠ e → kget e' evs = kget e' hm.events) →
      ∀ (objs : List (Nat × Obj)), AutoInv { hm with events := evs, objs := objs } := by
    intro evs hev objs
    refine ⟨?_, ?_⟩
    · intro ha x hx d hd
      obtain ⟨ts, hk, ht⟩ := h.cover ha x hx d hd
      exact ⟨ts, by show kget (toName hm.attr d) evs = _; rw [hev _ (hne _ (toName_prefix _ _))]; exact hk, ht⟩
    · intro e' ts hk hp
      have hk' : kget e' evs = some ts := hk
      rw [hev _ (hne _ hp)] at hk'
      exact h.shape e' ts hk' hp
  unfold Helpers.removeTransition
  cases hk : kget e hm.events with
  | none => exact h
  | some ts =>
    simp only
    cases hf : ts.filter (keepTr src dst) with
    | cons t keep =>
      simp only
      exact hkeep _ (fun e' he' => kget_kset_ne _ _ _ _ he') _
    | nil =>
      simp only
      exact hkeep _ (fun e' he' => kget_kdel_ne _ _ _ he') _

/-- name hygiene of a history: `add_transition` / `remove_transition` never name an event `to_…` -/
def UserEvents (ops : List Op) : Prop :=
  (∀ e src dst pass, Op.addTransition e src dst pass ∈ ops → ¬ sTo <+: e) ∧
  (∀ e src dst, Op.removeTransition e src dst ∈ ops → ¬ sTo <+: e)

theorem AutoInv.run : ∀ (ops : List Op) (hm : HM), AutoInv hm → UserEvents ops → AutoInv (run hm ops)
  | [], _, h, _ => h
  | op :: r, hm, h, hu => by
    unfold Helpers.run
    refine AutoInv.run r _ ?_ ⟨fun e s d p hm' => hu.1 e s d p (List.mem_cons_of_mem _ hm'),
      fun e s d hm' => hu.2 e s d (List.mem_cons_of_mem _ hm')⟩
    cases op with
    | setInitial s => exact h.setInitial s
    | addState s => exact h.addState s
    | addTransition e src dst pass => exact h.addTransition_user e src dst pass (hu.1 e src dst pass (List.mem_cons_self ..))
    | removeTransition e src dst => exact h.removeTransition e src dst (hu.2 e src dst (List.mem_cons_self ..))
    | addModel m o => exact h.addModel m o
    | failing e => exact h
    | fire m e => exact h.fire m e

theorem AutoInv.new (attr : Name) (ov auto : Bool) : AutoInv (HM.new attr ov auto) :=
  ⟨(fun _ s hs => by cases hs), (fun e ts hk _ => by cases hk)⟩


/-! ### hierarchical machines -/

theorem mem_descend {t : List Path} {e : Name} {a : Path} : a ∈ descend t e ↔ a ≠ [] ∧ (e :: a) ∈ t := by
  simp only [descend, List.mem_filterMap, List.mem_filter]
  constructor
  · rintro ⟨p, ⟨hp, hh⟩, hm⟩
    cases p with
    | nil => simp at hh
    | cons x r =>
      simp only [List.head?_cons, decide_eq_true_eq, Option.some.injEq] at hh
      subst hh
      simp only [List.tail_cons] at hm
      split at hm
      · cases hm
      · injection hm with hm; subst hm
        rename_i hne
        exact ⟨fun h => hne h, hp⟩
  · rintro ⟨hne, hm⟩
    refine ⟨e :: a, ⟨hm, by simp⟩, ?_⟩
    simp only [List.tail_cons]

theorem any_head_iff {t : List Path} {e : Name} : (t.any fun p => p.head? = some e) = true ↔ ∃ r, (e :: r) ∈ t := by
  simp only [List.any_eq_true, decide_eq_true_eq]
  constructor
  · rintro ⟨p, hp, hh⟩
    cases p with
    | nil => simp at hh
    | cons x r => simp at hh; subst hh; exact ⟨r, hp⟩
  · rintro ⟨r, hr⟩; exact ⟨e :: r, hr, rfl⟩

/-- `is_state(…, allow_substates=True)`: the path is (a prefix of) an active path -/
theorem isStateH_allow : ∀ (p : Path) (t : List Path), isStateH t p true = true ↔ (p = [] ∨ ∃ a ∈ t, p <+: a)
  | [], t => by simp [isStateH]
  | e :: r, t => by
    unfold isStateH
    by_cases hany : (t.any fun p => p.head? = some e) = true
    · simp only [hany, if_true]
      rw [isStateH_allow r (descend t e)]
      obtain ⟨r0, hr0⟩ := any_head_iff.mp hany
      constructor
      · rintro (h | ⟨a, ha, hpre⟩)
        · subst h; exact Or.inr ⟨e :: r0, hr0, by simp⟩
        · exact Or.inr ⟨e :: a, (mem_descend.mp ha).2, by simpa using hpre⟩
      · rintro (h | ⟨a, ha, hpre⟩)
        · cases h
        · cases a with
          | nil => simp at hpre
          | cons x a' =>
            obtain ⟨hx, hpre'⟩ : e = x ∧ r <+: a' := by simpa using hpre
            subst hx
            by_cases hr : r = []
            · exact Or.inl hr
            · refine Or.inr ⟨a', mem_descend.mpr ⟨?_, ha⟩, hpre'⟩
              intro h; subst h; exact hr (List.prefix_nil.mp hpre')
    · simp only [hany, if_false]
      constructor
      · intro h; cases h
      · rintro (h | ⟨a, ha, hpre⟩)
        · cases h
        · exfalso; apply hany
          cases a with
          | nil => simp at hpre
          | cons x a' =>
            obtain ⟨hx, _⟩ : e = x ∧ r <+: a' := by simpa using hpre
            subst hx; exact any_head_iff.mpr ⟨a', ha⟩

/-- `is_state(…)` without substates: the path is active and nothing active lies below it -/
theorem isStateH_exact : ∀ (p : Path) (t : List Path), (∀ a ∈ t, a ≠ []) →
    (isStateH t p false = true ↔ ((p = [] ∨ ∃ a ∈ t, p <+: a) ∧ ∀ a ∈ t, p <+: a → a = p))
  | [], t, hne => by
    simp only [isStateH, Bool.or_false, List.isEmpty_iff, true_or, List.nil_prefix, forall_const, true_and]
    constructor
    · intro h; subst h; intro a ha; cases ha
    · intro h
      cases t with
      | nil => rfl
      | cons a t' => exact absurd (h a (List.mem_cons_self ..)) (hne a (List.mem_cons_self ..))
  | e :: r, t, hne => by
    unfold isStateH
    have hne' : ∀ a ∈ descend t e, a ≠ [] := fun a ha => (mem_descend.mp ha).1
    by_cases hany : (t.any fun p => p.head? = some e) = true
    · simp only [hany, if_true]
      rw [isStateH_exact r (descend t e) hne']
      obtain ⟨r0, hr0⟩ := any_head_iff.mp hany
      constructor
      · rintro ⟨h1, h2⟩
        refine ⟨Or.inr ?_, ?_⟩
        · rcases h1 with h | ⟨a, ha, hpre⟩
          · subst h; exact ⟨e :: r0, hr0, by simp⟩
          · exact ⟨e :: a, (mem_descend.mp ha).2, by simpa using hpre⟩
        · intro a ha hpre
          cases a with
          | nil => simp at hpre
          | cons x a' =>
            obtain ⟨hx, hpre'⟩ : e = x ∧ r <+: a' := by simpa using hpre
            subst hx
            by_cases ha' : a' = []
            · subst ha'; rw [List.prefix_nil.mp hpre']
            · rw [h2 a' (mem_descend.mpr ⟨ha', ha⟩) hpre']
      · rintro ⟨h1, h2⟩
        refine ⟨?_, ?_⟩
        · rcases h1 with h | ⟨a, ha, hpre⟩
          · cases h
          · cases a with
            | nil => simp at hpre
            | cons x a' =>
              obtain ⟨hx, hpre'⟩ : e = x ∧ r <+: a' := by simpa using hpre
              subst hx
              by_cases hr : r = []
              · exact Or.inl hr
              · refine Or.inr ⟨a', mem_descend.mpr ⟨?_, ha⟩, hpre'⟩
                intro h; subst h; exact hr (List.prefix_nil.mp hpre')
        · intro a ha hpre
          have := h2 (e :: a) (mem_descend.mp ha).2 (by simpa using hpre)
          injection this
    · simp only [hany, if_false]
      constructor
      · intro h; cases h
      · rintro ⟨h1, _⟩
        exfalso; apply hany
        rcases h1 with h | ⟨a, ha, hpre⟩
        · cases h
        · cases a with
          | nil => simp at hpre
          | cons x a' =>
            obtain ⟨hx, _⟩ : e = x ∧ r <+: a' := by simpa using hpre
            subst hx; exact any_head_iff.mpr ⟨a', ha⟩


/-- every scope's event table has unique keys (they are dicts) -/
def HSM.ScopesNodup (h : HSM) : Prop := ∀ pre, (keys (h.scopeEvents pre)).Nodup

theorem mem_scopeTriggers {evs : List (Name × List Path)} (hn : (keys evs).Nodup) {e : Name} {p : Path} :
    e ∈ scopeTriggers evs p ↔ declared evs e p = true := by
  simp only [scopeTriggers, List.mem_filterMap, declared]
  constructor
  · rintro ⟨⟨e', srcs⟩, hm, hs⟩
    split at hs
    · rename_i hc
      injection hs with hs; subst hs
      have : kget e' evs = some srcs := by
        clear hc
        induction evs with
        | nil => cases hm
        | cons hd t ih =>
          obtain ⟨k0, v0⟩ := hd
          simp only [keys, List.map_cons, List.nodup_cons] at hn
          rcases List.mem_cons.mp hm with h | h
          · injection h with h1 h2; subst h1; subst h2; simp [kget]
          · have : k0 ≠ e' := by intro e; subst e; exact hn.1 (List.mem_map_of_mem (f := (·.1)) h)
            simp only [kget, this, if_false]; exact ih hn.2 h
      simp only [this]; exact hc
    · cases hs
  · intro h
    cases hk : kget e evs with
    | none => simp [hk] at h
    | some srcs =>
      simp only [hk] at h
      exact ⟨(e, srcs), kget_mem _ _ _ hk, by show (if srcs.contains p = true then some e else none) = some e; rw [if_pos h]⟩

theorem self_mem_prefixesDesc : ∀ (p : Path), p ≠ [] → p ∈ prefixesDesc p
  | [], h => absurd rfl h
  | [x], _ => by simp [prefixesDesc]
  | x :: y :: tl, _ => by
    unfold prefixesDesc
    exact List.mem_append_left _ (List.mem_map_of_mem (self_mem_prefixesDesc (y :: tl) (by simp)))

/-- every state on the way from `pre` down the path `rel` is registered -/
def PathStates (h : HSM) : Path → Path → Prop
  | _, [] => True
  | pre, x :: tl => (pre ++ [x]) ∈ h.states ∧ PathStates h (pre ++ [x]) tl

/-- `_get_scoped_triggers` lists exactly the events that are offered a transition in the scope `pre`
or below it when the model is in `pre ++ rel` -/
theorem scopedTriggers_iff (h : HSM) (hn : h.ScopesNodup) (e : Name) : ∀ (rel pre : Path), PathStates h pre rel →
    (e ∈ scopedTriggers h pre rel ↔ firesIn h pre rel e = true)
  | [], _, _ => by simp [scopedTriggers, firesIn]
  | x :: tl, pre, hp => by
    unfold scopedTriggers firesIn
    have hflat : e ∈ (prefixesDesc (x :: tl)).flatMap (scopeTriggers (h.scopeEvents pre)) ↔
        (prefixesDesc (x :: tl)).any (declared (h.scopeEvents pre) e) = true := by
      simp only [List.mem_flatMap, List.any_eq_true]
      constructor
      · rintro ⟨q, hq, he⟩; exact ⟨q, hq, (mem_scopeTriggers (hn pre)).mp he⟩
      · rintro ⟨q, hq, he⟩; exact ⟨q, hq, (mem_scopeTriggers (hn pre)).mpr he⟩
    rw [List.mem_append, hflat, Bool.or_eq_true, Bool.and_eq_true]
    cases tl with
    | nil => simp [scopedTriggers]
    | cons y tl' =>
      have hst : (pre ++ [x]) ∈ h.states := hp.1
      have ih := scopedTriggers_iff h hn e (y :: tl') (pre ++ [x]) hp.2
      simp only [ne_eq, reduceCtorEq, not_false_eq_true, hst, and_self, if_true, decide_true, true_and]
      rw [ih]

/-! ### decidable forms of the hypotheses on histories (for the non-vacuity examples) -/

def remHygB (ops : List Op) : Bool :=
  ops.all fun op => match op with
    | .removeTransition e _ _ => !sIs.isPrefixOf e && e != sTrigger
    | _ => true

theorem RemHyg_of_B {ops : List Op} (h : remHygB ops = true) : RemHyg ops := by
  intro e src dst hm
  simp only [remHygB, List.all_eq_true] at h
  have := h _ hm
  simp only [Bool.and_eq_true, Bool.not_eq_true', bne_iff_ne, ne_eq] at this
  refine ⟨?_, this.2⟩
  intro hp
  have h1 := List.isPrefixOf_iff_prefix.mpr hp
  rw [this.1] at h1; cases h1

def userEventsB (ops : List Op) : Bool :=
  ops.all fun op => match op with
    | .addTransition e _ _ _ => !sTo.isPrefixOf e
    | .removeTransition e _ _ => !sTo.isPrefixOf e
    | _ => true

theorem UserEvents_of_B {ops : List Op} (h : userEventsB ops = true) : UserEvents ops := by
  simp only [userEventsB, List.all_eq_true] at h
  refine ⟨?_, ?_⟩
  · intro e src dst pass hm hp
    have := h _ hm
    simp only [Bool.not_eq_true'] at this
    rw [List.isPrefixOf_iff_prefix.mpr hp] at this; cases this
  · intro e src dst hm hp
    have := h _ hm
    simp only [Bool.not_eq_true'] at this
    rw [List.isPrefixOf_iff_prefix.mpr hp] at this; cases this

/-! ### machines with `model_override`: only attributes the model defines are replaced -/

/-- "nothing was added": same class, and a name the model did not define (missing or None) is still
not defined -/
structure TKept (attr : Name) (o0 o : Obj) : Prop where
  cls : o.cls = o0.cls
  unb : ∀ n, n ≠ attr → o0.unbound n = true → o.unbound n = true

theorem TKept.refl (attr : Name) (o : Obj) : TKept attr o o := ⟨rfl, fun _ _ h => h⟩

theorem unbound_checkedAssign_true (o : Obj) (n n' : Name) (b : Binding) (h : o.unbound n' = true) :
    (Helpers.checkedAssign true o n b).unbound n' = true := by
  by_cases hn : n' = n
  · subst hn
    have : Helpers.checkedAssign true o n' b = o := by unfold Helpers.checkedAssign; simp [h]
    rw [this]; exact h
  · unfold Obj.unbound at h ⊢
    rw [getattr_checkedAssign_ne _ _ _ _ _ hn]; exact h

theorem TKept.checkedAssign {attr : Name} {o0 o : Obj} (h : TKept attr o0 o) (n : Name) (b : Binding) :
    TKept attr o0 (Helpers.checkedAssign true o n b) :=
  ⟨by simpa using h.cls, fun n' hn h0 => unbound_checkedAssign_true o n n' b (h.unb n' hn h0)⟩

theorem TKept.setState {attr : Name} {o0 o : Obj} (h : TKept attr o0 o) (b : Binding) :
    TKept attr o0 (o.setattr attr b) :=
  ⟨h.cls, fun n hn h0 => by
    have := h.unb n hn h0
    unfold Obj.unbound at this ⊢
    rw [getattr_setattr_ne _ _ _ _ hn]; exact this⟩

theorem TKept.removeTrigger {attr : Name} {o0 o : Obj} (h : TKept attr o0 o) (e : Name) :
    TKept attr o0 (removeTriggerFromModel e o) := by
  rcases removeTrigger_cases e o with ⟨h1, _⟩ | ⟨h1, b, hb, hown⟩
  · rw [h1]; exact h
  · rw [h1]
    refine ⟨h.cls, ?_⟩
    intro n hn h0
    have hu := h.unb n hn h0
    by_cases hne : n = e
    · subst hne
      have : o.getattr n = some b := by simp [Obj.getattr, hb]
      unfold Obj.unbound at hu
      rw [this] at hu
      cases b <;> simp [machineOwned] at hown hu
    · unfold Obj.unbound at hu ⊢
      rw [getattr_dropInst_ne _ _ _ hne]; exact hu

def TInv (P : Nat → Obj → Prop) (hm : HM) : Prop :=
  ∀ m o, (m, o) ∈ hm.objs → ∃ o0, P m o0 ∧ TKept hm.attr o0 o

theorem TInv.addTransition {P : Nat → Obj → Prop} {hm : HM} (h : TInv P hm) (hov : hm.override = true)
    (e : Name) (src : Src) (dst : Dst) (pass : Bool) : TInv P (addTransition hm e src dst pass).1 := by
  by_cases hne : e = hm.attr
  · subst hne; rw [addTransition_attr_raises]; exact h
  · have sh := (addTransition_shape hm e src dst pass hne).2.1
    intro m o hmo
    rw [sh.objs] at hmo
    rw [sh.attr]
    split at hmo
    · exact h m o hmo
    · obtain ⟨o1, h1, rfl⟩ := mem_map_snd hmo
      obtain ⟨o0, hp, hk⟩ := h m o1 h1
      rw [hov]
      exact ⟨o0, hp, by unfold addTriggerToModel; exact (hk.checkedAssign _ _).checkedAssign _ _⟩

theorem autoLoop_tinv {P : Nat → Obj → Prop} (s : Name) : ∀ (l : List Name) (h : HM), h.override = true → TInv P h →
    TInv P (autoLoop s l h).1
  | [], h, _, hi => hi
  | a :: r, h, hov, hi => by
    unfold autoLoop
    have h1 := hi.addTransition hov (toName h.attr a) (if a = s then .all else .one s) (.to a) true
    have hc := addTransition_consts h (toName h.attr a) (if a = s then .all else .one s) (.to a) true
    cases hr : Helpers.addTransition h (toName h.attr a) (if a = s then Src.all else Src.one s) (Dst.to a) true with
    | mk h' err =>
      rw [hr] at h1 hc
      cases err with
      | none => exact autoLoop_tinv s r h' (hc.override.trans hov) h1
      | some e => exact h1

theorem TInv.addState {P : Nat → Obj → Prop} {hm : HM} (h : TInv P hm) (hov : hm.override = true) (s : Name) :
    TInv P (addState hm s).1 := by
  have hcore : TInv P (addStateCore hm s) := by
    intro m o hmo
    obtain ⟨o1, h1, rfl⟩ := mem_map_snd (f := addModelToState hm.override hm.attr s) hmo
    obtain ⟨o0, hp, hk⟩ := h m o1 h1
    rw [hov]
    exact ⟨o0, hp, by unfold addModelToState; exact hk.checkedAssign _ _⟩
  rw [addState_eq]; split
  · exact autoLoop_tinv s _ _ hov hcore
  · exact hcore

theorem TInv.setInitial {P : Nat → Obj → Prop} {hm : HM} (h : TInv P hm) (hov : hm.override = true) (s : Name) :
    TInv P (setInitial hm s).1 := by
  unfold Helpers.setInitial
  by_cases hs : s ∈ hm.states
  · simp only [hs, if_true]; exact h
  · simp only [hs, if_false]
    have hi := h.addState hov s
    cases hr : Helpers.addState hm s with
    | mk h' err =>
      rw [hr] at hi
      cases err with
      | some e => exact hi
      | none => exact hi

theorem fold_addTrigger_tkept {attr : Name} {o0 : Obj} : ∀ (l : List (Name × List Tr)) (o : Obj), TKept attr o0 o →
    TKept attr o0 (l.foldl (fun o ev => addTriggerToModel true ev.1 o) o)
  | [], _, h => h
  | ev :: r, o, h => by
    simp only [List.foldl_cons]
    exact fold_addTrigger_tkept r _ (by unfold addTriggerToModel; exact (h.checkedAssign _ _).checkedAssign _ _)

theorem fold_addModelToState_tkept {attr : Name} {o0 : Obj} : ∀ (l : List Name) (o : Obj), TKept attr o0 o →
    TKept attr o0 (l.foldl (fun o s => addModelToState true attr s o) o)
  | [], _, h => h
  | s :: r, o, h => by
    simp only [List.foldl_cons]
    exact fold_addModelToState_tkept r _ (by unfold addModelToState; exact h.checkedAssign _ _)

theorem TInv.addModel {P : Nat → Obj → Prop} {hm : HM} (h : TInv P hm) (hov : hm.override = true)
    (m : Nat) (o : Obj) (hp : P m o) : TInv P (addModel hm m o).1 := by
  unfold Helpers.addModel
  cases hi : hm.initial with
  | none => exact h
  | some i =>
    simp only
    cases hk : kget m hm.objs with
    | some x => simpa using h
    | none =>
      simp only [Option.isSome_none, Bool.false_eq_true, if_false]
      split
      · intro m' o' hmo
        rcases List.mem_append.mp hmo with h1 | h1
        · exact h m' o' h1
        · simp only [List.mem_singleton, Prod.mk.injEq] at h1
          obtain ⟨rfl, rfl⟩ := h1
          refine ⟨o, hp, TKept.setState ?_ _⟩
          unfold bindModel
          rw [hov]
          exact fold_addModelToState_tkept _ _ (fold_addTrigger_tkept _ _
            (((TKept.refl _ o).checkedAssign _ _).checkedAssign _ _))
      · exact h

theorem TInv.removeTransition {P : Nat → Obj → Prop} {hm : HM} (h : TInv P hm) (e : Name) (src dst : Option Name) :
    TInv P (removeTransition hm e src dst).1 := by
  unfold Helpers.removeTransition
  cases hk : kget e hm.events with
  | none => exact h
  | some ts =>
    simp only
    cases hf : ts.filter (keepTr src dst) with
    | cons t keep => exact h
    | nil =>
      simp only
      intro m o' hmo
      obtain ⟨o, ho, rfl⟩ := mem_map_snd (f := removeTriggerFromModel e) hmo
      obtain ⟨o0, hp, hkk⟩ := h m o ho
      exact ⟨o0, hp, hkk.removeTrigger e⟩

theorem TInv.fire {P : Nat → Obj → Prop} {hm : HM} (h : TInv P hm) (m : Nat) (e : Name) :
    TInv P (fire hm m e).1 := by
  unfold Helpers.fire
  split
  · exact h
  · rename_i o hko
    split
    · exact h
    · split
      · exact h
      · split
        · exact h
        · split
          · exact h
          · split
            · exact h
            · split
              · exact h
              · split
                · have hmo : (m, o) ∈ hm.objs := kget_mem _ _ _ hko
                  intro m' o' hmo'
                  rcases mem_kset hmo' with ⟨rfl, rfl⟩ | h'
                  · obtain ⟨o0, hp, hk⟩ := h m' o hmo
                    exact ⟨o0, hp, hk.setState _⟩
                  · exact h m' o' h'
                · exact h

theorem TInv.run (all : List Op) : ∀ (ops : List Op) (hm : HM), hm.override = true →
    TInv (fun m o => Op.addModel m o ∈ all) hm → (∀ op ∈ ops, op ∈ all) →
    TInv (fun m o => Op.addModel m o ∈ all) (run hm ops)
  | [], _, _, h, _ => h
  | op :: r, hm, hov, h, hsub => by
    unfold Helpers.run
    have hc := applyOp_consts hm op
    refine TInv.run all r _ (hc.override.trans hov) ?_ (fun op' h' => hsub op' (List.mem_cons_of_mem _ h'))
    cases op with
    | setInitial s => exact h.setInitial hov s
    | addState s => exact h.addState hov s
    | addTransition e src dst pass => exact h.addTransition hov e src dst pass
    | removeTransition e src dst => exact h.removeTransition e src dst
    | addModel m o => exact h.addModel hov m o (hsub _ (List.mem_cons_self ..))
    | failing e => exact h
    | fire m e => exact h.fire m e

end Helpers
end TM
