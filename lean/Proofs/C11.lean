/-
  Proofs/C11.lean — lemmas for property C11 (helpers on the model), about `Model/Helpers.lean`.
-/
import Model.Helpers

namespace TM
namespace Helpers

/-! ### finite maps -/

section maps
variable {κ β : Type} [DecidableEq κ]

theorem kget_kset_self (k : κ) (v : β) (l : List (κ × β)) : kget k (kset k v l) = some v := by
  induction l with
  | nil => simp [kset, kget]
  | cons h t ih =>
    obtain ⟨k', v'⟩ := h
    by_cases hk : k' = k
    · simp [kset, kget, hk]
    · simp [kset, kget, hk, ih]

theorem kget_kset_ne (k k' : κ) (v : β) (l : List (κ × β)) (h : k' ≠ k) : kget k' (kset k v l) = kget k' l := by
  induction l with
  | nil => simp [kset, kget, Ne.symm h]
  | cons hd t ih =>
    obtain ⟨k0, v0⟩ := hd
    by_cases hk : k0 = k
    · subst hk; simp [kset, kget, Ne.symm h]
    · by_cases hk' : k0 = k'
      · subst hk'; simp [kset, kget, hk]
      · simp [kset, kget, hk, hk', ih]

theorem kget_kdel_self (k : κ) (l : List (κ × β)) : kget k (kdel k l) = none := by
  induction l with
  | nil => rfl
  | cons hd t ih =>
    obtain ⟨k0, v0⟩ := hd
    by_cases hk : k0 = k <;> simp [kdel, kget, hk, ih]

theorem kget_kdel_ne (k k' : κ) (l : List (κ × β)) (h : k' ≠ k) : kget k' (kdel k l) = kget k' l := by
  induction l with
  | nil => rfl
  | cons hd t ih =>
    obtain ⟨k0, v0⟩ := hd
    by_cases hk : k0 = k
    · subst hk; simp [kdel, kget, Ne.symm h, ih]
    · by_cases hk' : k0 = k'
      · subst hk'; simp [kdel, kget, hk]
      · simp [kdel, kget, hk, hk', ih]

theorem kget_append_none (k : κ) (l r : List (κ × β)) (h : kget k l = none) : kget k (l ++ r) = kget k r := by
  induction l with
  | nil => rfl
  | cons hd t ih =>
    obtain ⟨k0, v0⟩ := hd
    by_cases hk : k0 = k
    · simp [kget, hk] at h
    · simp [kget, hk] at h ⊢; exact ih h

theorem kget_append_some (k : κ) (v : β) (l r : List (κ × β)) (h : kget k l = some v) : kget k (l ++ r) = some v := by
  induction l with
  | nil => simp [kget] at h
  | cons hd t ih =>
    obtain ⟨k0, v0⟩ := hd
    by_cases hk : k0 = k
    · simp [kget, hk] at h ⊢; exact h
    · simp [kget, hk] at h ⊢; exact ih h

theorem kget_map_snd {γ : Type} (k : κ) (f : β → γ) (l : List (κ × β)) :
    kget k (l.map fun p => (p.1, f p.2)) = (kget k l).map f := by
  induction l with
  | nil => rfl
  | cons hd t ih =>
    obtain ⟨k0, v0⟩ := hd
    by_cases hk : k0 = k <;> simp [kget, hk, ih]

theorem kget_mem (k : κ) (v : β) (l : List (κ × β)) (h : kget k l = some v) : (k, v) ∈ l := by
  induction l with
  | nil => simp [kget] at h
  | cons hd t ih =>
    obtain ⟨k0, v0⟩ := hd
    by_cases hk : k0 = k
    · simp [kget, hk] at h; subst hk; subst h; exact List.mem_cons_self ..
    · simp [kget, hk] at h; exact List.mem_cons_of_mem _ (ih h)

theorem kget_isSome_of_mem (k : κ) (v : β) (l : List (κ × β)) (h : (k, v) ∈ l) : (kget k l).isSome := by
  induction l with
  | nil => cases h
  | cons hd t ih =>
    obtain ⟨k0, v0⟩ := hd
    by_cases hk : k0 = k
    · simp [kget, hk]
    · simp only [kget, hk, if_false]
      rcases List.mem_cons.mp h with h | h
      · injection h with h1 _; exact absurd h1.symm hk
      · exact ih h

/-- keys of a map -/
def keys (l : List (κ × β)) : List κ := l.map (·.1)

theorem kget_none_iff (k : κ) (l : List (κ × β)) : kget k l = none ↔ k ∉ keys l := by
  induction l with
  | nil => simp [kget, keys]
  | cons hd t ih =>
    obtain ⟨k0, v0⟩ := hd
    by_cases hk : k0 = k
    · simp [kget, keys, hk]
    · simp only [kget, hk, if_false, keys, List.map_cons, List.mem_cons, not_or]
      constructor
      · intro h; exact ⟨fun e => hk e.symm, by simpa [keys] using ih.mp h⟩
      · intro h; exact ih.mpr (by simpa [keys] using h.2)

theorem keys_kset (k : κ) (v : β) (l : List (κ × β)) :
    keys (kset k v l) = if k ∈ keys l then keys l else keys l ++ [k] := by
  induction l with
  | nil => simp [kset, keys]
  | cons hd t ih =>
    obtain ⟨k0, v0⟩ := hd
    by_cases hk : k0 = k
    · subst hk; simp [kset, keys]
    · have hk' : ¬ k = k0 := fun e => hk e.symm
      simp only [kset, hk, if_false, keys, List.map_cons, List.mem_cons, hk', false_or] at ih ⊢
      by_cases hm : k ∈ List.map (fun x => x.fst) t <;> simp [hm] at ih ⊢ <;> exact ih

theorem mem_keys_kdel (k k' : κ) (l : List (κ × β)) : k' ∈ keys (kdel k l) ↔ k' ∈ keys l ∧ k' ≠ k := by
  induction l with
  | nil => simp [kdel, keys]
  | cons hd t ih =>
    obtain ⟨k0, v0⟩ := hd
    by_cases hk : k0 = k
    · subst hk
      simp only [kdel, if_true, keys, List.map_cons, List.mem_cons] at ih ⊢
      rw [ih]
      constructor
      · rintro ⟨h1, h2⟩; exact ⟨Or.inr h1, h2⟩
      · rintro ⟨h1 | h1, h2⟩
        · exact absurd h1 h2
        · exact ⟨h1, h2⟩
    · simp only [kdel, hk, if_false, keys, List.map_cons, List.mem_cons] at ih ⊢
      rw [ih]
      constructor
      · rintro (h | ⟨h1, h2⟩)
        · exact ⟨Or.inl h, by rw [h]; exact hk⟩
        · exact ⟨Or.inr h1, h2⟩
      · rintro ⟨h1 | h1, h2⟩
        · exact Or.inl h1
        · exact Or.inr ⟨h1, h2⟩

end maps

/-! ### objects -/

@[simp] theorem setattr_cls (o : Obj) (n : Name) (b : Binding) : (o.setattr n b).cls = o.cls := rfl

theorem getattr_setattr_self (o : Obj) (n : Name) (b : Binding) : (o.setattr n b).getattr n = some b := by
  simp [Obj.getattr, Obj.setattr, kget_kset_self]

theorem getattr_setattr_ne (o : Obj) (n n' : Name) (b : Binding) (h : n' ≠ n) :
    (o.setattr n b).getattr n' = o.getattr n' := by
  simp [Obj.getattr, Obj.setattr, kget_kset_ne _ _ _ _ h]

@[simp] theorem checkedAssign_cls (ov : Bool) (o : Obj) (n : Name) (b : Binding) : (checkedAssign ov o n b).cls = o.cls := by
  unfold checkedAssign; split <;> rfl

theorem getattr_checkedAssign_ne (ov : Bool) (o : Obj) (n n' : Name) (b : Binding) (h : n' ≠ n) :
    (checkedAssign ov o n b).getattr n' = o.getattr n' := by
  unfold checkedAssign; split
  · exact getattr_setattr_ne o n n' b h
  · rfl

theorem getattr_checkedAssign_self (ov : Bool) (o : Obj) (n : Name) (b : Binding) :
    (checkedAssign ov o n b).getattr n = if (o.unbound n) != ov then some b else o.getattr n := by
  unfold checkedAssign; split
  · exact getattr_setattr_self o n b
  · rfl

/-- a binding found after a checked assignment is the assigned one (under that name) or was there before -/
theorem getattr_checkedAssign_cases (ov : Bool) (o : Obj) (n n' : Name) (b b' : Binding)
    (h : (checkedAssign ov o n b).getattr n' = some b') : (n' = n ∧ b' = b) ∨ o.getattr n' = some b' := by
  by_cases hn : n' = n
  · subst hn
    rw [getattr_checkedAssign_self] at h
    split at h
    · left; exact ⟨rfl, by injection h with h; exact h.symm⟩
    · right; exact h
  · right; rwa [getattr_checkedAssign_ne _ _ _ _ _ hn] at h


/-! ### the invariant of reachable machines -/

def Binding.isUser : Binding → Bool
  | .user _ => true
  | .userNone => true
  | _ => false

/-- an object as it is handed to `add_model`: nothing on it comes from this machine -/
def Obj.Fresh (o : Obj) : Prop :=
  (∀ n b, kget n o.cls = some b → b.isUser = true) ∧ (∀ n b, kget n o.inst = some b → b.isUser = true)

/-- `model_attribute` hygiene: the state attribute is not named like `trigger` or a `may_` helper
(otherwise `_checked_assignment` with `model_override` would replace the state value itself) -/
def AttrOK (attr : Name) : Prop := attr ≠ sTrigger ∧ ¬ sMay <+: attr

/-- what a binding found under the name `n` looks like -/
def OKB (hm : HM) (n : Name) : Binding → Prop
  | .user _ => True
  | .userNone => True
  | .value s => n = hm.attr ∧ s ∈ hm.states
  | .isState s => n = isName hm.attr s ∧ s ∈ hm.states
  | .trigger e => n = e ∧ e ∈ keys hm.events
  | .may e => n = mayName e
  | .triggerFn => n = sTrigger
  | .mayTriggerFn => n = sMayTrigger
  | .toFn => False

def InstOK (hm : HM) (o : Obj) : Prop := ∀ n b, kget n o.inst = some b → OKB hm n b

structure ObjOK (hm : HM) (o : Obj) : Prop where
  cls : ∀ n b, kget n o.cls = some b → b.isUser = true
  inst : InstOK hm o
  st : ∃ s, kget hm.attr o.inst = some (.value s)

structure Inv (hm : HM) : Prop where
  attrOK : AttrOK hm.attr
  objs : ∀ m o, (m, o) ∈ hm.objs → ObjOK hm o
  evNe : ∀ e ∈ keys hm.events, e ≠ hm.attr
  init : ∀ i, hm.initial = some i → i ∈ hm.states
  nodupM : (keys hm.objs).Nodup
  nodupE : (keys hm.events).Nodup
  nodupS : hm.states.Nodup

theorem OKB.mono {hm hm' : HM} (ha : hm'.attr = hm.attr) (hs : ∀ s ∈ hm.states, s ∈ hm'.states)
    (he : ∀ e ∈ keys hm.events, e ∈ keys hm'.events) {n : Name} {b : Binding} (h : OKB hm n b) : OKB hm' n b := by
  cases b <;> simp only [OKB, ha] at h ⊢
  · exact ⟨h.1, hs _ h.2⟩
  · exact ⟨h.1, hs _ h.2⟩
  · exact ⟨h.1, he _ h.2⟩
  · exact h
  · exact h
  · exact h

theorem ObjOK.mono {hm hm' : HM} (ha : hm'.attr = hm.attr) (hs : ∀ s ∈ hm.states, s ∈ hm'.states)
    (he : ∀ e ∈ keys hm.events, e ∈ keys hm'.events) {o : Obj} (h : ObjOK hm o) : ObjOK hm' o :=
  ⟨h.cls, fun n b hb => OKB.mono ha hs he (h.inst n b hb), by rw [ha]; exact h.st⟩

theorem isName_ne_attr (attr s : Name) : isName attr s ≠ attr := by
  unfold isName infixed
  split
  · rename_i h; subst h; simp [sIs, sState]
  · intro h
    have := congrArg List.length h
    simp [sIs] at this
    omega

theorem mayName_ne_attr (attr e : Name) (h : AttrOK attr) : mayName e ≠ attr := by
  intro he
  apply h.2
  rw [← he]
  exact List.prefix_append sMay e

theorem kget_inst_checkedAssign (ov : Bool) (o : Obj) (n n' : Name) (b b' : Binding)
    (h : kget n' (checkedAssign ov o n b).inst = some b') : (n' = n ∧ b' = b) ∨ kget n' o.inst = some b' := by
  unfold checkedAssign at h
  split at h
  · by_cases hn : n' = n
    · subst hn
      simp only [Obj.setattr, kget_kset_self] at h
      left; exact ⟨rfl, by injection h with h; exact h.symm⟩
    · simp only [Obj.setattr, kget_kset_ne _ _ _ _ hn] at h
      right; exact h
  · right; exact h

theorem kget_inst_checkedAssign_ne (ov : Bool) (o : Obj) (n n' : Name) (b : Binding) (hn : n' ≠ n) :
    kget n' (checkedAssign ov o n b).inst = kget n' o.inst := by
  unfold checkedAssign
  split
  · simp only [Obj.setattr, kget_kset_ne _ _ _ _ hn]
  · rfl

theorem ObjOK.checkedAssign {hm : HM} {o : Obj} (h : ObjOK hm o) (ov : Bool) (n : Name) (b : Binding)
    (hb : OKB hm n b) (hn : n ≠ hm.attr) : ObjOK hm (checkedAssign ov o n b) := by
  refine ⟨by simpa using h.cls, ?_, ?_⟩
  · intro n' b' h'
    rcases kget_inst_checkedAssign ov o n n' b b' h' with ⟨rfl, rfl⟩ | h''
    · exact hb
    · exact h.inst n' b' h''
  · rw [kget_inst_checkedAssign_ne ov o n hm.attr b (Ne.symm hn)]
    exact h.st

theorem ObjOK.addTrigger {hm : HM} {o : Obj} (h : ObjOK hm o) (ha : AttrOK hm.attr) (e : Name)
    (he : e ∈ keys hm.events) (hne : e ≠ hm.attr) : ObjOK hm (addTriggerToModel hm.override e o) := by
  unfold addTriggerToModel
  exact (h.checkedAssign _ e (.trigger e) ⟨rfl, he⟩ hne).checkedAssign _ (mayName e) (.may e) rfl (mayName_ne_attr _ _ ha)

theorem ObjOK.addModelToState {hm : HM} {o : Obj} (h : ObjOK hm o) (s : Name) (hs : s ∈ hm.states) :
    ObjOK hm (addModelToState hm.override hm.attr s o) := by
  unfold Helpers.addModelToState
  exact h.checkedAssign _ _ _ ⟨rfl, hs⟩ (isName_ne_attr _ _)

theorem mem_map_snd {α β γ : Type} {f : β → γ} {l : List (α × β)} {a : α} {c : γ}
    (h : (a, c) ∈ l.map fun p => (p.1, f p.2)) : ∃ b, (a, b) ∈ l ∧ c = f b := by
  obtain ⟨⟨a', b⟩, hm, he⟩ := List.mem_map.mp h
  injection he with h1 h2
  subst h1; exact ⟨b, hm, h2.symm⟩

theorem keys_map_snd {α β γ : Type} (f : β → γ) (l : List (α × β)) :
    keys (l.map fun p => (p.1, f p.2)) = keys l := by
  simp [keys, List.map_map, Function.comp_def]


theorem mem_keys_of_kget {κ β : Type} [DecidableEq κ] {k : κ} {v : β} {l : List (κ × β)} (h : kget k l = some v) :
    k ∈ keys l := by
  by_cases hm : k ∈ keys l
  · exact hm
  · rw [(kget_none_iff k l).mpr hm] at h; cases h

theorem keys_kset_of_mem {κ β : Type} [DecidableEq κ] {k : κ} (v : β) {l : List (κ × β)} (h : k ∈ keys l) :
    keys (kset k v l) = keys l := by
  rw [keys_kset]; simp [h]

theorem keys_append {κ β : Type} (l r : List (κ × β)) : keys (l ++ r) = keys l ++ keys r := by
  simp [keys]

/-! #### add_transition -/

/-- the shape of the machine after `add_transition` (for a name that is not the state attribute) -/
structure AddTrShape (hm hm' : HM) (e : Name) : Prop where
  attr : hm'.attr = hm.attr
  override : hm'.override = hm.override
  auto : hm'.auto = hm.auto
  states : hm'.states = hm.states
  initial : hm'.initial = hm.initial
  keysE : keys hm'.events = if e ∈ keys hm.events then keys hm.events else keys hm.events ++ [e]
  objs : hm'.objs = if e ∈ keys hm.events then hm.objs
    else hm.objs.map fun p => (p.1, addTriggerToModel hm.override e p.2)
  other : ∀ e', e' ≠ e → kget e' hm'.events = kget e' hm.events

theorem addTransition_shape (hm : HM) (e : Name) (src : Src) (dst : Dst) (pass : Bool) (hne : e ≠ hm.attr) :
    (addTransition hm e src dst pass).2 = none ∧ AddTrShape hm (addTransition hm e src dst pass).1 e ∧
    kget e (addTransition hm e src dst pass).1.events =
      some ((kget e hm.events).getD [] ++ (src.expand hm.states).map (mkTr dst pass)) := by
  unfold addTransition
  simp only [hne, if_false]
  cases hk : kget e hm.events with
  | some ts =>
    have hmem : e ∈ keys hm.events := mem_keys_of_kget hk
    refine ⟨by first | rfl | trivial, ⟨rfl, rfl, rfl, rfl, rfl, ?_, ?_, ?_⟩, ?_⟩
    · simp [hmem, keys_kset_of_mem _ hmem]
    · simp [hmem]
    · intro e' he'; simp [kget_kset_ne _ _ _ _ he']
    · simp [kget_kset_self, hk]
  | none =>
    have hmem : e ∉ keys hm.events := (kget_none_iff e hm.events).mp hk
    have h1 : kget e (hm.events ++ [(e, ([] : List Tr))]) = some [] := by
      rw [kget_append_none _ _ _ hk]; simp [kget]
    refine ⟨by first | rfl | trivial, ⟨rfl, rfl, rfl, rfl, rfl, ?_, ?_, ?_⟩, ?_⟩
    · have : e ∈ keys (hm.events ++ [(e, ([] : List Tr))]) := mem_keys_of_kget h1
      simp only [Option.isSome_none, Bool.false_eq_true, if_false, HM.onObjs]
      rw [keys_kset_of_mem _ this, keys_append]
      simp only [hmem, if_false]
      simp [keys]
    · simp [hmem, HM.onObjs]
    · intro e' he'
      simp only [Option.isSome_none, Bool.false_eq_true, if_false, HM.onObjs]
      rw [kget_kset_ne _ _ _ _ he']
      cases hk' : kget e' hm.events with
      | none => rw [kget_append_none _ _ _ hk']; simp [kget, Ne.symm he']
      | some v => exact kget_append_some _ _ _ _ hk'
    · simp only [Option.isSome_none, Bool.false_eq_true, if_false, HM.onObjs]
      rw [kget_kset_self, h1]; simp

theorem addTransition_attr_raises (hm : HM) (src : Src) (dst : Dst) (pass : Bool) :
    addTransition hm hm.attr src dst pass = (hm, some .valueError) := by
  simp [addTransition]

theorem Inv.ofShape {hm hm' : HM} {e : Name} (h : Inv hm) (sh : AddTrShape hm hm' e) (hne : e ≠ hm.attr) : Inv hm' := by
  have hsub : ∀ e' ∈ keys hm.events, e' ∈ keys hm'.events := by
    intro e' he'; rw [sh.keysE]; split
    · exact he'
    · exact List.mem_append_left _ he'
  have hin : e ∈ keys hm'.events := by
    rw [sh.keysE]; split
    · assumption
    · simp
  have hst : ∀ s ∈ hm.states, s ∈ hm'.states := by rw [sh.states]; exact fun _ h => h
  refine ⟨by rw [sh.attr]; exact h.attrOK, ?_, ?_, ?_, ?_, ?_, by rw [sh.states]; exact h.nodupS⟩
  · intro m o hmo
    rw [sh.objs] at hmo
    split at hmo
    · exact (h.objs m o hmo).mono sh.attr hst hsub
    · obtain ⟨o0, h0, rfl⟩ := mem_map_snd hmo
      have ok' : ObjOK hm' o0 := (h.objs m o0 h0).mono sh.attr hst hsub
      have := ok'.addTrigger (by rw [sh.attr]; exact h.attrOK) e hin (by rw [sh.attr]; exact hne)
      rwa [sh.override] at this
  · intro e' he'
    rw [sh.attr]
    rw [sh.keysE] at he'
    split at he'
    · exact h.evNe e' he'
    · rcases List.mem_append.mp he' with h1 | h1
      · exact h.evNe e' h1
      · simp at h1; rw [h1]; exact hne
  · intro i hi; rw [sh.states]; rw [sh.initial] at hi; exact h.init i hi
  · rw [sh.objs]; split
    · exact h.nodupM
    · rw [keys_map_snd]; exact h.nodupM
  · rw [sh.keysE]; split
    · exact h.nodupE
    · rename_i hmem
      exact List.nodup_append.mpr ⟨h.nodupE, by simp, by
        intro a ha b hb; simp at hb; subst hb; intro hab; subst hab; exact hmem ha⟩

theorem Inv.addTransition {hm : HM} (h : Inv hm) (e : Name) (src : Src) (dst : Dst) (pass : Bool) :
    Inv (addTransition hm e src dst pass).1 := by
  by_cases hne : e = hm.attr
  · subst hne; rw [addTransition_attr_raises]; exact h
  · exact h.ofShape (addTransition_shape hm e src dst pass hne).2.1 hne


/-! #### add_states -/

theorem autoLoop_inv (s : Name) : ∀ (l : List Name) (h : HM), Inv h → Inv (autoLoop s l h).1
  | [], h, hi => hi
  | a :: r, h, hi => by
    unfold autoLoop
    have h1 := hi.addTransition (toName h.attr a) (if a = s then .all else .one s) (.to a) true
    cases hr : Helpers.addTransition h (toName h.attr a) (if a = s then Src.all else Src.one s) (Dst.to a) true with
    | mk h' err =>
      rw [hr] at h1
      cases err with
      | none => exact autoLoop_inv s r h' h1
      | some e => exact h1

/-- the first half of `add_states`: the state is registered and every model gets its `is_` helper -/
def addStateCore (hm : HM) (s : Name) : HM :=
  { hm.onObjs (addModelToState hm.override hm.attr s) with
    states := if s ∈ hm.states then hm.states else hm.states ++ [s] }

theorem addState_eq (hm : HM) (s : Name) :
    addState hm s = if hm.auto then autoLoop s (addStateCore hm s).states (addStateCore hm s) else (addStateCore hm s, none) := rfl

theorem Inv.addStateCore {hm : HM} (h : Inv hm) (s : Name) : Inv (addStateCore hm s) := by
  have hst : ∀ x ∈ hm.states, x ∈ (Helpers.addStateCore hm s).states := by
    intro x hx; simp only [Helpers.addStateCore]; split
    · exact hx
    · exact List.mem_append_left _ hx
  have hs : s ∈ (Helpers.addStateCore hm s).states := by
    simp only [Helpers.addStateCore]; split
    · assumption
    · simp
  refine ⟨h.attrOK, ?_, h.evNe, fun i hi => hst i (h.init i hi), ?_, h.nodupE, ?_⟩
  · intro m o hmo
    obtain ⟨o0, h0, rfl⟩ := mem_map_snd (f := addModelToState hm.override hm.attr s) hmo
    have ok' : ObjOK (Helpers.addStateCore hm s) o0 :=
      ObjOK.mono (hm := hm) (hm' := Helpers.addStateCore hm s) rfl hst (fun _ h => h) (h.objs m o0 h0)
    exact ok'.addModelToState s hs
  · show (keys (hm.objs.map fun p => (p.1, addModelToState hm.override hm.attr s p.2))).Nodup
    rw [keys_map_snd]; exact h.nodupM
  · simp only [Helpers.addStateCore]; split
    · exact h.nodupS
    · rename_i hmem
      exact List.nodup_append.mpr ⟨h.nodupS, by simp, by
        intro a ha b hb; simp at hb; subst hb; intro hab; subst hab; exact hmem ha⟩

theorem Inv.addState {hm : HM} (h : Inv hm) (s : Name) : Inv (addState hm s).1 := by
  rw [addState_eq]; split
  · exact autoLoop_inv s _ _ (h.addStateCore s)
  · exact h.addStateCore s

theorem autoLoop_states (s : Name) : ∀ (l : List Name) (h : HM), (autoLoop s l h).1.states = h.states ∧
    (autoLoop s l h).1.initial = h.initial ∧ (autoLoop s l h).1.attr = h.attr ∧ (autoLoop s l h).1.auto = h.auto ∧
    (autoLoop s l h).1.override = h.override
  | [], h => ⟨rfl, rfl, rfl, rfl, rfl⟩
  | a :: r, h => by
    unfold autoLoop
    cases hr : Helpers.addTransition h (toName h.attr a) (if a = s then Src.all else Src.one s) (Dst.to a) true with
    | mk h' err =>
      have hs : h'.states = h.states ∧ h'.initial = h.initial ∧ h'.attr = h.attr ∧ h'.auto = h.auto ∧ h'.override = h.override := by
        by_cases hne : toName h.attr a = h.attr
        · rw [hne, addTransition_attr_raises] at hr; injection hr with h1 _; subst h1; exact ⟨rfl, rfl, rfl, rfl, rfl⟩
        · have sh := (addTransition_shape h _ (if a = s then Src.all else Src.one s) (Dst.to a) true hne).2.1
          rw [hr] at sh; exact ⟨sh.states, sh.initial, sh.attr, sh.auto, sh.override⟩
      cases err with
      | none =>
        obtain ⟨i1, i2, i3, i4, i5⟩ := autoLoop_states s r h'
        exact ⟨i1.trans hs.1, i2.trans hs.2.1, i3.trans hs.2.2.1, i4.trans hs.2.2.2.1, i5.trans hs.2.2.2.2⟩
      | some e => exact hs

theorem addState_states (hm : HM) (s : Name) :
    (addState hm s).1.states = (if s ∈ hm.states then hm.states else hm.states ++ [s]) ∧
    (addState hm s).1.initial = hm.initial ∧ (addState hm s).1.attr = hm.attr ∧ (addState hm s).1.auto = hm.auto ∧
    (addState hm s).1.override = hm.override := by
  rw [addState_eq]; split
  · exact autoLoop_states s _ _
  · exact ⟨rfl, rfl, rfl, rfl, rfl⟩

/-- transfer of the invariant to a machine with the same attribute, states and events -/
theorem Inv.of_parts {hm hm' : HM} (h : Inv hm) (ha : hm'.attr = hm.attr) (hs : hm'.states = hm.states)
    (he : hm'.events = hm.events) (hi : ∀ i, hm'.initial = some i → i ∈ hm'.states)
    (ho : ∀ m o, (m, o) ∈ hm'.objs → ObjOK hm' o) (hn : (keys hm'.objs).Nodup) : Inv hm' :=
  ⟨by rw [ha]; exact h.attrOK, ho, by rw [he, ha]; exact h.evNe, hi, hn, by rw [he]; exact h.nodupE,
    by rw [hs]; exact h.nodupS⟩

theorem ObjOK.congr {hm hm' : HM} (ha : hm'.attr = hm.attr) (hs : hm'.states = hm.states)
    (he : hm'.events = hm.events) {o : Obj} (h : ObjOK hm o) : ObjOK hm' o :=
  h.mono ha (by rw [hs]; exact fun _ h => h) (by rw [he]; exact fun _ h => h)

theorem Inv.sameKeys {hm hm' : HM} (h : Inv hm) (ha : hm'.attr = hm.attr) (hs : hm'.states = hm.states)
    (hk : keys hm'.events = keys hm.events) (hi : hm'.initial = hm.initial) (ho : hm'.objs = hm.objs) : Inv hm' :=
  ⟨by rw [ha]; exact h.attrOK,
    fun m o hmo => (h.objs m o (ho ▸ hmo)).mono ha (by rw [hs]; exact fun _ h => h) (by rw [hk]; exact fun _ h => h),
    by rw [hk, ha]; exact h.evNe, by rw [hi, hs]; exact h.init, by rw [ho]; exact h.nodupM, by rw [hk]; exact h.nodupE,
    by rw [hs]; exact h.nodupS⟩

theorem Inv.withInitial {hm : HM} (h : Inv hm) {s : Name} (hs : s ∈ hm.states) : Inv { hm with initial := some s } :=
  h.of_parts rfl rfl rfl (fun i hi => by injection hi with hi; subst hi; exact hs)
    (fun m o hmo => ⟨(h.objs m o hmo).cls, (h.objs m o hmo).inst, (h.objs m o hmo).st⟩) h.nodupM

theorem Inv.setInitial {hm : HM} (h : Inv hm) (s : Name) : Inv (setInitial hm s).1 := by
  unfold Helpers.setInitial
  by_cases hs : s ∈ hm.states
  · simp only [hs, if_true]; exact h.withInitial hs
  · simp only [hs, if_false]
    have hi := h.addState s
    have hst := (addState_states hm s).1
    cases hr : Helpers.addState hm s with
    | mk h' err =>
      rw [hr] at hi hst
      cases err with
      | some e => exact hi
      | none =>
        show Inv { h' with initial := some s }
        exact hi.withInitial (by show s ∈ h'.states; rw [hst]; simp [hs])

/-! #### add_model -/

theorem fold_addTrigger_ok {hm : HM} (ha : AttrOK hm.attr) (hne : ∀ e ∈ keys hm.events, e ≠ hm.attr) :
    ∀ (l : List (Name × List Tr)) (o : Obj), (∀ ev ∈ l, ev.1 ∈ keys hm.events) → ObjOK hm o →
      ObjOK hm (l.foldl (fun o ev => addTriggerToModel hm.override ev.1 o) o)
  | [], o, _, h => h
  | ev :: r, o, hl, h => by
    simp only [List.foldl_cons]
    exact fold_addTrigger_ok ha hne r _ (fun x hx => hl x (List.mem_cons_of_mem _ hx))
      (h.addTrigger ha ev.1 (hl ev (List.mem_cons_self ..)) (hne _ (hl ev (List.mem_cons_self ..))))

theorem fold_addModelToState_ok {hm : HM} :
    ∀ (l : List Name) (o : Obj), (∀ s ∈ l, s ∈ hm.states) → ObjOK hm o →
      ObjOK hm (l.foldl (fun o s => addModelToState hm.override hm.attr s o) o)
  | [], o, _, h => h
  | s :: r, o, hl, h => by
    simp only [List.foldl_cons]
    exact fold_addModelToState_ok r _ (fun x hx => hl x (List.mem_cons_of_mem _ hx))
      (h.addModelToState s (hl s (List.mem_cons_self ..)))

/-- `ObjOK` without the clause about the state attribute (a model before `set_state`) -/
structure PreOK (hm : HM) (o : Obj) : Prop where
  cls : ∀ n b, kget n o.cls = some b → b.isUser = true
  inst : InstOK hm o

theorem OKB_of_isUser (hm : HM) (n : Name) (b : Binding) (h : b.isUser = true) : OKB hm n b := by
  cases b <;> simp [Binding.isUser] at h <;> trivial

theorem PreOK.checkedAssign {hm : HM} {o : Obj} (h : PreOK hm o) (ov : Bool) (n : Name) (b : Binding)
    (hb : OKB hm n b) : PreOK hm (checkedAssign ov o n b) := by
  refine ⟨by simpa using h.cls, ?_⟩
  intro n' b' h'
  rcases kget_inst_checkedAssign ov o n n' b b' h' with ⟨rfl, rfl⟩ | h''
  · exact hb
  · exact h.inst n' b' h''

theorem PreOK.fold_addTrigger {hm : HM} :
    ∀ (l : List (Name × List Tr)) (o : Obj), (∀ ev ∈ l, ev.1 ∈ keys hm.events) → PreOK hm o →
      PreOK hm (l.foldl (fun o ev => addTriggerToModel hm.override ev.1 o) o)
  | [], o, _, h => h
  | ev :: r, o, hl, h => by
    simp only [List.foldl_cons]
    refine PreOK.fold_addTrigger r _ (fun x hx => hl x (List.mem_cons_of_mem _ hx)) ?_
    unfold addTriggerToModel
    exact (h.checkedAssign hm.override ev.1 (.trigger ev.1) ⟨rfl, hl ev (List.mem_cons_self ..)⟩).checkedAssign
      hm.override (mayName ev.1) (.may ev.1) rfl

theorem PreOK.fold_addModelToState {hm : HM} :
    ∀ (l : List Name) (o : Obj), (∀ s ∈ l, s ∈ hm.states) → PreOK hm o →
      PreOK hm (l.foldl (fun o s => addModelToState hm.override hm.attr s o) o)
  | [], o, _, h => h
  | s :: r, o, hl, h => by
    simp only [List.foldl_cons]
    refine PreOK.fold_addModelToState r _ (fun x hx => hl x (List.mem_cons_of_mem _ hx)) ?_
    unfold addModelToState
    exact h.checkedAssign hm.override (isName hm.attr s) (.isState s) ⟨rfl, hl s (List.mem_cons_self ..)⟩

theorem bindModel_preOK (hm : HM) (o : Obj) (hf : o.Fresh) : PreOK hm (bindModel hm o) := by
  unfold bindModel
  have h0 : PreOK hm o := ⟨hf.1, fun n b hb => OKB_of_isUser hm n b (hf.2 n b hb)⟩
  have h1 := (h0.checkedAssign hm.override sTrigger .triggerFn rfl).checkedAssign hm.override sMayTrigger .mayTriggerFn rfl
  have h2 := PreOK.fold_addTrigger hm.events _ (fun ev hev => List.mem_map_of_mem (f := (·.1)) hev) h1
  exact PreOK.fold_addModelToState hm.states _ (fun s hs => hs) h2

theorem Inv.addModel {hm : HM} (h : Inv hm) (m : Nat) (o : Obj) (hf : o.Fresh) : Inv (addModel hm m o).1 := by
  unfold Helpers.addModel
  cases hi : hm.initial with
  | none => exact h
  | some i =>
    simp only
    cases hk : kget m hm.objs with
    | some x => simpa using h
    | none =>
      simp only [Option.isSome_none, Bool.false_eq_true, if_false]
      split
      · rename_i his
        have hpre := bindModel_preOK hm o hf
        refine h.of_parts rfl rfl rfl (fun j hj => ?_) ?_ ?_
        · exact h.init j (by rw [hi]; exact hj)
        · intro m' o' hmo
          rcases List.mem_append.mp hmo with h1 | h1
          · exact ⟨(h.objs m' o' h1).cls, (h.objs m' o' h1).inst, (h.objs m' o' h1).st⟩
          · simp only [List.mem_singleton, Prod.mk.injEq] at h1
            obtain ⟨_, rfl⟩ := h1
            refine ⟨hpre.cls, ?_, ⟨i, by simp [Obj.setattr, kget_kset_self]⟩⟩
            intro n b hb
            by_cases hn : n = hm.attr
            · subst hn
              simp only [Obj.setattr, kget_kset_self] at hb
              injection hb with hb; subst hb; exact ⟨rfl, his⟩
            · simp only [Obj.setattr, kget_kset_ne _ _ _ _ hn] at hb
              exact OKB.mono rfl (fun _ h => h) (fun _ h => h) (hpre.inst n b hb)
        · show (keys (hm.objs ++ [_])).Nodup
          rw [keys_append]
          exact List.nodup_append.mpr ⟨h.nodupM, by simp [keys], by
            intro a ha b hb; simp [keys] at hb; subst hb; intro hab; subst hab
            exact ((kget_none_iff _ _).mp hk) ha⟩
      · exact h


/-! #### remove_transition -/

def Obj.dropInst (o : Obj) (e : Name) : Obj := { o with inst := kdel e o.inst }

theorem delattr_some {o o' : Obj} {e : Name} (h : o.delattr e = some o') : o' = o.dropInst e ∧ (kget e o.inst).isSome := by
  unfold Obj.delattr at h
  split at h
  · rename_i hs; injection h with h; exact ⟨h.symm, hs⟩
  · cases h

/-- what the `delattr` loop leaves behind: every object is either untouched or has lost the entry,
the keys are the same; when the loop completes every object has lost it and had it before -/
theorem delLoop_spec (e : Name) : ∀ (l : List (Nat × Obj)),
    keys (delLoop e l).1 = keys l ∧
    (∀ m o', (m, o') ∈ (delLoop e l).1 → ∃ o, (m, o) ∈ l ∧ (o' = o ∨ (o' = o.dropInst e ∧ (kget e o.inst).isSome))) ∧
    ((delLoop e l).2 = true → ∀ m o', (m, o') ∈ (delLoop e l).1 → ∃ o, (m, o) ∈ l ∧ o' = o.dropInst e ∧ (kget e o.inst).isSome)
  | [] => ⟨rfl, (fun m o' h => by cases h), (fun _ m o' h => by cases h)⟩
  | (m0, o0) :: r => by
    obtain ⟨ik, ia, ib⟩ := delLoop_spec e r
    unfold delLoop
    cases hd : o0.delattr e with
    | none =>
      refine ⟨rfl, ?_, by intro h; cases h⟩
      intro m o' h; exact ⟨o', h, Or.inl rfl⟩
    | some o1 =>
      obtain ⟨rfl, hs⟩ := delattr_some hd
      refine ⟨by simp only [keys, List.map_cons] at ik ⊢; rw [ik], ?_, ?_⟩
      · intro m o' h
        rcases List.mem_cons.mp h with h | h
        · injection h with h1 h2; subst h1; subst h2
          exact ⟨o0, List.mem_cons_self .., Or.inr ⟨rfl, hs⟩⟩
        · obtain ⟨o, ho, hc⟩ := ia m o' h
          exact ⟨o, List.mem_cons_of_mem _ ho, hc⟩
      · intro hok m o' h
        rcases List.mem_cons.mp h with h | h
        · injection h with h1 h2; subst h1; subst h2
          exact ⟨o0, List.mem_cons_self .., rfl, hs⟩
        · obtain ⟨o, ho, hc⟩ := ib hok m o' h
          exact ⟨o, List.mem_cons_of_mem _ ho, hc⟩

theorem ObjOK.dropInst {hm hm' : HM} {o : Obj} (h : ObjOK hm o) (e : Name) (hne : e ≠ hm.attr)
    (ha : hm'.attr = hm.attr) (hs : hm'.states = hm.states)
    (he : ∀ e' ∈ keys hm.events, e' ≠ e → e' ∈ keys hm'.events) : ObjOK hm' (o.dropInst e) := by
  refine ⟨h.cls, ?_, ?_⟩
  · intro n b hb
    by_cases hn : n = e
    · subst hn; simp [Obj.dropInst, kget_kdel_self] at hb
    · simp only [Obj.dropInst, kget_kdel_ne _ _ _ hn] at hb
      have ok := h.inst n b hb
      cases b <;> simp only [OKB, ha, hs] at ok ⊢ <;> try exact ok
      exact ⟨ok.1, he _ ok.2 (by rw [← ok.1]; exact hn)⟩
  · rw [ha]
    obtain ⟨s, hs'⟩ := h.st
    exact ⟨s, by simp only [Obj.dropInst, kget_kdel_ne _ _ _ (Ne.symm hne)]; exact hs'⟩

theorem Inv.removeTransition {hm : HM} (h : Inv hm) (e : Name) (src dst : Option Name) :
    Inv (removeTransition hm e src dst).1 := by
  unfold Helpers.removeTransition
  cases hk : kget e hm.events with
  | none => exact h
  | some ts =>
    have hmem : e ∈ keys hm.events := mem_keys_of_kget hk
    have hne : e ≠ hm.attr := h.evNe e hmem
    simp only
    cases hf : ts.filter (keepTr src dst) with
    | cons t keep =>
      simp only
      exact h.sameKeys (hm' := { hm with events := kset e (t :: keep) hm.events }) rfl rfl
        (keys_kset_of_mem _ hmem) rfl rfl
    | nil =>
      simp only
      obtain ⟨ik, ia, ib⟩ := delLoop_spec e hm.objs
      split
      · rename_i hok
        refine ⟨h.attrOK, ?_, ?_, h.init, by show (keys (delLoop e hm.objs).1).Nodup; rw [ik]; exact h.nodupM, ?_, h.nodupS⟩
        · intro m o' hmo
          obtain ⟨o, ho, rfl, _⟩ := ib hok m o' hmo
          exact (h.objs m o ho).dropInst e hne rfl rfl (by
            intro e' he' hne'; show e' ∈ keys (kdel e hm.events); exact (mem_keys_kdel e e' hm.events).mpr ⟨he', hne'⟩)
        · intro e' he'
          have : e' ∈ keys (kdel e hm.events) := he'
          exact h.evNe e' ((mem_keys_kdel e e' hm.events).mp this).1
        · show (keys (kdel e hm.events)).Nodup
          have hsub : List.Sublist (keys (kdel e hm.events)) (keys hm.events) := by
            clear hk hmem hf ik ia ib
            induction hm.events with
            | nil => exact List.Sublist.slnil
            | cons hd t ih =>
              obtain ⟨k0, v0⟩ := hd
              by_cases hk0 : k0 = e
              · simp only [kdel, hk0, if_true, keys, List.map_cons]; exact List.Sublist.cons _ ih
              · simp only [kdel, hk0, if_false, keys, List.map_cons]; exact List.Sublist.cons_cons _ ih
          exact List.Nodup.sublist hsub h.nodupE
      · refine h.of_parts rfl rfl rfl h.init ?_ (by show (keys (delLoop e hm.objs).1).Nodup; rw [ik]; exact h.nodupM)
        intro m o' hmo
        obtain ⟨o, ho, hc⟩ := ia m o' hmo
        rcases hc with h1 | ⟨h1, _⟩
        · rw [h1]; exact ⟨(h.objs m o ho).cls, (h.objs m o ho).inst, (h.objs m o ho).st⟩
        · rw [h1]; exact (h.objs m o ho).dropInst e hne rfl rfl (fun e' he' _ => he')

/-! #### events -/

theorem mem_kset {κ β : Type} [DecidableEq κ] {k k' : κ} {v v' : β} {l : List (κ × β)} (h : (k', v') ∈ kset k v l) :
    (k' = k ∧ v' = v) ∨ (k', v') ∈ l := by
  induction l with
  | nil => simp [kset] at h; exact Or.inl h
  | cons hd t ih =>
    obtain ⟨k0, v0⟩ := hd
    by_cases hk : k0 = k
    · simp only [kset, hk, if_true] at h
      rcases List.mem_cons.mp h with h | h
      · injection h with h1 h2; exact Or.inl ⟨h1, h2⟩
      · exact Or.inr (List.mem_cons_of_mem _ h)
    · simp only [kset, hk, if_false] at h
      rcases List.mem_cons.mp h with h | h
      · exact Or.inr (h ▸ List.mem_cons_self ..)
      · rcases ih h with h' | h'
        · exact Or.inl h'
        · exact Or.inr (List.mem_cons_of_mem _ h')

theorem Inv.fire {hm : HM} (h : Inv hm) (m : Nat) (e : Name) : Inv (fire hm m e).1 := by
  unfold Helpers.fire
  split
  · exact h
  · rename_i o hko
    split
    · exact h
    · split
      · exact h
      · split
        · exact h
        · split
          · exact h
          · split
            · exact h
            · split
              · exact h
              · rename_i d _
                split
                · rename_i hd
                  have hmo : (m, o) ∈ hm.objs := kget_mem _ _ _ hko
                  refine h.of_parts rfl rfl rfl h.init ?_ ?_
                  · intro m' o' hmo'
                    rcases mem_kset hmo' with ⟨_, rfl⟩ | h'
                    · have ok := h.objs m o hmo
                      refine ⟨ok.cls, ?_, ⟨d, by simp [Obj.setattr, kget_kset_self]⟩⟩
                      intro n b hb
                      by_cases hn : n = hm.attr
                      · subst hn
                        simp only [Obj.setattr, kget_kset_self] at hb
                        injection hb with hb; subst hb; exact ⟨rfl, hd⟩
                      · simp only [Obj.setattr, kget_kset_ne _ _ _ _ hn] at hb
                        exact ok.inst n b hb
                    · exact ⟨(h.objs m' o' h').cls, (h.objs m' o' h').inst, (h.objs m' o' h').st⟩
                  · show (keys (kset m _ hm.objs)).Nodup
                    rw [keys_kset_of_mem _ (mem_keys_of_kget hko)]; exact h.nodupM
                · exact h

/-! #### histories -/

/-- every object handed to `add_model` is fresh (carries nothing of this machine yet) -/
def OpsFresh (ops : List Op) : Prop := ∀ m o, Op.addModel m o ∈ ops → o.Fresh

theorem Inv.applyOp {hm : HM} (h : Inv hm) (op : Op) (hf : ∀ m o, op = .addModel m o → o.Fresh) : Inv (applyOp hm op).1 := by
  cases op with
  | setInitial s => exact h.setInitial s
  | addState s => exact h.addState s
  | addTransition e src dst pass => exact h.addTransition e src dst pass
  | removeTransition e src dst => exact h.removeTransition e src dst
  | addModel m o => exact h.addModel m o (hf m o rfl)
  | fire m e => exact h.fire m e

theorem Inv.run : ∀ (ops : List Op) (hm : HM), Inv hm → OpsFresh ops → Inv (run hm ops)
  | [], _, h, _ => h
  | op :: r, hm, h, hf => by
    unfold Helpers.run
    exact Inv.run r _ (h.applyOp op (fun m o he => hf m o (he ▸ List.mem_cons_self ..)))
      (fun m o hmo => hf m o (List.mem_cons_of_mem _ hmo))

theorem Inv.new (attr : Name) (ov auto : Bool) (ha : AttrOK attr) : Inv (HM.new attr ov auto) :=
  ⟨ha, (fun m o h => by cases h), (fun e h => by cases h), (fun i h => by cases h), List.nodup_nil, List.nodup_nil,
    List.nodup_nil⟩

end Helpers
end TM
