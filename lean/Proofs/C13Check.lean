/-
  Proofs/C13Check.lean — the computable checker `Build.equivCheck` is sound for `≈`.
-/
import Model.Spec.C13

namespace TM
namespace Build

theorem alookup_none_of_not_mem {β : Type} (k : Nat) : ∀ (l : List (Nat × β)),
    k ∉ l.map (·.1) → alookup k l = none := by
  intro l
  induction l with
  | nil => intro _; rfl
  | cons x r ih =>
    intro hm
    obtain ⟨k', v⟩ := x
    simp only [List.map_cons, List.mem_cons, not_or] at hm
    have : ¬ k' = k := fun e => hm.1 e.symm
    simp only [alookup, this, if_false]
    exact ih hm.2

theorem sameCands_sound (x y : List Trans) (h : sameCands x y = true) (src : Nat) :
    candidates x src = candidates y src := by
  have hf : x.filter (·.source = src) = y.filter (·.source = src) := by
    by_cases hm : src ∈ sourcesOf x ++ sourcesOf y
    · simp only [sameCands, List.all_eq_true, beq_iff_eq] at h
      exact h src hm
    · simp only [List.mem_append, not_or, sourcesOf, List.mem_map, not_exists, not_and] at hm
      have hx : x.filter (·.source = src) = [] := by
        rw [List.filter_eq_nil_iff]
        intro t ht
        simpa using hm.1 t ht
      have hy : y.filter (·.source = src) = [] := by
        rw [List.filter_eq_nil_iff]
        intro t ht
        simpa using hm.2 t ht
      rw [hx, hy]
  unfold candidates
  rw [hf]

theorem equivCheck_sound (a b : Cfg) (h : equivCheck a b = true) : a ≈ b := by
  simp only [equivCheck, Bool.and_eq_true, beq_iff_eq, List.all_eq_true] at h
  obtain ⟨⟨⟨⟨⟨⟨⟨⟨⟨⟨hig, hst⟩, hev⟩, h1⟩, h2⟩, h3⟩, h4⟩, h5⟩, h6⟩, h7⟩, h8⟩ := h
  have hall : ∀ ev, (a.event? ev).isSome = (b.event? ev).isSome ∧
      ∀ src, candidates ((a.event? ev).getD []) src = candidates ((b.event? ev).getD []) src := by
    intro ev
    by_cases hm : ev ∈ a.events.map (·.1) ++ b.events.map (·.1)
    · obtain ⟨hk, hc⟩ := hev ev hm
      exact ⟨hk, sameCands_sound _ _ hc⟩
    · simp only [List.mem_append, not_or] at hm
      have ha : a.event? ev = none := alookup_none_of_not_mem ev _ hm.1
      have hb : b.event? ev = none := alookup_none_of_not_mem ev _ hm.2
      simp [ha, hb]
  exact { ignore := hig, states := hst, known := fun ev => (hall ev).1, cands := fun ev => (hall ev).2,
          prepareEvent := h1, beforeSC := h2, afterSC := h3, finalize := h4, onException := h5,
          onFinal := h6, queued := h7, initial := h8 }

end Build
end TM
