/-
  Proofs/C12NTrig.lean — the trigger side of C12 on the hierarchical engine: when does `ntriggerEvent` execute a
  transition (= append an `exec` ghost event: some `nexecute` got past its conditions)?

    * `Mono`: a dispatch computation never runs out of fuel and only appends to the ghost log — for ANY state, any script
      without re-entrant commands (`ten_mono`, …, `ntriggerEvent_mono`); needs the state definitions to be well-formed
      (`ScopeOK`: the breadth-first descent through `initial` terminates);
    * `NBlk` / `Exd`: a computation in which every candidate looked at is blocked leaves the configuration, the
      `exited_states` set and the "nothing executed yet" status of `event_data.result` alone and appends no `exec`;
      one in which some candidate passes appends an `exec`, whatever happens afterwards;
    * `ten_spec`: `_trigger_event_nested` on an admissible configuration visits exactly `tenPairs` until the first
      passing candidate — the skipping rules of the dispatch (`done`, `exited_states`, `offered`, `res.get(key, False)`) never
      withhold a candidate before something has executed.
-/
import Proofs.C12NPairs

namespace TM
open C02 Enter

theorem nbind_ok {α β : Type} (a : α) (s : NSt) (f : α → NSt → NR β) : (Res.ok a s : NR α).bind f = f a s := rfl
theorem nbind_err {α β : Type} (e : Exc) (s : NSt) (f : α → NSt → NR β) : (Res.err e s : NR α).bind f = .err e s := rfl

/-- the segment contains an `exec` ghost event -/
def hasExec (l : List GEv) : Bool := l.any fun g => match g with | .exec _ => true | _ => false

theorem hasExec_append (a b : List GEv) : hasExec (a ++ b) = (hasExec a || hasExec b) := List.any_append

/-- never out of fuel, the ghost log only grows -/
structure Mono {α} (r : NR α) (s : NSt) : Prop where
  noOof : r ≠ .oof
  grow : ∀ s', r.state? = some s' → ∃ seg, s'.glog = s.glog ++ seg

/-- never out of fuel, and an `exec` event is appended -/
structure Exd {α} (r : NR α) (s : NSt) : Prop where
  noOof : r ≠ .oof
  grow : ∀ s', r.state? = some s' → ∃ seg, s'.glog = s.glog ++ seg ∧ hasExec seg = true

/-- every candidate was blocked: configuration and `exited_states` as before, `event_data.result` still not True,
no `exec` appended -/
structure NBlk (s s' : NSt) : Prop where
  conf : s'.conf = s.conf
  exited : s'.exited = s.exited
  result : s.result ≠ some true → s'.result ≠ some true
  glog : ∃ seg, s'.glog = s.glog ++ seg ∧ hasExec seg = false

theorem NBlk.refl (s : NSt) : NBlk s s := ⟨rfl, rfl, id, [], by simp, rfl⟩

theorem NBlk.trans {a b c : NSt} (h1 : NBlk a b) (h2 : NBlk b c) : NBlk a c := by
  obtain ⟨g1, l1, e1⟩ := h1.glog
  obtain ⟨g2, l2, e2⟩ := h2.glog
  exact ⟨h2.conf.trans h1.conf, h2.exited.trans h1.exited, fun h => h2.result (h1.result h), g1 ++ g2,
    by rw [l2, l1, List.append_assoc], by rw [hasExec_append, e1, e2]; rfl⟩

theorem NBlk.of_nframe {s s' : NSt} (h : NFrame s s') : NBlk s s' :=
  ⟨h.conf, h.exited, fun hr => by rw [h.result]; exact hr, [], by simp [h.glog], rfl⟩

theorem Mono.ok {α} (a : α) (s : NSt) : Mono (.ok a s : NR α) s :=
  ⟨(by intro h; cases h), fun s' h => by simp only [Res.state?, Option.some.injEq] at h; subst h; exact ⟨[], by simp⟩⟩

theorem Mono.err {α} (e : Exc) (s : NSt) : Mono (.err e s : NR α) s :=
  ⟨(by intro h; cases h), fun s' h => by simp only [Res.state?, Option.some.injEq] at h; subst h; exact ⟨[], by simp⟩⟩

/-- the starting point may be moved back along the ghost log -/
theorem Mono.from {α} {r : NR α} {s s1 : NSt} (h : Mono r s1) (hg : ∃ seg, s1.glog = s.glog ++ seg) : Mono r s := by
  obtain ⟨g0, l0⟩ := hg
  refine ⟨h.1, fun s' hs => ?_⟩
  obtain ⟨g, l⟩ := h.2 s' hs
  exact ⟨g0 ++ g, by rw [l, l0, List.append_assoc]⟩

theorem Mono.congr {α} {r : NR α} {s s1 : NSt} (h : Mono r s1) (hg : s1.glog = s.glog) : Mono r s :=
  h.from ⟨[], by simp [hg]⟩

theorem Mono.bind {α β} {r : NR α} {f : α → NSt → NR β} {s : NSt}
    (h1 : Mono r s) (h2 : ∀ a s1, Mono (f a s1) s1) : Mono (r.bind f) s := by
  cases r with
  | ok a s1 =>
    obtain ⟨g1, l1⟩ := h1.2 s1 rfl
    exact (h2 a s1).from ⟨g1, l1⟩
  | err e s1 =>
    obtain ⟨g1, l1⟩ := h1.2 s1 rfl
    exact (Mono.err e s1).from ⟨g1, l1⟩
  | oof => exact absurd rfl h1.1

theorem Mono.map {α β} {r : NR α} {f : α → β} {s : NSt} (h : Mono r s) : Mono (r.map f) s := by
  cases r with
  | ok a s1 => exact ⟨(by intro h'; cases h'), h.2⟩
  | err e s1 => exact ⟨(by intro h'; cases h'), h.2⟩
  | oof => exact absurd rfl h.1

theorem Exd.toMono {α} {r : NR α} {s : NSt} (h : Exd r s) : Mono r s :=
  ⟨h.1, fun s' hs => by obtain ⟨g, l, _⟩ := h.2 s' hs; exact ⟨g, l⟩⟩

/-- an `exec` has been appended already: whatever follows (if it neither runs out of fuel nor shrinks the log) -/
theorem Exd.of_mono {α} {r : NR α} {s s1 : NSt} (h : Mono r s1) (g0 : List GEv) (hg : s1.glog = s.glog ++ g0)
    (he : hasExec g0 = true) : Exd r s := by
  refine ⟨h.1, fun s' hs => ?_⟩
  obtain ⟨g, l⟩ := h.2 s' hs
  exact ⟨g0 ++ g, by rw [l, hg, List.append_assoc], by rw [hasExec_append, he]; rfl⟩

/-- the starting point may be moved back -/
theorem Exd.from {α} {r : NR α} {s s1 : NSt} (h : Exd r s1) (hg : ∃ seg, s1.glog = s.glog ++ seg) : Exd r s := by
  obtain ⟨g0, l0⟩ := hg
  refine ⟨h.1, fun s' hs => ?_⟩
  obtain ⟨g, l, e⟩ := h.2 s' hs
  exact ⟨g0 ++ g, by rw [l, l0, List.append_assoc], by rw [hasExec_append, e]; simp⟩

theorem Exd.from_blk {α} {r : NR α} {s s1 : NSt} (h : Exd r s1) (hb : NBlk s s1) : Exd r s :=
  h.from (by obtain ⟨g, l, _⟩ := hb.glog; exact ⟨g, l⟩)

theorem Exd.bind_left {α β} {r : NR α} {f : α → NSt → NR β} {s : NSt}
    (h1 : Exd r s) (h2 : ∀ a s1, Mono (f a s1) s1) : Exd (r.bind f) s := by
  cases r with
  | ok a s1 =>
    obtain ⟨g1, l1, e1⟩ := h1.2 s1 rfl
    exact Exd.of_mono (h2 a s1) g1 l1 e1
  | err e s1 =>
    obtain ⟨g1, l1, e1⟩ := h1.2 s1 rfl
    exact Exd.of_mono (Mono.err e s1) g1 l1 e1
  | oof => exact absurd rfl h1.1

/-! ### nothing in the dispatch runs out of fuel or shrinks the ghost log -/

section MonoChain
variable {sub : NSub} {sc : Script} {cfg : NCfg}

theorem ninvoke_mono (hC : NoCmds sc) (slot : Slot) (x : Ctx) (c : Nat) (s : NSt) :
    Mono (ninvoke sub sc cfg slot x c s) s := by
  simp only [ninvoke, hC c (s.count c), nrunCmds]
  cases (sc c (s.count c)).out with
  | ret b => exact (Mono.ok b _).congr rfl
  | raise e => exact (Mono.err e _).congr rfl

theorem ncallbacks_mono (hC : NoCmds sc) (slot : Slot) (x : Ctx) : ∀ (cbs : List Nat) (s : NSt),
    Mono (ncallbacks sub sc cfg slot x cbs s) s
  | [], s => Mono.ok () s
  | c :: cs, s => by
    unfold ncallbacks
    exact Mono.bind (ninvoke_mono hC slot x c s) (fun _ s1 => ncallbacks_mono hC slot x cs s1)

theorem nevalConds_mono (hC : NoCmds sc) (x : Ctx) : ∀ (cs : List Cond) (s : NSt),
    Mono (nevalConds sub sc cfg x cs s) s
  | [], s => Mono.ok true s
  | c :: cs, s => by
    unfold nevalConds
    refine Mono.bind (ninvoke_mono hC _ x c.cb s) ?_
    intro b s1
    split
    · exact nevalConds_mono hC x cs s1
    · exact Mono.ok false s1

theorem exitAll_mono (hC : NoCmds sc) (x : Ctx) : ∀ (fs : List Found) (s : NSt), Mono (exitAll sub sc cfg x fs s) s
  | [], s => Mono.ok () s
  | f :: fs, s => by
    unfold exitAll
    refine Mono.bind ((ncallbacks_mono hC _ x _ (s.emitG (.exit f.path))).from ⟨[.exit f.path], rfl⟩) ?_
    intro _ s1
    exact exitAll_mono hC x fs s1

theorem enterAll_mono (hC : NoCmds sc) (x : Ctx) : ∀ (fs : List Found) (s : NSt), Mono (enterAll sub sc cfg x fs s) s
  | [], s => Mono.ok () s
  | f :: fs, s => by
    unfold enterAll
    refine Mono.bind ((ncallbacks_mono hC _ x _ (s.emitG (.enter f.path))).from ⟨[.enter f.path], rfl⟩) ?_
    intro _ s1
    exact enterAll_mono hC x fs s1

theorem exitStates_no_oof (root sc' : Scope) (rt : SPath) : ∀ (ps : List SPath), exitStates root sc' rt ps ≠ .oof
  | [] => by intro h; cases h
  | p :: ps => by
    unfold exitStates
    split
    · intro h; cases h
    · cases hr : exitStates root sc' rt ps with
      | ok r => intro h; cases h
      | err e => intro h; cases h
      | oof => exact absurd hr (exitStates_no_oof root sc' rt ps)

theorem resolveTransition_no_oof (root scope : Scope) (hsc : ScopeOK scope) (conf : Forest) (dest : SPath) :
    resolveTransition root scope conf dest ≠ .oof := by
  unfold resolveTransition
  split
  · intro h; cases h
  · simp only []
    split
    · intro h; cases h
    · intro h; cases h
    · split
      · intro h; cases h
      · intro h; cases h
      · split
        · rename_i hro
          have key : ∀ X, resolveOrder X ≠ none := fun X h => by
            obtain ⟨l, hl⟩ := resolveOrder_total X; rw [hl] at h; cases h
          exact absurd hro (key _)
        · rename_i order _
          cases hx : exitStates root scope _ order with
          | oof => exact absurd hx (exitStates_no_oof _ _ _ _)
          | err e => intro h; cases h
          | ok exits =>
            simp only [PR.bind]
            cases hr : enterRoot scope _ _ with
            | oof => exact absurd hr (enterRoot_no_oof scope hsc _ _)
            | err e => intro h; cases h
            | ok r => intro h; cases h

theorem nchangeState_mono (hC : NoCmds sc) (scope : Scope) (hsc : ScopeOK scope) (x : Ctx) (dest : SPath) (s : NSt) :
    Mono (nchangeState sub sc cfg scope x dest s) s := by
  unfold nchangeState
  split
  · exact Mono.err _ s
  · rename_i h; exact absurd h (resolveTransition_no_oof _ _ hsc _ _)
  · rename_i r _
    refine Mono.bind ((exitAll_mono hC x r.exits { s with exited := s.exited ++ r.exitNames }).congr rfl) ?_
    intro _ s1
    exact (enterAll_mono hC x r.enters { s1 with conf := r.tree }).congr rfl

theorem nfinalLoop_no_oof (E : List SPath) : ∀ (f : Forest) (sc' : Scope) (cbs : List (List Nat)) (all : Bool),
    nfinalLoop E sc' f cbs all ≠ .oof := by
  intro f
  induction f with
  | nil => intro sc' cbs all; unfold nfinalLoop; intro h; cases h
  | cons k sub' rest ih1 ih2 =>
    intro sc' cbs all
    unfold nfinalLoop
    split
    · intro h; cases h
    · rename_i inner _
      cases hr : nfinalLoop E inner sub' [] true with
      | oof => exact absurd hr (ih1 _ _ _)
      | err e => intro h; cases h
      | ok r => simp only [PR.bind]; exact ih2 _ _ _

theorem nfinalCheckRoot_no_oof (tree : Forest) (E : List SPath) : nfinalCheckRoot cfg tree E ≠ .oof := by
  unfold nfinalCheckRoot
  cases hr : nfinalLoop E cfg.root tree [] true with
  | oof => exact absurd hr (nfinalLoop_no_oof E _ _ _ _)
  | err e => intro h; cases h
  | ok r =>
    simp only [PR.bind]
    split
    · intro h; cases h
    · split
      · split
        · intro h; cases h
        · split
          · intro h; cases h
          · intro h; cases h
      · intro h; cases h

/-- the tail of `_change_state` (the on_final lists) -/
theorem nfinalStage_mono (hC : NoCmds sc) (scope : Scope) (x : Ctx) (dest : Option SPath) (conf0 : Forest) (s : NSt) :
    Mono (nfinalStage sub sc cfg scope x dest conf0 s) s := by
  unfold nfinalStage
  cases dest with
  | none => exact Mono.ok () s
  | some d =>
    simp only []
    cases resolveTransition cfg.root scope conf0 d with
    | err e => exact Mono.ok () s
    | oof => exact Mono.ok () s
    | ok r =>
      simp only []
      cases hf : nfinalCheckRoot cfg r.tree (r.enters.map (·.path)) with
      | ok cbs => exact ncallbacks_mono hC _ x _ s
      | err e => exact Mono.err e s
      | oof => exact absurd hf (nfinalCheckRoot_no_oof (cfg := cfg) _ _)

theorem nexecute_mono (hC : NoCmds sc) (scope : Scope) (hsc : ScopeOK scope) (x : Ctx) (tr : TRef) (t : NTrans)
    (s : NSt) : Mono (nexecute sub sc cfg scope x tr t s) s := by
  unfold nexecute
  refine Mono.bind ((ncallbacks_mono hC _ x _ (s.emitG (.cand tr))).from ⟨[.cand tr], rfl⟩) ?_
  intro _ s1
  refine Mono.bind (nevalConds_mono hC x _ s1) ?_
  intro ok s2
  split
  · exact Mono.ok false s2
  · refine Mono.bind (ncallbacks_mono hC _ x _ s2) ?_
    intro _ s3
    refine Mono.bind ((ncallbacks_mono hC _ x _ (s3.emitG (.exec tr))).from ⟨[.exec tr], rfl⟩) ?_
    intro _ s4
    refine Mono.bind ?_ ?_
    · split
      · exact nchangeState_mono hC scope hsc x _ s4
      · exact Mono.ok () s4
    · intro _ s5
      refine Mono.bind (nfinalStage_mono hC scope x _ _ s5) ?_
      intro _ s5
      refine Mono.bind (ncallbacks_mono hC _ x _ s5) ?_
      intro _ s6
      refine Mono.bind (ncallbacks_mono hC _ x _ s6) ?_
      intro _ s7
      exact Mono.ok true s7

theorem ntry_mono (hC : NoCmds sc) (scope : Scope) (hsc : ScopeOK scope) (x : Ctx) :
    ∀ (cands : List (TRef × NTrans)) (s : NSt), Mono (ntry sub sc cfg scope x cands s) s
  | [], s => Mono.ok () s
  | (tr, t) :: r, s => by
    unfold ntry
    refine Mono.bind (nexecute_mono hC scope hsc x tr t s) ?_
    intro b s1
    cases b with
    | true => exact (Mono.ok () _).congr rfl
    | false => exact (ntry_mono hC scope hsc x r { s1 with result := some false }).congr rfl

theorem nprocess_mono (hC : NoCmds sc) (scope : Scope) (hsc : ScopeOK scope) (x : Ctx) (cands : List (TRef × NTrans))
    (s : NSt) : Mono (nprocess sub sc cfg scope x cands s) s := by
  unfold nprocess
  exact Mono.bind (ncallbacks_mono hC _ x _ s) (fun _ s1 => ntry_mono hC scope hsc x cands s1)

theorem tnLoop_mono (hC : NoCmds sc) (scope : Scope) (hsc : ScopeOK scope) (x : Ctx) (ev : Nat) (ts : List NTrans) :
    ∀ (ps done : List SPath) (s : NSt), Mono (tnLoop sub sc cfg scope x ev ts ps done s) s
  | [], done, s => Mono.ok done s
  | p :: ps, done, s => by
    unfold tnLoop
    simp only []
    split
    · exact tnLoop_mono hC scope hsc x ev ts ps done s
    · split
      · exact Mono.err _ s
      · exact Mono.bind (nprocess_mono hC scope hsc x _ s) (fun _ s1 => tnLoop_mono hC scope hsc x ev ts ps _ s1)

theorem triggerNested_mono (hC : NoCmds sc) (scope : Scope) (hsc : ScopeOK scope) (x : Ctx) (ev : Nat)
    (ts : List NTrans) (s : NSt) : Mono (triggerNested sub sc cfg scope x ev ts s) s := by
  unfold triggerNested
  split
  · exact Mono.err _ s
  · exact Mono.err _ s
  · split
    · rename_i hro
      have key : ∀ X, resolveOrder X ≠ none := fun X h => by
        obtain ⟨l, hl⟩ := resolveOrder_total X; rw [hl] at h; cases h
      exact absurd hro (key _)
    · refine Mono.bind (tnLoop_mono hC scope hsc x ev ts _ _ s) ?_
      intro done s1
      split
      · exact Mono.ok _ s1
      · exact (Mono.ok _ _).congr rfl

theorem ten_mono (hC : NoCmds sc) (x : Ctx) (ev : Nat) :
    ∀ (tree : Forest) (scope : Scope) (res : List (Nat × Bool)) (offered : Bool) (s : NSt), ScopeOK scope →
    Mono (ten sub sc cfg x ev scope tree res offered s) s := by
  intro tree
  induction tree with
  | nil => intro scope res offered s _; unfold ten; exact Mono.ok res s
  | cons key value rest ihv ihr =>
    intro scope res offered s hsc
    unfold ten
    refine Mono.bind ?_ ?_
    · split
      · exact Mono.ok res s
      · split
        · exact Mono.err _ s
        · rename_i inner he
          exact Mono.bind (ihv inner [] false s (ScopeOK_enter hsc.wf he)) (fun _ s1 => Mono.ok _ s1)
    · intro res1 s1
      split
      · split
        · exact Mono.bind (triggerNested_mono hC scope hsc x ev _ s1) (fun _ s2 => ihr scope _ true s2 hsc)
        · exact ihr scope res1 offered s1 hsc
      · exact ihr scope res1 offered s1 hsc

theorem cerLoop_no_oof (ev : Nat) : ∀ (l : List SPath), cerLoop cfg ev l ≠ .oof
  | [] => by intro h; cases h
  | p :: r => by
    unfold cerLoop
    split
    · intro h; cases h
    · split
      · split <;> (intro h; cases h)
      · exact cerLoop_no_oof ev r

theorem checkEventResult_mono (res : Option Bool) (ev : Nat) (s : NSt) :
    Mono (checkEventResult cfg res ev s) s := by
  unfold checkEventResult
  split
  · exact Mono.ok _ s
  · split
    · exact Mono.ok _ s
    · exact Mono.err _ s
    · rename_i h; exact absurd h (cerLoop_no_oof ev _)

theorem triggerEventBody_mono (hC : NoCmds sc) (hwf : cfg.states.WF = true) (x : Ctx) (ev : Nat) (s : NSt) :
    Mono (triggerEventBody sub sc cfg x ev s) s := by
  unfold triggerEventBody
  refine Mono.bind (ten_mono hC x ev s.conf cfg.root [] false s (ScopeOK_root cfg hwf)) ?_
  intro r s1
  refine Mono.bind (checkEventResult_mono _ ev s1) ?_
  intro b s2
  exact (Mono.ok b _).congr rfl

/-- `finally:` always completes, appending the `fin` mark -/
theorem nfinalize_some (hC : NoCmds sc) (x : Ctx) (s : NSt) :
    ∃ s', nfinalize sub sc cfg x s = some s' ∧ s'.glog = s.glog ++ [.fin x.tag (confMask cfg s.conf)] := by
  unfold nfinalize
  have hm := ncallbacks_mono (sub := sub) (cfg := cfg) hC .finalize x cfg.finalize
    (s.emitG (.fin x.tag (confMask cfg s.conf)))
  have hv := ncallbacks_view sub sc cfg hC .finalize x cfg.finalize (s.emitG (.fin x.tag (confMask cfg s.conf)))
  cases hc : ncallbacks sub sc cfg .finalize x cfg.finalize (s.emitG (.fin x.tag (confMask cfg s.conf))) with
  | ok u s1 => exact ⟨s1, rfl, congrArg View.glog (hv s1 (by rw [hc]; rfl))⟩
  | err e s1 => exact ⟨s1, rfl, congrArg View.glog (hv s1 (by rw [hc]; rfl))⟩
  | oof => exact absurd hc hm.noOof

/-- what `Transition.execute` does after the conditions passed and the `before_state_change` callbacks ran -/
def nexecTail (sub : NSub) (sc : Script) (cfg : NCfg) (scope : Scope) (x : Ctx) (t : NTrans) (s0 : NSt) : NR Bool :=
  (ncallbacks sub sc cfg .before x t.before s0).bind fun _ s4 =>
  (match t.dest with
    | some d => nchangeState sub sc cfg scope x d s4
    | none => .ok () s4).bind fun _ s5 =>
  (nfinalStage sub sc cfg scope x t.dest s4.conf s5).bind fun _ s5 =>
  (ncallbacks sub sc cfg .after x t.after s5).bind fun _ s6 =>
  (ncallbacks sub sc cfg .afterSC x cfg.afterSC s6).bind fun _ s7 =>
    .ok true s7

theorem nexecTail_mono (hC : NoCmds sc) (scope : Scope) (hsc : ScopeOK scope) (x : Ctx) (t : NTrans) (s0 : NSt) :
    Mono (nexecTail sub sc cfg scope x t s0) s0 := by
  unfold nexecTail
  refine Mono.bind (ncallbacks_mono hC _ x _ s0) ?_
  intro _ s4
  refine Mono.bind ?_ ?_
  · split
    · exact nchangeState_mono hC scope hsc x _ s4
    · exact Mono.ok () s4
  · intro _ s5
    refine Mono.bind (nfinalStage_mono hC scope x _ _ s5) ?_
    intro _ s5
    refine Mono.bind (ncallbacks_mono hC _ x _ s5) ?_
    intro _ s6
    refine Mono.bind (ncallbacks_mono hC _ x _ s6) ?_
    intro _ s7
    exact Mono.ok true s7

end MonoChain

/-! ### blocked candidates and the first passing one -/

section Spec
variable (sub : NSub) (sc : Script) (cfg : NCfg)

/-- `Transition.execute`: a blocked candidate returns False having touched nothing; a passing one appends `exec` -/
theorem nexecute_spec (hR : NoRaise sc) (hC : NoCmds sc) (hD : Deterministic sc) (scope : Scope) (hsc : ScopeOK scope)
    (x : Ctx) (tr : TRef) (t : NTrans) (s : NSt) :
    (npasses sc t = false → ∃ s', nexecute sub sc cfg scope x tr t s = .ok false s' ∧ NBlk s s') ∧
    (npasses sc t = true → Exd (nexecute sub sc cfg scope x tr t s) s) := by
  obtain ⟨s1, e1, f1⟩ := ncallbacks_fr sub sc cfg hR hC .prepare x t.prepare (s.emitG (.cand tr))
  obtain ⟨s2, e2, f2⟩ := nevalConds_det sub sc cfg hR hC hD x t.conds s1
  have hg2 : s2.glog = s.glog ++ [.cand tr] := by rw [f2.glog, f1.glog]; rfl
  constructor
  · intro hp
    have hp' : condsPass sc t.conds = false := hp
    refine ⟨s2, ?_, ?_⟩
    · unfold nexecute
      rw [e1, nbind_ok, e2, nbind_ok, hp']
      rfl
    · exact ⟨by rw [f2.conf, f1.conf]; rfl, by rw [f2.exited, f1.exited]; rfl,
        fun h => by rw [f2.result, f1.result]; exact h, [.cand tr], hg2, rfl⟩
  · intro hp
    have hp' : condsPass sc t.conds = true := hp
    obtain ⟨s3, e3, f3⟩ := ncallbacks_fr sub sc cfg hR hC .beforeSC x cfg.beforeSC s2
    have heq : nexecute sub sc cfg scope x tr t s = nexecTail sub sc cfg scope x t (s3.emitG (.exec tr)) := by
      unfold nexecute
      rw [e1, nbind_ok, e2, nbind_ok, hp']
      simp only [Bool.not_true, Bool.false_eq_true, if_false]
      rw [e3, nbind_ok]
      rfl
    rw [heq]
    refine Exd.of_mono (nexecTail_mono hC scope hsc x t _) [.cand tr, .exec tr] ?_ rfl
    show s3.glog ++ [.exec tr] = s.glog ++ [.cand tr, .exec tr]
    rw [f3.glog, hg2]; simp

/-- the candidate loop of `NestedEvent._process` -/
theorem ntry_spec (hR : NoRaise sc) (hC : NoCmds sc) (hD : Deterministic sc) (scope : Scope) (hsc : ScopeOK scope)
    (x : Ctx) : ∀ (cands : List (TRef × NTrans)) (s : NSt),
    ((cands.any fun c => npasses sc c.2) = false → ∃ s', ntry sub sc cfg scope x cands s = .ok () s' ∧ NBlk s s') ∧
    ((cands.any fun c => npasses sc c.2) = true → Exd (ntry sub sc cfg scope x cands s) s)
  | [], s => ⟨fun _ => ⟨s, rfl, NBlk.refl s⟩, fun h => by simp at h⟩
  | (tr, t) :: r, s => by
    obtain ⟨hb, hx⟩ := nexecute_spec sub sc cfg hR hC hD scope hsc x tr t s
    cases hp : npasses sc t with
    | false =>
      obtain ⟨s1, e1, b1⟩ := hb hp
      have b1' : NBlk s { s1 with result := some false } :=
        ⟨b1.conf, b1.exited, fun _ h => (by cases h), b1.glog⟩
      obtain ⟨ihb, ihx⟩ := ntry_spec hR hC hD scope hsc x r { s1 with result := some false }
      have hstep : ntry sub sc cfg scope x ((tr, t) :: r) s = ntry sub sc cfg scope x r { s1 with result := some false } := by
        conv => lhs; unfold ntry
        rw [e1, nbind_ok]
        rfl
      rw [hstep]
      simp only [List.any_cons, hp, Bool.false_or]
      exact ⟨fun h => by obtain ⟨s2, e2, b2⟩ := ihb h; exact ⟨s2, e2, b1'.trans b2⟩,
        fun h => (ihx h).from_blk b1'⟩
    | true =>
      simp only [List.any_cons, hp, Bool.true_or]
      refine ⟨fun h => (by cases h), fun _ => ?_⟩
      unfold ntry
      refine Exd.bind_left (hx hp) ?_
      intro b s1
      cases b with
      | true => exact (Mono.ok () _).congr rfl
      | false => exact (ntry_mono hC scope hsc x r { s1 with result := some false }).congr rfl

/-- `NestedEvent._process` -/
theorem nprocess_spec (hR : NoRaise sc) (hC : NoCmds sc) (hD : Deterministic sc) (scope : Scope) (hsc : ScopeOK scope)
    (x : Ctx) (cands : List (TRef × NTrans)) (s : NSt) :
    ((cands.any fun c => npasses sc c.2) = false → ∃ s', nprocess sub sc cfg scope x cands s = .ok () s' ∧ NBlk s s') ∧
    ((cands.any fun c => npasses sc c.2) = true → Exd (nprocess sub sc cfg scope x cands s) s) := by
  obtain ⟨s1, e1, f1⟩ := ncallbacks_fr sub sc cfg hR hC .prepareEvent x cfg.prepareEvent s
  obtain ⟨hb, hx⟩ := ntry_spec sub sc cfg hR hC hD scope hsc x cands s1
  have heq : nprocess sub sc cfg scope x cands s = ntry sub sc cfg scope x cands s1 := by
    unfold nprocess; rw [e1, nbind_ok]
  rw [heq]
  exact ⟨fun h => by obtain ⟨s2, e2, b2⟩ := hb h; exact ⟨s2, e2, (NBlk.of_nframe f1).trans b2⟩,
    fun h => (hx h).from_blk (NBlk.of_nframe f1)⟩

theorem ncandidates_any (pre : SPath) (ev : Nat) (ts : List NTrans) (p : SPath) (f : NTrans → Bool) :
    ((ncandidates pre ev ts p).any fun c => f c.2) = (nmayCands ts p).any f := by
  have h1 : nmayCands ts p = ((ts.zipIdx.filter fun e => decide (e.1.source = p)).map Prod.fst) := by
    unfold nmayCands
    conv => lhs; rw [← List.zipIdx_map_fst 0 ts]
    rw [List.filter_map]
    rfl
  rw [h1]
  simp only [ncandidates, List.any_map]
  rfl

theorem ncandidates_isEmpty (pre : SPath) (ev : Nat) (ts : List NTrans) (p : SPath)
    (h : (ncandidates pre ev ts p).isEmpty = true) (f : NTrans → Bool) : (nmayCands ts p).any f = false := by
  rw [← ncandidates_any pre ev]
  rw [List.isEmpty_iff.mp h]
  rfl

/-- the `for state_path in ordered_states:` loop of `trigger_nested` as long as nothing has executed: `done` stays
empty, `exited_states` is empty, so every state with candidates gets its turn -/
theorem tnLoop_spec (hR : NoRaise sc) (hC : NoCmds sc) (hD : Deterministic sc) (scope : Scope) (hsc : ScopeOK scope)
    (x : Ctx) (ev : Nat) (ts : List NTrans) : ∀ (ps : List SPath) (s : NSt),
    (∀ p ∈ ps, (getState cfg.root scope p).isSome = true) → s.exited = [] → s.result ≠ some true →
    ((ps.any fun p => (nmayCands ts p).any (npasses sc)) = false →
      ∃ s', tnLoop sub sc cfg scope x ev ts ps [] s = .ok [] s' ∧ NBlk s s') ∧
    ((ps.any fun p => (nmayCands ts p).any (npasses sc)) = true → Exd (tnLoop sub sc cfg scope x ev ts ps [] s) s)
  | [], s, _, _, _ => ⟨fun _ => ⟨s, rfl, NBlk.refl s⟩, fun h => by simp at h⟩
  | p :: ps, s, hreg, hex, hres => by
    by_cases hce : (ncandidates scope.pre ev ts p).isEmpty = true
    · -- no transition of this event from `p` in this scope
      have hskip : tnLoop sub sc cfg scope x ev ts (p :: ps) [] s = tnLoop sub sc cfg scope x ev ts ps [] s := by
        conv => lhs; unfold tnLoop
        simp [hce]
      rw [hskip]
      simp only [List.any_cons, ncandidates_isEmpty scope.pre ev ts p hce, Bool.false_or]
      exact tnLoop_spec hR hC hD scope hsc x ev ts ps s (fun q hq => hreg q (List.mem_cons_of_mem _ hq)) hex hres
    · obtain ⟨fd, hfd⟩ := Option.isSome_iff_exists.mp (hreg p (List.mem_cons_self ..))
      have hstep : tnLoop sub sc cfg scope x ev ts (p :: ps) [] s =
          (nprocess sub sc cfg scope x (ncandidates scope.pre ev ts p) s).bind fun _ s' =>
            tnLoop sub sc cfg scope x ev ts ps (if s'.result = some true then [] ++ prefixesOf p else []) s' := by
        conv => lhs; unfold tnLoop
        simp [hce, hex, hfd]
      rw [hstep]
      obtain ⟨hb, hx⟩ := nprocess_spec sub sc cfg hR hC hD scope hsc x (ncandidates scope.pre ev ts p) s
      rw [ncandidates_any scope.pre ev ts p (npasses sc)] at hb hx
      simp only [List.any_cons]
      cases hp : (nmayCands ts p).any (npasses sc) with
      | false =>
        obtain ⟨s1, e1, b1⟩ := hb hp
        have hres1 : s1.result ≠ some true := b1.result hres
        have hex1 : s1.exited = [] := by rw [b1.exited, hex]
        rw [e1, nbind_ok, if_neg hres1]
        simp only [Bool.false_or]
        obtain ⟨ihb, ihx⟩ := tnLoop_spec hR hC hD scope hsc x ev ts ps s1
          (fun q hq => hreg q (List.mem_cons_of_mem _ hq)) hex1 hres1
        exact ⟨fun h => by obtain ⟨s2, e2, b2⟩ := ihb h; exact ⟨s2, e2, b1.trans b2⟩, fun h => (ihx h).from_blk b1⟩
      | true =>
        simp only [Bool.true_or]
        refine ⟨fun h => (by cases h), fun _ => ?_⟩
        exact Exd.bind_left (hx hp) (fun _ s1 => tnLoop_mono hC scope hsc x ev ts ps _ s1)

/-- `NestedEvent.trigger_nested` offered to a scope whose sub-tree of the configuration is `F`, nothing executed so far -/
theorem triggerNested_spec (hR : NoRaise sc) (hC : NoCmds sc) (hD : Deterministic sc) (scope : Scope) (hsc : ScopeOK scope)
    (x : Ctx) (ev : Nat) (ts : List NTrans) (s : NSt) (F : Forest)
    (hsub : s.conf.sub? scope.pre = some F) (hc : ConfOK scope.states F = true) (hex : s.exited = [])
    (hres : s.result ≠ some true) :
    ((((resolveOrder F).getD []).any fun p => (nmayCands ts p).any (npasses sc)) = false →
      ∃ v s', triggerNested sub sc cfg scope x ev ts s = .ok v s' ∧ NBlk s s' ∧ v ≠ some true) ∧
    ((((resolveOrder F).getD []).any fun p => (nmayCands ts p).any (npasses sc)) = true →
      Exd (triggerNested sub sc cfg scope x ev ts s) s) := by
  obtain ⟨order, ho⟩ := resolveOrder_total F
  have hreg : ∀ p ∈ order, (getState cfg.root scope p).isSome = true := by
    intro p hp
    obtain ⟨d, kids, hw, _⟩ := ConfOK_walk hc ((resolveOrder_perm ho).mem_iff.mp hp)
    exact getState_of_walk (by rw [hw]; rfl)
  have heq : triggerNested sub sc cfg scope x ev ts s =
      (tnLoop sub sc cfg scope x ev ts order [] s).bind fun done s' =>
        if done.isEmpty then .ok s'.result s' else .ok (some true) { s' with result := some true } := by
    unfold triggerNested
    simp only [Forest.reduceGet_some.mpr hsub, ho]
  rw [heq, ho]
  simp only [Option.getD_some]
  obtain ⟨hb, hx⟩ := tnLoop_spec sub sc cfg hR hC hD scope hsc x ev ts order s hreg hex hres
  constructor
  · intro h
    obtain ⟨s1, e1, b1⟩ := hb h
    exact ⟨s1.result, s1, by rw [e1, nbind_ok]; rfl, b1, b1.result hres⟩
  · intro h
    refine Exd.bind_left (hx h) ?_
    intro done s1
    split
    · exact Mono.ok _ s1
    · exact (Mono.ok _ _).congr rfl

/-- the head of one iteration of the `for key, value in _state_tree.items():` loop: the recursion into the child scope -/
def tenHead (sub : NSub) (sc : Script) (cfg : NCfg) (x : Ctx) (ev : Nat) (scope : Scope) (key : Nat) (value : Forest)
    (res : List (Nat × Bool)) (s : NSt) : NR (List (Nat × Bool)) :=
  if value.isEmpty then (.ok res s : NR (List (Nat × Bool))) else
    match scope.enter key with
    | none => .err .other s
    | some inner =>
      (ten sub sc cfg x ev inner value [] false s).bind fun r s' =>
        .ok (match summarize r with
          | some b => aset key b res
          | none => res) s'

/-- … the offer to the current scope and the rest of the loop -/
def tenTail (sub : NSub) (sc : Script) (cfg : NCfg) (x : Ctx) (ev : Nat) (scope : Scope) (key : Nat) (rest : Forest)
    (offered : Bool) (res1 : List (Nat × Bool)) (s1 : NSt) : NR (List (Nat × Bool)) :=
  if (alookup key res1).getD false = false ∧ offered = false then
    match alookup ev scope.events with
    | some ts =>
      (triggerNested sub sc cfg scope x ev ts s1).bind fun tmp s2 =>
        ten sub sc cfg x ev scope rest (match tmp with
          | some b => aset key b res1
          | none => res1) true s2
    | none => ten sub sc cfg x ev scope rest res1 offered s1
  else ten sub sc cfg x ev scope rest res1 offered s1

theorem ten_cons (x : Ctx) (ev : Nat) (scope : Scope) (key : Nat) (value rest : Forest) (res : List (Nat × Bool))
    (offered : Bool) (s : NSt) :
    ten sub sc cfg x ev scope (.cons key value rest) res offered s =
      (tenHead sub sc cfg x ev scope key value res s).bind fun res1 s1 =>
        tenTail sub sc cfg x ev scope key rest offered res1 s1 := by
  rw [ten]
  rfl

/-- all entries of the `res` dictionary are False -/
def AllFalse (res : List (Nat × Bool)) : Prop := ∀ e ∈ res, e.2 = false

theorem AllFalse.aset {res : List (Nat × Bool)} (h : AllFalse res) (k : Nat) : AllFalse (aset k false res) := by
  induction res with
  | nil => intro e he; simp [TM.aset] at he; rw [he]
  | cons a r ih =>
    intro e he
    simp only [TM.aset] at he
    split at he
    · simp only [List.mem_cons] at he
      rcases he with rfl | he
      · rfl
      · exact h e (List.mem_cons_of_mem _ he)
    · simp only [List.mem_cons] at he
      rcases he with rfl | he
      · exact h _ (List.mem_cons_self ..)
      · exact ih (fun e' he' => h e' (List.mem_cons_of_mem _ he')) e he

theorem AllFalse.lookup {res : List (Nat × Bool)} (h : AllFalse res) (k : Nat) : (alookup k res).getD false = false := by
  induction res with
  | nil => rfl
  | cons a r ih =>
    simp only [alookup]
    split
    · exact h a (List.mem_cons_self ..)
    · exact ih (fun e' he' => h e' (List.mem_cons_of_mem _ he'))

theorem AllFalse.summarize {r : List (Nat × Bool)} (h : AllFalse r) : summarize r = none ∨ summarize r = some false := by
  unfold TM.summarize
  split
  · exact Or.inl rfl
  · refine Or.inr ?_
    have : r.any (·.2) = false := by
      rw [List.any_eq_false]
      intro e he
      rw [h e he]; simp
    rw [this]

theorem tenTail_mono (hC : NoCmds sc) (x : Ctx) (ev : Nat) (scope : Scope) (hsc : ScopeOK scope) (key : Nat)
    (rest : Forest) (offered : Bool) (res1 : List (Nat × Bool)) (s1 : NSt) :
    Mono (tenTail sub sc cfg x ev scope key rest offered res1 s1) s1 := by
  unfold tenTail
  split
  · split
    · exact Mono.bind (triggerNested_mono hC scope hsc x ev _ s1) (fun _ s2 => ten_mono hC x ev rest scope _ true s2 hsc)
    · exact ten_mono hC x ev rest scope res1 offered s1 hsc
  · exact ten_mono hC x ev rest scope res1 offered s1 hsc

theorem tenTail_noOffer (x : Ctx) (ev : Nat) (scope : Scope) (key : Nat) (rest : Forest) (offered : Bool)
    (res1 : List (Nat × Bool)) (s1 : NSt) (h : offered = true ∨ alookup ev scope.events = none) :
    tenTail sub sc cfg x ev scope key rest offered res1 s1 = ten sub sc cfg x ev scope rest res1 offered s1 := by
  unfold tenTail
  rcases h with ho | hn
  · simp [ho]
  · simp only [hn]; split <;> rfl

/-- the three segments of `tenPairs` for one `(key, value)` item -/
def tpA (a : SPath) (key : Nat) (value : Forest) : List (SPath × SPath) :=
  if value.isEmpty then [] else tenPairs (a ++ [key]) value true
def tpB (a : SPath) (tree : Forest) (first : Bool) : List (SPath × SPath) :=
  if first then ((resolveOrder tree).getD []).map (fun p => (a, p)) else []

theorem tenPairs_cons (a : SPath) (key : Nat) (value rest : Forest) (first : Bool) :
    tenPairs a (.cons key value rest) first =
      tpA a key value ++ tpB a (.cons key value rest) first ++ tenPairs a rest false := rfl

/-- **`_trigger_event_nested` until the first passing candidate.**  Scope reachable from the machine, sub-tree `tree`
of the configuration admissible; `first` says whether this is the head of the scope's loop (event not offered to the
scope yet).  If no pair of `tenPairs` has a passing candidate the call returns normally, has changed nothing
(`NBlk`) and reports no execution (`AllFalse`); otherwise it appends an `exec`. -/
theorem ten_spec (hR : NoRaise sc) (hC : NoCmds sc) (hD : Deterministic sc) (x : Ctx) (ev : Nat) :
    ∀ (tree : Forest) (scope : Scope) (res : List (Nat × Bool)) (offered first : Bool) (s : NSt),
    cfg.root.walkTo scope.pre = some scope → ScopeOK scope → ConfOK scope.states tree = true →
    (∀ k v, tree.get? k = some v → s.conf.sub? (scope.pre ++ [k]) = some v) →
    (first = true → offered = false ∧ s.conf.sub? scope.pre = some tree) →
    (first = false → offered = true ∨ alookup ev scope.events = none) →
    s.exited = [] → s.result ≠ some true → AllFalse res →
    ((tenPairs scope.pre tree first).any (trigP sc cfg ev) = false →
      ∃ res' s', ten sub sc cfg x ev scope tree res offered s = .ok res' s' ∧ NBlk s s' ∧ AllFalse res') ∧
    ((tenPairs scope.pre tree first).any (trigP sc cfg ev) = true →
      Exd (ten sub sc cfg x ev scope tree res offered s) s) := by
  intro tree
  induction tree with
  | nil =>
    intro scope res offered first s _ _ _ _ _ _ _ _ hres
    refine ⟨fun _ => ⟨res, s, by rw [ten], NBlk.refl s, hres⟩, fun h => by simp [tenPairs] at h⟩
  | cons key value rest ihv ihr =>
    intro scope res offered first s hw hsc hc hkids hfirst hnot hex hresult hres
    obtain ⟨hkey, hcr, d, kids, hfind, _, hcv⟩ := ConfOK_cons hc
    have hen : scope.enter key = some ⟨some d, kids, d.events, scope.pre ++ [key]⟩ := by simp [Scope.enter, hfind]
    have hwi : cfg.root.walkTo (scope.pre ++ [key]) = some ⟨some d, kids, d.events, scope.pre ++ [key]⟩ :=
      Scope.walkTo_enter hw hen
    have hsci : ScopeOK ⟨some d, kids, d.events, scope.pre ++ [key]⟩ := ScopeOK_enter hsc.wf hen
    have hval : s.conf.sub? (scope.pre ++ [key]) = some value := hkids key value (by simp [Forest.get?])
    -- the recursion into the child scope
    have hP1 : ((tpA scope.pre key value).any (trigP sc cfg ev) = false →
          ∃ res1 s1, tenHead sub sc cfg x ev scope key value res s = .ok res1 s1 ∧ NBlk s s1 ∧ AllFalse res1) ∧
        ((tpA scope.pre key value).any (trigP sc cfg ev) = true →
          Exd (tenHead sub sc cfg x ev scope key value res s) s) := by
      unfold tenHead tpA
      by_cases hve : value.isEmpty = true
      · simp only [if_pos hve]
        exact ⟨fun _ => ⟨res, s, rfl, NBlk.refl s, hres⟩, fun h => by simp at h⟩
      · simp only [if_neg hve, hen]
        have hve' : value.isEmpty = false := by simpa using hve
        have hk2 : ∀ k v, value.get? k = some v →
            s.conf.sub? ((⟨some d, kids, d.events, scope.pre ++ [key]⟩ : Scope).pre ++ [k]) = some v := by
          intro k v hk
          show s.conf.sub? ((scope.pre ++ [key]) ++ [k]) = some v
          rw [Forest.sub?_append, hval]
          simp [Forest.sub?, hk]
        obtain ⟨ihb, ihx⟩ := ihv ⟨some d, kids, d.events, scope.pre ++ [key]⟩ [] false true s hwi hsci (hcv hve').2 hk2
          (fun _ => ⟨rfl, hval⟩) (fun h => by cases h) hex hresult (fun e he => by cases he)
        constructor
        · intro h
          obtain ⟨r, s1, e1, b1, a1⟩ := ihb h
          refine ⟨_, s1, by rw [e1, nbind_ok], b1, ?_⟩
          rcases a1.summarize with h0 | h0 <;> rw [h0]
          · exact hres
          · exact hres.aset key
        · intro h
          exact Exd.bind_left (ihx h) (fun _ s1 => Mono.ok _ s1)
    -- the offer to this scope and the rest of the loop
    have hP2 : ∀ (res1 : List (Nat × Bool)) (s1 : NSt), NBlk s s1 → AllFalse res1 →
        ((tpB scope.pre (.cons key value rest) first ++ tenPairs scope.pre rest false).any (trigP sc cfg ev) = false →
          ∃ res' s', tenTail sub sc cfg x ev scope key rest offered res1 s1 = .ok res' s' ∧ NBlk s1 s' ∧ AllFalse res') ∧
        ((tpB scope.pre (.cons key value rest) first ++ tenPairs scope.pre rest false).any (trigP sc cfg ev) = true →
          Exd (tenTail sub sc cfg x ev scope key rest offered res1 s1) s1) := by
      intro res1 s1 b1 a1
      have hex1 : s1.exited = [] := by rw [b1.exited, hex]
      have hres1 : s1.result ≠ some true := b1.result hresult
      have hkr : ∀ (s2 : NSt), s2.conf = s.conf → ∀ k v, rest.get? k = some v → s2.conf.sub? (scope.pre ++ [k]) = some v := by
        intro s2 hc2 k v hk
        rw [hc2]
        apply hkids k v
        have hkk : k ∈ rest.keys := Forest.get?_isSome.mp (by rw [hk]; rfl)
        have hne : key ≠ k := fun e => hkey (e ▸ hkk)
        simp [Forest.get?, hne, hk]
      -- no offer: the rest of the loop with `first = false`
      have hnoOffer : (offered = true ∨ alookup ev scope.events = none) →
          ((tenPairs scope.pre rest false).any (trigP sc cfg ev) = false →
            ∃ res' s', ten sub sc cfg x ev scope rest res1 offered s1 = .ok res' s' ∧ NBlk s1 s' ∧ AllFalse res') ∧
          ((tenPairs scope.pre rest false).any (trigP sc cfg ev) = true →
            Exd (ten sub sc cfg x ev scope rest res1 offered s1) s1) := fun hn =>
        ihr scope res1 offered false s1 hw hsc hcr (hkr s1 b1.conf) (fun h => by cases h) (fun _ => hn) hex1 hres1 a1
      cases first with
      | false =>
        have hn := hnot rfl
        rw [tenTail_noOffer sub sc cfg x ev scope key rest offered res1 s1 hn]
        simp only [tpB, Bool.false_eq_true, if_false, List.nil_append]
        exact hnoOffer hn
      | true =>
        obtain ⟨hoff, hsubt⟩ := hfirst rfl
        unfold tenTail tpB
        rw [a1.lookup key]
        simp only [hoff, and_self, if_true]
        cases hev : alookup ev scope.events with
        | none =>
          simp only []
          have hB : (((resolveOrder (Forest.cons key value rest)).getD []).map fun p => (scope.pre, p)).any (trigP sc cfg ev)
              = false := by
            rw [List.any_eq_false]
            intro pr hpr
            obtain ⟨p, _, rfl⟩ := List.mem_map.mp hpr
            rw [trigP_scope sc cfg ev hw]
            simp [passAt, hev]
          simp only [List.any_append, hB, Bool.false_or]
          have := hnoOffer (Or.inr hev)
          rw [hoff] at this
          exact this
        | some ts =>
          simp only []
          have hB : (((resolveOrder (Forest.cons key value rest)).getD []).map fun p => (scope.pre, p)).any (trigP sc cfg ev)
              = ((resolveOrder (Forest.cons key value rest)).getD []).any fun p => (nmayCands ts p).any (npasses sc) := by
            rw [List.any_map]
            congr 1
            funext p
            show trigP sc cfg ev (scope.pre, p) = _
            rw [trigP_scope sc cfg ev hw]
            simp [passAt, hev]
          obtain ⟨tb, tx⟩ := triggerNested_spec sub sc cfg hR hC hD scope hsc x ev ts s1 (.cons key value rest)
            (by rw [b1.conf]; exact hsubt) hc hex1 hres1
          simp only [List.any_append, hB]
          cases hBv : ((resolveOrder (Forest.cons key value rest)).getD []).any fun p => (nmayCands ts p).any (npasses sc) with
          | true =>
            simp only [Bool.true_or]
            refine ⟨fun h => (by cases h), fun _ => ?_⟩
            exact Exd.bind_left (tx hBv) (fun _ s2 => ten_mono hC x ev rest scope _ true s2 hsc)
          | false =>
            simp only [Bool.false_or]
            obtain ⟨v, s2, e2, b2, hv⟩ := tb hBv
            rw [e2, nbind_ok]
            have key2 : ∀ res2, AllFalse res2 →
                ((tenPairs scope.pre rest false).any (trigP sc cfg ev) = false →
                  ∃ res' s', ten sub sc cfg x ev scope rest res2 true s2 = .ok res' s' ∧ NBlk s1 s' ∧ AllFalse res') ∧
                ((tenPairs scope.pre rest false).any (trigP sc cfg ev) = true →
                  Exd (ten sub sc cfg x ev scope rest res2 true s2) s1) := by
              intro res2 a2
              obtain ⟨rb, rx⟩ := ihr scope res2 true false s2 hw hsc hcr (hkr s2 (b2.conf.trans b1.conf)) (fun h => by cases h)
                (fun _ => Or.inl rfl) (by rw [b2.exited, hex1]) (b2.result hres1) a2
              exact ⟨fun h => by obtain ⟨res', s', e3, b3, a3⟩ := rb h; exact ⟨res', s', e3, b2.trans b3, a3⟩,
                fun h => (rx h).from_blk b2⟩
            cases v with
            | none => exact key2 res1 a1
            | some b =>
              cases b with
              | true => exact absurd rfl hv
              | false => exact key2 (aset key false res1) (a1.aset key)
    -- together
    rw [ten_cons, tenPairs_cons, List.append_assoc, List.any_append]
    constructor
    · intro h
      have hA : (tpA scope.pre key value).any (trigP sc cfg ev) = false := by
        cases hh : (tpA scope.pre key value).any (trigP sc cfg ev) with
        | false => rfl
        | true => rw [hh] at h; simp at h
      rw [hA, Bool.false_or] at h
      obtain ⟨res1, s1, e1, b1, a1⟩ := hP1.1 hA
      obtain ⟨res', s', e2, b2, a2⟩ := (hP2 res1 s1 b1 a1).1 h
      exact ⟨res', s', by rw [e1, nbind_ok, e2], b1.trans b2, a2⟩
    · intro h
      cases hA : (tpA scope.pre key value).any (trigP sc cfg ev) with
      | true => exact Exd.bind_left (hP1.2 hA) (fun res1 s1 => tenTail_mono sub sc cfg hC x ev scope hsc key rest offered res1 s1)
      | false =>
        rw [hA, Bool.false_or] at h
        obtain ⟨res1, s1, e1, b1, a1⟩ := hP1.1 hA
        rw [e1, nbind_ok]
        exact ((hP2 res1 s1 b1 a1).2 h).from_blk b1

end Spec

/-! ### `_trigger_event`: try / except / finally around the dispatch -/

/-- never out of fuel; every completed run appended a segment satisfying `Q` -/
structure Ends {α} (Q : List GEv → Prop) (r : NR α) (s : NSt) : Prop where
  noOof : r ≠ .oof
  grow : ∀ s', r.state? = some s' → ∃ seg, s'.glog = s.glog ++ seg ∧ Q seg

theorem Exd.toEnds {α} {r : NR α} {s : NSt} (h : Exd r s) : Ends (fun g => hasExec g = true) r s := ⟨h.noOof, h.grow⟩

/-- the `except BaseException` and `finally` clauses of `_trigger_event` around a body -/
def ntriggerWrap (sub : NSub) (sc : Script) (cfg : NCfg) (x : Ctx) (body : NR Bool) : NR Bool :=
  let r1 : NR Bool :=
    match body with
    | .ok b s' => .ok b s'
    | .err e s' =>
      match cfg.onException with
      | [] => .err e s'
      | hs => (ncallbacks sub sc cfg .onException x hs s').bind fun _ s'' => .ok (s''.result.getD false) s''
    | .oof => .oof
  match r1 with
  | .ok b s' => match nfinalize sub sc cfg x s' with
    | some s'' => .ok b s''
    | none => .oof
  | .err e s' => match nfinalize sub sc cfg x s' with
    | some s'' => .err e s''
    | none => .oof
  | .oof => .oof

theorem ntriggerEvent_eq (sub : NSub) (sc : Script) (cfg : NCfg) (x : Ctx) (ev : Nat) (s : NSt) :
    ntriggerEvent sub sc cfg x ev s =
      ntriggerWrap sub sc cfg x (triggerEventBody sub sc cfg x ev { s with result := none, exited := [] }) := rfl

section Wrap
variable {sub : NSub} {sc : Script} {cfg : NCfg}

/-- the handlers and the finalize callbacks append the `fin` mark and nothing else to the ghost log -/
theorem ntriggerWrap_ends (hC : NoCmds sc) (Q : List GEv → Prop)
    (hQ : ∀ a b, Q a → hasExec b = false → Q (a ++ b)) (x : Ctx) (body : NR Bool) (s : NSt)
    (hb : Ends Q body s) : Ends Q (ntriggerWrap sub sc cfg x body) s := by
  -- the finally clause, from any state reached with a `Q` segment
  have hfin : ∀ (mk : NSt → NR Bool) (s1 : NSt) (g1 : List GEv), (∀ s2, (mk s2).state? = some s2) →
      s1.glog = s.glog ++ g1 → Q g1 →
      Ends Q (match nfinalize sub sc cfg x s1 with
        | some s'' => mk s''
        | none => .oof) s := by
    intro mk s1 g1 hmk l1 q1
    obtain ⟨s2, e2, l2⟩ := nfinalize_some (sub := sub) (cfg := cfg) hC x s1
    rw [e2]
    show Ends Q (mk s2) s
    refine ⟨?_, fun s' hs' => ?_⟩
    · intro h
      have := hmk s2
      rw [h] at this
      cases this
    · rw [hmk s2] at hs'
      cases hs'
      exact ⟨g1 ++ [.fin x.tag (confMask cfg s1.conf)], by rw [l2, l1, List.append_assoc], hQ _ _ q1 rfl⟩
  unfold ntriggerWrap
  cases body with
  | oof => exact absurd rfl hb.noOof
  | ok b s1 =>
    obtain ⟨g1, l1, q1⟩ := hb.grow s1 rfl
    exact hfin (fun s2 => .ok b s2) s1 g1 (fun _ => rfl) l1 q1
  | err e s1 =>
    obtain ⟨g1, l1, q1⟩ := hb.grow s1 rfl
    simp only []
    cases hx : cfg.onException with
    | nil => exact hfin (fun s2 => .err e s2) s1 g1 (fun _ => rfl) l1 q1
    | cons h0 hs =>
      simp only []
      have hm := ncallbacks_mono (sub := sub) (cfg := cfg) hC .onException x (h0 :: hs) s1
      have hv := ncallbacks_view sub sc cfg hC .onException x (h0 :: hs) s1
      cases hc : ncallbacks sub sc cfg .onException x (h0 :: hs) s1 with
      | oof => exact absurd hc hm.noOof
      | ok u s2 =>
        have : s2.glog = s1.glog := congrArg View.glog (hv s2 (by rw [hc]; rfl))
        exact hfin (fun s3 => .ok (s2.result.getD false) s3) s2 g1 (fun _ => rfl) (by rw [this, l1]) q1
      | err e2 s2 =>
        have : s2.glog = s1.glog := congrArg View.glog (hv s2 (by rw [hc]; rfl))
        exact hfin (fun s3 => .err e2 s3) s2 g1 (fun _ => rfl) (by rw [this, l1]) q1

end Wrap

theorem checkEventResult_cases (cfg : NCfg) (res : Option Bool) (ev : Nat) (s : NSt) :
    (∃ b, checkEventResult cfg res ev s = .ok b s) ∨ (∃ e, checkEventResult cfg res ev s = .err e s) := by
  unfold checkEventResult
  split
  · exact Or.inl ⟨_, rfl⟩
  · split
    · exact Or.inl ⟨_, rfl⟩
    · exact Or.inr ⟨_, rfl⟩
    · rename_i h; exact absurd h (cerLoop_no_oof ev _)

/-- the trigger call executed a transition: some `nexecute` got past its conditions, i.e. an `exec` ghost event was
appended while the call was processed (whatever it returned or raised afterwards) -/
def NExecutes (r : NR Bool) (s : NSt) : Prop :=
  ∃ s', r.state? = some s' ∧ ∃ seg, s'.glog = s.glog ++ seg ∧ hasExec seg = true

/-- **the trigger side.**  Well-formed state definitions, admissible configuration, deterministic non-raising script
without re-entrant commands: `_trigger_event` never runs out of fuel, and it executes a transition iff one of the
pairs `trigPairs` lists has a candidate whose conditions pass -/
theorem ntriggerEvent_spec (sub : NSub) (sc : Script) (cfg : NCfg) (hR : NoRaise sc) (hC : NoCmds sc)
    (hD : Deterministic sc) (hwf : cfg.states.WF = true) (x : Ctx) (ev : Nat) (s : NSt)
    (hc : ConfOK cfg.states s.conf = true) :
    ntriggerEvent sub sc cfg x ev s ≠ .oof ∧
    (NExecutes (ntriggerEvent sub sc cfg x ev s) s ↔ (trigPairs s.conf).any (trigP sc cfg ev) = true) := by
  rw [ntriggerEvent_eq]
  have hk : ∀ k v, s.conf.get? k = some v →
      ({ s with result := none, exited := [] } : NSt).conf.sub? (cfg.root.pre ++ [k]) = some v := by
    intro k v hk
    show s.conf.sub? ([] ++ [k]) = some v
    simp [Forest.sub?, hk]
  obtain ⟨tb, tx⟩ := ten_spec sub sc cfg hR hC hD x ev s.conf cfg.root [] false true
    { s with result := none, exited := [] } (NCfg.walkTo_root cfg) (ScopeOK_root cfg hwf) hc hk
    (fun _ => ⟨rfl, rfl⟩) (fun h => by cases h) rfl (by intro h; cases h) (fun e he => by cases he)
  have hpre : cfg.root.pre = [] := rfl
  rw [hpre] at tb tx
  cases hany : (trigPairs s.conf).any (trigP sc cfg ev) with
  | true =>
    have hbody : Exd (triggerEventBody sub sc cfg x ev { s with result := none, exited := [] })
        { s with result := none, exited := [] } := by
      unfold triggerEventBody
      refine Exd.bind_left (tx hany) ?_
      intro r s1
      refine Mono.bind (checkEventResult_mono _ ev s1) ?_
      intro b s2
      exact (Mono.ok b _).congr rfl
    have hw := ntriggerWrap_ends (sub := sub) (cfg := cfg) hC (fun g => hasExec g = true)
      (fun a b ha hb => by rw [hasExec_append, ha]; rfl) x _ _ hbody.toEnds
    refine ⟨hw.noOof, ⟨fun _ => rfl, fun _ => ?_⟩⟩
    generalize ntriggerWrap sub sc cfg x (triggerEventBody sub sc cfg x ev { s with result := none, exited := [] }) = r at hw
    cases r with
    | oof => exact absurd rfl hw.noOof
    | ok b s' => exact ⟨s', rfl, hw.grow s' rfl⟩
    | err e s' => exact ⟨s', rfl, hw.grow s' rfl⟩
  | false =>
    obtain ⟨res', s1, e1, b1, _⟩ := tb hany
    have hbody : Ends (fun g => hasExec g = false)
        (triggerEventBody sub sc cfg x ev { s with result := none, exited := [] })
        { s with result := none, exited := [] } := by
      unfold triggerEventBody
      rw [e1, nbind_ok]
      obtain ⟨g1, l1, q1⟩ := b1.glog
      rcases checkEventResult_cases cfg (summarize res') ev s1 with ⟨b, hb⟩ | ⟨e, he⟩
      · rw [hb, nbind_ok]
        refine ⟨(by intro h; cases h), fun s' hs' => ?_⟩
        simp only [Res.state?, Option.some.injEq] at hs'
        subst hs'
        exact ⟨g1, l1, q1⟩
      · rw [he, nbind_err]
        refine ⟨(by intro h; cases h), fun s' hs' => ?_⟩
        simp only [Res.state?, Option.some.injEq] at hs'
        subst hs'
        exact ⟨g1, l1, q1⟩
    have hw := ntriggerWrap_ends (sub := sub) (cfg := cfg) hC (fun g => hasExec g = false)
      (fun a b ha hb => by rw [hasExec_append, ha, hb]; rfl) x _ _ hbody
    refine ⟨hw.noOof, ⟨fun hex => ?_, fun h => by cases h⟩⟩
    obtain ⟨s', hs', seg, l, he⟩ := hex
    obtain ⟨seg', l', he'⟩ := hw.grow s' hs'
    have : seg = seg' := List.append_cancel_left (l.symm.trans l')
    rw [this, he'] at he
    cases he

end TM
