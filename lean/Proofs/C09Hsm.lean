/-
  Proofs/C09Hsm.lean — property C09, hierarchical classes on flat configurations: the depth-1 collapse
  of `NestedTransition._change_state` (`Model/HsmFlat.lean`) and `Transition._change_state`
  (`Model/Core.lean`, as repaired in /repo ba1cc46: both exit the state the model is in) differ only in
  WHEN the destination is resolved; with registered destinations they coincide, and with them the
  whole engines — for every script, re-entrant calls included.
-/
import Model.HsmFlat

namespace TM
namespace HsmFlat

/-- every transition's destination is a registered state -/
def DestsRegistered (cfg : Cfg) : Prop :=
  ∀ e ∈ cfg.events, ∀ t ∈ e.2, ∀ d, t.dest = some d → (cfg.state? d).isSome

/-- the same as a computation -/
def destsRegisteredB (cfg : Cfg) : Bool :=
  cfg.events.all fun e => e.2.all fun t =>
    match t.dest with
    | some d => (cfg.state? d).isSome
    | none => true

theorem destsRegistered_iff (cfg : Cfg) : DestsRegistered cfg ↔ destsRegisteredB cfg = true := by
  unfold DestsRegistered destsRegisteredB
  simp only [List.all_eq_true]
  constructor
  · intro h e he t ht
    cases hd : t.dest with
    | none => rfl
    | some d => exact h e he t ht d hd
  · intro h e he t ht d hd
    have := h e he t ht
    rw [hd] at this
    exact this

instance (cfg : Cfg) : Decidable (DestsRegistered cfg) := decidable_of_iff _ (destsRegistered_iff cfg).symm

namespace C09P

theorem bind_congr_ok {α β : Type} {r : R α} {f g : α → St → R β}
    (h : ∀ a s', r = .ok a s' → f a s' = g a s') : r.bind f = r.bind g := by
  cases r with
  | ok a s' => exact h a s' rfl
  | err e s' => rfl
  | oof => rfl

variable (sub : Sub) (sc : Script) (cfg : Cfg)

/-- the one function that differs: equal when the destination is registered -/
theorem changeState_eq (x : Ctx) (t : Trans) (dst : Nat) (s : St) (hd : (cfg.state? dst).isSome) :
    changeState sub sc cfg x dst s = TM.changeState sub sc cfg x t dst s := by
  unfold changeState TM.changeState
  cases h1 : cfg.state? dst with
  | none => rw [h1] at hd; cases hd
  | some d =>
    cases h2 : cfg.state? (s.stateOf x.model) with
    | none => rfl
    | some src => rfl

theorem execute_eq (x : Ctx) (t : Trans) (s : St) (hd : ∀ d, t.dest = some d → (cfg.state? d).isSome) :
    execute sub sc cfg x t s = TM.execute sub sc cfg x t s := by
  unfold execute TM.execute
  cases hdest : t.dest with
  | none => rfl
  | some d => simp only [changeState_eq sub sc cfg x t d _ (hd d hdest)]

theorem tryTransitions_eq (x : Ctx) (ts : List Trans) (s : St)
    (hs : ∀ t ∈ ts, ∀ d, t.dest = some d → (cfg.state? d).isSome) :
    tryTransitions sub sc cfg x ts s = TM.tryTransitions sub sc cfg x ts s := by
  induction ts generalizing s with
  | nil => rfl
  | cons t ts ih =>
    unfold tryTransitions TM.tryTransitions
    rw [execute_eq sub sc cfg x t s (hs t (by simp))]
    apply bind_congr_ok; intro ok s' _
    cases ok with
    | true => rfl
    | false =>
      simp only [Bool.false_eq_true, if_false]
      exact ih s' (fun t' ht' => hs t' (by simp [ht']))

theorem alookup_mem {β : Type} (k : Nat) (v : β) : ∀ l : List (Nat × β), alookup k l = some v → (k, v) ∈ l := by
  intro l
  induction l with
  | nil => intro h; cases h
  | cons a l ih =>
    obtain ⟨k', v'⟩ := a
    unfold alookup
    split
    · rename_i hk; intro h; cases h; subst hk; simp
    · intro h; simp [ih h]

/-- the transition lists the engine ever looks at -/
def FromCfg (ts : List Trans) : Prop := ts = [] ∨ ∃ e ∈ cfg.events, ts = e.2

theorem fromCfg_event (ev : Nat) : FromCfg cfg ((cfg.event? ev).getD []) := by
  unfold Cfg.event?
  cases h : alookup ev cfg.events with
  | none => exact Or.inl rfl
  | some ts => exact Or.inr ⟨(ev, ts), alookup_mem ev ts _ h, rfl⟩

theorem candidates_mem {ts : List Trans} {src : Nat} {cs : List Trans} (h : candidates ts src = some cs) :
    ∀ t ∈ cs, t ∈ ts := by
  unfold candidates at h
  split at h
  · cases h
  · cases h
    intro t ht
    exact (List.mem_filter.mp ht).1

theorem eventTrigger_eq (hD : DestsRegistered cfg) (ts : List Trans) (hts : FromCfg cfg ts)
    (x : Ctx) (s : St) :
    eventTrigger sub sc cfg ts x s = TM.eventTrigger sub sc cfg ts x s := by
  unfold eventTrigger TM.eventTrigger
  simp only []
  cases cfg.state? (s.stateOf x.model) with
  | none => rfl
  | some d0 =>
    simp only []
    cases hc : candidates ts (s.stateOf x.model) with
    | none => rfl
    | some cs =>
      simp only []
      congr 1
      unfold eventProcess TM.eventProcess
      apply bind_congr_ok; intro _ s1 _
      apply tryTransitions_eq sub sc cfg x cs s1
      intro t ht d hd
      have hmem := candidates_mem hc t ht
      rcases hts with h0 | ⟨e, he, h0⟩
      · rw [h0] at hmem; cases hmem
      · exact hD e he t (h0 ▸ hmem) d hd

theorem drain_eq (hD : DestsRegistered cfg) (n : Nat) (s : St) :
    drain sub sc cfg n s = TM.drain sub sc cfg n s := by
  induction n generalizing s with
  | zero => rfl
  | succ n ih =>
    unfold drain TM.drain
    cases s.queue with
    | nil => rfl
    | cons e rest =>
      obtain ⟨m, ev, tag⟩ := e
      simp only []
      rw [eventTrigger_eq sub sc cfg hD _ (fromCfg_event cfg ev)]
      cases TM.eventTrigger sub sc cfg ((cfg.event? ev).getD []) ⟨m, tag⟩ s with
      | ok b s' => exact ih _
      | err e s' => rfl
      | oof => rfl

theorem machineProcess_eq (hD : DestsRegistered cfg) (fuelQ m ev tag : Nat) (s : St) :
    machineProcess sub sc cfg fuelQ m ev tag s = TM.machineProcess sub sc cfg fuelQ m ev tag s := by
  unfold machineProcess TM.machineProcess
  simp only [eventTrigger_eq sub sc cfg hD _ (fromCfg_event cfg ev), drain_eq sub sc cfg hD]
  try rfl

theorem triggerByName_eq (hD : DestsRegistered cfg) (fuelQ m ev tag : Nat) (s : St) :
    triggerByName sub sc cfg fuelQ m ev tag s = TM.triggerByName sub sc cfg fuelQ m ev tag s := by
  unfold triggerByName TM.triggerByName
  simp only [machineProcess_eq sub sc cfg hD]
  try rfl

theorem apiTrigger_eq (hD : DestsRegistered cfg) (qmax m ev : Nat) (s : St) :
    apiTrigger sub sc cfg qmax m ev s = TM.apiTrigger sub sc cfg qmax m ev s := by
  unfold apiTrigger TM.apiTrigger
  simp only [triggerByName_eq sub sc cfg hD]
  try rfl

theorem dispatchLoop_eq (hD : DestsRegistered cfg) (qmax ev tag n i : Nat) (acc : Bool) (s : St) :
    dispatchLoop sub sc cfg qmax ev tag n i acc s = TM.dispatchLoop sub sc cfg qmax ev tag n i acc s := by
  induction n generalizing i acc s with
  | zero => rfl
  | succ n ih =>
    unfold dispatchLoop TM.dispatchLoop
    cases s.models[i]? with
    | none => rfl
    | some m =>
      simp only [triggerByName_eq sub sc cfg hD]
      apply bind_congr_ok; intro b s' _
      exact ih _ _ _

theorem apiDispatch_eq (hD : DestsRegistered cfg) (qmax ev : Nat) (s : St) :
    apiDispatch sub sc cfg qmax ev s = TM.apiDispatch sub sc cfg qmax ev s := by
  unfold apiDispatch TM.apiDispatch
  simp only [dispatchLoop_eq sub sc cfg hD]
  try rfl

theorem runCmd_eq (hD : DestsRegistered cfg) (qmax fuel : Nat) :
    runCmd sc cfg qmax fuel = TM.runCmd sc cfg qmax fuel := by
  induction fuel with
  | zero => funext c s; rfl
  | succ f ih =>
    funext c s
    unfold runCmd TM.runCmd
    simp only [ih]
    cases c with
    | trigger m ev => simp only [apiTrigger_eq _ sc cfg hD]
    | may m ev => rfl
    | dispatch ev => simp only [apiDispatch_eq _ sc cfg hD]
    | removeModel m => rfl
    | addModel m => rfl

theorem runHistory_eq (hD : DestsRegistered cfg) (qmax fuel : Nat) (h : List Cmd) (s : St) :
    runHistory sc cfg qmax fuel h s = TM.runHistory sc cfg qmax fuel h s := by
  induction h generalizing s with
  | nil => rfl
  | cons c cs ih =>
    unfold runHistory TM.runHistory
    rw [runCmd_eq sc cfg hD]
    cases TM.runCmd sc cfg qmax fuel c s with
    | ok u s' => exact ih s'
    | err e s' => exact ih s'
    | oof => rfl

end C09P
end HsmFlat
end TM
