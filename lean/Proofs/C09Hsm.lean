/-
  Proofs/C09Hsm.lean — property C09, hierarchical classes on flat configurations: with a script that
  issues no re-entrant commands the model is still in `transition.source` when `_change_state` starts,
  so the depth-1 collapse of `NestedTransition._change_state` (`Model/HsmFlat.lean`) and
  `Transition._change_state` (`Model/Core.lean`) coincide, and with them the whole engines.
-/
import Model.HsmFlat
import Proofs.C04

namespace TM
namespace HsmFlat

/-- every transition's destination is a registered state -/
def DestsRegistered (cfg : Cfg) : Prop :=
  ∀ e ∈ cfg.events, ∀ t ∈ e.2, ∀ d, t.dest = some d → (cfg.state? d).isSome

/-- the same as a computation -/
def destsRegisteredB (cfg : Cfg) : Bool :=
  cfg.events.all fun e => e.2.all fun t =>
    match t.dest with
    | some d => (cfg.state? d).isSome
    | none => true

theorem destsRegistered_iff (cfg : Cfg) : DestsRegistered cfg ↔ destsRegisteredB cfg = true := by
  unfold DestsRegistered destsRegisteredB
  simp only [List.all_eq_true]
  constructor
  · intro h e he t ht
    cases hd : t.dest with
    | none => rfl
    | some d => exact h e he t ht d hd
  · intro h e he t ht d hd
    have := h e he t ht
    rw [hd] at this
    exact this

instance (cfg : Cfg) : Decidable (DestsRegistered cfg) := decidable_of_iff _ (destsRegistered_iff cfg).symm

namespace C09P

theorem bind_congr_ok {α β : Type} {r : R α} {f g : α → St → R β}
    (h : ∀ a s', r = .ok a s' → f a s' = g a s') : r.bind f = r.bind g := by
  cases r with
  | ok a s' => exact h a s' rfl
  | err e s' => rfl
  | oof => rfl

theorem bind_eq_ok {α β : Type} {r : R α} {f : α → St → R β} {b : β} {s' : St} (h : r.bind f = .ok b s') :
    ∃ a s1, r = .ok a s1 ∧ f a s1 = .ok b s' := by
  cases r with
  | ok a s1 => exact ⟨a, s1, rfl, h⟩
  | err e s1 => cases h
  | oof => cases h

variable (sub : Sub) (sc : Script) (cfg : Cfg)

theorem callbacks_ok_frame (hC : NoCmds sc) (slot : Slot) (x : Ctx) (cbs : List Nat) (s s' : St) (u : Unit)
    (h : callbacks sub sc slot x cbs s = .ok u s') : Frame s s' := by
  obtain ⟨o, s1, seg, hr, hf, _⟩ := callbacks_any sub sc hC slot x cbs s
  rw [hr] at h
  cases o with
  | ok a => simp [toRes] at h; rw [← h]; exact hf
  | fail e st => simp [toRes] at h

theorem evalConds_ok_frame (hC : NoCmds sc) (x : Ctx) (cs : List Cond) (s s' : St) (b : Bool)
    (h : evalConds sub sc x cs s = .ok b s') : Frame s s' := by
  obtain ⟨o, s1, seg, hr, hf, _⟩ := evalConds_any sub sc hC x cs s
  rw [hr] at h
  cases o with
  | ok a => simp [toRes] at h; rw [← h.2]; exact hf
  | fail e st => simp [toRes] at h

/-- the one function that differs: equal when the model is in the transition's source and the
destination is registered -/
theorem changeState_eq (x : Ctx) (t : Trans) (dst : Nat) (s : St)
    (hs : s.stateOf x.model = t.source) (hd : (cfg.state? dst).isSome) :
    changeState sub sc cfg x dst s = TM.changeState sub sc cfg x t dst s := by
  unfold changeState TM.changeState
  rw [hs]
  cases h1 : cfg.state? dst with
  | none => rw [h1] at hd; cases hd
  | some d =>
    cases h2 : cfg.state? t.source with
    | none => rfl
    | some src => rfl

theorem execute_eq (hC : NoCmds sc) (x : Ctx) (t : Trans) (s : St)
    (hs : s.stateOf x.model = t.source) (hd : ∀ d, t.dest = some d → (cfg.state? d).isSome) :
    execute sub sc cfg x t s = TM.execute sub sc cfg x t s := by
  unfold execute TM.execute
  apply bind_congr_ok; intro _ s1 h1
  have f1 := callbacks_ok_frame sub sc hC _ x _ s s1 _ h1
  apply bind_congr_ok; intro ok s2 h2
  have f2 := evalConds_ok_frame sub sc hC x _ s1 s2 _ h2
  cases ok with
  | false => rfl
  | true =>
    simp only [Bool.not_true, Bool.false_eq_true, if_false]
    apply bind_congr_ok; intro _ s3 h3
    have f3 := callbacks_ok_frame sub sc hC _ x _ s2 s3 _ h3
    apply bind_congr_ok; intro _ s4 h4
    have f4 := callbacks_ok_frame sub sc hC _ x _ s3 s4 _ h4
    have hst : s4.stateOf x.model = t.source := by
      rw [(f1.trans (f2.trans (f3.trans f4))).stateOf]; exact hs
    cases hdest : t.dest with
    | none => rfl
    | some d => simp only [changeState_eq sub sc cfg x t d s4 hst (hd d hdest)]

/-- a candidate that does not execute leaves the model where it was -/
theorem execute_false_frame (hC : NoCmds sc) (x : Ctx) (t : Trans) (s s' : St)
    (h : TM.execute sub sc cfg x t s = .ok false s') : s'.stateOf x.model = s.stateOf x.model := by
  unfold TM.execute at h
  cases h1 : callbacks sub sc .prepare x t.prepare s with
  | err e s1 => rw [h1] at h; cases h
  | oof => rw [h1] at h; cases h
  | ok u s1 =>
    have f1 := callbacks_ok_frame sub sc hC _ x _ s s1 _ h1
    rw [h1] at h
    simp only [Res.bind] at h
    cases h2 : evalConds sub sc x t.conds s1 with
    | err e s2 => rw [h2] at h; cases h
    | oof => rw [h2] at h; cases h
    | ok b s2 =>
      have f2 := evalConds_ok_frame sub sc hC x _ s1 s2 _ h2
      rw [h2] at h
      cases b with
      | false =>
        simp only [Bool.not_false, if_true] at h
        cases h
        exact (f1.trans f2).stateOf _
      | true =>
        exfalso
        simp only [Bool.not_true, Bool.false_eq_true, if_false] at h
        -- every path through the remaining stages ends in `ok true`, an exception or out-of-fuel
        obtain ⟨_, s3, _, h⟩ := bind_eq_ok h
        obtain ⟨_, s4, _, h⟩ := bind_eq_ok h
        obtain ⟨_, s5, _, h⟩ := bind_eq_ok h
        obtain ⟨_, s6, _, h⟩ := bind_eq_ok h
        obtain ⟨_, s7, _, h⟩ := bind_eq_ok h
        cases h

theorem tryTransitions_eq (hC : NoCmds sc) (x : Ctx) (ts : List Trans) (s : St)
    (hs : ∀ t ∈ ts, t.source = s.stateOf x.model ∧ ∀ d, t.dest = some d → (cfg.state? d).isSome) :
    tryTransitions sub sc cfg x ts s = TM.tryTransitions sub sc cfg x ts s := by
  induction ts generalizing s with
  | nil => rfl
  | cons t ts ih =>
    unfold tryTransitions TM.tryTransitions
    rw [execute_eq sub sc cfg hC x t s (hs t (by simp)).1.symm (hs t (by simp)).2]
    apply bind_congr_ok; intro ok s' h
    cases ok with
    | true => rfl
    | false =>
      simp only [Bool.false_eq_true, if_false]
      apply ih
      intro t' ht'
      rw [execute_false_frame sub sc cfg hC x t s s' h]
      exact hs t' (by simp [ht'])

theorem alookup_mem {β : Type} (k : Nat) (v : β) : ∀ l : List (Nat × β), alookup k l = some v → (k, v) ∈ l := by
  intro l
  induction l with
  | nil => intro h; cases h
  | cons a l ih =>
    obtain ⟨k', v'⟩ := a
    unfold alookup
    split
    · rename_i hk; intro h; cases h; subst hk; simp
    · intro h; simp [ih h]

/-- the transition lists the engine ever looks at -/
def FromCfg (ts : List Trans) : Prop := ts = [] ∨ ∃ e ∈ cfg.events, ts = e.2

theorem fromCfg_event (ev : Nat) : FromCfg cfg ((cfg.event? ev).getD []) := by
  unfold Cfg.event?
  cases h : alookup ev cfg.events with
  | none => exact Or.inl rfl
  | some ts => exact Or.inr ⟨(ev, ts), alookup_mem ev ts _ h, rfl⟩

theorem eventTrigger_eq (hC : NoCmds sc) (hD : DestsRegistered cfg) (ts : List Trans) (hts : FromCfg cfg ts)
    (x : Ctx) (s : St) :
    eventTrigger sub sc cfg ts x s = TM.eventTrigger sub sc cfg ts x s := by
  unfold eventTrigger TM.eventTrigger
  simp only []
  cases cfg.state? (s.stateOf x.model) with
  | none => rfl
  | some d0 =>
    simp only []
    cases hc : candidates ts (s.stateOf x.model) with
    | none => rfl
    | some cs =>
      simp only []
      congr 1
      unfold eventProcess TM.eventProcess
      apply bind_congr_ok; intro _ s1 h1
      have f1 := callbacks_ok_frame sub sc hC _ x _ s s1 _ h1
      apply tryTransitions_eq sub sc cfg hC x cs s1
      intro t ht
      obtain ⟨hsrc, hmem⟩ := candidates_spec hc t ht
      refine ⟨by rw [f1.stateOf]; exact hsrc, ?_⟩
      rcases hts with h0 | ⟨e, he, h0⟩
      · rw [h0] at hmem; cases hmem
      · intro d hd
        exact hD e he t (h0 ▸ hmem) d hd

theorem drain_eq (hC : NoCmds sc) (hD : DestsRegistered cfg) (n : Nat) (s : St) :
    drain sub sc cfg n s = TM.drain sub sc cfg n s := by
  induction n generalizing s with
  | zero => rfl
  | succ n ih =>
    unfold drain TM.drain
    cases s.queue with
    | nil => rfl
    | cons e rest =>
      obtain ⟨m, ev, tag⟩ := e
      simp only []
      rw [eventTrigger_eq sub sc cfg hC hD _ (fromCfg_event cfg ev)]
      cases TM.eventTrigger sub sc cfg ((cfg.event? ev).getD []) ⟨m, tag⟩ s with
      | ok b s' => exact ih _
      | err e s' => rfl
      | oof => rfl

theorem machineProcess_eq (hC : NoCmds sc) (hD : DestsRegistered cfg) (fuelQ m ev tag : Nat) (s : St) :
    machineProcess sub sc cfg fuelQ m ev tag s = TM.machineProcess sub sc cfg fuelQ m ev tag s := by
  unfold machineProcess TM.machineProcess
  simp only [eventTrigger_eq sub sc cfg hC hD _ (fromCfg_event cfg ev), drain_eq sub sc cfg hC hD]
  try rfl

theorem triggerByName_eq (hC : NoCmds sc) (hD : DestsRegistered cfg) (fuelQ m ev tag : Nat) (s : St) :
    triggerByName sub sc cfg fuelQ m ev tag s = TM.triggerByName sub sc cfg fuelQ m ev tag s := by
  unfold triggerByName TM.triggerByName
  simp only [machineProcess_eq sub sc cfg hC hD]
  try rfl

theorem apiTrigger_eq (hC : NoCmds sc) (hD : DestsRegistered cfg) (qmax m ev : Nat) (s : St) :
    apiTrigger sub sc cfg qmax m ev s = TM.apiTrigger sub sc cfg qmax m ev s := by
  unfold apiTrigger TM.apiTrigger
  simp only [triggerByName_eq sub sc cfg hC hD]
  try rfl

theorem dispatchLoop_eq (hC : NoCmds sc) (hD : DestsRegistered cfg) (qmax ev tag n i : Nat) (acc : Bool) (s : St) :
    dispatchLoop sub sc cfg qmax ev tag n i acc s = TM.dispatchLoop sub sc cfg qmax ev tag n i acc s := by
  induction n generalizing i acc s with
  | zero => rfl
  | succ n ih =>
    unfold dispatchLoop TM.dispatchLoop
    cases s.models[i]? with
    | none => rfl
    | some m =>
      simp only [triggerByName_eq sub sc cfg hC hD]
      apply bind_congr_ok; intro b s' _
      exact ih _ _ _

theorem apiDispatch_eq (hC : NoCmds sc) (hD : DestsRegistered cfg) (qmax ev : Nat) (s : St) :
    apiDispatch sub sc cfg qmax ev s = TM.apiDispatch sub sc cfg qmax ev s := by
  unfold apiDispatch TM.apiDispatch
  simp only [dispatchLoop_eq sub sc cfg hC hD]
  try rfl

theorem runCmd_eq (hC : NoCmds sc) (hD : DestsRegistered cfg) (qmax fuel : Nat) :
    runCmd sc cfg qmax fuel = TM.runCmd sc cfg qmax fuel := by
  induction fuel with
  | zero => funext c s; rfl
  | succ f ih =>
    funext c s
    unfold runCmd TM.runCmd
    simp only [ih]
    cases c with
    | trigger m ev => simp only [apiTrigger_eq _ sc cfg hC hD]
    | may m ev => rfl
    | dispatch ev => simp only [apiDispatch_eq _ sc cfg hC hD]
    | removeModel m => rfl
    | addModel m => rfl

theorem runHistory_eq (hC : NoCmds sc) (hD : DestsRegistered cfg) (qmax fuel : Nat) (h : List Cmd) (s : St) :
    runHistory sc cfg qmax fuel h s = TM.runHistory sc cfg qmax fuel h s := by
  induction h generalizing s with
  | nil => rfl
  | cons c cs ih =>
    unfold runHistory TM.runHistory
    rw [runCmd_eq sc cfg hC hD]
    cases TM.runCmd sc cfg qmax fuel c s with
    | ok u s' => exact ih s'
    | err e s' => exact ih s'
    | oof => rfl

end C09P
end HsmFlat
end TM
