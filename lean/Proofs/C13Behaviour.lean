/-
  Proofs/C13Behaviour.lean — equivalent configurations (`Build.Equiv`) are indistinguishable to every
  function of the engine model (Model/Core.lean): congruence lemmas, function by function.
-/
import Model.Core
import Model.Spec.C13

namespace TM
namespace Build

theorem normState_inj {g : Bool} {x y : StateDef} (h : normState g x = normState g y) :
    x.name = y.name ∧ x.onEnter = y.onEnter ∧ x.onExit = y.onExit ∧ x.final = y.final ∧
      x.ignore.getD g = y.ignore.getD g := by
  cases x; cases y
  simp only [normState, StateDef.mk.injEq, Option.some.injEq] at h
  obtain ⟨h1, h2, h3, h4, h5⟩ := h
  exact ⟨h1, h2, h3, h5, h4⟩

theorem find_state_cases (g : Bool) (n : Nat) : ∀ (l1 l2 : List StateDef),
    l1.map (normState g) = l2.map (normState g) →
    (l1.find? (·.name = n) = none ∧ l2.find? (·.name = n) = none) ∨
    ∃ x y, l1.find? (·.name = n) = some x ∧ l2.find? (·.name = n) = some y ∧
      x.onEnter = y.onEnter ∧ x.onExit = y.onExit ∧ x.final = y.final ∧ x.ignore.getD g = y.ignore.getD g := by
  intro l1
  induction l1 with
  | nil =>
    intro l2 h
    cases l2 with
    | nil => exact .inl ⟨rfl, rfl⟩
    | cons y r => simp at h
  | cons x r ih =>
    intro l2 h
    cases l2 with
    | nil => simp at h
    | cons y r2 =>
      simp only [List.map_cons, List.cons.injEq] at h
      obtain ⟨hx, ht⟩ := h
      obtain ⟨h1, h2, h3, h4, h5⟩ := normState_inj hx
      by_cases hn : x.name = n
      · have hn' : y.name = n := h1 ▸ hn
        exact .inr ⟨x, y, by simp [List.find?_cons, hn], by simp [List.find?_cons, hn'], h2, h3, h4, h5⟩
      · have hn' : ¬ y.name = n := h1 ▸ hn
        simp only [List.find?_cons, hn, hn', decide_false]
        exact ih r2 ht

theorem Equiv.state_cases {a b : Cfg} (h : a ≈ b) (n : Nat) :
    (a.state? n = none ∧ b.state? n = none) ∨
    ∃ x y, a.state? n = some x ∧ b.state? n = some y ∧
      x.onEnter = y.onEnter ∧ x.onExit = y.onExit ∧ x.final = y.final ∧
      x.ignore.getD a.ignore = y.ignore.getD a.ignore :=
  find_state_cases a.ignore n a.states b.states h.states

variable {a b : Cfg} (h : a ≈ b) (sub : Sub) (sc : Script)
include h

theorem changeState_congr (x : Ctx) (t : Trans) (d : Nat) (s : St) :
    changeState sub sc a x t d s = changeState sub sc b x t d s := by
  unfold changeState
  rcases h.state_cases (s.stateOf x.model) with ⟨ha, hb⟩ | ⟨x1, y1, ha, hb, _, hexit, _, _⟩
  · simp only [ha, hb]
  · simp only [ha, hb, hexit]
    congr 1; funext _ s1
    rcases h.state_cases d with ⟨ha2, hb2⟩ | ⟨x2, y2, ha2, hb2, hent, _, hfin, _⟩
    · simp only [ha2, hb2]
    · simp only [ha2, hb2, hent, hfin, h.onFinal]

theorem execute_congr (x : Ctx) (t : Trans) (s : St) :
    execute sub sc a x t s = execute sub sc b x t s := by
  simp only [execute, changeState_congr h, h.beforeSC, h.afterSC]

theorem tryTransitions_congr (x : Ctx) : ∀ (ts : List Trans) (s : St),
    tryTransitions sub sc a x ts s = tryTransitions sub sc b x ts s := by
  intro ts
  induction ts with
  | nil => intro s; rfl
  | cons t r ih => intro s; simp only [tryTransitions, execute_congr h, ih]

theorem eventProcess_congr (x : Ctx) (ts : List Trans) (s : St) :
    eventProcess sub sc a x ts s = eventProcess sub sc b x ts s := by
  simp only [eventProcess, h.prepareEvent, tryTransitions_congr h]

omit sub sc in
theorem ignoreInvalid_congr (st : Nat) : ignoreInvalid a st = ignoreInvalid b st := by
  unfold ignoreInvalid
  rcases h.state_cases st with ⟨ha, hb⟩ | ⟨x, y, ha, hb, _, _, _, hig⟩
  · simp only [ha, hb, h.ignore]
  · simp only [ha, hb, ← h.ignore]
    cases hx : x.ignore <;> cases hy : y.ignore <;> simp_all [Option.getD]

theorem runFinalize_congr (x : Ctx) (s : St) : runFinalize sub sc a x s = runFinalize sub sc b x s := by
  simp only [runFinalize, h.finalize]

theorem exceptClause_congr (x : Ctx) (r : R Bool) : exceptClause sub sc a x r = exceptClause sub sc b x r := by
  cases r <;> simp only [exceptClause, h.onException]

theorem finallyClause_congr (x : Ctx) (r : R Bool) : finallyClause sub sc a x r = finallyClause sub sc b x r := by
  cases r <;> simp only [finallyClause, runFinalize_congr h]

theorem guarded_congr (x : Ctx) (r : R Bool) : guarded sub sc a x r = guarded sub sc b x r := by
  simp only [guarded, exceptClause_congr h, finallyClause_congr h]

theorem eventTrigger_congr (ts1 ts2 : List Trans) (hc : ∀ src, candidates ts1 src = candidates ts2 src)
    (x : Ctx) (s : St) : eventTrigger sub sc a ts1 x s = eventTrigger sub sc b ts2 x s := by
  unfold eventTrigger
  rcases h.state_cases (s.stateOf x.model) with ⟨ha, hb⟩ | ⟨x1, y1, ha, hb, _⟩
  · simp only [ha, hb]
  · simp only [ha, hb, hc, ignoreInvalid_congr h, eventProcess_congr h, guarded_congr h]

theorem eventTrigger_ev_congr (ev : Nat) (x : Ctx) (s : St) :
    eventTrigger sub sc a ((a.event? ev).getD []) x s = eventTrigger sub sc b ((b.event? ev).getD []) x s :=
  eventTrigger_congr h sub sc _ _ (h.cands ev) x s

theorem drain_congr : ∀ (n : Nat) (s : St), drain sub sc a n s = drain sub sc b n s := by
  intro n
  induction n with
  | zero => intro s; rfl
  | succ n ih =>
    intro s
    unfold drain
    cases s.queue with
    | nil => rfl
    | cons e r =>
      obtain ⟨m, ev, tag⟩ := e
      simp only [eventTrigger_ev_congr h, ih]

theorem machineProcess_congr (fq m ev tag : Nat) (s : St) :
    machineProcess sub sc a fq m ev tag s = machineProcess sub sc b fq m ev tag s := by
  simp only [machineProcess, h.queued, eventTrigger_ev_congr h, drain_congr h]

theorem triggerByName_congr (fq m ev tag : Nat) (s : St) :
    triggerByName sub sc a fq m ev tag s = triggerByName sub sc b fq m ev tag s := by
  unfold triggerByName
  have hk := h.known ev
  cases ha : a.event? ev with
  | none =>
    cases hb : b.event? ev with
    | none =>
      simp only []
      rcases h.state_cases (s.stateOf m) with ⟨ha2, hb2⟩ | ⟨_, _, ha2, hb2, _⟩
      · simp only [ha2, hb2]
      · simp only [ha2, hb2, ignoreInvalid_congr h]
    | some _ => simp [ha, hb] at hk
  | some _ =>
    cases hb : b.event? ev with
    | none => simp [ha, hb] at hk
    | some _ => simp only [machineProcess_congr h]

omit sub sc in
theorem addModel_congr (m : Nat) (s : St) : addModel a m s = addModel b m s := by
  unfold addModel
  rw [h.initial]
  rcases h.state_cases b.initial with ⟨ha, hb⟩ | ⟨_, _, ha, hb, _⟩
  · simp only [ha, hb]
  · simp only [ha, hb]

theorem mayLoop_congr (x : Ctx) : ∀ (ts : List Trans) (s : St),
    mayLoop sub sc a x ts s = mayLoop sub sc b x ts s := by
  intro ts
  induction ts with
  | nil => intro s; rfl
  | cons t r ih =>
    intro s
    unfold mayLoop
    have hdo : destOk a t = destOk b t := by
      unfold destOk
      cases hdest : t.dest with
      | none => rfl
      | some d =>
        rcases h.state_cases d with ⟨ha, hb⟩ | ⟨_, _, ha, hb, _⟩ <;>
          simp only [ha, hb, Option.isSome_none, Option.isSome_some]
    simp only [hdo, h.prepareEvent, h.onException, ih]

theorem canTrigger_congr (m ev tag : Nat) (s : St) :
    canTrigger sub sc a m ev tag s = canTrigger sub sc b m ev tag s := by
  unfold canTrigger
  have hk := h.known ev
  have hc := h.cands ev (s.stateOf m)
  rcases h.state_cases (s.stateOf m) with ⟨ha2, hb2⟩ | ⟨_, _, ha2, hb2, _⟩
  · simp only [ha2, hb2]
  · simp only [ha2, hb2]
    cases ha : a.event? ev with
    | none =>
      cases hb : b.event? ev with
      | none => rfl
      | some _ => simp [ha, hb] at hk
    | some t1 =>
      cases hb : b.event? ev with
      | none => simp [ha, hb] at hk
      | some t2 =>
        simp only [ha, hb, Option.getD_some] at hc
        simp only [hc, mayLoop_congr h]

theorem apiTrigger_congr (q m ev : Nat) (s : St) :
    apiTrigger sub sc a q m ev s = apiTrigger sub sc b q m ev s := by
  simp only [apiTrigger, triggerByName_congr h]

theorem apiMay_congr (m ev : Nat) (s : St) : apiMay sub sc a m ev s = apiMay sub sc b m ev s := by
  simp only [apiMay, canTrigger_congr h]

theorem dispatchLoop_congr (q ev tag : Nat) : ∀ (n i : Nat) (acc : Bool) (s : St),
    dispatchLoop sub sc a q ev tag n i acc s = dispatchLoop sub sc b q ev tag n i acc s := by
  intro n
  induction n with
  | zero => intro i acc s; rfl
  | succ n ih => intro i acc s; simp only [dispatchLoop, triggerByName_congr h, ih]

theorem apiDispatch_congr (q ev : Nat) (s : St) :
    apiDispatch sub sc a q ev s = apiDispatch sub sc b q ev s := by
  simp only [apiDispatch, dispatchLoop_congr h]

omit sub sc in
theorem apiAdd_congr (m : Nat) (s : St) : apiAdd a m s = apiAdd b m s := by
  simp only [apiAdd, addModel_congr h]

omit sub in
theorem runCmd_congr (q : Nat) : ∀ f, runCmd sc a q f = runCmd sc b q f := by
  intro f
  induction f with
  | zero => funext c s; rfl
  | succ f ih =>
    funext c s
    simp only [runCmd, ih]
    cases c <;> simp only [apiTrigger_congr h, apiMay_congr h, apiDispatch_congr h, apiAdd_congr h]

omit sub in
theorem runHistory_congr (q f : Nat) : ∀ (hist : List Cmd) (s : St),
    runHistory sc a q f hist s = runHistory sc b q f hist s := by
  intro hist
  induction hist with
  | nil => intro s; rfl
  | cons c r ih => intro s; simp only [runHistory, runCmd_congr h, ih]

end Build
end TM
