/-
  Proofs/C06.lean — proofs for property C06 over the locking model `Model/Locked.lean`.

  One inductive invariant `Inv` (per-thread phase + ownership clauses + shape of the
  `model_context_map`), preserved by every `step` of a run that stays inside the statement
  (`ung = false`); on top of it: the `noOverlap` monitor state, the context-order monitor state, and
  the serialization relation with the sequential reference semantics.
-/
import Model.Locked

namespace TM
namespace Locked
namespace C06P

/-! ## projections of the state updates -/

@[simp] theorem emit_th (s : LState) (e : Ev) : (emit s e).th = s.th := rfl
@[simp] theorem emit_owner (s : LState) (e : Ev) : (emit s e).owner = s.owner := rfl
@[simp] theorem emit_current (s : LState) (e : Ev) : (emit s e).current = s.current := rfl
@[simp] theorem emit_mstate (s : LState) (e : Ev) : (emit s e).mstate = s.mstate := rfl
@[simp] theorem emit_cmap (s : LState) (e : Ev) : (emit s e).cmap = s.cmap := rfl
@[simp] theorem emit_ung (s : LState) (e : Ev) : (emit s e).ung = s.ung := rfl
@[simp] theorem emit_trace (s : LState) (e : Ev) : (emit s e).trace = s.trace ++ [e] := rfl
@[simp] theorem setTh_th (s : LState) (t : Nat) (x : Thread) (i : Nat) :
    (setTh s t x).th i = if i = t then x else s.th i := rfl
@[simp] theorem setTh_owner (s : LState) (t : Nat) (x : Thread) : (setTh s t x).owner = s.owner := rfl
@[simp] theorem setTh_current (s : LState) (t : Nat) (x : Thread) : (setTh s t x).current = s.current := rfl
@[simp] theorem setTh_mstate (s : LState) (t : Nat) (x : Thread) : (setTh s t x).mstate = s.mstate := rfl
@[simp] theorem setTh_cmap (s : LState) (t : Nat) (x : Thread) : (setTh s t x).cmap = s.cmap := rfl
@[simp] theorem setTh_ung (s : LState) (t : Nat) (x : Thread) : (setTh s t x).ung = s.ung := rfl
@[simp] theorem setTh_trace (s : LState) (t : Nat) (x : Thread) : (setTh s t x).trace = s.trace := rfl

@[simp] theorem exitCtx_th (s : LState) (x : Ctx) : (exitCtx s x).th = s.th := by cases x <;> rfl
@[simp] theorem exitCtx_mstate (s : LState) (x : Ctx) : (exitCtx s x).mstate = s.mstate := by
  cases x <;> rfl
@[simp] theorem exitCtx_cmap (s : LState) (x : Ctx) : (exitCtx s x).cmap = s.cmap := by
  cases x <;> rfl
@[simp] theorem exitCtx_ung (s : LState) (x : Ctx) : (exitCtx s x).ung = s.ung := by
  cases x <;> rfl
@[simp] theorem exitCtx_trace (s : LState) (x : Ctx) : (exitCtx s x).trace = s.trace := by
  cases x <;> rfl

theorem enterCtx_some {s s' : LState} {t : Nat} {x : Ctx} (h : enterCtx s t x = some s') :
    s'.th = s.th ∧ s'.mstate = s.mstate ∧ s'.trace = s.trace ∧ s'.cmap = s.cmap ∧
      s'.ung = s.ung := by
  cases x with
  | lock l =>
    by_cases h0 : s.owner l = 0
    · simp [enterCtx, h0] at h; subst h; exact ⟨rfl, rfl, rfl, rfl, rfl⟩
    · simp [enterCtx, h0] at h
  | ident => simp [enterCtx] at h; subst h; exact ⟨rfl, rfl, rfl, rfl, rfl⟩
  | user u => simp [enterCtx] at h; subst h; exact ⟨rfl, rfl, rfl, rfl, rfl⟩

/-! ## the cases of `step` -/

theorem step_cases (c : Cfg) (eng : Nat → Nat → Nat) (s : LState) (t : Nat) :
    step c eng s t = s ∨
    (∃ x r f fs s', (s.th t).pend = x :: r ∧ (s.th t).frames = f :: fs ∧ enterCtx s t x = some s' ∧
      step c eng s t =
        emit (setTh s' t { s.th t with pend := r, frames := (x :: f) :: fs }) (.enter t x)) ∨
    (∃ tgt tag p, (s.th t).pend = [] ∧ (s.th t).prog = .call tgt tag :: p ∧ s.current = t + 1 ∧
      step c eng s t =
        emit (setTh s t { s.th t with prog := p, frames := [] :: (s.th t).frames })
          (.callBegin t tgt tag)) ∨
    (∃ tgt tag p, (s.th t).pend = [] ∧ (s.th t).prog = .call tgt tag :: p ∧ s.current ≠ t + 1 ∧
      step c eng s t =
        emit (setTh { s with ung := s.ung || (ctxsFor c s.cmap tgt).isEmpty } t
          { s.th t with prog := p, frames := [] :: (s.th t).frames,
                        pend := ctxsFor c s.cmap tgt }) (.callBegin t tgt tag)) ∨
    (∃ a p f fs, (s.th t).pend = [] ∧ (s.th t).prog = .cb a :: p ∧ (s.th t).frames = f :: fs ∧
      step c eng s t =
        emit (setTh { s with mstate := eng a s.mstate } t { s.th t with prog := p }) (.cb t a)) ∨
    (∃ r p fs, (s.th t).pend = [] ∧ (s.th t).prog = .ret r :: p ∧ (s.th t).frames = [] :: fs ∧
      step c eng s t =
        emit (setTh s t { s.th t with prog := p, frames := fs, exiting := false }) (.callEnd t r)) ∨
    (∃ r p x f fs, (s.th t).pend = [] ∧ (s.th t).prog = .ret r :: p ∧
      (s.th t).frames = (x :: f) :: fs ∧
      step c eng s t =
        emit (setTh (exitCtx s x) t { s.th t with frames := f :: fs, exiting := true })
          (.exit t x)) ∨
    (∃ m xs p f fs, (s.th t).pend = [] ∧ (s.th t).prog = .reg m xs :: p ∧
      (s.th t).frames = f :: fs ∧
      step c eng s t =
        emit (setTh { s with cmap := regMap c s.cmap m xs } t { s.th t with prog := p })
          (.reg t m xs)) ∨
    (∃ m p f fs, (s.th t).pend = [] ∧ (s.th t).prog = .unreg m :: p ∧
      (s.th t).frames = f :: fs ∧
      step c eng s t =
        emit (setTh { s with cmap := unregMap s.cmap m } t { s.th t with prog := p })
          (.unreg t m)) ∨
    (∃ p f fs, (s.th t).pend = [] ∧ (s.th t).prog = .snap :: p ∧ (s.th t).frames = f :: fs ∧
      step c eng s t = emit (setTh s t { s.th t with prog := p }) (.snap t)) := by
  unfold step
  simp only []
  split
  · rename_i x r hp
    split
    · exact Or.inl rfl
    · rename_i s' he
      split
      · exact Or.inl rfl
      · rename_i f fs hf
        exact Or.inr (Or.inl ⟨x, r, f, fs, s', hp, hf, he, rfl⟩)
  · rename_i hp
    split
    · exact Or.inl rfl
    · rename_i tgt tag p hprog
      split
      · rename_i hc
        exact Or.inr (Or.inr (Or.inl ⟨tgt, tag, p, hp, hprog, hc, rfl⟩))
      · rename_i hc
        exact Or.inr (Or.inr (Or.inr (Or.inl ⟨tgt, tag, p, hp, hprog, hc, rfl⟩)))
    · rename_i a p hprog
      split
      · exact Or.inl rfl
      · rename_i f fs hf
        exact Or.inr (Or.inr (Or.inr (Or.inr (Or.inl ⟨a, p, f, fs, hp, hprog, hf, rfl⟩))))
    · rename_i r p hprog
      split
      · exact Or.inl rfl
      · rename_i fs hf
        exact Or.inr (Or.inr (Or.inr (Or.inr (Or.inr (Or.inl ⟨r, p, fs, hp, hprog, hf, rfl⟩)))))
      · rename_i x f fs hf
        exact Or.inr (Or.inr (Or.inr (Or.inr (Or.inr (Or.inr (Or.inl
          ⟨r, p, x, f, fs, hp, hprog, hf, rfl⟩))))))
    · rename_i m xs p hprog
      split
      · exact Or.inl rfl
      · rename_i f fs hf
        exact Or.inr (Or.inr (Or.inr (Or.inr (Or.inr (Or.inr (Or.inr (Or.inl
          ⟨m, xs, p, f, fs, hp, hprog, hf, rfl⟩)))))))
    · rename_i m p hprog
      split
      · exact Or.inl rfl
      · rename_i f fs hf
        exact Or.inr (Or.inr (Or.inr (Or.inr (Or.inr (Or.inr (Or.inr (Or.inr (Or.inl
          ⟨m, p, f, fs, hp, hprog, hf, rfl⟩))))))))
    · rename_i p hprog
      split
      · exact Or.inl rfl
      · rename_i f fs hf
        exact Or.inr (Or.inr (Or.inr (Or.inr (Or.inr (Or.inr (Or.inr (Or.inr (Or.inr
          ⟨p, f, fs, hp, hprog, hf, rfl⟩))))))))

/-- `ung` is never reset -/
theorem ung_mono (c : Cfg) (eng : Nat → Nat → Nat) (s : LState) (t : Nat)
    (hu : (step c eng s t).ung = false) : s.ung = false := by
  rcases step_cases c eng s t with h | ⟨x, r, f, fs, s1, hp, hf, he, h⟩ |
      ⟨tgt, tag, p, hp, hprog, hc, h⟩ | ⟨tgt, tag, p, hp, hprog, hc, h⟩ |
      ⟨a, p, f, fs, hp, hprog, hf, h⟩ | ⟨r, p, fs, hp, hprog, hf, h⟩ |
      ⟨r, p, x, f, fs, hp, hprog, hf, h⟩ | ⟨m, xs, p, f, fs, hp, hprog, hf, h⟩ |
      ⟨m, p, f, fs, hp, hprog, hf, h⟩ | ⟨p, f, fs, hp, hprog, hf, h⟩
  · rwa [h] at hu
  · rw [h] at hu; simpa [(enterCtx_some he).2.2.2.2] using hu
  · rw [h] at hu; simpa using hu
  · rw [h] at hu; simp at hu; exact hu.1
  · rw [h] at hu; simpa using hu
  · rw [h] at hu; simpa using hu
  · rw [h] at hu; simpa using hu
  · rw [h] at hu; simpa using hu
  · rw [h] at hu; simpa using hu
  · rw [h] at hu; simpa using hu

theorem ung_run (c : Cfg) (eng : Nat → Nat → Nat) (σ : List Nat) :
    ∀ s : LState, (runSched c eng s σ).ung = false → s.ung = false := by
  induction σ with
  | nil => intro s h; exact h
  | cons t σ ih => intro s h; exact ung_mono c eng s t (ih _ h)

/-- induction over a run that ends inside the statement: every intermediate state is inside it -/
theorem run_induction (c : Cfg) (eng : Nat → Nat → Nat) (P : LState → Prop)
    (hstep : ∀ s t, P s → (step c eng s t).ung = false → P (step c eng s t)) (σ : List Nat) :
    ∀ s : LState, P s → (runSched c eng s σ).ung = false → P (runSched c eng s σ) := by
  induction σ with
  | nil => intro s h _; exact h
  | cons t σ ih =>
    intro s h hu
    exact ih _ (hstep s t h (ung_run c eng σ _ hu)) hu

/-! ## the contexts of a call -/

theorem alookupD_cases (m : Nat) (l : List (Nat × List Ctx)) :
    alookupD m l = [] ∨ ∃ p ∈ l, alookupD m l = p.2 := by
  induction l with
  | nil => exact Or.inl rfl
  | cons a l ih =>
    obtain ⟨k, v⟩ := a
    unfold alookupD
    split
    · exact Or.inr ⟨(k, v), by simp, rfl⟩
    · rcases ih with h | ⟨p, hp, h⟩
      · exact Or.inl h
      · exact Or.inr ⟨p, by simp [hp], h⟩

theorem ident_not_mbase {c : Cfg} {L : Nat} (hwf : WF c L) : Ctx.ident ∉ c.mbase := by
  unfold Cfg.mbase
  split
  · simp
  · exact hwf.2.1

/-- the shape of every context list a non re-entrant call enters: the machine contexts (with the
machine lock), then the machine's ident, then contexts that are not the ident -/
def Good (c : Cfg) (l : List Ctx) : Prop := ∃ xs, l = c.mbase ++ Ctx.ident :: xs ∧ Ctx.ident ∉ xs

theorem good_mctx_append (c : Cfg) {xs : List Ctx} (h : Ctx.ident ∉ xs) : Good c (c.mctx ++ xs) :=
  ⟨xs, by simp [Cfg.mctx], h⟩

theorem good_mctx (c : Cfg) : Good c c.mctx := ⟨[], by simp [Cfg.mctx], by simp⟩

theorem good_cmap {c : Cfg} {L : Nat} (hwf : WF c L) (m : Nat) : Good c (c.cmap m) := by
  apply good_mctx_append
  rcases alookupD_cases m c.extra with h0 | ⟨p, hp, h0⟩
  · simp [h0]
  · rw [h0]; exact hwf.2.2 p hp

theorem Good.ident {c : Cfg} {l : List Ctx} (h : Good c l) : Ctx.ident ∈ l := by
  obtain ⟨xs, rfl, _⟩ := h; simp

theorem Good.ne_nil {c : Cfg} {l : List Ctx} (h : Good c l) : l ≠ [] := by
  intro h0; have := h.ident; simp [h0] at this

theorem Good.lock {c : Cfg} {L : Nat} (hwf : WF c L) {l : List Ctx} (h : Good c l) :
    Ctx.lock L ∈ l := by
  obtain ⟨xs, rfl, _⟩ := h; simp [hwf.1]

/-- the machine lock precedes ident in every prefix -/
theorem Good.prefix_ident_lock {c : Cfg} {L : Nat} (hwf : WF c L) {l a b : List Ctx}
    (hg : Good c l) (h : a ++ b = l) (hi : Ctx.ident ∈ a) : Ctx.lock L ∈ a := by
  obtain ⟨xs, hs, _⟩ := hg
  rw [hs, List.append_eq_append_iff] at h
  rcases h with ⟨a', h1, _⟩ | ⟨c', h1, _⟩
  · exfalso; apply ident_not_mbase hwf; rw [h1]; simp [hi]
  · rw [h1]; simp [hwf.1]

theorem Good.count_ident {c : Cfg} {L : Nat} (hwf : WF c L) {l : List Ctx} (hg : Good c l) :
    l.count Ctx.ident = 1 := by
  obtain ⟨xs, hs, hx⟩ := hg
  rw [hs, List.count_append, List.count_cons_self, List.count_eq_zero_of_not_mem hx,
    List.count_eq_zero_of_not_mem (ident_not_mbase hwf)]

theorem ctxsFor_good {c : Cfg} {cmap : Nat → List Ctx}
    (hcm : ∀ m, cmap m = [] ∨ Good c (cmap m)) {tgt : Nat} (hne : ctxsFor c cmap tgt ≠ []) :
    Good c (ctxsFor c cmap tgt) := by
  cases tgt with
  | zero => exact good_mctx c
  | succ m =>
    rcases hcm m with h | h
    · by_cases hh : c.hsm = true
      · simp only [ctxsFor, hh, h, List.isEmpty_nil, if_true]; exact good_mctx c
      · simp [ctxsFor, hh, h] at hne
    · have : (cmap m).isEmpty = false := by
        cases hcm' : cmap m with
        | nil => exact absurd hcm' h.ne_nil
        | cons a b => rfl
      by_cases hh : c.hsm = true
      · simp only [ctxsFor, hh, this, if_true]; exact h
      · simp only [ctxsFor, hh]; exact h

/-! ## per-thread phase -/

def Phase (c : Cfg) (th : Thread) : Prop :=
  (th.frames = [] ∧ th.pend = [] ∧ th.exiting = false) ∨
  (∃ f l, th.frames = [f] ∧ th.pend ≠ [] ∧ th.exiting = false ∧ Good c l ∧
    f.reverse ++ th.pend = l) ∨
  (∃ k f l, th.frames = List.replicate k [] ++ [f] ∧ th.pend = [] ∧ th.exiting = false ∧
    Good c l ∧ f.reverse = l) ∨
  (∃ f l r b p, th.frames = [f] ∧ th.pend = [] ∧ th.exiting = true ∧ Good c l ∧
    f.reverse ++ r = l ∧ th.prog = .ret b :: p)

theorem flatten_rep (k : Nat) (f : List Ctx) :
    (List.replicate k ([] : List Ctx) ++ [f]).flatten = f := by
  simp

theorem Phase.of_nil {c : Cfg} {th : Thread} (h : Phase c th) (hf : th.frames = []) :
    th.pend = [] ∧ th.exiting = false := by
  rcases h with ⟨_, h2, h3⟩ | ⟨f, l, h1, _⟩ | ⟨k, f, l, h1, _⟩ | ⟨f, l, r, b, p, h1, _⟩
  · exact ⟨h2, h3⟩
  · simp [hf] at h1
  · simp [hf] at h1
  · simp [hf] at h1

theorem Phase.of_pend {c : Cfg} {th : Thread} (h : Phase c th) {x : Ctx} {r : List Ctx}
    (hp : th.pend = x :: r) :
    ∃ f l, th.frames = [f] ∧ th.exiting = false ∧ Good c l ∧ f.reverse ++ x :: r = l := by
  rcases h with ⟨_, h2, _⟩ | ⟨f, l, h1, _, h3, hg, h4⟩ | ⟨k, f, l, _, h2, _⟩ |
    ⟨f, l, r, b, p, _, h2, _⟩
  · simp [hp] at h2
  · exact ⟨f, l, h1, h3, hg, hp ▸ h4⟩
  · simp [hp] at h2
  · simp [hp] at h2

theorem Phase.of_body {c : Cfg} {th : Thread} (h : Phase c th) (hf : th.frames ≠ [])
    (hp : th.pend = []) (he : th.exiting = false) :
    ∃ k f l, th.frames = List.replicate k [] ++ [f] ∧ Good c l ∧ f.reverse = l := by
  rcases h with ⟨h1, _⟩ | ⟨f, l, _, h2, _⟩ | ⟨k, f, l, h1, _, _, hg, h4⟩ |
    ⟨f, l, r, b, p, _, _, h3, _⟩
  · exact absurd h1 hf
  · exact absurd hp h2
  · exact ⟨k, f, l, h1, hg, h4⟩
  · simp [he] at h3

theorem Phase.of_exiting {c : Cfg} {th : Thread} (h : Phase c th) (he : th.exiting = true) :
    ∃ f l r b p, th.frames = [f] ∧ th.pend = [] ∧ Good c l ∧ f.reverse ++ r = l ∧
      th.prog = .ret b :: p := by
  rcases h with ⟨_, _, h3⟩ | ⟨f, l, _, _, h3, _⟩ | ⟨k, f, l, _, _, h3, _⟩ |
    ⟨f, l, r, b, p, h1, h2, _, hg, h4, h5⟩
  · simp [he] at h3
  · simp [he] at h3
  · simp [he] at h3
  · exact ⟨f, l, r, b, p, h1, h2, hg, h4, h5⟩

/-- what a thread holds is a prefix of the contexts of some call -/
theorem Phase.held_prefix {c : Cfg} {th : Thread} (h : Phase c th) :
    ∃ r l, Good c l ∧ (held th).reverse ++ r = l := by
  rcases h with ⟨h1, _⟩ | ⟨f, l, h1, _, _, hg, h4⟩ | ⟨k, f, l, h1, _, _, hg, h4⟩ |
    ⟨f, l, r, b, p, h1, _, _, hg, h4, _⟩
  · exact ⟨c.mctx, c.mctx, good_mctx c, by simp [held, h1]⟩
  · exact ⟨th.pend, l, hg, by simpa [held, h1] using h4⟩
  · exact ⟨[], l, hg, by simpa [held, h1, flatten_rep] using h4⟩
  · exact ⟨r, l, hg, by simpa [held, h1] using h4⟩

theorem Phase.ident_lock {c : Cfg} {L : Nat} (hwf : WF c L) {th : Thread} (h : Phase c th)
    (hi : Ctx.ident ∈ held th) : Ctx.lock L ∈ held th := by
  obtain ⟨r, l, hg, hr⟩ := h.held_prefix
  have := hg.prefix_ident_lock hwf hr (by simpa using hi)
  simpa using this

theorem Phase.ident_count {c : Cfg} {L : Nat} (hwf : WF c L) {th : Thread} (h : Phase c th) :
    (held th).count Ctx.ident ≤ 1 := by
  obtain ⟨r, l, hg, hr⟩ := h.held_prefix
  have := hg.count_ident hwf
  rw [← hr, List.count_append, List.count_reverse] at this
  omega

/-! ## the invariant -/

structure Inv (c : Cfg) (s : LState) : Prop where
  ph : ∀ t, Phase c (s.th t)
  own : ∀ t l, Ctx.lock l ∈ held (s.th t) ↔ s.owner l = t + 1
  cnt : ∀ t l, (held (s.th t)).count (Ctx.lock l) ≤ 1
  cur : ∀ t, Ctx.ident ∈ held (s.th t) ↔ s.current = t + 1
  /-- a model's entry in `model_context_map` is empty or machine contexts ++ its own -/
  cm : ∀ m, s.cmap m = [] ∨ Good c (s.cmap m)
  /-- the machine's ident is never handed to `add_model` -/
  pr : ∀ t m xs, Op.reg m xs ∈ (s.th t).prog → Ctx.ident ∉ xs

theorem Inv.init {c : Cfg} {L : Nat} (hwf : WF c L) (progs : Nat → List Op) (hp : ProgOK progs)
    (ms : Nat) : Inv c (init c progs ms) where
  ph := fun t => Or.inl ⟨rfl, rfl, rfl⟩
  own := fun t l => by simp [Locked.init, held]
  cnt := fun t l => by simp [Locked.init, held]
  cur := fun t => by simp [Locked.init, held]
  cm := fun m => by
    show c.cmap0 m = [] ∨ Good c (c.cmap0 m)
    unfold Cfg.cmap0
    split
    · exact Or.inl rfl
    · exact Or.inr (good_cmap hwf m)
  pr := fun t m xs h => hp t m xs h

theorem Inv.update {c : Cfg} {s s' : LState} (hI : Inv c s) (t : Nat) (x : Thread)
    (hth : ∀ i, s'.th i = if i = t then x else s.th i)
    (hph : Phase c x)
    (hown_t : ∀ l, Ctx.lock l ∈ held x ↔ s'.owner l = t + 1)
    (hown_o : ∀ t' l, t' ≠ t → (s'.owner l = t' + 1 ↔ s.owner l = t' + 1))
    (hcnt : ∀ l, (held x).count (Ctx.lock l) ≤ 1)
    (hcur_t : Ctx.ident ∈ held x ↔ s'.current = t + 1)
    (hcur_o : ∀ t', t' ≠ t → (s'.current = t' + 1 ↔ s.current = t' + 1))
    (hcm : ∀ m, s'.cmap m = [] ∨ Good c (s'.cmap m))
    (hpr : ∀ o ∈ x.prog, o ∈ (s.th t).prog) : Inv c s' where
  ph := fun i => by
    rw [hth]; split
    · exact hph
    · exact hI.ph i
  own := fun i l => by
    rw [hth]; split
    · rename_i h; subst h; exact hown_t l
    · rename_i h; rw [hown_o i l h]; exact hI.own i l
  cnt := fun i l => by
    rw [hth]; split
    · exact hcnt l
    · exact hI.cnt i l
  cur := fun i => by
    rw [hth]; split
    · rename_i h; subst h; exact hcur_t
    · rename_i h; rw [hcur_o i h]; exact hI.cur i
  cm := hcm
  pr := fun i m xs => by
    rw [hth]; split
    · rename_i h; subst h; exact fun h' => hI.pr i m xs (hpr _ h')
    · exact hI.pr i m xs

/-- the moving thread holds the same contexts; locks and `current` are untouched -/
theorem Inv.update_same {c : Cfg} {s s' : LState} (hI : Inv c s) (t : Nat) (x : Thread)
    (hth : ∀ i, s'.th i = if i = t then x else s.th i)
    (hph : Phase c x) (hh : held x = held (s.th t))
    (ho : s'.owner = s.owner) (hc : s'.current = s.current)
    (hcm : ∀ m, s'.cmap m = [] ∨ Good c (s'.cmap m))
    (hpr : ∀ o ∈ x.prog, o ∈ (s.th t).prog) : Inv c s' :=
  hI.update t x hth hph (fun l => by rw [hh, ho]; exact hI.own t l)
    (fun t' l _ => by rw [ho]) (fun l => by rw [hh]; exact hI.cnt t l)
    (by rw [hh, hc]; exact hI.cur t) (fun t' _ => by rw [hc]) hcm hpr

theorem held_nil {th : Thread} (h : th.frames = []) : held th = [] := by simp [held, h]

/-- inside a call body (not entering, not unwinding) -/
def inBody (th : Thread) : Prop := th.frames ≠ [] ∧ th.pend = [] ∧ th.exiting = false

theorem Inv.body_held {c : Cfg} {s : LState} (hI : Inv c s) {t : Nat} (hb : inBody (s.th t)) :
    ∃ k f l, (s.th t).frames = List.replicate k [] ++ [f] ∧ Good c l ∧ f.reverse = l ∧
      held (s.th t) = f := by
  obtain ⟨k, f, l, h1, hg, h2⟩ := (hI.ph t).of_body hb.1 hb.2.1 hb.2.2
  exact ⟨k, f, l, h1, hg, h2, by simp [held, h1]⟩

theorem Inv.body_current {c : Cfg} {s : LState} (hI : Inv c s) {t : Nat} (hb : inBody (s.th t)) :
    s.current = t + 1 := by
  obtain ⟨k, f, l, _, hg, h2, h3⟩ := hI.body_held hb
  rw [← hI.cur t, h3]
  have := hg.ident
  rw [← h2] at this; simpa using this

theorem Inv.body_owner {c : Cfg} {L : Nat} (hwf : WF c L) {s : LState} (hI : Inv c s) {t : Nat}
    (hb : inBody (s.th t)) : s.owner L = t + 1 := by
  obtain ⟨k, f, l, _, hg, h2, h3⟩ := hI.body_held hb
  rw [← hI.own t, h3]
  have := hg.lock hwf
  rw [← h2] at this; simpa using this

theorem Inv.body_unique {c : Cfg} {L : Nat} (hwf : WF c L) {s : LState} (hI : Inv c s) {t t' : Nat}
    (hb : inBody (s.th t)) (hb' : inBody (s.th t')) : t = t' := by
  have h1 := hI.body_owner hwf hb
  have h2 := hI.body_owner hwf hb'
  omega

/-- a thread that is about to run an op other than `ret` is not unwinding -/
theorem Inv.not_exiting_of_prog {c : Cfg} {s : LState} (hI : Inv c s) {t : Nat}
    (h : ∀ b p, (s.th t).prog ≠ .ret b :: p) : (s.th t).exiting = false := by
  cases he : (s.th t).exiting with
  | false => rfl
  | true =>
    obtain ⟨f, l, r, b, p, _, _, _, _, h5⟩ := (hI.ph t).of_exiting he
    exact absurd h5 (h b p)

theorem Phase.set_prog {c : Cfg} {th : Thread} (h : Phase c th) (he : th.exiting = false)
    (p : List Op) : Phase c { th with prog := p } := by
  rcases h with h | h | h | ⟨f, l, r, b, p', _, _, h3, _⟩
  · exact Or.inl h
  · exact Or.inr (Or.inl h)
  · exact Or.inr (Or.inr (Or.inl h))
  · simp [he] at h3

theorem regMap_good {c : Cfg} {cmap : Nat → List Ctx} (hcm : ∀ m, cmap m = [] ∨ Good c (cmap m))
    (m : Nat) {xs : List Ctx} (hx : Ctx.ident ∉ xs) :
    ∀ i, regMap c cmap m xs i = [] ∨ Good c (regMap c cmap m xs i) := by
  intro i
  unfold regMap
  split
  · by_cases hi : i = m
    · simp only [hi, if_true]; exact Or.inr (good_mctx_append c hx)
    · simp only [hi, if_false]; exact hcm i
  · exact hcm i

theorem unregMap_good {c : Cfg} {cmap : Nat → List Ctx}
    (hcm : ∀ m, cmap m = [] ∨ Good c (cmap m)) (m : Nat) :
    ∀ i, unregMap cmap m i = [] ∨ Good c (unregMap cmap m i) := by
  intro i
  unfold unregMap
  split
  · exact Or.inl rfl
  · exact hcm i

theorem mem_tail {o a : Op} {p q : List Op} (h : q = a :: p) (ho : o ∈ p) : o ∈ q := by
  rw [h]; exact List.mem_cons_of_mem _ ho

theorem Inv.step {c : Cfg} {L : Nat} (hwf : WF c L) (eng : Nat → Nat → Nat) {s : LState}
    (hI : Inv c s) (t : Nat) (hu : (step c eng s t).ung = false) : Inv c (step c eng s t) := by
  rcases step_cases c eng s t with h | ⟨x, r, f, fs, s1, hp, hf, he, h⟩ |
      ⟨tgt, tag, p, hp, hprog, hc, h⟩ | ⟨tgt, tag, p, hp, hprog, hc, h⟩ |
      ⟨a, p, f, fs, hp, hprog, hf, h⟩ | ⟨r, p, fs, hp, hprog, hf, h⟩ |
      ⟨r, p, x, f, fs, hp, hprog, hf, h⟩ | ⟨m, xs, p, f, fs, hp, hprog, hf, h⟩ |
      ⟨m, p, f, fs, hp, hprog, hf, h⟩ | ⟨p, f, fs, hp, hprog, hf, h⟩
  · rw [h]; exact hI
  · -- enter
    rw [h]
    obtain ⟨f0, l0, h1, hex, hg, hctx⟩ := (hI.ph t).of_pend hp
    obtain ⟨rfl, rfl⟩ : f = f0 ∧ fs = [] := by simpa [hf] using h1
    have hheld : held (s.th t) = f := by simp [held, hf]
    have hph : Phase c { s.th t with pend := r, frames := [x :: f] } := by
      by_cases hr : r = []
      · subst hr
        exact Or.inr (Or.inr (Or.inl ⟨0, x :: f, l0, by simp, rfl, hex, hg, by simpa using hctx⟩))
      · exact Or.inr (Or.inl ⟨x :: f, l0, rfl, hr, hex, hg, by simpa using hctx⟩)
    have hown := hI.own t
    have hcnt := hI.cnt t
    have hcur := hI.cur t
    rw [hheld] at hown hcnt hcur
    cases x with
    | lock l =>
      have hfree : s.owner l = 0 := by
        by_cases h0 : s.owner l = 0
        · exact h0
        · simp [enterCtx, h0] at he
      have hs1 : s1 = { s with owner := fun i => if i = l then t + 1 else s.owner i } := by
        simpa [enterCtx, hfree] using he.symm
      subst hs1
      refine hI.update t _ (fun i => rfl) hph ?_ ?_ ?_ ?_ ?_ hI.cm (fun o ho => ho)
      · intro l'
        by_cases hl : l' = l
        · subst hl; simp [held]
        · simp [held, hl]; exact hown l'
      · intro t' l' ht
        by_cases hl : l' = l
        · subst hl; simp [hfree]; omega
        · simp [hl]
      · intro l'
        by_cases hl : l' = l
        · subst hl
          have : Ctx.lock l' ∉ f := by rw [hown, hfree]; omega
          simp [held, List.count_eq_zero_of_not_mem this]
        · have : ¬ l = l' := fun h => hl h.symm
          simpa [held, List.count_cons, this] using hcnt l'
      · simpa [held] using hcur
      · intro t' _; simp
    | ident =>
      have hs1 : s1 = { s with current := t + 1 } := by simpa [enterCtx] using he.symm
      subst hs1
      have hL : Ctx.lock L ∈ f := by
        have : (f.reverse ++ [Ctx.ident]) ++ r = l0 := by simpa using hctx
        have := hg.prefix_ident_lock hwf this (by simp)
        simpa using this
      refine hI.update t _ (fun i => rfl) hph ?_ ?_ ?_ ?_ ?_ hI.cm (fun o ho => ho)
      · intro l'; simpa [held] using hown l'
      · intro t' l' _; simp
      · intro l'; simpa [held, List.count_cons] using hcnt l'
      · simp [held]
      · intro t' ht
        show t + 1 = t' + 1 ↔ s.current = t' + 1
        constructor
        · intro h'; omega
        · intro h'
          have h2 := (hI.ph t').ident_lock hwf ((hI.cur t').2 h')
          rw [hI.own t' L] at h2
          rw [hown L] at hL
          omega
    | user u =>
      have hs1 : s1 = s := by simpa [enterCtx] using he.symm
      subst hs1
      refine hI.update t _ (fun i => rfl) hph ?_ ?_ ?_ ?_ ?_ hI.cm (fun o ho => ho)
      · intro l'; simpa [held] using hown l'
      · intro t' l' _; simp
      · intro l'; simpa [held, List.count_cons] using hcnt l'
      · simpa [held] using hcur
      · intro t' _; simp
  · -- re-entrant call
    rw [h]
    have hex : (s.th t).exiting = false := hI.not_exiting_of_prog (by simp [hprog])
    have hne : (s.th t).frames ≠ [] := by
      intro h0
      have := (hI.cur t).2 hc
      simp [held_nil h0] at this
    obtain ⟨k, f, l0, h1, hg, h2⟩ := (hI.ph t).of_body hne hp hex
    refine hI.update_same t _ (fun i => rfl) ?_ (by simp [held]) rfl rfl hI.cm
      (fun o ho => mem_tail hprog ho)
    exact Or.inr (Or.inr (Or.inl
      ⟨k + 1, f, l0, by simp [h1, List.replicate_succ], hp, hex, hg, h2⟩))
  · -- outermost call
    rw [h] at hu ⊢
    have hne : ctxsFor c s.cmap tgt ≠ [] := by
      intro h0; simp [h0] at hu
    have hg := ctxsFor_good hI.cm hne
    have hex : (s.th t).exiting = false := hI.not_exiting_of_prog (by simp [hprog])
    have hnil : (s.th t).frames = [] := by
      by_cases h0 : (s.th t).frames = []
      · exact h0
      · exact absurd (hI.body_current ⟨h0, hp, hex⟩) hc
    refine hI.update_same t _ (fun i => rfl) ?_ (by simp [held, hnil]) rfl rfl hI.cm
      (fun o ho => mem_tail hprog ho)
    exact Or.inr (Or.inl ⟨[], _, by simp [hnil], hne, hex, hg, by simp⟩)
  · -- engine step
    rw [h]
    have hex : (s.th t).exiting = false := hI.not_exiting_of_prog (by simp [hprog])
    exact hI.update_same t _ (fun i => rfl) ((hI.ph t).set_prog hex p) rfl rfl rfl hI.cm
      (fun o ho => mem_tail hprog ho)
  · -- callEnd
    rw [h]
    refine hI.update_same t _ (fun i => rfl) ?_ (by simp [held, hf]) rfl rfl hI.cm
      (fun o ho => mem_tail hprog ho)
    cases hex : (s.th t).exiting with
    | true =>
      obtain ⟨f0, l0, r0, b, p0, h1, _, _, _⟩ := (hI.ph t).of_exiting hex
      obtain ⟨_, rfl⟩ : [] = f0 ∧ fs = [] := by simpa [hf] using h1
      exact Or.inl ⟨rfl, hp, rfl⟩
    | false =>
      obtain ⟨k, f0, l0, h1, hg, h2⟩ := (hI.ph t).of_body (by simp [hf]) hp hex
      cases k with
      | zero =>
        obtain ⟨rfl, _⟩ : [] = f0 ∧ fs = [] := by simpa [hf] using h1
        exact absurd h2.symm (by simpa using hg.ne_nil)
      | succ k =>
        have : fs = List.replicate k [] ++ [f0] := by
          simpa [hf, List.replicate_succ] using h1
        exact Or.inr (Or.inr (Or.inl ⟨k, f0, l0, this, hp, rfl, hg, h2⟩))
  · -- exit
    rw [h]
    have hshape : fs = [] ∧ ∃ l0 r0, Good c l0 ∧ (x :: f).reverse ++ r0 = l0 := by
      cases hex : (s.th t).exiting with
      | true =>
        obtain ⟨f0, l0, r0, b, p0, h1, _, hg, h3, _⟩ := (hI.ph t).of_exiting hex
        obtain ⟨rfl, rfl⟩ : x :: f = f0 ∧ fs = [] := by simpa [hf] using h1
        exact ⟨rfl, l0, r0, hg, h3⟩
      | false =>
        obtain ⟨k, f0, l0, h1, hg, h2⟩ := (hI.ph t).of_body (by simp [hf]) hp hex
        cases k with
        | zero =>
          obtain ⟨rfl, rfl⟩ : x :: f = f0 ∧ fs = [] := by simpa [hf] using h1
          exact ⟨rfl, l0, [], hg, by simpa using h2⟩
        | succ k => simp [hf, List.replicate_succ] at h1
    obtain ⟨rfl, l0, r0, hg, hctx⟩ := hshape
    have hheld : held (s.th t) = x :: f := by simp [held, hf]
    have hph : Phase c { s.th t with frames := [f], exiting := true } :=
      Or.inr (Or.inr (Or.inr
        ⟨f, l0, x :: r0, r, p, rfl, hp, rfl, hg, by simpa using hctx, hprog⟩))
    have hown := hI.own t
    have hcnt := hI.cnt t
    have hcur := hI.cur t
    have hic := (hI.ph t).ident_count hwf
    rw [hheld] at hown hcnt hcur hic
    cases x with
    | lock l =>
      have hnm : Ctx.lock l ∉ f := by
        have := hcnt l
        rw [List.count_cons_self] at this
        exact List.count_eq_zero.1 (by omega)
      have hol : s.owner l = t + 1 := (hown l).1 (by simp)
      refine hI.update t _ (fun i => rfl) hph ?_ ?_ ?_ ?_ ?_ hI.cm (fun o ho => ho)
      · intro l'
        by_cases hl : l' = l
        · subst hl; simp [held, exitCtx, hnm]
        · have := hown l'
          simpa [held, exitCtx, hl] using this
      · intro t' l' ht
        by_cases hl : l' = l
        · subst hl; simp [exitCtx, hol]; omega
        · simp [exitCtx, hl]
      · intro l'
        have := hcnt l'
        rw [List.count_cons] at this
        simp only [held, List.flatten_cons, List.flatten_nil, List.append_nil]
        omega
      · simpa [held, exitCtx] using hcur
      · intro t' _; simp [exitCtx]
    | ident =>
      have hnm : Ctx.ident ∉ f := by
        rw [List.count_cons_self] at hic
        exact List.count_eq_zero.1 (by omega)
      have hcu : s.current = t + 1 := hcur.1 (by simp)
      refine hI.update t _ (fun i => rfl) hph ?_ ?_ ?_ ?_ ?_ hI.cm (fun o ho => ho)
      · intro l'; simpa [held, exitCtx] using hown l'
      · intro t' l' _; simp [exitCtx]
      · intro l'
        have := hcnt l'
        rw [List.count_cons] at this
        simp only [held, List.flatten_cons, List.flatten_nil, List.append_nil]
        omega
      · simp [held, exitCtx, hnm]
      · intro t' ht; simp [exitCtx, hcu]; omega
    | user u =>
      refine hI.update t _ (fun i => rfl) hph ?_ ?_ ?_ ?_ ?_ hI.cm (fun o ho => ho)
      · intro l'; simpa [held, exitCtx] using hown l'
      · intro t' l' _; simp [exitCtx]
      · intro l'
        have := hcnt l'
        rw [List.count_cons] at this
        simp only [held, List.flatten_cons, List.flatten_nil, List.append_nil]
        omega
      · simpa [held, exitCtx] using hcur
      · intro t' _; simp [exitCtx]
  · -- add_model
    rw [h]
    have hex : (s.th t).exiting = false := hI.not_exiting_of_prog (by simp [hprog])
    have hx : Ctx.ident ∉ xs := hI.pr t m xs (by simp [hprog])
    exact hI.update_same t _ (fun i => rfl) ((hI.ph t).set_prog hex p) rfl rfl rfl
      (regMap_good hI.cm m hx) (fun o ho => mem_tail hprog ho)
  · -- remove_model
    rw [h]
    have hex : (s.th t).exiting = false := hI.not_exiting_of_prog (by simp [hprog])
    exact hI.update_same t _ (fun i => rfl) ((hI.ph t).set_prog hex p) rfl rfl rfl
      (unregMap_good hI.cm m) (fun o ho => mem_tail hprog ho)
  · -- snapshot
    rw [h]
    have hex : (s.th t).exiting = false := hI.not_exiting_of_prog (by simp [hprog])
    exact hI.update_same t _ (fun i => rfl) ((hI.ph t).set_prog hex p) rfl rfl rfl hI.cm
      (fun o ho => mem_tail hprog ho)

theorem Inv.run {c : Cfg} {L : Nat} (hwf : WF c L) (eng : Nat → Nat → Nat) (σ : List Nat)
    {s : LState} (hI : Inv c s) (hu : (runSched c eng s σ).ung = false) :
    Inv c (runSched c eng s σ) :=
  run_induction c eng (Inv c) (fun _ t h hu' => h.step hwf eng t hu') σ s hI hu

theorem mutex (c : Cfg) (L : Nat) (hwf : WF c L) (eng : Nat → Nat → Nat) (progs : Nat → List Op)
    (hp : ProgOK progs) (ms : Nat) (σ : List Nat) :
    let s := runSched c eng (init c progs ms) σ
    s.ung = false →
    (∀ t t' l, Ctx.lock l ∈ held (s.th t) → Ctx.lock l ∈ held (s.th t') → t = t') ∧
    (∀ t, Ctx.ident ∈ held (s.th t) ↔ s.current = t + 1) ∧
    (∀ t, Ctx.ident ∈ held (s.th t) → Ctx.lock L ∈ held (s.th t)) ∧
    (∀ t l, Ctx.lock l ∈ held (s.th t) ↔ s.owner l = t + 1) := by
  intro s hu
  have hI : Inv c s := Inv.run hwf eng σ (Inv.init hwf progs hp ms) hu
  refine ⟨?_, hI.cur, fun t h => (hI.ph t).ident_lock hwf h, hI.own⟩
  intro t t' l h1 h2
  rw [hI.own] at h1 h2
  omega

/-! ## no overlap -/

theorem noOverlapRun_snoc (L : Nat) (tr : List Ev) (e : Ev) :
    noOverlapRun L (tr ++ [e]) = noOverlapStep L (noOverlapRun L tr) e := by
  simp [noOverlapRun, List.foldl_append]

theorem no_overlap_step {c : Cfg} {L : Nat} (hwf : WF c L) (eng : Nat → Nat → Nat) {s : LState}
    (hI : Inv c s) (hN : noOverlapRun L s.trace = some (s.owner L)) (t : Nat) :
    noOverlapRun L (step c eng s t).trace = some ((step c eng s t).owner L) := by
  rcases step_cases c eng s t with h | ⟨x, r, f, fs, s1, hp, hf, he, h⟩ |
      ⟨tgt, tag, p, hp, hprog, hc, h⟩ | ⟨tgt, tag, p, hp, hprog, hc, h⟩ |
      ⟨a, p, f, fs, hp, hprog, hf, h⟩ | ⟨r, p, fs, hp, hprog, hf, h⟩ |
      ⟨r, p, x, f, fs, hp, hprog, hf, h⟩ | ⟨m, xs, p, f, fs, hp, hprog, hf, h⟩ |
      ⟨m, p, f, fs, hp, hprog, hf, h⟩ | ⟨p, f, fs, hp, hprog, hf, h⟩
  · rw [h]; exact hN
  · rw [h]
    cases x with
    | lock l =>
      have hfree : s.owner l = 0 := by
        by_cases h0 : s.owner l = 0
        · exact h0
        · simp [enterCtx, h0] at he
      have hs1 : s1 = { s with owner := fun i => if i = l then t + 1 else s.owner i } := by
        simpa [enterCtx, hfree] using he.symm
      subst hs1
      simp only [emit_trace, setTh_trace, emit_owner, setTh_owner, noOverlapRun_snoc, hN,
        noOverlapStep]
      by_cases hl : l = L
      · subst hl; simp [hfree]
      · have : ¬ L = l := fun h => hl h.symm
        simp [hl, this]
    | ident =>
      have hs1 : s1 = { s with current := t + 1 } := by simpa [enterCtx] using he.symm
      subst hs1
      simp [noOverlapRun_snoc, hN, noOverlapStep]
    | user u =>
      have hs1 : s1 = s := by simpa [enterCtx] using he.symm
      subst hs1
      simp [noOverlapRun_snoc, hN, noOverlapStep]
  · rw [h]; simp [noOverlapRun_snoc, hN, noOverlapStep]
  · rw [h]; simp [noOverlapRun_snoc, hN, noOverlapStep]
  · rw [h]
    have hex : (s.th t).exiting = false := hI.not_exiting_of_prog (by simp [hprog])
    have := hI.body_owner hwf (t := t) ⟨by simp [hf], hp, hex⟩
    simp [noOverlapRun_snoc, hN, noOverlapStep, this]
  · rw [h]; simp [noOverlapRun_snoc, hN, noOverlapStep]
  · rw [h]
    cases x with
    | lock l =>
      have hol : s.owner l = t + 1 := (hI.own t l).1 (by simp [held, hf])
      simp only [emit_trace, setTh_trace, emit_owner, setTh_owner, noOverlapRun_snoc, hN,
        noOverlapStep, exitCtx]
      by_cases hl : l = L
      · subst hl; simp [hol]
      · have : ¬ L = l := fun h => hl h.symm
        simp [hl, this]
    | ident => simp [noOverlapRun_snoc, hN, noOverlapStep, exitCtx]
    | user u => simp [noOverlapRun_snoc, hN, noOverlapStep, exitCtx]
  · rw [h]; simp [noOverlapRun_snoc, hN, noOverlapStep]
  · rw [h]; simp [noOverlapRun_snoc, hN, noOverlapStep]
  · rw [h]
    have hex : (s.th t).exiting = false := hI.not_exiting_of_prog (by simp [hprog])
    have := hI.body_owner hwf (t := t) ⟨by simp [hf], hp, hex⟩
    simp [noOverlapRun_snoc, hN, noOverlapStep, this]

/-- run induction for a property that is preserved together with `Inv` -/
theorem run_with_inv {c : Cfg} {L : Nat} (hwf : WF c L) (eng : Nat → Nat → Nat) (Q : LState → Prop)
    (hstep : ∀ s t, Inv c s → Q s → (step c eng s t).ung = false → Q (step c eng s t))
    (σ : List Nat) {s : LState} (hI : Inv c s) (hQ : Q s)
    (hu : (runSched c eng s σ).ung = false) : Q (runSched c eng s σ) :=
  (run_induction c eng (fun s => Inv c s ∧ Q s)
    (fun s t h hu' => ⟨h.1.step hwf eng t hu', hstep s t h.1 h.2 hu'⟩) σ s ⟨hI, hQ⟩ hu).2

theorem no_overlap (c : Cfg) (L : Nat) (hwf : WF c L) (eng : Nat → Nat → Nat)
    (progs : Nat → List Op) (hp : ProgOK progs) (ms : Nat) (σ : List Nat) :
    let s := runSched c eng (init c progs ms) σ
    s.ung = false → noOverlap L s.trace = true := by
  intro s hu
  have : noOverlapRun L s.trace = some (s.owner L) :=
    run_with_inv hwf eng (fun s => noOverlapRun L s.trace = some (s.owner L))
      (fun s t hI hN _ => no_overlap_step hwf eng hI hN t) σ (Inv.init hwf progs hp ms)
      (by simp [noOverlapRun, Locked.init]) hu
  simp [noOverlap, this]

/-! ## re-entrant calls -/

theorem reentrant (c : Cfg) (L : Nat) (hwf : WF c L) (eng : Nat → Nat → Nat)
    (progs : Nat → List Op) (hp0 : ProgOK progs) (ms : Nat) (σ : List Nat) (t : Nat) :
    let s := runSched c eng (init c progs ms) σ
    s.ung = false →
    (s.th t).frames ≠ [] → (s.th t).pend = [] → (s.th t).exiting = false →
      s.current = t + 1 ∧ blocked s t = false ∧
      ∀ tgt tag p, (s.th t).prog = .call tgt tag :: p →
        ((step c eng s t).th t).pend = [] ∧ blocked (step c eng s t) t = false ∧
        (step c eng s t).trace = s.trace ++ [.callBegin t tgt tag] := by
  intro s hu hf hp he
  have hI : Inv c s := Inv.run hwf eng σ (Inv.init hwf progs hp0 ms) hu
  have hc : s.current = t + 1 := hI.body_current ⟨hf, hp, he⟩
  refine ⟨hc, by simp [blocked, hp], ?_⟩
  intro tgt tag p hprog
  have hs : step c eng s t =
      emit (setTh s t { s.th t with prog := p, frames := [] :: (s.th t).frames })
        (.callBegin t tgt tag) := by
    unfold step
    simp [hp, hprog, hc]
  rw [hs]
  simp [blocked, hp]

/-! ## snapshots -/

theorem snapshot_frame (c : Cfg) (eng : Nat → Nat → Nat) (s : LState) (t : Nat) (p : List Op)
    (hp : (s.th t).prog = .snap :: p) (hpend : (s.th t).pend = []) (hf : (s.th t).frames ≠ []) :
    let s' := step c eng s t
    s'.current = s.current ∧ s'.owner = s.owner ∧ s'.cmap = s.cmap ∧ s'.mstate = s.mstate ∧
    s'.ung = s.ung ∧ s'.trace = s.trace ++ [.snap t] ∧
    (∀ i, held (s'.th i) = held (s.th i)) ∧ (∀ i, (s'.th i).pend = (s.th i).pend) ∧
    (s'.th t).prog = p := by
  intro s'
  have hs : s' = emit (setTh s t { s.th t with prog := p }) (.snap t) := by
    show step c eng s t = _
    cases hfr : (s.th t).frames with
    | nil => exact absurd hfr hf
    | cons f fs =>
      unfold step
      simp [hpend, hp, hfr]
  rw [hs]
  refine ⟨rfl, rfl, rfl, rfl, rfl, rfl, fun i => ?_, fun i => ?_, by simp⟩
  · by_cases hi : i = t
    · subst hi; simp [held]
    · simp [hi]
  · by_cases hi : i = t
    · subst hi; simp
    · simp [hi]

/-! ## shared writes happen inside the lock window -/

theorem shared_writes_step {c : Cfg} {L : Nat} (hwf : WF c L) (eng : Nat → Nat → Nat) {s : LState}
    (hI : Inv c s) (t : Nat)
    (hd : (step c eng s t).mstate ≠ s.mstate ∨ (step c eng s t).cmap ≠ s.cmap ∨
      (step c eng s t).current ≠ s.current) : s.owner L = t + 1 := by
  rcases step_cases c eng s t with h | ⟨x, r, f, fs, s1, hp, hf, he, h⟩ |
      ⟨tgt, tag, p, hp, hprog, hc, h⟩ | ⟨tgt, tag, p, hp, hprog, hc, h⟩ |
      ⟨a, p, f, fs, hp, hprog, hf, h⟩ | ⟨r, p, fs, hp, hprog, hf, h⟩ |
      ⟨r, p, x, f, fs, hp, hprog, hf, h⟩ | ⟨m, xs, p, f, fs, hp, hprog, hf, h⟩ |
      ⟨m, p, f, fs, hp, hprog, hf, h⟩ | ⟨p, f, fs, hp, hprog, hf, h⟩
  · rw [h] at hd; simp at hd
  · -- enter
    rw [h] at hd
    obtain ⟨_, e2, _, e4, _⟩ := enterCtx_some he
    cases x with
    | lock l =>
      have hfree : s.owner l = 0 := by
        by_cases h0 : s.owner l = 0
        · exact h0
        · simp [enterCtx, h0] at he
      have hs1 : s1 = { s with owner := fun i => if i = l then t + 1 else s.owner i } := by
        simpa [enterCtx, hfree] using he.symm
      subst hs1
      simp at hd
    | user u =>
      have hs1 : s1 = s := by simpa [enterCtx] using he.symm
      subst hs1
      simp at hd
    | ident =>
      obtain ⟨f0, l0, h1, hex, hg, hctx⟩ := (hI.ph t).of_pend hp
      obtain ⟨rfl, rfl⟩ : f = f0 ∧ fs = [] := by simpa [hf] using h1
      have hL : Ctx.lock L ∈ f := by
        have : (f.reverse ++ [Ctx.ident]) ++ r = l0 := by simpa using hctx
        have := hg.prefix_ident_lock hwf this (by simp)
        simpa using this
      exact (hI.own t L).1 (by simpa [held, hf] using hL)
  · rw [h] at hd; simp at hd
  · rw [h] at hd; simp at hd
  · have hex : (s.th t).exiting = false := hI.not_exiting_of_prog (by simp [hprog])
    exact hI.body_owner hwf ⟨by simp [hf], hp, hex⟩
  · rw [h] at hd; simp at hd
  · -- exit
    rw [h] at hd
    cases x with
    | lock l => simp [exitCtx] at hd
    | user u => simp [exitCtx] at hd
    | ident =>
      have hi : Ctx.ident ∈ held (s.th t) := by simp [held, hf]
      exact (hI.own t L).1 ((hI.ph t).ident_lock hwf hi)
  · have hex : (s.th t).exiting = false := hI.not_exiting_of_prog (by simp [hprog])
    exact hI.body_owner hwf ⟨by simp [hf], hp, hex⟩
  · have hex : (s.th t).exiting = false := hI.not_exiting_of_prog (by simp [hprog])
    exact hI.body_owner hwf ⟨by simp [hf], hp, hex⟩
  · rw [h] at hd; simp at hd

theorem shared_writes (c : Cfg) (L : Nat) (hwf : WF c L) (eng : Nat → Nat → Nat)
    (progs : Nat → List Op) (hp : ProgOK progs) (ms : Nat) (σ : List Nat) (t : Nat) :
    let s := runSched c eng (init c progs ms) σ
    let s' := step c eng s t
    s'.ung = false →
    (s'.mstate ≠ s.mstate ∨ s'.cmap ≠ s.cmap ∨ s'.current ≠ s.current) → s.owner L = t + 1 := by
  intro s s' hu hd
  have hI : Inv c s :=
    Inv.run hwf eng σ (Inv.init hwf progs hp ms) (ung_mono c eng s t hu)
  exact shared_writes_step hwf eng hI t hd

/-! ## the context-order monitor -/

/-- the monitor expects exactly the contexts the code enters -/
theorem configured_eq (c : Cfg) (cm : Nat → List Ctx) (tgt : Nat) :
    configured c cm tgt = ctxsFor c cm tgt := by
  cases tgt with
  | zero => rfl
  | succ m =>
    cases hcm : cm m with
    | nil => by_cases hh : c.hsm = true <;> simp [configured, ctxsFor, hcm, hh]
    | cons a b => by_cases hh : c.hsm = true <;> simp [configured, ctxsFor, hcm, hh]

/-- the monitor's state for a thread, read off the thread -/
def monOf (th : Thread) : MonSt :=
  { depth := th.frames.length, pe := th.pend, st := held th, ex := th.exiting }

def CM (c : Cfg) (s : LState) : Prop :=
  ctxMonRun c s.trace = some { th := fun i => monOf (s.th i), cm := s.cmap }

theorem ctxMonRun_snoc (c : Cfg) (tr : List Ev) (e : Ev) :
    ctxMonRun c (tr ++ [e]) = ctxMonStep c (ctxMonRun c tr) e := by
  simp [ctxMonRun, List.foldl_append]

theorem CM.update {c : Cfg} {s s' : LState} (hC : CM c s) (t : Nat) (x : Thread) (e : Ev)
    (htr : s'.trace = s.trace ++ [e]) (hth : ∀ i, s'.th i = if i = t then x else s.th i)
    (ht : e.tid = t) (hs : ctxStep (configured c s.cmap) (monOf (s.th t)) e = some (monOf x))
    (hcm : s'.cmap = cfgStep c s.cmap e) :
    CM c s' := by
  unfold CM at *
  rw [htr, ctxMonRun_snoc, hC]
  subst ht
  simp only [ctxMonStep, hs]
  rw [hcm]
  congr 2
  funext i
  rw [hth]
  split <;> rfl

theorem Inv.exit_shape {c : Cfg} {s : LState} (hI : Inv c s) {t : Nat} {x : Ctx} {f : List Ctx}
    {fs : List (List Ctx)} (hp : (s.th t).pend = []) (hf : (s.th t).frames = (x :: f) :: fs) :
    fs = [] := by
  cases hex : (s.th t).exiting with
  | true =>
    obtain ⟨f0, l0, r0, b, p0, h1, _⟩ := (hI.ph t).of_exiting hex
    obtain ⟨_, rfl⟩ : x :: f = f0 ∧ fs = [] := by simpa [hf] using h1
    rfl
  | false =>
    obtain ⟨k, f0, l0, h1, _⟩ := (hI.ph t).of_body (by simp [hf]) hp hex
    cases k with
    | zero =>
      obtain ⟨_, rfl⟩ : x :: f = f0 ∧ fs = [] := by simpa [hf] using h1
      rfl
    | succ k => simp [hf, List.replicate_succ] at h1

theorem CM.step {c : Cfg}
    (eng : Nat → Nat → Nat) {s : LState} (hI : Inv c s) (hC : CM c s) (t : Nat) :
    CM c (step c eng s t) := by
  rcases step_cases c eng s t with h | ⟨x, r, f, fs, s1, hp, hf, he, h⟩ |
      ⟨tgt, tag, p, hp, hprog, hc, h⟩ | ⟨tgt, tag, p, hp, hprog, hc, h⟩ |
      ⟨a, p, f, fs, hp, hprog, hf, h⟩ | ⟨r, p, fs, hp, hprog, hf, h⟩ |
      ⟨r, p, x, f, fs, hp, hprog, hf, h⟩ | ⟨m, xs, p, f, fs, hp, hprog, hf, h⟩ |
      ⟨m, p, f, fs, hp, hprog, hf, h⟩ | ⟨p, f, fs, hp, hprog, hf, h⟩
  · rw [h]; exact hC
  · rw [h]
    obtain ⟨f0, l0, h1, hex, hg, hctx⟩ := (hI.ph t).of_pend hp
    obtain ⟨rfl, rfl⟩ : f = f0 ∧ fs = [] := by simpa [hf] using h1
    obtain ⟨e1, _, e3, e4, _⟩ := enterCtx_some he
    refine hC.update t _ (.enter t x) (by simp [e3]) (fun i => by rw [emit_th, setTh_th, e1]) rfl
      ?_ (by simp [e4, cfgStep])
    simp [ctxStep, monOf, hp, hf, held]
  · rw [h]
    have hex : (s.th t).exiting = false := hI.not_exiting_of_prog (by simp [hprog])
    have hne : (s.th t).frames ≠ [] := by
      intro h0
      have := (hI.cur t).2 hc
      simp [held_nil h0] at this
    refine hC.update t _ (.callBegin t tgt tag) rfl (fun i => rfl) rfl ?_ rfl
    simp [ctxStep, monOf, hp, hex, hne, held]
  · rw [h]
    have hex : (s.th t).exiting = false := hI.not_exiting_of_prog (by simp [hprog])
    have hnil : (s.th t).frames = [] := by
      by_cases h0 : (s.th t).frames = []
      · exact h0
      · exact absurd (hI.body_current ⟨h0, hp, hex⟩) hc
    refine hC.update t _ (.callBegin t tgt tag) rfl (fun i => rfl) rfl ?_ rfl
    simp [ctxStep, monOf, hex, hnil, held, configured_eq]
  · rw [h]
    have hex : (s.th t).exiting = false := hI.not_exiting_of_prog (by simp [hprog])
    refine hC.update t _ (.cb t a) rfl (fun i => rfl) rfl ?_ rfl
    simp [ctxStep, monOf, hp, hex, hf, held]
  · rw [h]
    refine hC.update t _ (.callEnd t r) rfl (fun i => rfl) rfl ?_ rfl
    cases fs with
    | nil => simp [ctxStep, monOf, hp, hf, held]
    | cons g fs' =>
      have hex : (s.th t).exiting = false := by
        cases hex : (s.th t).exiting with
        | false => rfl
        | true =>
          obtain ⟨f0, l0, r0, b, p0, h1, _⟩ := (hI.ph t).of_exiting hex
          simp [hf] at h1
      simp [ctxStep, monOf, hp, hf, held, hex]
  · rw [h]
    obtain rfl := hI.exit_shape hp hf
    refine hC.update t _ (.exit t x) (by simp) (fun i => by rw [emit_th, setTh_th, exitCtx_th]) rfl
      ?_ (by simp [cfgStep])
    simp [ctxStep, monOf, hp, hf, held]
  · rw [h]
    have hex : (s.th t).exiting = false := hI.not_exiting_of_prog (by simp [hprog])
    refine hC.update t _ (.reg t m xs) rfl (fun i => rfl) rfl ?_ rfl
    simp [ctxStep, monOf, hp, hex, hf, held]
  · rw [h]
    have hex : (s.th t).exiting = false := hI.not_exiting_of_prog (by simp [hprog])
    refine hC.update t _ (.unreg t m) rfl (fun i => rfl) rfl ?_ rfl
    simp [ctxStep, monOf, hp, hex, hf, held]
  · rw [h]
    have hex : (s.th t).exiting = false := hI.not_exiting_of_prog (by simp [hprog])
    refine hC.update t _ (.snap t) rfl (fun i => rfl) rfl ?_ rfl
    simp [ctxStep, monOf, hp, hex, hf, held]

theorem CM.init (c : Cfg) (progs : Nat → List Op) (ms : Nat) : CM c (init c progs ms) := by
  simp [CM, ctxMonRun, Locked.init, monOf, held]

theorem CM.run {c : Cfg} {L : Nat} (hwf : WF c L) (eng : Nat → Nat → Nat) (progs : Nat → List Op)
    (hp : ProgOK progs) (ms : Nat) (σ : List Nat)
    (hu : (runSched c eng (Locked.init c progs ms) σ).ung = false) :
    CM c (runSched c eng (Locked.init c progs ms) σ) :=
  run_with_inv hwf eng (CM c) (fun _ t hI hC _ => hC.step eng hI t) σ (Inv.init hwf progs hp ms)
    (CM.init c progs ms) hu

theorem contexts_held (c : Cfg) (L : Nat) (hwf : WF c L) (eng : Nat → Nat → Nat)
    (progs : Nat → List Op) (hp : ProgOK progs) (ms : Nat) (σ : List Nat) :
    let s := runSched c eng (init c progs ms) σ
    s.ung = false → contextsOrder c s.trace = true := by
  intro s hu
  have := CM.run hwf eng progs hp ms σ hu
  unfold CM at this
  simp [contextsOrder, s, this]

theorem registered (c : Cfg) (L : Nat) (hwf : WF c L) (eng : Nat → Nat → Nat)
    (progs : Nat → List Op) (hp : ProgOK progs) (ms : Nat) (σ : List Nat) :
    let s := runSched c eng (init c progs ms) σ
    s.ung = false →
    (∃ f, ctxMonRun c s.trace = some f ∧ f.cm = s.cmap) ∧
    ∀ m, s.cmap m = [] ∨ ∃ xs, s.cmap m = c.mctx ++ xs ∧ Ctx.ident ∉ xs := by
  intro s hu
  have hI : Inv c s := Inv.run hwf eng σ (Inv.init hwf progs hp ms) hu
  have hC : CM c s := CM.run hwf eng progs hp ms σ hu
  refine ⟨⟨_, hC, rfl⟩, fun m => ?_⟩
  rcases hI.cm m with h | ⟨xs, h1, h2⟩
  · exact Or.inl h
  · exact Or.inr ⟨xs, by simp [h1, Cfg.mctx], h2⟩

theorem released (c : Cfg) (L : Nat) (hwf : WF c L) (eng : Nat → Nat → Nat)
    (progs : Nat → List Op) (hp : ProgOK progs) (ms : Nat) (σ : List Nat) (t : Nat) :
    let s := runSched c eng (init c progs ms) σ
    s.ung = false →
    (s.th t).frames = [] →
      s.current ≠ t + 1 ∧ (∀ l, s.owner l ≠ t + 1) ∧
      ∃ f, ctxMonRun c s.trace = some f ∧ f.th t = {} := by
  intro s hu hf
  have hI : Inv c s := Inv.run hwf eng σ (Inv.init hwf progs hp ms) hu
  have hC : CM c s := CM.run hwf eng progs hp ms σ hu
  refine ⟨?_, ?_, _, hC, ?_⟩
  · intro hh
    have := (hI.cur t).2 hh
    simp [held_nil hf] at this
  · intro l hh
    have := (hI.own t l).2 hh
    simp [held_nil hf] at this
  · obtain ⟨h1, h2⟩ := (hI.ph t).of_nil hf
    simp [monOf, hf, h1, h2, held]

/-! ## serializability -/

theorem cbLog_append (a b : List Ev) : cbLog (a ++ b) = cbLog a ++ cbLog b := by
  induction a with
  | nil => rfl
  | cons e a ih => cases e <;> simp [cbLog, ih]

theorem runOps_call (eng : Nat → Nat → Nat) (t d a b : Nat) (p : List Op) (ms : Nat)
    (log : List (Nat × Nat)) :
    runOps eng t d (.call a b :: p) ms log = runOps eng t (d + 1) p ms log := by
  simp [runOps]

theorem runOps_cb (eng : Nat → Nat → Nat) (t d a : Nat) (p : List Op) (ms : Nat)
    (log : List (Nat × Nat)) :
    runOps eng t (d + 1) (.cb a :: p) ms log =
      runOps eng t (d + 1) p (eng a ms) (log ++ [(t, a)]) := by
  simp [runOps]

theorem runOps_ret1 (eng : Nat → Nat → Nat) (t : Nat) (b : Bool) (p : List Op) (ms : Nat)
    (log : List (Nat × Nat)) :
    runOps eng t 1 (.ret b :: p) ms log = (ms, log, p) := by
  simp [runOps]

theorem runOps_ret2 (eng : Nat → Nat → Nat) (t d : Nat) (b : Bool) (p : List Op) (ms : Nat)
    (log : List (Nat × Nat)) :
    runOps eng t (d + 2) (.ret b :: p) ms log = runOps eng t (d + 1) p ms log := by
  simp [runOps]

theorem runOps_reg (eng : Nat → Nat → Nat) (t d m : Nat) (xs : List Ctx) (p : List Op) (ms : Nat)
    (log : List (Nat × Nat)) :
    runOps eng t (d + 1) (.reg m xs :: p) ms log = runOps eng t (d + 1) p ms log := by
  simp [runOps]

theorem runOps_snap (eng : Nat → Nat → Nat) (t d : Nat) (p : List Op) (ms : Nat)
    (log : List (Nat × Nat)) :
    runOps eng t (d + 1) (.snap :: p) ms log = runOps eng t (d + 1) p ms log := by
  simp [runOps]

theorem runOps_unreg (eng : Nat → Nat → Nat) (t d m : Nat) (p : List Op) (ms : Nat)
    (log : List (Nat × Nat)) :
    runOps eng t (d + 1) (.unreg m :: p) ms log = runOps eng t (d + 1) p ms log := by
  simp [runOps]

/-- thread `t` (state `th`, in a run with machine state `ms` and engine log `log`) against the
serial execution `q` -/
def SRelT (eng : Nat → Nat → Nat) (t : Nat) (th : Thread) (ms : Nat) (log : List (Nat × Nat))
    (q : Seq) : Prop :=
  (th.frames = [] → q.progs t = th.prog) ∧
  (th.pend ≠ [] → ∃ tgt tag, q.progs t = .call tgt tag :: th.prog) ∧
  (th.exiting = true → ∃ b, th.prog = .ret b :: q.progs t) ∧
  (inBody th → runOps eng t 0 (q.progs t) q.ms q.log =
    runOps eng t th.frames.length th.prog ms log)

def SGlob (s : LState) (q : Seq) : Prop :=
  (∀ i, ¬ inBody (s.th i)) → q.ms = s.mstate ∧ q.log = cbLog s.trace

def SInv (eng : Nat → Nat → Nat) (progs : Nat → List Op) (ms : Nat) (s : LState) : Prop :=
  ∃ order : List Nat,
    (∀ t, SRelT eng t (s.th t) s.mstate (cbLog s.trace) (seqRun eng progs ms order)) ∧
    SGlob s (seqRun eng progs ms order)

theorem SInv.init (c : Cfg) (eng : Nat → Nat → Nat) (progs : Nat → List Op) (ms : Nat) :
    SInv eng progs ms (Locked.init c progs ms) := by
  refine ⟨[], fun t => ⟨fun _ => rfl, ?_, ?_, ?_⟩, fun _ => ⟨rfl, rfl⟩⟩
  · intro h; exact absurd rfl h
  · intro h; simp [Locked.init] at h
  · intro h; exact absurd rfl h.1

/-- a step of thread `t` that is not a commit point: the serial order stays -/
theorem SInv.keep {eng : Nat → Nat → Nat} {progs : Nat → List Op} {ms : Nat} {s s' : LState}
    (hS : SInv eng progs ms s) (t : Nat) (x : Thread)
    (hth : ∀ i, s'.th i = if i = t then x else s.th i)
    (hrel : ∀ q, SRelT eng t (s.th t) s.mstate (cbLog s.trace) q → SGlob s q →
      SRelT eng t x s'.mstate (cbLog s'.trace) q)
    (hoth : ∀ i, i ≠ t → inBody (s.th i) →
      s'.mstate = s.mstate ∧ cbLog s'.trace = cbLog s.trace)
    (hglob : ¬ inBody x →
      ¬ inBody (s.th t) ∧ s'.mstate = s.mstate ∧ cbLog s'.trace = cbLog s.trace) :
    SInv eng progs ms s' := by
  obtain ⟨order, hr, hg⟩ := hS
  refine ⟨order, ?_, ?_⟩
  · intro i
    rw [hth]
    split
    · rename_i h; subst h; exact hrel _ (hr i) hg
    · rename_i h
      obtain ⟨r1, r2, r3, r4⟩ := hr i
      refine ⟨r1, r2, r3, fun hb => ?_⟩
      obtain ⟨e1, e2⟩ := hoth i h hb
      rw [e1, e2]; exact r4 hb
  · intro hn
    have hx : ¬ inBody x := by have := hn t; rwa [hth, if_pos rfl] at this
    obtain ⟨h1, h2, h3⟩ := hglob hx
    rw [h2, h3]
    apply hg
    intro i
    by_cases h : i = t
    · subst h; exact h1
    · have := hn i; rwa [hth, if_neg h] at this

theorem unique_after {c : Cfg} {L : Nat} (hwf : WF c L) {s s' : LState} (hI' : Inv c s') (t : Nat)
    (x : Thread) (hth : ∀ i, s'.th i = if i = t then x else s.th i) (hb : inBody x) :
    ∀ i, i ≠ t → ¬ inBody (s.th i) := by
  intro i hne hbi
  have h1 : inBody (s'.th i) := by rw [hth, if_neg hne]; exact hbi
  have h2 : inBody (s'.th t) := by rw [hth, if_pos rfl]; exact hb
  exact hne (hI'.body_unique hwf h1 h2)

theorem SInv.step {c : Cfg} {L : Nat} (hwf : WF c L) (eng : Nat → Nat → Nat)
    (progs : Nat → List Op) (ms : Nat) {s : LState} (hI : Inv c s) (hS : SInv eng progs ms s)
    (t : Nat) (hu : (step c eng s t).ung = false) : SInv eng progs ms (step c eng s t) := by
  have hI' := hI.step hwf eng t hu
  rcases step_cases c eng s t with h | ⟨x, r, f, fs, s1, hp, hf, he, h⟩ |
      ⟨tgt, tag, p, hp, hprog, hc, h⟩ | ⟨tgt, tag, p, hp, hprog, hc, h⟩ |
      ⟨a, p, f, fs, hp, hprog, hf, h⟩ | ⟨r, p, fs, hp, hprog, hf, h⟩ |
      ⟨r, p, x, f, fs, hp, hprog, hf, h⟩ | ⟨m, xs, p, f, fs, hp, hprog, hf, h⟩ |
      ⟨m, p, f, fs, hp, hprog, hf, h⟩ | ⟨p, f, fs, hp, hprog, hf, h⟩
  · rw [h]; exact hS
  · -- enter
    rw [h] at hI' ⊢
    obtain ⟨f0, l0, h1, hex, hg, hctx⟩ := (hI.ph t).of_pend hp
    obtain ⟨rfl, rfl⟩ : f = f0 ∧ fs = [] := by simpa [hf] using h1
    obtain ⟨e1, e2, e3, _, _⟩ := enterCtx_some he
    have hth : ∀ i, (emit (setTh s1 t { s.th t with pend := r, frames := [x :: f] })
        (.enter t x)).th i =
        if i = t then { s.th t with pend := r, frames := [x :: f] } else s.th i := by
      intro i; rw [emit_th, setTh_th, e1]
    have hms : (emit (setTh s1 t { s.th t with pend := r, frames := [x :: f] })
        (.enter t x)).mstate = s.mstate := by simp [e2]
    have hlog : cbLog (emit (setTh s1 t { s.th t with pend := r, frames := [x :: f] })
        (.enter t x)).trace = cbLog s.trace := by simp [e3, cbLog_append, cbLog]
    have hnb : ¬ inBody (s.th t) := fun hb => by simp [hb.2.1] at hp
    refine hS.keep t _ hth ?_ (fun _ _ _ => ⟨hms, hlog⟩) (fun _ => ⟨hnb, hms, hlog⟩)
    intro q hr hg
    rw [hms, hlog]
    obtain ⟨tgt', tag', hq⟩ := hr.2.1 (by simp [hp])
    refine ⟨fun h0 => by simp at h0, fun _ => ⟨tgt', tag', hq⟩, fun h0 => ?_, fun hb => ?_⟩
    · simp [hex] at h0
    · have hn : ∀ i, ¬ inBody (s.th i) := by
        intro i
        by_cases hi : i = t
        · subst hi; exact hnb
        · exact unique_after hwf hI' t _ hth hb i hi
      obtain ⟨g1, g2⟩ := hg hn
      rw [hq, runOps_call, g1, g2]
      rfl
  · -- re-entrant call
    rw [h]
    have hex : (s.th t).exiting = false := hI.not_exiting_of_prog (by simp [hprog])
    have hne : (s.th t).frames ≠ [] := by
      intro h0
      have := (hI.cur t).2 hc
      simp [held_nil h0] at this
    have hlog : cbLog (s.trace ++ [Ev.callBegin t tgt tag]) = cbLog s.trace := by
      simp [cbLog_append, cbLog]
    refine hS.keep t _ (fun i => rfl) ?_ (fun _ _ _ => ⟨rfl, hlog⟩) (fun hn => ?_)
    · intro q hr hg
      refine ⟨fun h0 => by simp at h0, fun h0 => absurd hp h0, fun h0 => ?_, fun _ => ?_⟩
      · simp [hex] at h0
      · have := hr.2.2.2 ⟨hne, hp, hex⟩
        rw [hprog, runOps_call] at this
        simpa [hlog] using this
    · exact absurd ⟨by simp, hp, hex⟩ hn
  · -- outermost call
    rw [h] at hu ⊢
    have hne : ctxsFor c s.cmap tgt ≠ [] := by
      intro h0; simp [h0] at hu
    have hex : (s.th t).exiting = false := hI.not_exiting_of_prog (by simp [hprog])
    have hnil : (s.th t).frames = [] := by
      by_cases h0 : (s.th t).frames = []
      · exact h0
      · exact absurd (hI.body_current ⟨h0, hp, hex⟩) hc
    have hlog : cbLog (s.trace ++ [Ev.callBegin t tgt tag]) = cbLog s.trace := by
      simp [cbLog_append, cbLog]
    have hnb : ¬ inBody (s.th t) := fun hb => hb.1 hnil
    refine hS.keep t _ (fun i => rfl) ?_ (fun _ _ _ => ⟨rfl, hlog⟩) (fun _ => ⟨hnb, rfl, hlog⟩)
    intro q hr hg
    refine ⟨fun h0 => by simp at h0, fun _ => ⟨tgt, tag, ?_⟩, fun h0 => ?_, fun hb => ?_⟩
    · rw [hr.1 hnil, hprog]
    · simp [hex] at h0
    · exact absurd hb.2.1 hne
  · -- engine step
    rw [h]
    have hex : (s.th t).exiting = false := hI.not_exiting_of_prog (by simp [hprog])
    have hb : inBody (s.th t) := ⟨by simp [hf], hp, hex⟩
    have hb' : inBody { s.th t with prog := p } := hb
    refine hS.keep t _ (fun i => rfl) ?_
      (fun i hi hbi => absurd (hI.body_unique hwf hbi hb) hi) (fun hn => absurd hb' hn)
    intro q hr hg
    refine ⟨fun h0 => absurd h0 hb.1, fun h0 => absurd hp h0, fun h0 => ?_, fun _ => ?_⟩
    · simp [hex] at h0
    · have := hr.2.2.2 hb
      rw [hprog, hf, List.length_cons, runOps_cb] at this
      simpa [cbLog_append, cbLog, hf] using this
  · -- callEnd
    rw [h]
    have hlog : cbLog (s.trace ++ [Ev.callEnd t r]) = cbLog s.trace := by
      simp [cbLog_append, cbLog]
    cases hex : (s.th t).exiting with
    | true =>
      obtain ⟨f0, l0, r0, b, p0, h1, _, _, _, _⟩ := (hI.ph t).of_exiting hex
      obtain ⟨_, rfl⟩ : [] = f0 ∧ fs = [] := by simpa [hf] using h1
      have hnb : ¬ inBody (s.th t) := fun hb => by simp [hb.2.2] at hex
      refine hS.keep t _ (fun i => rfl) ?_ (fun _ _ _ => ⟨rfl, hlog⟩)
        (fun _ => ⟨hnb, rfl, hlog⟩)
      intro q hr hg
      refine ⟨fun _ => ?_, fun h0 => absurd hp h0, fun h0 => by simp at h0,
        fun hb => absurd rfl hb.1⟩
      obtain ⟨b', hb'⟩ := hr.2.2.1 hex
      rw [hprog] at hb'
      simp at hb'
      exact hb'.2.symm
    | false =>
      have hb : inBody (s.th t) := ⟨by simp [hf], hp, hex⟩
      obtain ⟨k, f0, l0, h1, hg, h2⟩ := (hI.ph t).of_body hb.1 hp hex
      cases k with
      | zero =>
        obtain ⟨rfl, _⟩ : [] = f0 ∧ fs = [] := by simpa [hf] using h1
        exact absurd h2.symm (by simpa using hg.ne_nil)
      | succ k =>
        have hfs : fs = List.replicate k [] ++ [f0] := by
          simpa [hf, List.replicate_succ] using h1
        have hlen : fs.length = k + 1 := by simp [hfs]
        have hfs0 : fs ≠ [] := by intro h0; simp [h0] at hlen
        refine hS.keep t _ (fun i => rfl) ?_ (fun _ _ _ => ⟨rfl, hlog⟩) (fun hn => ?_)
        · intro q hr hg
          refine ⟨fun h0 => absurd h0 hfs0, fun h0 => absurd hp h0, fun h0 => by simp at h0,
            fun _ => ?_⟩
          have := hr.2.2.2 hb
          rw [hprog, hf, List.length_cons, hlen, runOps_ret2] at this
          simpa [hlog, hlen] using this
        · exact absurd ⟨hfs0, hp, rfl⟩ hn
  · -- exit
    rw [h]
    obtain rfl := hI.exit_shape hp hf
    have hlog : cbLog (s.trace ++ [Ev.exit t x]) = cbLog s.trace := by
      simp [cbLog_append, cbLog]
    have hth : ∀ i, (emit (setTh (exitCtx s x) t { s.th t with frames := [f], exiting := true })
        (.exit t x)).th i =
        if i = t then { s.th t with frames := [f], exiting := true } else s.th i := by
      intro i; rw [emit_th, setTh_th, exitCtx_th]
    have hms : (emit (setTh (exitCtx s x) t { s.th t with frames := [f], exiting := true })
        (.exit t x)).mstate = s.mstate := by simp
    have hlog' : cbLog (emit (setTh (exitCtx s x) t { s.th t with frames := [f], exiting := true })
        (.exit t x)).trace = cbLog s.trace := by simpa using hlog
    cases hex : (s.th t).exiting with
    | true =>
      have hnb : ¬ inBody (s.th t) := fun hb => by simp [hb.2.2] at hex
      refine hS.keep t _ hth ?_ (fun _ _ _ => ⟨hms, hlog'⟩) (fun _ => ⟨hnb, hms, hlog'⟩)
      intro q hr hg
      exact ⟨fun h0 => by simp at h0, fun h0 => absurd hp h0, fun _ => hr.2.2.1 hex,
        fun hb => by have := hb.2.2; simp at this⟩
    | false =>
      -- the commit point: `t` is appended to the serial order
      have hb : inBody (s.th t) := ⟨by simp [hf], hp, hex⟩
      obtain ⟨order, hr, hg⟩ := hS
      have hrun := (hr t).2.2.2 hb
      rw [hprog, hf] at hrun
      simp only [List.length_cons, List.length_nil, Nat.zero_add, runOps_ret1] at hrun
      have hq : seqRun eng progs ms (order ++ [t]) =
          { progs := fun i => if i = t then p else (seqRun eng progs ms order).progs i,
            ms := s.mstate, log := cbLog s.trace } := by
        simp only [seqRun, List.foldl_append, List.foldl_cons, List.foldl_nil, seqCall]
        simp only [seqRun] at hrun
        rw [hrun]
      refine ⟨order ++ [t], ?_, fun _ => ?_⟩
      · intro i
        rw [hq, hth]
        split
        · rename_i hi; subst hi
          exact ⟨fun h0 => by simp at h0, fun h0 => absurd hp h0, fun _ => ⟨r, by simp [hprog]⟩,
            fun hb => by have := hb.2.2; simp at this⟩
        · rename_i hi
          obtain ⟨r1, r2, r3, r4⟩ := hr i
          refine ⟨?_, ?_, ?_, fun hbi => absurd (hI.body_unique hwf hbi hb) hi⟩
          · simpa [hi] using r1
          · simpa [hi] using r2
          · simpa [hi] using r3
      · rw [hq, hms, hlog']
        exact ⟨rfl, rfl⟩

  · -- add_model
    rw [h]
    have hex : (s.th t).exiting = false := hI.not_exiting_of_prog (by simp [hprog])
    have hb : inBody (s.th t) := ⟨by simp [hf], hp, hex⟩
    have hb' : inBody { s.th t with prog := p } := hb
    have hlog : cbLog (s.trace ++ [Ev.reg t m xs]) = cbLog s.trace := by
      simp [cbLog_append, cbLog]
    refine hS.keep t _ (fun i => rfl) ?_ (fun _ _ _ => ⟨rfl, hlog⟩) (fun hn => absurd hb' hn)
    intro q hr hg
    refine ⟨fun h0 => absurd h0 hb.1, fun h0 => absurd hp h0, fun h0 => ?_, fun _ => ?_⟩
    · simp [hex] at h0
    · have := hr.2.2.2 hb
      rw [hprog, hf, List.length_cons, runOps_reg] at this
      simpa [hlog, hf] using this
  · -- remove_model
    rw [h]
    have hex : (s.th t).exiting = false := hI.not_exiting_of_prog (by simp [hprog])
    have hb : inBody (s.th t) := ⟨by simp [hf], hp, hex⟩
    have hb' : inBody { s.th t with prog := p } := hb
    have hlog : cbLog (s.trace ++ [Ev.unreg t m]) = cbLog s.trace := by
      simp [cbLog_append, cbLog]
    refine hS.keep t _ (fun i => rfl) ?_ (fun _ _ _ => ⟨rfl, hlog⟩) (fun hn => absurd hb' hn)
    intro q hr hg
    refine ⟨fun h0 => absurd h0 hb.1, fun h0 => absurd hp h0, fun h0 => ?_, fun _ => ?_⟩
    · simp [hex] at h0
    · have := hr.2.2.2 hb
      rw [hprog, hf, List.length_cons, runOps_unreg] at this
      simpa [hlog, hf] using this
  · -- snapshot
    rw [h]
    have hex : (s.th t).exiting = false := hI.not_exiting_of_prog (by simp [hprog])
    have hb : inBody (s.th t) := ⟨by simp [hf], hp, hex⟩
    have hb' : inBody { s.th t with prog := p } := hb
    have hlog : cbLog (s.trace ++ [Ev.snap t]) = cbLog s.trace := by
      simp [cbLog_append, cbLog]
    refine hS.keep t _ (fun i => rfl) ?_ (fun _ _ _ => ⟨rfl, hlog⟩) (fun hn => absurd hb' hn)
    intro q hr hg
    refine ⟨fun h0 => absurd h0 hb.1, fun h0 => absurd hp h0, fun h0 => ?_, fun _ => ?_⟩
    · simp [hex] at h0
    · have := hr.2.2.2 hb
      rw [hprog, hf, List.length_cons, runOps_snap] at this
      simpa [hlog, hf] using this

theorem serializable (c : Cfg) (L : Nat) (hwf : WF c L) (eng : Nat → Nat → Nat)
    (progs : Nat → List Op) (hp : ProgOK progs) (ms : Nat) (σ : List Nat) :
    let s := runSched c eng (init c progs ms) σ
    s.ung = false →
    ∃ order : List Nat,
      let q := seqRun eng progs ms order
      (∀ t, (s.th t).frames = [] → q.progs t = (s.th t).prog) ∧
      ((∀ t, (s.th t).frames = [] ∨ (s.th t).pend ≠ [] ∨ (s.th t).exiting = true) →
        q.ms = s.mstate ∧ q.log = cbLog s.trace) := by
  intro s hu
  obtain ⟨order, hr, hg⟩ : SInv eng progs ms s :=
    run_with_inv hwf eng (SInv eng progs ms)
      (fun _ t hI hS hu' => hS.step hwf eng progs ms hI t hu') σ (Inv.init hwf progs hp ms)
      (SInv.init c eng progs ms) hu
  refine ⟨order, fun t => (hr t).1, fun hn => hg ?_⟩
  intro i hb
  rcases hn i with h | h | h
  · exact hb.1 h
  · exact h hb.2.1
  · rw [hb.2.2] at h; exact absurd h (by simp)

/-! ## lock cells exist before any thread runs -/

theorem locks_allocated (c : Cfg) (progs : Nat → List Op) (ms : Nat) (l : Nat) :
    (init c progs ms).owner l = 0 ∧ (init c progs ms).current = 0 := ⟨rfl, rfl⟩

theorem enter_lock_same_cell {s s' : LState} {t l : Nat} (h : enterCtx s t (.lock l) = some s') :
    s.owner l = 0 ∧ s'.owner l = t + 1 ∧ ∀ l', l' ≠ l → s'.owner l' = s.owner l' := by
  simp only [enterCtx] at h
  by_cases h0 : s.owner l = 0
  · simp only [h0, if_true, Option.some.injEq] at h
    subst h
    exact ⟨h0, by simp, fun l' hl => by simp [hl]⟩
  · simp [h0] at h

end C06P
end Locked
end TM
