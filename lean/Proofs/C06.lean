/-
  Proofs/C06.lean — proofs for property C06 over the locking model `Model/Locked.lean`.

  One inductive invariant `Inv` (per-thread phase + ownership clauses), preserved by every `step`;
  on top of it: the `noOverlap` monitor state, the context-order monitor state, and the
  serialization relation with the sequential reference semantics.
-/
import Model.Locked

namespace TM
namespace Locked
namespace C06P

/-! ## projections of the state updates -/

@[simp] theorem emit_th (s : LState) (e : Ev) : (emit s e).th = s.th := rfl
@[simp] theorem emit_owner (s : LState) (e : Ev) : (emit s e).owner = s.owner := rfl
@[simp] theorem emit_current (s : LState) (e : Ev) : (emit s e).current = s.current := rfl
@[simp] theorem emit_mstate (s : LState) (e : Ev) : (emit s e).mstate = s.mstate := rfl
@[simp] theorem emit_trace (s : LState) (e : Ev) : (emit s e).trace = s.trace ++ [e] := rfl
@[simp] theorem setTh_th (s : LState) (t : Nat) (x : Thread) (i : Nat) :
    (setTh s t x).th i = if i = t then x else s.th i := rfl
@[simp] theorem setTh_owner (s : LState) (t : Nat) (x : Thread) : (setTh s t x).owner = s.owner := rfl
@[simp] theorem setTh_current (s : LState) (t : Nat) (x : Thread) : (setTh s t x).current = s.current := rfl
@[simp] theorem setTh_mstate (s : LState) (t : Nat) (x : Thread) : (setTh s t x).mstate = s.mstate := rfl
@[simp] theorem setTh_trace (s : LState) (t : Nat) (x : Thread) : (setTh s t x).trace = s.trace := rfl

@[simp] theorem exitCtx_th (s : LState) (x : Ctx) : (exitCtx s x).th = s.th := by cases x <;> rfl
@[simp] theorem exitCtx_mstate (s : LState) (x : Ctx) : (exitCtx s x).mstate = s.mstate := by
  cases x <;> rfl
@[simp] theorem exitCtx_trace (s : LState) (x : Ctx) : (exitCtx s x).trace = s.trace := by
  cases x <;> rfl

theorem enterCtx_some {s s' : LState} {t : Nat} {x : Ctx} (h : enterCtx s t x = some s') :
    s'.th = s.th ∧ s'.mstate = s.mstate ∧ s'.trace = s.trace := by
  cases x with
  | lock l =>
    by_cases h0 : s.owner l = 0
    · simp [enterCtx, h0] at h; subst h; exact ⟨rfl, rfl, rfl⟩
    · simp [enterCtx, h0] at h
  | ident => simp [enterCtx] at h; subst h; exact ⟨rfl, rfl, rfl⟩
  | user u => simp [enterCtx] at h; subst h; exact ⟨rfl, rfl, rfl⟩

/-! ## the cases of `step` -/

theorem step_cases (c : Cfg) (eng : Nat → Nat → Nat) (s : LState) (t : Nat) :
    step c eng s t = s ∨
    (∃ x r f fs s', (s.th t).pend = x :: r ∧ (s.th t).frames = f :: fs ∧ enterCtx s t x = some s' ∧
      step c eng s t =
        emit (setTh s' t { s.th t with pend := r, frames := (x :: f) :: fs }) (.enter t x)) ∨
    (∃ tgt tag p, (s.th t).pend = [] ∧ (s.th t).prog = .call tgt tag :: p ∧ s.current = t + 1 ∧
      step c eng s t =
        emit (setTh s t { s.th t with prog := p, frames := [] :: (s.th t).frames })
          (.callBegin t tgt tag)) ∨
    (∃ tgt tag p, (s.th t).pend = [] ∧ (s.th t).prog = .call tgt tag :: p ∧ s.current ≠ t + 1 ∧
      step c eng s t =
        emit (setTh s t { s.th t with prog := p, frames := [] :: (s.th t).frames,
                                      pend := ctxsFor c tgt }) (.callBegin t tgt tag)) ∨
    (∃ a p f fs, (s.th t).pend = [] ∧ (s.th t).prog = .cb a :: p ∧ (s.th t).frames = f :: fs ∧
      step c eng s t =
        emit (setTh { s with mstate := eng a s.mstate } t { s.th t with prog := p }) (.cb t a)) ∨
    (∃ r p fs, (s.th t).pend = [] ∧ (s.th t).prog = .ret r :: p ∧ (s.th t).frames = [] :: fs ∧
      step c eng s t =
        emit (setTh s t { s.th t with prog := p, frames := fs, exiting := false }) (.callEnd t r)) ∨
    (∃ r p x f fs, (s.th t).pend = [] ∧ (s.th t).prog = .ret r :: p ∧
      (s.th t).frames = (x :: f) :: fs ∧
      step c eng s t =
        emit (setTh (exitCtx s x) t { s.th t with frames := f :: fs, exiting := true })
          (.exit t x)) := by
  unfold step
  simp only []
  split
  · rename_i x r hp
    split
    · exact Or.inl rfl
    · rename_i s' he
      split
      · exact Or.inl rfl
      · rename_i f fs hf
        exact Or.inr (Or.inl ⟨x, r, f, fs, s', hp, hf, he, rfl⟩)
  · rename_i hp
    split
    · exact Or.inl rfl
    · rename_i tgt tag p hprog
      split
      · rename_i hc
        exact Or.inr (Or.inr (Or.inl ⟨tgt, tag, p, hp, hprog, hc, rfl⟩))
      · rename_i hc
        exact Or.inr (Or.inr (Or.inr (Or.inl ⟨tgt, tag, p, hp, hprog, hc, rfl⟩)))
    · rename_i a p hprog
      split
      · exact Or.inl rfl
      · rename_i f fs hf
        exact Or.inr (Or.inr (Or.inr (Or.inr (Or.inl ⟨a, p, f, fs, hp, hprog, hf, rfl⟩))))
    · rename_i r p hprog
      split
      · exact Or.inl rfl
      · rename_i fs hf
        exact Or.inr (Or.inr (Or.inr (Or.inr (Or.inr (Or.inl ⟨r, p, fs, hp, hprog, hf, rfl⟩)))))
      · rename_i x f fs hf
        exact Or.inr (Or.inr (Or.inr (Or.inr (Or.inr (Or.inr ⟨r, p, x, f, fs, hp, hprog, hf, rfl⟩)))))

/-! ## the contexts of a call -/

theorem alookupD_cases (m : Nat) (l : List (Nat × List Ctx)) :
    alookupD m l = [] ∨ ∃ p ∈ l, alookupD m l = p.2 := by
  induction l with
  | nil => exact Or.inl rfl
  | cons a l ih =>
    obtain ⟨k, v⟩ := a
    unfold alookupD
    split
    · exact Or.inr ⟨(k, v), by simp, rfl⟩
    · rcases ih with h | ⟨p, hp, h⟩
      · exact Or.inl h
      · exact Or.inr ⟨p, by simp [hp], h⟩

theorem ctxs_shape {c : Cfg} {L : Nat} (hwf : WF c L) (tgt : Nat) :
    ∃ xs, ctxsFor c tgt = c.mbase ++ Ctx.ident :: xs ∧ Ctx.ident ∉ xs := by
  have hnil : ctxsFor c tgt = c.mbase ++ Ctx.ident :: [] ∨
      ∃ m, ctxsFor c tgt = c.mbase ++ Ctx.ident :: alookupD m c.extra := by
    cases tgt with
    | zero => left; simp [ctxsFor, Cfg.mctx]
    | succ m =>
      by_cases h : c.hsm = true
      · left; simp [ctxsFor, Cfg.mctx, h]
      · right; exact ⟨m, by simp [ctxsFor, Cfg.mctx, Cfg.cmap, h]⟩
  rcases hnil with h | ⟨m, h⟩
  · exact ⟨[], h, by simp⟩
  · refine ⟨_, h, ?_⟩
    rcases alookupD_cases m c.extra with h0 | ⟨p, hp, h0⟩
    · simp [h0]
    · rw [h0]; exact hwf.2.2 p hp

theorem ident_not_mbase {c : Cfg} {L : Nat} (hwf : WF c L) : Ctx.ident ∉ c.mbase := by
  unfold Cfg.mbase
  split
  · simp
  · exact hwf.2.1

theorem ctxs_ident (c : Cfg) (tgt : Nat) : Ctx.ident ∈ ctxsFor c tgt := by
  cases tgt with
  | zero => simp [ctxsFor, Cfg.mctx]
  | succ m =>
    by_cases h : c.hsm = true <;> simp [ctxsFor, Cfg.mctx, Cfg.cmap, h]

theorem ctxs_ne_nil (c : Cfg) (tgt : Nat) : ctxsFor c tgt ≠ [] := by
  intro h; have := ctxs_ident c tgt; simp [h] at this

/-- the machine lock precedes ident in every prefix -/
theorem prefix_ident_lock {c : Cfg} {L : Nat} (hwf : WF c L) {a b : List Ctx} {tgt : Nat}
    (h : a ++ b = ctxsFor c tgt) (hi : Ctx.ident ∈ a) : Ctx.lock L ∈ a := by
  obtain ⟨xs, hs, _⟩ := ctxs_shape hwf tgt
  rw [hs, List.append_eq_append_iff] at h
  rcases h with ⟨a', h1, _⟩ | ⟨c', h1, _⟩
  · exfalso; apply ident_not_mbase hwf; rw [h1]; simp [hi]
  · rw [h1]; simp [hwf.1]

theorem ctxs_count_ident {c : Cfg} {L : Nat} (hwf : WF c L) (tgt : Nat) :
    (ctxsFor c tgt).count Ctx.ident = 1 := by
  obtain ⟨xs, hs, hx⟩ := ctxs_shape hwf tgt
  rw [hs, List.count_append, List.count_cons_self, List.count_eq_zero_of_not_mem hx,
    List.count_eq_zero_of_not_mem (ident_not_mbase hwf)]

theorem ctxs_lock {c : Cfg} {L : Nat} (hwf : WF c L) (tgt : Nat) : Ctx.lock L ∈ ctxsFor c tgt := by
  obtain ⟨xs, hs, _⟩ := ctxs_shape hwf tgt
  rw [hs]; simp [hwf.1]

/-! ## per-thread phase -/

def Phase (c : Cfg) (th : Thread) : Prop :=
  (th.frames = [] ∧ th.pend = [] ∧ th.exiting = false) ∨
  (∃ f tgt, th.frames = [f] ∧ th.pend ≠ [] ∧ th.exiting = false ∧
    f.reverse ++ th.pend = ctxsFor c tgt) ∨
  (∃ k f tgt, th.frames = List.replicate k [] ++ [f] ∧ th.pend = [] ∧ th.exiting = false ∧
    f.reverse = ctxsFor c tgt) ∨
  (∃ f tgt r b p, th.frames = [f] ∧ th.pend = [] ∧ th.exiting = true ∧
    f.reverse ++ r = ctxsFor c tgt ∧ th.prog = .ret b :: p)

theorem flatten_rep (k : Nat) (f : List Ctx) :
    (List.replicate k ([] : List Ctx) ++ [f]).flatten = f := by
  simp

theorem Phase.of_nil {c : Cfg} {th : Thread} (h : Phase c th) (hf : th.frames = []) :
    th.pend = [] ∧ th.exiting = false := by
  rcases h with ⟨_, h2, h3⟩ | ⟨f, tgt, h1, _⟩ | ⟨k, f, tgt, h1, _⟩ | ⟨f, tgt, r, b, p, h1, _⟩
  · exact ⟨h2, h3⟩
  · simp [hf] at h1
  · simp [hf] at h1
  · simp [hf] at h1

theorem Phase.of_pend {c : Cfg} {th : Thread} (h : Phase c th) {x : Ctx} {r : List Ctx}
    (hp : th.pend = x :: r) :
    ∃ f tgt, th.frames = [f] ∧ th.exiting = false ∧ f.reverse ++ x :: r = ctxsFor c tgt := by
  rcases h with ⟨_, h2, _⟩ | ⟨f, tgt, h1, _, h3, h4⟩ | ⟨k, f, tgt, _, h2, _⟩ |
    ⟨f, tgt, r, b, p, _, h2, _⟩
  · simp [hp] at h2
  · exact ⟨f, tgt, h1, h3, hp ▸ h4⟩
  · simp [hp] at h2
  · simp [hp] at h2

theorem Phase.of_body {c : Cfg} {th : Thread} (h : Phase c th) (hf : th.frames ≠ [])
    (hp : th.pend = []) (he : th.exiting = false) :
    ∃ k f tgt, th.frames = List.replicate k [] ++ [f] ∧ f.reverse = ctxsFor c tgt := by
  rcases h with ⟨h1, _⟩ | ⟨f, tgt, _, h2, _⟩ | ⟨k, f, tgt, h1, _, _, h4⟩ |
    ⟨f, tgt, r, b, p, _, _, h3, _⟩
  · exact absurd h1 hf
  · exact absurd hp h2
  · exact ⟨k, f, tgt, h1, h4⟩
  · simp [he] at h3

theorem Phase.of_exiting {c : Cfg} {th : Thread} (h : Phase c th) (he : th.exiting = true) :
    ∃ f tgt r b p, th.frames = [f] ∧ th.pend = [] ∧ f.reverse ++ r = ctxsFor c tgt ∧
      th.prog = .ret b :: p := by
  rcases h with ⟨_, _, h3⟩ | ⟨f, tgt, _, _, h3, _⟩ | ⟨k, f, tgt, _, _, h3, _⟩ |
    ⟨f, tgt, r, b, p, h1, h2, _, h4, h5⟩
  · simp [he] at h3
  · simp [he] at h3
  · simp [he] at h3
  · exact ⟨f, tgt, r, b, p, h1, h2, h4, h5⟩

/-- what a thread holds is a prefix of the contexts of some call -/
theorem Phase.held_prefix {c : Cfg} {th : Thread} (h : Phase c th) :
    ∃ r tgt, (held th).reverse ++ r = ctxsFor c tgt := by
  rcases h with ⟨h1, _⟩ | ⟨f, tgt, h1, _, _, h4⟩ | ⟨k, f, tgt, h1, _, _, h4⟩ |
    ⟨f, tgt, r, b, p, h1, _, _, h4, _⟩
  · exact ⟨ctxsFor c 0, 0, by simp [held, h1]⟩
  · exact ⟨th.pend, tgt, by simpa [held, h1] using h4⟩
  · exact ⟨[], tgt, by simpa [held, h1, flatten_rep] using h4⟩
  · exact ⟨r, tgt, by simpa [held, h1] using h4⟩

theorem Phase.ident_lock {c : Cfg} {L : Nat} (hwf : WF c L) {th : Thread} (h : Phase c th)
    (hi : Ctx.ident ∈ held th) : Ctx.lock L ∈ held th := by
  obtain ⟨r, tgt, hr⟩ := h.held_prefix
  have := prefix_ident_lock hwf hr (by simpa using hi)
  simpa using this

theorem Phase.ident_count {c : Cfg} {L : Nat} (hwf : WF c L) {th : Thread} (h : Phase c th) :
    (held th).count Ctx.ident ≤ 1 := by
  obtain ⟨r, tgt, hr⟩ := h.held_prefix
  have := ctxs_count_ident hwf tgt
  rw [← hr, List.count_append, List.count_reverse] at this
  omega


/-! ## the invariant -/

structure Inv (c : Cfg) (s : LState) : Prop where
  ph : ∀ t, Phase c (s.th t)
  own : ∀ t l, Ctx.lock l ∈ held (s.th t) ↔ s.owner l = t + 1
  cnt : ∀ t l, (held (s.th t)).count (Ctx.lock l) ≤ 1
  cur : ∀ t, Ctx.ident ∈ held (s.th t) ↔ s.current = t + 1

theorem Inv.init (c : Cfg) (progs : Nat → List Op) (ms : Nat) : Inv c (init progs ms) where
  ph := fun t => Or.inl ⟨rfl, rfl, rfl⟩
  own := fun t l => by simp [Locked.init, held]
  cnt := fun t l => by simp [Locked.init, held]
  cur := fun t => by simp [Locked.init, held]

theorem Inv.update {c : Cfg} {s s' : LState} (hI : Inv c s) (t : Nat) (x : Thread)
    (hth : ∀ i, s'.th i = if i = t then x else s.th i)
    (hph : Phase c x)
    (hown_t : ∀ l, Ctx.lock l ∈ held x ↔ s'.owner l = t + 1)
    (hown_o : ∀ t' l, t' ≠ t → (s'.owner l = t' + 1 ↔ s.owner l = t' + 1))
    (hcnt : ∀ l, (held x).count (Ctx.lock l) ≤ 1)
    (hcur_t : Ctx.ident ∈ held x ↔ s'.current = t + 1)
    (hcur_o : ∀ t', t' ≠ t → (s'.current = t' + 1 ↔ s.current = t' + 1)) : Inv c s' where
  ph := fun i => by
    rw [hth]; split
    · exact hph
    · exact hI.ph i
  own := fun i l => by
    rw [hth]; split
    · rename_i h; subst h; exact hown_t l
    · rename_i h; rw [hown_o i l h]; exact hI.own i l
  cnt := fun i l => by
    rw [hth]; split
    · exact hcnt l
    · exact hI.cnt i l
  cur := fun i => by
    rw [hth]; split
    · rename_i h; subst h; exact hcur_t
    · rename_i h; rw [hcur_o i h]; exact hI.cur i

/-- the moving thread holds the same contexts; locks and `current` are untouched -/
theorem Inv.update_same {c : Cfg} {s s' : LState} (hI : Inv c s) (t : Nat) (x : Thread)
    (hth : ∀ i, s'.th i = if i = t then x else s.th i)
    (hph : Phase c x) (hh : held x = held (s.th t))
    (ho : s'.owner = s.owner) (hc : s'.current = s.current) : Inv c s' :=
  hI.update t x hth hph (fun l => by rw [hh, ho]; exact hI.own t l)
    (fun t' l _ => by rw [ho]) (fun l => by rw [hh]; exact hI.cnt t l)
    (by rw [hh, hc]; exact hI.cur t) (fun t' _ => by rw [hc])

theorem held_nil {th : Thread} (h : th.frames = []) : held th = [] := by simp [held, h]

/-- inside a call body (not entering, not unwinding) -/
def inBody (th : Thread) : Prop := th.frames ≠ [] ∧ th.pend = [] ∧ th.exiting = false

theorem Inv.body_held {c : Cfg} {s : LState} (hI : Inv c s) {t : Nat} (hb : inBody (s.th t)) :
    ∃ k f tgt, (s.th t).frames = List.replicate k [] ++ [f] ∧ f.reverse = ctxsFor c tgt ∧
      held (s.th t) = f := by
  obtain ⟨k, f, tgt, h1, h2⟩ := (hI.ph t).of_body hb.1 hb.2.1 hb.2.2
  exact ⟨k, f, tgt, h1, h2, by simp [held, h1]⟩

theorem Inv.body_current {c : Cfg} {s : LState} (hI : Inv c s) {t : Nat} (hb : inBody (s.th t)) :
    s.current = t + 1 := by
  obtain ⟨k, f, tgt, _, h2, h3⟩ := hI.body_held hb
  rw [← hI.cur t, h3]
  have := ctxs_ident c tgt
  rw [← h2] at this; simpa using this

theorem Inv.body_owner {c : Cfg} {L : Nat} (hwf : WF c L) {s : LState} (hI : Inv c s) {t : Nat}
    (hb : inBody (s.th t)) : s.owner L = t + 1 := by
  obtain ⟨k, f, tgt, _, h2, h3⟩ := hI.body_held hb
  rw [← hI.own t, h3]
  have := ctxs_lock hwf tgt
  rw [← h2] at this; simpa using this

theorem Inv.body_unique {c : Cfg} {L : Nat} (hwf : WF c L) {s : LState} (hI : Inv c s) {t t' : Nat}
    (hb : inBody (s.th t)) (hb' : inBody (s.th t')) : t = t' := by
  have h1 := hI.body_owner hwf hb
  have h2 := hI.body_owner hwf hb'
  omega

/-- a thread that is about to run a `call` or `cb` op is idle or in a body -/
theorem Inv.not_exiting_of_prog {c : Cfg} {s : LState} (hI : Inv c s) {t : Nat}
    (h : ∀ b p, (s.th t).prog ≠ .ret b :: p) : (s.th t).exiting = false := by
  cases he : (s.th t).exiting with
  | false => rfl
  | true =>
    obtain ⟨f, tgt, r, b, p, _, _, _, h5⟩ := (hI.ph t).of_exiting he
    exact absurd h5 (h b p)

theorem Phase.set_prog {c : Cfg} {th : Thread} (h : Phase c th) (he : th.exiting = false)
    (p : List Op) : Phase c { th with prog := p } := by
  rcases h with h | h | h | ⟨f, tgt, r, b, p', _, _, h3, _⟩
  · exact Or.inl h
  · exact Or.inr (Or.inl h)
  · exact Or.inr (Or.inr (Or.inl h))
  · simp [he] at h3

theorem Inv.step {c : Cfg} {L : Nat} (hwf : WF c L) (eng : Nat → Nat → Nat) {s : LState}
    (hI : Inv c s) (t : Nat) : Inv c (step c eng s t) := by
  rcases step_cases c eng s t with h | ⟨x, r, f, fs, s1, hp, hf, he, h⟩ |
      ⟨tgt, tag, p, hp, hprog, hc, h⟩ | ⟨tgt, tag, p, hp, hprog, hc, h⟩ |
      ⟨a, p, f, fs, hp, hprog, hf, h⟩ | ⟨r, p, fs, hp, hprog, hf, h⟩ |
      ⟨r, p, x, f, fs, hp, hprog, hf, h⟩
  · rw [h]; exact hI
  · -- enter
    rw [h]
    obtain ⟨f0, tgt, h1, hex, hctx⟩ := (hI.ph t).of_pend hp
    obtain ⟨rfl, rfl⟩ : f = f0 ∧ fs = [] := by simpa [hf] using h1
    have hheld : held (s.th t) = f := by simp [held, hf]
    have hph : Phase c { s.th t with pend := r, frames := [x :: f] } := by
      by_cases hr : r = []
      · subst hr
        exact Or.inr (Or.inr (Or.inl ⟨0, x :: f, tgt, by simp, rfl, hex, by simpa using hctx⟩))
      · exact Or.inr (Or.inl ⟨x :: f, tgt, rfl, hr, hex, by simpa using hctx⟩)
    have hown := hI.own t
    have hcnt := hI.cnt t
    have hcur := hI.cur t
    rw [hheld] at hown hcnt hcur
    cases x with
    | lock l =>
      have hfree : s.owner l = 0 := by
        by_cases h0 : s.owner l = 0
        · exact h0
        · simp [enterCtx, h0] at he
      have hs1 : s1 = { s with owner := fun i => if i = l then t + 1 else s.owner i } := by
        simpa [enterCtx, hfree] using he.symm
      subst hs1
      refine hI.update t _ (fun i => rfl) hph ?_ ?_ ?_ ?_ ?_
      · intro l'
        by_cases hl : l' = l
        · subst hl; simp [held]
        · simp [held, hl]; exact hown l'
      · intro t' l' ht
        by_cases hl : l' = l
        · subst hl; simp [hfree]; omega
        · simp [hl]
      · intro l'
        by_cases hl : l' = l
        · subst hl
          have : Ctx.lock l' ∉ f := by rw [hown, hfree]; omega
          simp [held, List.count_eq_zero_of_not_mem this]
        · have : ¬ l = l' := fun h => hl h.symm
          simpa [held, List.count_cons, this] using hcnt l'
      · simpa [held] using hcur
      · intro t' _; simp
    | ident =>
      have hs1 : s1 = { s with current := t + 1 } := by simpa [enterCtx] using he.symm
      subst hs1
      have hL : Ctx.lock L ∈ f := by
        have : (f.reverse ++ [Ctx.ident]) ++ r = ctxsFor c tgt := by simpa using hctx
        have := prefix_ident_lock hwf this (by simp)
        simpa using this
      refine hI.update t _ (fun i => rfl) hph ?_ ?_ ?_ ?_ ?_
      · intro l'; simpa [held] using hown l'
      · intro t' l' _; simp
      · intro l'; simpa [held, List.count_cons] using hcnt l'
      · simp [held]
      · intro t' ht
        show t + 1 = t' + 1 ↔ s.current = t' + 1
        constructor
        · intro h'; omega
        · intro h'
          have h2 := (hI.ph t').ident_lock hwf ((hI.cur t').2 h')
          rw [hI.own t' L] at h2
          rw [hown L] at hL
          omega
    | user u =>
      have hs1 : s1 = s := by simpa [enterCtx] using he.symm
      subst hs1
      refine hI.update t _ (fun i => rfl) hph ?_ ?_ ?_ ?_ ?_
      · intro l'; simpa [held] using hown l'
      · intro t' l' _; simp
      · intro l'; simpa [held, List.count_cons] using hcnt l'
      · simpa [held] using hcur
      · intro t' _; simp
  · -- re-entrant call
    rw [h]
    have hex : (s.th t).exiting = false := hI.not_exiting_of_prog (by simp [hprog])
    have hne : (s.th t).frames ≠ [] := by
      intro h0
      have := (hI.cur t).2 hc
      simp [held_nil h0] at this
    obtain ⟨k, f, tgt', h1, h2⟩ := (hI.ph t).of_body hne hp hex
    refine hI.update_same t _ (fun i => rfl) ?_ (by simp [held]) rfl rfl
    exact Or.inr (Or.inr (Or.inl ⟨k + 1, f, tgt', by simp [h1, List.replicate_succ], hp, hex, h2⟩))
  · -- outermost call
    rw [h]
    have hex : (s.th t).exiting = false := hI.not_exiting_of_prog (by simp [hprog])
    have hnil : (s.th t).frames = [] := by
      by_cases h0 : (s.th t).frames = []
      · exact h0
      · exact absurd (hI.body_current ⟨h0, hp, hex⟩) hc
    refine hI.update_same t _ (fun i => rfl) ?_ (by simp [held, hnil]) rfl rfl
    exact Or.inr (Or.inl ⟨[], tgt, by simp [hnil], ctxs_ne_nil c tgt, hex, by simp⟩)
  · -- engine step
    rw [h]
    have hex : (s.th t).exiting = false := hI.not_exiting_of_prog (by simp [hprog])
    exact hI.update_same t _ (fun i => rfl) ((hI.ph t).set_prog hex p) rfl rfl rfl
  · -- callEnd
    rw [h]
    refine hI.update_same t _ (fun i => rfl) ?_ (by simp [held, hf]) rfl rfl
    cases hex : (s.th t).exiting with
    | true =>
      obtain ⟨f0, tgt, r0, b, p0, h1, _, _, _⟩ := (hI.ph t).of_exiting hex
      obtain ⟨_, rfl⟩ : [] = f0 ∧ fs = [] := by simpa [hf] using h1
      exact Or.inl ⟨rfl, hp, rfl⟩
    | false =>
      obtain ⟨k, f0, tgt, h1, h2⟩ := (hI.ph t).of_body (by simp [hf]) hp hex
      cases k with
      | zero =>
        obtain ⟨rfl, _⟩ : [] = f0 ∧ fs = [] := by simpa [hf] using h1
        exact absurd h2.symm (by simpa using ctxs_ne_nil c tgt)
      | succ k =>
        have : fs = List.replicate k [] ++ [f0] := by
          simpa [hf, List.replicate_succ] using h1
        exact Or.inr (Or.inr (Or.inl ⟨k, f0, tgt, this, hp, rfl, h2⟩))
  · -- exit
    rw [h]
    have hshape : fs = [] ∧ ∃ tgt r0, (x :: f).reverse ++ r0 = ctxsFor c tgt := by
      cases hex : (s.th t).exiting with
      | true =>
        obtain ⟨f0, tgt, r0, b, p0, h1, _, h3, _⟩ := (hI.ph t).of_exiting hex
        obtain ⟨rfl, rfl⟩ : x :: f = f0 ∧ fs = [] := by simpa [hf] using h1
        exact ⟨rfl, tgt, r0, h3⟩
      | false =>
        obtain ⟨k, f0, tgt, h1, h2⟩ := (hI.ph t).of_body (by simp [hf]) hp hex
        cases k with
        | zero =>
          obtain ⟨rfl, rfl⟩ : x :: f = f0 ∧ fs = [] := by simpa [hf] using h1
          exact ⟨rfl, tgt, [], by simpa using h2⟩
        | succ k => simp [hf, List.replicate_succ] at h1
    obtain ⟨rfl, tgt, r0, hctx⟩ := hshape
    have hheld : held (s.th t) = x :: f := by simp [held, hf]
    have hph : Phase c { s.th t with frames := [f], exiting := true } :=
      Or.inr (Or.inr (Or.inr ⟨f, tgt, x :: r0, r, p, rfl, hp, rfl, by simpa using hctx, hprog⟩))
    have hown := hI.own t
    have hcnt := hI.cnt t
    have hcur := hI.cur t
    have hic := (hI.ph t).ident_count hwf
    rw [hheld] at hown hcnt hcur hic
    cases x with
    | lock l =>
      have hnm : Ctx.lock l ∉ f := by
        have := hcnt l
        rw [List.count_cons_self] at this
        exact List.count_eq_zero.1 (by omega)
      have hol : s.owner l = t + 1 := (hown l).1 (by simp)
      refine hI.update t _ (fun i => rfl) hph ?_ ?_ ?_ ?_ ?_
      · intro l'
        by_cases hl : l' = l
        · subst hl; simp [held, exitCtx, hnm]
        · have := hown l'
          simpa [held, exitCtx, hl] using this
      · intro t' l' ht
        by_cases hl : l' = l
        · subst hl; simp [exitCtx, hol]; omega
        · simp [exitCtx, hl]
      · intro l'
        have := hcnt l'
        rw [List.count_cons] at this
        simp only [held, List.flatten_cons, List.flatten_nil, List.append_nil]
        omega
      · simpa [held, exitCtx] using hcur
      · intro t' _; simp [exitCtx]
    | ident =>
      have hnm : Ctx.ident ∉ f := by
        rw [List.count_cons_self] at hic
        exact List.count_eq_zero.1 (by omega)
      have hcu : s.current = t + 1 := hcur.1 (by simp)
      refine hI.update t _ (fun i => rfl) hph ?_ ?_ ?_ ?_ ?_
      · intro l'; simpa [held, exitCtx] using hown l'
      · intro t' l' _; simp [exitCtx]
      · intro l'
        have := hcnt l'
        rw [List.count_cons] at this
        simp only [held, List.flatten_cons, List.flatten_nil, List.append_nil]
        omega
      · simp [held, exitCtx, hnm]
      · intro t' ht; simp [exitCtx, hcu]; omega
    | user u =>
      refine hI.update t _ (fun i => rfl) hph ?_ ?_ ?_ ?_ ?_
      · intro l'; simpa [held, exitCtx] using hown l'
      · intro t' l' _; simp [exitCtx]
      · intro l'
        have := hcnt l'
        rw [List.count_cons] at this
        simp only [held, List.flatten_cons, List.flatten_nil, List.append_nil]
        omega
      · simpa [held, exitCtx] using hcur
      · intro t' _; simp [exitCtx]

theorem Inv.run {c : Cfg} {L : Nat} (hwf : WF c L) (eng : Nat → Nat → Nat) (σ : List Nat) :
    ∀ {s : LState}, Inv c s → Inv c (runSched c eng s σ) := by
  induction σ with
  | nil => intro s h; exact h
  | cons t σ ih => intro s h; exact ih (h.step hwf eng t)

theorem mutex (c : Cfg) (L : Nat) (hwf : WF c L) (eng : Nat → Nat → Nat) (progs : Nat → List Op)
    (ms : Nat) (σ : List Nat) :
    let s := runSched c eng (init progs ms) σ
    (∀ t t' l, Ctx.lock l ∈ held (s.th t) → Ctx.lock l ∈ held (s.th t') → t = t') ∧
    (∀ t, Ctx.ident ∈ held (s.th t) ↔ s.current = t + 1) ∧
    (∀ t, Ctx.ident ∈ held (s.th t) → Ctx.lock L ∈ held (s.th t)) ∧
    (∀ t l, Ctx.lock l ∈ held (s.th t) ↔ s.owner l = t + 1) := by
  intro s
  have hI : Inv c s := Inv.run hwf eng σ (Inv.init c progs ms)
  refine ⟨?_, hI.cur, fun t h => (hI.ph t).ident_lock hwf h, hI.own⟩
  intro t t' l h1 h2
  rw [hI.own] at h1 h2
  omega

/-! ## no overlap -/

theorem noOverlapRun_snoc (L : Nat) (tr : List Ev) (e : Ev) :
    noOverlapRun L (tr ++ [e]) = noOverlapStep L (noOverlapRun L tr) e := by
  simp [noOverlapRun, List.foldl_append]

theorem no_overlap_step {c : Cfg} {L : Nat} (hwf : WF c L) (eng : Nat → Nat → Nat) {s : LState}
    (hI : Inv c s) (hN : noOverlapRun L s.trace = some (s.owner L)) (t : Nat) :
    noOverlapRun L (step c eng s t).trace = some ((step c eng s t).owner L) := by
  rcases step_cases c eng s t with h | ⟨x, r, f, fs, s1, hp, hf, he, h⟩ |
      ⟨tgt, tag, p, hp, hprog, hc, h⟩ | ⟨tgt, tag, p, hp, hprog, hc, h⟩ |
      ⟨a, p, f, fs, hp, hprog, hf, h⟩ | ⟨r, p, fs, hp, hprog, hf, h⟩ |
      ⟨r, p, x, f, fs, hp, hprog, hf, h⟩
  · rw [h]; exact hN
  · rw [h]
    cases x with
    | lock l =>
      have hfree : s.owner l = 0 := by
        by_cases h0 : s.owner l = 0
        · exact h0
        · simp [enterCtx, h0] at he
      have hs1 : s1 = { s with owner := fun i => if i = l then t + 1 else s.owner i } := by
        simpa [enterCtx, hfree] using he.symm
      subst hs1
      simp only [emit_trace, setTh_trace, emit_owner, setTh_owner, noOverlapRun_snoc, hN,
        noOverlapStep]
      by_cases hl : l = L
      · subst hl; simp [hfree]
      · have : ¬ L = l := fun h => hl h.symm
        simp [hl, this]
    | ident =>
      have hs1 : s1 = { s with current := t + 1 } := by simpa [enterCtx] using he.symm
      subst hs1
      simp [noOverlapRun_snoc, hN, noOverlapStep]
    | user u =>
      have hs1 : s1 = s := by simpa [enterCtx] using he.symm
      subst hs1
      simp [noOverlapRun_snoc, hN, noOverlapStep]
  · rw [h]; simp [noOverlapRun_snoc, hN, noOverlapStep]
  · rw [h]; simp [noOverlapRun_snoc, hN, noOverlapStep]
  · rw [h]
    have hex : (s.th t).exiting = false := hI.not_exiting_of_prog (by simp [hprog])
    have := hI.body_owner hwf (t := t) ⟨by simp [hf], hp, hex⟩
    simp [noOverlapRun_snoc, hN, noOverlapStep, this]
  · rw [h]; simp [noOverlapRun_snoc, hN, noOverlapStep]
  · rw [h]
    cases x with
    | lock l =>
      have hol : s.owner l = t + 1 := (hI.own t l).1 (by simp [held, hf])
      simp only [emit_trace, setTh_trace, emit_owner, setTh_owner, noOverlapRun_snoc, hN,
        noOverlapStep, exitCtx]
      by_cases hl : l = L
      · subst hl; simp [hol]
      · have : ¬ L = l := fun h => hl h.symm
        simp [hl, this]
    | ident => simp [noOverlapRun_snoc, hN, noOverlapStep, exitCtx]
    | user u => simp [noOverlapRun_snoc, hN, noOverlapStep, exitCtx]

theorem no_overlap_run {c : Cfg} {L : Nat} (hwf : WF c L) (eng : Nat → Nat → Nat) (σ : List Nat) :
    ∀ {s : LState}, Inv c s → noOverlapRun L s.trace = some (s.owner L) →
      noOverlapRun L (runSched c eng s σ).trace = some ((runSched c eng s σ).owner L) := by
  induction σ with
  | nil => intro s _ h; exact h
  | cons t σ ih => intro s hI h; exact ih (hI.step hwf eng t) (no_overlap_step hwf eng hI h t)

theorem no_overlap (c : Cfg) (L : Nat) (hwf : WF c L) (eng : Nat → Nat → Nat)
    (progs : Nat → List Op) (ms : Nat) (σ : List Nat) :
    noOverlap L (runSched c eng (init progs ms) σ).trace = true := by
  have := no_overlap_run hwf eng σ (Inv.init c progs ms) (by simp [noOverlapRun, Locked.init])
  simp [noOverlap, this]

/-! ## re-entrant calls -/

theorem reentrant (c : Cfg) (L : Nat) (hwf : WF c L) (eng : Nat → Nat → Nat)
    (progs : Nat → List Op) (ms : Nat) (σ : List Nat) (t : Nat) :
    let s := runSched c eng (init progs ms) σ
    (s.th t).frames ≠ [] → (s.th t).pend = [] → (s.th t).exiting = false →
      s.current = t + 1 ∧ blocked s t = false ∧
      ∀ tgt tag p, (s.th t).prog = .call tgt tag :: p →
        ((step c eng s t).th t).pend = [] ∧ blocked (step c eng s t) t = false ∧
        (step c eng s t).trace = s.trace ++ [.callBegin t tgt tag] := by
  intro s hf hp he
  have hI : Inv c s := Inv.run hwf eng σ (Inv.init c progs ms)
  have hc : s.current = t + 1 := hI.body_current ⟨hf, hp, he⟩
  refine ⟨hc, by simp [blocked, hp], ?_⟩
  intro tgt tag p hprog
  have hs : step c eng s t =
      emit (setTh s t { s.th t with prog := p, frames := [] :: (s.th t).frames })
        (.callBegin t tgt tag) := by
    unfold step
    simp [hp, hprog, hc]
  rw [hs]
  simp [blocked, hp]

/-! ## the context-order monitor -/

theorem alookupD_nil_of {m : Nat} {l : List (Nat × List Ctx)} (h : ∀ p ∈ l, p.2 = []) :
    alookupD m l = [] := by
  rcases alookupD_cases m l with h0 | ⟨p, hp, h0⟩
  · exact h0
  · rw [h0]; exact h p hp

theorem ctxs_configured {c : Cfg} (hx : c.hsm = false ∨ ∀ p ∈ c.extra, p.2 = []) (tgt : Nat) :
    ctxsFor c tgt = configured c tgt := by
  cases tgt with
  | zero => rfl
  | succ m =>
    rcases hx with h | h
    · simp [ctxsFor, configured, h]
    · simp [ctxsFor, configured, Cfg.cmap, alookupD_nil_of h]

/-- the monitor's state for a thread, read off the thread -/
def monOf (th : Thread) : MonSt :=
  { depth := th.frames.length, pe := th.pend, st := held th, ex := th.exiting }

def CM (c : Cfg) (s : LState) : Prop :=
  ctxMonRun (configured c) s.trace = some (fun i => monOf (s.th i))

theorem ctxMonRun_snoc (exp : Nat → List Ctx) (tr : List Ev) (e : Ev) :
    ctxMonRun exp (tr ++ [e]) = ctxMonStep exp (ctxMonRun exp tr) e := by
  simp [ctxMonRun, List.foldl_append]

theorem CM.update {c : Cfg} {s s' : LState} (hC : CM c s) (t : Nat) (x : Thread) (e : Ev)
    (htr : s'.trace = s.trace ++ [e]) (hth : ∀ i, s'.th i = if i = t then x else s.th i)
    (ht : e.tid = t) (hs : ctxStep (configured c) (monOf (s.th t)) e = some (monOf x)) :
    CM c s' := by
  unfold CM at *
  rw [htr, ctxMonRun_snoc, hC]
  subst ht
  simp only [ctxMonStep, hs]
  congr 1
  funext i
  rw [hth]
  split <;> rfl

theorem Inv.exit_shape {c : Cfg} {s : LState} (hI : Inv c s) {t : Nat} {x : Ctx} {f : List Ctx}
    {fs : List (List Ctx)} (hp : (s.th t).pend = []) (hf : (s.th t).frames = (x :: f) :: fs) :
    fs = [] := by
  cases hex : (s.th t).exiting with
  | true =>
    obtain ⟨f0, tgt, r0, b, p0, h1, _, h3, _⟩ := (hI.ph t).of_exiting hex
    obtain ⟨_, rfl⟩ : x :: f = f0 ∧ fs = [] := by simpa [hf] using h1
    rfl
  | false =>
    obtain ⟨k, f0, tgt, h1, h2⟩ := (hI.ph t).of_body (by simp [hf]) hp hex
    cases k with
    | zero =>
      obtain ⟨_, rfl⟩ : x :: f = f0 ∧ fs = [] := by simpa [hf] using h1
      rfl
    | succ k => simp [hf, List.replicate_succ] at h1

theorem CM.step {c : Cfg} (hx : c.hsm = false ∨ ∀ p ∈ c.extra, p.2 = [])
    (eng : Nat → Nat → Nat) {s : LState} (hI : Inv c s) (hC : CM c s) (t : Nat) :
    CM c (step c eng s t) := by
  rcases step_cases c eng s t with h | ⟨x, r, f, fs, s1, hp, hf, he, h⟩ |
      ⟨tgt, tag, p, hp, hprog, hc, h⟩ | ⟨tgt, tag, p, hp, hprog, hc, h⟩ |
      ⟨a, p, f, fs, hp, hprog, hf, h⟩ | ⟨r, p, fs, hp, hprog, hf, h⟩ |
      ⟨r, p, x, f, fs, hp, hprog, hf, h⟩
  · rw [h]; exact hC
  · rw [h]
    obtain ⟨f0, tgt, h1, hex, hctx⟩ := (hI.ph t).of_pend hp
    obtain ⟨rfl, rfl⟩ : f = f0 ∧ fs = [] := by simpa [hf] using h1
    obtain ⟨e1, _, e3⟩ := enterCtx_some he
    refine hC.update t _ (.enter t x) (by simp [e3]) (fun i => by rw [emit_th, setTh_th, e1]) rfl ?_
    simp [ctxStep, monOf, hp, hf, held]
  · rw [h]
    have hex : (s.th t).exiting = false := hI.not_exiting_of_prog (by simp [hprog])
    have hne : (s.th t).frames ≠ [] := by
      intro h0
      have := (hI.cur t).2 hc
      simp [held_nil h0] at this
    refine hC.update t _ (.callBegin t tgt tag) rfl (fun i => rfl) rfl ?_
    simp [ctxStep, monOf, hp, hex, hne, held]
  · rw [h]
    have hex : (s.th t).exiting = false := hI.not_exiting_of_prog (by simp [hprog])
    have hnil : (s.th t).frames = [] := by
      by_cases h0 : (s.th t).frames = []
      · exact h0
      · exact absurd (hI.body_current ⟨h0, hp, hex⟩) hc
    refine hC.update t _ (.callBegin t tgt tag) rfl (fun i => rfl) rfl ?_
    simp [ctxStep, monOf, hex, hnil, held, ctxs_configured hx]
  · rw [h]
    have hex : (s.th t).exiting = false := hI.not_exiting_of_prog (by simp [hprog])
    refine hC.update t _ (.cb t a) rfl (fun i => rfl) rfl ?_
    simp [ctxStep, monOf, hp, hex, hf, held]
  · rw [h]
    refine hC.update t _ (.callEnd t r) rfl (fun i => rfl) rfl ?_
    cases fs with
    | nil => simp [ctxStep, monOf, hp, hf, held]
    | cons g fs' =>
      have hex : (s.th t).exiting = false := by
        cases hex : (s.th t).exiting with
        | false => rfl
        | true =>
          obtain ⟨f0, tgt, r0, b, p0, h1, _⟩ := (hI.ph t).of_exiting hex
          simp [hf] at h1
      simp [ctxStep, monOf, hp, hf, held, hex]
  · rw [h]
    obtain rfl := hI.exit_shape hp hf
    refine hC.update t _ (.exit t x) (by simp) (fun i => by rw [emit_th, setTh_th, exitCtx_th]) rfl ?_
    simp [ctxStep, monOf, hp, hf, held]

theorem CM.run {c : Cfg} {L : Nat} (hwf : WF c L) (hx : c.hsm = false ∨ ∀ p ∈ c.extra, p.2 = [])
    (eng : Nat → Nat → Nat) (σ : List Nat) :
    ∀ {s : LState}, Inv c s → CM c s → CM c (runSched c eng s σ) := by
  induction σ with
  | nil => intro s _ h; exact h
  | cons t σ ih => intro s hI h; exact ih (hI.step hwf eng t) (h.step hx eng hI t)

theorem CM.init (c : Cfg) (progs : Nat → List Op) (ms : Nat) : CM c (init progs ms) := by
  simp [CM, ctxMonRun, Locked.init, monOf, held]

theorem contexts_partial (c : Cfg) (L : Nat) (hwf : WF c L)
    (hx : c.hsm = false ∨ ∀ p ∈ c.extra, p.2 = []) :
    ∀ (eng : Nat → Nat → Nat) (progs : Nat → List Op) (ms : Nat) (σ : List Nat),
      contextsOrder (configured c) (runSched c eng (init progs ms) σ).trace = true := by
  intro eng progs ms σ
  have := CM.run hwf hx eng σ (Inv.init c progs ms) (CM.init c progs ms)
  unfold CM at this
  simp [contextsOrder, this]

theorem released (c : Cfg) (L : Nat) (hwf : WF c L)
    (hx : c.hsm = false ∨ ∀ p ∈ c.extra, p.2 = []) (eng : Nat → Nat → Nat)
    (progs : Nat → List Op) (ms : Nat) (σ : List Nat) (t : Nat) :
    let s := runSched c eng (init progs ms) σ
    (s.th t).frames = [] →
      s.current ≠ t + 1 ∧ (∀ l, s.owner l ≠ t + 1) ∧
      ∃ f, ctxMonRun (configured c) s.trace = some f ∧ f t = {} := by
  intro s hf
  have hI : Inv c s := Inv.run hwf eng σ (Inv.init c progs ms)
  have hC : CM c s := CM.run hwf hx eng σ (Inv.init c progs ms) (CM.init c progs ms)
  refine ⟨?_, ?_, _, hC, ?_⟩
  · intro hh
    have := (hI.cur t).2 hh
    simp [held_nil hf] at this
  · intro l hh
    have := (hI.own t l).2 hh
    simp [held_nil hf] at this
  · obtain ⟨h1, h2⟩ := (hI.ph t).of_nil hf
    simp [monOf, hf, h1, h2, held]

theorem contexts_counterexample :
    ¬ ∀ (eng : Nat → Nat → Nat) (progs : Nat → List Op) (ms : Nat) (σ : List Nat),
      contextsOrder (configured { hsm := true, base := [], extra := [(0, [.user 7])] })
        (runSched { hsm := true, base := [], extra := [(0, [.user 7])] } eng
          (init progs ms) σ).trace = true := by
  intro h
  have := h (fun _ m => m) (fun t => if t = 0 then [.call 1 0, .cb 0, .ret false] else []) 0
    [0, 0, 0, 0]
  revert this
  decide

/-! ## serializability -/

theorem cbLog_append (a b : List Ev) : cbLog (a ++ b) = cbLog a ++ cbLog b := by
  induction a with
  | nil => rfl
  | cons e a ih => cases e <;> simp [cbLog, ih]

theorem runOps_call (eng : Nat → Nat → Nat) (t d a b : Nat) (p : List Op) (ms : Nat)
    (log : List (Nat × Nat)) :
    runOps eng t d (.call a b :: p) ms log = runOps eng t (d + 1) p ms log := by
  simp [runOps]

theorem runOps_cb (eng : Nat → Nat → Nat) (t d a : Nat) (p : List Op) (ms : Nat)
    (log : List (Nat × Nat)) :
    runOps eng t (d + 1) (.cb a :: p) ms log =
      runOps eng t (d + 1) p (eng a ms) (log ++ [(t, a)]) := by
  simp [runOps]

theorem runOps_ret1 (eng : Nat → Nat → Nat) (t : Nat) (b : Bool) (p : List Op) (ms : Nat)
    (log : List (Nat × Nat)) :
    runOps eng t 1 (.ret b :: p) ms log = (ms, log, p) := by
  simp [runOps]

theorem runOps_ret2 (eng : Nat → Nat → Nat) (t d : Nat) (b : Bool) (p : List Op) (ms : Nat)
    (log : List (Nat × Nat)) :
    runOps eng t (d + 2) (.ret b :: p) ms log = runOps eng t (d + 1) p ms log := by
  simp [runOps]

/-- thread `t` (state `th`, in a run with machine state `ms` and engine log `log`) against the
serial execution `q` -/
def SRelT (eng : Nat → Nat → Nat) (t : Nat) (th : Thread) (ms : Nat) (log : List (Nat × Nat))
    (q : Seq) : Prop :=
  (th.frames = [] → q.progs t = th.prog) ∧
  (th.pend ≠ [] → ∃ tgt tag, q.progs t = .call tgt tag :: th.prog) ∧
  (th.exiting = true → ∃ b, th.prog = .ret b :: q.progs t) ∧
  (inBody th → runOps eng t 0 (q.progs t) q.ms q.log =
    runOps eng t th.frames.length th.prog ms log)

def SGlob (s : LState) (q : Seq) : Prop :=
  (∀ i, ¬ inBody (s.th i)) → q.ms = s.mstate ∧ q.log = cbLog s.trace

def SInv (eng : Nat → Nat → Nat) (progs : Nat → List Op) (ms : Nat) (s : LState) : Prop :=
  ∃ order : List Nat,
    (∀ t, SRelT eng t (s.th t) s.mstate (cbLog s.trace) (seqRun eng progs ms order)) ∧
    SGlob s (seqRun eng progs ms order)

theorem SInv.init (eng : Nat → Nat → Nat) (progs : Nat → List Op) (ms : Nat) :
    SInv eng progs ms (init progs ms) := by
  refine ⟨[], fun t => ⟨fun _ => rfl, ?_, ?_, ?_⟩, fun _ => ⟨rfl, rfl⟩⟩
  · intro h; exact absurd rfl h
  · intro h; simp [Locked.init] at h
  · intro h; exact absurd rfl h.1

/-- a step of thread `t` that is not a commit point: the serial order stays -/
theorem SInv.keep {eng : Nat → Nat → Nat} {progs : Nat → List Op} {ms : Nat} {s s' : LState}
    (hS : SInv eng progs ms s) (t : Nat) (x : Thread)
    (hth : ∀ i, s'.th i = if i = t then x else s.th i)
    (hrel : ∀ q, SRelT eng t (s.th t) s.mstate (cbLog s.trace) q → SGlob s q →
      SRelT eng t x s'.mstate (cbLog s'.trace) q)
    (hoth : ∀ i, i ≠ t → inBody (s.th i) →
      s'.mstate = s.mstate ∧ cbLog s'.trace = cbLog s.trace)
    (hglob : ¬ inBody x →
      ¬ inBody (s.th t) ∧ s'.mstate = s.mstate ∧ cbLog s'.trace = cbLog s.trace) :
    SInv eng progs ms s' := by
  obtain ⟨order, hr, hg⟩ := hS
  refine ⟨order, ?_, ?_⟩
  · intro i
    rw [hth]
    split
    · rename_i h; subst h; exact hrel _ (hr i) hg
    · rename_i h
      obtain ⟨r1, r2, r3, r4⟩ := hr i
      refine ⟨r1, r2, r3, fun hb => ?_⟩
      obtain ⟨e1, e2⟩ := hoth i h hb
      rw [e1, e2]; exact r4 hb
  · intro hn
    have hx : ¬ inBody x := by have := hn t; rwa [hth, if_pos rfl] at this
    obtain ⟨h1, h2, h3⟩ := hglob hx
    rw [h2, h3]
    apply hg
    intro i
    by_cases h : i = t
    · subst h; exact h1
    · have := hn i; rwa [hth, if_neg h] at this

theorem unique_after {c : Cfg} {L : Nat} (hwf : WF c L) {s s' : LState} (hI' : Inv c s') (t : Nat)
    (x : Thread) (hth : ∀ i, s'.th i = if i = t then x else s.th i) (hb : inBody x) :
    ∀ i, i ≠ t → ¬ inBody (s.th i) := by
  intro i hne hbi
  have h1 : inBody (s'.th i) := by rw [hth, if_neg hne]; exact hbi
  have h2 : inBody (s'.th t) := by rw [hth, if_pos rfl]; exact hb
  exact hne (hI'.body_unique hwf h1 h2)

theorem SInv.step {c : Cfg} {L : Nat} (hwf : WF c L) (eng : Nat → Nat → Nat)
    (progs : Nat → List Op) (ms : Nat) {s : LState} (hI : Inv c s) (hS : SInv eng progs ms s)
    (t : Nat) : SInv eng progs ms (step c eng s t) := by
  have hI' := hI.step hwf eng t
  rcases step_cases c eng s t with h | ⟨x, r, f, fs, s1, hp, hf, he, h⟩ |
      ⟨tgt, tag, p, hp, hprog, hc, h⟩ | ⟨tgt, tag, p, hp, hprog, hc, h⟩ |
      ⟨a, p, f, fs, hp, hprog, hf, h⟩ | ⟨r, p, fs, hp, hprog, hf, h⟩ |
      ⟨r, p, x, f, fs, hp, hprog, hf, h⟩
  · rw [h]; exact hS
  · -- enter
    rw [h] at hI' ⊢
    obtain ⟨f0, tgt, h1, hex, hctx⟩ := (hI.ph t).of_pend hp
    obtain ⟨rfl, rfl⟩ : f = f0 ∧ fs = [] := by simpa [hf] using h1
    obtain ⟨e1, e2, e3⟩ := enterCtx_some he
    have hth : ∀ i, (emit (setTh s1 t { s.th t with pend := r, frames := [x :: f] })
        (.enter t x)).th i =
        if i = t then { s.th t with pend := r, frames := [x :: f] } else s.th i := by
      intro i; rw [emit_th, setTh_th, e1]
    have hms : (emit (setTh s1 t { s.th t with pend := r, frames := [x :: f] })
        (.enter t x)).mstate = s.mstate := by simp [e2]
    have hlog : cbLog (emit (setTh s1 t { s.th t with pend := r, frames := [x :: f] })
        (.enter t x)).trace = cbLog s.trace := by simp [e3, cbLog_append, cbLog]
    have hnb : ¬ inBody (s.th t) := fun hb => by simp [hb.2.1] at hp
    refine hS.keep t _ hth ?_ (fun _ _ _ => ⟨hms, hlog⟩) (fun _ => ⟨hnb, hms, hlog⟩)
    intro q hr hg
    rw [hms, hlog]
    obtain ⟨tgt', tag', hq⟩ := hr.2.1 (by simp [hp])
    refine ⟨fun h0 => by simp at h0, fun _ => ⟨tgt', tag', hq⟩, fun h0 => ?_, fun hb => ?_⟩
    · simp [hex] at h0
    · have hn : ∀ i, ¬ inBody (s.th i) := by
        intro i
        by_cases hi : i = t
        · subst hi; exact hnb
        · exact unique_after hwf hI' t _ hth hb i hi
      obtain ⟨g1, g2⟩ := hg hn
      rw [hq, runOps_call, g1, g2]
      rfl
  · -- re-entrant call
    rw [h]
    have hex : (s.th t).exiting = false := hI.not_exiting_of_prog (by simp [hprog])
    have hne : (s.th t).frames ≠ [] := by
      intro h0
      have := (hI.cur t).2 hc
      simp [held_nil h0] at this
    have hlog : cbLog (s.trace ++ [Ev.callBegin t tgt tag]) = cbLog s.trace := by
      simp [cbLog_append, cbLog]
    refine hS.keep t _ (fun i => rfl) ?_ (fun _ _ _ => ⟨rfl, hlog⟩) (fun hn => ?_)
    · intro q hr hg
      refine ⟨fun h0 => by simp at h0, fun h0 => absurd hp h0, fun h0 => ?_, fun _ => ?_⟩
      · simp [hex] at h0
      · have := hr.2.2.2 ⟨hne, hp, hex⟩
        rw [hprog, runOps_call] at this
        simpa [hlog] using this
    · exact absurd ⟨by simp, hp, hex⟩ hn
  · -- outermost call
    rw [h]
    have hex : (s.th t).exiting = false := hI.not_exiting_of_prog (by simp [hprog])
    have hnil : (s.th t).frames = [] := by
      by_cases h0 : (s.th t).frames = []
      · exact h0
      · exact absurd (hI.body_current ⟨h0, hp, hex⟩) hc
    have hlog : cbLog (s.trace ++ [Ev.callBegin t tgt tag]) = cbLog s.trace := by
      simp [cbLog_append, cbLog]
    have hnb : ¬ inBody (s.th t) := fun hb => hb.1 hnil
    refine hS.keep t _ (fun i => rfl) ?_ (fun _ _ _ => ⟨rfl, hlog⟩) (fun _ => ⟨hnb, rfl, hlog⟩)
    intro q hr hg
    refine ⟨fun h0 => by simp at h0, fun _ => ⟨tgt, tag, ?_⟩, fun h0 => ?_, fun hb => ?_⟩
    · rw [hr.1 hnil, hprog]
    · simp [hex] at h0
    · exact absurd hb.2.1 (ctxs_ne_nil c tgt)
  · -- engine step
    rw [h]
    have hex : (s.th t).exiting = false := hI.not_exiting_of_prog (by simp [hprog])
    have hb : inBody (s.th t) := ⟨by simp [hf], hp, hex⟩
    have hb' : inBody { s.th t with prog := p } := hb
    refine hS.keep t _ (fun i => rfl) ?_
      (fun i hi hbi => absurd (hI.body_unique hwf hbi hb) hi) (fun hn => absurd hb' hn)
    intro q hr hg
    refine ⟨fun h0 => absurd h0 hb.1, fun h0 => absurd hp h0, fun h0 => ?_, fun _ => ?_⟩
    · simp [hex] at h0
    · have := hr.2.2.2 hb
      rw [hprog, hf, List.length_cons, runOps_cb] at this
      simpa [cbLog_append, cbLog, hf] using this
  · -- callEnd
    rw [h]
    have hlog : cbLog (s.trace ++ [Ev.callEnd t r]) = cbLog s.trace := by
      simp [cbLog_append, cbLog]
    cases hex : (s.th t).exiting with
    | true =>
      obtain ⟨f0, tgt, r0, b, p0, h1, _, _, _⟩ := (hI.ph t).of_exiting hex
      obtain ⟨_, rfl⟩ : [] = f0 ∧ fs = [] := by simpa [hf] using h1
      have hnb : ¬ inBody (s.th t) := fun hb => by simp [hb.2.2] at hex
      refine hS.keep t _ (fun i => rfl) ?_ (fun _ _ _ => ⟨rfl, hlog⟩)
        (fun _ => ⟨hnb, rfl, hlog⟩)
      intro q hr hg
      refine ⟨fun _ => ?_, fun h0 => absurd hp h0, fun h0 => by simp at h0,
        fun hb => absurd rfl hb.1⟩
      obtain ⟨b', hb'⟩ := hr.2.2.1 hex
      rw [hprog] at hb'
      simp at hb'
      exact hb'.2.symm
    | false =>
      have hb : inBody (s.th t) := ⟨by simp [hf], hp, hex⟩
      obtain ⟨k, f0, tgt, h1, h2⟩ := (hI.ph t).of_body hb.1 hp hex
      cases k with
      | zero =>
        obtain ⟨rfl, _⟩ : [] = f0 ∧ fs = [] := by simpa [hf] using h1
        exact absurd h2.symm (by simpa using ctxs_ne_nil c tgt)
      | succ k =>
        have hfs : fs = List.replicate k [] ++ [f0] := by
          simpa [hf, List.replicate_succ] using h1
        have hlen : fs.length = k + 1 := by simp [hfs]
        have hfs0 : fs ≠ [] := by intro h0; simp [h0] at hlen
        refine hS.keep t _ (fun i => rfl) ?_ (fun _ _ _ => ⟨rfl, hlog⟩) (fun hn => ?_)
        · intro q hr hg
          refine ⟨fun h0 => absurd h0 hfs0, fun h0 => absurd hp h0, fun h0 => by simp at h0,
            fun _ => ?_⟩
          have := hr.2.2.2 hb
          rw [hprog, hf, List.length_cons, hlen, runOps_ret2] at this
          simpa [hlog, hlen] using this
        · exact absurd ⟨hfs0, hp, rfl⟩ hn
  · -- exit
    rw [h]
    obtain rfl := hI.exit_shape hp hf
    have hlog : cbLog (s.trace ++ [Ev.exit t x]) = cbLog s.trace := by
      simp [cbLog_append, cbLog]
    have hth : ∀ i, (emit (setTh (exitCtx s x) t { s.th t with frames := [f], exiting := true })
        (.exit t x)).th i =
        if i = t then { s.th t with frames := [f], exiting := true } else s.th i := by
      intro i; rw [emit_th, setTh_th, exitCtx_th]
    have hms : (emit (setTh (exitCtx s x) t { s.th t with frames := [f], exiting := true })
        (.exit t x)).mstate = s.mstate := by simp
    have hlog' : cbLog (emit (setTh (exitCtx s x) t { s.th t with frames := [f], exiting := true })
        (.exit t x)).trace = cbLog s.trace := by simpa using hlog
    cases hex : (s.th t).exiting with
    | true =>
      have hnb : ¬ inBody (s.th t) := fun hb => by simp [hb.2.2] at hex
      refine hS.keep t _ hth ?_ (fun _ _ _ => ⟨hms, hlog'⟩) (fun _ => ⟨hnb, hms, hlog'⟩)
      intro q hr hg
      exact ⟨fun h0 => by simp at h0, fun h0 => absurd hp h0, fun _ => hr.2.2.1 hex,
        fun hb => by have := hb.2.2; simp at this⟩
    | false =>
      -- the commit point: `t` is appended to the serial order
      have hb : inBody (s.th t) := ⟨by simp [hf], hp, hex⟩
      obtain ⟨order, hr, hg⟩ := hS
      have hrun := (hr t).2.2.2 hb
      rw [hprog, hf] at hrun
      simp only [List.length_cons, List.length_nil, Nat.zero_add, runOps_ret1] at hrun
      have hq : seqRun eng progs ms (order ++ [t]) =
          { progs := fun i => if i = t then p else (seqRun eng progs ms order).progs i,
            ms := s.mstate, log := cbLog s.trace } := by
        simp only [seqRun, List.foldl_append, List.foldl_cons, List.foldl_nil, seqCall]
        simp only [seqRun] at hrun
        rw [hrun]
      refine ⟨order ++ [t], ?_, fun _ => ?_⟩
      · intro i
        rw [hq, hth]
        split
        · rename_i hi; subst hi
          exact ⟨fun h0 => by simp at h0, fun h0 => absurd hp h0, fun _ => ⟨r, by simp [hprog]⟩,
            fun hb => by have := hb.2.2; simp at this⟩
        · rename_i hi
          obtain ⟨r1, r2, r3, r4⟩ := hr i
          refine ⟨?_, ?_, ?_, fun hbi => absurd (hI.body_unique hwf hbi hb) hi⟩
          · simpa [hi] using r1
          · simpa [hi] using r2
          · simpa [hi] using r3
      · rw [hq, hms, hlog']
        exact ⟨rfl, rfl⟩

theorem SInv.run {c : Cfg} {L : Nat} (hwf : WF c L) (eng : Nat → Nat → Nat)
    (progs : Nat → List Op) (ms : Nat) (σ : List Nat) :
    ∀ {s : LState}, Inv c s → SInv eng progs ms s → SInv eng progs ms (runSched c eng s σ) := by
  induction σ with
  | nil => intro s _ h; exact h
  | cons t σ ih => intro s hI h; exact ih (hI.step hwf eng t) (h.step hwf eng progs ms hI t)

theorem serializable (c : Cfg) (L : Nat) (hwf : WF c L) (eng : Nat → Nat → Nat)
    (progs : Nat → List Op) (ms : Nat) (σ : List Nat) :
    let s := runSched c eng (init progs ms) σ
    ∃ order : List Nat,
      let q := seqRun eng progs ms order
      (∀ t, (s.th t).frames = [] → q.progs t = (s.th t).prog) ∧
      ((∀ t, (s.th t).frames = [] ∨ (s.th t).pend ≠ [] ∨ (s.th t).exiting = true) →
        q.ms = s.mstate ∧ q.log = cbLog s.trace) := by
  intro s
  obtain ⟨order, hr, hg⟩ :=
    SInv.run hwf eng progs ms σ (Inv.init c progs ms) (SInv.init eng progs ms)
  refine ⟨order, fun t => (hr t).1, fun hn => hg ?_⟩
  intro i hb
  rcases hn i with h | h | h
  · exact hb.1 h
  · exact h hb.2.1
  · rw [hb.2.2] at h; exact absurd h (by simp)

end C06P
end Locked
end TM
