/-
  Proofs/C05M.lean — property C05 on the asynchronous flat engine, `queued='model'` (qm = 2: one queue per model):
  the simulation between `Async.drain` / `Async.eventTrigger` / `Async.runCmd` and the per-model acceptor
  `C05M.run` (a STACK of draining sessions), as an instance of the skeleton `Proofs/C05AGen.lean`.

  Unlike the machine-wide queue (`Proofs/C05A.lean`) a trigger awaited from a callback may run a whole nested
  draining session (its model's queue is empty), so the interpreter lemma `msubOK_runCmd` is an induction on the fuel.
-/
import Proofs.C05AGen
import Proofs.C05
import Model.Spec.C05M

namespace TM
namespace M5
open C05 C05M A5
open N5 (Acc)

abbrev QE := Nat × Nat × Nat

/-! ### the queue of one model, as the acceptor sees it -/

/-- pending `(tag, model)` of model `m`, arrival order -/
def qv (m : Nat) (q : List QE) : List (Nat × Nat) := (q.filter fun e => e.1 = m).map key

theorem qOf_two (m : Nat) (q : List QE) : Async.qOf 2 m q = q.filter (fun e => e.1 = m) := by
  simp [Async.qOf]

theorem qPop_two (m : Nat) (q : List QE) : Async.qPop 2 m q = Async.eraseFirst m q := by
  simp [Async.qPop]

theorem qClear_two (m : Nat) (q : List QE) : Async.qClear 2 m q = q.filter (fun e => e.1 ≠ m) := by
  simp [Async.qClear]

theorem qv_nil (m : Nat) : qv m [] = [] := rfl

theorem qv_append_same (m ev t : Nat) (q : List QE) : qv m (q ++ [(m, ev, t)]) = qv m q ++ [(t, m)] := by
  simp [qv, List.filter_append, key]

theorem qv_append_other {m m' : Nat} (ev t : Nat) (q : List QE) (h : m' ≠ m) :
    qv m' (q ++ [(m, ev, t)]) = qv m' q := by
  simp [qv, List.filter_append, h.symm]

theorem mem_qv {m : Nat} {q : List QE} {k : Nat × Nat} (h : k ∈ qv m q) : k.2 = m := by
  simp only [qv, List.mem_map, List.mem_filter, decide_eq_true_eq] at h
  obtain ⟨e, ⟨_, he⟩, rfl⟩ := h
  exact he

theorem qv_eq_nil_iff {m : Nat} {q : List QE} : qv m q = [] ↔ ∀ e ∈ q, e.1 ≠ m := by
  simp [qv, List.filter_eq_nil_iff]

theorem qv_eraseFirst_same (m : Nat) : ∀ q : List QE, qv m (Async.eraseFirst m q) = (qv m q).drop 1
  | [] => rfl
  | e :: r => by
    by_cases he : e.1 = m
    · simp [Async.eraseFirst, he, qv]
    · have ih := qv_eraseFirst_same m r
      simp only [qv] at ih
      simp [Async.eraseFirst, he, qv, ih]

theorem qv_eraseFirst_other {m m' : Nat} (h : m' ≠ m) : ∀ q : List QE, qv m' (Async.eraseFirst m q) = qv m' q
  | [] => rfl
  | e :: r => by
    by_cases he : e.1 = m
    · have h' : ¬ e.1 = m' := fun h' => h (h'.symm.trans he)
      have h1 : Async.eraseFirst m (e :: r) = r := by simp only [Async.eraseFirst, he, if_true]
      rw [h1]
      simp only [qv, List.filter_cons, h', decide_false, Bool.false_eq_true, if_false]
    · have ih := qv_eraseFirst_other h r
      have h1 : Async.eraseFirst m (e :: r) = e :: Async.eraseFirst m r := by
        simp only [Async.eraseFirst, he, if_false]
      rw [h1]
      simp only [qv] at ih
      simp only [qv, List.filter_cons]
      by_cases he' : e.1 = m'
      · simp only [he', decide_true, if_true, List.map_cons, ih]
      · simp only [he', decide_false, Bool.false_eq_true, if_false, ih]

theorem eraseFirst_sublist (m : Nat) : ∀ q : List QE, (Async.eraseFirst m q).Sublist q
  | [] => List.Sublist.refl _
  | e :: r => by
    by_cases he : e.1 = m
    · simp [Async.eraseFirst, he]
    · simp only [Async.eraseFirst, he, if_false]
      exact (eraseFirst_sublist m r).cons_cons e

theorem qv_clear_same (m : Nat) (q : List QE) : qv m (q.filter (fun e => e.1 ≠ m)) = [] := by
  rw [qv_eq_nil_iff]
  intro e he
  simp only [List.mem_filter, decide_eq_true_eq] at he
  exact he.2

theorem qv_clear_other {m m' : Nat} (h : m' ≠ m) (q : List QE) :
    qv m' (q.filter (fun e => e.1 ≠ m)) = qv m' q := by
  simp only [qv, List.filter_filter]
  congr 1
  apply List.filter_congr
  intro e _
  by_cases he : e.1 = m' <;> simp [he, h]

/-! ### tags -/

theorem _root_.TM.TagsOK.frame {s s' : St} (h : TagsOK s) (hq : s'.queue = s.queue) (hn : s'.nextTag = s.nextTag) :
    TagsOK s' :=
  ⟨by rw [hq]; exact h.nodup, by rw [hq, hn]; exact h.lt⟩

theorem _root_.TM.TagsOK.sublist {s s' : St} (h : TagsOK s) (hq : s'.queue.Sublist s.queue) (hn : s'.nextTag = s.nextTag) :
    TagsOK s' :=
  ⟨h.nodup.sublist (hq.map _), by rw [hn]; intro e he; exact h.lt e (hq.subset he)⟩

theorem _root_.TM.TagsOK.push {s s' : St} (h : TagsOK s) (m ev : Nat) (hq : s'.queue = s.queue ++ [(m, ev, s.nextTag)])
    (hn : s'.nextTag = s.nextTag + 1) : TagsOK s' := by
  refine ⟨?_, ?_⟩
  · rw [hq, List.map_append, List.nodup_append]
    refine ⟨h.nodup, by simp, ?_⟩
    intro a ha b hb
    simp at hb
    subst hb
    obtain ⟨e, he, rfl⟩ := List.mem_map.mp ha
    exact Nat.ne_of_lt (h.lt e he)
  · intro e he
    rw [hn]
    rw [hq] at he
    rcases List.mem_append.mp he with h1 | h1
    · exact Nat.lt_succ_of_lt (h.lt e h1)
    · simp at h1; subst h1; exact Nat.lt_succ_self _

/-- the tags of one model's queue are pairwise distinct -/
theorem _root_.TM.TagsOK.qv_nodup {s : St} (h : TagsOK s) (m : Nat) : ((qv m s.queue).map (·.1)).Nodup := by
  have : (qv m s.queue).map (·.1) = (s.queue.filter fun e => e.1 = m).map (·.2.2) := by
    simp [qv, key, Function.comp_def]
  rw [this]
  exact h.nodup.sublist (List.filter_sublist.map _)

/-! ### the acceptor -/

theorem run_append (fin0 : Nat) : ∀ (a b : List Item) (ms : MS),
    run fin0 ms (a ++ b) = (run fin0 ms a).bind fun ms' => run fin0 ms' b
  | [], b, ms => rfl
  | i :: a, b, ms => by
    simp only [List.cons_append, run]
    cases step fin0 ms i with
    | none => rfl
    | some ms1 => simp only [Option.bind_some]; exact run_append fin0 a b ms1

theorem run_trans {fin0 : Nat} {a b c : MS} {s1 s2 : List Item} (h1 : run fin0 a s1 = some b)
    (h2 : run fin0 b s2 = some c) : run fin0 a (s1 ++ s2) = some c := by
  rw [run_append, h1]; exact h2

def accM (fin0 : Nat) : Acc MS :=
  ⟨fun ms seg ms' => run fin0 ms seg = some ms', fun _ => rfl,
    fun {a b c s1 s2} h1 h2 => by rw [run_append, h1]; exact h2⟩

theorem run_one (fin0 : Nat) (ms : MS) (i : Item) : run fin0 ms [i] = step fin0 ms i := by
  simp only [run]
  cases step fin0 ms i <;> rfl

theorem run_two (fin0 : Nat) (ms : MS) (i j : Item) :
    run fin0 ms [i, j] = (step fin0 ms i).bind fun ms' => step fin0 ms' j := by
  simp only [run]
  cases step fin0 ms i with
  | none => rfl
  | some ms1 => simp only [Option.bind_some]; cases step fin0 ms1 j <;> rfl

theorem adv_done (fin0 : Nat) (ms : MS) (c : Nat) (o : Out) : run fin0 ms [.done c o] = some ms := by
  rw [run_one]; rfl

theorem adv_call_sync (fin0 : Nat) (ms : MS) (σ : Q) (st : List Q) (sl : Slot) (c m t sv : Nat)
    (rest : List (Nat × Nat)) (hp : ms.pend = none) (hs : ms.stack = σ :: st)
    (hq : σ.q = (t, m) :: rest) (hf : σ.fin = false) :
    run fin0 ms [.call sl c m t sv] = some { stack := { σ with fin := decide (sl = .finalize ∧ c = fin0) } :: st } := by
  rw [run_one]
  simp [step, hp, hs, callStep, hq, hf]

theorem adv_call_lag (fin0 : Nat) (ms : MS) (σ : Q) (st : List Q) (sl : Slot) (c m t sv : Nat) (h : Nat × Nat)
    (rest : List (Nat × Nat)) (hp : ms.pend = none) (hs : ms.stack = σ :: st)
    (hq : σ.q = h :: (t, m) :: rest) (hf : σ.fin = true) (hne : h.1 ≠ t) :
    run fin0 ms [.call sl c m t sv] =
      some { stack := { σ with q := (t, m) :: rest, fin := decide (sl = .finalize ∧ c = fin0) } :: st } := by
  rw [run_one]
  obtain ⟨h1, h2⟩ := h
  simp at hne
  simp [step, hp, hs, callStep, hq, hf, hne]

theorem adv_call_fin (fin0 : Nat) (ms : MS) (σ : Q) (st : List Q) (c m t sv : Nat)
    (rest : List (Nat × Nat)) (hp : ms.pend = none) (hs : ms.stack = σ :: st)
    (hq : σ.q = (t, m) :: rest) (hf : σ.fin = true) (hc : c ≠ fin0) :
    run fin0 ms [.call .finalize c m t sv] = some { stack := σ :: st } := by
  rw [run_one]
  simp [step, hp, hs, callStep, hq, hf, hc]

theorem busyIn_iff (m : Nat) (st : List Q) : busyIn m st = true ↔ some m ∈ st.map modelOf := by
  simp only [busyIn, List.any_eq_true, beq_iff_eq, List.mem_map]

/-- a refused trigger (answered False at once) leaves the stack as it is, whether its model has a session or not -/
theorem adv_refused (fin0 : Nat) (ms : MS) (t m ev : Nat) (hp : ms.pend = none) :
    run fin0 ms [.api 0 t m ev, .ret t false] = some { stack := ms.stack } := by
  rw [run_two]
  by_cases hb : busyIn m ms.stack = true
  · simp [step, hp, hb]
  · simp [step, hp, hb]

theorem adv_refused_exc (fin0 : Nat) (ms : MS) (t m ev : Nat) (e : Exc) (hp : ms.pend = none) :
    run fin0 ms [.api 0 t m ev, .raised t e] = some { stack := ms.stack } := by
  rw [run_two]
  by_cases hb : busyIn m ms.stack = true
  · simp [step, hp, hb]
  · simp [step, hp, hb]

/-- a trigger on a model that has a session, answered True: deferred to that session -/
theorem adv_deferred (fin0 : Nat) (ms : MS) (t m ev : Nat) (st' : List Q) (hp : ms.pend = none)
    (hb : busyIn m ms.stack = true) (hd : defer t m ms.stack = some st') :
    run fin0 ms [.api 0 t m ev, .ret t true] = some { stack := st' } := by
  rw [run_two]
  simp [step, hp, hb, hd]

/-- a trigger on a model without a session opens one on top of the stack -/
theorem adv_open (fin0 : Nat) (ms : MS) (t m ev : Nat) (hp : ms.pend = none) (hb : busyIn m ms.stack = false) :
    run fin0 ms [.api 0 t m ev] =
      some { stack := { owner := t, q := [(t, m)], fin := false } :: ms.stack, fresh := true } := by
  rw [run_one]
  simp [step, hp, hb]

theorem adv_close (fin0 : Nat) (ms : MS) (σ : Q) (st : List Q) (hp : ms.pend = none) (hs : ms.stack = σ :: st)
    (hl : σ.q.length = 1) (hf : σ.fin = true) :
    run fin0 ms [.ret σ.owner true] = some { stack := st } := by
  rw [run_one]
  simp [step, hp, hs, hl, hf]

theorem adv_close_exc (fin0 : Nat) (ms : MS) (σ : Q) (st : List Q) (e : Exc) (hp : ms.pend = none)
    (hs : ms.stack = σ :: st) :
    run fin0 ms [.raised σ.owner e] = some { stack := st } := by
  rw [run_one]
  simp [step, hp, hs]

/-! ### the simulation relation -/

/-- a session suspended inside one of its callbacks is exactly in step with its model's queue -/
def InSync (σ : Q) (q : List QE) : Prop := ∃ m, modelOf σ = some m ∧ qv m q = σ.q

/-- enclosing sessions only ever get deferred triggers appended -/
def Ext : List Q → List Q → Prop
  | [], [] => True
  | a :: as, b :: bs => (b.owner = a.owner ∧ b.fin = a.fin ∧ ∃ suf, b.q = a.q ++ suf) ∧ Ext as bs
  | _, _ => False

theorem Ext.refl : ∀ l, Ext l l
  | [] => trivial
  | a :: as => ⟨⟨rfl, rfl, [], by simp⟩, Ext.refl as⟩

theorem Ext.trans : ∀ {a b c : List Q}, Ext a b → Ext b c → Ext a c
  | [], [], [], _, _ => trivial
  | a :: as, b :: bs, c :: cs, ⟨⟨o1, f1, s1, q1⟩, h1⟩, ⟨⟨o2, f2, s2, q2⟩, h2⟩ =>
    ⟨⟨o2.trans o1, f2.trans f1, s1 ++ s2, by rw [q2, q1, List.append_assoc]⟩, Ext.trans h1 h2⟩
  | [], [], _ :: _, _, h => h.elim
  | [], _ :: _, _, h, _ => h.elim
  | _ :: _, [], _, h, _ => h.elim
  | _ :: _, _ :: _, [], _, h => h.elim

theorem Ext.nil_left : ∀ {b : List Q}, Ext [] b → b = []
  | [], _ => rfl
  | _ :: _, h => h.elim

/-- the sessions below the innermost one (which drains the queue of `m`): distinct models, each in step with its
model's queue, and every pending entry belongs to some session -/
structure Lower (below0 below : List Q) (q : List QE) (m : Nat) : Prop where
  ext : Ext below0 below
  sync : ∀ σ ∈ below, InSync σ q
  nodup : (some m :: below.map modelOf).Nodup
  cover : ∀ e ∈ q, e.1 = m ∨ some e.1 ∈ below.map modelOf

/-- the same once the innermost session has nothing pending any more -/
structure LowerDone (below0 below : List Q) (q : List QE) : Prop where
  ext : Ext below0 below
  sync : ∀ σ ∈ below, InSync σ q
  nodup : (below.map modelOf).Nodup
  cover : ∀ e ∈ q, some e.1 ∈ below.map modelOf

theorem InSync.frame {σ : Q} {q q' : List QE} (h : InSync σ q)
    (hq : ∀ m', modelOf σ = some m' → qv m' q' = qv m' q) : InSync σ q' := by
  obtain ⟨m, hm, hv⟩ := h
  exact ⟨m, hm, by rw [hq m hm]; exact hv⟩

/-- the innermost session's own queue changes (append / pop / clear): nothing below is affected -/
theorem Lower.frame_top {below0 below : List Q} {q q' : List QE} {m : Nat} (h : Lower below0 below q m)
    (hq : ∀ m', m' ≠ m → qv m' q' = qv m' q) (hc : ∀ e ∈ q', e ∈ q ∨ e.1 = m) : Lower below0 below q' m := by
  refine ⟨h.ext, ?_, h.nodup, ?_⟩
  · intro σ hσ
    refine (h.sync σ hσ).frame ?_
    intro m' hm'
    refine hq m' ?_
    intro hmm
    subst hmm
    have := h.nodup
    simp only [List.nodup_cons] at this
    exact this.1 (List.mem_map.mpr ⟨σ, hσ, hm'⟩)
  · intro e he
    rcases hc e he with h1 | h1
    · exact h.cover e h1
    · exact Or.inl h1

theorem Lower.toDone {below0 below : List Q} {q : List QE} {m : Nat} (h : Lower below0 below q m)
    (h0 : qv m q = []) : LowerDone below0 below q := by
  refine ⟨h.ext, h.sync, (List.nodup_cons.mp h.nodup).2, ?_⟩
  intro e he
  rcases h.cover e he with h1 | h1
  · exact absurd h1 (qv_eq_nil_iff.mp h0 e he)
  · exact h1

/-- in step, inside the block of the event `x` (innermost session `σ`, owner `d`), after at least one of its
callbacks has started -/
structure SynT (d : Nat) (below0 : List Q) (x : Ctx) (f : Bool) (σ : Q) (below : List Q) (s : St) : Prop where
  owner : σ.owner = d
  head : (qv x.model s.queue).head? = some (x.tag, x.model)
  tags : TagsOK s
  rel : qv x.model s.queue = σ.q
  fin : σ.fin = f
  low : Lower below0 below s.queue x.model

/-- anywhere in the block of `x` before its finalize stage: in step, or the session still shows the completed
previous head (lazy pop) -/
structure BlkT (d : Nat) (below0 : List Q) (x : Ctx) (σ : Q) (below : List Q) (s : St) : Prop where
  owner : σ.owner = d
  head : (qv x.model s.queue).head? = some (x.tag, x.model)
  tags : TagsOK s
  rel : (qv x.model s.queue = σ.q ∧ σ.fin = false) ∨
        (σ.fin = true ∧ ∃ h, h.1 ≠ x.tag ∧ h.2 = x.model ∧ σ.q = h :: qv x.model s.queue)
  low : Lower below0 below s.queue x.model

/-- what survives when the event raises -/
structure AnyT (d : Nat) (below0 : List Q) (x : Ctx) (σ : Q) (below : List Q) (s : St) : Prop where
  owner : σ.owner = d
  tags : TagsOK s
  low : Lower below0 below s.queue x.model

def SynM (d : Nat) (below0 : List Q) (x : Ctx) (f : Bool) (ms : MS) (s : St) : Prop :=
  ms.pend = none ∧ ∃ σ below, ms.stack = σ :: below ∧ SynT d below0 x f σ below s

def BlkM (d : Nat) (below0 : List Q) (x : Ctx) (ms : MS) (s : St) : Prop :=
  ms.pend = none ∧ ∃ σ below, ms.stack = σ :: below ∧ BlkT d below0 x σ below s

def AnyM (d : Nat) (below0 : List Q) (x : Ctx) (ms : MS) (s : St) : Prop :=
  ms.pend = none ∧ ∃ σ below, ms.stack = σ :: below ∧ AnyT d below0 x σ below s

theorem SynT.frame {d : Nat} {below0 : List Q} {x : Ctx} {f : Bool} {σ : Q} {below : List Q} {s s' : St}
    (h : SynT d below0 x f σ below s) (hq : s'.queue = s.queue) (hn : s'.nextTag = s.nextTag) :
    SynT d below0 x f σ below s' :=
  ⟨h.owner, by rw [hq]; exact h.head, h.tags.frame hq hn, by rw [hq]; exact h.rel, h.fin, by rw [hq]; exact h.low⟩

theorem BlkT.frame {d : Nat} {below0 : List Q} {x : Ctx} {σ : Q} {below : List Q} {s s' : St}
    (h : BlkT d below0 x σ below s) (hq : s'.queue = s.queue) (hn : s'.nextTag = s.nextTag) :
    BlkT d below0 x σ below s' :=
  ⟨h.owner, by rw [hq]; exact h.head, h.tags.frame hq hn, by rw [hq]; exact h.rel, by rw [hq]; exact h.low⟩

theorem SynM.frame {d : Nat} {below0 : List Q} {x : Ctx} {f : Bool} {ms : MS} {s s' : St}
    (h : SynM d below0 x f ms s) (hq : s'.queue = s.queue) (hn : s'.nextTag = s.nextTag) :
    SynM d below0 x f ms s' := by
  obtain ⟨hp, σ, below, hs, hT⟩ := h
  exact ⟨hp, σ, below, hs, hT.frame hq hn⟩

theorem BlkM.frame {d : Nat} {below0 : List Q} {x : Ctx} {ms : MS} {s s' : St}
    (h : BlkM d below0 x ms s) (hq : s'.queue = s.queue) (hn : s'.nextTag = s.nextTag) :
    BlkM d below0 x ms s' := by
  obtain ⟨hp, σ, below, hs, hT⟩ := h
  exact ⟨hp, σ, below, hs, hT.frame hq hn⟩

/-- the predicates do not look at the `fresh` flag -/
theorem SynM.of_stack {d : Nat} {below0 : List Q} {x : Ctx} {f : Bool} {ms ms' : MS} {s : St}
    (h : SynM d below0 x f ms s) (hp : ms'.pend = none) (hs : ms'.stack = ms.stack) : SynM d below0 x f ms' s := by
  obtain ⟨_, σ, below, hs0, hT⟩ := h
  exact ⟨hp, σ, below, hs.trans hs0, hT⟩

/-- what awaited triggers must guarantee while the innermost session is busy with the event `x` -/
def MSubOK (fin0 : Nat) (sub : Sub) : Prop :=
  ∀ (d : Nat) (below0 : List Q) (x : Ctx) (f : Bool) (c : Cmd) (ms : MS) (s : St), SynM d below0 x f ms s →
    APost (accM fin0) (SynM d below0 x f) (SynM d below0 x f) ms s.log (sub c s)

/-- the `call` item of a callback of the event in progress, whatever the session's lag: afterwards in step -/
theorem call_step (fin0 d : Nat) (below0 : List Q) (x : Ctx) (slot : Slot) (c sv : Nat) (ms : MS) (s : St)
    (hb : BlkM d below0 x ms s) :
    ∃ ms1, run fin0 ms [.call slot c x.model x.tag sv] = some ms1 ∧
      SynM d below0 x (decide (slot = Slot.finalize ∧ c = fin0)) ms1 s := by
  obtain ⟨hp, σ, below, hs, hT⟩ := hb
  cases hq : qv x.model s.queue with
  | nil => have := hT.head; simp [hq] at this
  | cons k rest =>
    have hk : k = (x.tag, x.model) := by have := hT.head; simpa [hq] using this
    subst hk
    rcases hT.rel with ⟨hr, hf⟩ | ⟨hf, h, hne, _, hr⟩
    · exact ⟨_, adv_call_sync fin0 ms σ below slot c x.model x.tag sv rest hp hs (by rw [← hr, hq]) hf, rfl, _, _, rfl,
        ⟨hT.owner, hT.head, hT.tags, hr, rfl, hT.low⟩⟩
    · exact ⟨_, adv_call_lag fin0 ms σ below slot c x.model x.tag sv h rest hp hs (by rw [hr, hq]) hf hne, rfl, _, _, rfl,
        ⟨hT.owner, hT.head, hT.tags, hq, rfl, hT.low⟩⟩

/-- the skeleton's interface, for the stack of per-model sessions -/
def blockM (fin0 d : Nat) (below0 : List Q) (sub : Sub) (hsub : MSubOK fin0 sub) (x : Ctx) :
    Block (accM fin0) sub x where
  Blk := BlkM d below0 x
  Syn := SynM d below0 x
  Any := AnyM d below0 x
  toBlk := fun ⟨hp, σ, below, hs, hT⟩ =>
    ⟨hp, σ, below, hs, ⟨hT.owner, hT.head, hT.tags, Or.inl ⟨hT.rel, hT.fin⟩, hT.low⟩⟩
  blkAny := fun ⟨hp, σ, below, hs, hT⟩ => ⟨hp, σ, below, hs, ⟨hT.owner, hT.tags, hT.low⟩⟩
  synAny := fun ⟨hp, σ, below, hs, hT⟩ => ⟨hp, σ, below, hs, ⟨hT.owner, hT.tags, hT.low⟩⟩
  blkFrame := fun h hq hn => h.frame hq hn
  synFrame := fun h hq hn => h.frame hq hn
  callBlk := by
    intro ms s slot c sv hslot hb
    obtain ⟨ms1, a1, h1⟩ := call_step fin0 d below0 x slot c sv ms s hb
    have hd : decide (slot = Slot.finalize ∧ c = fin0) = false := by simp [hslot]
    rw [hd] at h1
    exact ⟨ms1, a1, h1⟩
  done := fun ms c o => adv_done fin0 ms c o
  sub := fun f c ms s h => hsub d below0 x f c ms s h

/-- the finalize stage: the first finalize callback (`fin0`, the visibility marker) tells the session that the
event has reached its finalize stage, the others keep it there -/
theorem finalize_post (fin0 d : Nat) (below0 : List Q) (sub : Sub) (hsub : MSubOK fin0 sub) (sc : Script)
    (kd : Async.Kinds) (cfg : Cfg) (rest : List Nat) (hfin : cfg.finalize = fin0 :: rest) (hnot : fin0 ∉ rest)
    (x : Ctx) (ms : MS) (s : St) (hb : BlkM d below0 x ms s) :
    APost (accM fin0) (SynM d below0 x true) (SynM d below0 x true) ms s.log
      (Async.callbacks sub sc kd .finalize x cfg.finalize s) := by
  rw [hfin]
  unfold Async.callbacks
  refine APost.map _ ?_
  refine gather_of_startAll (blockM fin0 d below0 sub hsub x) sc kd (SynM d below0 x true)
    (fun h hq hn => h.frame hq hn) _ ms s ?_
  simp only [List.map_cons]
  rw [startAll_eq]
  obtain ⟨ms1, a1, h1⟩ := call_step fin0 d below0 x .finalize fin0 (s.stateOf x.model) ms s hb
  have hd : decide (Slot.finalize = Slot.finalize ∧ fin0 = fin0) = true := by simp
  rw [hd] at h1
  refine OPost.cons (start_post (blockM fin0 d below0 sub hsub x) sc kd true
    { slot := .finalize, cb := fin0 } ms ms1 s a1 h1) ?_
  intro e ms2 s2 h2
  have ih := startAll_syn (blockM fin0 d below0 sub hsub x) sc kd true
    (rest.map fun c => ({ slot := .finalize, cb := c } : Async.Job)) ?_ ms2 s2 h2
  · show OPost (accM fin0) (SynM d below0 x true) ms2 s2.log
      ((Async.startAll sub sc kd x (rest.map fun c => ({ slot := .finalize, cb := c } : Async.Job)) s2).map
        fun q => (e :: q.1, q.2))
    cases hr : Async.startAll sub sc kd x (rest.map fun c => ({ slot := .finalize, cb := c } : Async.Job)) s2 with
    | none => trivial
    | some q => obtain ⟨es, s3⟩ := q; rw [hr] at ih; exact ih
  · intro j hj ms3 s3 sv h3
    obtain ⟨c, hc, rfl⟩ := List.mem_map.mp hj
    have hcne : c ≠ fin0 := fun h => hnot (h ▸ hc)
    obtain ⟨hp, σ, below, hs, hT⟩ := h3
    cases hq : qv x.model s3.queue with
    | nil => have := hT.head; simp [hq] at this
    | cons k r =>
      have hk : k = (x.tag, x.model) := by have := hT.head; simpa [hq] using this
      subst hk
      exact ⟨_, adv_call_fin fin0 ms3 σ below c x.model x.tag sv r hp hs (by rw [← hT.rel, hq]) hT.fin hcne,
        rfl, σ, below, rfl, hT⟩

/-- `AsyncEvent._trigger` for the head of the innermost session's queue -/
theorem eventTrigger_postM (fin0 d : Nat) (below0 : List Q) (sub : Sub) (hsub : MSubOK fin0 sub) (sc : Script)
    (kd : Async.Kinds) (cfg : Cfg) (rest : List Nat) (hfin : cfg.finalize = fin0 :: rest) (hnot : fin0 ∉ rest)
    (ts : List Trans) (x : Ctx) (ms : MS) (s : St) (hb : BlkM d below0 x ms s) :
    APost (accM fin0) (SynM d below0 x true) (AnyM d below0 x) ms s.log
      (Async.eventTrigger sub sc kd cfg ts x s) :=
  A5.eventTrigger_post (blockM fin0 d below0 sub hsub x) sc kd cfg
    (fun ms1 s1 h1 => finalize_post fin0 d below0 sub hsub sc kd cfg rest hfin hnot x ms1 s1 h1) ts ms s hb

/-! ### the drain loop of one session -/

/-- precondition of the drain loop of the innermost session (owner `d`, model `m`): in step with a fresh head, or
still showing the finalized previous head -/
def DrainPreM (d : Nat) (below0 : List Q) (m : Nat) (ms : MS) (s : St) : Prop :=
  ms.pend = none ∧ ∃ σ below, ms.stack = σ :: below ∧ σ.owner = d ∧ TagsOK s ∧ Lower below0 below s.queue m ∧
    ((qv m s.queue = σ.q ∧ σ.fin = false ∧ qv m s.queue ≠ []) ∨
     (σ.fin = true ∧ ∃ h, h.2 = m ∧ σ.q = h :: qv m s.queue ∧ ∀ e ∈ qv m s.queue, e.1 ≠ h.1))

/-- the loop has emptied the queue of `m`: exactly the finished head is left in the session -/
def DoneOk (d : Nat) (below0 : List Q) (m : Nat) (ms' : MS) (s' : St) : Prop :=
  ms'.pend = none ∧ ∃ σ' below', ms'.stack = σ' :: below' ∧ σ'.owner = d ∧ σ'.fin = true ∧ σ'.q.length = 1 ∧
    qv m s'.queue = [] ∧ TagsOK s' ∧ LowerDone below0 below' s'.queue

/-- an exception escaped: the queue of `m` has been cleared, the session is still on the stack -/
def DoneErr (d : Nat) (below0 : List Q) (m : Nat) (ms' : MS) (s' : St) : Prop :=
  ms'.pend = none ∧ ∃ σ' below', ms'.stack = σ' :: below' ∧ σ'.owner = d ∧
    qv m s'.queue = [] ∧ TagsOK s' ∧ LowerDone below0 below' s'.queue

theorem adrainM_post (fin0 : Nat) (sc : Script) (kd : Async.Kinds) (cfg : Cfg) (sub : Sub) (hsub : MSubOK fin0 sub)
    (rest : List Nat) (hfin : cfg.finalize = fin0 :: rest) (hnot : fin0 ∉ rest) (d : Nat) (below0 : List Q) (m : Nat) :
    ∀ (n : Nat) (ms : MS) (s : St), DrainPreM d below0 m ms s →
      APost (accM fin0) (DoneOk d below0 m) (DoneErr d below0 m) ms s.log (Async.drain sub sc kd cfg 2 m n s) := by
  intro n
  induction n with
  | zero => intro ms s _; trivial
  | succ n ih =>
    intro ms s ⟨hp, σ, below, hs, ho, htags, hlow, hrel⟩
    cases hq : s.queue.filter (fun e => e.1 = m) with
    | nil =>
      simp only [Async.drain, qOf_two, hq]
      have hqv : qv m s.queue = [] := by simp [qv, hq]
      rcases hrel with ⟨_, _, hne⟩ | ⟨hf, h, _, hσ, _⟩
      · exact absurd hqv hne
      · exact ⟨ms, [], by simp, rfl, hp, σ, below, hs, ho, hf, by rw [hσ, hqv]; rfl, hqv, htags, hlow.toDone hqv⟩
    | cons e0 r0 =>
      obtain ⟨m', ev, tag⟩ := e0
      have hm' : m' = m := by
        have : (m', ev, tag) ∈ s.queue.filter (fun e => e.1 = m) := by rw [hq]; exact List.mem_cons_self ..
        simpa using (List.mem_filter.mp this).2
      subst hm'
      simp only [Async.drain, qOf_two, hq]
      have hqv : qv m' s.queue = (tag, m') :: r0.map key := by simp [qv, hq, key]
      have hb : BlkM d below0 ⟨m', tag⟩ ms s := by
        refine ⟨hp, σ, below, hs, ⟨ho, by rw [hqv]; rfl, htags, ?_, hlow⟩⟩
        rcases hrel with ⟨h1, h2, _⟩ | ⟨hf, h, hm, hσ, hne⟩
        · exact Or.inl ⟨h1, h2⟩
        · exact Or.inr ⟨hf, h, (hne (tag, m') (by rw [hqv]; exact List.mem_cons_self ..)).symm, hm, hσ⟩
      have hpost := eventTrigger_postM fin0 d below0 sub hsub sc kd cfg rest hfin hnot ((cfg.event? ev).getD [])
        ⟨m', tag⟩ ms s hb
      cases hr : Async.eventTrigger sub sc kd cfg ((cfg.event? ev).getD []) ⟨m', tag⟩ s with
      | oof => trivial
      | err e s1 =>
        rw [hr] at hpost
        obtain ⟨ms1, seg1, l1, a1, hp1, σ1, below1, hs1, hT1⟩ := hpost
        refine ⟨ms1, seg1, l1, a1, hp1, σ1, below1, hs1, hT1.owner, ?_, ?_, ?_⟩
        · show qv m' (Async.qClear 2 m' s1.queue) = []
          rw [qClear_two]; exact qv_clear_same m' s1.queue
        · refine hT1.tags.sublist ?_ rfl
          show (Async.qClear 2 m' s1.queue).Sublist s1.queue
          rw [qClear_two]; exact List.filter_sublist
        · show LowerDone below0 below1 (Async.qClear 2 m' s1.queue)
          rw [qClear_two]
          refine Lower.toDone (m := m') (hT1.low.frame_top (fun m2 h2 => qv_clear_other h2 _) ?_) (qv_clear_same m' _)
          intro e he
          exact Or.inl (List.mem_filter.mp he).1
      | ok b s1 =>
        rw [hr] at hpost
        obtain ⟨ms1, seg1, l1, a1, hp1, σ1, below1, hs1, hT1⟩ := hpost
        -- popleft
        have hpre : DrainPreM d below0 m' ms1 { s1 with queue := Async.qPop 2 m' s1.queue } := by
          refine ⟨hp1, σ1, below1, hs1, hT1.owner, ?_, ?_, ?_⟩
          · refine hT1.tags.sublist ?_ rfl
            show (Async.qPop 2 m' s1.queue).Sublist s1.queue
            rw [qPop_two]; exact eraseFirst_sublist _ _
          · show Lower below0 below1 (Async.qPop 2 m' s1.queue) m'
            rw [qPop_two]
            refine hT1.low.frame_top (fun m2 h2 => qv_eraseFirst_other h2 _) ?_
            intro e he
            exact Or.inl ((eraseFirst_sublist _ _).subset he)
          · show (qv m' (Async.qPop 2 m' s1.queue) = σ1.q ∧ _) ∨ (σ1.fin = true ∧ ∃ h, h.2 = m' ∧
              σ1.q = h :: qv m' (Async.qPop 2 m' s1.queue) ∧ ∀ e ∈ qv m' (Async.qPop 2 m' s1.queue), e.1 ≠ h.1)
            rw [qPop_two, qv_eraseFirst_same]
            have hnd := hT1.tags.qv_nodup m'
            cases hq1 : qv m' s1.queue with
            | nil => have := hT1.head; simp [hq1] at this
            | cons k r =>
              have hk : k = (tag, m') := by have := hT1.head; simpa [hq1] using this
              subst hk
              rw [hq1] at hnd
              simp only [List.map_cons, List.nodup_cons] at hnd
              refine Or.inr ⟨hT1.fin, (tag, m'), rfl, ?_, ?_⟩
              · rw [← hT1.rel]; exact hq1
              · intro e he h
                exact hnd.1 (List.mem_map.mpr ⟨e, by simpa using he, h⟩)
        have h2 := ih ms1 { s1 with queue := Async.qPop 2 m' s1.queue } hpre
        show APost (accM fin0) _ _ ms s.log
          (Async.drain sub sc kd cfg 2 m' n { s1 with queue := Async.qPop 2 m' s1.queue })
        exact APost.pre (A := accM fin0) a1 (by rw [← l1]; exact h2)

/-! ### awaited triggers: deferred to a session, or a nested session -/

theorem modelOf_append {σ : Q} {m : Nat} (h : modelOf σ = some m) (l : List (Nat × Nat)) :
    modelOf { σ with q := σ.q ++ l } = some m := by
  cases hq : σ.q with
  | nil => simp [modelOf, hq] at h
  | cons k r => simp only [modelOf, hq] at h ⊢; exact h

theorem modelOf_of_head {σ : Q} {t m : Nat} (h : σ.q.head? = some (t, m)) : modelOf σ = some m := by
  simp [modelOf, h]

theorem InSync.ne_nil {σ : Q} {q : List QE} {m : Nat} (h : InSync σ q) (hm : modelOf σ = some m) : qv m q ≠ [] := by
  obtain ⟨m1, hm1, hv⟩ := h
  rw [hm] at hm1
  cases hm1
  intro h0
  rw [h0] at hv
  simp [modelOf, ← hv] at hm

/-- `defer` finds the session of `m` below the innermost one and appends there: everything `Lower` says survives -/
theorem defer_below (t m ev : Nat) (q : List QE) : ∀ (below : List Q), some m ∈ below.map modelOf →
    (∀ σ ∈ below, InSync σ q) → (below.map modelOf).Nodup →
    ∃ below', defer t m below = some below' ∧ Ext below below' ∧ below'.map modelOf = below.map modelOf ∧
      (∀ σ ∈ below', InSync σ (q ++ [(m, ev, t)]))
  | [], hmem, _, _ => by simp at hmem
  | σ :: rest, hmem, hsync, hnd => by
    simp only [List.map_cons, List.nodup_cons] at hnd
    by_cases hm : modelOf σ = some m
    · refine ⟨{ σ with q := σ.q ++ [(t, m)] } :: rest, by simp [defer, hm], ⟨⟨rfl, rfl, [(t, m)], rfl⟩, Ext.refl rest⟩,
        by simp [modelOf_append hm, hm], ?_⟩
      intro σ1 h1
      rcases List.mem_cons.mp h1 with h2 | h2
      · subst h2
        obtain ⟨m1, hm1, hv⟩ := hsync σ (List.mem_cons_self ..)
        rw [hm] at hm1
        cases hm1
        exact ⟨m, modelOf_append hm _, by rw [qv_append_same, hv]⟩
      · refine (hsync σ1 (List.mem_cons_of_mem _ h2)).frame ?_
        intro m' hm'
        refine qv_append_other ev t q ?_
        intro hmm
        rw [hmm] at hm'
        exact hnd.1 (hm ▸ List.mem_map.mpr ⟨σ1, h2, hm'⟩)
    · have hmem' : some m ∈ rest.map modelOf := by
        rcases List.mem_cons.mp hmem with h | h
        · exact absurd h.symm hm
        · exact h
      obtain ⟨rest', hd, hext, hmap, hs'⟩ := defer_below t m ev q rest hmem'
        (fun σ1 h1 => hsync σ1 (List.mem_cons_of_mem _ h1)) hnd.2
      refine ⟨σ :: rest', by simp [defer, hm, hd], ⟨⟨rfl, rfl, [], by simp⟩, hext⟩, by simp [hmap], ?_⟩
      intro σ1 h1
      rcases List.mem_cons.mp h1 with h2 | h2
      · subst h2
        refine (hsync σ1 (List.mem_cons_self ..)).frame ?_
        intro m' hm'
        refine qv_append_other ev t q ?_
        intro hmm
        rw [hmm] at hm'
        exact hm hm'
      · exact hs' σ1 h2

theorem SynT.modelOf_top {d : Nat} {below0 : List Q} {x : Ctx} {f : Bool} {σ : Q} {below : List Q} {s : St}
    (h : SynT d below0 x f σ below s) : modelOf σ = some x.model :=
  modelOf_of_head (by rw [← h.rel]; exact h.head)

theorem SynT.top_ne_nil {d : Nat} {below0 : List Q} {x : Ctx} {f : Bool} {σ : Q} {below : List Q} {s : St}
    (h : SynT d below0 x f σ below s) : qv x.model s.queue ≠ [] := by
  intro h0; have := h.head; simp [h0] at this

/-- a model with a session has something pending -/
theorem SynT.busy_ne_nil {d : Nat} {below0 : List Q} {x : Ctx} {f : Bool} {σ : Q} {below : List Q} {s : St}
    (h : SynT d below0 x f σ below s) {m : Nat} (hm : some m ∈ (σ :: below).map modelOf) : qv m s.queue ≠ [] := by
  simp only [List.map_cons, List.mem_cons] at hm
  rcases hm with h1 | h1
  · rw [h.modelOf_top] at h1
    cases h1
    exact h.top_ne_nil
  · obtain ⟨σ1, hσ1, hm1⟩ := List.mem_map.mp h1
    exact (h.low.sync σ1 hσ1).ne_nil hm1

/-- a model with something pending has a session -/
theorem SynT.busy_of_ne_nil {d : Nat} {below0 : List Q} {x : Ctx} {f : Bool} {σ : Q} {below : List Q} {s : St}
    (h : SynT d below0 x f σ below s) {m : Nat} (hm : qv m s.queue ≠ []) (hne : m ≠ x.model) :
    some m ∈ below.map modelOf := by
  apply Classical.byContradiction
  intro hno
  apply hm
  rw [qv_eq_nil_iff]
  intro e he hem
  rcases h.low.cover e he with h1 | h1
  · exact hne (hem.symm.trans h1)
  · rw [hem] at h1; exact hno h1

/-- a nested session has ended: the session it was opened from is found again, in step with its model's queue
(which may have grown by deferred triggers) -/
theorem SynT.resume {d : Nat} {below0 : List Q} {x : Ctx} {f : Bool} {σ : Q} {below : List Q} {s : St}
    (h : SynT d below0 x f σ below s) {stk : List Q} {q' : List QE} (hLD : LowerDone (σ :: below) stk q') :
    ∃ σ' below', stk = σ' :: below' ∧ σ'.owner = d ∧ σ'.fin = f ∧ qv x.model q' = σ'.q ∧
      (qv x.model q').head? = some (x.tag, x.model) ∧ Lower below0 below' q' x.model := by
  cases stk with
  | nil => exact hLD.ext.elim
  | cons σ' below' =>
    obtain ⟨⟨ho, hf, suf, hq⟩, hext⟩ := hLD.ext
    have hhead : σ'.q.head? = some (x.tag, x.model) := by
      rw [hq, ← h.rel, head?_append_of_ne _ h.top_ne_nil]; exact h.head
    have hmo : modelOf σ' = some x.model := modelOf_of_head hhead
    obtain ⟨m1, hm1, hv1⟩ := hLD.sync σ' (List.mem_cons_self ..)
    rw [hmo] at hm1
    cases hm1
    refine ⟨σ', below', rfl, ho.trans h.owner, hf.trans h.fin, hv1, by rw [hv1]; exact hhead,
      h.low.ext.trans hext, fun σ1 h1 => hLD.sync σ1 (List.mem_cons_of_mem _ h1), ?_, ?_⟩
    · have := hLD.nodup
      simp only [List.map_cons, hmo] at this
      exact this
    · intro e he
      have := hLD.cover e he
      simp only [List.map_cons, hmo, List.mem_cons, Option.some.injEq] at this
      exact this

theorem qOf_len (m ev t : Nat) (q : List QE) :
    (Async.qOf 2 m (q ++ [(m, ev, t)])).length > 1 ↔ qv m q ≠ [] := by
  rw [qOf_two]
  simp only [List.filter_append, List.filter_cons, decide_true, if_true, List.filter_nil, List.length_append,
    List.length_singleton, qv, ne_eq, List.map_eq_nil_iff]
  cases q.filter (fun e => e.1 = m) <;> simp

/-- the model of the awaited trigger has a session (the innermost one or an enclosing one): the call returns True at
once and the entry is appended to that session -/
theorem deferred_syn (fin0 d : Nat) (below0 : List Q) (x : Ctx) (f : Bool) (σ : Q) (below : List Q) (ms : MS) (s : St)
    (m ev : Nat) (hp : ms.pend = none) (hst : ms.stack = σ :: below) (hT : SynT d below0 x f σ below s)
    (hbusy : qv m s.queue ≠ []) (s2 : St) (hq2 : s2.queue = s.queue ++ [(m, ev, s.nextTag)])
    (hn2 : s2.nextTag = s.nextTag + 1) :
    ∃ ms', run fin0 ms [.api 0 s.nextTag m ev, .ret s.nextTag true] = some ms' ∧ SynM d below0 x f ms' s2 := by
  have htags : TagsOK s2 := hT.tags.push m ev hq2 hn2
  by_cases hmx : m = x.model
  · subst hmx
    have hb : busyIn x.model ms.stack = true := by
      rw [busyIn_iff, hst]; simp [hT.modelOf_top]
    have hd : defer s.nextTag x.model ms.stack = some ({ σ with q := σ.q ++ [(s.nextTag, x.model)] } :: below) := by
      rw [hst]; simp [defer, hT.modelOf_top]
    refine ⟨_, adv_deferred fin0 ms _ _ ev _ hp hb hd, rfl, _, _, rfl, ⟨hT.owner, ?_, htags, ?_, hT.fin, ?_⟩⟩
    · rw [hq2, qv_append_same, head?_append_of_ne _ hT.top_ne_nil]; exact hT.head
    · rw [hq2, qv_append_same, hT.rel]
    · rw [hq2]
      refine hT.low.frame_top (fun m' h' => qv_append_other ev _ _ h') ?_
      intro e he
      rcases List.mem_append.mp he with h1 | h1
      · exact Or.inl h1
      · simp at h1; subst h1; exact Or.inr rfl
  · have hmem : some m ∈ below.map modelOf := hT.busy_of_ne_nil hbusy hmx
    have hb : busyIn m ms.stack = true := by
      rw [busyIn_iff, hst]; exact List.mem_cons_of_mem _ hmem
    obtain ⟨below', hd', hext, hmap, hsync⟩ := defer_below s.nextTag m ev s.queue below hmem hT.low.sync
      (List.nodup_cons.mp hT.low.nodup).2
    have hne : ¬ modelOf σ = some m := by
      rw [hT.modelOf_top]; intro h; cases h; exact hmx rfl
    have hd : defer s.nextTag m ms.stack = some (σ :: below') := by
      rw [hst]; simp [defer, hne, hd']
    have hxm : x.model ≠ m := fun h => hmx h.symm
    refine ⟨_, adv_deferred fin0 ms _ _ ev _ hp hb hd, rfl, _, _, rfl, ⟨hT.owner, ?_, htags, ?_, hT.fin, ?_⟩⟩
    · rw [hq2, qv_append_other ev _ _ hxm]; exact hT.head
    · rw [hq2, qv_append_other ev _ _ hxm]; exact hT.rel
    · rw [hq2]
      refine ⟨hT.low.ext.trans hext, hsync, by rw [hmap]; exact hT.low.nodup, ?_⟩
      intro e he
      rw [hmap]
      rcases List.mem_append.mp he with h1 | h1
      · exact hT.low.cover e h1
      · simp at h1; subst h1; exact Or.inr hmem

/-- the model of the awaited trigger has no session: one is opened on top of the stack, and the engine starts
draining that model's queue -/
theorem nested_pre (fin0 d : Nat) (below0 : List Q) (x : Ctx) (f : Bool) (σ : Q) (below : List Q) (ms : MS) (s : St)
    (m ev : Nat) (hp : ms.pend = none) (hst : ms.stack = σ :: below) (hT : SynT d below0 x f σ below s)
    (hidle : qv m s.queue = []) (s2 : St) (hq2 : s2.queue = s.queue ++ [(m, ev, s.nextTag)])
    (hn2 : s2.nextTag = s.nextTag + 1) :
    ∃ ms1, run fin0 ms [.api 0 s.nextTag m ev] = some ms1 ∧ DrainPreM s.nextTag (σ :: below) m ms1 s2 := by
  have hnb : some m ∉ (σ :: below).map modelOf := fun h => hT.busy_ne_nil h hidle
  have hb : busyIn m ms.stack = false := by
    rw [← Bool.not_eq_true, busyIn_iff, hst]; exact hnb
  have hmx : x.model ≠ m := by
    intro h; subst h; exact hT.top_ne_nil hidle
  refine ⟨_, adv_open fin0 ms _ m ev hp hb, rfl, _, _, by rw [hst], rfl, hT.tags.push m ev hq2 hn2, ?_, Or.inl ⟨?_, rfl, ?_⟩⟩
  · rw [hq2]
    refine ⟨Ext.refl _, ?_, List.nodup_cons.mpr ⟨hnb, ?_⟩, ?_⟩
    · intro σ1 h1
      rcases List.mem_cons.mp h1 with h2 | h2
      · rw [h2]
        exact ⟨x.model, hT.modelOf_top, by rw [qv_append_other ev _ _ hmx]; exact hT.rel⟩
      · refine (hT.low.sync σ1 h2).frame ?_
        intro m' hm'
        refine qv_append_other ev _ _ ?_
        intro hmm
        rw [hmm] at hm'
        exact hnb (List.mem_cons_of_mem _ (List.mem_map.mpr ⟨σ1, h2, hm'⟩))
    · simp only [List.map_cons, hT.modelOf_top]; exact hT.low.nodup
    · intro e he
      rcases List.mem_append.mp he with h1 | h1
      · refine Or.inr ?_
        simp only [List.map_cons, hT.modelOf_top, List.mem_cons, Option.some.injEq]
        exact hT.low.cover e h1
      · simp at h1; subst h1; exact Or.inl rfl
  · rw [hq2, qv_append_same, hidle]; rfl
  · rw [hq2, qv_append_same, hidle]; simp

/-- the nested session has drained its queue: its call returns True and the enclosing session goes on -/
theorem nested_ok (fin0 d : Nat) (below0 : List Q) (x : Ctx) (f : Bool) (σ : Q) (below : List Q) (s : St)
    (hT : SynT d below0 x f σ below s) (t m : Nat) (ms3 : MS) (s3 s4 : St) (hd : DoneOk t (σ :: below) m ms3 s3)
    (hq4 : s4.queue = s3.queue) (hn4 : s4.nextTag = s3.nextTag) :
    ∃ ms', run fin0 ms3 [.ret t true] = some ms' ∧ SynM d below0 x f ms' s4 := by
  obtain ⟨hp3, σ3, stk, hs3, ho3, hf3, hl3, _, htags3, hLD⟩ := hd
  obtain ⟨σ', below', rfl, ho, hf, hrel, hhead, hlow⟩ := hT.resume hLD
  refine ⟨_, ho3 ▸ adv_close fin0 ms3 σ3 _ hp3 hs3 hl3 hf3, rfl, σ', below', rfl, ⟨ho, ?_, htags3.frame hq4 hn4, ?_, hf, ?_⟩⟩
  · rw [hq4]; exact hhead
  · rw [hq4]; exact hrel
  · rw [hq4]; exact hlow

/-- the nested session has raised: its call raises and the exception reaches the awaiting callback -/
theorem nested_err (fin0 d : Nat) (below0 : List Q) (x : Ctx) (f : Bool) (σ : Q) (below : List Q) (s : St)
    (hT : SynT d below0 x f σ below s) (t m : Nat) (e : Exc) (ms3 : MS) (s3 s4 : St)
    (hd : DoneErr t (σ :: below) m ms3 s3) (hq4 : s4.queue = s3.queue) (hn4 : s4.nextTag = s3.nextTag) :
    ∃ ms', run fin0 ms3 [.raised t e] = some ms' ∧ SynM d below0 x f ms' s4 := by
  obtain ⟨hp3, σ3, stk, hs3, ho3, _, htags3, hLD⟩ := hd
  obtain ⟨σ', below', rfl, ho, hf, hrel, hhead, hlow⟩ := hT.resume hLD
  refine ⟨_, ho3 ▸ adv_close_exc fin0 ms3 σ3 _ e hp3 hs3, rfl, σ', below', rfl, ⟨ho, ?_, htags3.frame hq4 hn4, ?_, hf, ?_⟩⟩
  · rw [hq4]; exact hhead
  · rw [hq4]; exact hrel
  · rw [hq4]; exact hlow

/-- an awaited trigger issued by a callback of the event `x`, for any interpreter `sub` of the triggers awaited
inside the nested session it may open -/
theorem apiTrigger_sub (fin0 : Nat) (sc : Script) (kd : Async.Kinds) (cfg : Cfg) (qmax : Nat) (rest : List Nat)
    (hfin : cfg.finalize = fin0 :: rest) (hnot : fin0 ∉ rest) (sub : Sub) (hsub : MSubOK fin0 sub)
    (d : Nat) (below0 : List Q) (x : Ctx) (f : Bool) (m ev : Nat) (ms : MS) (s : St) (hs : SynM d below0 x f ms s) :
    APost (accM fin0) (SynM d below0 x f) (SynM d below0 x f) ms s.log
      (Async.apiTrigger sub sc kd cfg 2 qmax m ev s) := by
  obtain ⟨hp, σ, below, hst, hT⟩ := hs
  let s1 : St := ({ s with nextTag := s.nextTag + 1 }).emit (.api 0 s.nextTag m ev)
  have hs1 : SynT d below0 x f σ below s1 := ⟨hT.owner, hT.head, hT.tags.bump s1 rfl rfl, hT.rel, hT.fin, hT.low⟩
  have refuse_exc : ∀ e, APost (accM fin0) (SynM d below0 x f) (SynM d below0 x f) ms s.log
      (.err e (s1.emit (.raised s.nextTag e)) : R Bool) := fun e =>
    ⟨{ stack := ms.stack }, [.api 0 s.nextTag m ev, .raised s.nextTag e], by simp [St.emit, s1],
      adv_refused_exc fin0 ms _ _ _ _ hp, rfl, σ, below, hst, hs1.frame rfl rfl⟩
  have refuse : APost (accM fin0) (SynM d below0 x f) (SynM d below0 x f) ms s.log
      (.ok false (s1.emit (.ret s.nextTag false)) : R Bool) :=
    ⟨{ stack := ms.stack }, [.api 0 s.nextTag m ev, .ret s.nextTag false], by simp [St.emit, s1],
      adv_refused fin0 ms _ _ _ hp, rfl, σ, below, hst, hs1.frame rfl rfl⟩
  unfold Async.apiTrigger
  show APost _ _ _ ms s.log (match Async.triggerByName sub sc kd cfg 2 qmax m ev s.nextTag s1 with
    | .ok b s' => .ok b (s'.emit (.ret s.nextTag b))
    | .err e s' => .err e (s'.emit (.raised s.nextTag e))
    | .oof => .oof)
  unfold Async.triggerByName
  by_cases hmod : (alookup m s1.mstate).isNone = true
  · simp only [hmod, if_true]; exact refuse_exc _
  · simp only [hmod]
    cases hev : cfg.event? ev with
    | none =>
      simp only [Bool.false_eq_true, if_false]
      cases cfg.state? (s1.stateOf m) with
      | none => exact refuse_exc _
      | some _ =>
        by_cases hig : ignoreInvalid cfg (s1.stateOf m) = true
        · simp only [hig, if_true]; exact refuse
        · simp only [hig]; exact refuse_exc _
    | some ts =>
      let s2 : St := { s1 with queue := s1.queue ++ [(m, ev, s.nextTag)] }
      have hmp : Async.machineProcess sub sc kd cfg 2 qmax m ev s.nextTag s1 =
          if (Async.qOf 2 m (s.queue ++ [(m, ev, s.nextTag)])).length > 1 then .ok true s2
          else (Async.drain sub sc kd cfg 2 m qmax s2).bind fun _ s' => .ok true s' := rfl
      simp only [Bool.false_eq_true, if_false, hmp]
      by_cases hbusy : qv m s.queue = []
      · -- no session for `m`: a nested session
        have hlen : ¬ (Async.qOf 2 m (s.queue ++ [(m, ev, s.nextTag)])).length > 1 := by
          rw [qOf_len]; exact fun h => h hbusy
        simp only [hlen, if_false]
        obtain ⟨ms1, a1, hpre⟩ := nested_pre fin0 d below0 x f σ below ms s m ev hp hst hT hbusy s2 rfl rfl
        have hd := adrainM_post fin0 sc kd cfg sub hsub rest hfin hnot s.nextTag (σ :: below) m qmax ms1 s2 hpre
        cases hr : Async.drain sub sc kd cfg 2 m qmax s2 with
        | oof => trivial
        | ok u s3 =>
          rw [hr] at hd
          obtain ⟨ms3, seg, l3, a3, hd3⟩ := hd
          obtain ⟨ms', a4, h4⟩ := nested_ok fin0 d below0 x f σ below s hT s.nextTag m ms3 s3
            (s3.emit (.ret s.nextTag true)) hd3 rfl rfl
          exact ⟨ms', [.api 0 s.nextTag m ev] ++ seg ++ [.ret s.nextTag true], by simp [St.emit, l3, s2, s1],
            run_trans (run_trans a1 a3) a4, h4⟩
        | err e s3 =>
          rw [hr] at hd
          obtain ⟨ms3, seg, l3, a3, hd3⟩ := hd
          obtain ⟨ms', a4, h4⟩ := nested_err fin0 d below0 x f σ below s hT s.nextTag m e ms3 s3
            (s3.emit (.raised s.nextTag e)) hd3 rfl rfl
          exact ⟨ms', [.api 0 s.nextTag m ev] ++ seg ++ [.raised s.nextTag e], by simp [St.emit, l3, s2, s1],
            run_trans (run_trans a1 a3) a4, h4⟩
      · -- the model has a session: deferred
        have hlen : (Async.qOf 2 m (s.queue ++ [(m, ev, s.nextTag)])).length > 1 := by
          rw [qOf_len]; exact hbusy
        simp only [hlen, if_true]
        obtain ⟨ms', a1, h1⟩ := deferred_syn fin0 d below0 x f σ below ms s m ev hp hst hT hbusy
          (s2.emit (.ret s.nextTag true)) rfl rfl
        exact ⟨ms', [.api 0 s.nextTag m ev, .ret s.nextTag true], by simp [St.emit, s2, s1], a1, h1⟩

/-- **the interpreter of awaited triggers keeps the stack of sessions in step**, at every fuel level (induction on
the fuel: a nested session runs the interpreter one level down) -/
theorem msubOK_runCmd (fin0 : Nat) (sc : Script) (kd : Async.Kinds) (cfg : Cfg) (qmax : Nat) (rest : List Nat)
    (hfin : cfg.finalize = fin0 :: rest) (hnot : fin0 ∉ rest) :
    ∀ n, MSubOK fin0 (Async.runCmd sc kd cfg 2 qmax n) := by
  intro n
  induction n with
  | zero => intro d below0 x f c ms s _; trivial
  | succ n ih =>
    intro d below0 x f c ms s hs
    cases c with
    | trigger m ev =>
      show APost _ _ _ ms s.log
        ((Async.apiTrigger (Async.runCmd sc kd cfg 2 qmax n) sc kd cfg 2 qmax m ev s).map fun _ => ())
      exact APost.map _ (apiTrigger_sub fin0 sc kd cfg qmax rest hfin hnot _ ih d below0 x f m ev ms s hs)
    | removeModel _ => trivial
    | addModel _ => trivial
    | dispatch _ => trivial
    | may _ _ => trivial

/-! ### top level -/

/-- a top-level awaited trigger on model `m` of a queued='model' machine whose queues are all empty -/
theorem top_trigger (fin0 : Nat) (sc : Script) (kd : Async.Kinds) (cfg : Cfg) (qmax n : Nat)
    (rest : List Nat) (hfin : cfg.finalize = fin0 :: rest) (hnot : fin0 ∉ rest)
    (m ev : Nat) (s : St) (hidle : s.queue = []) :
    ∀ s', (Async.apiTrigger (Async.runCmd sc kd cfg 2 qmax n) sc kd cfg 2 qmax m ev s).state? = some s' →
      s'.queue = [] ∧ ∃ seg, s'.log = s.log ++ seg ∧ run fin0 {} seg = some {} := by
  intro s' hs'
  let s1 : St := ({ s with nextTag := s.nextTag + 1 }).emit (.api 0 s.nextTag m ev)
  have hs1q : s1.queue = [] := hidle
  have refuse_exc : ∀ e, s' = s1.emit (.raised s.nextTag e) →
      s'.queue = [] ∧ ∃ seg, s'.log = s.log ++ seg ∧ run fin0 {} seg = some {} := by
    intro e h; subst h
    exact ⟨hidle, [.api 0 s.nextTag m ev, .raised s.nextTag e], by simp [St.emit, s1],
      adv_refused_exc fin0 {} _ _ _ _ rfl⟩
  have refuse : s' = s1.emit (.ret s.nextTag false) →
      s'.queue = [] ∧ ∃ seg, s'.log = s.log ++ seg ∧ run fin0 {} seg = some {} := by
    intro h; subst h
    exact ⟨hidle, [.api 0 s.nextTag m ev, .ret s.nextTag false], by simp [St.emit, s1],
      adv_refused fin0 {} _ _ _ rfl⟩
  unfold Async.apiTrigger at hs'
  change (match Async.triggerByName _ sc kd cfg 2 qmax m ev s.nextTag s1 with
        | .ok b s' => (.ok b (s'.emit (.ret s.nextTag b)) : R Bool)
        | .err e s' => .err e (s'.emit (.raised s.nextTag e))
        | .oof => .oof).state? = some s' at hs'
  unfold Async.triggerByName at hs'
  by_cases hmod : (alookup m s1.mstate).isNone = true
  · simp only [hmod, if_true, Res.state?, Option.some.injEq] at hs'
    exact refuse_exc _ hs'.symm
  · simp only [hmod] at hs'
    cases hev : cfg.event? ev with
    | none =>
      simp only [hev, Bool.false_eq_true, if_false] at hs'
      cases hst : cfg.state? (s1.stateOf m) with
      | none => simp only [hst, Res.state?, Option.some.injEq] at hs'; exact refuse_exc _ hs'.symm
      | some _ =>
        simp only [hst] at hs'
        by_cases hig : ignoreInvalid cfg (s1.stateOf m) = true
        · simp only [hig, if_true, Res.state?, Option.some.injEq] at hs'; exact refuse hs'.symm
        · simp only [hig, Bool.false_eq_true, if_false, Res.state?, Option.some.injEq] at hs'
          exact refuse_exc _ hs'.symm
    | some ts =>
      -- the caller drains the queue of `m`
      let s2 : St := { s1 with queue := [(m, ev, s.nextTag)] }
      have hmp : Async.machineProcess (Async.runCmd sc kd cfg 2 qmax n) sc kd cfg 2 qmax m ev s.nextTag s1 =
          (Async.drain (Async.runCmd sc kd cfg 2 qmax n) sc kd cfg 2 m qmax s2).bind fun _ s' => .ok true s' := by
        have h20 : ((2 : Nat) = 0) = False := by simp
        simp [Async.machineProcess, h20, hs1q, qOf_two, s2]
      simp only [hev, Bool.false_eq_true, if_false, hmp] at hs'
      let ms1 : MS := { stack := [{ owner := s.nextTag, q := [(s.nextTag, m)], fin := false }], fresh := true }
      have a1 : run fin0 {} [.api 0 s.nextTag m ev] = some ms1 := adv_open fin0 {} _ m ev rfl rfl
      have hpre : DrainPreM s.nextTag [] m ms1 s2 := by
        refine ⟨rfl, _, _, rfl, rfl, ⟨by simp [s2], ?_⟩, ⟨trivial, by simp, by simp, ?_⟩, Or.inl ⟨?_, rfl, ?_⟩⟩
        · intro e he; simp [s2] at he; subst he; exact Nat.lt_succ_self _
        · intro e he; simp [s2] at he; subst he; exact Or.inl rfl
        · simp [s2, qv, key]
        · simp [s2, qv]
      have hd := adrainM_post fin0 sc kd cfg (Async.runCmd sc kd cfg 2 qmax n)
        (msubOK_runCmd fin0 sc kd cfg qmax rest hfin hnot n) rest hfin hnot s.nextTag [] m qmax ms1 s2 hpre
      cases hr : Async.drain (Async.runCmd sc kd cfg 2 qmax n) sc kd cfg 2 m qmax s2 with
      | oof => simp [hr, Res.bind, Res.state?] at hs'
      | ok u s3 =>
        rw [hr] at hd
        obtain ⟨ms3, seg, l3, a3, hp3, σ3, stk, hs3, ho3, hf3, hl3, _, _, hLD⟩ := hd
        simp only [hr, Res.bind, Res.state?, Option.some.injEq] at hs'
        subst hs'
        have hstk : stk = [] := hLD.ext.nil_left
        subst hstk
        have hq3 : s3.queue = [] := by
          cases hq : s3.queue with
          | nil => rfl
          | cons e r => have := hLD.cover e (by rw [hq]; exact List.mem_cons_self ..); simp at this
        refine ⟨hq3, [.api 0 s.nextTag m ev] ++ seg ++ [.ret s.nextTag true], by simp [St.emit, l3, s2, s1], ?_⟩
        exact run_trans (run_trans a1 a3) (ho3 ▸ adv_close fin0 ms3 σ3 [] hp3 hs3 hl3 hf3)
      | err e s3 =>
        rw [hr] at hd
        obtain ⟨ms3, seg, l3, a3, hp3, σ3, stk, hs3, ho3, _, _, hLD⟩ := hd
        simp only [hr, Res.bind, Res.state?, Option.some.injEq] at hs'
        subst hs'
        have hstk : stk = [] := hLD.ext.nil_left
        subst hstk
        have hq3 : s3.queue = [] := by
          cases hq : s3.queue with
          | nil => rfl
          | cons e r => have := hLD.cover e (by rw [hq]; exact List.mem_cons_self ..); simp at this
        refine ⟨hq3, [.api 0 s.nextTag m ev] ++ seg ++ [.raised s.nextTag e], by simp [St.emit, l3, s2, s1], ?_⟩
        exact run_trans (run_trans a1 a3) (ho3 ▸ adv_close_exc fin0 ms3 σ3 [] e hp3 hs3)

/-- every history of awaited triggers: the whole trace is accepted, and all queues are empty again at the end -/
theorem permodel_history (fin0 : Nat) (sc : Script) (kd : Async.Kinds) (cfg : Cfg) (qmax fuel : Nat)
    (rest : List Nat) (hfin : cfg.finalize = fin0 :: rest) (hnot : fin0 ∉ rest) :
    ∀ (h : List Cmd) (s : St), s.queue = [] →
    ∀ s', Async.runHistory sc kd cfg 2 qmax fuel h s = some s' →
      s'.queue = [] ∧ ∃ tr, s'.log = s.log ++ tr ∧ run fin0 {} tr = some {} := by
  intro h
  induction h with
  | nil =>
    intro s hq0 s' hs'
    simp only [Async.runHistory, Option.some.injEq] at hs'
    subst hs'
    exact ⟨hq0, [], by simp, rfl⟩
  | cons c cs ih =>
    intro s hq0 s' hs'
    cases fuel with
    | zero => simp [Async.runHistory, Async.runCmd] at hs'
    | succ f =>
      have step : ∀ s1, (Async.runCmd sc kd cfg 2 qmax (f + 1) c s).state? = some s1 →
          s1.queue = [] ∧ ∃ seg, s1.log = s.log ++ seg ∧ run fin0 {} seg = some {} := by
        intro s1 h1
        cases c with
        | trigger m ev =>
          have h1' : (Async.apiTrigger (Async.runCmd sc kd cfg 2 qmax f) sc kd cfg 2 qmax m ev s).state? = some s1 := by
            have : Async.runCmd sc kd cfg 2 qmax (f + 1) (.trigger m ev) s =
              (Async.apiTrigger (Async.runCmd sc kd cfg 2 qmax f) sc kd cfg 2 qmax m ev s).map fun _ => () := rfl
            rw [this] at h1
            cases hr : Async.apiTrigger (Async.runCmd sc kd cfg 2 qmax f) sc kd cfg 2 qmax m ev s <;>
              simp [hr, Res.map, Res.state?] at h1 ⊢ <;> exact h1
          exact top_trigger fin0 sc kd cfg qmax f rest hfin hnot m ev s hq0 s1 h1'
        | removeModel _ => simp [Async.runCmd, Res.state?] at h1
        | addModel _ => simp [Async.runCmd, Res.state?] at h1
        | dispatch _ => simp [Async.runCmd, Res.state?] at h1
        | may _ _ => simp [Async.runCmd, Res.state?] at h1
      simp only [Async.runHistory] at hs'
      cases hr : Async.runCmd sc kd cfg 2 qmax (f + 1) c s with
      | oof => simp [hr] at hs'
      | ok u s1 =>
        simp only [hr] at hs'
        obtain ⟨q1, seg, l1, a1⟩ := step s1 (by simp [hr, Res.state?])
        obtain ⟨q2, tr, l2, a2⟩ := ih s1 q1 s' hs'
        exact ⟨q2, seg ++ tr, by rw [l2, l1, List.append_assoc], run_trans a1 a2⟩
      | err e s1 =>
        simp only [hr] at hs'
        obtain ⟨q1, seg, l1, a1⟩ := step s1 (by simp [hr, Res.state?])
        obtain ⟨q2, tr, l2, a2⟩ := ih s1 q1 s' hs'
        exact ⟨q2, seg ++ tr, by rw [l2, l1, List.append_assoc], run_trans a1 a2⟩

end M5
end TM
