/-
  Proofs/C05M.lean — property C05 on the asynchronous flat engine, `queued='model'` (qm = 2: one queue per model):
  the simulation between `Async.drain` / `Async.eventTrigger` / `Async.runCmd` and the per-model acceptor
  `C05M.run` (a STACK of draining sessions), as an instance of the skeleton `Proofs/C05AGen.lean`.

  Unlike the machine-wide queue (`Proofs/C05A.lean`) a trigger awaited from a callback may run a whole nested
  draining session (its model's queue is empty), so the interpreter lemma `msubOK_runCmd` is an induction on the fuel.
-/
import Proofs.C05AGen
import Proofs.C05
import Model.Spec.C05M

namespace TM
namespace M5
open C05 C05M A5
open N5 (Acc)

abbrev QE := Nat × Nat × Nat

/-! ### the queue of one model, as the acceptor sees it -/

/-- pending `(tag, model)` of model `m`, arrival order -/
def qv (m : Nat) (q : List QE) : List (Nat × Nat) := (q.filter fun e => e.1 = m).map key

theorem qOf_two (m : Nat) (q : List QE) : Async.qOf 2 m q = q.filter (fun e => e.1 = m) := by
  simp [Async.qOf]

theorem qPop_two (m : Nat) (q : List QE) : Async.qPop 2 m q = Async.eraseFirst m q := by
  simp [Async.qPop]

theorem qClear_two (m : Nat) (q : List QE) : Async.qClear 2 m q = q.filter (fun e => e.1 ≠ m) := by
  simp [Async.qClear]

theorem qv_nil (m : Nat) : qv m [] = [] := rfl

theorem qv_append_same (m ev t : Nat) (q : List QE) : qv m (q ++ [(m, ev, t)]) = qv m q ++ [(t, m)] := by
  simp [qv, List.filter_append, key]

theorem qv_append_other {m m' : Nat} (ev t : Nat) (q : List QE) (h : m' ≠ m) :
    qv m' (q ++ [(m, ev, t)]) = qv m' q := by
  simp [qv, List.filter_append, h.symm]

theorem mem_qv {m : Nat} {q : List QE} {k : Nat × Nat} (h : k ∈ qv m q) : k.2 = m := by
  simp only [qv, List.mem_map, List.mem_filter, decide_eq_true_eq] at h
  obtain ⟨e, ⟨_, he⟩, rfl⟩ := h
  exact he

theorem qv_eq_nil_iff {m : Nat} {q : List QE} : qv m q = [] ↔ ∀ e ∈ q, e.1 ≠ m := by
  simp [qv, List.filter_eq_nil_iff]

theorem qv_eraseFirst_same (m : Nat) : ∀ q : List QE, qv m (Async.eraseFirst m q) = (qv m q).drop 1
  | [] => rfl
  | e :: r => by
    by_cases he : e.1 = m
    · simp [Async.eraseFirst, he, qv]
    · have ih := qv_eraseFirst_same m r
      simp only [qv] at ih
      simp [Async.eraseFirst, he, qv, ih]

theorem qv_eraseFirst_other {m m' : Nat} (h : m' ≠ m) : ∀ q : List QE, qv m' (Async.eraseFirst m q) = qv m' q
  | [] => rfl
  | e :: r => by
    by_cases he : e.1 = m
    · have h' : ¬ e.1 = m' := fun h' => h (h'.symm.trans he)
      have h1 : Async.eraseFirst m (e :: r) = r := by simp only [Async.eraseFirst, he, if_true]
      rw [h1]
      simp only [qv, List.filter_cons, h', decide_false, Bool.false_eq_true, if_false]
    · have ih := qv_eraseFirst_other h r
      have h1 : Async.eraseFirst m (e :: r) = e :: Async.eraseFirst m r := by
        simp only [Async.eraseFirst, he, if_false]
      rw [h1]
      simp only [qv] at ih
      simp only [qv, List.filter_cons]
      by_cases he' : e.1 = m'
      · simp only [he', decide_true, if_true, List.map_cons, ih]
      · simp only [he', decide_false, Bool.false_eq_true, if_false, ih]

theorem eraseFirst_sublist (m : Nat) : ∀ q : List QE, (Async.eraseFirst m q).Sublist q
  | [] => List.Sublist.refl _
  | e :: r => by
    by_cases he : e.1 = m
    · simp [Async.eraseFirst, he]
    · simp only [Async.eraseFirst, he, if_false]
      exact (eraseFirst_sublist m r).cons_cons e

theorem qv_clear_same (m : Nat) (q : List QE) : qv m (q.filter (fun e => e.1 ≠ m)) = [] := by
  rw [qv_eq_nil_iff]
  intro e he
  simp only [List.mem_filter, decide_eq_true_eq] at he
  exact he.2

theorem qv_clear_other {m m' : Nat} (h : m' ≠ m) (q : List QE) :
    qv m' (q.filter (fun e => e.1 ≠ m)) = qv m' q := by
  simp only [qv, List.filter_filter]
  congr 1
  apply List.filter_congr
  intro e _
  by_cases he : e.1 = m' <;> simp [he, h]

/-! ### tags -/

theorem TagsOK.frame {s s' : St} (h : TagsOK s) (hq : s'.queue = s.queue) (hn : s'.nextTag = s.nextTag) :
    TagsOK s' :=
  ⟨by rw [hq]; exact h.nodup, by rw [hq, hn]; exact h.lt⟩

theorem TagsOK.sublist {s s' : St} (h : TagsOK s) (hq : s'.queue.Sublist s.queue) (hn : s'.nextTag = s.nextTag) :
    TagsOK s' :=
  ⟨h.nodup.sublist (hq.map _), by rw [hn]; intro e he; exact h.lt e (hq.subset he)⟩

theorem TagsOK.push {s s' : St} (h : TagsOK s) (m ev : Nat) (hq : s'.queue = s.queue ++ [(m, ev, s.nextTag)])
    (hn : s'.nextTag = s.nextTag + 1) : TagsOK s' := by
  refine ⟨?_, ?_⟩
  · rw [hq, List.map_append, List.nodup_append]
    refine ⟨h.nodup, by simp, ?_⟩
    intro a ha b hb
    simp at hb
    subst hb
    obtain ⟨e, he, rfl⟩ := List.mem_map.mp ha
    exact Nat.ne_of_lt (h.lt e he)
  · intro e he
    rw [hn]
    rw [hq] at he
    rcases List.mem_append.mp he with h1 | h1
    · exact Nat.lt_succ_of_lt (h.lt e h1)
    · simp at h1; subst h1; exact Nat.lt_succ_self _

/-- the tags of one model's queue are pairwise distinct -/
theorem TagsOK.qv_nodup {s : St} (h : TagsOK s) (m : Nat) : ((qv m s.queue).map (·.1)).Nodup := by
  have : (qv m s.queue).map (·.1) = (s.queue.filter fun e => e.1 = m).map (·.2.2) := by
    simp [qv, key, Function.comp_def]
  rw [this]
  exact h.nodup.sublist (List.filter_sublist.map _)

/-! ### the acceptor -/

theorem run_append (fin0 : Nat) : ∀ (a b : List Item) (ms : MS),
    run fin0 ms (a ++ b) = (run fin0 ms a).bind fun ms' => run fin0 ms' b
  | [], b, ms => rfl
  | i :: a, b, ms => by
    simp only [List.cons_append, run]
    cases step fin0 ms i with
    | none => rfl
    | some ms1 => simp only [Option.bind_some]; exact run_append fin0 a b ms1

def accM (fin0 : Nat) : Acc MS :=
  ⟨fun ms seg ms' => run fin0 ms seg = some ms', fun _ => rfl,
    fun {a b c s1 s2} h1 h2 => by rw [run_append, h1]; exact h2⟩

theorem run_one (fin0 : Nat) (ms : MS) (i : Item) : run fin0 ms [i] = step fin0 ms i := by
  simp only [run]
  cases step fin0 ms i <;> rfl

theorem run_two (fin0 : Nat) (ms : MS) (i j : Item) :
    run fin0 ms [i, j] = (step fin0 ms i).bind fun ms' => step fin0 ms' j := by
  simp only [run]
  cases step fin0 ms i with
  | none => rfl
  | some ms1 => simp only [Option.bind_some]; cases step fin0 ms1 j <;> rfl

theorem adv_done (fin0 : Nat) (ms : MS) (c : Nat) (o : Out) : run fin0 ms [.done c o] = some ms := by
  rw [run_one]; rfl

theorem adv_call_sync (fin0 : Nat) (ms : MS) (σ : Q) (st : List Q) (sl : Slot) (c m t sv : Nat)
    (rest : List (Nat × Nat)) (hp : ms.pend = none) (hs : ms.stack = σ :: st)
    (hq : σ.q = (t, m) :: rest) (hf : σ.fin = false) :
    run fin0 ms [.call sl c m t sv] = some { stack := { σ with fin := decide (sl = .finalize ∧ c = fin0) } :: st } := by
  rw [run_one]
  simp [step, hp, hs, callStep, hq, hf]

theorem adv_call_lag (fin0 : Nat) (ms : MS) (σ : Q) (st : List Q) (sl : Slot) (c m t sv : Nat) (h : Nat × Nat)
    (rest : List (Nat × Nat)) (hp : ms.pend = none) (hs : ms.stack = σ :: st)
    (hq : σ.q = h :: (t, m) :: rest) (hf : σ.fin = true) (hne : h.1 ≠ t) :
    run fin0 ms [.call sl c m t sv] =
      some { stack := { σ with q := (t, m) :: rest, fin := decide (sl = .finalize ∧ c = fin0) } :: st } := by
  rw [run_one]
  obtain ⟨h1, h2⟩ := h
  simp at hne
  simp [step, hp, hs, callStep, hq, hf, hne]

theorem adv_call_fin (fin0 : Nat) (ms : MS) (σ : Q) (st : List Q) (c m t sv : Nat)
    (rest : List (Nat × Nat)) (hp : ms.pend = none) (hs : ms.stack = σ :: st)
    (hq : σ.q = (t, m) :: rest) (hf : σ.fin = true) (hc : c ≠ fin0) :
    run fin0 ms [.call .finalize c m t sv] = some { stack := σ :: st } := by
  rw [run_one]
  simp [step, hp, hs, callStep, hq, hf, hc]

theorem busyIn_iff (m : Nat) (st : List Q) : busyIn m st = true ↔ some m ∈ st.map modelOf := by
  simp only [busyIn, List.any_eq_true, beq_iff_eq, List.mem_map]

/-- a refused trigger (answered False at once) leaves the stack as it is, whether its model has a session or not -/
theorem adv_refused (fin0 : Nat) (ms : MS) (t m ev : Nat) (hp : ms.pend = none) :
    run fin0 ms [.api 0 t m ev, .ret t false] = some { stack := ms.stack } := by
  rw [run_two]
  by_cases hb : busyIn m ms.stack = true
  · simp [step, hp, hb]
  · simp [step, hp, hb]

theorem adv_refused_exc (fin0 : Nat) (ms : MS) (t m ev : Nat) (e : Exc) (hp : ms.pend = none) :
    run fin0 ms [.api 0 t m ev, .raised t e] = some { stack := ms.stack } := by
  rw [run_two]
  by_cases hb : busyIn m ms.stack = true
  · simp [step, hp, hb]
  · simp [step, hp, hb]

/-- a trigger on a model that has a session, answered True: deferred to that session -/
theorem adv_deferred (fin0 : Nat) (ms : MS) (t m ev : Nat) (st' : List Q) (hp : ms.pend = none)
    (hb : busyIn m ms.stack = true) (hd : defer t m ms.stack = some st') :
    run fin0 ms [.api 0 t m ev, .ret t true] = some { stack := st' } := by
  rw [run_two]
  simp [step, hp, hb, hd]

/-- a trigger on a model without a session opens one on top of the stack -/
theorem adv_open (fin0 : Nat) (ms : MS) (t m ev : Nat) (hp : ms.pend = none) (hb : busyIn m ms.stack = false) :
    run fin0 ms [.api 0 t m ev] =
      some { stack := { owner := t, q := [(t, m)], fin := false } :: ms.stack, fresh := true } := by
  rw [run_one]
  simp [step, hp, hb]

theorem adv_close (fin0 : Nat) (ms : MS) (σ : Q) (st : List Q) (hp : ms.pend = none) (hs : ms.stack = σ :: st)
    (hl : σ.q.length = 1) (hf : σ.fin = true) :
    run fin0 ms [.ret σ.owner true] = some { stack := st } := by
  rw [run_one]
  simp [step, hp, hs, hl, hf]

theorem adv_close_exc (fin0 : Nat) (ms : MS) (σ : Q) (st : List Q) (e : Exc) (hp : ms.pend = none)
    (hs : ms.stack = σ :: st) :
    run fin0 ms [.raised σ.owner e] = some { stack := st } := by
  rw [run_one]
  simp [step, hp, hs]

end M5
end TM
