/-
  Proofs/C02Tree.lean — the tree layer: `resolve_order` and the dictionary operations on configuration trees.

  `resolveOrder` (the queue loop of the code) terminates with the fuel it is given, returns every node of the tree
  exactly once (a permutation of `nodes`), deepest level first — so every state comes after all its descendants.

  NOTE: `Forest.mem_nodes_iff` carries the hypothesis `f.WF = true`: without it the direction `→` is false
  (`cons 1 nil (cons 1 (cons 2 nil nil) nil)` has the node `[1, 2]`, but `sub? [1, 2] = none` because `get?`
  finds the first entry `1`).  The direction `←` holds unconditionally: `Forest.mem_nodes_of_sub?`.
-/
import Model.Spec.C02

namespace TM
open C02

/-! ### `resolve_order` -/

/-- the fuel measure of the queue of `roLoop` -/
def roMeasure (q : List (SPath × Forest)) : Nat := (q.map (fun e => e.2.size + 1)).sum

/-- the nodes still to be produced from the queue of `roLoop` -/
def roNodes (q : List (SPath × Forest)) : List SPath := q.flatMap (fun e => e.2.nodes.map (e.1 ++ ·))

theorem Forest.size_eq_items (f : Forest) : f.size = (f.items.map (fun e => e.2.size + 1)).sum := by
  induction f with
  | nil => rfl
  | cons k s r _ ihr => simp only [Forest.size, Forest.items, List.map_cons, List.sum_cons, ihr]; omega

theorem sum_map_filter_le {α : Type} (g : α → Nat) (p : α → Bool) (l : List α) :
    ((l.filter p).map g).sum ≤ (l.map g).sum := by
  induction l with
  | nil => simp
  | cons a l ih =>
    simp only [List.filter_cons]
    split <;> simp only [List.map_cons, List.sum_cons] <;> omega

theorem roMeasure_append (a b : List (SPath × Forest)) : roMeasure (a ++ b) = roMeasure a + roMeasure b := by
  simp [roMeasure]

theorem roMeasure_visit (pre : SPath) (f : Forest) : roMeasure (roVisit pre f).2 ≤ f.size := by
  simp only [roMeasure, roVisit, List.map_map]
  refine Nat.le_trans (sum_map_filter_le _ _ _) ?_
  rw [List.map_reverse, List.sum_reverse, Forest.size_eq_items]
  exact Nat.le_refl _

theorem roLoop_total (n : Nat) : ∀ (q : List (SPath × Forest)) (res : List SPath), roMeasure q ≤ n →
    ∃ l, roLoop n q res = some l := by
  induction n with
  | zero =>
    intro q res h
    cases q with
    | nil => exact ⟨res, by simp [roLoop]⟩
    | cons e q => simp [roMeasure] at h
  | succ n ih =>
    intro q res h
    cases q with
    | nil => exact ⟨res, by simp [roLoop]⟩
    | cons e q =>
      obtain ⟨pre, f⟩ := e
      simp only [roLoop]
      apply ih
      have := roMeasure_visit pre f
      simp only [roMeasure_append]
      simp only [roMeasure, List.map_cons, List.sum_cons] at h ⊢
      simp only [roMeasure] at this
      omega

theorem resolveOrder_total (f : Forest) : ∃ l, resolveOrder f = some l := by
  obtain ⟨l, hl⟩ := roLoop_total (f.size + 1) [([], f)] [] (by simp [roMeasure])
  exact ⟨l.reverse, by simp [resolveOrder, hl]⟩


theorem Forest.nodes_eq_flatMap (f : Forest) :
    f.nodes = f.items.flatMap (fun e => [e.1] :: e.2.nodes.map (e.1 :: ·)) := by
  induction f with
  | nil => rfl
  | cons k s r _ ihr => simp [Forest.nodes, Forest.items, ihr]

theorem perm_flatMap_cons {α β : Type} (a : α → β) (b : α → List β) (l : List α) :
    (l.flatMap (fun e => a e :: b e)).Perm (l.map a ++ l.flatMap b) := by
  induction l with
  | nil => simp
  | cons x l ih =>
    simp only [List.flatMap_cons, List.map_cons, List.cons_append]
    refine List.Perm.cons _ ?_
    refine (List.Perm.append_left _ ih).trans ?_
    rw [← List.append_assoc, ← List.append_assoc]
    exact List.Perm.append_right _ List.perm_append_comm

theorem Forest.isEmpty_nodes {f : Forest} (h : f.isEmpty = true) : f.nodes = [] := by
  cases f with
  | nil => rfl
  | cons k s r => simp [Forest.isEmpty] at h

theorem roNodes_filter (pre : SPath) (l : List (Nat × Forest)) :
    roNodes ((l.filter (fun e => !e.2.isEmpty)).map (fun e => (pre ++ [e.1], e.2)))
      = l.flatMap (fun e => e.2.nodes.map (fun q => pre ++ [e.1] ++ q)) := by
  induction l with
  | nil => rfl
  | cons e l ih =>
    simp only [List.filter_cons]
    by_cases he : e.2.isEmpty = true
    · simpa [he, Forest.isEmpty_nodes he] using ih
    · simp only [roNodes] at ih
      simp [he, roNodes, ih]

theorem roVisit_perm (pre : SPath) (f : Forest) :
    ((roVisit pre f).1 ++ roNodes (roVisit pre f).2).Perm (f.nodes.map (pre ++ ·)) := by
  simp only [roVisit, roNodes_filter]
  refine (perm_flatMap_cons (fun e : Nat × Forest => pre ++ [e.1])
    (fun e => e.2.nodes.map (fun q => pre ++ [e.1] ++ q)) f.items.reverse).symm.trans ?_
  refine (List.Perm.flatMap_right _ (List.reverse_perm _)).trans ?_
  rw [Forest.nodes_eq_flatMap, List.map_flatMap]
  simp [Function.comp_def]

theorem roNodes_append (a b : List (SPath × Forest)) : roNodes (a ++ b) = roNodes a ++ roNodes b := by
  simp [roNodes]

theorem roLoop_perm (n : Nat) : ∀ (q : List (SPath × Forest)) (res l : List SPath), roLoop n q res = some l →
    l.Perm (res ++ roNodes q) := by
  induction n with
  | zero =>
    intro q res l h
    cases q with
    | nil => simp [roLoop] at h; simp [roNodes, h]
    | cons e q => simp [roLoop] at h
  | succ n ih =>
    intro q res l h
    cases q with
    | nil => simp [roLoop] at h; simp [roNodes, h]
    | cons e q =>
      obtain ⟨pre, f⟩ := e
      simp only [roLoop] at h
      refine (ih _ _ _ h).trans ?_
      rw [roNodes_append, List.append_assoc]
      refine List.Perm.append_left _ ?_
      have hv := roVisit_perm pre f
      show ((roVisit pre f).1 ++ (roNodes q ++ roNodes (roVisit pre f).2)).Perm
        (f.nodes.map (pre ++ ·) ++ roNodes q)
      refine (List.Perm.append_left _ List.perm_append_comm).trans ?_
      rw [← List.append_assoc]
      exact List.Perm.append_right _ hv

theorem resolveOrder_perm {f : Forest} {l : List SPath} (h : resolveOrder f = some l) : l.Perm f.nodes := by
  simp only [resolveOrder, Option.map_eq_some_iff] at h
  obtain ⟨l', hl, rfl⟩ := h
  refine (List.reverse_perm _).trans ?_
  simpa [roNodes] using roLoop_perm _ _ _ _ hl


/-- the level invariant of the BFS loop -/
def roInv (q : List (SPath × Forest)) (res : List SPath) : Prop :=
  res.Pairwise (fun a b => a.length ≤ b.length) ∧
  q.Pairwise (fun a b => a.1.length ≤ b.1.length) ∧
  (∀ r ∈ res, ∀ e ∈ q, r.length ≤ e.1.length + 1) ∧
  (∀ e ∈ q, ∀ e' ∈ q, e'.1.length ≤ e.1.length + 1)

theorem roVisit_fst_length {pre : SPath} {f : Forest} {x : SPath} (h : x ∈ (roVisit pre f).1) :
    x.length = pre.length + 1 := by
  simp only [roVisit, List.mem_map] at h
  obtain ⟨e, _, rfl⟩ := h
  simp

theorem roVisit_snd_length {pre : SPath} {f : Forest} {x : SPath × Forest} (h : x ∈ (roVisit pre f).2) :
    x.1.length = pre.length + 1 := by
  simp only [roVisit, List.mem_map] at h
  obtain ⟨e, _, rfl⟩ := h
  simp

theorem pairwise_of_const {α : Type} (g : α → Nat) (c : Nat) (l : List α) (h : ∀ x ∈ l, g x = c) :
    l.Pairwise (fun a b => g a ≤ g b) := by
  rw [List.pairwise_iff_forall_sublist]
  intro a b hab
  have ha := h a (hab.subset (by simp))
  have hb := h b (hab.subset (by simp))
  omega

theorem roInv_step {pre : SPath} {f : Forest} {q : List (SPath × Forest)} {res : List SPath}
    (h : roInv ((pre, f) :: q) res) : roInv (q ++ (roVisit pre f).2) (res ++ (roVisit pre f).1) := by
  obtain ⟨h1, h2, h3, h4⟩ := h
  have v1 := @roVisit_fst_length pre f
  have v2 := @roVisit_snd_length pre f
  rw [List.pairwise_cons] at h2
  obtain ⟨h2a, h2b⟩ := h2
  refine ⟨?_, ?_, ?_, ?_⟩
  · rw [List.pairwise_append]
    refine ⟨h1, pairwise_of_const _ _ _ (fun x hx => v1 hx), ?_⟩
    intro a ha b hb
    have := h3 a ha (pre, f) (by simp)
    have := v1 hb
    simp only at *; omega
  · rw [List.pairwise_append]
    refine ⟨h2b, pairwise_of_const (fun e : SPath × Forest => e.1.length) _ _ (fun x hx => v2 hx), ?_⟩
    intro a ha b hb
    have := h4 (pre, f) (by simp) a (by simp [ha])
    have := v2 hb
    simp only at *; omega
  · intro r hr e he
    rw [List.mem_append] at hr he
    rcases hr with hr | hr <;> rcases he with he | he
    · exact h3 r hr e (by simp [he])
    · have := h3 r hr (pre, f) (by simp)
      have := v2 he
      simp only at *; omega
    · have := v1 hr
      have := h2a e he
      simp only at *; omega
    · have := v1 hr
      have := v2 he
      omega
  · intro e he e' he'
    rw [List.mem_append] at he he'
    rcases he with he | he <;> rcases he' with he' | he'
    · exact h4 e (by simp [he]) e' (by simp [he'])
    · have := h2a e he
      have := v2 he'
      simp only at *; omega
    · have := h4 (pre, f) (by simp) e' (by simp [he'])
      have := v2 he
      simp only at *; omega
    · have := v2 he
      have := v2 he'
      omega

theorem roLoop_levels (n : Nat) : ∀ (q : List (SPath × Forest)) (res l : List SPath), roLoop n q res = some l →
    roInv q res → l.Pairwise (fun a b => a.length ≤ b.length) := by
  induction n with
  | zero =>
    intro q res l h hi
    cases q with
    | nil => simp [roLoop] at h; exact h ▸ hi.1
    | cons e q => simp [roLoop] at h
  | succ n ih =>
    intro q res l h hi
    cases q with
    | nil => simp [roLoop] at h; exact h ▸ hi.1
    | cons e q =>
      obtain ⟨pre, f⟩ := e
      simp only [roLoop] at h
      exact ih _ _ _ h (roInv_step hi)

/-- deepest level first -/
theorem resolveOrder_levels {f : Forest} {l : List SPath} (h : resolveOrder f = some l) :
    l.Pairwise (fun a b => b.length ≤ a.length) := by
  simp only [resolveOrder, Option.map_eq_some_iff] at h
  obtain ⟨l', hl, rfl⟩ := h
  rw [List.pairwise_reverse]
  exact roLoop_levels _ _ _ _ hl (by simp [roInv])

/-- children before parents: nothing is followed by one of its proper extensions -/
theorem resolveOrder_children_first {f : Forest} {l : List SPath} (h : resolveOrder f = some l) :
    l.Pairwise (fun a b => properPrefix a b = false) := by
  refine (resolveOrder_levels h).imp ?_
  intro a b hab
  simp only [properPrefix, Bool.and_eq_false_iff, decide_eq_false_iff_not]
  exact Or.inl (by omega)

/-! ### dictionary operations -/

theorem Forest.nil_not_mem_nodes (f : Forest) : [] ∉ f.nodes := by
  induction f with
  | nil => simp [Forest.nodes]
  | cons k s r _ ihr => simp [Forest.nodes, ihr]

theorem Forest.head_mem_keys {f : Forest} {p : SPath} (h : p ∈ f.nodes) : ∃ k q, p = k :: q ∧ k ∈ f.keys := by
  induction f with
  | nil => simp [Forest.nodes] at h
  | cons k s r _ ihr =>
    simp only [Forest.nodes, List.cons_append, List.mem_cons, List.mem_append, List.mem_map] at h
    rcases h with h | ⟨q, _, h⟩ | h
    · exact ⟨k, [], h, by simp [Forest.keys]⟩
    · exact ⟨k, q, h.symm, by simp [Forest.keys]⟩
    · obtain ⟨k', q, e, hk⟩ := ihr h
      exact ⟨k', q, e, by simp [Forest.keys, hk]⟩

theorem Forest.cons_mem_nodes_keys {f : Forest} {k : Nat} {q : SPath} (h : k :: q ∈ f.nodes) : k ∈ f.keys := by
  obtain ⟨k', q', e, hk⟩ := Forest.head_mem_keys h
  cases e; exact hk

theorem Forest.get?_eq_none {f : Forest} {k : Nat} (h : k ∉ f.keys) : f.get? k = none := by
  induction f with
  | nil => rfl
  | cons k' s r _ ihr =>
    simp only [Forest.keys, List.mem_cons, not_or] at h
    simp [Forest.get?, ihr h.2, Ne.symm h.1]

theorem Forest.get?_isSome {f : Forest} {k : Nat} : (f.get? k).isSome = true ↔ k ∈ f.keys := by
  induction f with
  | nil => simp [Forest.get?, Forest.keys]
  | cons k' s r _ ihr =>
    simp only [Forest.get?, Forest.keys, List.mem_cons]
    split <;> grind

theorem Forest.nodes_nodup {f : Forest} (h : f.WF = true) : f.nodes.Nodup := by
  induction f with
  | nil => simp [Forest.nodes]
  | cons k s r ihs ihr =>
    simp only [Forest.WF, Bool.and_eq_true, Bool.not_eq_true', List.contains_eq_mem, decide_eq_false_iff_not] at h
    obtain ⟨⟨hk, hs⟩, hr⟩ := h
    simp only [Forest.nodes, List.cons_append, List.nodup_cons, List.mem_append, List.mem_map, List.nodup_append]
    refine ⟨?_, ?_, ihr hr, ?_⟩
    · rintro (⟨q, hq, e⟩ | h)
      · cases e; exact Forest.nil_not_mem_nodes _ hq
      · exact hk (Forest.cons_mem_nodes_keys h)
    · exact List.Pairwise.map _ (by intro a b hab; simpa using hab) (ihs hs)
    · rintro a ⟨q, _, rfl⟩ b hb rfl
      exact hk (Forest.cons_mem_nodes_keys hb)


/-- the easy direction of `mem_nodes_iff` needs no well-formedness -/
theorem Forest.mem_nodes_of_sub? {f : Forest} {p : SPath} (hp : p ≠ []) (h : (f.sub? p).isSome = true) :
    p ∈ f.nodes := by
  induction f generalizing p with
  | nil => cases p with
    | nil => exact absurd rfl hp
    | cons x p => simp [Forest.sub?, Forest.get?] at h
  | cons k s r ihs ihr =>
    cases p with
    | nil => exact absurd rfl hp
    | cons x p =>
      simp only [Forest.nodes, List.cons_append, List.mem_cons, List.mem_append, List.mem_map]
      by_cases hk : k = x
      · subst hk
        simp only [Forest.sub?, Forest.get?, if_true] at h
        cases p with
        | nil => simp
        | cons y p => exact Or.inr (Or.inl ⟨y :: p, ihs (by simp) h, rfl⟩)
      · right; right
        apply ihr (by simp)
        simpa [Forest.sub?, Forest.get?, hk] using h

theorem Forest.mem_nodes_iff {f : Forest} {p : SPath} (hwf : f.WF = true) :
    p ∈ f.nodes ↔ p ≠ [] ∧ (f.sub? p).isSome = true := by
  refine ⟨?_, fun h => Forest.mem_nodes_of_sub? h.1 h.2⟩
  intro h
  refine ⟨fun e => Forest.nil_not_mem_nodes f (e ▸ h), ?_⟩
  induction f generalizing p with
  | nil => simp [Forest.nodes] at h
  | cons k s r ihs ihr =>
    simp only [Forest.WF, Bool.and_eq_true, Bool.not_eq_true', List.contains_eq_mem, decide_eq_false_iff_not] at hwf
    obtain ⟨⟨hk, hs⟩, hr⟩ := hwf
    simp only [Forest.nodes, List.cons_append, List.mem_cons, List.mem_append, List.mem_map] at h
    rcases h with rfl | ⟨q, hq, rfl⟩ | h
    · simp [Forest.sub?, Forest.get?]
    · simpa [Forest.sub?, Forest.get?] using ihs hs hq
    · obtain ⟨x, q, rfl, hx⟩ := Forest.head_mem_keys h
      have : k ≠ x := fun e => hk (e ▸ hx)
      have := ihr hr h
      simpa [Forest.sub?, Forest.get?, *] using this

theorem Forest.sub?_append {f : Forest} {p q : SPath} :
    f.sub? (p ++ q) = (f.sub? p).bind fun s => s.sub? q := by
  induction p generalizing f with
  | nil => simp [Forest.sub?]
  | cons k p ih =>
    simp only [List.cons_append, Forest.sub?]
    cases f.get? k with
    | none => rfl
    | some s => exact ih

theorem Forest.reduceGet_some {f st : Forest} {p : SPath} :
    f.reduceGet p = .ok (some st) ↔ f.sub? p = some st := by
  induction p generalizing f with
  | nil => simp [Forest.reduceGet, Forest.sub?]
  | cons k p ih =>
    simp only [Forest.reduceGet, Forest.sub?]
    cases f.get? k with
    | none => by_cases hp : p.isEmpty <;> simp [hp]
    | some s => exact ih

theorem Forest.WF_get? {f s : Forest} {k : Nat} (h : f.WF = true) (hs : f.get? k = some s) : s.WF = true := by
  induction f with
  | nil => simp [Forest.get?] at hs
  | cons k' s' r _ ihr =>
    simp only [Forest.WF, Bool.and_eq_true] at h
    simp only [Forest.get?] at hs
    split at hs
    · cases hs; exact h.1.2
    · exact ihr h.2 hs

/-- a sub-dictionary of a well-formed tree is well-formed -/
theorem Forest.WF_sub {f st : Forest} {p : SPath} (h : f.WF = true) (hs : f.sub? p = some st) : st.WF = true := by
  induction p generalizing f with
  | nil => simp only [Forest.sub?, Option.some.injEq] at hs; exact hs ▸ h
  | cons k p ih =>
    simp only [Forest.sub?] at hs
    cases hg : f.get? k with
    | none => simp [hg] at hs
    | some s => rw [hg] at hs; exact ih (Forest.WF_get? h hg) hs

theorem Forest.keys_set {st v : Forest} {k : Nat} :
    (st.set k v).keys = if st.keys.contains k then st.keys else st.keys ++ [k] := by
  induction st with
  | nil => simp [Forest.set, Forest.keys]
  | cons k' s r _ ihr =>
    simp only [Forest.set]
    by_cases hk : k' = k
    · simp [hk, Forest.keys]
    · have hk' : ¬ k = k' := fun e => hk e.symm
      simp only [hk, if_false, Forest.keys, ihr]
      simp only [List.contains_eq_mem, decide_eq_true_eq, List.mem_cons, hk', false_or]
      by_cases hr : k ∈ r.keys <;> simp [hr]

theorem Forest.WF_set {st v : Forest} {k : Nat} (h : st.WF = true) (hv : v.WF = true) : (st.set k v).WF = true := by
  induction st with
  | nil => simp [Forest.set, Forest.WF, hv, Forest.keys]
  | cons k' s r _ ihr =>
    simp only [Forest.WF, Bool.and_eq_true, Bool.not_eq_true', List.contains_eq_mem, decide_eq_false_iff_not] at h
    obtain ⟨⟨hk, hs⟩, hr⟩ := h
    simp only [Forest.set]
    by_cases hkk : k' = k
    · simp [hkk, Forest.WF, hv, hr]; exact hkk ▸ hk
    · simp only [hkk, if_false, Forest.WF, Forest.keys_set, hs, ihr hr, Bool.and_true, Bool.not_eq_true',
        List.contains_eq_mem, decide_eq_false_iff_not]
      split <;> simp [hk, hkk]


theorem Forest.head?_ne_of_mem_nodes {f : Forest} {p : SPath} {k : Nat} (h : p ∈ f.nodes) (hk : k ∉ f.keys) :
    p.head? ≠ some k := by
  obtain ⟨x, q, rfl, hx⟩ := Forest.head_mem_keys h
  simp only [List.head?_cons, ne_eq, Option.some.injEq]
  rintro rfl; exact hk hx

/-- nodes after `d[k] = v` -/
theorem Forest.mem_nodes_set {st v : Forest} {k : Nat} {p : SPath} (h : st.WF = true) :
    p ∈ (st.set k v).nodes ↔ (p ∈ st.nodes ∧ p.head? ≠ some k) ∨ p = [k] ∨ ∃ q ∈ v.nodes, p = k :: q := by
  induction st with
  | nil => simp [Forest.set, Forest.nodes, eq_comm]
  | cons k' s r _ ihr =>
    simp only [Forest.WF, Bool.and_eq_true, Bool.not_eq_true', List.contains_eq_mem, decide_eq_false_iff_not] at h
    obtain ⟨⟨hk, hs⟩, hr⟩ := h
    simp only [Forest.set]
    by_cases hkk : k' = k
    · subst hkk
      simp only [if_true, Forest.nodes, List.cons_append, List.mem_cons, List.mem_append, List.mem_map]
      have := fun hp => Forest.head?_ne_of_mem_nodes (p := p) hp hk
      constructor
      · rintro (rfl | ⟨q, hq, rfl⟩ | hp)
        · simp
        · exact Or.inr (Or.inr ⟨q, hq, rfl⟩)
        · exact Or.inl ⟨Or.inr (Or.inr hp), this hp⟩
      · rintro (⟨rfl | ⟨q, hq, rfl⟩ | hp, hne⟩ | rfl | ⟨q, hq, rfl⟩)
        · simp at hne
        · simp at hne
        · exact Or.inr (Or.inr hp)
        · simp
        · exact Or.inr (Or.inl ⟨q, hq, rfl⟩)
    · simp only [hkk, if_false, Forest.nodes, List.cons_append, List.mem_cons, List.mem_append, List.mem_map, ihr hr]
      constructor
      · rintro (rfl | ⟨q, hq, rfl⟩ | hp)
        · simp [hkk]
        · exact Or.inl ⟨Or.inr (Or.inl ⟨q, hq, rfl⟩), by simp [hkk]⟩
        · rcases hp with ⟨hp, hne⟩ | hp
          · exact Or.inl ⟨Or.inr (Or.inr hp), hne⟩
          · exact Or.inr hp
      · rintro (⟨rfl | ⟨q, hq, rfl⟩ | hp, hne⟩ | hp)
        · simp
        · exact Or.inr (Or.inl ⟨q, hq, rfl⟩)
        · exact Or.inr (Or.inr (Or.inl ⟨hp, hne⟩))
        · exact Or.inr (Or.inr (Or.inr hp))

theorem Forest.keys_modifyAt {f : Forest} {A : SPath} {g : Forest → Forest} (hA : A ≠ []) :
    (f.modifyAt A g).keys = f.keys := by
  induction f with
  | nil => cases A with
    | nil => exact absurd rfl hA
    | cons x A => rfl
  | cons k s r _ ihr =>
    cases A with
    | nil => exact absurd rfl hA
    | cons x A =>
      simp only [Forest.modifyAt]
      split
      · rfl
      · simp [Forest.keys, ihr]

theorem Forest.len_eq_keys_length (f : Forest) : f.len = f.keys.length := by
  induction f with
  | nil => rfl
  | cons k s r _ ihr => simp [Forest.len, Forest.keys, ihr]

theorem Forest.len_modifyAt {f : Forest} {A : SPath} {g : Forest → Forest} (hA : A ≠ []) :
    (f.modifyAt A g).len = f.len := by
  rw [Forest.len_eq_keys_length, Forest.len_eq_keys_length, Forest.keys_modifyAt hA]

theorem Forest.WF_modifyAt {f st : Forest} {A : SPath} {g : Forest → Forest} (h : f.WF = true)
    (hs : f.sub? A = some st) (hg : (g st).WF = true) : (f.modifyAt A g).WF = true := by
  induction A generalizing f with
  | nil =>
    simp only [Forest.sub?, Option.some.injEq] at hs
    subst hs; simpa [Forest.modifyAt] using hg
  | cons x A ihA =>
    induction f with
    | nil => simp [Forest.sub?, Forest.get?] at hs
    | cons k s r _ ihr =>
      simp only [Forest.WF, Bool.and_eq_true] at h
      obtain ⟨⟨hk, hs'⟩, hr⟩ := h
      simp only [Forest.modifyAt]
      by_cases hkx : k = x
      · subst hkx
        simp only [Forest.sub?, Forest.get?, if_true] at hs
        simp only [if_true, Forest.WF, hk, hr, ihA hs' hs, Bool.and_true]
      · simp only [Forest.sub?, Forest.get?, hkx, if_false] at hs
        simp only [hkx, if_false, Forest.WF, Forest.keys_modifyAt (List.cons_ne_nil x A), hk, hs', Bool.and_true,
          Bool.true_and]
        exact ihr hr (by simpa [Forest.sub?] using hs)


theorem properPrefix_nil_left (p : SPath) : properPrefix [] p = false ↔ p = [] := by
  cases p <;> simp [properPrefix]

theorem properPrefix_nil_right (A : SPath) : properPrefix A [] = false := by
  simp [properPrefix]

theorem properPrefix_cons_cons (k x : Nat) (A p : SPath) :
    properPrefix (k :: A) (x :: p) = true ↔ k = x ∧ properPrefix A p = true := by
  simp only [properPrefix, List.length_cons, List.take_succ_cons, Bool.and_eq_true, decide_eq_true_eq, beq_iff_eq,
    List.cons.injEq, Nat.add_lt_add_iff_right]
  constructor
  · rintro ⟨h1, h2, h3⟩; exact ⟨h2.symm, h1, h3⟩
  · rintro ⟨h1, h2, h3⟩; exact ⟨h2, h1.symm, h3⟩

theorem properPrefix_cons_cons_false (k x : Nat) (A p : SPath) :
    properPrefix (k :: A) (x :: p) = false ↔ (k = x → properPrefix A p = false) := by
  have := properPrefix_cons_cons k x A p
  cases h1 : properPrefix (k :: A) (x :: p) <;> cases h2 : properPrefix A p <;> simp_all

theorem Forest.cons_mem_nodes_cons {k y : Nat} {s r : Forest} {p : SPath} :
    y :: p ∈ (Forest.cons k s r).nodes ↔ (y = k ∧ (p = [] ∨ p ∈ s.nodes)) ∨ y :: p ∈ r.nodes := by
  simp only [Forest.nodes, List.cons_append, List.mem_cons, List.mem_append, List.mem_map, List.cons.injEq]
  constructor
  · rintro (⟨rfl, rfl⟩ | ⟨q, hq, rfl, rfl⟩ | h)
    · simp
    · exact Or.inl ⟨rfl, Or.inr hq⟩
    · exact Or.inr h
  · rintro (⟨rfl, rfl | h⟩ | h)
    · simp
    · exact Or.inr (Or.inl ⟨p, h, rfl, rfl⟩)
    · exact Or.inr (Or.inr h)

/-- nodes after an in-place update of the sub-dictionary at an active position `A` -/
theorem Forest.mem_nodes_modifyAt {f st : Forest} {A p : SPath} {g : Forest → Forest} (h : f.WF = true)
    (hs : f.sub? A = some st) :
    p ∈ (f.modifyAt A g).nodes ↔ (p ∈ f.nodes ∧ properPrefix A p = false) ∨ ∃ q ∈ (g st).nodes, p = A ++ q := by
  induction A generalizing f p with
  | nil =>
    simp only [Forest.sub?, Option.some.injEq] at hs
    subst hs
    simp only [Forest.modifyAt, properPrefix_nil_left, List.nil_append, exists_eq_right']
    constructor
    · exact Or.inr
    · rintro (⟨h1, rfl⟩ | h1)
      · exact absurd h1 (Forest.nil_not_mem_nodes _)
      · exact h1
  | cons x A ihA =>
    induction f with
    | nil => simp [Forest.sub?, Forest.get?] at hs
    | cons k s r _ ihr =>
      simp only [Forest.WF, Bool.and_eq_true, Bool.not_eq_true', List.contains_eq_mem, decide_eq_false_iff_not] at h
      obtain ⟨⟨hk, hs'⟩, hr⟩ := h
      cases p with
      | nil =>
        have h1 := Forest.nil_not_mem_nodes ((Forest.cons k s r).modifyAt (x :: A) g)
        have h2 := Forest.nil_not_mem_nodes (Forest.cons k s r)
        simp [h1, h2]
      | cons y p =>
        simp only [Forest.modifyAt]
        by_cases hkx : k = x
        · subst hkx
          simp only [Forest.sub?, Forest.get?, if_true] at hs
          have ih := ihA (p := p) hs' hs
          have hnr : ∀ q, k :: q ∉ r.nodes := fun q hq => hk (Forest.cons_mem_nodes_keys hq)
          simp only [if_true, Forest.cons_mem_nodes_cons, properPrefix_cons_cons_false, List.cons_append,
            List.cons.injEq]
          by_cases hy : y = k
          · subst hy
            simp only [hnr, or_false, true_and, ih, forall_const]
            constructor
            · rintro (rfl | ⟨h1, h2⟩ | ⟨q, hq, rfl⟩)
              · exact Or.inl ⟨Or.inl rfl, properPrefix_nil_right _⟩
              · exact Or.inl ⟨Or.inr h1, h2⟩
              · exact Or.inr ⟨q, hq, rfl⟩
            · rintro (⟨rfl | h1, h2⟩ | ⟨q, hq, rfl⟩)
              · exact Or.inl rfl
              · exact Or.inr (Or.inl ⟨h1, h2⟩)
              · exact Or.inr (Or.inr ⟨q, hq, rfl⟩)
          · have hy' : ¬ k = y := fun e => hy e.symm
            simp [hy, hy']
        · simp only [Forest.sub?, Forest.get?, hkx, if_false] at hs
          have ih := ihr hr (by simpa [Forest.sub?] using hs)
          simp only [hkx, if_false, Forest.cons_mem_nodes_cons (r := r.modifyAt (x :: A) g), ih,
            Forest.cons_mem_nodes_cons (r := r), properPrefix_cons_cons_false, List.cons_append, List.cons.injEq]
          constructor
          · rintro (⟨rfl, h1⟩ | ⟨h1, h2⟩ | ⟨q, hq, rfl, rfl⟩)
            · exact Or.inl ⟨Or.inl ⟨rfl, h1⟩, fun e => absurd e.symm hkx⟩
            · exact Or.inl ⟨Or.inr h1, h2⟩
            · exact Or.inr ⟨q, hq, rfl, rfl⟩
          · rintro (⟨⟨rfl, h1⟩ | h1, h2⟩ | ⟨q, hq, rfl, rfl⟩)
            · exact Or.inl ⟨rfl, h1⟩
            · exact Or.inr (Or.inl ⟨h1, h2⟩)
            · exact Or.inr (Or.inr ⟨q, hq, rfl, rfl⟩)

end TM
