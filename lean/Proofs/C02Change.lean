/-
  Proofs/C02Change.lean — `_resolve_transition` at the set level (the abstraction lemma of the tree layer).

  Whatever the scope a transition is declared in and whatever its destination: if `resolveTransition` succeeds on an
  admissible configuration, there is an anchor `A` (the machine or an active state) such that
    * the exit list consists of distinct active states strictly below `A`, children before parents, closed under
      active descendants;
    * the enter list consists of distinct states none of which stays active, each after its parent (the first
      directly below `A`);
    * the new tree is admissible again, has a single root, and its nodes are (old nodes minus exits) plus enters.
  The facts about `_enter_nested` (proved in Proofs/C02Enter.lean) enter as hypotheses `EnterSpec`, `EnterRootEq`.
-/
import Proofs.C02Tree
import Proofs.C02Base

namespace TM
open C02

/-- statement of `enterDest_spec` (Proofs/C02Enter.lean) -/
def EnterSpec : Prop :=
  ∀ (sc : Scope), sc.states.WF = true → ∀ (d0 : Nat) (dr : SPath) (T : Forest) (ents : List Found),
    enterDest sc (d0 :: dr) = .ok (T, ents) →
    ∃ v, T = .cons d0 v .nil ∧ ConfOK sc.states T = true ∧
      (ents.map (·.path)).Nodup ∧
      (∀ p, p ∈ ents.map (·.path) ↔ ∃ q ∈ T.nodes, p = sc.pre ++ q) ∧
      parentsFirst sc.pre [] (ents.map (·.path)) = true ∧
      (∀ e ∈ ents, ∃ rel, e.path = sc.pre ++ rel ∧ sc.states.walk rel = some (e.d, e.kids))

/-- statement of `enterRoot_eq` (Proofs/C02Enter.lean) -/
def EnterRootEq : Prop :=
  ∀ (sc : Scope) (rt dst : SPath),
    enterRoot sc rt dst = (match sc.walkTo rt with
      | some sc' => enterDest sc' dst
      | none => .err .other)

theorem resolveTransition_spec (hE : EnterSpec) (hR : EnterRootEq) (cfg : NCfg) (hwf : cfg.states.WF = true)
    (sc : Scope) (hsc : cfg.root.walkTo sc.pre = some sc)
    (conf : Forest) (hc : ConfOK cfg.states conf = true) (hlen : conf.len = 1)
    (dest : SPath) (r : Resolved) (h : resolveTransition cfg.root sc conf dest = .ok r) :
    ∃ A : SPath,
      (A = [] ∨ A ∈ conf.nodes) ∧
      (pathsOf r.exits).Nodup ∧
      (∀ p ∈ pathsOf r.exits, p ∈ conf.nodes ∧ properPrefix A p = true) ∧
      (pathsOf r.exits).Pairwise (fun a b => properPrefix a b = false) ∧
      (∀ p ∈ pathsOf r.exits, ∀ q ∈ conf.nodes, properPrefix p q = true → q ∈ pathsOf r.exits) ∧
      (pathsOf r.enters).Nodup ∧
      (∀ p ∈ pathsOf r.enters, p ∈ conf.nodes → p ∈ pathsOf r.exits) ∧
      parentsFirst A [] (pathsOf r.enters) = true ∧
      ConfOK cfg.states r.tree = true ∧ r.tree.len = 1 ∧
      (∀ p, p ∈ r.tree.nodes ↔ (p ∈ conf.nodes ∧ p ∉ pathsOf r.exits) ∨ p ∈ pathsOf r.enters) := by
  sorry

end TM
