/-
  Proofs/C02Change.lean — `_resolve_transition` at the set level (the abstraction lemma of the tree layer).

  Whatever the scope a transition is declared in and whatever its destination: if `resolveTransition` succeeds on an
  admissible configuration, there is an anchor `A` (the machine or an active state) such that
    * the exit list consists of distinct active states strictly below `A`, children before parents, closed under
      active descendants;
    * the enter list consists of distinct states none of which stays active, each after its parent (the first
      directly below `A`);
    * the new tree is admissible again, has a single root, and its nodes are (old nodes minus exits) plus enters.
  The facts about `_enter_nested` (proved in Proofs/C02Enter.lean) enter as hypotheses `EnterSpec`, `EnterRootEq`.

  Helper lemmas live in the namespace `TM.Change` (no clash with the other proof files): the static side
  (`kidsAt`, `walkTo_*`, `walk_append`), `ConfOK` against definitions (`ConfOK_WF/get/sub/walk/set/modifyAt`),
  `exitStates_paths`, `properPrefix_iff/append_*`, node sets (`mem_nodes_below/head/single`) and the set-level
  content of the tree surgery (`change_core`).
-/
import Proofs.C02Tree
import Proofs.C02Base

namespace TM
open C02

/-- statement of `enterDest_spec` (Proofs/C02Enter.lean) -/
def EnterSpec : Prop :=
  ∀ (sc : Scope), sc.states.WF = true → ∀ (d0 : Nat) (dr : SPath) (T : Forest) (ents : List Found),
    enterDest sc (d0 :: dr) = .ok (T, ents) →
    ∃ v, T = .cons d0 v .nil ∧ ConfOK sc.states T = true ∧
      (ents.map (·.path)).Nodup ∧
      (∀ p, p ∈ ents.map (·.path) ↔ ∃ q ∈ T.nodes, p = sc.pre ++ q) ∧
      parentsFirst sc.pre [] (ents.map (·.path)) = true ∧
      (∀ e ∈ ents, ∃ rel, e.path = sc.pre ++ rel ∧ sc.states.walk rel = some (e.d, e.kids))

/-- statement of `enterRoot_eq` (Proofs/C02Enter.lean) -/
def EnterRootEq : Prop :=
  ∀ (sc : Scope) (rt dst : SPath),
    enterRoot sc rt dst = (match sc.walkTo rt with
      | some sc' => enterDest sc' dst
      | none => .err .other)

namespace Change

/-! ### static side: scopes and `states` dictionaries -/

/-- the `states` dictionary reached by following `p` down the definitions -/
def kidsAt : SForest → SPath → Option SForest
  | sf, [] => some sf
  | sf, k :: p => match sf.find k with
    | some (_, kids) => kidsAt kids p
    | none => none

theorem enter_some {sc sc' : Scope} {k : Nat} (h : sc.enter k = some sc') :
    ∃ d, sc.states.find k = some (d, sc'.states) ∧ sc'.pre = sc.pre ++ [k] := by
  simp only [Scope.enter] at h
  split at h
  · rename_i d kids hf
    cases h
    exact ⟨d, hf, rfl⟩
  · cases h

theorem walkTo_pre {sc sc' : Scope} {p : SPath} (h : sc.walkTo p = some sc') : sc'.pre = sc.pre ++ p := by
  induction p generalizing sc with
  | nil => simp only [Scope.walkTo, Option.some.injEq] at h; subst h; simp
  | cons k p ih =>
    simp only [Scope.walkTo] at h
    cases he : sc.enter k with
    | none => simp [he] at h
    | some sc1 =>
      rw [he] at h
      obtain ⟨d, _, hp⟩ := enter_some he
      rw [ih h, hp]; simp

theorem walkTo_kidsAt {sc sc' : Scope} {p : SPath} (h : sc.walkTo p = some sc') :
    kidsAt sc.states p = some sc'.states := by
  induction p generalizing sc with
  | nil => simp only [Scope.walkTo, Option.some.injEq] at h; subst h; rfl
  | cons k p ih =>
    simp only [Scope.walkTo] at h
    cases he : sc.enter k with
    | none => simp [he] at h
    | some sc1 =>
      rw [he] at h
      obtain ⟨d, hf, _⟩ := enter_some he
      simp only [kidsAt, hf]
      exact ih h

theorem walkTo_append (sc : Scope) (p q : SPath) :
    sc.walkTo (p ++ q) = (sc.walkTo p).bind (·.walkTo q) := by
  induction p generalizing sc with
  | nil => simp [Scope.walkTo]
  | cons k p ih =>
    simp only [List.cons_append, Scope.walkTo]
    cases sc.enter k with
    | none => rfl
    | some sc1 => exact ih sc1

theorem WF_find {K : SForest} {k : Nat} {d : SDef} {kids : SForest} (hwf : K.WF = true)
    (h : K.find k = some (d, kids)) : kids.WF = true := by
  induction K with
  | nil => simp [SForest.find] at h
  | cons d' kids' rest _ ihr =>
    simp only [SForest.WF, Bool.and_eq_true] at hwf
    simp only [SForest.find] at h
    split at h
    · cases h; exact hwf.1.2
    · exact ihr hwf.2 h

theorem WF_kidsAt {sf K : SForest} {p : SPath} (hwf : sf.WF = true) (h : kidsAt sf p = some K) : K.WF = true := by
  induction p generalizing sf with
  | nil => simp only [kidsAt, Option.some.injEq] at h; exact h ▸ hwf
  | cons k p ih =>
    simp only [kidsAt] at h
    split at h
    · rename_i d kids hf
      exact ih (WF_find hwf hf) h
    · cases h

theorem find_mem_names {K : SForest} {k : Nat} {e : SDef × SForest} (h : K.find k = some e) : k ∈ K.names := by
  induction K with
  | nil => simp [SForest.find] at h
  | cons d kids rest _ ihr =>
    simp only [SForest.find] at h
    simp only [SForest.names, List.mem_cons]
    split at h
    · rename_i hk; exact Or.inl hk.symm
    · exact Or.inr (ihr h)

theorem walk_cons_cons (S : SForest) (k x : Nat) (p : SPath) :
    S.walk (k :: x :: p) = match S.find k with
      | some (_, kids) => kids.walk (x :: p)
      | none => none := by
  simp only [SForest.walk]
  cases S.find k <;> rfl

/-- a relative walk continues the walk to the scope -/
theorem walk_append {sf K : SForest} {a p : SPath} (h : kidsAt sf a = some K) (hp : p ≠ []) :
    sf.walk (a ++ p) = K.walk p := by
  induction a generalizing sf with
  | nil => simp only [kidsAt, Option.some.injEq] at h; subst h; rfl
  | cons k a ih =>
    simp only [kidsAt] at h
    split at h
    · rename_i d kids hf
      have hne : a ++ p ≠ [] := by simp [hp]
      obtain ⟨x, t, ht⟩ := List.exists_cons_of_ne_nil hne
      rw [List.cons_append, ht, walk_cons_cons, hf, ← ht]
      exact ih h
    · cases h

/-! ### configurations against definitions -/

theorem isEmpty_iff_keys {t : Forest} : t.isEmpty = true ↔ t.keys = [] := by
  cases t <;> simp [Forest.isEmpty, Forest.keys]

theorem isEmpty_false_of_get? {t s : Forest} {k : Nat} (h : t.get? k = some s) : t.isEmpty = false := by
  cases t with
  | nil => simp [Forest.get?] at h
  | cons => rfl

theorem ConfOK_WF {sf : SForest} {f : Forest} (h : ConfOK sf f = true) : f.WF = true := by
  induction f generalizing sf with
  | nil => rfl
  | cons k s r ihs ihr =>
    simp only [ConfOK, Bool.and_eq_true] at h
    obtain ⟨⟨hk, hm⟩, hr⟩ := h
    simp only [Forest.WF, Bool.and_eq_true]
    refine ⟨⟨hk, ?_⟩, ihr hr⟩
    split at hm
    · rename_i d kids hf
      split at hm
      · rename_i he
        cases s with
        | nil => rfl
        | cons => simp [Forest.isEmpty] at he
      · simp only [Bool.and_eq_true] at hm
        exact ihs hm.2
    · cases hm

/-- what `ConfOK` says about one entry -/
theorem ConfOK_get {sf : SForest} {f s : Forest} {k : Nat} (h : ConfOK sf f = true) (hg : f.get? k = some s) :
    ∃ d kids, sf.find k = some (d, kids) ∧
      (if s.isEmpty then d.initial.isEmpty = true
       else (s.len ≤ 1 ∨ ∀ n ∈ kids.names, n ∈ s.keys) ∧ ConfOK kids s = true) := by
  induction f with
  | nil => simp [Forest.get?] at hg
  | cons k' s' r _ ihr =>
    simp only [ConfOK, Bool.and_eq_true] at h
    obtain ⟨⟨hk, hm⟩, hr⟩ := h
    simp only [Forest.get?] at hg
    split at hg
    · rename_i hkk
      cases hg; subst hkk
      split at hm
      · rename_i d kids hf
        refine ⟨d, kids, hf, ?_⟩
        split at hm
        · rename_i he; simp [he, hm]
        · rename_i he
          simp only [he]
          simpa [Bool.and_eq_true, Bool.or_eq_true, List.all_eq_true] using hm
      · cases hm
    · exact ihr hr hg

theorem ConfOK_get_kids {sf : SForest} {f s : Forest} {k : Nat} {d : SDef} {kids : SForest}
    (h : ConfOK sf f = true) (hg : f.get? k = some s) (hf : sf.find k = some (d, kids)) :
    ConfOK kids s = true ∧ (s.len ≤ 1 ∨ ∀ n ∈ kids.names, n ∈ s.keys) := by
  obtain ⟨d', kids', hf', hm⟩ := ConfOK_get h hg
  rw [hf] at hf'; cases hf'
  split at hm
  · rename_i he
    cases s with
    | nil => exact ⟨rfl, Or.inl (by simp [Forest.len])⟩
    | cons => simp [Forest.isEmpty] at he
  · exact ⟨hm.2, hm.1⟩

/-- the sub-dictionary at an active position is admissible for the definitions found there, and has the shape
"at most one or all" unless it is the top of the tree -/
theorem ConfOK_sub {sf K : SForest} {f st : Forest} {A : SPath} (h : ConfOK sf f = true)
    (hs : f.sub? A = some st) (hK : kidsAt sf A = some K) :
    ConfOK K st = true ∧ (A ≠ [] → st.len ≤ 1 ∨ ∀ n ∈ K.names, n ∈ st.keys) := by
  induction A generalizing sf f with
  | nil =>
    simp only [Forest.sub?, Option.some.injEq] at hs
    simp only [kidsAt, Option.some.injEq] at hK
    subst hs; subst hK
    exact ⟨h, fun e => absurd rfl e⟩
  | cons k p ih =>
    simp only [Forest.sub?] at hs
    cases hg : f.get? k with
    | none => simp [hg] at hs
    | some s =>
      rw [hg] at hs
      simp only [kidsAt] at hK
      split at hK
      · rename_i d kids hf
        obtain ⟨h1, h2⟩ := ConfOK_get_kids h hg hf
        cases p with
        | nil =>
          simp only [Forest.sub?, Option.some.injEq] at hs
          simp only [kidsAt, Option.some.injEq] at hK
          subst hs; subst hK
          exact ⟨h1, fun _ => h2⟩
        | cons y p' =>
          obtain ⟨h3, h4⟩ := ih h1 hs hK
          exact ⟨h3, fun _ => h4 (by simp)⟩
      · cases hK

/-- every active state is a defined one -/
theorem ConfOK_walk {K : SForest} {st : Forest} {p : SPath} (h : ConfOK K st = true) (hp : p ≠ [])
    (hs : (st.sub? p).isSome = true) : (K.walk p).isSome = true := by
  induction p generalizing K st with
  | nil => exact absurd rfl hp
  | cons k p ih =>
    simp only [Forest.sub?] at hs
    cases hg : st.get? k with
    | none => simp [hg] at hs
    | some s =>
      rw [hg] at hs
      obtain ⟨d, kids, hf, _⟩ := ConfOK_get h hg
      cases p with
      | nil => simp [SForest.walk, hf]
      | cons y p' =>
        rw [walk_cons_cons, hf]
        exact ih (ConfOK_get_kids h hg hf).1 (by simp) hs

theorem ConfOK_cons_iff {sf : SForest} {k : Nat} {s r : Forest} :
    ConfOK sf (.cons k s r) = true ↔
      k ∉ r.keys ∧
      (∃ d kids, sf.find k = some (d, kids) ∧
        (if s.isEmpty then d.initial.isEmpty = true
         else (s.len ≤ 1 ∨ ∀ n ∈ kids.names, n ∈ s.keys) ∧ ConfOK kids s = true)) ∧
      ConfOK sf r = true := by
  simp only [ConfOK, Bool.and_eq_true, Bool.not_eq_true', List.contains_eq_mem, decide_eq_false_iff_not]
  constructor
  · rintro ⟨⟨hk, hm⟩, hr⟩
    refine ⟨hk, ?_, hr⟩
    split at hm
    · rename_i d kids hf
      refine ⟨d, kids, hf, ?_⟩
      split at hm
      · rename_i he; simp [he, hm]
      · rename_i he
        simp only [he]
        simpa [Bool.and_eq_true, Bool.or_eq_true, List.all_eq_true] using hm
    · cases hm
  · rintro ⟨hk, ⟨d, kids, hf, hm⟩, hr⟩
    refine ⟨⟨hk, ?_⟩, hr⟩
    rw [hf]
    split at hm
    · rename_i he; simp [he, hm]
    · rename_i he
      simp only [he]
      simpa [Bool.and_eq_true, Bool.or_eq_true, List.all_eq_true] using hm

theorem set_isEmpty (st v : Forest) (k : Nat) : (st.set k v).isEmpty = false := by
  cases st with
  | nil => rfl
  | cons k' s r => simp only [Forest.set]; split <;> rfl

theorem mem_keys_set {st v : Forest} {k n : Nat} : n ∈ (st.set k v).keys ↔ n ∈ st.keys ∨ n = k := by
  rw [Forest.keys_set]
  split
  · rename_i h
    simp only [List.contains_eq_mem, decide_eq_true_eq] at h
    constructor
    · exact Or.inl
    · rintro (h1 | rfl)
      · exact h1
      · exact h
  · simp

/-- `d[k] = v` keeps a dictionary admissible when the new entry is -/
theorem ConfOK_set {K : SForest} {st v : Forest} {k : Nat} (h : ConfOK K st = true)
    (hv : ConfOK K (.cons k v .nil) = true) : ConfOK K (st.set k v) = true := by
  induction st with
  | nil => exact hv
  | cons k' s r _ ihr =>
    rw [ConfOK_cons_iff] at h
    obtain ⟨hk, hm, hr⟩ := h
    simp only [Forest.set]
    split
    · rename_i hkk
      subst hkk
      rw [ConfOK_cons_iff] at hv ⊢
      exact ⟨hk, hv.2.1, hr⟩
    · rename_i hkk
      rw [ConfOK_cons_iff]
      refine ⟨?_, hm, ihr hr⟩
      rw [mem_keys_set]
      rintro (h1 | h1)
      · exact hk h1
      · exact hkk h1

/-- replacing the sub-dictionary at an active position by an admissible, non-empty one of the right shape -/
theorem ConfOK_modifyAt {sf K : SForest} {f st : Forest} {A : SPath} {g : Forest → Forest}
    (h : ConfOK sf f = true) (hs : f.sub? A = some st) (hK : kidsAt sf A = some K)
    (hg : ConfOK K (g st) = true) (hne : (g st).isEmpty = false)
    (hshape : A ≠ [] → (g st).len ≤ 1 ∨ ∀ n ∈ K.names, n ∈ (g st).keys) :
    ConfOK sf (f.modifyAt A g) = true := by
  induction A generalizing sf f with
  | nil =>
    simp only [Forest.sub?, Option.some.injEq] at hs
    simp only [kidsAt, Option.some.injEq] at hK
    subst hs; subst hK
    simpa [Forest.modifyAt] using hg
  | cons x p ih =>
    induction f with
    | nil => simp [Forest.sub?, Forest.get?] at hs
    | cons k s r _ ihr =>
      rw [ConfOK_cons_iff] at h
      obtain ⟨hk, ⟨d, kids, hf, hm⟩, hr⟩ := h
      simp only [Forest.modifyAt]
      by_cases hkx : k = x
      · subst hkx
        simp only [Forest.sub?, Forest.get?, if_true] at hs
        simp only [kidsAt, hf] at hK
        simp only [if_true]
        rw [ConfOK_cons_iff]
        refine ⟨hk, ⟨d, kids, hf, ?_⟩, hr⟩
        cases p with
        | nil =>
          simp only [Forest.sub?, Option.some.injEq] at hs
          simp only [kidsAt, Option.some.injEq] at hK
          subst hs; subst hK
          simp only [Forest.modifyAt, hne]
          exact ⟨hshape (by simp), hg⟩
        | cons y p' =>
          have hse : s.isEmpty = false := by
            cases s with
            | nil => simp [Forest.sub?, Forest.get?] at hs
            | cons => rfl
          have hkeys : (s.modifyAt (y :: p') g).keys = s.keys := Forest.keys_modifyAt (List.cons_ne_nil y p')
          have hse' : (s.modifyAt (y :: p') g).isEmpty = false := by
            cases hh : s.modifyAt (y :: p') g with
            | nil => rw [hh] at hkeys; cases s <;> simp_all [Forest.keys, Forest.isEmpty]
            | cons => rfl
          simp only [hse] at hm
          simp only [hse', Forest.len_eq_keys_length, hkeys]
          refine ⟨by simpa [Forest.len_eq_keys_length] using hm.1, ?_⟩
          exact ih hm.2 hs hK (fun _ => hshape (by simp))
      · simp only [Forest.sub?, Forest.get?, hkx, if_false] at hs
        simp only [kidsAt] at hK
        simp only [hkx, if_false]
        rw [ConfOK_cons_iff]
        refine ⟨?_, ⟨d, kids, hf, hm⟩, ?_⟩
        · rw [Forest.keys_modifyAt (List.cons_ne_nil x p)]; exact hk
        · exact ihr hr (by simpa [Forest.sub?] using hs)

/-! ### `exitStates`, `properPrefix` -/

theorem exitStates_paths {root sc : Scope} {rt : SPath} {order : List SPath} {exits : List Found}
    (hw : ∀ p ∈ order, (sc.states.walk (rt ++ p)).isSome = true)
    (h : exitStates root sc rt order = .ok exits) : pathsOf exits = order.map ((sc.pre ++ rt) ++ ·) := by
  induction order generalizing exits with
  | nil => simp only [exitStates, PR.ok.injEq] at h; subst h; rfl
  | cons p ps ih =>
    simp only [exitStates] at h
    have hp := hw p (by simp)
    cases hwk : sc.states.walk (rt ++ p) with
    | none => simp [hwk] at hp
    | some e =>
      simp only [getState, hwk] at h
      cases hr : exitStates root sc rt ps with
      | ok l =>
        simp only [hr, PR.bind, PR.ok.injEq] at h
        subst h
        have := ih (fun q hq => hw q (by simp [hq])) hr
        simp only [pathsOf] at this ⊢
        simp only [List.map_cons, this, List.append_assoc]
      | err e => simp [hr, PR.bind] at h
      | oof => simp [hr, PR.bind] at h

theorem properPrefix_iff {p q : SPath} : properPrefix p q = true ↔ ∃ t, t ≠ [] ∧ q = p ++ t := by
  simp only [properPrefix, Bool.and_eq_true, decide_eq_true_eq, beq_iff_eq]
  constructor
  · rintro ⟨h1, h2⟩
    refine ⟨q.drop p.length, ?_, ?_⟩
    · intro e
      have := congrArg List.length e
      simp at this; omega
    · conv => lhs; rw [← List.take_append_drop p.length q]
      rw [h2]
  · rintro ⟨t, ht, rfl⟩
    refine ⟨?_, by simp⟩
    have : 0 < t.length := List.length_pos_iff.mpr ht
    simp; omega

theorem properPrefix_append_self {A q : SPath} (hq : q ≠ []) : properPrefix A (A ++ q) = true :=
  properPrefix_iff.mpr ⟨q, hq, rfl⟩

theorem properPrefix_append_left (A a b : SPath) : properPrefix (A ++ a) (A ++ b) = properPrefix a b := by
  rw [Bool.eq_iff_iff, properPrefix_iff, properPrefix_iff]
  constructor
  · rintro ⟨t, ht, e⟩
    exact ⟨t, ht, by simpa [List.append_assoc] using e⟩
  · rintro ⟨t, ht, e⟩
    exact ⟨t, ht, by simp [e]⟩

/-! ### nodes -/

theorem mem_nodes_below {conf st : Forest} {A q : SPath} (hcw : conf.WF = true) (hs : conf.sub? A = some st)
    (hq : q ≠ []) : A ++ q ∈ conf.nodes ↔ q ∈ st.nodes := by
  rw [Forest.mem_nodes_iff hcw, Forest.mem_nodes_iff (Forest.WF_sub hcw hs), Forest.sub?_append, hs]
  simp [hq]

theorem mem_nodes_head {st s : Forest} {k : Nat} (hwf : st.WF = true) (hg : st.get? k = some s) (q : SPath) :
    (q ∈ st.nodes ∧ q.head? = some k) ↔ (q = [k] ∨ ∃ q' ∈ s.nodes, q = k :: q') := by
  have hsw := Forest.WF_get? hwf hg
  constructor
  · rintro ⟨h1, h2⟩
    cases q with
    | nil => simp at h2
    | cons x q' =>
      simp only [List.head?_cons, Option.some.injEq] at h2
      subst h2
      have := ((Forest.mem_nodes_iff hwf).mp h1).2
      simp only [Forest.sub?, hg] at this
      cases q' with
      | nil => exact Or.inl rfl
      | cons y q'' => exact Or.inr ⟨_, Forest.mem_nodes_of_sub? (by simp) this, rfl⟩
  · rintro (rfl | ⟨q', hq', rfl⟩)
    · exact ⟨Forest.mem_nodes_of_sub? (by simp) (by simp [Forest.sub?, hg]), rfl⟩
    · refine ⟨Forest.mem_nodes_of_sub? (by simp) ?_, rfl⟩
      simp only [Forest.sub?, hg]
      exact ((Forest.mem_nodes_iff hsw).mp hq').2

theorem mem_nodes_single {d0 : Nat} {v : Forest} {q : SPath} :
    q ∈ (Forest.cons d0 v .nil).nodes ↔ (q = [d0] ∨ ∃ q' ∈ v.nodes, q = d0 :: q') := by
  simp only [Forest.nodes, List.append_nil, List.mem_cons, List.mem_map]
  constructor
  · rintro (h | ⟨a, ha, rfl⟩)
    · exact Or.inl h
    · exact Or.inr ⟨a, ha, rfl⟩
  · rintro (h | ⟨a, ha, rfl⟩)
    · exact Or.inl h
    · exact Or.inr ⟨a, ha, rfl⟩

/-- the set-level content of the tree surgery of `_resolve_transition` -/
theorem change_core {conf st base v : Forest} {A : SPath} {d0 : Nat} {nar : Prop} {g : Forest → Forest}
    (hcw : conf.WF = true) (hs : conf.sub? A = some st) (hbw : base.WF = true)
    (hbase : ∀ q, q ∈ base.nodes ↔ q ∈ st.nodes ∧ nar)
    (hg : g st = base.set d0 v)
    {order N : List SPath}
    (hord : order.Nodup) (hpw : order.Pairwise (fun a b => properPrefix a b = false))
    (hmem : ∀ q, q ∈ order ↔ q ∈ st.nodes ∧ (nar → q.head? = some d0))
    (hNmem : ∀ p, p ∈ N ↔ ∃ q ∈ (Forest.cons d0 v .nil).nodes, p = A ++ q) :
    (order.map (A ++ ·)).Nodup ∧
    (∀ p ∈ order.map (A ++ ·), p ∈ conf.nodes ∧ properPrefix A p = true) ∧
    (order.map (A ++ ·)).Pairwise (fun a b => properPrefix a b = false) ∧
    (∀ p ∈ order.map (A ++ ·), ∀ q ∈ conf.nodes, properPrefix p q = true → q ∈ order.map (A ++ ·)) ∧
    (∀ p ∈ N, p ∈ conf.nodes → p ∈ order.map (A ++ ·)) ∧
    (∀ p, p ∈ (conf.modifyAt A g).nodes ↔ (p ∈ conf.nodes ∧ p ∉ order.map (A ++ ·)) ∨ p ∈ N) := by
  have hne : ∀ {q}, q ∈ st.nodes → q ≠ [] := fun hq e => Forest.nil_not_mem_nodes st (e ▸ hq)
  have hX : ∀ p, p ∈ order.map (A ++ ·) ↔ ∃ q, (q ∈ st.nodes ∧ (nar → q.head? = some d0)) ∧ p = A ++ q := by
    intro p
    simp only [List.mem_map, hmem]
    constructor
    · rintro ⟨q, hq, rfl⟩; exact ⟨q, hq, rfl⟩
    · rintro ⟨q, hq, rfl⟩; exact ⟨q, hq, rfl⟩
  refine ⟨?_, ?_, ?_, ?_, ?_, ?_⟩
  · exact List.Pairwise.map _ (by intro a b hab; simpa using hab) hord
  · intro p hp
    obtain ⟨q, ⟨hq, _⟩, rfl⟩ := (hX p).mp hp
    exact ⟨(mem_nodes_below hcw hs (hne hq)).mpr hq, properPrefix_append_self (hne hq)⟩
  · exact List.Pairwise.map _ (by intro a b hab; rw [properPrefix_append_left]; exact hab) hpw
  · intro p hp q hq hpq
    obtain ⟨p', ⟨hp', hh⟩, rfl⟩ := (hX p).mp hp
    obtain ⟨t, ht, rfl⟩ := properPrefix_iff.mp hpq
    rw [hX]
    refine ⟨p' ++ t, ⟨?_, ?_⟩, by simp⟩
    · rw [List.append_assoc] at hq
      exact (mem_nodes_below hcw hs (by simp [ht])).mp hq
    · intro hn
      have := hh hn
      cases p' with
      | nil => simp at this
      | cons x p'' => simpa using this
  · intro p hp hpc
    obtain ⟨q, hq, rfl⟩ := (hNmem p).mp hp
    rw [hX]
    have hq' : q ≠ [] ∧ q.head? = some d0 := by
      rcases mem_nodes_single.mp hq with rfl | ⟨q', _, rfl⟩ <;> simp
    exact ⟨q, ⟨(mem_nodes_below hcw hs hq'.1).mp hpc, fun _ => hq'.2⟩, rfl⟩
  · intro p
    rw [Forest.mem_nodes_modifyAt hcw hs, hg]
    constructor
    · rintro (⟨h1, h2⟩ | ⟨q, hq, rfl⟩)
      · refine Or.inl ⟨h1, fun hx => ?_⟩
        obtain ⟨q, ⟨hq, _⟩, rfl⟩ := (hX p).mp hx
        rw [properPrefix_append_self (hne hq)] at h2
        cases h2
      · rw [Forest.mem_nodes_set hbw] at hq
        rcases hq with ⟨hq, hhd⟩ | hq
        · rw [hbase] at hq
          refine Or.inl ⟨(mem_nodes_below hcw hs (hne hq.1)).mpr hq.1, fun hx => ?_⟩
          obtain ⟨q', ⟨_, hh⟩, e⟩ := (hX _).mp hx
          have := List.append_cancel_left e
          subst this
          exact hhd (hh hq.2)
        · exact Or.inr ((hNmem _).mpr ⟨q, mem_nodes_single.mpr hq, rfl⟩)
    · rintro (⟨h1, h2⟩ | hp)
      · by_cases hpp : properPrefix A p = true
        · obtain ⟨q, hq, rfl⟩ := properPrefix_iff.mp hpp
          have hqs := (mem_nodes_below hcw hs hq).mp h1
          refine Or.inr ⟨q, ?_, rfl⟩
          rw [Forest.mem_nodes_set hbw, hbase]
          by_cases hn : nar
          · refine Or.inl ⟨⟨hqs, hn⟩, fun hhd => h2 ?_⟩
            exact (hX _).mpr ⟨q, ⟨hqs, fun _ => hhd⟩, rfl⟩
          · exact absurd ((hX _).mpr ⟨q, ⟨hqs, fun h => absurd h hn⟩, rfl⟩) h2
        · exact Or.inl ⟨h1, by simpa using hpp⟩
      · obtain ⟨q, hq, rfl⟩ := (hNmem p).mp hp
        refine Or.inr ⟨q, ?_, rfl⟩
        rw [Forest.mem_nodes_set hbw]
        exact Or.inr (mem_nodes_single.mp hq)


/-! ### inversion of `resolveTransition` -/

theorem getState_nil (root sc : Scope) : getState root sc [] = none := by
  simp [getState, SForest.walk]

theorem activePrefix_fst_ne_nil {f : Forest} {dest : SPath} (hd : dest ≠ [])
    (h : (activePrefix f dest).2 = []) : (activePrefix f dest).1 ≠ [] := by
  cases dest with
  | nil => exact absurd rfl hd
  | cons k p =>
    simp only [activePrefix] at h ⊢
    cases hg : f.get? k with
    | none => simp [hg] at h
    | some s => simp

theorem bind_ok {α β : Type} {r : PR α} {f : α → PR β} {b : β} (h : r.bind f = .ok b) :
    ∃ a, r = .ok a ∧ f a = .ok b := by
  cases r with
  | ok a => exact ⟨a, rfl, h⟩
  | err e => simp [PR.bind] at h
  | oof => simp [PR.bind] at h

end Change
open Change

private theorem resolveTransition_aux (hE : EnterSpec) (hR : EnterRootEq) (cfg : NCfg) (hwf : cfg.states.WF = true)
    (sc : Scope) (hsc : cfg.root.walkTo sc.pre = some sc)
    (conf : Forest) (hc : ConfOK cfg.states conf = true) (hlen : conf.len = 1)
    (dest : SPath) (r : Resolved) (h : resolveTransition cfg.root sc conf dest = .ok r) :
    (∃ A : SPath,
      (A = [] ∨ A ∈ conf.nodes) ∧
      (pathsOf r.exits).Nodup ∧
      (∀ p ∈ pathsOf r.exits, p ∈ conf.nodes ∧ properPrefix A p = true) ∧
      (pathsOf r.exits).Pairwise (fun a b => properPrefix a b = false) ∧
      (∀ p ∈ pathsOf r.exits, ∀ q ∈ conf.nodes, properPrefix p q = true → q ∈ pathsOf r.exits) ∧
      (pathsOf r.enters).Nodup ∧
      (∀ p ∈ pathsOf r.enters, p ∈ conf.nodes → p ∈ pathsOf r.exits) ∧
      parentsFirst A [] (pathsOf r.enters) = true ∧
      ConfOK cfg.states r.tree = true ∧ r.tree.len = 1 ∧
      (∀ p, p ∈ r.tree.nodes ↔ (p ∈ conf.nodes ∧ p ∉ pathsOf r.exits) ∨ p ∈ pathsOf r.enters)) ∧
    r.exitNames = pathsOf r.exits := by
  have hdest : dest ≠ [] := by
    rintro rfl
    simp [resolveTransition, getState_nil] at h
  simp only [resolveTransition] at h
  split at h
  · cases h
  · split at h
    · cases h
    · cases h
    rename_i sT _
    have hdst : (if (activePrefix sT dest).2.isEmpty = true then
        (activePrefix sT dest).1.drop ((activePrefix sT dest).1.length - 1) else (activePrefix sT dest).2) ≠ [] := by
      split
      · rename_i he
        have h1 := activePrefix_fst_ne_nil (f := sT) hdest (by simpa using he)
        intro e
        have h2 := congrArg List.length e
        have h3 : 0 < (activePrefix sT dest).1.length := List.length_pos_iff.mpr h1
        simp at h2; omega
      · rename_i he
        simpa using he
    generalize (if (activePrefix sT dest).2.isEmpty = true then
        (activePrefix sT dest).1.drop ((activePrefix sT dest).1.length - 1) else (activePrefix sT dest).2) = dst
        at h hdst
    generalize (if (activePrefix sT dest).2.isEmpty = true then
        (activePrefix sT dest).1.dropLast else (activePrefix sT dest).1) = rt at h
    obtain ⟨d0, dr, rfl⟩ := List.exists_cons_of_ne_nil hdst
    simp only [List.headD_cons] at h
    split at h
    · cases h
    · cases h
    · rename_i st hred
      split at h
      · cases h
      · rename_i order hord
        obtain ⟨exits, hex, h⟩ := bind_ok h
        obtain ⟨⟨T, ents⟩, hen, h⟩ := bind_ok h
        simp only [PR.ok.injEq] at h
        subst h
        dsimp only
        -- the static side: the scope of the anchor
        rw [hR] at hen
        cases hw : sc.walkTo rt with
        | none => simp [hw] at hen
        | some sc' =>
        simp only [hw] at hen
        have hpre : sc'.pre = sc.pre ++ rt := walkTo_pre hw
        have hA : cfg.root.walkTo (sc.pre ++ rt) = some sc' := by
          rw [walkTo_append, hsc]; exact hw
        have hK : kidsAt cfg.states (sc.pre ++ rt) = some sc'.states := walkTo_kidsAt hA
        have hKr : kidsAt sc.states rt = some sc'.states := walkTo_kidsAt hw
        have hKwf : sc'.states.WF = true := WF_kidsAt hwf hK
        obtain ⟨v, rfl, hTok, hNnd, hNmem, hNpf, _⟩ := hE sc' hKwf d0 dr T ents hen
        rw [hpre] at hNmem hNpf
        dsimp only
        -- the configuration at the anchor
        have hs : conf.sub? (sc.pre ++ rt) = some st := Forest.reduceGet_some.mp hred
        obtain ⟨hst, hshape⟩ := ConfOK_sub hc hs hK
        have hcw : conf.WF = true := ConfOK_WF hc
        have hstw : st.WF = true := Forest.WF_sub hcw hs
        have hd0K : d0 ∈ sc'.states.names := by
          rw [ConfOK_cons_iff] at hTok
          obtain ⟨_, ⟨d, kids, hf, _⟩, _⟩ := hTok
          exact find_mem_names hf
        have hAne : st.len > 1 → sc.pre ++ rt ≠ [] := by
          intro hn e
          rw [e] at hs
          simp only [Forest.sub?, Option.some.injEq] at hs
          subst hs; omega
        -- the exit scope
        have hES : (if st.len > 1 then Forest.cons d0 ((st.get? d0).getD .nil) .nil else st).WF = true ∧
            ∀ q, q ∈ (if st.len > 1 then Forest.cons d0 ((st.get? d0).getD .nil) .nil else st).nodes ↔
              q ∈ st.nodes ∧ (st.len > 1 → q.head? = some d0) := by
          by_cases hn : st.len > 1
          · have hd0 : d0 ∈ st.keys := by
              rcases hshape (hAne hn) with h1 | h1
              · omega
              · exact h1 d0 hd0K
            obtain ⟨s0, hg⟩ := Option.isSome_iff_exists.mp (Forest.get?_isSome.mpr hd0)
            simp only [hn, if_true, hg, Option.getD_some]
            refine ⟨by simp [Forest.WF, Forest.keys, Forest.WF_get? hstw hg], fun q => ?_⟩
            rw [mem_nodes_single, ← mem_nodes_head hstw hg]
            simp
          · simp only [hn, if_false]
            exact ⟨hstw, fun q => by simp⟩
        generalize (if st.len > 1 then Forest.cons d0 ((st.get? d0).getD .nil) .nil else st) = ES at hord hES
        have hperm := resolveOrder_perm hord
        have hordnd : order.Nodup := hperm.nodup_iff.mpr (Forest.nodes_nodup hES.1)
        have hmem : ∀ q, q ∈ order ↔ q ∈ st.nodes ∧ (st.len > 1 → q.head? = some d0) :=
          fun q => hperm.mem_iff.trans (hES.2 q)
        have hpw := resolveOrder_children_first hord
        have hX : pathsOf exits = order.map ((sc.pre ++ rt) ++ ·) := by
          refine exitStates_paths (fun p hp => ?_) hex
          have hps := ((hmem p).mp hp).1
          have hpne : p ≠ [] := fun e => Forest.nil_not_mem_nodes st (e ▸ hps)
          rw [walk_append hKr hpne]
          exact ConfOK_walk hst hpne ((Forest.mem_nodes_iff hstw).mp hps).2
        -- the surgery
        have hbw : (if st.len > 1 then st else Forest.nil).WF = true := by
          split
          · exact hstw
          · rfl
        have hbase : ∀ q, q ∈ (if st.len > 1 then st else Forest.nil).nodes ↔ q ∈ st.nodes ∧ st.len > 1 := by
          intro q
          by_cases hn : st.len > 1 <;> simp [hn, Forest.nodes]
        obtain ⟨c1, c2, c3, c4, c5, c6⟩ := change_core (nar := st.len > 1)
          (g := fun st_1 => (if st.len > 1 then st_1 else Forest.nil).set d0 v) hcw hs hbw hbase rfl hordnd hpw hmem hNmem
        rw [hX]
        refine ⟨⟨sc.pre ++ rt, ?_, c1, c2, c3, c4, hNnd, c5, hNpf, ?_, ?_, c6⟩, ?_⟩
        · by_cases hAe : sc.pre ++ rt = []
          · exact Or.inl hAe
          · exact Or.inr (Forest.mem_nodes_of_sub? hAe (by simp [hs]))
        · refine ConfOK_modifyAt hc hs hK ?_ (set_isEmpty _ _ _) ?_
          · refine ConfOK_set ?_ hTok
            split
            · exact hst
            · rfl
          · intro hAe
            by_cases hn : st.len > 1
            · right
              intro n hnK
              rw [mem_keys_set]
              left
              simp only [hn, if_true]
              rcases hshape hAe with h1 | h1
              · omega
              · exact h1 n hnK
            · left
              simp [hn, Forest.set, Forest.len]
        · by_cases hAe : sc.pre ++ rt = []
          · rw [hAe] at hs ⊢
            simp only [Forest.sub?, Option.some.injEq] at hs
            subst hs
            have hn : ¬ conf.len > 1 := by omega
            simp [Forest.modifyAt, hn, Forest.set, Forest.len]
          · rw [Forest.len_modifyAt hAe]; exact hlen
        · simp only [List.append_assoc]

theorem resolveTransition_spec (hE : EnterSpec) (hR : EnterRootEq) (cfg : NCfg) (hwf : cfg.states.WF = true)
    (sc : Scope) (hsc : cfg.root.walkTo sc.pre = some sc)
    (conf : Forest) (hc : ConfOK cfg.states conf = true) (hlen : conf.len = 1)
    (dest : SPath) (r : Resolved) (h : resolveTransition cfg.root sc conf dest = .ok r) :
    ∃ A : SPath,
      (A = [] ∨ A ∈ conf.nodes) ∧
      (pathsOf r.exits).Nodup ∧
      (∀ p ∈ pathsOf r.exits, p ∈ conf.nodes ∧ properPrefix A p = true) ∧
      (pathsOf r.exits).Pairwise (fun a b => properPrefix a b = false) ∧
      (∀ p ∈ pathsOf r.exits, ∀ q ∈ conf.nodes, properPrefix p q = true → q ∈ pathsOf r.exits) ∧
      (pathsOf r.enters).Nodup ∧
      (∀ p ∈ pathsOf r.enters, p ∈ conf.nodes → p ∈ pathsOf r.exits) ∧
      parentsFirst A [] (pathsOf r.enters) = true ∧
      ConfOK cfg.states r.tree = true ∧ r.tree.len = 1 ∧
      (∀ p, p ∈ r.tree.nodes ↔ (p ∈ conf.nodes ∧ p ∉ pathsOf r.exits) ∨ p ∈ pathsOf r.enters) :=
  (resolveTransition_aux hE hR cfg hwf sc hsc conf hc hlen dest r h).1

/-- what goes into `event_data.exited_states` is exactly the list of states that are exited -/
theorem resolveTransition_exitNames (hE : EnterSpec) (hR : EnterRootEq) (cfg : NCfg) (hwf : cfg.states.WF = true)
    (sc : Scope) (hsc : cfg.root.walkTo sc.pre = some sc)
    (conf : Forest) (hc : ConfOK cfg.states conf = true) (hlen : conf.len = 1)
    (dest : SPath) (r : Resolved) (h : resolveTransition cfg.root sc conf dest = .ok r) :
    r.exitNames = pathsOf r.exits :=
  (resolveTransition_aux hE hR cfg hwf sc hsc conf hc hlen dest r h).2

end TM
