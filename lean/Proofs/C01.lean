/-
  Proofs/C01.lean — helper lemmas: every engine function, run with a script that neither raises nor
  issues re-entrant commands, appends a segment that the documented-order acceptor accepts.
-/
import Model.Spec.C01

namespace TM
open C01

/-- no scripted invocation raises -/
def NoRaise (sc : Script) : Prop := ∀ c k, ∃ b, (sc c k).out = .ret b
/-- no scripted invocation issues re-entrant API calls -/
def NoCmds (sc : Script) : Prop := ∀ c k, (sc c k).cmds = []

/-- everything but the log and the invocation counters is unchanged -/
structure Frame (s s' : St) : Prop where
  models : s'.models = s.models
  mstate : s'.mstate = s.mstate
  queue : s'.queue = s.queue
  nextTag : s'.nextTag = s.nextTag

theorem Frame.refl (s : St) : Frame s s := ⟨rfl, rfl, rfl, rfl⟩
theorem Frame.trans {a b c : St} (h1 : Frame a b) (h2 : Frame b c) : Frame a c :=
  ⟨h2.models.trans h1.models, h2.mstate.trans h1.mstate, h2.queue.trans h1.queue, h2.nextTag.trans h1.nextTag⟩
theorem Frame.stateOf {s s' : St} (h : Frame s s') (m : Nat) : s'.stateOf m = s.stateOf m := by
  simp [St.stateOf, h.mstate]

/-- `seg` is accepted by `p` with value `a`, whatever follows -/
def Accepts {α} (p : Acc α) (seg : List Item) (a : α) : Prop := ∀ rest, p (seg ++ rest) = some (a, rest)

theorem Accepts.nil {α} (a : α) : Accepts (fun l => some (a, l)) [] a := fun _ => rfl

theorem Accepts.andThen {α β} {p : Acc α} {q : α → Acc β} {s1 s2 : List Item} {a : α} {b : β}
    (h1 : Accepts p s1 a) (h2 : Accepts (q a) s2 b) : Accepts (andThen p q) (s1 ++ s2) b := by
  intro rest
  simp only [C01.andThen, List.append_assoc, h1 (s2 ++ rest), h2 rest]

variable (sub : Sub) (sc : Script)

theorem invoke_ok (hR : NoRaise sc) (hC : NoCmds sc) (slot : Slot) (x : Ctx) (c : Nat) (s : St) :
    ∃ b s', invoke sub sc slot x c s = .ok b s' ∧ Frame s s' ∧
      s'.log = s.log ++ [.call slot c x.model x.tag (s.stateOf x.model), .done c (.ret b)] := by
  obtain ⟨b, hb⟩ := hR c (s.count c)
  refine ⟨b, (({ s with counts := aset c (s.count c + 1) s.counts }).emit
      (.call slot c x.model x.tag (s.stateOf x.model))).emit (.done c (.ret b)), ?_, ?_, ?_⟩
  · simp only [invoke, hC c (s.count c), runCmds, hb]
    rfl
  · exact ⟨rfl, rfl, rfl, rfl⟩
  · simp [St.emit]

theorem callbacks_ok (hR : NoRaise sc) (hC : NoCmds sc) (slot : Slot) (x : Ctx) :
    ∀ (cbs : List Nat) (s : St), ∃ s' seg, callbacks sub sc slot x cbs s = .ok () s' ∧ Frame s s' ∧
      s'.log = s.log ++ seg ∧ Accepts (expectCbs slot x.model x.tag (s.stateOf x.model) cbs) seg () := by
  intro cbs
  induction cbs with
  | nil => intro s; exact ⟨s, [], rfl, Frame.refl s, by simp, fun _ => rfl⟩
  | cons c cs ih =>
    intro s
    obtain ⟨b, s1, h1, f1, l1⟩ := invoke_ok sub sc hR hC slot x c s
    obtain ⟨s2, seg, h2, f2, l2, a2⟩ := ih s1
    refine ⟨s2, [.call slot c x.model x.tag (s.stateOf x.model), .done c (.ret b)] ++ seg, ?_, f1.trans f2, ?_, ?_⟩
    · simp only [callbacks, h1, Res.bind, h2]
    · rw [l2, l1]; simp
    · intro rest
      have := a2 rest
      rw [f1.stateOf] at this
      simp [expectCbs, this]

theorem evalConds_ok (hR : NoRaise sc) (hC : NoCmds sc) (x : Ctx) :
    ∀ (cs : List Cond) (s : St), ∃ b s' seg, evalConds sub sc x cs s = .ok b s' ∧ Frame s s' ∧
      s'.log = s.log ++ seg ∧ Accepts (expectConds x.model x.tag (s.stateOf x.model) cs) seg b := by
  intro cs
  induction cs with
  | nil => intro s; exact ⟨true, s, [], rfl, Frame.refl s, by simp, fun _ => rfl⟩
  | cons c cs ih =>
    intro s
    obtain ⟨b, s1, h1, f1, l1⟩ := invoke_ok sub sc hR hC (if c.target then .condition else .unless) x c.cb s
    by_cases hb : b = c.target
    · obtain ⟨b2, s2, seg, h2, f2, l2, a2⟩ := ih s1
      refine ⟨b2, s2, [.call (if c.target then .condition else .unless) c.cb x.model x.tag (s.stateOf x.model), .done c.cb (.ret b)] ++ seg, ?_, f1.trans f2, ?_, ?_⟩
      · simp only [evalConds, h1, Res.bind, hb, if_true, h2]
      · rw [l2, l1]; simp
      · intro rest
        have := a2 rest
        rw [f1.stateOf] at this
        simp [expectConds, hb, this]
    · refine ⟨false, s1, [.call (if c.target then .condition else .unless) c.cb x.model x.tag (s.stateOf x.model), .done c.cb (.ret b)], ?_, f1, l1, ?_⟩
      · simp only [evalConds, h1, Res.bind, hb, if_false]
      · intro rest
        simp [expectConds, hb]

/-! ### association lists -/

theorem alookup_aset_self {β} (k : Nat) (v : β) : ∀ l : List (Nat × β), alookup k (aset k v l) = some v
  | [] => by simp [aset, alookup]
  | (k', v') :: r => by
    by_cases h : k' = k
    · simp [aset, alookup, h]
    · simp [aset, alookup, h, alookup_aset_self k v r]

theorem alookup_aset_ne {β} (k k' : Nat) (v : β) (h : k' ≠ k) : ∀ l : List (Nat × β), alookup k' (aset k v l) = alookup k' l
  | [] => by simp [aset, alookup, Ne.symm h]
  | (k'', v') :: r => by
    by_cases h2 : k'' = k
    · subst h2; simp [aset, alookup, Ne.symm h]
    · by_cases h3 : k'' = k'
      · subst h3; simp [aset, alookup, h2]
      · simp [aset, alookup, h2, h3, alookup_aset_ne k k' v h r]

theorem aset_same {β} (k : Nat) (v : β) : ∀ l : List (Nat × β), alookup k l = some v → aset k v l = l
  | [], h => by simp [alookup] at h
  | (k', v') :: r, h => by
    by_cases h2 : k' = k
    · simp [alookup, h2] at h; simp [aset, h2, h]
    · simp [alookup, h2] at h; simp [aset, h2, aset_same k v r h]

theorem stateOf_setState_self (s : St) (m st : Nat) : (s.setState m st).stateOf m = st := by
  simp [St.setState, St.stateOf, alookup_aset_self]

/-! ### well-formedness -/

/-- source and destination of a transition are registered states -/
def Cfg.TransOK (cfg : Cfg) (t : Trans) : Prop :=
  (cfg.state? t.source).isSome ∧ ∀ d, t.dest = some d → (cfg.state? d).isSome

/-- every transition of every event is `TransOK` (decidable; `add_transition` checks State objects
eagerly and names lazily, so this is a genuine hypothesis: see `C12` for unregistered destinations) -/
def Cfg.WF (cfg : Cfg) : Prop := ∀ ev ts, cfg.event? ev = some ts → ∀ t ∈ ts, cfg.TransOK t

variable (cfg : Cfg)

/-- effect of one candidate on the model's state table -/
def applyTo (ms : List (Nat × Nat)) (m : Nat) : Option Nat → List (Nat × Nat)
  | some st' => aset m st' ms
  | none => ms

/-- what `execute`/`tryTransitions` leave unchanged -/
structure Frame' (s s' : St) : Prop where
  models : s'.models = s.models
  queue : s'.queue = s.queue
  nextTag : s'.nextTag = s.nextTag

theorem Frame.toFrame' {s s' : St} (h : Frame s s') : Frame' s s' := ⟨h.models, h.queue, h.nextTag⟩
theorem Frame'.trans {a b c : St} (h1 : Frame' a b) (h2 : Frame' b c) : Frame' a c :=
  ⟨h2.models.trans h1.models, h2.queue.trans h1.queue, h2.nextTag.trans h1.nextTag⟩

theorem execute_ok (hR : NoRaise sc) (hC : NoCmds sc) (x : Ctx) (t : Trans) (s : St)
    (hsrc : t.source = s.stateOf x.model) (hm : alookup x.model s.mstate = some (s.stateOf x.model))
    (hok : cfg.TransOK t) :
    ∃ (r : Option Nat) (s' : St) (seg : List Item),
      execute sub sc cfg x t s = .ok r.isSome s' ∧ Frame' s s' ∧
      s'.mstate = applyTo s.mstate x.model r ∧ s'.log = s.log ++ seg ∧
      (∀ st', r = some st' → (cfg.state? st').isSome) ∧
      Accepts (expectCand cfg x.model x.tag (s.stateOf x.model) t) seg r := by
  obtain ⟨s1, g1, e1, f1, l1, a1⟩ := callbacks_ok sub sc hR hC .prepare x t.prepare s
  obtain ⟨ok, s2, g2, e2, f2, l2, a2⟩ := evalConds_ok sub sc hR hC x t.conds s1
  rw [f1.stateOf] at a2
  cases ok with
  | false =>
    refine ⟨none, s2, g1 ++ g2, ?_, (f1.trans f2).toFrame', ?_, ?_, ?_, ?_⟩
    · simp [execute, e1, Res.bind, e2]
    · simp [applyTo, f2.mstate, f1.mstate]
    · rw [l2, l1]; simp
    · intro st' h; cases h
    · intro rest
      simp only [Accepts] at a1 a2
      simp [expectCand, C01.andThen, List.append_assoc, a1, a2]
  | true =>
    obtain ⟨s3, g3, e3, f3, l3, a3⟩ := callbacks_ok sub sc hR hC .beforeSC x cfg.beforeSC s2
    obtain ⟨s4, g4, e4, f4, l4, a4⟩ := callbacks_ok sub sc hR hC .before x t.before s3
    have f14 : Frame s s4 := ((f1.trans f2).trans f3).trans f4
    rw [f2.stateOf, f1.stateOf] at a3
    rw [f3.stateOf, f2.stateOf, f1.stateOf] at a4
    cases hd : t.dest with
    | none =>
      obtain ⟨s5, g5, e5, f5, l5, a5⟩ := callbacks_ok sub sc hR hC .after x t.after s4
      obtain ⟨s6, g6, e6, f6, l6, a6⟩ := callbacks_ok sub sc hR hC .afterSC x cfg.afterSC s5
      rw [f14.stateOf] at a5
      rw [f5.stateOf, f14.stateOf] at a6
      refine ⟨some (s.stateOf x.model), s6, g1 ++ g2 ++ g3 ++ g4 ++ g5 ++ g6, ?_, ((f14.trans f5).trans f6).toFrame', ?_, ?_, ?_, ?_⟩
      · simp [execute, e1, Res.bind, e2, e3, e4, hd, e5, e6]
      · simp [applyTo, f6.mstate, f5.mstate, f14.mstate, aset_same _ _ _ hm]
      · rw [l6, l5, l4, l3, l2, l1]; simp
      · intro st' h; cases h; rw [← hsrc]; exact hok.1
      · intro rest
        simp only [Accepts] at a1 a2 a3 a4 a5 a6
        simp [expectCand, C01.andThen, List.append_assoc, a1, a2, a3, a4, a5, a6, hd]
    | some d =>
      obtain ⟨sdef, hs⟩ := Option.isSome_iff_exists.mp hok.1
      obtain ⟨ddef, hdd⟩ := Option.isSome_iff_exists.mp (hok.2 d hd)
      rw [hsrc] at hs
      obtain ⟨s5, g5, e5, f5, l5, a5⟩ := callbacks_ok sub sc hR hC .onExit x sdef.onExit s4
      rw [f14.stateOf] at a5
      have f15 := f14.trans f5
      obtain ⟨s6, g6, e6, f6, l6, a6⟩ := callbacks_ok sub sc hR hC .onEnter x ddef.onEnter (s5.setState x.model d)
      rw [stateOf_setState_self] at a6
      have hst6 : s6.stateOf x.model = d := by rw [f6.stateOf, stateOf_setState_self]
      -- on_final stage
      have hfin : ∃ s7 g7, (if ddef.final then callbacks sub sc .onFinal x cfg.onFinal s6 else .ok () s6) = .ok () s7 ∧
          Frame s6 s7 ∧ s7.log = s6.log ++ g7 ∧
          Accepts (if ddef.final then expectCbs .onFinal x.model x.tag d cfg.onFinal else fun l => some ((), l)) g7 () := by
        by_cases hf : ddef.final
        · obtain ⟨s7, g7, e7, f7, l7, a7⟩ := callbacks_ok sub sc hR hC .onFinal x cfg.onFinal s6
          rw [hst6] at a7
          exact ⟨s7, g7, by simp [hf, e7], f7, l7, by simpa [hf] using a7⟩
        · exact ⟨s6, [], by simp [hf], Frame.refl _, by simp, by simpa [hf] using Accepts.nil ()⟩
      obtain ⟨s7, g7, e7, f7, l7, a7⟩ := hfin
      obtain ⟨s8, g8, e8, f8, l8, a8⟩ := callbacks_ok sub sc hR hC .after x t.after s7
      obtain ⟨s9, g9, e9, f9, l9, a9⟩ := callbacks_ok sub sc hR hC .afterSC x cfg.afterSC s8
      rw [f7.stateOf, hst6] at a8
      rw [f8.stateOf, f7.stateOf, hst6] at a9
      refine ⟨some d, s9, g1 ++ g2 ++ g3 ++ g4 ++ g5 ++ g6 ++ g7 ++ g8 ++ g9, ?_, ?_, ?_, ?_, ?_, ?_⟩
      · simp only [execute, e1, Res.bind, e2, e3, e4, hd, changeState, f14.stateOf, hs, e5, hdd, e6]
        simp only [Bool.not_true, Bool.false_eq_true, if_false]
        rw [e7]; simp [e8, e9]
      · exact ⟨by rw [f9.models, f8.models, f7.models, f6.models]; exact f15.models,
               by rw [f9.queue, f8.queue, f7.queue, f6.queue]; exact f15.queue,
               by rw [f9.nextTag, f8.nextTag, f7.nextTag, f6.nextTag]; exact f15.nextTag⟩
      · rw [f9.mstate, f8.mstate, f7.mstate, f6.mstate]
        simp [St.setState, applyTo, f15.mstate]
      · rw [l9, l8, l7, l6]
        simp only [St.setState]
        rw [l5, l4, l3, l2, l1]; simp
      · intro st' h; cases h; rw [hdd]; rfl
      · intro rest
        simp only [Accepts] at a1 a2 a3 a4 a5 a6 a7 a8 a9
        simp [expectCand, C01.andThen, List.append_assoc, a1, a2, a3, a4, a5, a6, a7, a8, a9, hd, hs, hdd]

theorem tryTransitions_ok (hR : NoRaise sc) (hC : NoCmds sc) (x : Ctx) :
    ∀ (ts : List Trans) (s : St),
    (∀ t ∈ ts, t.source = s.stateOf x.model ∧ cfg.TransOK t) →
    alookup x.model s.mstate = some (s.stateOf x.model) →
    ∃ (r : Option Nat) (s' : St) (seg : List Item),
      tryTransitions sub sc cfg x ts s = .ok r.isSome s' ∧ Frame' s s' ∧
      s'.mstate = applyTo s.mstate x.model r ∧ s'.log = s.log ++ seg ∧
      (∀ st', r = some st' → (cfg.state? st').isSome) ∧
      Accepts (expectCands cfg x.model x.tag (s.stateOf x.model) ts) seg r := by
  intro ts
  induction ts with
  | nil =>
    intro s _ _
    refine ⟨none, s, [], rfl, ⟨rfl, rfl, rfl⟩, rfl, by simp, ?_, fun _ => rfl⟩
    intro _ h; cases h
  | cons t ts ih =>
    intro s hts hm
    obtain ⟨hsrc, hok⟩ := hts t (List.mem_cons_self ..)
    obtain ⟨r, s1, g1, e1, f1, m1, l1, reg1, a1⟩ := execute_ok sub sc cfg hR hC x t s hsrc hm hok
    cases r with
    | some st' =>
      refine ⟨some st', s1, g1, ?_, f1, m1, l1, reg1, ?_⟩
      · simp [tryTransitions, e1, Res.bind]
      · intro rest
        simp only [Accepts] at a1
        simp [expectCands, a1]
    | none =>
      have hm1 : s1.mstate = s.mstate := by simpa [applyTo] using m1
      have hst : s1.stateOf x.model = s.stateOf x.model := by simp [St.stateOf, hm1]
      obtain ⟨r2, s2, g2, e2, f2, m2, l2, reg2, a2⟩ := ih s1
        (fun t' ht' => by rw [hst]; exact hts t' (List.mem_cons_of_mem _ ht'))
        (by rw [hm1, hst]; exact hm)
      refine ⟨r2, s2, g1 ++ g2, ?_, f1.trans f2, ?_, ?_, reg2, ?_⟩
      · simp [tryTransitions, e1, Res.bind, e2]
      · rw [m2, hm1]
      · rw [l2, l1]; simp
      · intro rest
        simp only [Accepts] at a1 a2
        rw [hst] at a2
        simp [expectCands, List.append_assoc, a1, a2]

theorem candidates_spec {ts : List Trans} {src : Nat} {cs : List Trans} (h : candidates ts src = some cs) :
    ∀ t ∈ cs, t.source = src ∧ t ∈ ts := by
  unfold candidates at h
  split at h
  · cases h
  · cases h
    intro t ht
    have := List.mem_filter.mp ht
    exact ⟨by simpa using this.2, this.1⟩

/-- every model that has a state value has a registered one -/
def StatesRegistered (s : St) : Prop := ∀ m st, alookup m s.mstate = some st → (cfg.state? st).isSome

theorem stateOf_of_lookup {s : St} {m st : Nat} (h : alookup m s.mstate = some st) : s.stateOf m = st := by
  simp [St.stateOf, h]

/-- the item that reports the outcome of a trigger call -/
def outItem (tag : Nat) : Option Bool → Item
  | some b => .ret tag b
  | none => .raised tag .machineError

def outRes (s' : St) : Option Bool → R Bool
  | some b => .ok b s'
  | none => .err .machineError s'

theorem runFinalize_ok (hR : NoRaise sc) (hC : NoCmds sc) (x : Ctx) (sa : St) :
    ∃ sb g, runFinalize sub sc cfg x sa = some sb ∧ Frame sa sb ∧
      sb.log = sa.log ++ g ∧ Accepts (expectCbs .finalize x.model x.tag (sa.stateOf x.model) cfg.finalize) g () := by
  obtain ⟨sb, g, e, f, l, a⟩ := callbacks_ok sub sc hR hC .finalize x cfg.finalize sa
  exact ⟨sb, g, by simp [runFinalize, e], f, l, a⟩

/-- `Event._trigger` on a model whose state is registered. -/
theorem eventTrigger_ok (hR : NoRaise sc) (hC : NoCmds sc) (hWF : cfg.WF)
    (m ev tag : Nat) (s : St) (src : Nat) (ts : List Trans)
    (hev : cfg.event? ev = some ts) (hm : alookup m s.mstate = some src) (hreg : (cfg.state? src).isSome) :
    ∃ (out : Option Bool) (s' : St) (st' : Nat) (seg : List Item),
      eventTrigger sub sc cfg ts ⟨m, tag⟩ s = outRes s' out ∧ Frame' s s' ∧
      s'.mstate = aset m st' s.mstate ∧ s'.log = s.log ++ seg ∧ (cfg.state? st').isSome ∧
      ∀ rest, expectEvent cfg m tag src ev (seg ++ outItem tag out :: rest) = some (st', rest) := by
  obtain ⟨sdef, hsd⟩ := Option.isSome_iff_exists.mp hreg
  have hst : s.stateOf m = src := stateOf_of_lookup hm
  have hsame : aset m src s.mstate = s.mstate := aset_same _ _ _ hm
  cases hc : candidates ts src with
  | none =>
    by_cases hig : ignoreInvalid cfg src = true
    · obtain ⟨sb, g, e, f, l, a⟩ := runFinalize_ok sub sc cfg hR hC ⟨m, tag⟩ s
      simp only [hst, Accepts] at a
      refine ⟨some false, sb, src, g, ?_, f.toFrame', by rw [f.mstate, hsame], l, hreg, ?_⟩
      · simp [eventTrigger, hst, hsd, hc, hig, guarded, exceptClause, finallyClause, e, outRes]
      · intro rest
        simp [expectEvent, hev, hc, hig, C01.andThen, a, outItem]
    · cases hex : cfg.onException with
      | nil =>
        obtain ⟨sb, g, e, f, l, a⟩ := runFinalize_ok sub sc cfg hR hC ⟨m, tag⟩ s
        simp only [hst, Accepts] at a
        refine ⟨none, sb, src, g, ?_, f.toFrame', by rw [f.mstate, hsame], l, hreg, ?_⟩
        · simp [eventTrigger, hst, hsd, hc, hig, guarded, exceptClause, finallyClause, hex, e, outRes]
        · intro rest
          simp [expectEvent, hev, hc, hig, hex, C01.andThen, a, outItem]
      | cons h0 hs =>
        obtain ⟨sa, g0, e0, f0, l0, a0⟩ := callbacks_ok sub sc hR hC .onException ⟨m, tag⟩ (h0 :: hs) s
        obtain ⟨sb, g, e, f, l, a⟩ := runFinalize_ok sub sc cfg hR hC ⟨m, tag⟩ sa
        simp only [f0.stateOf, hst, Accepts] at a a0
        refine ⟨some false, sb, src, g0 ++ g, ?_, (f0.trans f).toFrame', by rw [f.mstate, f0.mstate, hsame], ?_, hreg, ?_⟩
        · simp [eventTrigger, hst, hsd, hc, hig, guarded, exceptClause, finallyClause, hex, e0, Res.bind, e, outRes]
        · rw [l, l0]; simp
        · intro rest
          simp [expectEvent, hev, hc, hig, hex, C01.andThen, List.append_assoc, a0, a, outItem]
  | some cs =>
    have hcs := candidates_spec hc
    obtain ⟨s1, g1, e1, f1, l1, a1⟩ := callbacks_ok sub sc hR hC .prepareEvent ⟨m, tag⟩ cfg.prepareEvent s
    have hst1 : s1.stateOf m = src := by rw [f1.stateOf]; exact hst
    obtain ⟨r, s2, g2, e2, f2, m2, l2, reg2, a2⟩ := tryTransitions_ok sub sc cfg hR hC ⟨m, tag⟩ cs s1
      (fun t ht => ⟨by rw [hst1]; exact (hcs t ht).1, hWF ev ts hev t (hcs t ht).2⟩)
      (by rw [f1.mstate, hst1]; exact hm)
    obtain ⟨sb, g, e, f, l, a⟩ := runFinalize_ok sub sc cfg hR hC ⟨m, tag⟩ s2
    have hst2 : s2.stateOf m = r.getD src := by
      cases r with
      | none => simp [St.stateOf, m2, applyTo, f1.mstate, hm]
      | some st' => simp [St.stateOf, m2, applyTo, alookup_aset_self]
    simp only [hst, hst1, hst2, Accepts] at a a1 a2
    refine ⟨some r.isSome, sb, r.getD src, g1 ++ g2 ++ g, ?_, (f1.toFrame'.trans f2).trans f.toFrame', ?_, ?_, ?_, ?_⟩
    · simp [eventTrigger, hst, hsd, hc, eventProcess, e1, Res.bind, e2, guarded, exceptClause, finallyClause, e, outRes]
    · rw [f.mstate, m2, f1.mstate]
      cases r with
      | none => simp [applyTo, hsame]
      | some st' => simp [applyTo]
    · rw [l, l2, l1]; simp
    · cases r with
      | none => simpa using hreg
      | some st' => simpa using reg2 st' rfl
    · intro rest
      simp [expectEvent, hev, hc, C01.andThen, List.append_assoc, a1, a2, a, outItem]

/-- One top-level trigger call (by name) on an idle, unqueued machine: the log grows by the `api`
item followed by a segment that the documented-order acceptor accepts. -/
theorem apiTrigger_ok (hR : NoRaise sc) (hC : NoCmds sc) (hWF : cfg.WF) (hq : cfg.queued = false)
    (qmax m ev : Nat) (s : St) (src : Nat) (ts : List Trans)
    (hev : cfg.event? ev = some ts) (hm : alookup m s.mstate = some src) (hreg : (cfg.state? src).isSome)
    (hidle : s.queue = []) :
    ∃ (s' : St) (st' : Nat) (seg : List Item),
      (apiTrigger sub sc cfg qmax m ev s).state? = some s' ∧
      s'.log = s.log ++ .api 0 s.nextTag m ev :: seg ∧
      s'.mstate = aset m st' s.mstate ∧ s'.queue = [] ∧ s'.models = s.models ∧
      s'.nextTag = s.nextTag + 1 ∧ (cfg.state? st').isSome ∧
      Accepts (expectEvent cfg m s.nextTag src ev) seg st' := by
  let s1 : St := ({ s with nextTag := s.nextTag + 1 }).emit (.api 0 s.nextTag m ev)
  obtain ⟨out, s2, st', seg, e, f, ms, l, reg, a⟩ :=
    eventTrigger_ok sub sc cfg hR hC hWF m ev s.nextTag s1 src ts hev hm hreg
  have hstep : triggerByName sub sc cfg qmax m ev s.nextTag s1 = outRes s2 out := by
    have : (alookup m s1.mstate).isNone = false := by
      show (alookup m s.mstate).isNone = false
      simp [hm]
    simp only [triggerByName, this, hev, machineProcess, hq]
    have hq1 : s1.queue = [] := hidle
    simp [hq1, e]
  refine ⟨s2.emit (outItem s.nextTag out), st', seg ++ [outItem s.nextTag out], ?_, ?_, ?_, ?_, ?_, ?_, reg, ?_⟩
  · cases out <;> simp [apiTrigger, s1, outRes, outItem, Res.state?] at hstep ⊢ <;> simp [hstep]
  · simp [St.emit, l, s1]
  · simpa [St.emit, s1] using ms
  · simpa [St.emit, s1] using f.queue.trans hidle
  · simpa [St.emit, s1] using f.models
  · simpa [St.emit, s1] using f.nextTag
  · intro rest
    simpa using a rest

end TM
