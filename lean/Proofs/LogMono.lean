/-
  Proofs/LogMono.lean — the trace only grows: every engine function, for EVERY script (re-entrant commands,
  raising callbacks) and every interpreter of re-entrant commands that itself only appends, leaves the log it was
  given as a prefix of the log it returns.  Used for the "processed immediately and completely" clause of C05.
-/
import Model.Core

namespace TM

/-- every completed run of `r` (normal or exceptional) extends the log of `s` -/
def Grows {α} (r : R α) (s : St) : Prop := ∀ s', r.state? = some s' → ∃ seg, s'.log = s.log ++ seg

theorem Grows.ok {α} (a : α) (s : St) : Grows (.ok a s : R α) s := by
  intro s' h; simp [Res.state?] at h; subst h; exact ⟨[], by simp⟩
theorem Grows.err {α} (e : Exc) (s : St) : Grows (.err e s : R α) s := by
  intro s' h; simp [Res.state?] at h; subst h; exact ⟨[], by simp⟩
theorem Grows.oof {α} (s : St) : Grows (.oof : R α) s := by
  intro s' h; simp [Res.state?] at h

/-- transitivity through an intermediate state whose log extends `s0`'s -/
theorem Grows.from {α} {r : R α} {s0 s : St} (h0 : ∃ g, s.log = s0.log ++ g) (h : Grows r s) : Grows r s0 := by
  intro s' hs
  obtain ⟨g, hg⟩ := h0
  obtain ⟨g', hg'⟩ := h s' hs
  exact ⟨g ++ g', by rw [hg', hg, List.append_assoc]⟩

theorem Grows.bind {α β} {r : R α} {f : α → St → R β} {s : St}
    (h1 : Grows r s) (h2 : ∀ a s1, Grows (f a s1) s1) : Grows (r.bind f) s := by
  intro s' h
  cases r with
  | ok a s1 => exact Grows.from (h1 s1 rfl) (h2 a s1) s' h
  | err e s1 => simp [Res.bind, Res.state?] at h; subst h; exact h1 s1 rfl
  | oof => simp [Res.bind, Res.state?] at h

/-- the interpreter of re-entrant commands only appends -/
def SubGrows (sub : Sub) : Prop := ∀ c s, Grows (sub c s) s

theorem emit_grows (s : St) (i : Item) : ∃ g, (s.emit i).log = s.log ++ g := ⟨[i], rfl⟩

variable {sub : Sub} (hsub : SubGrows sub) (sc : Script) (cfg : Cfg)
include hsub

theorem runCmds_grows : ∀ (cs : List Cmd) (s : St), Grows (runCmds sub cs s) s
  | [], s => Grows.ok _ _
  | c :: cs, s => by
    unfold runCmds
    exact Grows.bind (hsub c s) (fun _ s1 => runCmds_grows cs s1)

theorem invoke_grows (slot : Slot) (x : Ctx) (c : Nat) (s : St) : Grows (invoke sub sc slot x c s) s := by
  unfold invoke
  simp only []
  have h0 : ∃ g, (({ s with counts := aset c (s.count c + 1) s.counts } : St).emit
      (.call slot c x.model x.tag (({ s with counts := aset c (s.count c + 1) s.counts } : St).stateOf x.model))).log = s.log ++ g :=
    ⟨[_], rfl⟩
  refine Grows.from h0 ?_
  intro s' h
  have hc := runCmds_grows hsub (sc c (s.count c)).cmds (({ s with counts := aset c (s.count c + 1) s.counts } : St).emit
      (.call slot c x.model x.tag (({ s with counts := aset c (s.count c + 1) s.counts } : St).stateOf x.model)))
  cases hr : runCmds sub (sc c (s.count c)).cmds (({ s with counts := aset c (s.count c + 1) s.counts } : St).emit
      (.call slot c x.model x.tag (({ s with counts := aset c (s.count c + 1) s.counts } : St).stateOf x.model))) with
  | oof => rw [hr] at h; simp [Res.state?] at h
  | err e s3 =>
    rw [hr] at h; simp [Res.state?] at h; subst h
    obtain ⟨g, hg⟩ := hc s3 (by simp [hr, Res.state?])
    exact ⟨g ++ [.done c (.raise e)], by simp [St.emit, hg]⟩
  | ok u s3 =>
    rw [hr] at h
    obtain ⟨g, hg⟩ := hc s3 (by simp [hr, Res.state?])
    cases ho : (sc c (s.count c)).out with
    | ret b => simp [ho, Res.state?] at h; subst h; exact ⟨g ++ [.done c (.ret b)], by simp [St.emit, hg]⟩
    | raise e => simp [ho, Res.state?] at h; subst h; exact ⟨g ++ [.done c (.raise e)], by simp [St.emit, hg]⟩

theorem callbacks_grows (slot : Slot) (x : Ctx) : ∀ (cbs : List Nat) (s : St), Grows (callbacks sub sc slot x cbs s) s
  | [], s => Grows.ok _ _
  | c :: cs, s => by
    unfold callbacks
    exact Grows.bind (invoke_grows hsub sc slot x c s) (fun _ s1 => callbacks_grows slot x cs s1)

theorem evalConds_grows (x : Ctx) : ∀ (cs : List Cond) (s : St), Grows (evalConds sub sc x cs s) s
  | [], s => Grows.ok _ _
  | c :: cs, s => by
    unfold evalConds
    refine Grows.bind (invoke_grows hsub sc _ x c.cb s) ?_
    intro b s1
    split
    · exact evalConds_grows x cs s1
    · exact Grows.ok _ _

theorem changeState_grows (x : Ctx) (t : Trans) (d : Nat) (s : St) : Grows (changeState sub sc cfg x t d s) s := by
  unfold changeState
  cases cfg.state? (s.stateOf x.model) with
  | none => exact Grows.err _ _
  | some src =>
    refine Grows.bind (callbacks_grows hsub sc _ x _ s) ?_
    intro _ s1
    cases cfg.state? d with
    | none => exact Grows.err _ _
    | some dd =>
      refine Grows.from (s := s1.setState x.model d) ⟨[], by simp [St.setState]⟩ (Grows.bind (callbacks_grows hsub sc _ x _ _) ?_)
      intro _ s3
      by_cases hf : dd.final
      · simp only [hf, if_true]; exact callbacks_grows hsub sc _ x _ s3
      · simp only [hf]; exact Grows.ok _ _

theorem execute_grows (x : Ctx) (t : Trans) (s : St) : Grows (execute sub sc cfg x t s) s := by
  unfold execute
  refine Grows.bind (callbacks_grows hsub sc _ x _ s) fun _ s1 => ?_
  refine Grows.bind (evalConds_grows hsub sc x _ s1) fun ok s2 => ?_
  cases ok with
  | false => exact Grows.ok _ _
  | true =>
    simp only [Bool.not_true, Bool.false_eq_true, if_false]
    refine Grows.bind (callbacks_grows hsub sc _ x _ s2) fun _ s3 => ?_
    refine Grows.bind (callbacks_grows hsub sc _ x _ s3) fun _ s4 => ?_
    have hcs : Grows (match t.dest with
        | some d => changeState sub sc cfg x t d s4
        | none => (.ok () s4 : R Unit)) s4 := by
      cases t.dest with
      | none => exact Grows.ok _ _
      | some d => exact changeState_grows hsub sc cfg x t d s4
    refine Grows.bind hcs fun _ s5 => ?_
    refine Grows.bind (callbacks_grows hsub sc _ x _ s5) fun _ s6 => ?_
    refine Grows.bind (callbacks_grows hsub sc _ x _ s6) fun _ s7 => ?_
    exact Grows.ok _ _

theorem tryTransitions_grows (x : Ctx) : ∀ (ts : List Trans) (s : St), Grows (tryTransitions sub sc cfg x ts s) s
  | [], s => Grows.ok _ _
  | t :: ts, s => by
    unfold tryTransitions
    refine Grows.bind (execute_grows hsub sc cfg x t s) fun ok s1 => ?_
    cases ok with
    | true => exact Grows.ok _ _
    | false => exact tryTransitions_grows x ts s1

theorem guarded_grows (x : Ctx) (body : R Bool) (s : St) (hb : Grows body s) : Grows (guarded sub sc cfg x body) s := by
  have hfin : ∀ sa sb, runFinalize sub sc cfg x sa = some sb → ∃ g, sb.log = sa.log ++ g := by
    intro sa sb h
    unfold runFinalize at h
    have := callbacks_grows hsub sc .finalize x cfg.finalize sa
    cases hc : callbacks sub sc .finalize x cfg.finalize sa with
    | ok u s1 => simp [hc] at h; subst h; exact this s1 (by simp [hc, Res.state?])
    | err e s1 => simp [hc] at h; subst h; exact this s1 (by simp [hc, Res.state?])
    | oof => simp [hc] at h
  have hex : Grows (exceptClause sub sc cfg x body) s := by
    cases body with
    | ok b s1 => exact hb
    | oof => exact Grows.oof _
    | err e s1 =>
      unfold exceptClause
      cases cfg.onException with
      | nil => exact hb
      | cons h0 hs =>
        refine Grows.from (hb s1 rfl) (Grows.bind (callbacks_grows hsub sc _ x _ s1) fun _ s2 => Grows.ok _ _)
  intro s' h
  unfold guarded finallyClause at h
  cases he : exceptClause sub sc cfg x body with
  | ok b s1 =>
    simp only [he] at h
    cases hf : runFinalize sub sc cfg x s1 with
    | none => simp [hf, Res.state?] at h
    | some sb =>
      simp [hf, Res.state?] at h; subst h
      obtain ⟨g1, h1⟩ := hex s1 (by simp [he, Res.state?])
      obtain ⟨g2, h2⟩ := hfin s1 sb hf
      exact ⟨g1 ++ g2, by rw [h2, h1, List.append_assoc]⟩
  | err e s1 =>
    simp only [he] at h
    cases hf : runFinalize sub sc cfg x s1 with
    | none => simp [hf, Res.state?] at h
    | some sb =>
      simp [hf, Res.state?] at h; subst h
      obtain ⟨g1, h1⟩ := hex s1 (by simp [he, Res.state?])
      obtain ⟨g2, h2⟩ := hfin s1 sb hf
      exact ⟨g1 ++ g2, by rw [h2, h1, List.append_assoc]⟩
  | oof => simp [he, Res.state?] at h

theorem eventTrigger_grows (ts : List Trans) (x : Ctx) (s : St) : Grows (eventTrigger sub sc cfg ts x s) s := by
  simp only [eventTrigger]
  cases hsd : cfg.state? (s.stateOf x.model) with
  | none => exact Grows.err _ _
  | some sd =>
    simp only []
    apply guarded_grows hsub sc cfg
    cases candidates ts (s.stateOf x.model) with
    | none =>
      simp only []
      split
      · exact Grows.ok _ _
      · exact Grows.err _ _
    | some cs =>
      simp only [eventProcess]
      exact Grows.bind (callbacks_grows hsub sc _ x _ s) fun _ s1 => tryTransitions_grows hsub sc cfg x cs s1

end TM

namespace TM
variable {sub : Sub} (hsub : SubGrows sub) (sc : Script) (cfg : Cfg)
include hsub

theorem drain_grows : ∀ (n : Nat) (s : St), Grows (drain sub sc cfg n s) s
  | 0, s => Grows.oof _
  | n + 1, s => by
    unfold drain
    cases hq : s.queue with
    | nil => exact Grows.ok _ _
    | cons h rest =>
      obtain ⟨m, ev, tag⟩ := h
      simp only []
      intro s' hs'
      have he := eventTrigger_grows hsub sc cfg ((cfg.event? ev).getD []) ⟨m, tag⟩ s
      cases hr : eventTrigger sub sc cfg ((cfg.event? ev).getD []) ⟨m, tag⟩ s with
      | oof => rw [hr] at hs'; simp [Res.state?] at hs'
      | err e s1 =>
        rw [hr] at hs'; simp [Res.state?] at hs'; subst hs'
        exact he s1 (by simp [hr, Res.state?])
      | ok b s1 =>
        rw [hr] at hs'
        have h1 := he s1 (by simp [hr, Res.state?])
        exact Grows.from (s := { s1 with queue := s1.queue.drop 1 }) h1 (drain_grows n _) s' hs'

theorem machineProcess_grows (qmax m ev tag : Nat) (s : St) : Grows (machineProcess sub sc cfg qmax m ev tag s) s := by
  unfold machineProcess
  by_cases hq : cfg.queued
  · simp only [hq, Bool.not_true, Bool.false_eq_true, if_false]
    split
    · exact Grows.ok _ _
    · exact Grows.from (s := { s with queue := s.queue ++ [(m, ev, tag)] }) ⟨[], by simp⟩
        (Grows.bind (drain_grows hsub sc cfg qmax _) fun _ s1 => Grows.ok _ _)
  · simp only [hq, Bool.not_false, if_true]
    cases s.queue with
    | nil => exact eventTrigger_grows hsub sc cfg _ _ s
    | cons _ _ => exact Grows.err _ _

theorem triggerByName_grows (qmax m ev tag : Nat) (s : St) : Grows (triggerByName sub sc cfg qmax m ev tag s) s := by
  unfold triggerByName
  split
  · exact Grows.err _ _
  · cases cfg.event? ev with
    | some ts => exact machineProcess_grows hsub sc cfg qmax m ev tag s
    | none =>
      simp only []
      cases cfg.state? (s.stateOf m) with
      | none => exact Grows.err _ _
      | some _ =>
        simp only []
        split
        · exact Grows.ok _ _
        · exact Grows.err _ _

theorem mayLoop_grows (x : Ctx) : ∀ (ts : List Trans) (s : St), Grows (mayLoop sub sc cfg x ts s) s
  | [], s => Grows.ok _ _
  | t :: ts, s => by
    unfold mayLoop
    cases destOk cfg t with
    | false => simpa using mayLoop_grows x ts s
    | true =>
      simp only [Bool.not_true, Bool.false_eq_true, if_false]
      have hatt : Grows ((callbacks sub sc .prepareEvent x cfg.prepareEvent s).bind fun _ s1 =>
          (callbacks sub sc .prepare x t.prepare s1).bind fun _ s2 => evalConds sub sc x t.conds s2) s :=
        Grows.bind (callbacks_grows hsub sc _ x _ s) fun _ s1 =>
          Grows.bind (callbacks_grows hsub sc _ x _ s1) fun _ s2 => evalConds_grows hsub sc x _ s2
      intro s' hs'
      generalize ((callbacks sub sc .prepareEvent x cfg.prepareEvent s).bind fun _ s1 =>
          (callbacks sub sc .prepare x t.prepare s1).bind fun _ s2 => evalConds sub sc x t.conds s2) = att at hatt hs'
      cases att with
      | oof => simp [Res.state?] at hs'
      | ok b sa =>
        cases b with
        | true => simp [Res.state?] at hs'; subst hs'; exact hatt sa rfl
        | false => exact Grows.from (hatt sa rfl) (mayLoop_grows x ts sa) s' hs'
      | err e sa =>
        have hrest : Grows ((match cfg.onException with
            | [] => (.err e sa : R Unit)
            | hs => callbacks sub sc .onException x hs sa).bind fun _ s'' => mayLoop sub sc cfg x ts s'') sa := by
          refine Grows.bind ?_ (fun _ s2 => mayLoop_grows x ts s2)
          cases cfg.onException with
          | nil => exact Grows.err _ _
          | cons h0 hs => exact callbacks_grows hsub sc _ x _ sa
        exact Grows.from (hatt sa rfl) hrest s' hs'

theorem canTrigger_grows (m ev tag : Nat) (s : St) : Grows (canTrigger sub sc cfg m ev tag s) s := by
  unfold canTrigger
  split
  · exact Grows.err _ _
  · simp only []
    cases cfg.state? (s.stateOf m) with
    | none => exact Grows.err _ _
    | some _ =>
      simp only []
      cases cfg.event? ev with
      | none => exact Grows.ok _ _
      | some ts =>
        simp only []
        cases candidates ts (s.stateOf m) with
        | none => exact Grows.ok _ _
        | some cs => exact mayLoop_grows hsub sc cfg _ cs s

theorem dispatchLoop_grows (qmax ev tag : Nat) : ∀ (n i : Nat) (acc : Bool) (s : St),
    Grows (dispatchLoop sub sc cfg qmax ev tag n i acc s) s
  | 0, _, _, s => Grows.oof _
  | n + 1, i, acc, s => by
    unfold dispatchLoop
    cases s.models[i]? with
    | none => exact Grows.ok _ _
    | some m =>
      exact Grows.bind (triggerByName_grows hsub sc cfg qmax m ev tag s) fun b s1 =>
        dispatchLoop_grows qmax ev tag n (i + 1) (acc && b) s1

/-- shape of one API trigger call: the `api` item first, the call's own outcome item last -/
theorem apiTrigger_shape (qmax m ev : Nat) (s : St) :
    ∀ s', (apiTrigger sub sc cfg qmax m ev s).state? = some s' →
      ∃ mid out, s'.log = s.log ++ Item.api 0 s.nextTag m ev :: mid ++ [out] ∧
        ((∃ b, out = .ret s.nextTag b) ∨ ∃ e, out = .raised s.nextTag e) := by
  intro s' h
  unfold apiTrigger at h
  simp only [] at h
  have hg := triggerByName_grows hsub sc cfg qmax m ev s.nextTag
    (({ s with nextTag := s.nextTag + 1 } : St).emit (.api 0 s.nextTag m ev))
  cases hr : triggerByName sub sc cfg qmax m ev s.nextTag
      (({ s with nextTag := s.nextTag + 1 } : St).emit (.api 0 s.nextTag m ev)) with
  | oof => rw [hr] at h; simp [Res.state?] at h
  | ok b s1 =>
    rw [hr] at h; simp [Res.state?] at h; subst h
    obtain ⟨g, hg1⟩ := hg s1 (by simp [hr, Res.state?])
    exact ⟨g, .ret s.nextTag b, by simp [St.emit, hg1], Or.inl ⟨b, rfl⟩⟩
  | err e s1 =>
    rw [hr] at h; simp [Res.state?] at h; subst h
    obtain ⟨g, hg1⟩ := hg s1 (by simp [hr, Res.state?])
    exact ⟨g, .raised s.nextTag e, by simp [St.emit, hg1], Or.inr ⟨e, rfl⟩⟩

end TM

namespace TM

/-- what follows an emitted `api` item: if the wrapped computation only appends, so does the whole call -/
theorem wrap_grows {α} (s s1 : St) (i : Item) (h1 : s1.log = s.log ++ [i]) (r : R α) (hr : Grows r s1)
    (f : α → Item) (g : Exc → Item) (s' : St)
    (h : (match r with
      | .ok a s2 => (.ok a (s2.emit (f a)) : R α)
      | .err e s2 => .err e (s2.emit (g e))
      | .oof => .oof).state? = some s') : ∃ seg, s'.log = s.log ++ seg := by
  cases r with
  | oof => simp [Res.state?] at h
  | ok a s2 =>
    simp [Res.state?] at h; subst h
    obtain ⟨g2, h2⟩ := hr s2 rfl
    exact ⟨[i] ++ g2 ++ [f a], by simp [St.emit, h2, h1]⟩
  | err e s2 =>
    simp [Res.state?] at h; subst h
    obtain ⟨g2, h2⟩ := hr s2 rfl
    exact ⟨[i] ++ g2 ++ [g e], by simp [St.emit, h2, h1]⟩

variable {sub : Sub} (hsub : SubGrows sub) (sc : Script) (cfg : Cfg)

theorem apiMay_grows (hsub : SubGrows sub) (m ev : Nat) (s : St) : Grows (apiMay sub sc cfg m ev s) s := by
  intro s' h
  dsimp only [apiMay] at h
  have hg := canTrigger_grows hsub sc cfg m ev s.nextTag (({ s with nextTag := s.nextTag + 1 } : St).emit (.api 1 s.nextTag m ev))
  cases hr : canTrigger sub sc cfg m ev s.nextTag (({ s with nextTag := s.nextTag + 1 } : St).emit (.api 1 s.nextTag m ev)) with
  | oof => rw [hr] at h; simp [Res.state?] at h
  | ok a s2 =>
    rw [hr] at h; simp [Res.state?] at h; subst h
    obtain ⟨g2, h2⟩ := hg s2 (by simp [hr, Res.state?])
    exact ⟨[.api 1 s.nextTag m ev] ++ g2 ++ [.ret s.nextTag a], by simp [St.emit, h2]⟩
  | err e s2 =>
    rw [hr] at h; simp [Res.state?] at h; subst h
    obtain ⟨g2, h2⟩ := hg s2 (by simp [hr, Res.state?])
    exact ⟨[.api 1 s.nextTag m ev] ++ g2 ++ [.raised s.nextTag e], by simp [St.emit, h2]⟩

theorem apiDispatch_grows (hsub : SubGrows sub) (qmax ev : Nat) (s : St) : Grows (apiDispatch sub sc cfg qmax ev s) s := by
  intro s' h
  dsimp only [apiDispatch] at h
  have hg := dispatchLoop_grows hsub sc cfg qmax ev s.nextTag (qmax + (({ s with nextTag := s.nextTag + 1 } : St).emit (.api 2 s.nextTag 0 ev)).models.length + 1) 0 true (({ s with nextTag := s.nextTag + 1 } : St).emit (.api 2 s.nextTag 0 ev))
  cases hr : dispatchLoop sub sc cfg qmax ev s.nextTag (qmax + (({ s with nextTag := s.nextTag + 1 } : St).emit (.api 2 s.nextTag 0 ev)).models.length + 1) 0 true (({ s with nextTag := s.nextTag + 1 } : St).emit (.api 2 s.nextTag 0 ev)) with
  | oof => rw [hr] at h; simp [Res.state?] at h
  | ok a s2 =>
    rw [hr] at h; simp [Res.state?] at h; subst h
    obtain ⟨g2, h2⟩ := hg s2 (by simp [hr, Res.state?])
    exact ⟨[.api 2 s.nextTag 0 ev] ++ g2 ++ [.ret s.nextTag a], by simp [St.emit, h2]⟩
  | err e s2 =>
    rw [hr] at h; simp [Res.state?] at h; subst h
    obtain ⟨g2, h2⟩ := hg s2 (by simp [hr, Res.state?])
    exact ⟨[.api 2 s.nextTag 0 ev] ++ g2 ++ [.raised s.nextTag e], by simp [St.emit, h2]⟩

theorem removeModel_grows (m : Nat) (s : St) : Grows (removeModel m s) s := by
  intro s' h
  unfold removeModel at h
  by_cases hm : m ∈ s.models
  · simp only [hm, if_true] at h
    cases hq : s.queue with
    | nil => simp [hq, Res.state?] at h; subst h; exact ⟨[], by simp⟩
    | cons hd rest => simp [hq, Res.state?] at h; subst h; exact ⟨[], by simp⟩
  · simp only [hm, if_false, Res.state?] at h
    cases h; exact ⟨[], by simp⟩

theorem addModel_grows (m : Nat) (s : St) : Grows (addModel cfg m s) s := by
  intro s' h
  unfold addModel at h
  by_cases hm : m ∈ s.models
  · simp only [hm, if_true, Res.state?] at h; cases h; exact ⟨[], by simp⟩
  · simp only [hm, if_false] at h
    cases hi : cfg.state? cfg.initial with
    | none => simp [hi, Res.state?] at h; subst h; exact ⟨[], by simp⟩
    | some _ => simp [hi, Res.state?] at h; subst h; exact ⟨[], by simp [St.setState]⟩

theorem apiRemove_grows (m : Nat) (s : St) : Grows (apiRemove m s) s := by
  intro s' h
  dsimp only [apiRemove] at h
  have hg := removeModel_grows m (({ s with nextTag := s.nextTag + 1 } : St).emit (.api 3 s.nextTag m 0))
  cases hr : removeModel m (({ s with nextTag := s.nextTag + 1 } : St).emit (.api 3 s.nextTag m 0)) with
  | oof => rw [hr] at h; simp [Res.state?] at h
  | ok a s2 =>
    rw [hr] at h; simp [Res.state?] at h; subst h
    obtain ⟨g2, h2⟩ := hg s2 (by simp [hr, Res.state?])
    exact ⟨[.api 3 s.nextTag m 0] ++ g2 ++ [.ret s.nextTag true], by simp [St.emit, h2]⟩
  | err e s2 =>
    rw [hr] at h; simp [Res.state?] at h; subst h
    obtain ⟨g2, h2⟩ := hg s2 (by simp [hr, Res.state?])
    exact ⟨[.api 3 s.nextTag m 0] ++ g2 ++ [.raised s.nextTag e], by simp [St.emit, h2]⟩

theorem apiAdd_grows (m : Nat) (s : St) : Grows (apiAdd cfg m s) s := by
  intro s' h
  dsimp only [apiAdd] at h
  have hg := addModel_grows cfg m (({ s with nextTag := s.nextTag + 1 } : St).emit (.api 4 s.nextTag m 0))
  cases hr : addModel cfg m (({ s with nextTag := s.nextTag + 1 } : St).emit (.api 4 s.nextTag m 0)) with
  | oof => rw [hr] at h; simp [Res.state?] at h
  | ok a s2 =>
    rw [hr] at h; simp [Res.state?] at h; subst h
    obtain ⟨g2, h2⟩ := hg s2 (by simp [hr, Res.state?])
    exact ⟨[.api 4 s.nextTag m 0] ++ g2 ++ [.ret s.nextTag true], by simp [St.emit, h2]⟩
  | err e s2 =>
    rw [hr] at h; simp [Res.state?] at h; subst h
    obtain ⟨g2, h2⟩ := hg s2 (by simp [hr, Res.state?])
    exact ⟨[.api 4 s.nextTag m 0] ++ g2 ++ [.raised s.nextTag e], by simp [St.emit, h2]⟩

theorem Grows.map {α β} {r : R α} {s : St} (h : Grows r s) (f : α → β) : Grows (r.map f) s := by
  intro s' hs
  cases r <;> simp [Res.map, Res.state?] at hs ⊢
  · exact h _ (by simp [Res.state?, hs])
  · exact h _ (by simp [Res.state?, hs])

/-- the interpreter of commands only appends, at every fuel -/
theorem runCmd_grows (sc : Script) (cfg : Cfg) (qmax : Nat) : ∀ f, SubGrows (runCmd sc cfg qmax f)
  | 0 => fun _ s => Grows.oof s
  | f + 1 => by
    have ih := runCmd_grows sc cfg qmax f
    intro c s
    cases c with
    | trigger m ev =>
      show Grows ((apiTrigger (runCmd sc cfg qmax f) sc cfg qmax m ev s).map fun _ => ()) s
      refine Grows.map ?_ _
      intro s' h
      obtain ⟨mid, out, hl, _⟩ := apiTrigger_shape ih sc cfg qmax m ev s s' h
      exact ⟨Item.api 0 s.nextTag m ev :: mid ++ [out], by rw [hl]; simp⟩
    | may m ev =>
      show Grows ((apiMay (runCmd sc cfg qmax f) sc cfg m ev s).map fun _ => ()) s
      exact Grows.map (apiMay_grows sc cfg ih m ev s) _
    | dispatch ev =>
      show Grows ((apiDispatch (runCmd sc cfg qmax f) sc cfg qmax ev s).map fun _ => ()) s
      exact Grows.map (apiDispatch_grows sc cfg ih qmax ev s) _
    | removeModel m => exact apiRemove_grows m s
    | addModel m => exact apiAdd_grows cfg m s

end TM
